"""Per-property configuration: proof obligations (Lean theorems), translators, correspondence streams, level."""

KERNEL_AXIOMS = {"propext", "Classical.choice", "Quot.sound"}

COMMON_TRUSTED = [
    "Lean 4.33.0 kernel (lake build; leanchecker re-check in the thorough tier)",
    "axioms allowed in claimed theorems: propext, Classical.choice, Quot.sound (audited with #print axioms on every run)",
    "Mathlib v4.33.0 modules imported by the proof files (compiled, read-only)",
    "the Go harness /verif/harness (generators, canonicalisation, oracles) and the compiled model driver texeldrv (the model itself)",
]

PROPS = {
    "C17": dict(
        level="proof",
        technique="Lean 4 theorems over definitions regenerated from morton/morton.go (translator trgen morton) + differential correspondence",
        module="Texel.Properties.C17",
        translators=["morton"],
        theorems=["Texel.C17.gen_toZ_eq", "Texel.C17.gen_fromZ_eq", "Texel.C17.C17_roundtrip", "Texel.C17.C17_injective",
                  "Texel.C17.C17_bit", "Texel.C17.C17_parent", "Texel.C17.C17_ok_iff", "Texel.C17.getQuadrantZs_spec"],
        streams=["tz", "gqz"],
        trusted=["translator trgen morton (go/ast, ~200 lines): morton.go -> Texel/Gen/Morton.lean, loops unrolled, tables inlined",
                 "Go's uint is 64 bit on the platform (modelled as BitVec 64)",
                 "getQuadrantZs is hand-modelled over the generated toZ/fromZ and tied by the gqz correspondence"],
        design_ref="DESIGN.md §6 C17",
        level_text="Theorems for all 2^64 pairs of 32-bit addresses (round trip, injectivity, bit layout, parent key = key>>2, ok iff both fit in 32 bits, "
                   "children keys of getQuadrantZs) about Lean definitions that are regenerated from morton/morton.go on every run, so a changed mask, shift or loop bound "
                   "breaks the proof; plus a differential run of the real ToZ/FromZ/MustToZ/getQuadrantZs against the model and an independent bit-interleaving oracle.",
        level_note="Trusted: Lean kernel, the ~200-line go/ast translator (narrow grammar, fails loudly), uint = 64 bit. getQuadrantZs is hand-modelled and tied by correspondence only.",
    ),
}

NOT_CLAIMED = {}
