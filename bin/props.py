"""Per-property configuration: proof obligations (Lean theorems), translators, correspondence streams, level."""

KERNEL_AXIOMS = {"propext", "Classical.choice", "Quot.sound"}

COMMON_TRUSTED = [
    "Lean 4.33.0 kernel (lake build; leanchecker re-check in the thorough tier)",
    "axioms allowed in claimed theorems: propext, Classical.choice, Quot.sound (audited with #print axioms on every run)",
    "Mathlib v4.33.0 modules imported by the proof files (compiled, read-only)",
    "the Go harness /verif/harness (generators, canonicalisation, oracles) and the compiled model driver texeldrv (the model itself)",
]

PROPS = {
    "C17": dict(
        level="proof",
        technique="Lean 4 theorems over definitions regenerated from morton/morton.go (translator trgen morton) + differential correspondence",
        module="Texel.Properties.C17",
        translators=["morton"],
        theorems=["Texel.C17.gen_toZ_eq", "Texel.C17.gen_fromZ_eq", "Texel.C17.C17_roundtrip", "Texel.C17.C17_injective",
                  "Texel.C17.C17_bit", "Texel.C17.C17_parent", "Texel.C17.C17_ok_iff", "Texel.C17.getQuadrantZs_spec"],
        streams=["tz", "gqz", "snap-above-32"],
        trusted=["translator trgen morton (go/ast, ~200 lines): morton.go -> Texel/Gen/Morton.lean, loops unrolled, tables inlined",
                 "Go's uint is 64 bit on the platform (modelled as BitVec 64)",
                 "getQuadrantZs is hand-modelled over the generated toZ/fromZ and tied by the gqz correspondence"],
        design_ref="DESIGN.md §6 C17",
        level_text="Theorems for all 2^64 pairs of 32-bit addresses (round trip, injectivity, bit layout, parent key = key>>2, ok iff both fit in 32 bits, "
                   "children keys of getQuadrantZs) about Lean definitions that are regenerated from morton/morton.go on every run, so a changed mask, shift or loop bound "
                   "breaks the proof; plus a differential run of the real ToZ/FromZ/MustToZ/getQuadrantZs against the model and an independent bit-interleaving oracle.",
        level_note="Trusted: Lean kernel, the ~200-line go/ast translator (narrow grammar, fails loudly), uint = 64 bit. getQuadrantZs is hand-modelled and tied by correspondence only.",
    ),
}

PROPS["C02"] = dict(
    level="proof",
    technique="Lean 4 theorems (exact pixel test; routing = hot pixels met, in travel order, by level induction) on a hand-written model + exhaustive/differential correspondence with pointindex",
    module="Texel.Properties.C02",
    translators=["arith", "lineint", "mathhelp", "quadrants"],
    theorems=["Texel.GenLineInt.gen_lineIntersects", "Texel.C02.C02_pixel_test_source", "Texel.GenMathhelp.gen_cmpProducts", "Texel.GenQuadrants.gen_findIntersectingQuadrants", "Texel.GenRoute.snapLevelSrc_eq", "Texel.C02.C02_routing_source", "Texel.GenArith.gen_containsPoint", "Texel.GenArith.gen_up", "Texel.GenArith.gen_extent", "Texel.C02.C02_pixel_test", "Texel.C02.C02_hot_closed", "Texel.C02.C02_routing", "Texel.C02.C02_routing_index",
              "Texel.C02.C02_nodup", "Texel.C02.C02_routed_nonempty", "Texel.C02.C02_second_sentence_ring", "Texel.C02.C02_second_sentence_polygon"],
    streams=["li", "li-large", "route", "route-random", "snap", "model-functional-vs-reference"],
    trusted=["Model.Geom/Model.Route are hand-written mirrors of containsPoint, lineIntersects, findIntersectingQuadrants, snapClosestPoints, InsertPoint, insertCoord; "
             "tied by the li/route correspondence (exhaustive small scopes) through the verif hooks XLineIntersects, XNew, InsertCoord, XSnapInt",
             "Morton-keyed maps are modelled as sets of (x,y) pairs (justified by the C17 theorems)",
             "int64 arithmetic of the code does not overflow (|coordinates| < 2^62; the 128-bit products are validated against math/big on coordinates up to 2^60)"],
    design_ref="DESIGN.md §6 C02",
    level_text="First sentence: theorems for every grid, segment, parent-closed hot set and level (no bound): the pixel test is exactly 'closed segment meets half-open pixel', "
               "the descent returns exactly the hot pixels met, without repetition, in travel order, and never nothing for a polygon edge. The model is tied to pointindex by an exhaustive "
               "correspondence (all 12 005 small li cases; thorough: all quarter-lattice segments x all 512 hot subsets of a 3x3 window at three placements) and the exact oracle runs on every implementation answer. "
               "Second sentence: proved ring by ring (a ring whose routed chain has at least three pixels and visits none twice comes back from cleanupNewRing = closing duplicate + kmpDeduplicate + splitRing as exactly that chain, correctly oriented: C02_second_sentence_ring) and for polygons without holes (exactly one polygon with exactly that ring: C02_second_sentence_polygon); for polygons with holes the assembly is decided per generated valid polygon by an oracle against the model's routed chains, plus the snap correspondence.",
    level_note="Trusted: Lean kernel; the hand-written model is tied by differential testing, not by translation; float<->int conversion at the API boundary is outside the model (ops carry the int64 coordinates).",
)

SNAP_TRUSTED = [
    "Model.Route/Model.Ring/Model.Snap/Model.SnapF are hand-written mirrors of pointindex and snap; tied by the snap correspondence (real snap.SnapPolygon in-process against the compiled model, "
    "same int64 vertices, outputs canonicalised to pixel indices by a bit-exact centre lookup) and by the model-functional-vs-reference stream (functional model against the line-by-line transcription)",
    "float seams outside the model: FromGeomOrd/ToGeomOrd at the API boundary (ops carry the quantised int64 vertices; every returned float must be bit-exactly a centre), "
    "float orientation/area/ray tests of snap on rings of pixel centres (exact in the model; arbitrary invalid polygons on non-dyadic real grids are therefore not compared with the model, oracles still run)",
    "go-ordered-map and go-sortedmap are modelled as association lists with the semantics read from their sources",
]

def snapprop(pid, level, module, theorems, streams, technique, level_text, level_note, extra_trusted=(), design=None, translators=()):
    PROPS[pid] = dict(level=level, technique=technique, module=module, translators=list(translators), theorems=theorems, streams=streams,
                      trusted=SNAP_TRUSTED + list(extra_trusted), design_ref=design or f"DESIGN.md §6 {pid}", level_text=level_text, level_note=level_note)

FUNC = "model-functional-vs-reference"

snapprop("C09", "proof", "Texel.Properties.C09",
    ["Texel.C09.C09_accept_iff", "Texel.C09.C09_outside_rejected", "Texel.C09.C09_snapped_only_inside", "Texel.C09.F2_witness", "Texel.GenArith.gen_deepestAddr", "Texel.GenMathhelp.gen_floorDiv", "Texel.C09.C09_accept_iff_source"],
    ["snap-outside", "snap-outside-extent", "addr"],
    "Lean 4 theorems (a vertex gets an address iff inside the half-open extent; any outside vertex makes SnapPolygon fail / return empty) + differential correspondence at 1-unit distances",
    "Theorems for every grid (any origin, resolution, depth), every polygon and every distance: deepestAddr accepts exactly the half-open extent (floor division), and one outside vertex decides the whole call "
    "(error by default, empty result with ignore-outside-grid). Tied to the code by the addr stream (public InsertPoint against the model, vertices 1 unit / res-1 / res / res+1 outside each side and corner) and the snap-outside stream.",
    "Trusted: Lean kernel; hand-written model tied by differential testing; quantisation below 1e-10 (FromGeomOrd truncates toward zero) is outside the model: the property is stated on the quantised integers. The address arithmetic and the rejection test of the model are proved equal to the expressions trgen arith regenerates from InsertPoint/InsertCoord on every run (gen_deepestAddr), and mathhelp.FloorDiv, translated too, is proved to be the flooring division for every non-zero divisor (gen_floorDiv).",
    translators=["arith", "mathhelp"])

snapprop("C08", "proof", "Texel.Properties.C08",
    ["Texel.C08.processLevels_keys", "Texel.C08.C08_keys", "Texel.C08.processLevels_entry", "Texel.C08.C08_alone_eq_together", "Texel.C08.C08_depth_independent", "Texel.C08.C08_independent"],
    ["snap", FUNC],
    "Lean 4 theorems on the per-level functional model (result keys are requested; a level's entry is what processLevel computes for it alone) + alone-vs-together oracle on round grids",
    "Theorems for every polygon, configuration and grid: keys are requested levels, and with the index fixed the entry for a level does not depend on the other requested levels. That the index depth "
    "(which follows the deepest requested id) does not influence a shallower level on a round grid is proved too (C08_depth_independent, C08_independent: two grids of the same extent, SameExtent, give the same entry for every common level) "
    "and in addition decided per case by the oracle: every requested id is also snapped alone on synthetic dyadic grids and NetherlandsRDNewQuad and compared.",
    "Trusted: Lean kernel; the per-level structure of the model is tied to the code's per-level maps by the snap correspondence; on extents that do not divide evenly (float seam) depth independence does not hold exactly and is not claimed.")

snapprop("C05", "proof", "Texel.Properties.C05",
    ["Texel.C05.C05_no_empty_list", "Texel.C05.C05_no_keep_no_appended", "Texel.C05.C05_keep_extends", "Texel.C05.C05_shape", "Texel.C05.C05_at_least_three", "Texel.C05.C05_no_vertex_twice_partial", "Texel.C05.nodup_no_closing_duplicate", "Texel.C05.C05_options_requested"],
    ["snap", FUNC],
    "Lean 4 theorems on the functional model (absent rather than empty; shell first, then holes, each of at least three vertices and correctly oriented, opposite under the reverse flag; keep-points-and-lines only appends single rings of at most two vertices) + exact ring-structure oracle on every implementation answer",
    "Theorems for all polygons (valid or not): a collapsed tile matrix is absent, never an empty list; with keep-points-and-lines every tile matrix present without it carries the same polygons followed by single-ring polygons. "
    "Every assembled polygon is its shell followed by its holes, all of at least three vertices, shell counter-clockwise (signed area >= 0) and holes clockwise, exactly the opposite under the reverse flag; collapsed parts are single rings of at most two vertices, none without the option "
    "(C05_shape, C05_at_least_three, through the functional cleanupNewRing/splitRing/dedupe/match and the proved area2 reversal). No ring of an assembled polygon visits a vertex twice (hence no closing duplicate, no equal neighbours): C05_no_vertex_twice_partial, proved from the stack invariant of splitRing and the exactness of the repeated-vertex flags under ONE explicit hypothesis, KmpNoDup (kmpDeduplicate returns no more copies of a vertex than it was given), which the kmp stream checks on the real code for every generated ring. These clauses are also decided by the oracle on every implementation answer, valid and arbitrary polygons, synthetic and real grids (the F4 repair lives there), each case with and without keep.",
    "Trusted: Lean kernel; the functional forms cleanupNewRingF/dedupeF/matchF are compared with the transcribed do-notation reference on every snap/split operation (streams split, model-functional-vs-reference); the hypothesis KmpNoDup of C05_no_vertex_twice_partial is validated on the real kmpDeduplicate (stream kmp), not proved.",
    translators=["flags"])

snapprop("C07", "proof", "Texel.Properties.C07",
    ["Texel.C07.levelAcc_indep", "Texel.C07.C07_flag", "Texel.C07.reversePolys_involutive", "Texel.C07.C07_flag_presence", "Texel.C07.C07_ring_direction"],
    ["snap", FUNC],
    "Lean 4 theorems (the reverse-winding flag only reverses the assembled polygon rings; presence unchanged; writing rings of non-zero area in the opposite direction changes nothing) + repetition / fresh-process / reversed-input oracles",
    "Theorems: with the reverse flag a level carries the same polygons with every ring reversed followed by the same appended points/lines, and is present iff it is present without the flag; and snapPolygonF returns the same for any subset of rings reversed when every ring has non-zero signed area (C07_ring_direction, through the proved area2 reversal). Determinism of the implementation "
    "(Go randomises map iteration) and independence of the written ring direction are decided by the harness: every case 3x in-process, once in a fresh process, with random subsets of rings reversed.",
    "Trusted: Lean kernel; the model is a function by construction, so determinism of the code itself rests on the correspondence and the repetition runs; the model's exact integer area2 stands for the float orientation test of go-spatial (float seam, compared on every case).")

snapprop("C03", "proof", "Texel.Properties.C03",
    ["Texel.C03.C03_output_is_pixel_of_level", "Texel.C03.C03_index_in_range", "Texel.C03.C03_centre_in_pixel", "Texel.C03.C03_centre_exact", "Texel.C03.C03_centre_deepest", "Texel.C03.C03_round", "Texel.C03.C03_deviation", "Texel.C03.C03_pixel_size", "Texel.C03.C03_pixel_is_sixteenth_of_cell", "Texel.GenArith.gen_span", "Texel.GenArith.gen_centroid", "Texel.GenArith.gen_level", "Texel.C03.C03_centre_source"],
    ["snap", "quad"],
    "Lean 4 theorems on the integer centre formula (in its pixel, exact middle, equals the ideal centre on round extents, within the reported deviation otherwise) + bit-exact centre canonicalisation of every returned float",
    "Theorems: every vertex of everything snapPolygonF returns for level l stands for a pixel of that level (indices below 2^l); for every grid/level/pixel the coordinate handed out is inside its pixel, exactly its middle above the deepest level, equal to minX+(k+1/2)*XSpan/2^l when the extent divides evenly, and otherwise left of the ideal centre by less than XSpan mod 2^depth "
    "(the deviation the tool reports). The harness checks on every accepted built-in set x ids that each returned float is bit-for-bit ToGeomOrd of such an integer, that level = id+log2(tileWidth)+4 and pixel = cellSize/16, and the distance to the ideal centre against DeviationStats.",
    "Trusted: Lean kernel; float conversion (ToGeomOrd) and tms20's float extent are outside the model; the cellSize constants in the JSON documents are rounded (checked to 1e-6 relative).",
    translators=["arith"])

snapprop("C06", "other", "Texel.Properties.C06",
    ["Texel.C06.C06_no_points_found_unreachable", "Texel.C06.C06_keys_encodable", "Texel.C06.C06_index_total", "Texel.C06.C06_ring_cleanup_total_partial", "Texel.C06.C06_total_up_to_kmp_partial", "Texel.C06.C06_removeSequences_sublist", "Texel.C06.C06_removeSequences_source", "Texel.C06.C06_total_up_to_kmp_ranges_partial", "Texel.C06.C06_F16_strip"],
    ["snap", "kmp", "split", FUNC],
    "Lean 4 theorems for the panic sites that are closed (no-points-found, MustToZ up to level 32, index construction, every panic of splitRing) + recover/watchdog exploration with adversarial sequences, function-level kmp/split correspondence",
    "Partial proof + exploration: the no-points-found panic, MustToZ up to level 32, the index construction and every panic of splitRing (stack index out of range, nil Newest, partial rings remaining) are proved unreachable for every in-grid polygon "
    "(C06_ring_cleanup_total_partial, C06_total_up_to_kmp_partial: whatever snapPolygonF raises for a polygon inside the grid is raised by kmpDeduplicate, dedupeInnersOuters raises nothing; under the hypothesis KmpNoDup, checked on the real code by the kmp stream; RemoveSequences is translated from the source and returns a sublist of the ring when the recorded ranges run forward, so KmpNoDup follows from KmpRangesForward: C06_removeSequences_source, C06_removeSequences_sublist); that kmpDeduplicate never reaches its index and slice panics and always terminates is NOT proved "
    "(the model carries them as Except errors and fuel) and is explored: arbitrary and adversarially repetitive sequences under recover and a 20 s watchdog, exhaustive small alphabets in the thorough tier. Known findings F7 (panic above level 32) and F16 (a vertex inside the extent, within the reported deviation of its right or top edge, is reported as outside the grid: C06_F16_strip shows the strip on the model).",
    "Assumes nothing beyond the trusted base; a panic or hang found on any generated input is reported with the input.",
    extra_trusted=["totality of kmpDeduplicate (and the hypothesis KmpNoDup about it, reduced by C06_removeSequences_sublist to KmpRangesForward: the recorded ranges run forward; evaluated on the model for every ring of the kmp stream) is explored, not proved"],
    translators=["removeseq"])

snapprop("C01", "other", "Texel.Properties.C01",
    ["Texel.C01.properCross_symm", "Texel.C01.orient_swap", "Texel.C01.properCross_shared_endpoint", "Texel.C01.C01_ingredient_routing", "Texel.C01.C01_ingredient_shrink"],
    ["snap", FUNC],
    "partial Lean 4 proof (exact routing, shrinking lemma) + exact no-proper-crossing oracle on every implementation answer, model tied by correspondence",
    "Partial proof + verified-oracle exploration: the statement C01_statement is formalised; proved are the exact routing (C02) and the algebraic shrinking lemma; the geometric core of snap rounding and 'output edges are routed runs' are open. "
    "Every generated valid polygon's output is checked edge pair by edge pair with exact integer orientation tests. Known finding F5 (spike removal invents an edge when a centre is visited >= 3 times).",
    "The geometric snap-rounding argument is not machine-checked; assurance for C01 is exploration with an exact oracle plus the correspondence to a model whose routing is proved.",
    extra_trusted=["SnapRoundingNoCross and OutputEdgesAreRoutedRuns are not proved"])

snapprop("C04", "other", "Texel.Properties.C04",
    ["Texel.C04.C04_output_vertex_is_input_pixel", "Texel.C04.C04_routed_boundary_within_half_pixel", "Texel.C04.C04_edges_within_half_pixel_no_collapse", "Texel.C04.C04_routed_vertex_is_input_pixel", "Texel.C04.C04_address_contains_vertex", "Texel.C04.C04_dedup_vertices", "Texel.C04.C04_dedupe_only_deletes", "Texel.C04.C04_matching_loses_nothing_partial"],
    ["snap", FUNC],
    "partial Lean 4 proof (first clause proved at full strength on the model: every output vertex is the pixel of an input vertex, through joining, spike removal, ring splitting, cancellation, hole matching, reversal and keep) + exact half-pixel-distance and coverage oracles on every implementation answer",
    "Partial proof + verified-oracle exploration: (a) is proved for everything snapPolygonF returns (C04_output_vertex_is_input_pixel); (b) is proved for the routed boundary of every ring, closing edge included (C04_routed_boundary_within_half_pixel: every point of every edge of joinChain(routeRing) is within half a pixel of the input ring, over Q), and through the whole of processLevel for polygons without holes on which nothing collapses (C04_edges_within_half_pixel_no_collapse); (b) half-pixel edge distance and (c) coverage beyond one pixel are decided per case by exact rational oracles "
    "(5 points per output edge; up to 150 locations per case). Known findings F5 and F13.",
    "The deformation/winding-parity argument behind (b),(c) is not machine-checked.",
    extra_trusted=["edge distance and coverage are explored with exact oracles, not proved"])

snapprop("C18", "other", "Texel.Properties.C18",
    ["Texel.C18.C18_boundary_exists", "Texel.C18.C18_no_vertex_invented", "Texel.C18.C18_split_preserves_area", "Texel.C18.C18_flags_exact", "Texel.C18.C18_dedup_subset", "Texel.C18.C18_assembly_invents_no_ring_partial", "Texel.GenHits.gen_hits", "Texel.GenHits.gen_isHitF"],
    ["snap", FUNC],
    "partial Lean 4 proof (routed boundary exists; no returned vertex is invented: each is a routed pixel; ring splitting cuts a ring into rings without repetition whose signed areas add up to the ring's; spike removal only removes) + exact routed-run / hole-containment / signed-area oracle on cases whose model chains visit each centre at most twice",
    "Partial proof + verified-oracle exploration: the routed boundary (the model's chains, routing proved exact) is computed for every case; for (polygon, level) pairs with max visits <= 2 the three conclusions are checked exactly on the implementation's output. "
    "Proved for every polygon: vertices are routed pixels (C18_no_vertex_invented); splitRing neither invents nor loses area and returns rings that visit no vertex twice (C18_split_preserves_area, from the stack invariant). The cancellation argument of kmpDeduplicate under max visits <= 2 (output edges are routed runs, area preserved by spike removal) is not proved.",
    "kmp_removes_cancelling_pairs is open; the oracle decides each generated case.",
    extra_trusted=["conclusions (a),(b),(c) are explored with exact oracles, not proved"],
    translators=["hits"])

PIPE_TRUSTED = [
    "Model.Pipe is a hand-written state machine of processing.ProcessFeatures (unbuffered channels as joint steps, two wait groups); its concurrency skeleton is compared by decide with the skeleton trgen skel (go/ast, ~200 lines) extracts from processing.go and gpkg.go on every run",
    "hypothesis of the theorems: a target's WriteFeatures drains its channel until it is closed and then returns",
    "the Go scheduler, the memory model and the race detector's verdict are outside the model: exercised by the pipe stream (real ProcessFeatures, fake targets of adversarial speeds, GOMAXPROCS 1..16) and go build -race in the thorough tier",
]
PROPS["C10"] = dict(level="proof", module="Texel.Properties.C10", translators=["skel"], race=True,
    technique="Lean 4 theorems on a state machine of the pipeline for any number of targets, streams and schedules (invariant by induction) + extracted concurrency skeleton + runs of the real ProcessFeatures against the model",
    theorems=["Texel.C10.skeleton_matches", "Texel.C10.C10_deliver_ok", "Texel.C10.C10_other_to_all", "Texel.C10.C10_polygon_iff", "Texel.C10.C10_prefix", "Texel.C10.C10_complete"],
    streams=["pipe", "piperun"], trusted=PIPE_TRUSTED, design_ref="DESIGN.md §6 C10",
    level_text="Theorems for every number of targets, every feature stream and every interleaving: what a target has received is always a prefix of the features addressed to it in source order, each once, and is all of them when ProcessFeatures has returned; "
               "the dispatch (non-polygon to all targets untouched, polygon iff snapping returned that id) yields a well-formed configuration. The model's concurrency skeleton is re-extracted from the source on every run. "
               "Geometry per target and attribute values are checked on the real pipeline with fake targets (and through real GeoPackage targets in C12/C13, where finding F6 lived).",
    level_note="Trusted: Lean kernel, the skeleton extractor, the hypothesis that targets drain their channel; runtime scheduling is explored, not proved.")
PROPS["C11"] = dict(level="proof", module="Texel.Properties.C11", translators=["skel"], race=True,
    technique="Lean 4 theorems on the pipeline state machine (returns only after all targets are done; no deadlock; every schedule finite) + extracted skeleton + stress runs of the real ProcessFeatures, -race in the thorough tier",
    theorems=["Texel.C11.C11_return_after", "Texel.C11.C11_progress", "Texel.C11.C11_terminates", "Texel.C11.skeleton_matches"],
    streams=["pipe", "piperun"], trusted=PIPE_TRUSTED, design_ref="DESIGN.md §6 C11",
    level_text="Theorems for any number of targets, any stream, any schedule: ProcessFeatures has returned only in states where every target is done and has everything addressed to it; every reachable state that has not returned can step (no deadlock); "
               "a measure drops on every step (every run ends). close/wait placement is tied by the extracted skeleton. Goroutine leaks, early return and hangs are also looked for on the real code with adversarial speeds and GOMAXPROCS 1..16; the race detector runs in the thorough tier.",
    level_note="Trusted: Lean kernel, skeleton extractor; real scheduling, memory model and race freedom are outside the theorem (explored).")

PROPS["C12"] = dict(level="proof", module="Texel.Properties.C12", translators=["skel"],
    technique="Lean 4 theorems on the paging function, the column lists and the extent bookkeeping (for every count and page size) + extracted paging skeleton + read-back of real GeoPackages written by TargetGeopackage on SQLite",
    theorems=["Texel.C12.C12_concat", "Texel.C12.C12_sizes", "Texel.C12.C12_final_flush", "Texel.C12.C12_columns", "Texel.C12.C12_extent", "Texel.C12.skeleton_matches"],
    streams=["page", "page-multi"], design_ref="DESIGN.md §6 C12",
    trusted=["the paging loop of WriteFeatures and the row construction of writeFeatures are tied by the extracted skeleton (trgen skel) compared by decide",
             "SQLite, its rtree triggers (with the stub's ST_IsEmpty/ST_MinX.. functions registered under build tag verif), database/sql and go-spatial's gpkg package are outside the model: "
             "every written file is read back (rows, rtree_*, gpkg_contents, gpkg_geometry_columns, PRAGMA table_info) and compared",
             "row order inside a table with an INTEGER PRIMARY KEY is key order in SQLite; the order of arrival is C10's"],
    level_text="Theorems for every feature count and every positive page size: the pages concatenate to the stream (nothing lost, duplicated, reordered), every page but the last is full, there is always a final flush, "
               "every value is inserted under its own column with the geometry last wherever the geometry column sits, and the stored extent after all per-page merges is the bounding box of everything written. "
               "The real TargetGeopackage is run on real SQLite for counts 0..3p+1, p = 1..7 (all pairs) and random pairs, tables with NULLs, empty geometries and any geometry-column position, and every file is read back.",
    level_note="Trusted: Lean kernel, skeleton extractor; SQLite/rtree/database/sql behaviour is validated by read-back, not proved; page size 0 is a division-by-zero panic outside the property.")
PROPS["C13"] = dict(level="proof", module="Texel.Properties.C13", translators=["skel", "flags"],
    technique="Lean 4 theorems (target path shape; flag plumbing extracted from main.go; composition of the pipeline and paging theorems) + end-to-end runs of the real binary compared with the library called in-process",
    theorems=["Texel.C13.flags_match", "Texel.C13.C13_path_file", "Texel.C13.C13_stem_ext", "Texel.C13.C13_compose"],
    streams=["cli", "tpath"], design_ref="DESIGN.md §6 C13",
    trusted=["trgen flags (go/ast) extracts the flag table and the Config plumbing of main.go; main.go's table loop and initGPKGTarget are tied end to end by the cli stream (real binary, tag verif for the SQLite stub driver)",
             "path.Split/Ext/Join and fmt.Sprintf are modelled on a safe alphabet (no '%', clean directory part)",
             "the file system and os.Remove (overwrite) are outside the model: checked by the cli stream with pre-existing target files"],
    level_text="Theorems: _<id> is inserted before the extension of the file name; each flag feeds the Config field / page size / overwrite it should (re-extracted from main.go on every run); and what a target has written when a table is done is, for any page size and schedule, "
               "exactly the features addressed to that tile matrix in source order (C10 with C12). The real binary is run on random GeoPackages (several tables, mixed geometry types, collapsing/splitting/outside polygons, 1-3 ids, page sizes 1..7 and 1000, all flags by name and alias, "
               "pre-existing targets with overwrite) and every target table is compared with what snap.SnapPolygon returns in-process.",
    level_note="Trusted: Lean kernel, the two extractors; the binary's behaviour end to end is validated by differential runs, not proved.")

PROPS["C14"] = dict(level="proof", module="Texel.Properties.C14", translators=["flags", "arith", "isquad"],
    technique="Lean 4 theorem (IsQuadTree accepts iff the set is a true quadtree, by induction over the matrices) on a hand-written model + exhaustive perturbation correspondence + call order extracted from main.go",
    theorems=["Texel.C14.localErr_none_iff", "Texel.C14.pairErr_none_iff", "Texel.C14.C14_iff", "Texel.C14.C14_validate_order", "Texel.C14.C14_doubling", "Texel.C14.firstErr_none_iff", "Texel.C14.C14_pixel_count", "Texel.GenArith.gen_level", "Texel.C14.C14_level_used", "Texel.GenIsquad.gen_isQuadTree_none", "Texel.C14.C14_iff_source"],
    streams=["isquad"], design_ref="DESIGN.md §6 C14",
    trusted=["Model.QuadTree is a hand-written mirror of pointindex.IsQuadTree, tied by the isquad correspondence: every accepted built-in set x every tile matrix x every single-field perturbation (enumerated completely), verdict and failing check compared",
             "cell sizes are exact rationals in the model; the code's single float division can differ from the exact ratio only within an ulp of the tolerance borders 1.99/2.01 (those two perturbations are run for 'no panic' only)",
             "the order IsQuadTree-before-DeviationStats in validateTileMatrixSet is read from main.go by trgen flags; the binary is run on every built-in set to see an error message instead of a stack trace"],
    level_text="Theorem: the validation accepts a list of tile matrices if and only if it is a true quadtree (square matrices and tiles, ids the decimal text of consecutive keys, one origin and corner, same tile size, each matrix doubling the previous, cell size halving within the code's tolerance) - "
               "so every single broken condition is rejected. All 14 built-in sets and all single-field perturbations of the accepted ones (about 3 500 sets) are run through the real IsQuadTree and compared with the model and an independent declarative predicate; the tool is run on all 14 sets (error, never a panic). "
               "pixel = cell size / 16 for accepted sets is checked in C03.",
    level_note="Trusted: Lean kernel; model tied by exhaustive differential testing; one float division at the tolerance border.")
PROPS["C15"] = dict(level="proof", module="Texel.Properties.C15", translators=[],
    technique="Lean 4 theorems on an exact integer model of tile addressing (round trip, outside -> no tile, bounding box) + differential correspondence with tms20 on every built-in set within the code's 9-decimal rounding",
    theorems=["Texel.C15.C15_roundtrip", "Texel.C15.C15_outside_left", "Texel.C15.C15_outside_right", "Texel.C15.C15_outside_row0", "Texel.C15.toNative_originCorner", "Texel.C15.C15_bbox"],
    streams=["tile", "tile-outside", "axis-order"], design_ref="DESIGN.md §6 C15",
    trusted=["Model.Tile works in exact integers over a common denominator; tms20 works in float64 and rounds corners to 9 decimals: corners are compared within 1e-9 + a few ulp of the extent, interior points closer than that to a tile border are not constrained",
             "the axis swap (IsLatLon / epsgAxesAreLatLon table) is outside the model: the harness applies IsLatLon itself and checks every built-in set's corners and bounding boxes in x,y order against exact rational corners"],
    level_text="Theorems for every matrix, tile and point (exact arithmetic): a point strictly inside tile (c,r) is found in (c,r) for both corner conventions, points outside the extent map to no tile, the bounding box spans the origin-side corner of tile (0,0) to that of tile (width,height). "
               "Every built-in set x every matrix without variable widths x corner, border and random tiles x interior points (also 1e-3 of a tile from a border) is run through the real FromNative/ToNative/MatrixBoundingBox and compared with the model and exact rational corners.",
    level_note="Trusted: Lean kernel; float rounding of tms20 is handled by stated tolerances, not proved.")

PROPS["C16"] = dict(level="proof", module="Texel.Properties.C16", translators=[],
    technique="Lean 4 theorems on a model of the document decoder/encoder incl. the library semantics that decide acceptance (rejection clauses for every document) + differential correspondence on built-in and mutated documents",
    theorems=["Texel.C16.C16_not_an_object", "Texel.C16.C16_missing_crs", "Texel.C16.C16_missing_tileMatrices", "Texel.C16.C16_no_tile_matrices", "Texel.C16.C16_crs_wrong_kind",
              "Texel.C16.C16_tm_not_object", "Texel.C16.C16_nonpositive_size_rejected", "Texel.C16.C16_nonpositive_float", "Texel.C16.C16_non_integer_id",
              "Texel.C16.C16_tm_nonpositive_tileWidth", "Texel.C16.C16_tm_nonpositive_cellSize", "Texel.C16.C16_tm_size_wrong_kind", "Texel.C16.C16_tm_non_integer_id", "Texel.C16.C16_tms_rejected_of_member",
              "Texel.C16.C16_roundtrip", "Texel.C16.C16_stable", "Texel.C16.C16_accepted_is_well_formed"],
    streams=["tmsdoc"], design_ref="DESIGN.md §6 C16",
    trusted=["Model.TmsJson is a hand-written model of TileMatrixSet.UnmarshalJSON/MarshalJSON and of the behaviour of encoding/json, marshmallow, validator and defaults as far as it decides accept/reject and the decoded value; "
             "tied by the tmsdoc correspondence: all built-in documents and thousands of structural mutations per run, accept/reject and the re-encoded document (as a JSON tree, numbers as float64) must agree",
             "JSON numbers are exact decimals in the model and float64 in the code (compared numerically); url.ParseRequestURI and the two CRS regular expressions are re-implemented in the model",
             "the model is total, so 'never panics' for the code rests on the harness (recover around every decode/encode)"],
    level_text="Theorems for every document: not an object / no crs / no or non-array or empty tileMatrices / crs of a wrong kind / a tile matrix that is not an object, has a size that is not a number, a zero or negative size or cell size, or an id that is not a decimal integer - "
               "all are rejected (with an error, the model has no other outcome), and one rejected tile matrix rejects the document. Round trip: for every document the decoder accepts, decoding the encoding of the decoded value gives that value again "
               "(C16_roundtrip: decode_encode on well-formed values + decode_WF), so the encoding is stable, and every accepted value has positive sizes and integer ids. On the real code the same is decided per generated document by the harness "
               "(equal CRS kind, byte-identical second encoding, built-in documents semantically unchanged) and the re-encoded tree is compared with the model's.",
    level_note="Trusted: Lean kernel; the model of four libraries' behaviour is validated by differential testing (it agreed on every one of >100 000 mutated documents), not derived from their source.")

NOT_CLAIMED = {}
