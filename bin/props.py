"""Per-property configuration: proof obligations (Lean theorems), translators, correspondence streams, level."""

KERNEL_AXIOMS = {"propext", "Classical.choice", "Quot.sound"}

COMMON_TRUSTED = [
    "Lean 4.33.0 kernel (lake build; leanchecker re-check in the thorough tier)",
    "axioms allowed in claimed theorems: propext, Classical.choice, Quot.sound (audited with #print axioms on every run)",
    "Mathlib v4.33.0 modules imported by the proof files (compiled, read-only)",
    "the Go harness /verif/harness (generators, canonicalisation, oracles) and the compiled model driver texeldrv (the model itself)",
]

PROPS = {
    "C17": dict(
        level="proof",
        technique="Lean 4 theorems over definitions regenerated from morton/morton.go (translator trgen morton) + differential correspondence",
        module="Texel.Properties.C17",
        translators=["morton"],
        theorems=["Texel.C17.gen_toZ_eq", "Texel.C17.gen_fromZ_eq", "Texel.C17.C17_roundtrip", "Texel.C17.C17_injective",
                  "Texel.C17.C17_bit", "Texel.C17.C17_parent", "Texel.C17.C17_ok_iff", "Texel.C17.getQuadrantZs_spec"],
        streams=["tz", "gqz"],
        trusted=["translator trgen morton (go/ast, ~200 lines): morton.go -> Texel/Gen/Morton.lean, loops unrolled, tables inlined",
                 "Go's uint is 64 bit on the platform (modelled as BitVec 64)",
                 "getQuadrantZs is hand-modelled over the generated toZ/fromZ and tied by the gqz correspondence"],
        design_ref="DESIGN.md §6 C17",
        level_text="Theorems for all 2^64 pairs of 32-bit addresses (round trip, injectivity, bit layout, parent key = key>>2, ok iff both fit in 32 bits, "
                   "children keys of getQuadrantZs) about Lean definitions that are regenerated from morton/morton.go on every run, so a changed mask, shift or loop bound "
                   "breaks the proof; plus a differential run of the real ToZ/FromZ/MustToZ/getQuadrantZs against the model and an independent bit-interleaving oracle.",
        level_note="Trusted: Lean kernel, the ~200-line go/ast translator (narrow grammar, fails loudly), uint = 64 bit. getQuadrantZs is hand-modelled and tied by correspondence only.",
    ),
}

PROPS["C02"] = dict(
    level="proof",
    technique="Lean 4 theorems (exact pixel test; routing = hot pixels met, in travel order, by level induction) on a hand-written model + exhaustive/differential correspondence with pointindex",
    module="Texel.Properties.C02",
    translators=[],
    theorems=["Texel.C02.C02_pixel_test", "Texel.C02.C02_hot_closed", "Texel.C02.C02_routing", "Texel.C02.C02_routing_index",
              "Texel.C02.C02_nodup", "Texel.C02.C02_routed_nonempty"],
    streams=["li", "li-large", "route", "route-random"],
    trusted=["Model.Geom/Model.Route are hand-written mirrors of containsPoint, lineIntersects, findIntersectingQuadrants, snapClosestPoints, InsertPoint, insertCoord; "
             "tied by the li/route correspondence (exhaustive small scopes) through the verif hooks XLineIntersects, XNew, InsertCoord, XSnapInt",
             "Morton-keyed maps are modelled as sets of (x,y) pairs (justified by the C17 theorems)",
             "int64 arithmetic of the code does not overflow (|coordinates| < 2^62; the 128-bit products are validated against math/big on coordinates up to 2^60)"],
    design_ref="DESIGN.md §6 C02",
    level_text="First sentence: theorems for every grid, segment, parent-closed hot set and level (no bound): the pixel test is exactly 'closed segment meets half-open pixel', "
               "the descent returns exactly the hot pixels met, without repetition, in travel order, and never nothing for a polygon edge. The model is tied to pointindex by an exhaustive "
               "correspondence (all 12 005 small li cases; thorough: all quarter-lattice segments x all 512 hot subsets of a 3x3 window at three placements) and the exact oracle runs on every implementation answer. "
               "Second sentence (non-collapsing polygons come back as the concatenation of routed edges): validated by the snap correspondence and an oracle, see C05/C18.",
    level_note="Trusted: Lean kernel; the hand-written model is tied by differential testing, not by translation; float<->int conversion at the API boundary is outside the model (ops carry the int64 coordinates).",
)

NOT_CLAIMED = {}
