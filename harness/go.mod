module verifharness

go 1.21.6

require (
	github.com/go-spatial/geom v0.0.0-20220918193402-3cd2f5a9a082
	github.com/pdok/texel v0.0.0
)

require (
	github.com/bahlo/generic-list-go v0.2.0 // indirect
	github.com/buger/jsonparser v1.1.1 // indirect
	github.com/creasty/defaults v1.7.0 // indirect
	github.com/gabriel-vasile/mimetype v1.4.2 // indirect
	github.com/gdey/errors v0.0.0-20190426172550-8ebd5bc891fb // indirect
	github.com/go-playground/locales v0.14.1 // indirect
	github.com/go-playground/universal-translator v0.18.1 // indirect
	github.com/go-playground/validator/v10 v10.16.0 // indirect
	github.com/josharian/intern v1.0.0 // indirect
	github.com/leodido/go-urn v1.2.4 // indirect
	github.com/mailru/easyjson v0.7.7 // indirect
	github.com/mattn/go-runewidth v0.0.12 // indirect
	github.com/mattn/go-sqlite3 v1.14.17 // indirect
	github.com/muesli/reflow v0.3.0 // indirect
	github.com/perimeterx/marshmallow v1.1.5 // indirect
	github.com/rivo/uniseg v0.2.0 // indirect
	github.com/tobshub/go-sortedmap v1.0.3 // indirect
	github.com/wk8/go-ordered-map/v2 v2.1.8 // indirect
	golang.org/x/crypto v0.7.0 // indirect
	golang.org/x/exp v0.0.0-20231110203233-9a3e6036ecaa // indirect
	golang.org/x/net v0.8.0 // indirect
	golang.org/x/text v0.8.0 // indirect
	gopkg.in/yaml.v3 v3.0.1 // indirect
)

replace github.com/pdok/texel => /repo
