module verifharness

go 1.21.6

require github.com/pdok/texel v0.0.0

replace github.com/pdok/texel => /repo
