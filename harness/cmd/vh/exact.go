package main

import (
	"math/big"
)

// Exact rational geometry for the property oracles. Independent of the implementation's arithmetic:
// fractions are compared with math/big unless all operands are small.

type frac struct{ n, d int64 } // d > 0

func cmpFrac(a, b frac) int {
	const lim = 1 << 30
	if a.n < lim && a.n > -lim && b.n < lim && b.n > -lim && a.d < lim && b.d < lim {
		l, r := a.n*b.d, b.n*a.d
		switch {
		case l < r:
			return -1
		case l > r:
			return 1
		}
		return 0
	}
	l := new(big.Int).Mul(big.NewInt(a.n), big.NewInt(b.d))
	r := new(big.Int).Mul(big.NewInt(b.n), big.NewInt(a.d))
	return l.Cmp(r)
}

type ipt struct{ x, y int64 }
type iseg struct{ p1, p2 ipt }
type ibox struct{ minX, minY, maxX, maxY int64 }

// tInterval is the set of parameters t in [0,1] at which the segment is inside the half-open box
type tInterval struct {
	empty          bool
	lo, hi         frac
	loOpen, hiOpen bool
}

func meetInterval(L iseg, B ibox) tInterval {
	iv := tInterval{lo: frac{0, 1}, hi: frac{1, 1}}
	lower := func(f frac, open bool) {
		c := cmpFrac(f, iv.lo)
		if c > 0 || (c == 0 && open) {
			iv.lo, iv.loOpen = f, open || (c == 0 && iv.loOpen)
		}
	}
	upper := func(f frac, open bool) {
		c := cmpFrac(f, iv.hi)
		if c < 0 || (c == 0 && open) {
			iv.hi, iv.hiOpen = f, open || (c == 0 && iv.hiOpen)
		}
	}
	axis := func(p, q, lo, hi int64) bool {
		d := q - p
		switch {
		case d == 0:
			return lo <= p && p < hi
		case d > 0:
			lower(frac{lo - p, d}, false)
			upper(frac{hi - p, d}, true)
		default:
			lower(frac{p - hi, -d}, true)
			upper(frac{p - lo, -d}, false)
		}
		return true
	}
	if !axis(L.p1.x, L.p2.x, B.minX, B.maxX) || !axis(L.p1.y, L.p2.y, B.minY, B.maxY) {
		return tInterval{empty: true}
	}
	c := cmpFrac(iv.lo, iv.hi)
	if c > 0 || (c == 0 && (iv.loOpen || iv.hiOpen)) {
		return tInterval{empty: true}
	}
	return iv
}

// meets: the closed segment has a point in the half-open box
func meets(L iseg, B ibox) bool { return !meetInterval(L, B).empty }

// precedes: every parameter at which L is in B1 is smaller than every parameter at which it is in B2
func precedes(L iseg, B1, B2 ibox) bool {
	a, b := meetInterval(L, B1), meetInterval(L, B2)
	if a.empty || b.empty {
		return true
	}
	c := cmpFrac(a.hi, b.lo)
	return c < 0 || (c == 0 && (a.hiOpen || b.loOpen))
}

func sign128(a, b, c, d int64) int { // sign of a*b - c*d
	const lim = 1 << 30
	if a < lim && a > -lim && b < lim && b > -lim && c < lim && c > -lim && d < lim && d > -lim {
		v := a*b - c*d
		switch {
		case v > 0:
			return 1
		case v < 0:
			return -1
		}
		return 0
	}
	l := new(big.Int).Mul(big.NewInt(a), big.NewInt(b))
	r := new(big.Int).Mul(big.NewInt(c), big.NewInt(d))
	return l.Cmp(r)
}

func orient(a, b, c ipt) int {
	return sign128(b.x-a.x, c.y-a.y, b.y-a.y, c.x-a.x)
}

func between(a, b, p ipt) bool { // p collinear with ab assumed
	return min64(a.x, b.x) <= p.x && p.x <= max64(a.x, b.x) && min64(a.y, b.y) <= p.y && p.y <= max64(a.y, b.y)
}

func min64(a, b int64) int64 {
	if a < b {
		return a
	}
	return b
}
func max64(a, b int64) int64 {
	if a > b {
		return a
	}
	return b
}

// properCross: the two segments cross in a single point interior to both (not collinear overlap, not touching)
func properCross(a, b, c, d ipt) bool {
	o1, o2, o3, o4 := orient(a, b, c), orient(a, b, d), orient(c, d, a), orient(c, d, b)
	return o1*o2 < 0 && o3*o4 < 0
}

func segsIntersect(a, b, c, d ipt) bool {
	o1, o2, o3, o4 := orient(a, b, c), orient(a, b, d), orient(c, d, a), orient(c, d, b)
	if o1*o2 < 0 && o3*o4 < 0 {
		return true
	}
	return (o1 == 0 && between(a, b, c)) || (o2 == 0 && between(a, b, d)) || (o3 == 0 && between(c, d, a)) || (o4 == 0 && between(c, d, b))
}

// area2 is twice the signed area (big, exact)
func area2(r []ipt) *big.Int {
	s := new(big.Int)
	for i := range r {
		j := (i + 1) % len(r)
		s.Add(s, new(big.Int).Mul(big.NewInt(r[i].x), big.NewInt(r[j].y)))
		s.Sub(s, new(big.Int).Mul(big.NewInt(r[j].x), big.NewInt(r[i].y)))
	}
	return s
}

func onRing(p ipt, r []ipt) bool {
	for i := range r {
		a, b := r[i], r[(i+1)%len(r)]
		if orient(a, b, p) == 0 && between(a, b, p) {
			return true
		}
	}
	return false
}

// inRingStrict: strictly inside (even-odd), exact; false on the boundary
func inRingStrict(p ipt, r []ipt) bool {
	if onRing(p, r) {
		return false
	}
	in := false
	n := len(r)
	for i := 0; i < n; i++ {
		a, b := r[i], r[(i+1)%n]
		if (a.y > p.y) != (b.y > p.y) {
			// is the crossing of the horizontal line through p to the right of p?
			s := sign128(b.x-a.x, p.y-a.y, p.x-a.x, b.y-a.y)
			if (b.y > a.y) == (s > 0) {
				in = !in
			}
		}
	}
	return in
}

func ringSimple(r []ipt) bool {
	n := len(r)
	if n < 3 {
		return false
	}
	for i := 0; i < n; i++ {
		if r[i] == r[(i+1)%n] {
			return false
		}
	}
	for i := 0; i < n; i++ {
		for j := i + 1; j < n; j++ {
			a, b, c, d := r[i], r[(i+1)%n], r[j], r[(j+1)%n]
			adjacent := j == i+1 || (i == 0 && j == n-1)
			if adjacent {
				var s, p, q ipt
				if j == i+1 {
					s, p, q = b, a, d
				} else {
					s, p, q = a, b, c
				}
				if orient(s, p, q) == 0 && sign128(p.x-s.x, q.x-s.x, -(p.y-s.y), q.y-s.y) > 0 {
					return false
				}
				continue
			}
			if segsIntersect(a, b, c, d) {
				return false
			}
		}
	}
	return true
}

func ringsTouch(r1, r2 []ipt) bool {
	for i := range r1 {
		for j := range r2 {
			if segsIntersect(r1[i], r1[(i+1)%len(r1)], r2[j], r2[(j+1)%len(r2)]) {
				return true
			}
		}
	}
	return false
}

// validPolygon: rings simple, holes strictly inside the shell, holes mutually disjoint and not nested
func validPolygon(rings [][]ipt) bool {
	if len(rings) == 0 {
		return false
	}
	for _, r := range rings {
		if !ringSimple(r) || area2(r).Sign() == 0 {
			return false
		}
	}
	for i := 1; i < len(rings); i++ {
		for _, p := range rings[i] {
			if !inRingStrict(p, rings[0]) {
				return false
			}
		}
		if ringsTouch(rings[i], rings[0]) {
			return false
		}
		for j := 1; j < i; j++ {
			if ringsTouch(rings[i], rings[j]) || inRingStrict(rings[i][0], rings[j]) || inRingStrict(rings[j][0], rings[i]) {
				return false
			}
		}
	}
	return true
}
