package main

import (
	"fmt"
	"github.com/pdok/texel/mathhelp"
	"math"
	"math/big"
	"sort"
	"strings"

	"github.com/pdok/texel/intgeom"
	"github.com/pdok/texel/pointindex"
)

func init() { checks["C02"] = checkC02 }

func b2s(b bool) string {
	if b {
		return "1"
	}
	return "0"
}

// ---- li: lineIntersects against the model and the exact oracle

func liCase(e *env, L iseg, B ibox, stream string) {
	r := e.res
	op := fmt.Sprintf("li %d %d %d %d %d %d %d %d", L.p1.x, L.p1.y, L.p2.x, L.p2.y, B.minX, B.minY, B.maxX, B.maxY)
	impl := b2s(pointindex.XLineIntersects(intgeom.Line{{L.p1.x, L.p1.y}, {L.p2.x, L.p2.y}}, intgeom.Extent{B.minX, B.minY, B.maxX, B.maxY}))
	want := b2s(meets(L, B))
	tie := L.p1.x == B.minX || L.p1.x == B.maxX || L.p2.x == B.minX || L.p2.x == B.maxX ||
		L.p1.y == B.minY || L.p1.y == B.maxY || L.p2.y == B.minY || L.p2.y == B.maxY || throughCorner(L, B)
	if tie {
		r.Dist["li:tie"]++
	}
	r.Dist["li:"+want]++
	r.count(stream, op, tie)
	e.pending = append(e.pending, pendingOp{stream, op, impl})
	if impl != want {
		r.violation(Violation{Oracle: "pixel-test-exact(closed segment meets half-open pixel)", Op: op, Impl: impl, Detail: "exact answer " + want})
	}
}

func throughCorner(L iseg, B ibox) bool {
	for _, c := range []ipt{{B.minX, B.minY}, {B.maxX, B.minY}, {B.minX, B.maxY}, {B.maxX, B.maxY}} {
		if orient(L.p1, L.p2, c) == 0 && between(L.p1, L.p2, c) {
			return true
		}
	}
	return false
}

type pendingOp struct{ stream, op, impl string }

// flush asks the model for all pending operations and records disagreements
func (e *env) flush() {
	if len(e.pending) == 0 {
		return
	}
	if e.drv != nil {
		ops := make([]string, len(e.pending))
		for i, p := range e.pending {
			ops[i] = p.op
		}
		ans := e.drv.AskAll(ops)
		for i, p := range e.pending {
			if ans[i] != p.impl {
				e.res.diff(Diff{Stream: p.stream, Op: p.op, Impl: p.impl, Model: ans[i]})
			}
		}
	}
	e.pending = e.pending[:0]
}

// ---- route: InsertCoord + snapClosestPoints against the model and the exact specification

type routeCase struct {
	g      grid
	L      iseg
	levels []uint
	addrs  [][2]int64 // deepest addresses of the inserted points
}

func (c routeCase) op() string {
	var sb strings.Builder
	fmt.Fprintf(&sb, "route %s %d %d %d %d %d", c.g, c.L.p1.x, c.L.p1.y, c.L.p2.x, c.L.p2.y, len(c.levels))
	for _, l := range c.levels {
		fmt.Fprintf(&sb, " %d", l)
	}
	fmt.Fprintf(&sb, " %d", len(c.addrs))
	for _, a := range c.addrs {
		fmt.Fprintf(&sb, " %d %d", a[0], a[1])
	}
	return sb.String()
}

// runImpl: the real index; returns per requested level the routed pixel addresses
func (c routeCase) runImpl() (res map[uint][][2]int64, panicMsg string) {
	defer func() {
		if r := recover(); r != nil {
			panicMsg = fmt.Sprint(r)
		}
	}()
	size := int64(1) << c.g.depth
	ix := pointindex.XNew(intgeom.Extent{c.g.minX, c.g.minY, c.g.minX + size*c.g.res, c.g.minY + size*c.g.res}, c.g.depth)
	for _, a := range c.addrs {
		if err := ix.InsertCoord(int(a[0]), int(a[1])); err != nil {
			return nil, "insert: " + err.Error()
		}
	}
	raw := ix.XSnapInt(intgeom.Line{{c.L.p1.x, c.L.p1.y}, {c.L.p2.x, c.L.p2.y}}, c.levels)
	res = map[uint][][2]int64{}
	for l, qs := range raw {
		for _, q := range qs {
			res[l] = append(res[l], [2]int64{int64(q[0]), int64(q[1])})
		}
	}
	return res, ""
}

func fmtRoute(levels []uint, res map[uint][][2]int64) string {
	parts := make([]string, len(levels))
	for i, l := range levels {
		parts[i] = fmt.Sprintf("L%d:[%s]", l, fmtQuads(res[l]))
	}
	return strings.Join(parts, " ")
}

// routeOracle evaluates C02's first sentence on an answer: exactly the hot pixels met, in travel order
func routeOracle(c routeCase, res map[uint][][2]int64) (bad string) {
	for _, l := range c.levels {
		got := res[l]
		hot := map[[2]int64]bool{}
		if l == 0 {
			hot[[2]int64{0, 0}] = true
		}
		for _, a := range c.addrs {
			hot[[2]int64{a[0] >> (c.g.depth - l), a[1] >> (c.g.depth - l)}] = true
		}
		want := map[[2]int64]bool{}
		if meets(c.L, c.g.box(0, 0, 0)) {
			for q := range hot {
				if meets(c.L, c.g.box(l, q[0], q[1])) {
					want[q] = true
				}
			}
		}
		seen := map[[2]int64]bool{}
		for _, q := range got {
			if seen[q] {
				return fmt.Sprintf("level %d: pixel %v routed twice", l, q)
			}
			seen[q] = true
			if !want[q] {
				if !hot[q] {
					return fmt.Sprintf("level %d: pixel %v routed but holds no vertex", l, q)
				}
				return fmt.Sprintf("level %d: pixel %v routed but the edge does not meet it", l, q)
			}
		}
		for q := range want {
			if !seen[q] {
				return fmt.Sprintf("level %d: pixel %v holds a vertex and is met by the edge but is not routed", l, q)
			}
		}
		for i := 0; i < len(got); i++ {
			for j := i + 1; j < len(got); j++ {
				if !precedes(c.L, c.g.box(l, got[i][0], got[i][1]), c.g.box(l, got[j][0], got[j][1])) {
					return fmt.Sprintf("level %d: pixels %v, %v not in order of travel", l, got[i], got[j])
				}
			}
		}
	}
	return ""
}

func (e *env) routeCase(c routeCase, stream string) {
	r := e.res
	op := c.op()
	res, pmsg := c.runImpl()
	impl := ""
	if pmsg != "" {
		impl = "panic " + pmsg
		r.violation(Violation{Oracle: "routing-total", Op: op, Impl: impl, Detail: pmsg})
	} else {
		impl = fmtRoute(c.levels, res)
		if bad := routeOracle(c, res); bad != "" {
			r.violation(Violation{Oracle: "routed-through-exactly-the-hot-pixels-met-in-travel-order", Op: op, Impl: impl, Detail: bad})
		}
	}
	// tie classes
	deep := c.g.res
	onB := func(v, min int64) bool { return (v-min)%deep == 0 }
	tie := false
	for _, p := range []ipt{c.L.p1, c.L.p2} {
		bx, by := onB(p.x, c.g.minX), onB(p.y, c.g.minY)
		if bx && by {
			r.Dist["route:endpoint-on-corner"]++
			tie = true
		} else if bx || by {
			r.Dist["route:endpoint-on-border"]++
			tie = true
		}
	}
	if (c.L.p1.x == c.L.p2.x && onB(c.L.p1.x, c.g.minX)) || (c.L.p1.y == c.L.p2.y && onB(c.L.p1.y, c.g.minY)) {
		r.Dist["route:edge-along-border"]++
		tie = true
	}
	for _, a := range c.addrs {
		if throughCorner(c.L, c.g.box(c.g.depth, a[0], a[1])) {
			r.Dist["route:edge-through-corner-of-hot-pixel"]++
			tie = true
			break
		}
	}
	n := 0
	for _, l := range c.levels {
		if len(res[l]) > n {
			n = len(res[l])
		}
	}
	r.Dist[fmt.Sprintf("route:max-pixels-routed=%d", min(n, 6))]++
	r.count(stream, op, tie || n >= 2)
	e.pending = append(e.pending, pendingOp{stream, op, impl})
	if len(e.pending) >= 4096 {
		e.flush()
	}
}

func checkC02(e *env) {
	r := e.res
	r.Rule = "li: every segment with endpoints in {-1..5}^2 (units of half a pixel side 2) against 5 boxes (exhaustive), plus random segments with coordinates up to 2^60; cmp: mathhelp.CmpProducts and FloorDiv on factors around every power of two up to 2^62 against math/big; " +
		"route: segments with endpoints on the quarter-pixel lattice of a 3x3-pixel window x subsets of its 9 pixels as hot set, for 3 placements of the window in a depth-5 grid " +
		"(quick: sampled; thorough: exhaustive), plus random segments/hot sets on deeper grids and non-zero origins, endpoints forced onto borders and corners. " +
		"snap: valid polygons through the real SnapPolygon; where the model's routed chains (op chains) visit no pixel centre twice, the result must be exactly those chains (one polygon, shell first, orientation as normalised, reversed under the flag). Non-trivial = a tie class is hit (endpoint on a pixel border/corner, edge along a border, edge through a corner of a hot pixel) or at least two pixels are routed; distinct by op text."
	// ---- li, exhaustive small scope
	boxes := []ibox{{0, 0, 2, 2}, {2, 2, 4, 4}, {1, 1, 3, 3}, {0, 2, 4, 4}, {-1, -1, 0, 0}}
	for x1 := int64(-1); x1 <= 5; x1++ {
		for y1 := int64(-1); y1 <= 5; y1++ {
			for x2 := int64(-1); x2 <= 5; x2++ {
				for y2 := int64(-1); y2 <= 5; y2++ {
					for _, B := range boxes {
						liCase(e, iseg{ipt{x1, y1}, ipt{x2, y2}}, B, "li")
					}
				}
			}
		}
	}
	e.flush()
	r.stream("li").Exhaustive = true
	// ---- li, large coordinates (128-bit products)
	for i := 0; i < e.n(20000, 400000); i++ {
		sh := uint(e.rng.Intn(58))
		rnd := func() int64 { return (e.rng.Int63() >> (62 - sh)) - (int64(1) << sh >> 1) }
		bx, by := rnd(), rnd()
		w := 1 + (e.rng.Int63() >> (63 - sh - 1) >> 1)
		B := ibox{bx, by, bx + w, by + w}
		pick := func(lo, w int64) int64 {
			switch e.rng.Intn(6) {
			case 0:
				return lo
			case 1:
				return lo + w
			case 2:
				return lo + w/2
			case 3:
				return lo - 1 - e.rng.Int63n(w+1)
			case 4:
				return lo + w + e.rng.Int63n(w+1)
			}
			return lo + e.rng.Int63n(w+1)
		}
		L := iseg{ipt{pick(bx, w), pick(by, w)}, ipt{pick(bx, w), pick(by, w)}}
		liCase(e, L, B, "li-large")
	}
	e.flush()
	// ---- the integer helpers under the pixel test and the address arithmetic, against math/big: factors around every power of two up to 2^62
	// (products just below and above 2^63, 2^64, 2^126), mixed signs, zeros; FloorDiv with remainders and quotients of every sign
	edge := func() int64 {
		k := uint(e.rng.Intn(63))
		v := int64(1)<<k + int64(e.rng.Intn(5)) - 2
		if e.rng.Intn(4) == 0 {
			v = e.rng.Int63n(int64(1)<<k + 1)
		}
		if e.rng.Intn(2) == 0 {
			v = -v
		}
		if e.rng.Intn(40) == 0 {
			v = 0
		}
		return v
	}
	for i := 0; i < e.n(40000, 2000000); i++ {
		a, b, c, d := edge(), edge(), edge(), edge()
		if e.rng.Intn(3) == 0 { // products close to each other
			c, d = b, a+int64(e.rng.Intn(3))-1
		}
		got := mathhelp.CmpProducts(a, b, c, d)
		l := new(big.Int).Mul(big.NewInt(a), big.NewInt(b))
		want := l.Cmp(new(big.Int).Mul(big.NewInt(c), big.NewInt(d)))
		r.count("cmp", fmt.Sprintf("cmp %d %d %d %d", a, b, c, d), true)
		if got != want {
			r.violation(Violation{Oracle: "CmpProducts-is-the-sign-of-the-difference-of-the-products", Op: fmt.Sprintf("CmpProducts(%d, %d, %d, %d)", a, b, c, d), Impl: fmt.Sprint(got), Detail: fmt.Sprintf("exact: %d", want)})
		}
		n, dd := edge(), edge()
		if dd == 0 || (n == math.MinInt64 && dd == -1) {
			continue
		}
		q := mathhelp.FloorDiv(n, dd)
		fq := new(big.Int).Div(big.NewInt(n), big.NewInt(dd)) // Euclidean
		if dd < 0 && new(big.Int).Mod(big.NewInt(n), big.NewInt(dd)).Sign() != 0 {
			fq.Sub(fq, big.NewInt(1)) // Euclidean division rounds up for a negative divisor with a remainder: the floor is one less
		}
		r.count("cmp", fmt.Sprintf("floordiv %d %d", n, dd), true)
		if fq.Cmp(big.NewInt(q)) != 0 {
			r.violation(Violation{Oracle: "FloorDiv-rounds-towards-minus-infinity", Op: fmt.Sprintf("FloorDiv(%d, %d)", n, dd), Impl: fmt.Sprint(q), Detail: "exact floor: " + fq.String()})
		}
	}
	// ---- route: 3x3-pixel windows in a depth-5 grid, quarter-pixel lattice
	const depth = 5
	placements := [][2]int64{{9, 9}, {15, 15}, {0, 0}, {29, 29}} // inside a level-3 quadrant, straddling the root centroid, at the two grid corners
	g := grid{0, 0, 4, depth}
	exhaustive := e.tier == "thorough" && e.scale >= 1
	doWindow := func(pl [2]int64, x1, y1, x2, y2 int64, hotMask int) {
		var addrs [][2]int64
		for k := 0; k < 9; k++ {
			if hotMask>>k&1 == 1 {
				addrs = append(addrs, [2]int64{pl[0] + int64(k%3), pl[1] + int64(k/3)})
			}
		}
		ox, oy := pl[0]*4, pl[1]*4
		c := routeCase{g: g, L: iseg{ipt{ox + x1, oy + y1}, ipt{ox + x2, oy + y2}}, levels: []uint{depth, depth - 1, 2, 0}, addrs: addrs}
		e.routeCase(c, "route")
	}
	if exhaustive {
		for _, pl := range placements[:3] {
			for x1 := int64(0); x1 <= 12; x1++ {
				for y1 := int64(0); y1 <= 12; y1++ {
					for x2 := int64(0); x2 <= 12; x2++ {
						for y2 := int64(0); y2 <= 12; y2++ {
							for m := 0; m < 512; m++ {
								doWindow(pl, x1, y1, x2, y2, m)
							}
						}
					}
				}
			}
		}
		r.stream("route").Exhaustive = true
	} else {
		for i := 0; i < e.n(150000, 3000000); i++ {
			pl := placements[e.rng.Intn(len(placements))]
			doWindow(pl, e.rng.Int63n(13), e.rng.Int63n(13), e.rng.Int63n(13), e.rng.Int63n(13), e.rng.Intn(512))
		}
	}
	e.flush()
	// ---- route: random grids (non-zero origin, odd resolutions, deeper), endpoints biased to borders and corners, hot pixels near the segment
	for i := 0; i < e.n(30000, 600000); i++ {
		d := uint(3 + e.rng.Intn(6))
		res := []int64{1, 2, 3, 4, 7, 16, 1000, 6720000000}[e.rng.Intn(8)]
		gg := grid{(e.rng.Int63n(2001) - 1000) * res, (e.rng.Int63n(2001) - 1000) * res, res, d}
		size := int64(1) << d
		coord := func(min int64) int64 {
			k := e.rng.Int63n(size)
			switch e.rng.Intn(4) {
			case 0:
				return min + k*res // on a border
			case 1:
				return min + k*res + res/2
			}
			return min + k*res + e.rng.Int63n(res)
		}
		L := iseg{ipt{coord(gg.minX), coord(gg.minY)}, ipt{coord(gg.minX), coord(gg.minY)}}
		nh := e.rng.Intn(12)
		var addrs [][2]int64
		if ax, ay, ok := gg.addr(L.p1); ok && e.rng.Intn(4) > 0 {
			addrs = append(addrs, [2]int64{ax, ay})
		}
		if ax, ay, ok := gg.addr(L.p2); ok && e.rng.Intn(4) > 0 {
			addrs = append(addrs, [2]int64{ax, ay})
		}
		for h := 0; h < nh; h++ {
			// a pixel near a random point of the segment
			t := e.rng.Float64()
			px := float64(L.p1.x) + t*float64(L.p2.x-L.p1.x)
			py := float64(L.p1.y) + t*float64(L.p2.y-L.p1.y)
			ax := floorDiv(int64(px)-gg.minX, res) + e.rng.Int63n(3) - 1
			ay := floorDiv(int64(py)-gg.minY, res) + e.rng.Int63n(3) - 1
			if ax >= 0 && ay >= 0 && ax < size && ay < size {
				addrs = append(addrs, [2]int64{ax, ay})
			}
		}
		levels := []uint{d}
		for l := uint(0); l < d; l++ {
			if e.rng.Intn(3) == 0 {
				levels = append(levels, l)
			}
		}
		sort.Slice(levels, func(i, j int) bool { return levels[i] < levels[j] })
		e.routeCase(routeCase{g: gg, L: L, levels: levels, addrs: addrs}, "route-random")
	}
	e.flush()
	r.Exhaustive = exhaustive
	// ---- second sentence: a polygon none of whose parts collapse onto a common pixel comes back as the ring-by-ring concatenation
	// of its routed edges (the model's chains; the routing is proved exact), shell counter-clockwise, holes clockwise
	e.runSnap(snapOpts{stream: "snap", n: e.n(6000, 300000), needChains: true, gen: e.validGen(allWindows(), 24), hook: func(c *snapCase, sr *snapResult, chains map[uint][]ring) {
		if sr.panicMsg != "" || sr.hang || chains == nil {
			return
		}
		for _, l := range c.levels() {
			ch := chains[l]
			ok := maxVisits(ch) == 1
			for _, cr := range ch {
				if len(cr) < 3 {
					ok = false
				}
			}
			if !ok {
				r.Dist["snap:some-part-collapses(second sentence not applicable)"]++
				// ring by ring (C02_second_sentence_ring): a ring whose own chain has at least three pixels and visits none twice comes out of the
				// clean-up as exactly that chain, whatever happens to the other rings; unless another ring has the same set of pixels (equal rings
				// cancel in the assembly) it must be among the rings returned for the level, in one direction or the other
				pixset := func(cr ring) string {
					ks := make([]string, 0, len(cr))
					seen := map[ipt]bool{}
					for _, p := range cr {
						if !seen[p] {
							seen[p] = true
							ks = append(ks, fmt.Sprintf("%d,%d", p.x, p.y))
						}
					}
					sort.Strings(ks)
					return strings.Join(ks, " ")
				}
				sets := map[string]int{}
				for _, cr := range ch {
					sets[pixset(cr)]++
				}
				for i, cr := range ch {
					if len(cr) < 3 || maxVisits([]ring{cr}) != 1 || sets[pixset(cr)] != 1 {
						continue
					}
					r.Dist["snap:ring-without-collapse-in-a-collapsing-polygon"]++
					found := false
					rev := append(ring{}, cr...)
					reverseRing(rev)
					for _, pg := range sr.levels[l] {
						for _, rg := range pg {
							if sameCyclic(rg, cr) || sameCyclic(rg, rev) {
								found = true
							}
						}
					}
					if !found {
						e.snapViolation("non-collapsing-ring-is-the-concatenation-of-its-routed-edges", c, sr, fmt.Sprintf("level %d: ring %d does not come back as its chain of routed edges %s", l, i, fmtRing(cr)), "")
						return
					}
				}
				continue
			}
			r.Dist["snap:no-collapse(second sentence applies)"]++
			polys := sr.levels[l]
			bad := ""
			if len(polys) != 1 || len(polys[0]) != len(ch) {
				bad = fmt.Sprintf("expected one polygon with %d ring(s)", len(ch))
			} else {
				for i, cr := range ch {
					want := append(ring{}, cr...)
					if c.cfg.ReverseWindingOrder {
						reverseRing(want)
					}
					if !sameCyclic(polys[0][i], want) {
						bad = fmt.Sprintf("ring %d is not the chain of routed edges %s", i, fmtRing(want))
						break
					}
					s := area2(cr).Sign()
					if (i == 0 && s <= 0) || (i > 0 && s >= 0) {
						bad = fmt.Sprintf("routed ring %d has the wrong orientation", i)
					}
				}
			}
			if bad != "" {
				e.snapViolation("non-collapsing-polygon-is-the-concatenation-of-routed-edges", c, sr, fmt.Sprintf("level %d: %s", l, bad), "")
				return
			}
		}
	}})
}

func sameCyclic(a, b ring) bool {
	if len(a) != len(b) {
		return false
	}
	if len(a) == 0 {
		return true
	}
	for off := range b {
		if b[off] != a[0] {
			continue
		}
		same := true
		for k := range a {
			if a[k] != b[(off+k)%len(b)] {
				same = false
				break
			}
		}
		if same {
			return true
		}
	}
	return false
}
