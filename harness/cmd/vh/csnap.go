package main

import (
	"path/filepath"
	"os"
	"fmt"
	"sort"
	"strings"

	"github.com/go-spatial/geom"
)

// The snapping family: C01, C03, C04, C05, C06, C07, C08, C09, C18 share the `snap` correspondence stream
// (real snap.SnapPolygon against the Lean model `snapPolygon`) and differ in generator emphasis and oracle.

type snapHook func(c *snapCase, sr *snapResult, chains map[uint][]ring)

type snapOpts struct {
	stream     string
	n          int
	gen        func() *snapCase
	hook       snapHook
	needChains bool
	noModel    bool // skip the correspondence (e.g. levels above 32 that the finding F7 covers)
}

func (e *env) classify(c *snapCase, sr *snapResult) (nontrivial bool) {
	r := e.res
	g := c.grid()
	lmax := uint(c.deepest()) + c.gs.levelDiff
	s := g.span(lmax)
	tie := false
	for _, rg := range c.rings {
		for _, p := range rg {
			bx, by := (p.x-g.minX)%s == 0, (p.y-g.minY)%s == 0
			if bx || by {
				tie = true
			}
		}
	}
	if tie {
		r.Dist["snap:vertex-on-pixel-border"]++
	}
	collapse := false
	if sr.panicMsg != "" || sr.hang {
		r.Dist["snap:panic:"+panicClass(sr.panicMsg)]++
		return true
	}
	nin := 0
	for _, rg := range c.rings {
		nin += len(rg)
	}
	for _, l := range c.levels() {
		polys, present := sr.levels[l]
		switch {
		case !present:
			r.Dist["snap:level-absent(collapsed)"]++
			collapse = true
		case len(polys) == 0:
			r.Dist["snap:level-mapped-to-empty-list"]++ // the oracles report it
			collapse = true
		case len(polys) > 1:
			r.Dist["snap:several-polygons(split or points/lines)"]++
			collapse = true
		default:
			nout := 0
			for _, rg := range polys[0] {
				nout += len(rg)
			}
			if len(polys[0]) != len(c.rings) {
				r.Dist["snap:ring-count-changed"]++
				collapse = true
			} else if nout < nin {
				r.Dist["snap:vertices-merged"]++
			} else if nout > nin {
				r.Dist["snap:vertices-inserted"]++
				collapse = true
			}
		}
	}
	r.Dist["snap:family:"+c.tag]++
	r.Dist["snap:grid:"+c.gs.name]++
	return tie || collapse
}

// corpusCases: the recorded inputs of /verif/corpus/<property>.ops (witnesses of the known findings, minimised past failures): they run first
func (e *env) corpusCases() []*snapCase {
	if e.corpusDone {
		return nil
	}
	e.corpusDone = true
	b, err := os.ReadFile(filepath.Join(verifDir(), "corpus", e.res.Property+".ops"))
	if err != nil {
		return nil
	}
	var cs []*snapCase
	for _, line := range strings.Split(string(b), "\n") {
		line = strings.TrimSpace(line)
		if line == "" || strings.HasPrefix(line, "#") {
			continue
		}
		c, err := caseFromOp(line)
		if err != nil {
			e.res.Notes = append(e.res.Notes, "corpus: "+err.Error())
			continue
		}
		c.tag = "corpus"
		cs = append(cs, c)
	}
	e.res.Dist["snap:corpus-cases"] = len(cs)
	return cs
}

func (e *env) runSnap(o snapOpts) {
	r := e.res
	const chunk = 1024
	corpus := e.corpusCases()
	for done := 0; done < o.n; {
		var cases []*snapCase
		cases, corpus = append(cases, corpus...), nil
		for len(cases) < chunk && done+len(cases) < o.n {
			c := o.gen()
			if c == nil {
				continue
			}
			cases = append(cases, c)
		}
		done += len(cases)
		results := make([]*snapResult, len(cases))
		ops := make([]string, len(cases))
		for i, c := range cases {
			if i > 0 && cases[i-1].gs == c.gs && e.rng.Intn(3) == 0 {
				e.poison(c, cases[i-1])
			}
			if e.rng.Intn(4) == 0 {
				e.neighbours(c)
			}
			results[i] = c.runImpl()
			ops[i] = c.op()
		}
		var answers, chainAns []string
		if e.drv != nil && !o.noModel {
			answers = e.drv.AskAll(ops)
		}
		if e.drv != nil && o.needChains {
			cops := make([]string, len(cases))
			for i, c := range cases {
				cops[i] = c.opWith("chains")
			}
			chainAns = e.drv.AskAll(cops)
		}
		if e.drv != nil && !o.noModel {
			// the functional model (which the theorems are about) against its line-by-line reference transcription, inside the driver
			var bops []string
			for i, c := range cases {
				if i%4 == 0 {
					bops = append(bops, c.opWith("snapboth"))
				}
			}
			for i, a := range e.drv.AskAll(bops) {
				r.stream("model-functional-vs-reference").Ops++
				if a != "same" {
					r.diff(Diff{Stream: "model-functional-vs-reference", Op: bops[i], Impl: "(reference transcription)", Model: a})
				}
			}
		}
		for i, c := range cases {
			sr := results[i]
			nt := e.classify(c, sr)
			r.count(o.stream, ops[i], nt)
			impl := sr.String()
			if c.skipModel {
				r.Dist["snap:not-compared(arbitrary polygon on a non-dyadic grid: float seam)"]++
			} else if answers != nil {
				if m := canonModel(answers[i]); m != impl {
					if c.gs.levelDiff != 4 && (hasZeroAreaRing(sr.levels) || hasZeroAreaRing(parseSnapAnswer(m))) {
						// float seam (DESIGN §7): on a non-dyadic grid the code's float orientation of a ring whose exact area is zero
						// (a figure-eight of equal lobes) is rounding noise, the model's exact orientation says collinear
						r.Dist["snap:not-compared(zero-area ring under float orientation on a non-dyadic grid)"]++
					} else if c.gs.levelDiff != 4 && hasEqualAreaShells(sr.levels) && sameRingsDifferentGrouping(sr.levels, parseSnapAnswer(m)) {
						// float seam (DESIGN §7): which shell a hole goes to, when several contain equally many of its vertices, is decided by the
						// float shoelace areas of the shells; between shells of exactly equal area the order is rounding noise on a real grid
						// (the model's areas are exact and tie). Same rings on every level, only their grouping into polygons differs, and two
						// shells do have the same exact area: the oracles judge the implementation's own grouping
						r.Dist["snap:not-compared(hole matching between shells of equal exact area on a non-dyadic grid)"]++
					} else {
						r.diff(Diff{Stream: o.stream, Op: ops[i], Impl: impl, Model: m, Note: c.describe()})
					}
				}
			}
			var chains map[uint][]ring
			if chainAns != nil {
				chains = parseChains(chainAns[i])
			}
			if o.hook != nil {
				o.hook(c, sr, chains)
			}
		}
	}
}

// poison: before some cases the same tile matrix set (same ids) is asked to snap *another* polygon that leaves the grid after some inside
// vertices (skipped with ignore-outside-grid, or panicking without it): whatever that call leaves behind must not influence the next one
func (e *env) poison(c, other *snapCase) {
	g := c.grid()
	size := int64(1) << g.depth
	pc := *c
	pc.cfg.IgnoreOutsideGrid = e.rng.Intn(3) > 0
	poly := make(geom.Polygon, len(other.poly))
	for i := range other.poly {
		poly[i] = append([][2]float64{}, other.poly[i]...)
	}
	if len(poly) == 0 || len(poly[0]) < 2 {
		return
	}
	out := [2]float64{float64(g.minX+size*g.res)/1e10 + 10, float64(g.minY+size*g.res)/1e10 + 10}
	poly[len(poly)-1][len(poly[len(poly)-1])-1] = out
	pc.before = nil
	pc.setPoly(poly)
	sr := pc.runImpl()
	c.before = append(c.before, fmt.Sprintf("%v (ignoreOutside=%v)", pc.poly, pc.cfg.IgnoreOutsideGrid))
	e.res.Dist["snap:preceded-by-an-outside-grid-call"]++
	want := "panic outside-grid"
	if pc.cfg.IgnoreOutsideGrid {
		want = "ok "
	}
	if got := sr.String(); got != want {
		e.snapViolation("outside-grid-rejected", &pc, sr, "expected "+want, "")
	}
}

// neighbours: before some cases the same tile matrix set (same ids, same flags) snaps a few triangles that each share one edge with the
// polygon to come, walked the other way, as adjacent parcels do: what an earlier polygon left behind about a shared edge must not
// decide how the next polygon is routed along it
func (e *env) neighbours(c *snapCase) {
	g := c.grid()
	size := float64(int64(1) << g.depth)
	minX, minY := float64(g.minX)/1e10, float64(g.minY)/1e10
	maxX, maxY := minX+size*float64(g.res)/1e10, minY+size*float64(g.res)/1e10
	n := 0
	for _, rg := range c.poly {
		for i := 0; i+1 <= len(rg) && n < 6; i++ {
			a, b := rg[i], rg[(i+1)%len(rg)]
			if a == b || e.rng.Intn(2) == 0 {
				continue
			}
			// the third vertex on the right of a->b (outside a counter-clockwise shell), as far away as the edge is long
			t := [2]float64{(a[0]+b[0])/2 + (b[1] - a[1]), (a[1]+b[1])/2 - (b[0] - a[0])}
			if !(t[0] > minX && t[0] < maxX && t[1] > minY && t[1] < maxY) {
				continue
			}
			nc := *c
			nc.before = nil
			nc.setPoly(geom.Polygon{{b, a, t}})
			nc.runImpl()
			c.before = append(c.before, fmt.Sprint(nc.poly))
			n++
		}
	}
	if n > 0 {
		e.res.Dist["snap:preceded-by-neighbours-sharing-an-edge"]++
	}
}

// sameRingsDifferentGrouping: on every level the two answers consist of the same rings (as cyclic sequences, in either direction) and only
// differ in which polygon a ring belongs to or in the order of the polygons
func sameRingsDifferentGrouping(a, b map[uint][]polygonI) bool {
	if len(a) != len(b) {
		return false
	}
	key := func(ps []polygonI) []string {
		var ks []string
		for _, pg := range ps {
			for _, rg := range pg {
				ks = append(ks, canonCyclic(rg))
			}
		}
		sort.Strings(ks)
		return ks
	}
	for l, pa := range a {
		pb, ok := b[l]
		if !ok {
			return false
		}
		ka, kb := key(pa), key(pb)
		if len(ka) != len(kb) {
			return false
		}
		for i := range ka {
			if ka[i] != kb[i] {
				return false
			}
		}
	}
	return true
}

// hasEqualAreaShells: some level has two polygons whose shells have exactly the same area
func hasEqualAreaShells(levels map[uint][]polygonI) bool {
	for _, ps := range levels {
		seen := map[string]bool{}
		for _, pg := range ps {
			if len(pg) == 0 || len(pg[0]) < 3 {
				continue
			}
			a := area2(pg[0])
			k := a.Abs(a).String()
			if seen[k] {
				return true
			}
			seen[k] = true
		}
	}
	return false
}

// canonCyclic: the lexicographically smallest rotation over both directions
func canonCyclic(rg ring) string {
	best := ""
	n := len(rg)
	for dir := 0; dir < 2; dir++ {
		for off := 0; off < n; off++ {
			var sb strings.Builder
			for k := 0; k < n; k++ {
				idx := (off + k) % n
				if dir == 1 {
					idx = ((off-k)%n + n) % n
				}
				fmt.Fprintf(&sb, "%d,%d ", rg[idx].x, rg[idx].y)
			}
			if s := sb.String(); best == "" || s < best {
				best = s
			}
		}
	}
	return best
}

func hasZeroAreaRing(levels map[uint][]polygonI) bool {
	for _, ps := range levels {
		for _, pg := range ps {
			for _, rg := range pg {
				if len(rg) >= 3 && area2(rg).Sign() == 0 {
					return true
				}
			}
		}
	}
	return false
}

// parseSnapAnswer parses the canonical answer text back into pixel-index polygons
func parseSnapAnswer(ans string) map[uint][]polygonI {
	res := map[uint][]polygonI{}
	if !strings.HasPrefix(ans, "ok ") {
		return res
	}
	for _, part := range splitLevels(ans[3:]) {
		var l uint
		i := strings.Index(part, ":[")
		if i < 0 {
			continue
		}
		fmt.Sscanf(part[1:i], "%d", &l)
		body := part[i+2 : len(part)-1]
		var polys []polygonI
		for _, ps := range strings.Split(body, ";") {
			var pg polygonI
			for _, rs := range strings.Split(ps, "|") {
				pg = append(pg, parseRing(rs))
			}
			polys = append(polys, pg)
		}
		res[l] = polys
	}
	return res
}

func (e *env) snapViolation(oracle string, c *snapCase, sr *snapResult, detail, known string) {
	e.res.violation(Violation{Oracle: oracle, Op: c.op(), Impl: sr.String(), Detail: detail + " | " + c.describe(), Known: known})
}

// chainsFor asks the model for the routed chains of one case (used to identify finding F5 on a violation)
func (e *env) chainsFor(c *snapCase) map[uint][]ring {
	if e.drv == nil {
		return nil
	}
	return parseChains(e.drv.Ask(c.opWith("chains")))
}

// isF5: the identification predicate of known finding F5 (DESIGN §5): on this level the routed chain visits some centre
// at least three times AND the offending output edge is not a straight run of consecutive routed edges
func isF5(chains map[uint][]ring, l uint, offending ...edge) bool {
	if chains == nil {
		return false
	}
	ch := chains[l]
	if maxVisits(ch) < 3 {
		return false
	}
	for _, e := range offending {
		if !isRoutedRun(ch, e.a, e.b) {
			return true
		}
	}
	return false
}

// isF13: the identification predicate of known finding F13 (DESIGN §5): the level's result contains a polygon whose shell comes back as one
// of its own holes (dedupeInnersOuters keeps one outer and one inner of a group of equal rings when there are as many of the one as of the
// other) and that zero-area polygon has been given a further hole by matchInnersToPolygons (it is the smallest shell around it)
func isF13(polys []polygonI) bool {
	for _, pg := range polys {
		if len(pg) < 3 || len(pg[0]) < 3 {
			continue
		}
		shell := canonCyclic(pg[0])
		same, other := 0, 0
		for _, h := range pg[1:] {
			if len(h) == len(pg[0]) && canonCyclic(h) == shell {
				same++
			} else {
				other++
			}
		}
		if same == 1 && other >= 1 { // exactly one copy of the shell among the holes: what the "as many outers as inners" branch leaves
			return true
		}
	}
	return false
}

func sortedLevels(m map[uint][]polygonI) []uint {
	ls := make([]uint, 0, len(m))
	for l := range m {
		ls = append(ls, l)
	}
	sort.Slice(ls, func(i, j int) bool { return ls[i] < ls[j] })
	return ls
}

func (e *env) validGen(ws []window, maxv int) func() *snapCase {
	return func() *snapCase { return genCase(e.rng, pickWindow(e.rng, ws), true, maxv) }
}
func (e *env) anyGen(ws []window, maxv int, validShare int) func() *snapCase {
	return func() *snapCase { return genCase(e.rng, pickWindow(e.rng, ws), e.rng.Intn(100) < validShare, maxv) }
}

func allWindows() []window {
	initWindows()
	return append(append([]window{}, synthWindows...), realWindows...)
}

const snapRule = "polygons on a lattice of 2..16 points per pixel inside synthetic dyadic grids (16..64 px, zero and non-zero origin) and windows of NetherlandsRDNewQuad (ids 3..14), " +
	"WebMercatorQuad (16..18) and EuropeanETRS89_LAEAQuad (12..14); families: spiky stars, stars with holes, combs with sub-pixel teeth, slivers, pinched necks, border-aligned rectangles, holes inside holes' islands / hugging the shell / hugging each other / smaller than a pixel on the path of a side, thin paths, far-apart vertices, POLYGON EMPTY " +
	"(valid ones checked exactly) and arbitrary sequences (zig-zags of period <= 6, random walks, repeated vertices, 1-2 point rings, self-intersections); random flags and id subsets; before some cases a polygon leaving the grid or neighbours sharing an edge are snapped with the same set, ids and flags. " +
	"Non-trivial = some vertex lies on a pixel border of the deepest requested level, or the result collapses/splits/changes ring or vertex count, or panics; distinct by op text."

// ---------------- C01

func init() {
	checks["C01"] = checkC01
	checks["C04"] = checkC04
	checks["C05"] = checkC05
	checks["C18"] = checkC18
}

func checkC01(e *env) {
	e.res.Rule = snapRule + " C01 uses valid polygons only; oracle: no two edges of the geometry returned for a tile matrix cross properly (exact orientation tests on pixel indices)."
	e.runSnap(snapOpts{stream: "snap", n: e.n(12000, 600000), gen: e.validGen(allWindows(), 40), hook: func(c *snapCase, sr *snapResult, _ map[uint][]ring) {
		if sr.panicMsg != "" || sr.hang {
			return
		}
		for _, l := range sortedLevels(sr.levels) {
			if bad, e1, e2 := oracleNoCross(sr.levels[l]); bad != "" {
				known := ""
				if isF5(e.chainsFor(c), l, e1, e2) {
					known = "F5"
				}
				e.snapViolation("no-crossing-edges", c, sr, fmt.Sprintf("level %d: %s", l, bad), known)
				return
			}
		}
	}})
}

// ---------------- C04

func checkC04(e *env) {
	e.res.Rule = snapRule + " C04 uses valid polygons; oracles: (a) every output vertex is the pixel of an input vertex, (b) 5 points per output edge within half a pixel (Chebyshev, exact) of the input boundary, " +
		"(c) up to 150 locations per case (pixel centres, corners, off-centre points over the bounding box +2 px) farther than one pixel from the input boundary: covered after iff covered before (exact even-odd)."
	tested := 0
	e.runSnap(snapOpts{stream: "snap", n: e.n(6000, 300000), gen: e.validGen(allWindows(), 32), hook: func(c *snapCase, sr *snapResult, _ map[uint][]ring) {
		if sr.panicMsg != "" || sr.hang {
			return
		}
		g := c.grid()
		for _, l := range c.levels() {
			lg := levelGeom{g, l, g.span(l)}
			polys := sr.levels[l]
			if bad, off, isEdge := oracleC04ab(lg, c.rings, polys); bad != "" {
				known := ""
				if isEdge && isF5(e.chainsFor(c), l, off) {
					known = "F5"
				}
				e.snapViolation("vertices-and-edges-within-half-a-pixel", c, sr, fmt.Sprintf("level %d: %s", l, bad), known)
				return
			}
			bad, n := oracleC04c(e.rng, lg, c.rings, polys, 150)
			tested += n
			if bad != "" {
				known := ""
				if isF13(polys) {
					known = "F13"
				} else if ch := e.chainsFor(c); ch != nil && maxVisits(ch[l]) >= 3 {
					// coverage lost/gained through the invented edge of F5: identified by an output edge that is not a routed run
					for _, ed := range allEdges(polys) {
						if !isRoutedRun(ch[l], ed.a, ed.b) {
							known = "F5"
							break
						}
					}
				}
				e.snapViolation("coverage-preserved-beyond-one-pixel", c, sr, fmt.Sprintf("level %d: %s", l, bad), known)
				return
			}
		}
	}})
	e.res.Dist["c04:coverage-locations-tested"] = tested
}

// ---------------- C05

func checkC05(e *env) {
	e.res.Rule = snapRule + " C05 uses valid and arbitrary polygons (50/50), all four flag combinations; oracle: ring structure, orientation, no vertex twice, collapse policy; each case is run with and without keep-points-and-lines."
	e.runSnap(snapOpts{stream: "snap", n: e.n(10000, 500000), gen: e.anyGen(allWindows(), 32, 50), hook: func(c *snapCase, sr *snapResult, _ map[uint][]ring) {
		if sr.panicMsg != "" || sr.hang {
			return
		}
		for _, l := range sortedLevels(sr.levels) {
			if bad := oracleC05(sr.levels[l], c.cfg.KeepPointsAndLines, c.cfg.ReverseWindingOrder); bad != "" {
				e.snapViolation("rings-well-formed", c, sr, fmt.Sprintf("level %d: %s", l, bad), "")
				return
			}
		}
		// the other value of keep
		c2 := *c
		c2.cfg.KeepPointsAndLines = !c.cfg.KeepPointsAndLines
		sr2 := c2.runImpl()
		if sr2.panicMsg != "" || sr2.hang {
			return
		}
		with, without := sr, sr2
		if !c.cfg.KeepPointsAndLines {
			with, without = sr2, sr
		}
		for _, l := range sortedLevels(without.levels) {
			w, ok := with.levels[l]
			if !ok {
				e.snapViolation("keep-extends", c, sr, fmt.Sprintf("level %d present without keep-points-and-lines but absent with it", l), "")
				return
			}
			if bad := oracleKeepExtends(without.levels[l], w); bad != "" {
				e.snapViolation("keep-extends", c, sr, fmt.Sprintf("level %d: %s", l, bad), "")
				return
			}
		}
	}})
}

// ---------------- C18

func checkC18(e *env) {
	e.res.Rule = snapRule + " C18 uses valid polygons biased to moderate collapse (combs, slivers, pinched necks, holes); only (polygon, level) pairs whose routed chains (from the proved-correct routing of the model) " +
		"visit every pixel centre at most twice are constrained; oracles (a) every output edge is a straight run of consecutive routed edges, (b) hole vertices inside or on the shell, (c) signed area equality (exact)."
	initWindows()
	ws := allWindows()
	constrained := 0
	e.runSnap(snapOpts{stream: "snap", n: e.n(10000, 500000), needChains: true, gen: func() *snapCase {
		w := pickWindow(e.rng, ws)
		return genCase(e.rng, w, true, 28)
	}, hook: func(c *snapCase, sr *snapResult, chains map[uint][]ring) {
		if sr.panicMsg != "" || sr.hang || chains == nil {
			return
		}
		if ls := c.levels(); len(ls) > 1 {
			e.res.Dist["c18:several-levels-requested"]++
			for _, a := range ls {
				for _, b := range ls {
					if _, okA := sr.levels[a]; okA && a < b {
						if _, okB := sr.levels[b]; !okB {
							e.res.Dist["c18:collapses-on-a-deeper-level-but-not-on-a-shallower-one"]++
						}
					}
				}
			}
		}
		for _, l := range c.levels() {
			mv := maxVisits(chains[l])
			e.res.Dist[fmt.Sprintf("c18:max-visits=%d", min(mv, 4))]++
			if mv > 2 {
				continue
			}
			constrained++
			polys := sr.levels[l]
			// points and lines (keep) are not part of the polygonal geometry
			var real []polygonI
			for _, pg := range polys {
				if len(pg[0]) >= 3 {
					real = append(real, pg)
				}
			}
			if bad := oracleC18(chains[l], real, c.cfg.ReverseWindingOrder); bad != "" {
				e.snapViolation("moderate-collapse-invents-nothing", c, sr, fmt.Sprintf("level %d (max visits %d): %s", l, mv, bad), "")
				return
			}
		}
	}})
	e.res.Dist["c18:constrained-(polygon,level)-pairs"] = constrained
}
