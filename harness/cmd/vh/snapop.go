package main

import (
	"bufio"
	"fmt"
	"os"
	"strconv"
	"strings"

	"github.com/go-spatial/geom"
	"github.com/pdok/texel/snap"
)

// snapop: replays `snap …` op lines (as printed in violations, diffs and replay files) against the real SnapPolygon and the model:
//   vh snapop -replay <file with one op per line> -driver <texeldrv>
// The tile matrix set is found among the harness's grids by its integer grid (depth, origin, pixel size).

func init() { checks["snapop"] = replaySnapOps }

func caseFromOp(line string) (*snapCase, error) {
	f := strings.Fields(line)
	if len(f) < 10 || f[0] != "snap" {
		return nil, fmt.Errorf("not a snap op")
	}
	n := make([]int64, len(f)-1)
	for i, s := range f[1:] {
		v, err := strconv.ParseInt(s, 10, 64)
		if err != nil {
			return nil, err
		}
		n[i] = v
	}
	g := grid{depth: uint(n[0]), minX: n[1], minY: n[2], res: n[3]}
	cfg := snap.Config{KeepPointsAndLines: n[4] == 1, ReverseWindingOrder: n[5] == 1, IgnoreOutsideGrid: n[6] == 1}
	nl := int(n[7])
	levels := n[8 : 8+nl]
	pos := 8 + nl
	nr := int(n[pos])
	pos++
	var rings [][]ipt
	for r := 0; r < nr; r++ {
		nv := int(n[pos])
		pos++
		var rg []ipt
		for k := 0; k < nv; k++ {
			rg = append(rg, ipt{n[pos], n[pos+1]})
			pos += 2
		}
		rings = append(rings, rg)
	}
	// find the grid
	var cands []*gridSpec
	seen := map[*gridSpec]bool{}
	for _, w := range allWindows() {
		if !seen[w.gs] {
			seen[w.gs] = true
			cands = append(cands, w.gs)
		}
	}
	for _, o := range [][2]float64{{-1024, 512}, {300, -40}} {
		for d := uint(0); d <= 2; d++ {
			cands = append(cands, newSynth(d, o[0], o[1]))
		}
	}
	for _, gs := range cands {
		id := int(g.depth) - int(gs.levelDiff)
		if id < 0 || id >= len(gs.tms.TileMatrices) {
			continue
		}
		if gs.gridFor(id) != g {
			continue
		}
		c := &snapCase{gs: gs, cfg: cfg, tag: "replay"}
		for _, l := range levels {
			c.tmids = append(c.tmids, int(l)-int(gs.levelDiff))
		}
		poly := make(geom.Polygon, len(rings))
		for i, rg := range rings {
			for _, v := range rg {
				poly[i] = append(poly[i], [2]float64{floatFor(v.x), floatFor(v.y)})
			}
		}
		c.setPoly(poly)
		return c, nil
	}
	return nil, fmt.Errorf("no tile matrix set of the harness has the grid %v", g)
}

func replaySnapOps(e *env) {
	r := e.res
	r.Rule = "replay of snap op lines"
	fh, err := os.Open(e.replay)
	if err != nil {
		r.Notes = append(r.Notes, err.Error())
		return
	}
	defer fh.Close()
	sc := bufio.NewScanner(fh)
	sc.Buffer(make([]byte, 1<<20), 1<<26)
	for sc.Scan() {
		line := strings.TrimSpace(sc.Text())
		if i := strings.Index(line, "snap "); i > 0 {
			line = line[i:]
		}
		c, err := caseFromOp(line)
		if err != nil {
			r.Notes = append(r.Notes, "skipped: "+err.Error())
			continue
		}
		sr := c.runImpl()
		impl := sr.String()
		model := "(no driver)"
		if e.drv != nil {
			model = canonModel(e.drv.Ask(c.op()))
		}
		r.count("snap", c.op(), true)
		verdict := "same"
		if model != impl {
			verdict = "DIFFERENT"
			if c.gs.levelDiff != 4 && hasEqualAreaShells(sr.levels) && sameRingsDifferentGrouping(sr.levels, parseSnapAnswer(model)) {
				verdict = "same rings, different grouping, two shells of equal exact area (float seam on a real grid)"
			} else {
				r.diff(Diff{Stream: "snap", Op: c.op(), Impl: impl, Model: model})
			}
		}
		fmt.Fprintf(os.Stderr, "%s\n  grid %s ids %v\n  impl : %s\n  model: %s\n  => %s\n", clip(c.op(), 200), c.gs.name, c.tmids, impl, model, verdict)
	}
}
