package main

import (
	"fmt"
	"math/big"
	"math/rand"
)

// ---------- helpers on output polygons (pixel indices)

type edge struct{ a, b ipt }

func ringEdges(r ring) []edge {
	switch len(r) {
	case 0, 1:
		return nil
	case 2:
		return []edge{{r[0], r[1]}}
	}
	es := make([]edge, len(r))
	for i := range r {
		es[i] = edge{r[i], r[(i+1)%len(r)]}
	}
	return es
}

func allEdges(polys []polygonI) []edge {
	var es []edge
	for _, pg := range polys {
		for _, r := range pg {
			es = append(es, ringEdges(r)...)
		}
	}
	return es
}

// C01: no two boundary edges cross in their interiors
func oracleNoCross(polys []polygonI) (bad string, e1, e2 edge) {
	es := allEdges(polys)
	for i := 0; i < len(es); i++ {
		for j := i + 1; j < len(es); j++ {
			if properCross(es[i].a, es[i].b, es[j].a, es[j].b) {
				return fmt.Sprintf("edges (%d,%d)-(%d,%d) and (%d,%d)-(%d,%d) cross", es[i].a.x, es[i].a.y, es[i].b.x, es[i].b.y, es[j].a.x, es[j].a.y, es[j].b.x, es[j].b.y), es[i], es[j]
			}
		}
	}
	return "", edge{}, edge{}
}

// ---------- routed chains and routed runs (C18, identification of finding F5)

func maxVisits(chains []ring) int {
	cnt := map[ipt]int{}
	m := 0
	for _, c := range chains {
		for _, p := range c {
			cnt[p]++
			if cnt[p] > m {
				m = cnt[p]
			}
		}
	}
	return m
}

func collinearMonotone(pts []ipt) bool {
	u, v := pts[0], pts[len(pts)-1]
	for _, p := range pts[1 : len(pts)-1] {
		if orient(u, v, p) != 0 || !between(u, v, p) {
			return false
		}
	}
	// monotone: parameters along u->v non-decreasing
	for i := 1; i < len(pts); i++ {
		da := (pts[i-1].x-u.x)*(v.x-u.x) + (pts[i-1].y-u.y)*(v.y-u.y)
		db := (pts[i].x-u.x)*(v.x-u.x) + (pts[i].y-u.y)*(v.y-u.y)
		if db < da {
			return false
		}
	}
	return true
}

// isRoutedRun: u -> v (either direction) is a routed edge or a straight run of consecutive routed edges of some chain
func isRoutedRun(chains []ring, u, v ipt) bool {
	if u == v {
		return true
	}
	for _, c := range chains {
		n := len(c)
		if n < 2 {
			continue
		}
		for i := 0; i < n; i++ {
			if c[i] != u && c[i] != v {
				continue
			}
			target := v
			if c[i] == v {
				target = u
			}
			run := []ipt{c[i]}
			for k := 1; k < n; k++ {
				p := c[(i+k)%n]
				run = append(run, p)
				if p == target {
					if collinearMonotone(run) {
						return true
					}
					break
				}
				if orient(c[i], target, p) != 0 {
					break
				}
			}
		}
	}
	return false
}

// ---------- C05 structure

func ringArea2(r ring) *big.Int { return area2(r) }

func oracleC05(polys []polygonI, keep, reverse bool) string {
	if len(polys) == 0 {
		return "tile matrix mapped to an empty list"
	}
	for pi, pg := range polys {
		if len(pg) == 0 {
			return fmt.Sprintf("polygon %d has no rings", pi)
		}
		for ri, r := range pg {
			if len(r) == 0 {
				return fmt.Sprintf("polygon %d ring %d is empty", pi, ri)
			}
			if !keep && len(r) < 3 {
				return fmt.Sprintf("polygon %d ring %d has %d vertices without keep-points-and-lines", pi, ri, len(r))
			}
			if len(r) > 1 && r[0] == r[len(r)-1] {
				return fmt.Sprintf("polygon %d ring %d repeats its first vertex at the end", pi, ri)
			}
			seen := map[ipt]int{}
			for k, p := range r {
				if k > 0 && r[k-1] == p {
					return fmt.Sprintf("polygon %d ring %d: equal consecutive vertices at %d (%d,%d)", pi, ri, k, p.x, p.y)
				}
				if j, dup := seen[p]; dup {
					return fmt.Sprintf("polygon %d ring %d visits vertex (%d,%d) twice (positions %d and %d)", pi, ri, p.x, p.y, j, k)
				}
				seen[p] = k
			}
			if len(r) >= 3 {
				s := ringArea2(r).Sign()
				if reverse {
					s = -s
				}
				if ri == 0 && s < 0 {
					return fmt.Sprintf("polygon %d: shell is clockwise (reverse=%v)", pi, reverse)
				}
				if ri > 0 && s > 0 {
					return fmt.Sprintf("polygon %d: hole %d is counter-clockwise (reverse=%v)", pi, ri, reverse)
				}
			}
			if ri > 0 && len(r) < 3 {
				return fmt.Sprintf("polygon %d: hole %d has %d vertices", pi, ri, len(r))
			}
		}
	}
	return ""
}

// with keep: the same polygons as without, followed by one- or two-vertex single-ring polygons
func oracleKeepExtends(without, with []polygonI) string {
	if len(with) < len(without) {
		return fmt.Sprintf("with keep %d polygons, without %d", len(with), len(without))
	}
	if fmtPolys(with[:len(without)]) != fmtPolys(without) {
		return "polygons with keep-points-and-lines do not start with the polygons returned without it"
	}
	for _, pg := range with[len(without):] {
		if len(pg) != 1 || len(pg[0]) < 1 || len(pg[0]) > 2 {
			return "appended part is not a single ring of one or two vertices: " + fmtPolys([]polygonI{pg})
		}
	}
	return ""
}

// ---------- C04 shape fidelity

type levelGeom struct {
	g grid
	l uint
	s int64 // pixel span on this level
}

func (lg levelGeom) pixelOf(p ipt) ipt {
	return ipt{floorDiv(p.x-lg.g.minX, lg.s), floorDiv(p.y-lg.g.minY, lg.s)}
}

// scaled coordinates (factor 8 pixel units... in integer units: 8*(x-minX)); centres: (8k+4)*s
func (lg levelGeom) in8(p ipt) ipt  { return ipt{8 * (p.x - lg.g.minX), 8 * (p.y - lg.g.minY)} }
func (lg levelGeom) out8(k ipt) ipt { return ipt{(8*k.x + 4) * lg.s, (8*k.y + 4) * lg.s} }

// segMeetsClosedBox: closed segment meets closed box
func segMeetsClosedBox(a, b ipt, minX, minY, maxX, maxY int64) bool {
	lo, hi := frac{0, 1}, frac{1, 1}
	axis := func(p, q, l, h int64) bool {
		d := q - p
		switch {
		case d == 0:
			return l <= p && p <= h
		case d > 0:
			if f := (frac{l - p, d}); cmpFrac(f, lo) > 0 {
				lo = f
			}
			if f := (frac{h - p, d}); cmpFrac(f, hi) < 0 {
				hi = f
			}
		default:
			if f := (frac{p - h, -d}); cmpFrac(f, lo) > 0 {
				lo = f
			}
			if f := (frac{p - l, -d}); cmpFrac(f, hi) < 0 {
				hi = f
			}
		}
		return true
	}
	if !axis(a.x, b.x, minX, maxX) || !axis(a.y, b.y, minY, maxY) {
		return false
	}
	return cmpFrac(lo, hi) <= 0
}

func inputEdges8(lg levelGeom, rings [][]ipt) []edge {
	var es []edge
	for _, r := range rings {
		for i := range r {
			es = append(es, edge{lg.in8(r[i]), lg.in8(r[(i+1)%len(r)])})
		}
	}
	return es
}

// withinCheb: some input edge comes within Chebyshev distance d (scaled units) of point q
func withinCheb(es []edge, q ipt, d int64) bool {
	for _, e := range es {
		if segMeetsClosedBox(e.a, e.b, q.x-d, q.y-d, q.x+d, q.y+d) {
			return true
		}
	}
	return false
}

// (a) vertices, (b) edges within half a pixel of the input boundary
func oracleC04ab(lg levelGeom, rings [][]ipt, polys []polygonI) (bad string, offending edge, isEdge bool) {
	hotPix := map[ipt]bool{}
	for _, r := range rings {
		for _, p := range r {
			hotPix[lg.pixelOf(p)] = true
		}
	}
	for _, pg := range polys {
		for _, r := range pg {
			for _, k := range r {
				if !hotPix[k] {
					return fmt.Sprintf("output vertex (%d,%d) is not the pixel of any input vertex", k.x, k.y), edge{}, false
				}
			}
		}
	}
	in := inputEdges8(lg, rings)
	half := 4 * lg.s
	for _, e := range allEdges(polys) {
		A, B := lg.out8(e.a), lg.out8(e.b)
		for i := int64(0); i <= 4; i++ {
			q := ipt{A.x + (B.x-A.x)/4*i, A.y + (B.y-A.y)/4*i} // (B-A) is a multiple of 8s, exact
			if !withinCheb(in, q, half) {
				return fmt.Sprintf("point at %d/4 of output edge (%d,%d)-(%d,%d) is farther than half a pixel from the input boundary", i, e.a.x, e.a.y, e.b.x, e.b.y), e, true
			}
		}
	}
	return "", edge{}, false
}

func coveredByRings8(q ipt, rings [][]ipt) bool { // shell first, then holes; boundary counts as covered
	if len(rings) == 0 || len(rings[0]) < 3 {
		return false
	}
	if !(inRingStrict(q, rings[0]) || onRing(q, rings[0])) {
		return false
	}
	for _, h := range rings[1:] {
		if len(h) >= 3 && inRingStrict(q, h) {
			return false
		}
	}
	return true
}

// (c) locations farther than one pixel from the input boundary are covered iff they were covered
func oracleC04c(rng *rand.Rand, lg levelGeom, rings [][]ipt, polys []polygonI, maxSamples int) (bad string, tested int) {
	in := inputEdges8(lg, rings)
	inRings := make([][]ipt, len(rings))
	minx, miny, maxx, maxy := int64(1<<62), int64(1<<62), int64(-1<<62), int64(-1<<62)
	for i, r := range rings {
		inRings[i] = make([]ipt, len(r))
		for j, p := range r {
			q := lg.in8(p)
			inRings[i][j] = q
			minx, miny, maxx, maxy = min64(minx, q.x), min64(miny, q.y), max64(maxx, q.x), max64(maxy, q.y)
		}
	}
	outPolys := make([][][]ipt, len(polys))
	for i, pg := range polys {
		outPolys[i] = make([][]ipt, len(pg))
		for j, r := range pg {
			outPolys[i][j] = make([]ipt, len(r))
			for k, p := range r {
				outPolys[i][j][k] = lg.out8(p)
			}
		}
	}
	pix := 8 * lg.s
	kx0, ky0 := floorDiv(minx, pix)-2, floorDiv(miny, pix)-2
	kx1, ky1 := floorDiv(maxx, pix)+3, floorDiv(maxy, pix)+3
	type loc struct{ x, y int64 }
	var locs []loc
	at := func(kx, ky int64) {
		locs = append(locs, loc{kx*pix + pix/2, ky*pix + pix/2}, loc{kx * pix, ky * pix}, loc{kx*pix + pix/4, ky*pix + 3*pix/4})
	}
	if (kx1-kx0+1)*(ky1-ky0+1) <= 1<<16 {
		for kx := kx0; kx <= kx1; kx++ {
			for ky := ky0; ky <= ky1; ky++ {
				at(kx, ky)
			}
		}
	} else {
		// a very wide polygon: pixels around its vertices and random pixels of the bounding box instead of all of them
		for _, r := range inRings {
			for _, p := range r {
				cx, cy := floorDiv(p.x, pix), floorDiv(p.y, pix)
				for dx := int64(-3); dx <= 3; dx++ {
					for dy := int64(-3); dy <= 3; dy++ {
						at(cx+dx, cy+dy)
					}
				}
			}
		}
		for k := 0; k < 4*maxSamples; k++ {
			at(kx0+rng.Int63n(kx1-kx0+1), ky0+rng.Int63n(ky1-ky0+1))
		}
	}
	rng.Shuffle(len(locs), func(i, j int) { locs[i], locs[j] = locs[j], locs[i] })
	for _, lc := range locs {
		if tested >= maxSamples {
			break
		}
		q := ipt{lc.x, lc.y}
		if withinCheb(in, q, pix) { // within one pixel of the input boundary: not constrained
			continue
		}
		tested++
		was := coveredByRings8(q, inRings)
		is := false
		for _, pg := range outPolys {
			if coveredByRings8(q, pg) {
				is = true
				break
			}
		}
		if was != is {
			return fmt.Sprintf("location (%.3f, %.3f) px (level pixel units) is %s by the input but %s by the output", float64(q.x)/float64(pix), float64(q.y)/float64(pix),
				map[bool]string{true: "covered", false: "not covered"}[was], map[bool]string{true: "covered", false: "not covered"}[is]), tested
		}
	}
	return "", tested
}

// ---------- C18

func sumArea2(rs []ring) *big.Int {
	s := new(big.Int)
	for _, r := range rs {
		if len(r) >= 3 {
			s.Add(s, area2(r))
		}
	}
	return s
}

func oracleC18(chains []ring, polys []polygonI, reverse bool) string {
	for _, e := range allEdges(polys) {
		if !isRoutedRun(chains, e.a, e.b) {
			return fmt.Sprintf("(a) output edge (%d,%d)-(%d,%d) is not a run of consecutive routed edges", e.a.x, e.a.y, e.b.x, e.b.y)
		}
	}
	for pi, pg := range polys {
		if len(pg[0]) < 3 {
			continue
		}
		for hi, h := range pg[1:] {
			for _, v := range h {
				if !(inRingStrict(v, pg[0]) || onRing(v, pg[0])) {
					return fmt.Sprintf("(b) vertex (%d,%d) of hole %d of polygon %d lies outside its shell", v.x, v.y, hi+1, pi)
				}
			}
		}
	}
	var outRings []ring
	for _, pg := range polys {
		outRings = append(outRings, pg...)
	}
	so, sc := sumArea2(outRings), sumArea2(chains)
	if reverse {
		so.Neg(so)
	}
	if so.Cmp(sc) != 0 {
		return fmt.Sprintf("(c) twice the signed area of the output is %v, of the routed boundary %v", so, sc)
	}
	return ""
}
