package main

import (
	"bufio"
	"fmt"
	"io"
	"os/exec"
	"strings"
)

// Driver is the Lean model behind a line protocol
type Driver struct {
	cmd *exec.Cmd
	in  io.WriteCloser
	out *bufio.Reader
	n   int
}

func startDriver(path string) (*Driver, error) {
	cmd := exec.Command(path)
	in, err := cmd.StdinPipe()
	if err != nil {
		return nil, err
	}
	outp, err := cmd.StdoutPipe()
	if err != nil {
		return nil, err
	}
	if err := cmd.Start(); err != nil {
		return nil, err
	}
	return &Driver{cmd: cmd, in: in, out: bufio.NewReaderSize(outp, 1<<20)}, nil
}

// Ask sends one operation line and returns the model's answer
func (d *Driver) Ask(op string) string {
	if strings.ContainsAny(op, "\n\r") {
		panic("op contains newline")
	}
	if _, err := io.WriteString(d.in, op+"\n"); err != nil {
		return "driver-error " + err.Error()
	}
	d.n++
	line, err := d.out.ReadString('\n')
	if err != nil {
		return "driver-error " + err.Error()
	}
	return strings.TrimRight(line, "\n")
}

// AskAll pipelines many operations (the driver answers in order)
func (d *Driver) AskAll(ops []string) []string {
	res := make([]string, len(ops))
	done := make(chan struct{})
	go func() {
		for i := range ops {
			line, err := d.out.ReadString('\n')
			if err != nil {
				res[i] = "driver-error " + err.Error()
				continue
			}
			res[i] = strings.TrimRight(line, "\n")
		}
		close(done)
	}()
	w := bufio.NewWriterSize(d.in, 1<<20)
	for _, op := range ops {
		fmt.Fprintln(w, op)
	}
	w.Flush()
	<-done
	d.n += len(ops)
	return res
}

func (d *Driver) Close() {
	d.in.Close()
	_ = d.cmd.Wait()
}
