package main

import (
	"bufio"
	"fmt"
	"io"
	"os/exec"
	"runtime"
	"strings"
	"sync"
)

// Driver is the Lean model behind a line protocol; a pool of identical processes answers batches in parallel
type Driver struct {
	procs []*proc
	n     int
}

type proc struct {
	cmd *exec.Cmd
	in  io.WriteCloser
	out *bufio.Reader
}

func startProc(path string) (*proc, error) {
	cmd := exec.Command(path)
	in, err := cmd.StdinPipe()
	if err != nil {
		return nil, err
	}
	outp, err := cmd.StdoutPipe()
	if err != nil {
		return nil, err
	}
	if err := cmd.Start(); err != nil {
		return nil, err
	}
	return &proc{cmd: cmd, in: in, out: bufio.NewReaderSize(outp, 1<<20)}, nil
}

func startDriver(path string) (*Driver, error) {
	n := runtime.NumCPU() - 2
	if n < 1 {
		n = 1
	}
	if n > 12 {
		n = 12
	}
	d := &Driver{}
	for i := 0; i < n; i++ {
		p, err := startProc(path)
		if err != nil {
			return nil, err
		}
		d.procs = append(d.procs, p)
	}
	return d, nil
}

func (p *proc) askAll(ops []string, res []string) {
	done := make(chan struct{})
	go func() {
		for i := range ops {
			line, err := p.out.ReadString('\n')
			if err != nil {
				res[i] = "driver-error " + err.Error()
				continue
			}
			res[i] = strings.TrimRight(line, "\n")
		}
		close(done)
	}()
	w := bufio.NewWriterSize(p.in, 1<<20)
	for _, op := range ops {
		if strings.ContainsAny(op, "\n\r") {
			op = "bad-op"
		}
		fmt.Fprintln(w, op)
	}
	w.Flush()
	<-done
}

// Ask sends one operation line and returns the model's answer
func (d *Driver) Ask(op string) string {
	res := make([]string, 1)
	d.procs[0].askAll([]string{op}, res)
	d.n++
	return res[0]
}

// AskAll answers many operations, in order, spreading contiguous blocks over the pool
func (d *Driver) AskAll(ops []string) []string {
	res := make([]string, len(ops))
	if len(ops) == 0 {
		return res
	}
	k := len(d.procs)
	if len(ops) < 4*k {
		k = 1
	}
	// interleave small blocks so that expensive neighbours are spread
	const blk = 8
	idx := make([][]int, k)
	for i := range ops {
		w := (i / blk) % k
		idx[w] = append(idx[w], i)
	}
	var wg sync.WaitGroup
	for w := 0; w < k; w++ {
		wg.Add(1)
		go func(w int) {
			defer wg.Done()
			sub := make([]string, len(idx[w]))
			for j, i := range idx[w] {
				sub[j] = ops[i]
			}
			out := make([]string, len(sub))
			d.procs[w].askAll(sub, out)
			for j, i := range idx[w] {
				res[i] = out[j]
			}
		}(w)
	}
	wg.Wait()
	d.n += len(ops)
	return res
}

func (d *Driver) Close() {
	for _, p := range d.procs {
		p.in.Close()
		_ = p.cmd.Wait()
	}
}
