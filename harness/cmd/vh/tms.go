package main

import (
	"bytes"
	"fmt"
	"math"
	"math/big"
	"math/bits"
	"os/exec"
	"sort"
	"strconv"
	"strings"

	"github.com/go-spatial/geom"
	"github.com/go-spatial/geom/slippy"
	"github.com/pdok/texel/pointindex"
	"github.com/pdok/texel/snap"
	"github.com/pdok/texel/tms20"
)

func init() {
	checks["C14"] = checkC14
	checks["C15"] = checkC15
}

func ratTokens(f float64) string {
	r := new(big.Rat).SetFloat64(f)
	if r == nil {
		return "0 1"
	}
	return r.Num().String() + " " + r.Denom().String()
}

func isquadOp(t tms20.TileMatrixSet) string {
	ids := make([]int, 0, len(t.TileMatrices))
	for id := range t.TileMatrices {
		ids = append(ids, id)
	}
	sort.Ints(ids)
	var sb strings.Builder
	fmt.Fprintf(&sb, "isquad %d", len(ids))
	for _, id := range ids {
		tm := t.TileMatrices[id]
		txt := tm.ID
		if txt == "" {
			txt = "~"
		}
		corner := 0
		if tm.CornerOfOrigin == tms20.BottomLeft {
			corner = 1
		}
		fmt.Fprintf(&sb, " %d %s %d %d %d %d %d %s %s %d %s", id, txt, tm.MatrixWidth, tm.MatrixHeight, tm.TileWidth, tm.TileHeight, len(tm.VariableMatrixWidths),
			ratTokens(tm.PointOfOrigin[0]), ratTokens(tm.PointOfOrigin[1]), corner, ratTokens(tm.CellSize))
	}
	return sb.String()
}

var quadErrs = []string{"", "tile matrix height should be same as width", "tiles should be square", "strconv.Atoi", "tile matrix ID should string representation", "variable matrix widths are not supported",
	"tile matrix IDs should be a range with step 1", "same point of origin", "same corner of origin", "tiles should stay the same size", "should double in size each level", "cell size should half each level",
	"tile width should be a power of 2", "\x00 (13 is not used)", "first tile matrix should be a single tile"}

func isQuadImpl(t tms20.TileMatrixSet) (ans string) {
	defer func() {
		if r := recover(); r != nil {
			ans = "panic " + fmt.Sprint(r)
		}
	}()
	err := pointindex.IsQuadTree(t)
	if err == nil {
		return "ok"
	}
	for k := 1; k < len(quadErrs); k++ {
		if strings.Contains(err.Error(), quadErrs[k]) {
			return fmt.Sprintf("err %d", k)
		}
	}
	return "err ? " + err.Error()
}

func cloneTMS(t tms20.TileMatrixSet) tms20.TileMatrixSet {
	c := t
	c.TileMatrices = make(map[tms20.TMID]tms20.TileMatrix, len(t.TileMatrices))
	for id, tm := range t.TileMatrices {
		o := *tm.PointOfOrigin
		tm.PointOfOrigin = &o
		c.TileMatrices[id] = tm
	}
	return c
}

// trueQuadTree: the declarative statement, written independently of the implementation's control flow
func trueQuadTree(t tms20.TileMatrixSet) bool {
	ids := make([]int, 0, len(t.TileMatrices))
	for id := range t.TileMatrices {
		ids = append(ids, id)
	}
	sort.Ints(ids)
	for i, id := range ids {
		tm := t.TileMatrices[id]
		n, err := strconv.Atoi(tm.ID)
		if tm.MatrixHeight != tm.MatrixWidth || tm.TileHeight != tm.TileWidth || err != nil || n != id || len(tm.VariableMatrixWidths) != 0 {
			return false
		}
		// 4096 grid units per 256-pixel tile on a quadtree of pixels: the tile width is a power of two, ids count from 0 and matrix i has 2^i tiles on each axis
		if bits.OnesCount(tm.TileWidth) != 1 || id != i || (i == 0 && tm.MatrixWidth != 1) {
			return false
		}
		if i > 0 {
			p := t.TileMatrices[ids[i-1]]
			if math.IsNaN(p.CellSize) || math.IsInf(p.CellSize, 0) || math.IsNaN(tm.CellSize) || math.IsInf(tm.CellSize, 0) || tm.CellSize == 0 {
				return false // no ratio of two cell sizes
			}
			ratio := new(big.Rat).Quo(new(big.Rat).SetFloat64(p.CellSize), new(big.Rat).SetFloat64(tm.CellSize))
			if id != ids[i-1]+1 || *tm.PointOfOrigin != *p.PointOfOrigin || tm.CornerOfOrigin != p.CornerOfOrigin || tm.TileHeight != p.TileHeight || tm.MatrixHeight != 2*p.MatrixHeight ||
				ratio.Cmp(big.NewRat(199, 100)) < 0 || ratio.Cmp(big.NewRat(201, 100)) > 0 {
				return false
			}
		}
	}
	return true
}

func checkC14(e *env) {
	r := e.res
	r.Rule = "all 14 built-in tile matrix sets as they are, and for every set accepted by IsQuadTree every tile matrix x every single-field perturbation: matrix width/height +1, -1, x2 (each alone and both), tile width/height x2 (each alone and both), " +
		"origin x/y +1, corner flipped, cell size replaced by previous/1.989, /1.99, /2.01, /2.011 (tolerance borders), by NaN, +Inf and 0 (one matrix, and 0 / NaN in every matrix), id gap (a middle matrix removed), ids not starting at 0 (the first 1..3 matrices removed, all ids shifted by 1 and by 5), every matrix at once (matrix widths x2 and x4: a first matrix of more than one tile; tiles of 512, 128, 300, 384), id text 'x', '01', '+N', '', a variable-width row added; " +
		"IsQuadTree's verdict (accept / which check rejects) against the model and against the declarative true-quadtree predicate; the binary is run on every built-in set to see an error message, never a stack trace. Enumerated completely (exhaustive)."
	accepted := map[string]bool{}
	type pixelSet struct {
		name string
		t    tms20.TileMatrixSet
	}
	var pixelSets []pixelSet
	for _, name := range builtinNames {
		t, err := tms20.LoadEmbeddedTileMatrixSet(name)
		if err != nil {
			r.Notes = append(r.Notes, name+": "+err.Error())
			continue
		}
		one := func(tt tms20.TileMatrixSet, what string, mustReject bool) {
			op := isquadOp(tt)
			impl := isQuadImpl(tt)
			r.count("isquad", name+" "+what+" | "+op, what != "as-is")
			r.Dist["isquad:"+strings.Fields(impl)[0]]++
			finite := true
			for _, tm := range tt.TileMatrices {
				if math.IsNaN(tm.CellSize) || math.IsInf(tm.CellSize, 0) {
					finite = false // the model works on exact rationals: NaN and Inf only go through the oracles
				}
			}
			if finite {
				e.pending = append(e.pending, pendingOp{"isquad", op, impl})
			}
			if strings.HasPrefix(impl, "panic") {
				r.violation(Violation{Oracle: "validation-never-panics", Op: name + " " + what, Impl: impl, Detail: impl})
				return
			}
			tq := trueQuadTree(tt)
			if (impl == "ok") != tq {
				r.violation(Violation{Oracle: "accepted-iff-true-quadtree", Op: name + " " + what + " | " + op, Impl: impl, Detail: fmt.Sprintf("true quadtree = %v", tq)})
			}
			if mustReject && impl == "ok" {
				r.violation(Violation{Oracle: "broken-condition-is-rejected", Op: name + " " + what + " | " + op, Impl: impl, Detail: "the perturbation breaks a quadtree condition but the set is accepted"})
			}
		}
		one(t, "as-is", false)
		if isQuadImpl(t) != "ok" {
			continue
		}
		accepted[name] = true
		ids := make([]int, 0, len(t.TileMatrices))
		for id := range t.TileMatrices {
			ids = append(ids, id)
		}
		sort.Ints(ids)
		for idx, id := range ids {
			mod := func(what string, mustReject bool, f func(tm *tms20.TileMatrix)) {
				c := cloneTMS(t)
				tm := c.TileMatrices[id]
				f(&tm)
				c.TileMatrices[id] = tm
				one(c, fmt.Sprintf("id %d %s", id, what), mustReject)
			}
			last := idx == len(ids)-1
			_ = last
			mod("matrixWidth+1", true, func(tm *tms20.TileMatrix) { tm.MatrixWidth++ })
			mod("matrixHeight+1", true, func(tm *tms20.TileMatrix) { tm.MatrixHeight++ })
			mod("matrixWidth+1,matrixHeight+1", true, func(tm *tms20.TileMatrix) { tm.MatrixWidth++; tm.MatrixHeight++ })
			mod("matrix-1", len(ids) > 1 || true, func(tm *tms20.TileMatrix) { tm.MatrixWidth--; tm.MatrixHeight-- })
			mod("matrix x2", len(ids) > 1, func(tm *tms20.TileMatrix) { tm.MatrixWidth *= 2; tm.MatrixHeight *= 2 })
			mod("tileWidth x2", true, func(tm *tms20.TileMatrix) { tm.TileWidth *= 2 })
			mod("tileHeight x2", true, func(tm *tms20.TileMatrix) { tm.TileHeight *= 2 })
			mod("tile x2", len(ids) > 1, func(tm *tms20.TileMatrix) { tm.TileWidth *= 2; tm.TileHeight *= 2 })
			mod("origin x+1", len(ids) > 1, func(tm *tms20.TileMatrix) { tm.PointOfOrigin[0]++ })
			mod("origin y+1", len(ids) > 1, func(tm *tms20.TileMatrix) { tm.PointOfOrigin[1]++ })
			mod("corner flipped", len(ids) > 1, func(tm *tms20.TileMatrix) {
				if tm.CornerOfOrigin == tms20.BottomLeft {
					tm.CornerOfOrigin = tms20.TopLeft
				} else {
					tm.CornerOfOrigin = tms20.BottomLeft
				}
			})
			if idx > 0 {
				prev := t.TileMatrices[ids[idx-1]].CellSize
				for _, q := range []struct {
					ratio  float64
					reject bool
				}{{1.989, true}, {1.99, false}, {2.0, false}, {2.01, false}, {2.011, true}} {
					q := q
					// at exactly 1.99 / 2.01 the float division decides; only the model/oracle agreement is required there
					if q.ratio == 1.99 || q.ratio == 2.01 {
						// exactly on the tolerance border the verdict is one float division's rounding (trusted base): only "no panic" is required
						c := cloneTMS(t)
						tm := c.TileMatrices[id]
						tm.CellSize = prev / q.ratio
						c.TileMatrices[id] = tm
						impl := isQuadImpl(c)
						r.count("isquad-border", fmt.Sprintf("%s id %d cellSize=prev/%v", name, id, q.ratio), true)
						if strings.HasPrefix(impl, "panic") {
							r.violation(Violation{Oracle: "validation-never-panics", Op: name, Impl: impl, Detail: impl})
						}
						continue
					}
					mod(fmt.Sprintf("cellSize=prev/%v", q.ratio), q.reject, func(tm *tms20.TileMatrix) { tm.CellSize = prev / q.ratio })
				}
			}
			if len(ids) > 1 { // a cell size that is no number, infinite or zero has no ratio of 2 with its neighbours
				mod("cellSize NaN", true, func(tm *tms20.TileMatrix) { tm.CellSize = math.NaN() })
				mod("cellSize +Inf", true, func(tm *tms20.TileMatrix) { tm.CellSize = math.Inf(1) })
				mod("cellSize 0", true, func(tm *tms20.TileMatrix) { tm.CellSize = 0 })
			}
			mod("id text x", true, func(tm *tms20.TileMatrix) { tm.ID = "x" })
			mod("id text empty", true, func(tm *tms20.TileMatrix) { tm.ID = "" })
			mod("id text 0N", false, func(tm *tms20.TileMatrix) { tm.ID = "0" + tm.ID })
			mod("id text +N", false, func(tm *tms20.TileMatrix) { tm.ID = "+" + tm.ID })
			mod("id text N+1", true, func(tm *tms20.TileMatrix) { tm.ID = strconv.Itoa(id + 1) })
			mod("variable width row", true, func(tm *tms20.TileMatrix) {
				tm.VariableMatrixWidths = []tms20.VariableMatrixWidth{{Coalesce: 2, MinTileRow: 0, MaxTileRow: 0}}
			})
			if idx > 0 && idx < len(ids)-1 { // id gap
				c := cloneTMS(t)
				delete(c.TileMatrices, id)
				one(c, fmt.Sprintf("id %d removed (gap)", id), true)
			}
		}
		// ids that do not start at 0: the first matrices removed, and all ids shifted by one and by five
		for k := 1; k < len(ids) && k <= 3; k++ {
			c := cloneTMS(t)
			for _, id := range ids[:k] {
				delete(c.TileMatrices, id)
			}
			one(c, fmt.Sprintf("first %d matrices removed", k), true)
		}
		for _, shift := range []int{1, 5} {
			c := cloneTMS(t)
			c.TileMatrices = map[tms20.TMID]tms20.TileMatrix{}
			for _, id := range ids {
				tm := t.TileMatrices[id]
				o := *tm.PointOfOrigin
				tm.PointOfOrigin = &o
				tm.ID = strconv.Itoa(id + shift)
				c.TileMatrices[id+shift] = tm
			}
			one(c, fmt.Sprintf("all ids shifted by %d", shift), true)
		}
		// every matrix at once: the first matrix of 2 x 2 and of 4 x 4 tiles (every matrix still doubles the previous one), tiles of 512 and 128 (fine:
		// still 16 grid units per cell) and of 300 and 384 (no quadtree of pixels)
		whole := func(what string, mustReject bool, f func(tm *tms20.TileMatrix)) {
			c := cloneTMS(t)
			for id, tm := range c.TileMatrices {
				f(&tm)
				c.TileMatrices[id] = tm
			}
			one(c, what, mustReject)
			if isQuadImpl(c) == "ok" {
				pixelSets = append(pixelSets, pixelSet{name + " " + what, c})
			}
		}
		if len(ids) > 1 {
			whole("all cell sizes 0", true, func(tm *tms20.TileMatrix) { tm.CellSize = 0 })
			whole("all cell sizes NaN", true, func(tm *tms20.TileMatrix) { tm.CellSize = math.NaN() })
		}
		whole("all matrices x2", true, func(tm *tms20.TileMatrix) { tm.MatrixWidth *= 2; tm.MatrixHeight *= 2 })
		whole("all matrices x4", true, func(tm *tms20.TileMatrix) { tm.MatrixWidth *= 4; tm.MatrixHeight *= 4 })
		whole("all tiles 512", false, func(tm *tms20.TileMatrix) { tm.TileWidth, tm.TileHeight = 512, 512 })
		whole("all tiles 128", false, func(tm *tms20.TileMatrix) { tm.TileWidth, tm.TileHeight = 128, 128 })
		whole("all tiles 300", true, func(tm *tms20.TileMatrix) { tm.TileWidth, tm.TileHeight = 300, 300 })
		whole("all tiles 384", true, func(tm *tms20.TileMatrix) { tm.TileWidth, tm.TileHeight = 384, 384 })
		e.flush()
	}
	e.flush()
	r.stream("isquad").Exhaustive = true
	r.Exhaustive = true
	names := make([]string, 0, len(accepted))
	for n := range accepted {
		names = append(names, n)
	}
	sort.Strings(names)
	r.Notes = append(r.Notes, "accepted built-in sets: "+strings.Join(names, ", "))
	// "in which case the pixel size used for tile matrix z equals its cell size divided by 16": the index's pixel of every id of every accepted set
	// (the built-in ones and the accepted whole-set variants), and the level snap pairs with that id
	for _, name := range names {
		t, _ := tms20.LoadEmbeddedTileMatrixSet(name)
		pixelSets = append(pixelSets, pixelSet{name, t})
	}
	for _, ps := range pixelSets {
		name, t := ps.name, ps.t
		for id, tm := range t.TileMatrices {
			ix, err := pointindex.FromTileMatrixSet(t, id) // ids deeper than level 32 included: the index is built (only inserting into it panics there, F7)
			if err != nil {
				r.violation(Violation{Oracle: "index-for-accepted-set", Op: fmt.Sprintf("%s id %d", name, id), Detail: err.Error()})
				continue
			}
			g := gridOf(ix)
			r.count("pixel-size", fmt.Sprintf("pixel-size %s id %d", name, id), true)
			got, want := float64(g.res)/1e10, tm.CellSize/16
			pixelsPerAxis := new(big.Int).Mul(big.NewInt(int64(tm.MatrixWidth)), big.NewInt(int64(tm.TileWidth)*16))
			if new(big.Int).Lsh(big.NewInt(1), g.depth).Cmp(pixelsPerAxis) != 0 || math.Abs(got-want) > 1e-6*want {
				r.violation(Violation{Oracle: "pixel=cellSize/16", Op: fmt.Sprintf("%s id %d", name, id), Impl: fmt.Sprintf("pixel %v on level %d", got, g.depth), Detail: fmt.Sprintf("cell size %v / 16 = %v (relative difference %.2e); %v pixels of 1/16 cell on each axis", tm.CellSize, want, math.Abs(got-want)/want, pixelsPerAxis)})
			}
			byLevel := snap.XTileMatrixIDsByLevels(t, []int{id})
			if got, ok := byLevel[g.depth]; !ok || got != id || len(byLevel) != 1 {
				r.violation(Violation{Oracle: "pixel=cellSize/16", Op: fmt.Sprintf("%s id %d", name, id), Impl: fmt.Sprintf("snap pairs the id with %v, the index of that id has depth %d", byLevel, g.depth), Detail: "snap and pointindex disagree on the level of a tile matrix"})
			}
		}
	}
	// the tool itself: an error, never a panic, for every built-in set (validation runs before the source is opened)
	bin := texelBin()
	for _, name := range builtinNames {
		for _, z := range []string{"[0]", "[3,1]"} {
			cmd := exec.Command(bin, "-s", "/nonexistent/source.gpkg", "-t", "/nonexistent/target.gpkg", "-tms", name, "-z", z)
			var out bytes.Buffer
			cmd.Stderr = &out
			cmd.Stdout = &out
			err := cmd.Run()
			txt := out.String()
			r.count("validate-cli", "texel -tms "+name+" -z "+z, true)
			if strings.Contains(txt, "panic:") || strings.Contains(txt, "goroutine ") {
				i := strings.Index(txt, "panic:")
				if i < 0 {
					i = 0
				}
				r.violation(Violation{Oracle: "validation-never-panics", Op: "texel -tms " + name + " -z " + z, Impl: "panic", Detail: txt[i:min(len(txt), i+300)]})
				continue
			}
			rejected := !strings.Contains(txt, "error opening source GeoPackage")
			if err == nil {
				r.violation(Violation{Oracle: "validation-gate", Op: "texel -tms " + name, Impl: "exit 0", Detail: "the tool ran on a nonexistent source"})
			}
			if rejected == accepted[name] {
				r.violation(Violation{Oracle: "tool-accepts-iff-IsQuadTree-accepts", Op: "texel -tms " + name + " -z " + z, Impl: strings.TrimSpace(txt), Detail: fmt.Sprintf("IsQuadTree accepts = %v", accepted[name])})
			}
		}
	}
}

// ---------------- C15

// scaled integers: every float of a case as an exact rational over one common power-of-two denominator
func commonScale(fs ...float64) (ints []*big.Int) {
	rats := make([]*big.Rat, len(fs))
	den := big.NewInt(1)
	for i, f := range fs {
		rats[i] = new(big.Rat).SetFloat64(f)
		if rats[i].Denom().Cmp(den) > 0 {
			den = new(big.Int).Set(rats[i].Denom())
		}
	}
	for _, q := range rats {
		v := new(big.Int).Mul(q.Num(), new(big.Int).Quo(den, q.Denom()))
		ints = append(ints, v)
	}
	return ints
}

func checkC15(e *env) {
	r := e.res
	r.Rule = "every built-in tile matrix set, as it is and with the corner of origin flipped in every tile matrix, x every tile matrix without variable widths x the four corner tiles, border tiles and random tiles (quick 12, thorough 60 per matrix) x interior points at relative offsets " +
		"{0.5, 1e-3, 1-1e-3, random, 1-3e-10, 3e-10, 1-2e-8} of the tile: ToNative(tile) against the exact rational corner (within 1e-9 + 4 ulp, the code rounds to 9 decimals), FromNative(interior point) = the tile (points closer than 2e-9 + 4 ulp to a tile border are counted as skipped), " +
		"points outside the matrix extent map to no tile, MatrixBoundingBox = corner of tile (0,0) .. corner of tile (width,height), axis order x,y whatever the CRS (the order is taken from the document's orderedAxes, not from the implementation's EPSG table); model: op tile (exact integer arithmetic over a common denominator). " +
		"Non-trivial = border or corner tile, or offset within 1e-3 of a tile border; distinct by op text."
	skipped := 0
	for _, name := range builtinNames {
		t, err := tms20.LoadEmbeddedTileMatrixSet(name)
		if err != nil {
			continue
		}
		latlon, lerr := tms20.IsLatLon(t.CRS)
		// the axis order as the document itself states it (orderedAxes), independent of the implementation's EPSG table
		if len(t.OrderedAxes) == 2 {
			first := strings.ToUpper(t.OrderedAxes[0])
			docNorthingFirst := first == "LAT" || first == "Y" || first == "N" || first == "NORTHING" || first == "LATITUDE"
			if first == "Y" && strings.ToUpper(t.OrderedAxes[1]) != "X" {
				docNorthingFirst = false
			}
			r.count("axis-order", "axis-order "+name, true)
			if lerr == nil && docNorthingFirst != latlon {
				r.violation(Violation{Oracle: "axis-order-as-the-document-states-it", Op: name + " orderedAxes " + fmt.Sprint(t.OrderedAxes), Impl: fmt.Sprintf("IsLatLon = %v", latlon),
					Detail: "ToNative / FromNative / MatrixBoundingBox take the point of origin in the order the EPSG table gives, the document lists its axes the other way round"})
			}
			latlon = docNorthingFirst
		}
		// both corner-of-origin conventions: the set as it is and a copy with the other convention in every tile matrix
		for _, flip := range []bool{false, true} {
			name, t := name, t
			if flip {
				c := cloneTMS(t)
				for id, tm := range c.TileMatrices {
					if tm.CornerOfOrigin == tms20.BottomLeft {
						tm.CornerOfOrigin = tms20.TopLeft
					} else {
						tm.CornerOfOrigin = tms20.BottomLeft
					}
					c.TileMatrices[id] = tm
				}
				name, t = name+" (corner of origin flipped)", c
			}
			ids := make([]int, 0, len(t.TileMatrices))
			for id := range t.TileMatrices {
				ids = append(ids, id)
			}
			sort.Ints(ids)
			for _, id := range ids {
				tm := t.TileMatrices[id]
				if tm.VariableMatrixWidths != nil {
					r.Dist["tile:skipped-variable-widths"]++
					continue
				}
				ox, oy := tm.PointOfOrigin[0], tm.PointOfOrigin[1]
				if lerr == nil && latlon {
					ox, oy = oy, ox
				}
				// x,y order: for the built-ins with a lat/lon CRS the x extent must be the wide one (sanity of the swap): checked through the bbox below
				tsx, tsy := float64(tm.TileWidth)*tm.CellSize, float64(tm.TileHeight)*tm.CellSize
				exactCorner := func(c, rw uint) (x, y *big.Rat) {
					X := new(big.Rat).Add(ratOf(ox), new(big.Rat).Mul(new(big.Rat).SetInt64(int64(c)), new(big.Rat).Mul(ratOf(float64(tm.TileWidth)), ratOf(tm.CellSize))))
					ty := new(big.Rat).Mul(ratOf(float64(tm.TileHeight)), ratOf(tm.CellSize))
					var Y *big.Rat
					if tm.CornerOfOrigin == tms20.BottomLeft {
						Y = new(big.Rat).Add(ratOf(oy), new(big.Rat).Mul(new(big.Rat).SetInt64(int64(rw)+1), ty))
					} else {
						Y = new(big.Rat).Sub(ratOf(oy), new(big.Rat).Mul(new(big.Rat).SetInt64(int64(rw)), ty))
					}
					return X, Y
				}
				// the corner of a tile on the side of the origin (top left, or bottom left under the other convention): what the bounding box is made of
				originCorner := func(c, rw uint) (x, y *big.Rat) {
					X := new(big.Rat).Add(ratOf(ox), new(big.Rat).Mul(new(big.Rat).SetInt64(int64(c)), new(big.Rat).Mul(ratOf(float64(tm.TileWidth)), ratOf(tm.CellSize))))
					ty := new(big.Rat).Mul(new(big.Rat).SetInt64(int64(rw)), new(big.Rat).Mul(ratOf(float64(tm.TileHeight)), ratOf(tm.CellSize)))
					if tm.CornerOfOrigin == tms20.BottomLeft {
						return X, new(big.Rat).Add(ratOf(oy), ty)
					}
					return X, new(big.Rat).Sub(ratOf(oy), ty)
				}
				// the code computes in float64 and rounds to 9 decimals: tolerance = that rounding + a few ulp of the largest operand
				mag := math.Abs(ox) + math.Abs(oy) + float64(tm.MatrixWidth)*tsx + float64(tm.MatrixHeight)*tsy
				near := func(got float64, want *big.Rat) bool {
					w, _ := want.Float64()
					tol := 1e-9 + 8*mag*2.3e-16
					return math.Abs(got-w) <= tol
				}
				var tiles [][2]uint
				mw, mh := tm.MatrixWidth, tm.MatrixHeight
				tiles = append(tiles, [2]uint{0, 0}, [2]uint{mw - 1, 0}, [2]uint{0, mh - 1}, [2]uint{mw - 1, mh - 1})
				for k := 0; k < e.n(12, 60); k++ {
					c, rw := uint(e.rng.Int63n(int64(mw))), uint(e.rng.Int63n(int64(mh)))
					switch k % 4 {
					case 0:
						c = 0
					case 1:
						rw = mh - 1
					}
					tiles = append(tiles, [2]uint{c, rw})
				}
				for ti, cr := range tiles {
					c, rw := cr[0], cr[1]
					pt, ok := t.ToNative(slippy.NewTile(uint(id), c, rw))
					op := fmt.Sprintf("tile %s id %d (%d,%d)", name, id, c, rw)
					border := ti < 4 || c == 0 || rw == mh-1
					if !ok {
						r.violation(Violation{Oracle: "corner-of-an-existing-tile", Op: op, Impl: "not ok", Detail: "ToNative refused a tile inside the matrix"})
						continue
					}
					X, Y := exactCorner(c, rw)
					if !near(pt[0], X) || !near(pt[1], Y) {
						xf, _ := X.Float64()
						yf, _ := Y.Float64()
						r.violation(Violation{Oracle: "corner-in-x,y-order", Op: op, Impl: fmt.Sprint(pt), Detail: fmt.Sprintf("exact top-left corner (%v, %v)", xf, yf)})
						continue
					}
					for _, off := range [][2]float64{{0.5, 0.5}, {1e-3, 1e-3}, {1 - 1e-3, 1 - 1e-3}, {e.rng.Float64(), e.rng.Float64()}, {1 - 3e-10, 0.5}, {0.5, 1 - 3e-10}, {3e-10, 3e-10}, {1 - 2e-8, 1 - 2e-8}} {
						// interior point: top-left corner + (off.x * tsx, -off.y * tsy)
						px, py := pt[0]+off[0]*tsx, pt[1]-off[1]*tsy
						margin := 2e-9 + 16*2.3e-16*mag
						if off[0]*tsx < margin || (1-off[0])*tsx < margin || off[1]*tsy < margin || (1-off[1])*tsy < margin {
							skipped++
							continue
						}
						tile, ok := t.FromNative(uint(id), geom.Point{px, py})
						// model: exact integers over a common denominator
						in := commonScale(px, py, ox, oy, tm.CellSize)
						corner := 0
						if tm.CornerOfOrigin == tms20.BottomLeft {
							corner = 1
						}
						mop := fmt.Sprintf("tile %v %v %v %v %v %d %d %d %d %d", in[0], in[1], in[2], in[3], in[4], tm.TileWidth, tm.TileHeight, mw, mh, corner)
						impl := "none"
						if ok {
							impl = fmt.Sprintf("%d %d", tile.X, tile.Y)
						}
						r.count("tile", op+fmt.Sprintf(" offset %v | %s", off, mop), border || off[0] != 0.5)
						e.pending = append(e.pending, pendingOp{"tile", mop, impl})
						if !ok || tile.X != c || tile.Y != rw || tile.Z != uint(id) {
							r.violation(Violation{Oracle: "point-inside-a-tile-finds-that-tile", Op: op + fmt.Sprintf(" offset %v point (%v, %v)", off, px, py), Impl: impl, Detail: fmt.Sprintf("expected tile (%d,%d)", c, rw)})
						}
					}
				}
				// outside the matrix extent: no tile
				bl, tr, err := t.MatrixBoundingBox(id)
				if err != nil {
					r.violation(Violation{Oracle: "bounding-box", Op: fmt.Sprintf("%s id %d", name, id), Detail: err.Error()})
					continue
				}
				X0, Y0 := originCorner(0, 0)
				X1, Y1 := originCorner(mw, mh)
				if tm.CornerOfOrigin == tms20.BottomLeft {
					Y0, Y1 = Y1, Y0 // the origin is the lower left corner: the box goes up from it
				}
				if !near(bl[0], X0) || !near(tr[0], X1) || !near(tr[1], Y0) || !near(bl[1], Y1) {
					r.violation(Violation{Oracle: "bounding-box-spans-tile(0,0)..tile(width,height)", Op: fmt.Sprintf("%s id %d", name, id), Impl: fmt.Sprint(bl, tr), Detail: fmt.Sprintf("exact corners (%v,%v) (%v,%v)", X0, Y1, X1, Y0)})
				}
				w, h := tr[0]-bl[0], tr[1]-bl[1]
				outside := []geom.Point{{bl[0] - 0.01*w - 1e-6, bl[1] + h/2}, {tr[0] + 0.01*w + 1e-6, bl[1] + h/2}, {bl[0] + w/2, bl[1] - 0.01*h - 1e-6}, {bl[0] + w/2, tr[1] + 0.01*h + 1e-6}, {bl[0] - w, bl[1] - h}}
				// … and a hair outside (a fraction 3e-10 of a tile, where that is beyond the float error of the borders themselves)
				if hair := 3e-10 * tsx; hair > 2e-9+16*2.3e-16*mag {
					outside = append(outside, geom.Point{bl[0] - hair, bl[1] + h/2}, geom.Point{tr[0] + hair, bl[1] + h/2})
				}
				if hair := 3e-10 * tsy; hair > 2e-9+16*2.3e-16*mag {
					outside = append(outside, geom.Point{bl[0] + w/2, bl[1] - hair}, geom.Point{bl[0] + w/2, tr[1] + hair})
				}
				for k, p := range outside {
					_, ok := t.FromNative(uint(id), p)
					r.count("tile-outside", fmt.Sprintf("tile-outside %s id %d side %d", name, id, k), true)
					if ok {
						r.violation(Violation{Oracle: "outside-the-matrix-maps-to-no-tile", Op: fmt.Sprintf("%s id %d point %v", name, id, p), Impl: "a tile", Detail: fmt.Sprintf("matrix extent %v %v", bl, tr)})
					}
				}
				if len(e.pending) > 2000 {
					e.flush()
				}
			}
		}
	}
	e.flush()
	r.Dist["tile:skipped(point inside the stated rounding of a border)"] = skipped
}
