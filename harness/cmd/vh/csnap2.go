package main

import (
	"bufio"
	"encoding/json"
	"fmt"
	"math"
	"math/big"
	"os"
	"os/exec"
	"sort"
	"strings"
	"time"

	"github.com/go-spatial/geom"
	"github.com/pdok/texel/intgeom"
	"github.com/pdok/texel/pointindex"
	"github.com/pdok/texel/snap"
	"github.com/pdok/texel/tms20"
)

func init() {
	checks["C03"] = checkC03
	checks["C06"] = checkC06
	checks["C07"] = checkC07
	checks["C08"] = checkC08
	checks["C09"] = checkC09
	checks["snapchild"] = snapChild
}

var builtinNames = []string{"CDB1GlobalGrid", "CanadianNAD83_LCC", "EuropeanETRS89_LAEAQuad", "GNOSISGlobalGrid", "LINZAntarticaMapTilegrid", "NZTM2000Quad",
	"NetherlandsRDNewQuad", "UPSAntarcticWGS84Quad", "UPSArcticWGS84Quad", "UTM31WGS84Quad", "WGS1984Quad", "WebMercatorQuad", "WorldCRS84Quad", "WorldMercatorWGS84Quad"}

func acceptedBuiltins() []string {
	var ok []string
	for _, n := range builtinNames {
		t, err := tms20.LoadEmbeddedTileMatrixSet(n)
		if err != nil {
			continue
		}
		if pointindex.IsQuadTree(t) == nil {
			ok = append(ok, n)
		}
	}
	return ok
}

// acceptedVariants: the variants of two built-in sets (loadSet) that validation accepts
func acceptedVariants() []string {
	var ok []string
	for _, b := range []string{"NetherlandsRDNewQuad", "WebMercatorQuad"} {
		for _, v := range setVariants {
			t, err := loadSet(b + "+" + v)
			if err != nil {
				continue
			}
			if pointindex.IsQuadTree(t) == nil {
				ok = append(ok, b+"+"+v)
			}
		}
	}
	return ok
}

// ---------------- C03

func ratOf(f float64) *big.Rat { return new(big.Rat).SetFloat64(f) }

func checkC03(e *env) {
	r := e.res
	r.Rule = "every built-in tile matrix set that passes IsQuadTree, and every variant of NetherlandsRDNewQuad and WebMercatorQuad a caller may build and validation accepts (all matrices of twice as many tiles, tiles of 512 or 128 pixels, the first matrix dropped and the rest renumbered), x tile matrix ids (quick: 4 per set incl. the smallest and the largest <= 20, plus the first and the last deeper one; thorough: all) x random polygons at random places of the extent (deeper than level 32: near its lower left corner) and triangles with one vertex twice as far from the lower left corner as another (the same pixel address on two requested levels), " +
		"ids requested alone and together, all flags; every returned coordinate must be bit-exactly ToGeomOrd(minX + k*span + span/2) with 0 <= k < 2^level, within the reported deviation (+2e-10 quantisation) of the ideal centre; " +
		"quad: getQuadrantExtentAndCentroid against the model; plus the common snap stream. Non-trivial as for snap; distinct by op text."
	accepted := acceptedBuiltins()
	r.Notes = append(r.Notes, "built-in sets accepted by IsQuadTree: "+strings.Join(accepted, ", "))
	variants := acceptedVariants()
	r.Notes = append(r.Notes, "variants of built-in sets accepted by IsQuadTree (of NetherlandsRDNewQuad and WebMercatorQuad + "+strings.Join(setVariants, ", ")+"): "+strings.Join(variants, ", "))
	accepted = append(accepted, variants...)
	perID := e.n(40, 200)
	for _, name := range accepted {
		maxAll := 0
		gs := newReal(name, 0, false)
		for id := range gs.tms.TileMatrices {
			if id > maxAll {
				maxAll = id
			}
		}
		gs.levelDiff = uint(math.Log2(float64(gs.tms.TileMatrices[0].TileWidth))) + 4
		top := min(maxAll, 32-int(gs.levelDiff)) // level <= 32 (finding F7 above)
		top = min(top, 20)
		var ids []int
		if e.tier == "thorough" {
			for id := 0; id <= top; id++ {
				ids = append(ids, id)
			}
		} else {
			ids = []int{0, top / 3, 2 * top / 3, top}
		}
		// deeper ids too (level > 32): the index is built and snaps near the lower left corner of the extent, where pixel addresses still
		// fit 32 bits (elsewhere it panics: finding F7)
		for id := top + 1; id <= maxAll; id++ {
			if e.tier == "thorough" || id == maxAll || id == top+1 {
				ids = append(ids, id)
			}
		}
		bl, tr, err := gs.tms.MatrixBoundingBox(0)
		if err != nil {
			r.Notes = append(r.Notes, name+": "+err.Error())
			continue
		}
		for _, id := range ids {
			g := gs.gridFor(id)
			lvl := uint(id) + gs.levelDiff
			if g.depth != lvl {
				e.res.violation(Violation{Oracle: "level=id+log2(tileWidth)+4", Op: fmt.Sprintf("grid %s id %d", name, id), Impl: fmt.Sprintf("index depth %d, pixel %v", g.depth, float64(g.res)/1e10),
					Detail: fmt.Sprintf("tile matrix %d of %s needs level %d, pixel = cellSize/16 = %v", id, name, lvl, gs.tms.TileMatrices[id].CellSize/16)})
				continue // nothing below makes sense on another level's grid
			}
			_, devUnits, _, derr := pointindex.DeviationStats(gs.tms, id)
			if derr != nil {
				r.Notes = append(r.Notes, name+": "+derr.Error())
				continue
			}
			pix := gs.tms.TileMatrices[id].CellSize / 16
			// pixel size used = cell size / 16, up to the deviation spread over the extent
			if got := float64(g.span(lvl)) / 1e10; math.Abs(got-pix) > math.Abs(devUnits)/float64(uint64(1)<<lvl)+1e-9*pix+2e-10 {
				e.res.violation(Violation{Oracle: "pixel=cellSize/16", Op: fmt.Sprintf("grid %s id %d", name, id), Detail: fmt.Sprintf("span %v, cellSize/16 %v", got, pix)})
			}
			// quad stream on this grid
			for i := 0; i < 20; i++ {
				l := uint(e.rng.Intn(int(lvl) + 1))
				x, y := e.rng.Int63n(1<<l), e.rng.Int63n(1<<l)
				ix, _ := pointindex.FromTileMatrixSet(gs.tms, id)
				ext, cen := ix.XQuadrant(l, uint(x), uint(y))
				op := fmt.Sprintf("quad %s %d %d %d", g, l, x, y)
				impl := fmt.Sprintf("%d %d %d %d %d %d", ext[0], ext[1], ext[2], ext[3], cen[0], cen[1])
				r.count("quad", op, true)
				e.pending = append(e.pending, pendingOp{"quad", op, impl})
			}
			e.flush()
			w := window{gs: gs, G: 16, maxID: id, minID: max(0, id-2)}
			for k := 0; k < perID; k++ {
				// a window somewhere inside the extent
				spanPix := float64(uint64(1) << lvl)
				fx, fy := e.rng.Float64()*(spanPix-18)+1, e.rng.Float64()*(spanPix-18)+1
				if id > top {
					fx, fy = e.rng.Float64()*100000+1, e.rng.Float64()*100000+1
				}
				if spanPix < 20 {
					fx, fy = 0, 0
					w.G = spanPix
				}
				w.baseX, w.baseY = bl[0]+math.Floor(fx)*pix, bl[1]+math.Floor(fy)*pix
				c := genCase(e.rng, w, e.rng.Intn(4) > 0, 20)
				if k < 4 && id >= 1 && id <= top && spanPix >= 64 {
					// pixel (x, y) of this tile matrix and pixel (x, y) of the one above it both hold a vertex: one vertex twice as far from the lower
					// left corner of the extent as the other, both ids requested — whatever is kept per pixel address must be kept per level too
					x, y := float64(1+e.rng.Intn(int(math.Min(spanPix/2, 1<<20))-1)), float64(1+e.rng.Intn(int(math.Min(spanPix/2, 1<<20))-1))
					tri := geom.Polygon{{{bl[0] + (x+0.3)*2*pix, bl[1] + (y+0.6)*2*pix}, {bl[0] + (x+0.3)*pix, bl[1] + (y+0.6)*pix}, {bl[0] + (x+0.3)*2*pix, bl[1] + (y+0.6)*pix}}}
					c = &snapCase{gs: gs, tmids: []int{id - 1, id}, tag: "same-address-on-two-levels", skipModel: true}
					c.cfg = snap.Config{KeepPointsAndLines: e.rng.Intn(2) == 0}
					c.setPoly(tri)
				}
				if c == nil {
					continue
				}
				if w.G < 16 { // tiny grids: the generator may leave the extent, that is C09's business
					inside := true
					for _, rg := range c.rings {
						for _, p := range rg {
							if _, _, ok := g.addr(p); !ok {
								inside = false
							}
						}
					}
					if !inside {
						continue
					}
				}
				sr := c.runImpl()
				op := c.op()
				nt := e.classify(c, sr)
				r.count("snap", op, nt)
				if !c.skipModel {
					e.pending = append(e.pending, pendingOp{"snap", op, sr.String()})
				}
				if sr.panicMsg != "" || sr.hang {
					continue
				}
				if len(sr.notCentre) > 0 {
					e.snapViolation("coordinate-is-a-pixel-centre", c, sr, "not a pixel centre: "+strings.Join(sr.notCentre[:1], "; "), "")
					continue
				}
				gc := c.grid()
				for l, polys := range sr.levels {
					for _, pg := range polys {
						for _, rg := range pg {
							for _, kk := range rg {
								if kk.x < 0 || kk.y < 0 || kk.x >= 1<<l || kk.y >= 1<<l {
									e.snapViolation("pixel-index-in-range", c, sr, fmt.Sprintf("level %d pixel (%d,%d)", l, kk.x, kk.y), "")
								}
							}
						}
					}
					// distance to the ideal centre of the tile matrix's own grid
					_, dev, _, _ := pointindex.DeviationStats(gs.tms, c.deepest())
					idl := int(l - gs.levelDiff)
					// the ideal pixel of the tile matrix: extent span / 2^level (its cell size / 16 up to the rounding of the cellSize constant in the JSON document)
					pixL := new(big.Rat).Quo(new(big.Rat).Sub(ratOf(tr[0]), ratOf(bl[0])), new(big.Rat).SetInt(new(big.Int).Lsh(big.NewInt(1), l)))
					if cs := gs.tms.TileMatrices[idl].CellSize / 16; true {
						pf, _ := pixL.Float64()
						if math.Abs(cs-pf) > 1e-6*cs { // the cellSize constants in the JSON documents are rounded (7..11 significant digits)
							e.snapViolation("pixel=cellSize/16", c, sr, fmt.Sprintf("level %d: extent/2^level = %v but cellSize/16 = %v", l, pf, cs), "")
						}
					}
					for _, pg := range polys {
						for _, rg := range pg {
							for _, kk := range rg {
								ideal := new(big.Rat).Add(ratOf(bl[0]), new(big.Rat).Mul(pixL, big.NewRat(2*kk.x+1, 2)))
								got := big.NewRat(gc.centre(l, kk.x, gc.minX), 10000000000)
								d := new(big.Rat).Sub(ideal, got)
								d.Abs(d)
								lim := new(big.Rat).Add(ratOf(math.Abs(dev)), big.NewRat(3, 10000000000))
								lim.Add(lim, new(big.Rat).Mul(ratOf(1e-12), ratOf(math.Abs(bl[0])+pix*spanPix)))
								if d.Cmp(lim) > 0 {
									f, _ := d.Float64()
									e.snapViolation("within-reported-deviation-of-ideal-centre", c, sr, fmt.Sprintf("level %d pixel x=%d: |ideal-centre| = %g > reported deviation %g", l, kk.x, f, dev), "")
								}
							}
						}
					}
				}
			}
			e.flush()
		}
	}
}

// ---------------- C06

func checkC06(e *env) {
	r := e.res
	r.Rule = snapRule + " C06 uses arbitrary vertex sequences (85 %) and valid polygons, up to 60 vertices per ring, 1-3 rings; plus function-level streams: kmp (kmpDeduplicate on adversarially repetitive rings over small alphabets, " +
		"exhaustive over all rings of length <= 7 over a 4-point alphabet in the thorough tier) and split (cleanupNewRing with arbitrary flag sets); every call under recover and a 20 s watchdog; snap-inside-extent: on every accepted built-in set a vertex inside the extent at half the reported deviation, just beyond it, and half a pixel and three pixels beyond it from the right and the top edge; scaling: rings of 200..1600 vertices of two adversarial kinds, the time may grow at most 24x per doubling; " +
		"levels above 32 (WebMercatorQuad id >= 21) are probed separately and are the known finding F7."
	initWindows()
	e.runSnap(snapOpts{stream: "snap", n: e.n(15000, 800000), gen: e.anyGen(allWindows(), 60, 15), hook: func(c *snapCase, sr *snapResult, _ map[uint][]ring) {
		if sr.hang {
			e.snapViolation("returns-within-the-watchdog", c, sr, fmt.Sprintf("no return after %v", hangLimit), "")
			return
		}
		if sr.panicMsg != "" {
			e.snapViolation("no-panic-for-in-grid-polygon", c, sr, sr.panicMsg, "")
		}
		if ms := sr.elapsed.Milliseconds(); ms > int64(e.res.Dist["c06:max-ms-per-call"]) {
			e.res.Dist["c06:max-ms-per-call"] = int(ms)
		}
	}})
	// "within time proportional to a small polynomial of the vertex count": rings of 200, 400, 800 and 1600 vertices of two adversarial kinds
	// (random points over 100 x 100 pixels: everything crosses everything; few pixels visited over and over), the fastest of three runs each;
	// doubling the vertex count may multiply the time by at most 24 (degree 4.5; measured on the unchanged code: 5 to 6, i.e. about n^2.5)
	rdw := realWindows[1]
	for _, kind := range []string{"random", "few-pixels"} {
		var prev time.Duration
		for _, n := range []int{200, 400, 800, 1600} {
			pix := pixelSize(rdw.gs, rdw.maxID)
			rg := make([][2]float64, n)
			for i := range rg {
				if kind == "random" {
					rg[i] = [2]float64{rdw.baseX + e.rng.Float64()*100*pix, rdw.baseY + e.rng.Float64()*100*pix}
				} else {
					rg[i] = [2]float64{rdw.baseX + float64(e.rng.Intn(4))*pix, rdw.baseY + float64(e.rng.Intn(4))*pix}
				}
			}
			c := &snapCase{gs: rdw.gs, tmids: []int{rdw.maxID, rdw.maxID - 2}, tag: "scaling-" + kind, skipModel: true}
			c.cfg.KeepPointsAndLines = true
			c.setPoly(geom.Polygon{rg})
			best := time.Duration(0)
			bad := false
			for rep := 0; rep < 3 && !bad; rep++ {
				sr := c.runImpl()
				r.count("scaling", fmt.Sprintf("scaling %s n=%d", kind, n), true)
				if sr.hang {
					e.snapViolation("returns-within-the-watchdog", c, sr, fmt.Sprintf("%d vertices: no return after %v", n, hangLimit), "")
					bad = true
				} else if sr.panicMsg != "" {
					e.snapViolation("no-panic-for-in-grid-polygon", c, sr, sr.panicMsg, "")
					bad = true
				} else if best == 0 || sr.elapsed < best {
					best = sr.elapsed
				}
			}
			if bad {
				break
			}
			r.Dist[fmt.Sprintf("c06:scaling-%s-%d-vertices-ms", kind, n)] = int(best.Milliseconds())
			if floor := 2 * time.Millisecond; prev > 0 && best > 24*max(prev, floor) {
				r.violation(Violation{Oracle: "time-polynomial-in-the-vertex-count", Op: fmt.Sprintf("%s ring of %d vertices on %s ids %v", kind, n, rdw.gs.name, c.tmids), Impl: fmt.Sprintf("%v (fastest of three runs)", best),
					Detail: fmt.Sprintf("the ring of half as many vertices took %v: the time grew by more than 24x for a doubling of the vertex count", prev)})
			}
			prev = best
		}
	}
	// inside the extent, next to its right and top edges: the index covers 2^level pixels of an integer size, which falls short of the extent by the
	// deviation the tool reports when the extent does not divide evenly; a vertex inside the extent must be snapped, not reported as outside the grid.
	// (Known finding F16: within the deviation of the right/top edge it is reported as outside.)
	for _, name := range acceptedBuiltins() {
		gs := newReal(name, 0, false)
		gs.levelDiff = uint(math.Log2(float64(gs.tms.TileMatrices[0].TileWidth))) + 4
		bl, tr, err := gs.tms.MatrixBoundingBox(0)
		if err != nil {
			continue
		}
		top := 0
		for id := range gs.tms.TileMatrices {
			if id > top && uint(id)+gs.levelDiff <= 32 {
				top = id
			}
		}
		for _, id := range []int{0, top / 2, top} {
			_, devUnits, _, derr := pointindex.DeviationStats(gs.tms, id)
			if derr != nil {
				continue
			}
			dev := math.Abs(devUnits)
			pix := gs.tms.TileMatrices[id].CellSize / 16
			ulp := 4 * (math.Nextafter(math.Abs(tr[0]), math.Inf(1)) - math.Abs(tr[0]))
			for _, inset := range []float64{math.Max(dev/2, 1e-9+ulp), dev + 1e-6 + ulp, dev + pix/2, dev + 3*pix} {
				for side := 0; side < 2; side++ {
					ax, ay := bl[0]+(tr[0]-bl[0])/2, bl[1]+(tr[1]-bl[1])/2
					v := [2]float64{tr[0] - inset, ay}
					if side == 1 {
						v = [2]float64{ax, tr[1] - inset}
					}
					if v[0] >= tr[0] || v[1] >= tr[1] {
						continue // not representably inside
					}
					c := &snapCase{gs: gs, tmids: []int{id}, tag: "inside-next-to-the-far-edge", skipModel: true}
					c.setPoly(geom.Polygon{{{ax, ay}, v, {ax + 7*pix, ay + 9*pix}}})
					sr := c.runImpl()
					op := fmt.Sprintf("%s id %d: triangle with a vertex %.3g inside the %s edge of the extent (reported deviation %.3g)", name, id, inset, []string{"right", "top"}[side], dev)
					r.count("snap-inside-extent", op, true)
					if sr.hang || sr.panicMsg != "" {
						known := ""
						if panicClass(sr.panicMsg) == "outside-grid" && inset <= dev+1e-9+ulp {
							known = "F16"
						}
						r.violation(Violation{Oracle: "no-panic-for-in-grid-polygon", Op: op, Impl: sr.String(), Detail: sr.panicMsg + " | " + c.describe(), Known: known})
					}
				}
			}
		}
	}
	// function level: kmpDeduplicate / cleanupNewRing
	alpha := []ipt{{0, 0}, {1, 0}, {2, 0}, {1, 1}, {0, 1}, {3, 0}}
	kmpCase := func(rg ring) {
		op := "kmp " + strings.ReplaceAll(fmtRing(rg), ",", " ")
		fl := make([][2]float64, len(rg))
		for i, p := range rg {
			fl[i] = [2]float64{float64(p.x), float64(p.y)}
		}
		impl := func() (s string) {
			defer func() {
				if rec := recover(); rec != nil {
					s = "panic " + panicClass(fmt.Sprint(rec))
				}
			}()
			out := snap.XKmpDeduplicate(fl)
			o := make(ring, len(out))
			cnt := map[ipt]int{}
			for _, p := range rg {
				cnt[p]++
			}
			for i, v := range out {
				o[i] = ipt{int64(v[0]), int64(v[1])}
				cnt[o[i]]--
			}
			// the hypothesis KmpNoDup of the theorems C05_no_vertex_twice_partial / C06_ring_cleanup_total_partial, on the real code
			for p, c := range cnt {
				if c < 0 {
					r.violation(Violation{Oracle: "kmpDeduplicate-returns-no-more-copies-of-a-vertex-than-it-was-given", Op: op, Impl: fmtRing(o), Detail: fmt.Sprintf("vertex (%d,%d) occurs %d more time(s) in the result", p.x, p.y, -c)})
					break
				}
			}
			return "ok " + fmtRing(o)
		}()
		r.count("kmp", op, impl != "ok "+fmtRing(rg))
		if strings.HasPrefix(impl, "panic") {
			r.violation(Violation{Oracle: "kmpDeduplicate-no-panic", Op: op, Impl: impl, Detail: "ring of length >= 3 as cleanupNewRing passes it"})
		}
		e.pending = append(e.pending, pendingOp{"kmp", op, impl})
		if len(e.pending) >= 4096 {
			e.flush()
		}
	}
	if e.tier == "thorough" {
		var rec func(rg ring, n int)
		rec = func(rg ring, n int) {
			if len(rg) >= 3 {
				kmpCase(append(ring{}, rg...))
			}
			if len(rg) == n {
				return
			}
			for _, a := range alpha[:4] {
				rec(append(rg, a), n)
			}
		}
		rec(nil, 7)
		r.stream("kmp").Exhaustive = true
	}
	for i := 0; i < e.n(40000, 1500000); i++ {
		k := 2 + e.rng.Intn(5)
		n := 3 + e.rng.Intn(24)
		rg := make(ring, n)
		switch e.rng.Intn(3) {
		case 0:
			for j := range rg {
				rg[j] = alpha[e.rng.Intn(k)]
			}
		case 1: // zig-zag of period p with noise
			p := 2 + e.rng.Intn(4)
			for j := range rg {
				q := j % (2*p - 2)
				if q >= p {
					q = 2*p - 2 - q
				}
				rg[j] = alpha[q%len(alpha)]
				if e.rng.Intn(12) == 0 {
					rg[j] = alpha[e.rng.Intn(k)]
				}
			}
		default: // walk on the alphabet without immediate repeats
			cur := e.rng.Intn(k)
			for j := range rg {
				rg[j] = alpha[cur]
				cur = (cur + 1 + e.rng.Intn(k-1)) % k
			}
		}
		kmpCase(rg)
	}
	e.flush()
	for i := 0; i < e.n(20000, 600000); i++ {
		k := 2 + e.rng.Intn(5)
		n := 1 + e.rng.Intn(16)
		rg := make(ring, n)
		cur := e.rng.Intn(k)
		for j := range rg {
			rg[j] = alpha[cur]
			if e.rng.Intn(5) > 0 {
				cur = (cur + 1 + e.rng.Intn(k-1)) % k
			}
		}
		var flags ring
		hm := map[intgeom.Point][]int{}
		for _, a := range alpha[:k] {
			if e.rng.Intn(2) == 0 {
				flags = append(flags, a)
				hm[intgeom.FromGeomPoint(geom.Point{float64(a.x), float64(a.y)})] = []int{0}
			}
		}
		outer := e.rng.Intn(2) == 0
		op := fmt.Sprintf("split %s %d %s %s", b2s(outer), len(flags), strings.ReplaceAll(fmtRing(flags), ",", " "), strings.ReplaceAll(fmtRing(rg), ",", " "))
		op = strings.Join(strings.Fields(op), " ")
		fl := make([][2]float64, len(rg))
		for j, p := range rg {
			fl[j] = [2]float64{float64(p.x), float64(p.y)}
		}
		impl := func() (s string) {
			defer func() {
				if rec := recover(); rec != nil {
					s = "panic " + panicClass(fmt.Sprint(rec))
				}
			}()
			o, in, pl := snap.XCleanupNewRing(fl, outer, hm, 0)
			conv := func(rs [][][2]float64) string {
				parts := make([]string, len(rs))
				for a, rr := range rs {
					q := make(ring, len(rr))
					for b, v := range rr {
						q[b] = ipt{int64(v[0]), int64(v[1])}
					}
					parts[a] = fmtRing(q)
				}
				return "[" + strings.Join(parts, "|") + "]"
			}
			return fmt.Sprintf("ok O%s I%s PL%s", conv(o), conv(in), conv(pl))
		}()
		r.count("split", op, len(flags) > 0)
		// arbitrary flag sets can leave partial rings on the stack: in SnapPolygon the flags are exactly the repeated vertices; only compare
		e.pending = append(e.pending, pendingOp{"split", op, canonModel(impl)})
		if len(e.pending) >= 4096 {
			e.flush()
		}
	}
	e.flush()
	above32(e, true)
}

// above32: tile matrices whose pixel level exceeds 32 (WebMercatorQuad ids 21..24), triangles in the north-east half of the extent, where
// pixel addresses need more than 32 bits. Such an address cannot be encoded (C17): the unchanged code reports it — by panicking in
// MustToZ, which for C06 is known finding F7. What must never happen is a silent answer built from wrapped-around keys: when the call
// returns, every coordinate has to be within half a pixel of one of the three input vertices.
func above32(e *env, f7 bool) {
	r := e.res
	wm := newReal("WebMercatorQuad", 24, false)
	// the index itself: two points whose deepest pixel addresses are 2^16+k and 2^32+k in the same row. Either the second insertion is
	// reported (panic "cannot make Z", error) or the index holds two distinct hot pixels with exactly these addresses
	for id := 21; id <= 24; id++ {
		for _, k := range []float64{5, 77, 4099} {
			bl, _, _ := wm.tms.MatrixBoundingBox(0)
			pix := wm.tms.TileMatrices[id].CellSize / 16
			at := func(ax, ay float64) geom.Point { return geom.Point{bl[0] + (ax+0.5)*pix, bl[1] + (ay+0.5)*pix} }
			op := fmt.Sprintf("index of WebMercatorQuad id %d: insert the points of pixels (2^16+%v, 1000) and (2^32+%v, 1000)", id, k, k)
			r.count("snap-above-32", op, true)
			verdict := func() (v string) {
				defer func() {
					if rec := recover(); rec != nil {
						v = "reported: panic " + panicClass(fmt.Sprint(rec))
					}
				}()
				ix, err := pointindex.FromTileMatrixSet(wm.tms, id)
				if err != nil {
					return "reported: " + err.Error()
				}
				if err := ix.InsertPoint(at(65536+k, 1000)); err != nil {
					return "reported: " + err.Error()
				}
				if err := ix.InsertPoint(at(4294967296+k, 1000)); err != nil {
					return "reported: " + err.Error()
				}
				hot := ix.XHot(uint(id) + 12)
				have := map[[2]uint]bool{}
				for _, h := range hot {
					have[h] = true
				}
				if len(hot) == 2 && have[[2]uint{uint(65536 + k), 1000}] && have[[2]uint{uint(4294967296 + k), 1000}] {
					return "two hot pixels"
				}
				return fmt.Sprintf("hot pixels of the deepest level: %v", hot)
			}()
			if !strings.HasPrefix(verdict, "reported") && verdict != "two hot pixels" {
				r.violation(Violation{Oracle: "address-beyond-32-bits-reported-not-wrapped", Op: op, Impl: verdict,
					Detail: "two different pixels were inserted, neither insertion was refused, and the index does not hold these two pixels: their keys were made from addresses that do not fit 32 bits"})
			}
		}
	}
	for i := 0; i < 12; i++ {
		id := 21 + i%4
		c := &snapCase{gs: wm, tmids: []int{id}, tag: "above-level-32"}
		x, y := 550000+float64(i)*10, 6800000+float64(i)*7
		if i >= 5 { // elsewhere in the north-east half, and astride the address 2^32
			x, y = float64(1+i)*1.3e6, float64(12-i)*1.1e6
		}
		tri := geom.Polygon{{{x, y}, {x + 5, y}, {x + 3, y + 4}}}
		op := fmt.Sprintf("WebMercatorQuad id %d triangle at (%v,%v)", id, x, y)
		if i >= 9 {
			// two vertices whose pixel addresses differ in bit 32 and bit 16 only (2^32+k and 2^16+k in the same row): keys made from
			// addresses cut to 32 bits, or spread without the check, would take them for one pixel
			bl, _, _ := wm.tms.MatrixBoundingBox(0)
			pix := wm.tms.TileMatrices[id].CellSize / 16
			at := func(ax, ay float64) [2]float64 { return [2]float64{bl[0] + (ax+0.5)*pix, bl[1] + (ay+0.5)*pix} }
			k := float64(5 + i)
			tri = geom.Polygon{{at(65536+k, 1000), at(4294967296+k, 1000), at(2147483648, 1048576)}}
			op = fmt.Sprintf("WebMercatorQuad id %d triangle with pixel addresses (2^16+%v,1000) (2^32+%v,1000) (2^31,2^20)", id, k, k)
		}
		c.setPoly(tri)
		sr := c.runImpl()
		r.count("snap-above-32", op, true)
		switch {
		case sr.panicMsg != "" && panicClass(sr.panicMsg) == "cannot make Z":
			if f7 {
				r.violation(Violation{Oracle: "no-panic-for-in-grid-polygon", Op: fmt.Sprintf("WebMercatorQuad id %d, triangle at (%v,%v)", id, x, y), Impl: sr.String(), Detail: sr.panicMsg, Known: "F7"})
			}
		case sr.panicMsg != "" || sr.hang:
			r.violation(Violation{Oracle: "no-panic-for-in-grid-polygon", Op: c.describe(), Impl: sr.String(), Detail: sr.panicMsg})
		default:
			// it returned: then from properly encoded keys
			pix := wm.tms.TileMatrices[id].CellSize / 16
			res := snap.SnapPolygon(tri, wm.tms, []int{id}, c.cfg)
			for _, pg := range res[id] {
				for _, rg := range pg {
					for _, v := range rg {
						near := false
						for _, u := range tri[0] {
							if math.Abs(v[0]-u[0]) <= pix/2*1.001 && math.Abs(v[1]-u[1]) <= pix/2*1.001 {
								near = true
							}
						}
						if !near {
							r.violation(Violation{Oracle: "address-beyond-32-bits-reported-not-wrapped", Op: op, Impl: fmt.Sprintf("returned vertex (%v, %v)", v[0], v[1]),
								Detail: fmt.Sprintf("not within half a pixel (%v) of any vertex of the triangle: the pixel keys of this level need more than 32 bits per axis and were not reported as not encodable", pix)})
							return
						}
					}
				}
			}
			// … and every vertex of the (large) triangle is still there
			for _, u := range tri[0] {
				found := false
				for _, pg := range res[id] {
					for _, rg := range pg {
						for _, v := range rg {
							if math.Abs(v[0]-u[0]) <= pix/2*1.001 && math.Abs(v[1]-u[1]) <= pix/2*1.001 {
								found = true
							}
						}
					}
				}
				if !found && i >= 9 {
					r.violation(Violation{Oracle: "address-beyond-32-bits-reported-not-wrapped", Op: op, Impl: fmt.Sprint(res[id]),
						Detail: fmt.Sprintf("no returned vertex within half a pixel of the input vertex (%v, %v): two pixels whose addresses differ beyond bit 31 were taken for one", u[0], u[1])})
					return
				}
			}
		}
	}
}

// ---------------- C07

type caseJSON struct {
	Synth *struct {
		D      uint
		Ox, Oy float64
	} `json:"synth,omitempty"`
	Real string        `json:"real,omitempty"`
	IDs  []int         `json:"ids"`
	Cfg  snap.Config   `json:"cfg"`
	Poly [][][2]uint64 `json:"poly"` // float bits
}

func (c *snapCase) toJSON() caseJSON {
	j := caseJSON{IDs: c.tmids, Cfg: c.cfg}
	if c.gs.levelDiff == 4 {
		var d uint
		var ox, oy float64
		fmt.Sscanf(c.gs.name, "synth(d=%d,o=%g,%g)", &d, &ox, &oy)
		j.Synth = &struct {
			D      uint
			Ox, Oy float64
		}{d, ox, oy}
	} else {
		j.Real = c.gs.name
	}
	for _, rg := range c.poly {
		var rr [][2]uint64
		for _, v := range rg {
			rr = append(rr, [2]uint64{math.Float64bits(v[0]), math.Float64bits(v[1])})
		}
		j.Poly = append(j.Poly, rr)
	}
	return j
}

var gsCache = map[string]*gridSpec{}

func caseFromJSON(j caseJSON) *snapCase {
	var gs *gridSpec
	key := j.Real
	if j.Synth != nil {
		key = fmt.Sprintf("synth(d=%d,o=%g,%g)", j.Synth.D, j.Synth.Ox, j.Synth.Oy)
	}
	gs = gsCache[key]
	if gs == nil {
		if j.Synth != nil {
			gs = newSynth(j.Synth.D, j.Synth.Ox, j.Synth.Oy)
		} else {
			gs = newReal(j.Real, 0, false)
		}
		gsCache[key] = gs
	}
	c := &snapCase{gs: gs, tmids: j.IDs, cfg: j.Cfg}
	poly := make(geom.Polygon, len(j.Poly))
	for i, rg := range j.Poly {
		poly[i] = make([][2]float64, len(rg))
		for k, v := range rg {
			poly[i][k] = [2]float64{math.Float64frombits(v[0]), math.Float64frombits(v[1])}
		}
	}
	c.setPoly(poly)
	return c
}

// snapChild: a fresh process (new map seeds) that snaps the cases of a file and prints the canonical results
func snapChild(e *env) {
	f, err := os.Open(e.replay)
	if err != nil {
		fmt.Println("error", err)
		return
	}
	defer f.Close()
	sc := bufio.NewScanner(f)
	sc.Buffer(make([]byte, 1<<20), 1<<26)
	w := bufio.NewWriter(os.Stdout)
	defer w.Flush()
	for sc.Scan() {
		var j caseJSON
		if err := json.Unmarshal(sc.Bytes(), &j); err != nil {
			fmt.Fprintln(w, "error", err)
			continue
		}
		fmt.Fprintln(w, "RES "+caseFromJSON(j).runImpl().String())
	}
}

func reverseAllRings(ps []polygonI, onlyPolygons bool) []polygonI {
	out := make([]polygonI, len(ps))
	for i, pg := range ps {
		out[i] = make(polygonI, len(pg))
		for j, rg := range pg {
			q := append(ring{}, rg...)
			if !(onlyPolygons && len(pg[0]) < 3) {
				reverseRing(q)
			}
			out[i][j] = q
		}
	}
	return out
}

func checkC07(e *env) {
	r := e.res
	r.Rule = snapRule + " C07: every case is snapped three times in this process and once in a fresh process (other map seeds, the cases in the opposite order); valid polygons additionally with random subsets of rings written in the opposite direction " +
		"(must be identical) and with the reverse-winding flag flipped (must be the same geometry with every polygon ring reversed, appended points/lines unchanged)."
	var lines []string
	var firsts []string
	var kept []*snapCase
	e.runSnap(snapOpts{stream: "snap", n: e.n(5000, 200000), gen: e.anyGen(allWindows(), 32, 70), hook: func(c *snapCase, sr *snapResult, _ map[uint][]ring) {
		first := sr.String()
		for k := 0; k < 2; k++ {
			if again := c.runImpl().String(); again != first {
				e.snapViolation("same-result-on-repetition", c, sr, "a repetition returned "+again, "")
				return
			}
		}
		if len(lines) < e.n(1500, 20000) {
			b, _ := json.Marshal(c.toJSON())
			lines = append(lines, string(b))
			firsts = append(firsts, first)
			kept = append(kept, c)
		}
		if c.tag == "arbitrary" || sr.panicMsg != "" {
			return
		}
		// any subset of rings written in the opposite direction
		for k := 0; k < 2; k++ {
			c2 := *c
			poly := make(geom.Polygon, len(c.poly))
			changed := false
			for i, rg := range c.poly {
				q := append([][2]float64{}, rg...)
				if e.rng.Intn(2) == 0 || (k == 1 && i == 0) {
					for a, b := 0, len(q)-1; a < b; a, b = a+1, b-1 {
						q[a], q[b] = q[b], q[a]
					}
					changed = true
				}
				poly[i] = q
			}
			if !changed {
				continue
			}
			c2.setPoly(poly)
			if other := c2.runImpl().String(); other != first {
				e.snapViolation("independent-of-ring-direction", c, sr, "with rings reversed in the input: "+other, "")
				return
			}
		}
		// the reverse flag only reverses every returned polygon ring
		c3 := *c
		c3.cfg.ReverseWindingOrder = !c.cfg.ReverseWindingOrder
		sr3 := c3.runImpl()
		if sr3.panicMsg == "" {
			want := map[uint][]polygonI{}
			for l, ps := range sr.levels {
				want[l] = reverseAllRings(ps, true)
			}
			if (&snapResult{levels: want}).String() != sr3.String() {
				e.snapViolation("reverse-flag-only-reverses-rings", c, sr, "with the flag flipped: "+sr3.String(), "")
			}
		}
	}})
	// fresh process
	self, _ := os.Executable()
	tmp, err := os.CreateTemp("", "vh-c07-*.jsonl")
	if err == nil {
		// the fresh process takes the cases in the opposite order: what was snapped before must not matter either
		for i := len(lines) - 1; i >= 0; i-- {
			fmt.Fprintln(tmp, lines[i])
		}
		tmp.Close()
		defer os.Remove(tmp.Name())
		out, err := exec.Command(self, "snapchild", "-replay", tmp.Name()).Output()
		if err != nil {
			r.Notes = append(r.Notes, "fresh process failed: "+err.Error())
		} else {
			var got []string
			for _, l := range strings.Split(string(out), "\n") {
				if strings.HasPrefix(l, "RES ") {
					got = append(got, l[4:])
				}
			}
			if len(got) == len(firsts) {
				for a, b := 0, len(got)-1; a < b; a, b = a+1, b-1 {
					got[a], got[b] = got[b], got[a]
				}
			}
			r.Dist["c07:compared-with-fresh-process"] = len(got)
			for i := range got {
				if len(got) == len(firsts) && got[i] != firsts[i] {
					r.violation(Violation{Oracle: "same-result-in-a-fresh-process", Op: kept[i].op(), Impl: firsts[i], Detail: "fresh process returned " + got[i] + " | " + kept[i].describe()})
				}
			}
			if len(got) != len(firsts) {
				r.Notes = append(r.Notes, fmt.Sprintf("fresh process answered %d of %d cases", len(got), len(firsts)))
			}
		}
	}
}

// ---------------- C08

func checkC08(e *env) {
	r := e.res
	r.Rule = snapRule + " C08 uses round grids only (synthetic dyadic grids with ids 0..2, NetherlandsRDNewQuad windows with three consecutive ids); for every case every requested id is also requested alone " +
		"and the geometry must be identical; result keys must be requested ids."
	initWindows()
	var ws []window
	for _, w := range allWindows() {
		if w.gs.round {
			ws = append(ws, w)
		}
	}
	e.runSnap(snapOpts{stream: "snap", n: e.n(6000, 300000), gen: func() *snapCase {
		w := pickWindow(e.rng, ws)
		c := genCase(e.rng, w, e.rng.Intn(4) > 0, 28)
		if c == nil {
			return nil
		}
		// any non-empty subset of the window's ids, the deepest not necessarily included
		var ids []int
		for id := w.minID; id <= w.maxID; id++ {
			if e.rng.Intn(2) == 0 {
				ids = append(ids, id)
			}
		}
		if len(ids) == 0 {
			ids = []int{w.minID + e.rng.Intn(w.maxID-w.minID+1)}
		}
		e.rng.Shuffle(len(ids), func(i, j int) { ids[i], ids[j] = ids[j], ids[i] })
		c.tmids = ids
		return c
	}, hook: func(c *snapCase, sr *snapResult, _ map[uint][]ring) {
		if sr.panicMsg != "" || sr.hang {
			return
		}
		req := map[uint]bool{}
		for _, l := range c.levels() {
			req[l] = true
		}
		for l := range sr.levels {
			if !req[l] {
				e.snapViolation("keys-are-requested-ids", c, sr, fmt.Sprintf("result has level %d (id %d) that was not requested", l, int(l)-int(c.gs.levelDiff)), "")
				return
			}
		}
		if len(c.tmids) < 2 {
			return
		}
		r.Dist[fmt.Sprintf("c08:ids-together=%d", len(c.tmids))]++
		for _, id := range c.tmids {
			c1 := *c
			c1.tmids = []int{id}
			a := c1.runImpl()
			l := uint(id) + c.gs.levelDiff
			if a.panicMsg != "" {
				e.snapViolation("alone-equals-together", c, sr, fmt.Sprintf("id %d alone panics: %s", id, a.panicMsg), "")
				return
			}
			alone, together := fmtPolys(a.levels[l]), fmtPolys(sr.levels[l])
			_, p1 := a.levels[l]
			_, p2 := sr.levels[l]
			if alone != together || p1 != p2 {
				e.snapViolation("alone-equals-together", c, sr, fmt.Sprintf("id %d alone: [%s] (present=%v); together with %v: [%s] (present=%v)", id, alone, p1, c.tmids, together, p2), "")
				return
			}
		}
	}})
}

// ---------------- C09

func checkC09(e *env) {
	r := e.res
	r.Rule = "valid polygons inside synthetic grids (zero, negative and positive origins) and a NetherlandsRDNewQuad window at the extent's corner, with one vertex moved outside the half-open extent, or (a quarter of the cases) the whole polygon translated beyond a side or corner, by " +
		"1 unit (1e-10), res-1, res, res+1 units and random distances, on each side and corner (left/bottom: just below min; right/top: exactly max and beyond), both values of ignore-outside-grid; " +
		"expected: panic with OutsideGridError by default, empty result with the flag; snap-outside-extent: on every accepted built-in set and on NetherlandsRDNewQuad / WebMercatorQuad moved by a quarter of their width under the same id (ids 0, middle, deepest <= level 32) a vertex on and a hair beyond each border of the set's own bounding box, and far away (9.3e8, 1e12, +-Inf);  addr: InsertPoint on grids with various origins against the model's floor-division address. " +
		"Non-trivial = the vertex is less than one pixel outside, or exactly on the right/top border; distinct by op text."
	initWindows()
	type og struct {
		gs   *gridSpec
		id   int
		G    float64
		base [2]float64
	}
	var grids []og
	for _, o := range [][2]float64{{0, 0}, {-1024, 512}, {300, -40}} {
		for _, d := range []uint{0, 1} {
			grids = append(grids, og{gs: newSynth(d, o[0], o[1]), id: int(d), G: float64(int(16) << d), base: o})
		}
	}
	rd := newReal("NetherlandsRDNewQuad", 16, true)
	blRD, _, _ := rd.tms.MatrixBoundingBox(0)
	grids = append(grids, og{gs: rd, id: 5, G: 16, base: [2]float64{blRD[0], blRD[1]}}, og{gs: rd, id: 10, G: 16, base: [2]float64{blRD[0], blRD[1]}})
	n := e.n(4000, 200000)
	for it := 0; it < n; it++ {
		o := grids[e.rng.Intn(len(grids))]
		g := o.gs.gridFor(o.id)
		w := window{gs: o.gs, baseX: o.base[0], baseY: o.base[1], G: o.G, maxID: o.id, minID: o.id}
		c := genCase(e.rng, w, true, 12)
		if c == nil {
			continue
		}
		c.cfg.IgnoreOutsideGrid = e.rng.Intn(2) == 0
		// move one vertex outside, in integer units, then derive the float that quantises to it
		size := int64(1) << g.depth
		maxX, maxY := g.minX+size*g.res, g.minY+size*g.res
		delta := []int64{1, 2, g.res - 1, g.res, g.res + 1, 1 + e.rng.Int63n(3*g.res)}[e.rng.Intn(6)]
		ri, vi := e.rng.Intn(len(c.rings)), 0
		vi = e.rng.Intn(len(c.rings[ri]))
		p := c.rings[ri][vi]
		side := e.rng.Intn(8)
		switch side {
		case 0:
			p.x = g.minX - delta
		case 1:
			p.y = g.minY - delta
		case 2:
			p.x = maxX + delta - 1 // delta=1: exactly on the exclusive right border
		case 3:
			p.y = maxY + delta - 1
		case 4:
			p.x, p.y = g.minX-delta, g.minY-delta
		case 5:
			p.x, p.y = maxX+delta-1, maxY+delta-1
		case 6:
			p.x, p.y = g.minX-delta, maxY+delta-1
		default:
			p.x, p.y = maxX+delta-1, g.minY-delta
		}
		poly := make(geom.Polygon, len(c.poly))
		for i := range c.poly {
			poly[i] = append([][2]float64{}, c.poly[i]...)
		}
		whole := e.rng.Intn(4) == 0
		if whole {
			// the whole polygon outside: translate it so that its nearest vertex is `delta` beyond the chosen side(s)
			bx0, by0, bx1, by1 := c.rings[0][0].x, c.rings[0][0].y, c.rings[0][0].x, c.rings[0][0].y
			for _, rg := range c.rings {
				for _, v := range rg {
					bx0, by0, bx1, by1 = min(bx0, v.x), min(by0, v.y), max(bx1, v.x), max(by1, v.y)
				}
			}
			var dx, dy int64
			switch side {
			case 0:
				dx = g.minX - delta - bx1
			case 1:
				dy = g.minY - delta - by1
			case 2:
				dx = maxX + delta - 1 - bx0
			case 3:
				dy = maxY + delta - 1 - by0
			case 4:
				dx, dy = g.minX-delta-bx1, g.minY-delta-by1
			case 5:
				dx, dy = maxX+delta-1-bx0, maxY+delta-1-by0
			case 6:
				dx, dy = g.minX-delta-bx1, maxY+delta-1-by0
			default:
				dx, dy = maxX+delta-1-bx0, g.minY-delta-by1
			}
			okq := true
			for i, rg := range c.rings {
				for j, v := range rg {
					f := [2]float64{floatFor(v.x + dx), floatFor(v.y + dy)}
					if q := intgeom.FromGeomPoint(f); q[0] != v.x+dx || q[1] != v.y+dy {
						okq = false
					}
					poly[i][j] = f
				}
			}
			if !okq {
				r.Dist["c09:skipped(no float quantises to the wanted integer)"]++
				continue
			}
			p = ipt{c.rings[0][0].x + dx, c.rings[0][0].y + dy}
			r.Dist["c09:whole-polygon-outside"]++
		} else {
			f := [2]float64{floatFor(p.x), floatFor(p.y)}
			q := intgeom.FromGeomPoint(f)
			if q[0] != p.x || q[1] != p.y {
				r.Dist["c09:skipped(no float quantises to the wanted integer)"]++
				continue
			}
			poly[ri][vi] = f
		}
		c.setPoly(poly)
		c.tag = "outside"
		sr := c.runImpl()
		op := c.op()
		r.count("snap-outside", op, delta < g.res || ((side == 2 || side == 3 || side == 5) && delta == 1))
		r.Dist[fmt.Sprintf("c09:side=%d", side)]++
		if delta < g.res {
			r.Dist["c09:less-than-one-pixel-outside"]++
		}
		e.pending = append(e.pending, pendingOp{"snap-outside", op, sr.String()})
		want := "panic outside-grid"
		if c.cfg.IgnoreOutsideGrid {
			want = "ok "
		}
		if got := sr.String(); got != want {
			e.snapViolation("outside-grid-rejected", c, sr, fmt.Sprintf("vertex (%d,%d) is outside the extent [%d,%d)x[%d,%d) by %d unit(s) (side %d); expected %q", p.x, p.y, g.minX, maxX, g.minY, maxY, delta, side, want), "")
		}
		if len(e.pending) > 512 {
			e.flush()
		}
	}
	e.flush()
	// the extent is the tile matrix set's own (its bounding box), not the integer grid the index derives from it: on every accepted built-in
	// set a vertex on the (exclusive) right/top border, a hair (1e-9, i.e. ten integer units, or four ulp), a millimetre and 17 fractions of a pixel beyond the borders, and far away (beyond what fits an int64
	// of 1e-10 units, and infinite) must be rejected — both values of the flag
	// … and then the same sets moved by a quarter of their width (same id, same sizes, another origin), as a caller may build them: what an
	// earlier set left behind must not decide where this one ends
	names := acceptedBuiltins()
	for _, b := range []string{"NetherlandsRDNewQuad", "WebMercatorQuad"} {
		if t, err := loadSet(b + "+moved"); err == nil && pointindex.IsQuadTree(t) == nil {
			names = append(names, b+"+moved")
		}
	}
	for _, name := range names {
		gs := newReal(name, 0, false)
		gs.levelDiff = uint(math.Log2(float64(gs.tms.TileMatrices[0].TileWidth))) + 4
		top := 0
		for id := range gs.tms.TileMatrices {
			if id > top && uint(id)+gs.levelDiff <= 32 {
				top = id
			}
		}
		bl, tr, err := gs.tms.MatrixBoundingBox(0)
		if err != nil {
			continue
		}
		for _, id := range []int{0, top / 2, top} {
			pix := gs.tms.TileMatrices[id].CellSize / 16
			ax, ay := tr[0]-10*pix, tr[1]-10*pix // a triangle in the top right corner of the extent, one vertex replaced
			if float64(uint64(1)<<(uint(id)+gs.levelDiff)) < 24 {
				ax, ay = bl[0]+pix/2, bl[1]+pix/2
			}
			bad := [][2]float64{{tr[0], ay + 3*pix}, {tr[0] + math.Max(1e-9, 4*(math.Nextafter(math.Abs(tr[0]), math.Inf(1))-math.Abs(tr[0]))), ay + 3*pix}, {tr[0] + 0.001, ay + 3*pix}, {ax + 3*pix, tr[1]}, {ax + 3*pix, tr[1] + 0.001},
				{bl[0] - 0.001, ay}, {bl[0] - math.Max(1e-9, 4*(math.Nextafter(math.Abs(bl[0]), math.Inf(1))-math.Abs(bl[0]))), ay}, {ax, bl[1] - 0.001}, {tr[0], tr[1]},
				{9.3e8, ay}, {-9.3e8, ay}, {ax, 1e12}, {math.Inf(1), ay}, {ax, math.Inf(-1)}}
			// less than a pixel beyond the left and the bottom border, at many distances (the quotient of the address rounds towards the grid there)
			for _, f := range []float64{1e-7, 1e-6, 1e-5, 1e-4, 0.001, 0.01, 0.03, 0.1, 0.2, 0.3, 0.4, 0.5, 0.6, 0.7, 0.8, 0.9, 0.99} {
				bad = append(bad, [2]float64{bl[0] - f*pix, ay}, [2]float64{ax, bl[1] - f*pix})
			}
			// … and with the vertex before it inside the grid in the very border pixel it would fall into if the quotient were truncated (same row and
			// column 0, same column and row 0): nothing about the neighbour may save the outside vertex from being looked at
			type probe struct {
				tri geom.Polygon
				b   [2]float64
			}
			var probes []probe
			for _, b := range bad {
				probes = append(probes, probe{geom.Polygon{{{ax, ay}, {ax + 5*pix, ay}, b}}, b})
			}
			if float64(uint64(1)<<(uint(id)+gs.levelDiff)) >= 24 {
				ry, cx := bl[1]+10*pix, bl[0]+10*pix
				for _, f := range []float64{1e-6, 0.01, 0.3, 0.5, 0.9} {
					bL, bB := [2]float64{bl[0] - f*pix, ry + 0.6*pix}, [2]float64{cx + 0.6*pix, bl[1] - f*pix}
					probes = append(probes, probe{geom.Polygon{{{bl[0] + 0.5*pix, ry + 0.3*pix}, bL, {bl[0] + 3*pix, ry + 5*pix}}}, bL},
						probe{geom.Polygon{{{cx + 0.3*pix, bl[1] + 0.5*pix}, bB, {cx + 5*pix, bl[1] + 3*pix}}}, bB})
				}
			}
			for bi, pr := range probes {
				_ = pr.b
				for _, iog := range []bool{false, true} {
					c := &snapCase{gs: gs, tmids: []int{id}, tag: "outside-the-extent-of-the-set"}
					c.cfg.IgnoreOutsideGrid = iog
					c.setPoly(pr.tri)
					sr := c.runImpl()
					r.count("snap-outside-extent", fmt.Sprintf("%s id %d vertex %d iog=%v", name, id, bi, iog), true)
					want := "panic outside-grid"
					if iog {
						want = "ok "
					}
					if got := sr.String(); got != want {
						r.violation(Violation{Oracle: "outside-grid-rejected", Op: fmt.Sprintf("%s id %d, triangle %v, ignore-outside-grid=%v", name, id, pr.tri[0], iog),
							Impl: clip(got, 300), Detail: fmt.Sprintf("the last vertex is outside the half-open extent [%v,%v) x [%v,%v) of the tile matrix set; expected %q", bl[0], tr[0], bl[1], tr[1], want)})
					}
				}
			}
		}
	}
	// addr: InsertPoint against the model; here also grids whose addresses exceed what a float64 quotient resolves (WebMercatorQuad 18 and 20,
	// EuropeanETRS89_LAEAQuad 15: offsets up to 4e17 units)
	wmA, laeaA := newReal("WebMercatorQuad", 20, false), newReal("EuropeanETRS89_LAEAQuad", 15, false)
	grids = append(grids, og{gs: wmA, id: 18}, og{gs: wmA, id: 20}, og{gs: laeaA, id: 15})
	for it := 0; it < e.n(20000, 400000); it++ {
		o := grids[e.rng.Intn(len(grids))]
		g := o.gs.gridFor(o.id)
		size := int64(1) << g.depth
		pick := func(min int64) int64 {
			switch e.rng.Intn(6) {
			case 0:
				return min - 1 - e.rng.Int63n(2*g.res)
			case 1:
				return min + size*g.res - 1 + e.rng.Int63n(2*g.res)
			case 2:
				return min + e.rng.Int63n(size)*g.res
			case 3: // a few units below a pixel edge, anywhere in the grid (far from the origin a float quotient rounds such a point up)
				return min + (1+e.rng.Int63n(size-1))*g.res - 1 - e.rng.Int63n(64)
			}
			return min + e.rng.Int63n(size*g.res)
		}
		p := ipt{pick(g.minX), pick(g.minY)}
		f := geom.Point{floatFor(p.x), floatFor(p.y)}
		if q := intgeom.FromGeomPoint(f); q[0] != p.x || q[1] != p.y {
			continue
		}
		ix, _ := pointindex.FromTileMatrixSet(o.gs.tms, o.id)
		impl := "outside"
		if err := ix.InsertPoint(f); err == nil {
			hot := ix.XHot(g.depth)
			impl = fmt.Sprintf("%d %d", hot[0][0], hot[0][1])
		}
		op := fmt.Sprintf("addr %s %d %d", g, p.x, p.y)
		wx, wy, inside := g.addr(p)
		if inside && impl != "outside" && impl != fmt.Sprintf("%d %d", wx, wy) {
			r.violation(Violation{Oracle: "address-is-the-pixel-that-contains-the-vertex", Op: op, Impl: impl, Detail: fmt.Sprintf("point (%d,%d) lies in pixel (%d,%d) of the deepest level (floor of the exact quotient)", p.x, p.y, wx, wy)})
		}
		r.count("addr", op, !inside || (p.x-g.minX)%g.res == 0 || (p.y-g.minY)%g.res == 0)
		if (impl == "outside") == inside {
			r.violation(Violation{Oracle: "accepted-iff-inside-half-open-extent", Op: op, Impl: impl, Detail: fmt.Sprintf("point (%d,%d), extent [%d,%d)x[%d,%d)", p.x, p.y, g.minX, g.minX+size*g.res, g.minY, g.minY+size*g.res)})
		}
		e.pending = append(e.pending, pendingOp{"addr", op, impl})
		if len(e.pending) > 4096 {
			e.flush()
		}
	}
	e.flush()
}

// floatFor: a float64 that FromGeomOrd maps to the integer o (or near it; the caller checks)
func floatFor(o int64) float64 {
	f := float64(o) / 1e10
	for k := 0; k < 4; k++ {
		got := intgeom.FromGeomOrd(f)
		if got == o {
			return f
		}
		if got < o {
			f = math.Nextafter(f, math.Inf(1))
		} else {
			f = math.Nextafter(f, math.Inf(-1))
		}
	}
	return f
}

var _ = sort.Ints
