// vh: the verification harness. Runs the real PDOK/texel code (build tag verif) in-process on generated
// operations, sends the same operation lines to the Lean model driver (texeldrv), compares the answers
// (correspondence) and evaluates the executable property oracles on the implementation's outputs.
//
//	vh <property> -tier quick|thorough -seed N -driver <texeldrv> -out <result.json> [-replay <file>]
package main

import (
	"encoding/json"
	"flag"
	"fmt"
	"io"
	"log"
	"math/rand"
	"os"
	"sort"
	"sync/atomic"
	"time"
)

type Diff struct {
	Stream string `json:"stream"`
	Op     string `json:"op"`
	Impl   string `json:"impl"`
	Model  string `json:"model"`
	Note   string `json:"note,omitempty"`
}

type Violation struct {
	Oracle string `json:"oracle"` // which part of the property failed
	Op     string `json:"op"`     // the operation line (replayable)
	Impl   string `json:"impl"`   // what the implementation returned
	Detail string `json:"detail"` // the concrete witness inside the output
	Known  string `json:"known,omitempty"`
}

type StreamStat struct {
	Ops        int  `json:"ops"`
	Diffs      int  `json:"diffs"`
	Exhaustive bool `json:"exhaustive,omitempty"`
}

type Result struct {
	Property   string                 `json:"property"`
	Tier       string                 `json:"tier"`
	Seed       int64                  `json:"seed"`
	Evals      int                    `json:"evaluations"`
	Nontrivial int                    `json:"distinct_nontrivial"`
	Rule       string                 `json:"rule"`
	Samples    []string               `json:"samples"`
	Exhaustive bool                   `json:"exhaustive"`
	Streams    map[string]*StreamStat `json:"streams"`
	Diffs      []Diff                 `json:"diffs"`
	Violations []Violation            `json:"violations"`
	Known      []Violation            `json:"known"`
	Dist       map[string]int         `json:"distribution"`
	Notes      []string               `json:"notes"`
	WallS      float64                `json:"wall_s"`

	seen map[string]struct{}
}

func newResult(prop, tier string, seed int64) *Result {
	return &Result{Property: prop, Tier: tier, Seed: seed, Streams: map[string]*StreamStat{}, Dist: map[string]int{},
		seen: map[string]struct{}{}, Samples: []string{}, Diffs: []Diff{}, Violations: []Violation{}, Known: []Violation{}, Notes: []string{}}
}

func (r *Result) stream(name string) *StreamStat {
	s, ok := r.Streams[name]
	if !ok {
		s = &StreamStat{}
		r.Streams[name] = s
	}
	return s
}

// count registers one evaluated case; nontrivial cases are counted once per distinct op text
func (r *Result) count(stream, op string, nontrivial bool) {
	r.Evals++
	r.stream(stream).Ops++
	if nontrivial {
		if _, dup := r.seen[op]; !dup {
			r.seen[op] = struct{}{}
			r.Nontrivial++
		}
	}
	if len(r.Samples) < 6 && nontrivial && (r.Evals%97 == 1 || len(r.Samples) == 0) {
		r.sample(op)
	}
}

func (r *Result) sample(op string) {
	if len(op) > 600 {
		op = op[:600] + " …"
	}
	r.Samples = append(r.Samples, op)
}

func (r *Result) diff(d Diff) {
	r.stream(d.Stream).Diffs++
	if len(r.Diffs) < 20 {
		r.Diffs = append(r.Diffs, d)
	}
}

func (r *Result) violation(v Violation) {
	if v.Known != "" {
		if len(r.Known) < 50 {
			r.Known = append(r.Known, v)
		}
		r.Dist["known:"+v.Known]++
		return
	}
	r.Dist["violation:"+v.Oracle]++
	if len(r.Violations) < 20 {
		r.Violations = append(r.Violations, v)
	}
}

type env struct {
	tier   string
	seed   int64
	rng    *rand.Rand
	drv    *Driver
	res    *Result
	replay string
	scale  float64 // multiplies case counts (VERIF_SCALE), default 1

	pending []pendingOp

	corpusDone bool
}

func (e *env) n(quick, thorough int) int {
	n := quick
	if e.tier == "thorough" {
		n = thorough
	}
	return int(float64(n) * e.scale)
}

var checks = map[string]func(*env){}

// markFile receives a description of the case that is about to run against the real code: when the implementation kills the whole process
// (log.Fatal, os.Exit, a fatal runtime error, a stack overflow) no recover() can report it; bin/check then reads this file and reports the
// case as the failing input
var markFile string

func mark(desc string) {
	if markFile != "" {
		_ = os.WriteFile(markFile, []byte(desc), 0o644)
	}
	markedDesc.Store(desc)
	markedAt.Store(time.Now().UnixNano())
}

// unmark: the call into the real code has returned; whatever kills the process from here on is the harness's own doing
func unmark() {
	markedAt.Store(0)
	if markFile != "" {
		_ = os.Remove(markFile)
	}
}

var (
	markedAt   atomic.Int64 // when the marked case was handed to the real code; 0: nothing is running there
	markedDesc atomic.Value
)

// watchdog: a call into the real code that does not come back within the limit (a deadlock, an endless loop) would stall the whole check;
// the marker is completed with what happened and the process ends, bin/check reports the marked case as the failing input
func watchdog(limit time.Duration) {
	go func() {
		for {
			time.Sleep(time.Second)
			t := markedAt.Load()
			if t == 0 || time.Since(time.Unix(0, t)) < limit {
				continue
			}
			desc, _ := markedDesc.Load().(string)
			msg := desc + " | did not return within " + limit.String() + " (harness watchdog)"
			if markFile != "" {
				_ = os.WriteFile(markFile, []byte(msg), 0o644)
			}
			fmt.Fprintln(os.Stderr, "watchdog: "+msg)
			os.Exit(3)
		}
	}()
}

func main() {
	if len(os.Args) < 2 {
		fmt.Fprintln(os.Stderr, "usage: vh <property> [flags]")
		os.Exit(2)
	}
	prop := os.Args[1]
	fs := flag.NewFlagSet("vh", flag.ExitOnError)
	tier := fs.String("tier", "quick", "")
	seed := fs.Int64("seed", 1, "")
	driver := fs.String("driver", "", "path of texeldrv")
	out := fs.String("out", "", "result json")
	replay := fs.String("replay", "", "replay file (op lines)")
	scale := fs.Float64("scale", 1, "")
	_ = fs.Parse(os.Args[2:])
	f, ok := checks[prop]
	if !ok {
		ids := []string{}
		for k := range checks {
			ids = append(ids, k)
		}
		sort.Strings(ids)
		fmt.Fprintf(os.Stderr, "unknown property %q; have %v\n", prop, ids)
		os.Exit(2)
	}
	log.SetOutput(io.Discard) // the code under test logs warnings per polygon
	if *out != "" {
		markFile = *out + ".current"
		limit := 90 * time.Second
		if *tier == "thorough" {
			limit = 10 * time.Minute
		}
		watchdog(limit)
		_ = os.Remove(markFile)
	}
	start := time.Now()
	e := &env{tier: *tier, seed: *seed, rng: rand.New(rand.NewSource(*seed)), res: newResult(prop, *tier, *seed), replay: *replay, scale: *scale}
	if *driver != "" {
		d, err := startDriver(*driver)
		if err != nil {
			fmt.Fprintln(os.Stderr, "cannot start driver:", err)
			os.Exit(2)
		}
		e.drv = d
		defer d.Close()
	}
	f(e)
	e.res.WallS = time.Since(start).Seconds()
	if markFile != "" {
		_ = os.Remove(markFile)
	}
	b, _ := json.MarshalIndent(e.res, "", " ")
	if *out != "" {
		if err := os.WriteFile(*out, b, 0o644); err != nil {
			fmt.Fprintln(os.Stderr, err)
			os.Exit(2)
		}
	} else {
		fmt.Println(string(b))
	}
}
