package main

import (
	"fmt"
	"math"
	"strconv"
	"strings"

	"github.com/pdok/texel/intgeom"
	"github.com/pdok/texel/pointindex"
	"github.com/pdok/texel/tms20"
)

// grid mirrors the integer grid parameters of a PointIndex (read through the hook XGrid)
type grid struct {
	minX, minY, res int64
	depth           uint
}

func (g grid) span(l uint) int64 { return (int64(1) << (g.depth - l)) * g.res }
func (g grid) box(l uint, x, y int64) ibox {
	s := g.span(l)
	return ibox{g.minX + x*s, g.minY + y*s, g.minX + (x+1)*s, g.minY + (y+1)*s}
}
func (g grid) centre(l uint, k int64, min int64) int64 { s := g.span(l); return min + k*s + s/2 }
func (g grid) String() string                          { return fmt.Sprintf("%d %d %d %d", g.depth, g.minX, g.minY, g.res) }

func floorDiv(a, b int64) int64 {
	q := a / b
	if a%b != 0 && (a < 0) != (b < 0) {
		q--
	}
	return q
}

// addr: deepest address of an integer coordinate pair (floor), ok=false outside the grid
func (g grid) addr(p ipt) (x, y int64, ok bool) {
	x, y = floorDiv(p.x-g.minX, g.res), floorDiv(p.y-g.minY, g.res)
	size := int64(1) << g.depth
	return x, y, x >= 0 && y >= 0 && x < size && y < size
}

// canon maps a returned float ordinate to the pixel index whose centre it is, bit for bit
func (g grid) canon(l uint, v float64, min int64) (int64, bool) {
	s := g.span(l)
	o := intgeom.FromGeomOrd(v)
	k0 := floorDiv(o-min, s)
	for _, k := range []int64{k0, k0 - 1, k0 + 1} {
		if intgeom.ToGeomOrd(g.centre(l, k, min)) == v {
			return k, true
		}
	}
	return k0, false
}

func gridOf(ix *pointindex.PointIndex) grid {
	ext, res, depth, _ := ix.XGrid()
	return grid{ext.MinX(), ext.MinY(), res, depth}
}

// fakeCRS: an EPSG code with x,y axis order (28992), so that synthetic grids with a non-zero origin are not axis-swapped
type fakeCRS struct{}

func (fakeCRS) Description() string { return "" }
func (fakeCRS) Authority() string   { return "EPSG" }
func (fakeCRS) Version() string     { return "" }
func (fakeCRS) Code() string        { return "28992" }

// synthTMS: ids 0..deepest; level of id = id+4; pixel of id = cellSize(id)/16; root span = cellSize*2^deepest
func synthTMS(deepest uint, cellSize, ox, oy float64) tms20.TileMatrixSet {
	o := tms20.TwoDPoint([2]float64{ox, oy})
	t := tms20.TileMatrixSet{CRS: fakeCRS{}, OrderedAxes: []string{"X", "Y"}, TileMatrices: map[tms20.TMID]tms20.TileMatrix{}}
	for id := 0; id <= int(deepest); id++ {
		cs := cellSize * float64(uint(1)<<(deepest-uint(id)))
		t.TileMatrices[id] = tms20.TileMatrix{
			ID: strconv.Itoa(id), ScaleDenominator: cs / tms20.StandardizedRenderingPixelSize, CellSize: cs,
			CornerOfOrigin: tms20.BottomLeft, PointOfOrigin: &o, TileWidth: 1, TileHeight: 1, MatrixWidth: 1, MatrixHeight: 1,
		}
	}
	return t
}

func fmtQuads(qs [][2]int64) string {
	parts := make([]string, len(qs))
	for i, q := range qs {
		parts[i] = fmt.Sprintf("%d,%d", q[0], q[1])
	}
	return strings.Join(parts, " ")
}

var _ = math.Pi
