package main

import (
	"fmt"
	"math/bits"

	"github.com/pdok/texel/intgeom"
	"github.com/pdok/texel/morton"
	"github.com/pdok/texel/pointindex"
)

func init() { checks["C17"] = checkC17 }

// interleaveSpec is the specification: bit i of x goes to bit 2i, bit i of y to bit 2i+1
func interleaveSpec(x, y uint64) uint64 {
	var z uint64
	for i := 0; i < 32; i++ {
		z |= (x >> i & 1) << (2 * i)
		z |= (y >> i & 1) << (2*i + 1)
	}
	return z
}

func mustToZPanics(x, y uint) (panicked bool) {
	defer func() {
		if r := recover(); r != nil {
			panicked = true
		}
	}()
	_ = morton.MustToZ(x, y)
	return false
}

func checkC17(e *env) {
	r := e.res
	r.Rule = "tz: all one-bit and two-bit patterns of (x,y) over bits 0..35, boundary values around 2^32, random 32-bit, random 26..36-bit; " +
		"gqz: parents with one/two-bit and random 31-bit addresses; index-parents: indexes of depth 20, 31 and 32, one pixel inserted (quarters, centre lines, corners, random), every level must hold exactly its ancestor. Non-trivial = at least two set bits in (x,y) or not encodable; distinct by (x,y)."
	type pair struct{ x, y uint64 }
	var cases []pair
	var bitsXY []pair // single bits as (x,y)
	for i := 0; i < 36; i++ {
		bitsXY = append(bitsXY, pair{1 << i, 0}, pair{0, 1 << i})
	}
	cases = append(cases, pair{0, 0})
	cases = append(cases, bitsXY...)
	for i := range bitsXY {
		for j := i + 1; j < len(bitsXY); j++ {
			cases = append(cases, pair{bitsXY[i].x | bitsXY[j].x, bitsXY[i].y | bitsXY[j].y})
		}
	}
	for _, v := range []uint64{1<<32 - 1, 1 << 32, 1<<32 + 1, 1<<33 - 1, 1<<63 - 1, 1<<64 - 1, 0xAAAAAAAA, 0x55555555} {
		for _, w := range []uint64{0, 1, 1<<32 - 1, 1 << 32, 0xAAAAAAAA, 0x55555555, 1<<64 - 1} {
			cases = append(cases, pair{v, w}, pair{w, v})
		}
	}
	nRandom := e.n(20000, 2000000)
	for i := 0; i < nRandom; i++ {
		switch i % 4 {
		case 0, 1:
			cases = append(cases, pair{uint64(e.rng.Uint32()), uint64(e.rng.Uint32())})
		case 2:
			w := 26 + e.rng.Intn(11)
			cases = append(cases, pair{e.rng.Uint64() >> (64 - w), e.rng.Uint64() >> (64 - w)})
		default:
			cases = append(cases, pair{e.rng.Uint64() >> uint(e.rng.Intn(40)), uint64(e.rng.Uint32())})
		}
	}
	ops := make([]string, len(cases))
	for i, c := range cases {
		ops[i] = fmt.Sprintf("tz %d %d", c.x, c.y)
	}
	var models []string
	if e.drv != nil {
		models = e.drv.AskAll(ops)
	}
	keys := make(map[uint64]pair, len(cases))
	for i, c := range cases {
		z, ok := morton.ToZ(uint(c.x), uint(c.y))
		fx, fy := morton.FromZ(z)
		okI := 0
		if ok {
			okI = 1
		}
		impl := fmt.Sprintf("%d %d %d %d", z, okI, fx, fy)
		nontrivial := bits.OnesCount64(c.x)+bits.OnesCount64(c.y) >= 2 || !ok
		r.count("tz", ops[i], nontrivial)
		if !ok {
			r.Dist["tz:not-encodable"]++
		} else {
			r.Dist["tz:encodable"]++
		}
		if models != nil && impl != models[i] {
			r.diff(Diff{Stream: "tz", Op: ops[i], Impl: impl, Model: models[i]})
		}
		// the property itself, on the implementation's answers
		fits := c.x <= 0xFFFFFFFF && c.y <= 0xFFFFFFFF
		if ok != fits {
			r.violation(Violation{Oracle: "not-encodable-reported", Op: ops[i], Impl: impl, Detail: fmt.Sprintf("ok=%v but fits-in-32-bits=%v", ok, fits)})
		}
		if mustToZPanics(uint(c.x), uint(c.y)) == fits {
			r.violation(Violation{Oracle: "MustToZ-panics-iff-not-encodable", Op: ops[i], Impl: impl, Detail: fmt.Sprintf("fits=%v", fits)})
		}
		if fits {
			if want := interleaveSpec(c.x, c.y); uint64(z) != want {
				r.violation(Violation{Oracle: "key-is-bit-interleaving", Op: ops[i], Impl: impl, Detail: fmt.Sprintf("want z=%d", want)})
			}
			if uint64(fx) != c.x || uint64(fy) != c.y {
				r.violation(Violation{Oracle: "decode-returns-address", Op: ops[i], Impl: impl, Detail: fmt.Sprintf("FromZ(ToZ(%d,%d)) = (%d,%d)", c.x, c.y, fx, fy)})
			}
			pz, _ := morton.ToZ(uint(c.x>>1), uint(c.y>>1))
			if pz != z>>2 {
				r.violation(Violation{Oracle: "parent-key-is-key>>2", Op: ops[i], Impl: impl, Detail: fmt.Sprintf("ToZ(x>>1,y>>1)=%d, z>>2=%d", pz, z>>2)})
			}
			if prev, dup := keys[uint64(z)]; dup && prev != c {
				r.violation(Violation{Oracle: "keys-distinct", Op: ops[i], Impl: impl, Detail: fmt.Sprintf("(%d,%d) and (%d,%d) share key %d", prev.x, prev.y, c.x, c.y, z)})
			}
			keys[uint64(z)] = c
		}
	}
	// getQuadrantZs
	var gops []string
	var parents []pair
	for _, c := range cases {
		if c.x < 1<<31 && c.y < 1<<31 {
			parents = append(parents, c)
			if len(parents) >= e.n(8000, 400000) {
				break
			}
		}
	}
	for _, p := range parents {
		gops = append(gops, fmt.Sprintf("gqz %d", interleaveSpec(p.x, p.y)))
	}
	var gmodels []string
	if e.drv != nil {
		gmodels = e.drv.AskAll(gops)
	}
	for i, p := range parents {
		var zs [4]morton.Z
		panicked := func() (msg string) {
			defer func() {
				if rec := recover(); rec != nil {
					msg = fmt.Sprint(rec)
				}
			}()
			zs = pointindex.XGetQuadrantZs(morton.Z(interleaveSpec(p.x, p.y)))
			return ""
		}()
		if panicked != "" {
			r.count("gqz", gops[i], true)
			r.violation(Violation{Oracle: "children-keys", Op: gops[i], Impl: "panic", Detail: fmt.Sprintf("getQuadrantZs of the key of (%d,%d), both below 2^31, panics: %s", p.x, p.y, panicked)})
			continue
		}
		impl := fmt.Sprintf("%d %d %d %d", zs[0], zs[1], zs[2], zs[3])
		r.count("gqz", gops[i], bits.OnesCount64(p.x)+bits.OnesCount64(p.y) >= 2)
		if gmodels != nil && impl != gmodels[i] {
			r.diff(Diff{Stream: "gqz", Op: gops[i], Impl: impl, Model: gmodels[i]})
		}
		for q := 0; q < 4; q++ {
			want := interleaveSpec(2*p.x+uint64(q&1), 2*p.y+uint64(q>>1))
			if uint64(zs[q]) != want {
				r.violation(Violation{Oracle: "children-keys", Op: gops[i], Impl: impl, Detail: fmt.Sprintf("child %d of (%d,%d): want %d", q, p.x, p.y, want)})
			}
		}
	}
	above32(e, false)
	indexParents(e)
}

// indexParents: the point index files one vertex on every level under the key of its pixel there; the pixel of level l-1 is the parent of the
// pixel of level l (address halved, key without its two lowest bits). Checked on indexes of depth 20, 31 and exactly 32 (where the top bit of a
// 64-bit key is in use), in all four quarters of the extent and at its corners: every level must hold exactly the pixel (x >> (depth-l), y >> (depth-l)).
func indexParents(e *env) {
	r := e.res
	for _, depth := range []uint{20, 31, 32} {
		size := uint64(1) << depth
		var pts [][2]uint64
		for _, fx := range []uint64{0, size/4 + 3, size/2 - 1, size / 2, size/2 + size/4 + 5, size - 1} {
			for _, fy := range []uint64{0, size/4 + 7, size/2 - 1, size / 2, size/2 + size/4 + 1, size - 1} {
				pts = append(pts, [2]uint64{fx, fy})
			}
		}
		for i := 0; i < e.n(40, 2000); i++ {
			pts = append(pts, [2]uint64{e.rng.Uint64() % size, e.rng.Uint64() % size})
		}
		for _, p := range pts {
			op := fmt.Sprintf("index of depth %d: insert the pixel (%d, %d), then read every level", depth, p[0], p[1])
			r.count("index-parents", op, true)
			verdict := func() (v string) {
				defer func() {
					if rec := recover(); rec != nil {
						v = "panic " + fmt.Sprint(rec)
					}
				}()
				ix := pointindex.XNew(intgeom.Extent{0, 0, int64(size), int64(size)}, depth) // one unit per deepest pixel
				if err := ix.InsertCoord(int(p[0]), int(p[1])); err != nil {
					return "refused: " + err.Error()
				}
				for l := uint(0); l <= depth; l++ {
					hot := ix.XHot(l)
					wx, wy := p[0]>>(depth-l), p[1]>>(depth-l)
					if len(hot) != 1 || uint64(hot[0][0]) != wx || uint64(hot[0][1]) != wy {
						return fmt.Sprintf("level %d holds %v, expected the one pixel (%d, %d)", l, hot, wx, wy)
					}
				}
				return "ok"
			}()
			if verdict != "ok" {
				r.violation(Violation{Oracle: "parent-key-is-the-key-without-its-two-lowest-bits", Op: op, Impl: verdict,
					Detail: "a vertex must be filed on every level under the pixel that contains it; the pixel one level up is the parent of the pixel below"})
			}
		}
	}
}
