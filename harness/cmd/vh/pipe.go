package main

import (
	"fmt"
	"os"
	"path/filepath"
	"runtime"
	"sort"
	"strings"
	"sync"
	"sync/atomic"
	"time"

	"github.com/go-spatial/geom"
	"github.com/go-spatial/geom/encoding/gpkg"
	"github.com/pdok/texel/processing"
	tgpkg "github.com/pdok/texel/processing/gpkg"
	"github.com/pdok/texel/tms20"
)

func init() {
	checks["C10"] = func(e *env) { checkPipe(e, "C10") }
	checks["C11"] = func(e *env) { checkPipe(e, "C11") }
}

// ---- fakes around the real processing.ProcessFeatures

type fakeFeature struct {
	cols []interface{}
	g    geom.Geometry
}

func (f *fakeFeature) Columns() []interface{}  { return f.cols }
func (f *fakeFeature) Geometry() geom.Geometry { return f.g }

type fakeSource struct {
	feats []*fakeFeature
	delay func(i int)
}

func (s *fakeSource) ReadFeatures(ch chan<- processing.Feature) {
	for i, f := range s.feats {
		if s.delay != nil {
			s.delay(i)
		}
		ch <- f
	}
	close(ch)
}

type arrival struct {
	fid  int64
	geom string
	cols string
}

type fakeTarget struct {
	tm       int
	delay    func(n int)
	got      []arrival
	done     atomic.Bool
	doneAt   atomic.Int64
	finalDur time.Duration
	clock    *atomic.Int64
}

func geomSummary(g geom.Geometry) string {
	switch t := g.(type) {
	case geom.Polygon:
		return fmt.Sprintf("P%v", t[0][0])
	case geom.MultiPolygon:
		parts := make([]string, len(t))
		for i, p := range t {
			parts[i] = fmt.Sprint(p[0][0])
		}
		return "M" + strings.Join(parts, "")
	case geom.Point:
		return fmt.Sprintf("pt%v", [2]float64(t))
	case geom.LineString:
		return fmt.Sprintf("ls%v", t[0])
	case geom.MultiPoint:
		return fmt.Sprintf("mp%d", len(t))
	default:
		return fmt.Sprintf("%T", g)
	}
}

func (t *fakeTarget) WriteFeatures(ch <-chan processing.Feature) {
	n := 0
	for f := range ch {
		if t.delay != nil {
			t.delay(n)
		}
		n++
		t.got = append(t.got, arrival{fid: f.Columns()[0].(int64), geom: geomSummary(f.Geometry()), cols: fmt.Sprint(f.Columns())})
	}
	if t.finalDur > 0 {
		time.Sleep(t.finalDur) // the last page is written after the channel is closed
	}
	t.doneAt.Store(t.clock.Add(1))
	t.done.Store(true)
}

type pipeCase struct {
	targets []int
	kinds   []int           // per feature: 0 polygon, 1 multipolygon, 2 point, 3 line, 4 empty multipoint
	outcome [][]map[int]int // per feature, per part: tile matrix id -> number of polygons (absent = dropped)
	procs   int
	speeds  map[int]int // per target: microseconds per feature
	srcUS   int
	snapUS  int
	finalUS int
}

func (c *pipeCase) deliver(f int) []int {
	if c.kinds[f] >= 2 {
		return c.targets
	}
	set := map[int]bool{}
	for _, part := range c.outcome[f] {
		for tm, n := range part {
			if n > 0 {
				set[tm] = true
			}
		}
	}
	var ids []int
	for tm := range set {
		ids = append(ids, tm)
	}
	sort.Ints(ids)
	return ids
}

func (c *pipeCase) op(kind string) string {
	var sb strings.Builder
	fmt.Fprintf(&sb, "%s %d", kind, len(c.targets))
	for _, t := range c.targets {
		fmt.Fprintf(&sb, " %d", t)
	}
	fmt.Fprintf(&sb, " %d", len(c.kinds))
	for f := range c.kinds {
		d := c.deliver(f)
		fmt.Fprintf(&sb, " %d", len(d))
		for _, t := range d {
			fmt.Fprintf(&sb, " %d", t)
		}
	}
	return sb.String()
}

// expectedGeom: what target tm must see for feature f
func (c *pipeCase) expectedGeom(f, tm int) string {
	sq := func(part, k int) [2]float64 { return [2]float64{float64(f), float64(part*1000 + tm*10 + k)} }
	switch c.kinds[f] {
	case 0:
		n := c.outcome[f][0][tm]
		if n == 1 {
			return fmt.Sprintf("P%v", sq(0, 0))
		}
		s := "M"
		for k := 0; k < n; k++ {
			s += fmt.Sprint(sq(0, k))
		}
		return s
	case 1:
		s := "M"
		for part := range c.outcome[f] {
			for k := 0; k < c.outcome[f][part][tm]; k++ {
				s += fmt.Sprint(sq(part, k))
			}
		}
		return s
	case 2:
		return fmt.Sprintf("pt%v", [2]float64{float64(f), 0.5})
	case 3:
		return fmt.Sprintf("ls%v", [2]float64{float64(f), 0.25})
	}
	return "mp0"
}

type pipeOutcome struct {
	hang        bool
	panicMsg    string
	got         map[int][]arrival
	earlyReturn []int // targets that were not done when ProcessFeatures returned
	leaked      int
}

func (c *pipeCase) run() pipeOutcome {
	old := runtime.GOMAXPROCS(c.procs)
	defer runtime.GOMAXPROCS(old)
	feats := make([]*fakeFeature, len(c.kinds))
	for f, k := range c.kinds {
		cols := make([]interface{}, 0, 4) // cap > len: the spare slot all wrappers of one feature share
		cols = append(cols, int64(f), fmt.Sprintf("name-%d", f), float64(f)/2)
		var g geom.Geometry
		switch k {
		case 0:
			g = geom.Polygon{{{float64(f), 0}, {float64(f) + 1, 0}, {float64(f), 1}}}
		case 1:
			mp := geom.MultiPolygon{}
			for part := range c.outcome[f] {
				mp = append(mp, geom.Polygon{{{float64(f), float64(part)}, {float64(f) + 1, 0}, {float64(f), 1}}})
			}
			g = mp
		case 2:
			g = geom.Point{float64(f), 0.5}
		case 3:
			g = geom.LineString{{float64(f), 0.25}, {1, 1}}
		default:
			g = geom.MultiPoint{}
		}
		feats[f] = &fakeFeature{cols: cols, g: g}
	}
	var clock atomic.Int64
	us := func(n int) {
		if n > 0 {
			time.Sleep(time.Duration(n) * time.Microsecond)
		}
	}
	src := &fakeSource{feats: feats, delay: func(int) { us(c.srcUS) }}
	targets := map[int]processing.Target{}
	fts := map[int]*fakeTarget{}
	for _, tm := range c.targets {
		sp := c.speeds[tm]
		ft := &fakeTarget{tm: tm, clock: &clock, delay: func(int) { us(sp) }, finalDur: time.Duration(c.finalUS) * time.Microsecond}
		fts[tm] = ft
		targets[tm] = ft
	}
	f := func(p geom.Polygon, tmIDs []tms20.TMID) map[tms20.TMID][]geom.Polygon {
		us(c.snapUS)
		fid, part := int(p[0][0][0]), int(p[0][0][1])
		res := map[tms20.TMID][]geom.Polygon{}
		for tm, n := range c.outcome[fid][part] {
			for k := 0; k < n; k++ {
				res[tm] = append(res[tm], geom.Polygon{{{float64(fid), float64(part*1000 + tm*10 + k)}, {1, 0}, {0, 1}}})
			}
		}
		return res
	}
	mark(c.op("pipe"))
	before := runtime.NumGoroutine()
	var out pipeOutcome
	doneCh := make(chan struct{})
	var retAt int64
	go func() {
		defer func() {
			if r := recover(); r != nil {
				out.panicMsg = fmt.Sprint(r)
			}
			close(doneCh)
		}()
		processing.ProcessFeatures(src, targets, f)
		unmark()
		retAt = clock.Add(1)
	}()
	select {
	case <-doneCh:
	case <-time.After(20 * time.Second):
		unmark() // reported as a hang by the caller
		out.hang = true
		return out
	}
	for tm, ft := range fts {
		if !ft.done.Load() || ft.doneAt.Load() > retAt {
			out.earlyReturn = append(out.earlyReturn, tm)
		}
	}
	// let late goroutines (if any) finish before reading their slices
	deadline := time.Now().Add(2 * time.Second)
	for time.Now().Before(deadline) {
		all := true
		for _, ft := range fts {
			if !ft.done.Load() {
				all = false
			}
		}
		if all && runtime.NumGoroutine() <= before {
			break
		}
		time.Sleep(200 * time.Microsecond)
	}
	out.leaked = runtime.NumGoroutine() - before
	out.got = map[int][]arrival{}
	for tm, ft := range fts {
		if ft.done.Load() {
			out.got[tm] = ft.got
		}
	}
	return out
}

func checkPipe(e *env, prop string) {
	r := e.res
	r.Rule = "the real processing.ProcessFeatures with a fake source, a fake snapping function and N = 1..5 fake targets: streams of 0..200 features (polygons, multipolygons of 1-3 parts, points, lines, empty multipoints), " +
		"per (feature, part, tile matrix) outcome dropped / one polygon / two or three polygons, relative speeds of source, snapping and each target varied (the slowest target often gets the last feature; a slow final flush), GOMAXPROCS 1..16. " +
		"Compared with the model: per target the expected feature sequence (op pipe) and a random complete schedule of the state machine (op piperun). Oracles: exact sequence, geometry and attribute values per target, " +
		"return only after every target finished, no goroutine left, no hang. Stream gpkg-pipe: real SourceGeopackage and 4-6 real TargetGeopackages on SQLite with 5 attribute columns incl. DATETIME with milliseconds and DATE (the shared spare slots of finding F6), thousands of features; geometry and attribute values of every row are read back. Non-trivial = at least 2 targets and a mixed stream with some dropped and some split outcome; distinct by op text + speeds."
	var wgNote sync.Once
	n := e.n(700, 60000)
	for it := 0; it < n; it++ {
		c := &pipeCase{procs: []int{1, 2, 4, 16}[e.rng.Intn(4)], speeds: map[int]int{}}
		nt := 1 + e.rng.Intn(5)
		ids := e.rng.Perm(12)[:nt]
		c.targets = append(c.targets, ids...)
		nf := []int{0, 1, 2, 5, 20, 60, 200}[e.rng.Intn(7)]
		if e.rng.Intn(3) == 0 {
			nf = e.rng.Intn(40)
		}
		mixedDrop, mixedSplit := false, false
		for f := 0; f < nf; f++ {
			k := []int{0, 0, 0, 1, 1, 2, 3, 4}[e.rng.Intn(8)]
			c.kinds = append(c.kinds, k)
			parts := 1
			if k == 1 {
				parts = 1 + e.rng.Intn(3)
			}
			var oc []map[int]int
			for p := 0; p < parts; p++ {
				m := map[int]int{}
				for _, tm := range c.targets {
					switch e.rng.Intn(6) {
					case 0:
						mixedDrop = true // dropped
					case 1:
						m[tm] = 2
						mixedSplit = true
					case 2:
						m[tm] = 3
						mixedSplit = true
					default:
						m[tm] = 1
					}
				}
				oc = append(oc, m)
			}
			if k >= 2 {
				oc = nil
			}
			c.outcome = append(c.outcome, oc)
		}
		speedClass := e.rng.Intn(5)
		for _, tm := range c.targets {
			switch speedClass {
			case 0: // all fast
			case 1:
				c.speeds[tm] = e.rng.Intn(50)
			case 2:
				if tm == c.targets[len(c.targets)-1] {
					c.speeds[tm] = 300 // one slow target
				}
			default:
				c.speeds[tm] = e.rng.Intn(200)
			}
		}
		if e.rng.Intn(3) == 0 {
			c.srcUS = e.rng.Intn(100)
		}
		if e.rng.Intn(3) == 0 {
			c.snapUS = e.rng.Intn(100)
		}
		if e.rng.Intn(2) == 0 {
			c.finalUS = 200 + e.rng.Intn(3000)
		}
		if prop == "C11" && it == 0 {
			// once per run: targets that need 11.5 seconds for their last page (a large page, a slow disk) — waiting for them has no deadline
			c.finalUS = 11500000
		}
		op := c.op("pipe")
		out := c.run()
		tag := fmt.Sprintf(" | procs=%d speeds=%v src=%dus snap=%dus final=%dus", c.procs, c.speeds, c.srcUS, c.snapUS, c.finalUS)
		r.count("pipe", op+tag, nt >= 2 && mixedDrop && mixedSplit)
		r.Dist[fmt.Sprintf("pipe:targets=%d", nt)]++
		r.Dist[fmt.Sprintf("pipe:gomaxprocs=%d", c.procs)]++
		if out.hang {
			r.violation(Violation{Oracle: "always-returns", Op: op + tag, Impl: "hang", Detail: "ProcessFeatures did not return within 20 s"})
			break // the stuck goroutines would disturb everything after
		}
		if out.panicMsg != "" {
			r.violation(Violation{Oracle: "no-panic", Op: op + tag, Impl: "panic", Detail: out.panicMsg})
			continue
		}
		if len(out.earlyReturn) > 0 {
			r.violation(Violation{Oracle: "returns-only-after-every-target-is-done", Op: op + tag, Impl: fmt.Sprintf("targets %v not finished at return", out.earlyReturn), Detail: "ProcessFeatures returned before WriteFeatures of these targets had returned"})
		}
		if out.leaked > 0 {
			r.violation(Violation{Oracle: "no-goroutine-left-behind", Op: op + tag, Impl: fmt.Sprintf("%d goroutine(s) more than before", out.leaked), Detail: "goroutine count did not return to the baseline within 2 s"})
		}
		// canonical text of what arrived, compared with the model's expected sequences
		var parts []string
		for _, tm := range c.targets {
			var fids []string
			for _, a := range out.got[tm] {
				fids = append(fids, fmt.Sprint(a.fid))
			}
			parts = append(parts, fmt.Sprintf("%d:[%s]", tm, strings.Join(fids, ",")))
		}
		impl := strings.Join(parts, " ")
		e.pending = append(e.pending, pendingOp{"pipe", op, impl})
		r.stream("piperun").Ops++
		e.pending = append(e.pending, pendingOp{"piperun", c.op(fmt.Sprintf("piperun %d", e.rng.Intn(1<<30))), "returned " + impl})
		// the oracle proper, independent of the model
		for _, tm := range c.targets {
			var want []int
			for f := range c.kinds {
				for _, d := range c.deliver(f) {
					if d == tm {
						want = append(want, f)
					}
				}
			}
			got := out.got[tm]
			if len(got) != len(want) {
				r.violation(Violation{Oracle: "each-feature-exactly-once-in-order", Op: op + tag, Impl: impl, Detail: fmt.Sprintf("target %d received %d features, expected %d", tm, len(got), len(want))})
				continue
			}
			for i, f := range want {
				if got[i].fid != int64(f) {
					r.violation(Violation{Oracle: "each-feature-exactly-once-in-order", Op: op + tag, Impl: impl, Detail: fmt.Sprintf("target %d position %d: feature %d, expected %d", tm, i, got[i].fid, f)})
					break
				}
				if wg := c.expectedGeom(f, tm); got[i].geom != wg {
					r.violation(Violation{Oracle: "geometry-of-that-tile-matrix-only", Op: op + tag, Impl: impl, Detail: fmt.Sprintf("target %d feature %d: geometry %s, expected %s", tm, f, got[i].geom, wg)})
					break
				}
				if wc := fmt.Sprint([]interface{}{int64(f), fmt.Sprintf("name-%d", f), float64(f) / 2}); got[i].cols != wc {
					r.violation(Violation{Oracle: "original-attribute-values", Op: op + tag, Impl: impl, Detail: fmt.Sprintf("target %d feature %d: columns %s, expected %s", tm, f, got[i].cols, wc)})
					break
				}
			}
		}
		if len(e.pending) > 256 {
			e.flush()
		}
	}
	e.flush()
	wgNote.Do(func() {})
	// real GeoPackage source and targets: an empty table, one feature, exactly one page and one more than a page (C10 and C11: it always returns)
	for _, nf := range []int{0, 1, 3, 4} {
		gpkgPipe(e, nf, 2+nf%2, 3)
	}
	if prop == "C10" {
		// real GeoPackage targets: several runs with a few thousand features; the thorough tier adds the 30 000 x 6 run
		for k := 0; k < e.n(3, 6); k++ {
			gpkgPipe(e, e.n(4000, 8000), 4+k%3, 1000)
		}
		if e.tier == "thorough" {
			gpkgPipe(e, 30000, 6, 1000)
		}
	}
}

// gpkgPipe: the real pipeline end to end below the snapping function: real SourceGeopackage -> processing.ProcessFeatures ->
// N real TargetGeopackages on SQLite, with a fake snapping function whose output names the tile matrix. Every row of every
// target must carry the geometry made for that target's tile matrix (finding F6 lived here: a spare slot of the columns slice shared by the targets).
func gpkgPipe(e *env, nfeat, ntargets, pagesize int) {
	r := e.res
	dir, err := os.MkdirTemp(scratchBase(), "vh-c10-")
	if err != nil {
		r.Notes = append(r.Notes, err.Error())
		return
	}
	defer os.RemoveAll(dir)
	t := randTable(e.rng, "polys", gpkg.Polygon, nfeat, 0)
	// key + four attributes = 5 columns: append() gives the columns slice capacity 8, spare slots (finding F6); a DATETIME with
	// milliseconds and a DATE among them: attribute values must arrive as they are
	t.cols = []colSpec{{"fid", "INTEGER"}, {"a0", "TEXT"}, {"a1", "REAL"}, {"a2", "DATETIME"}, {"a3", "DATE"}}
	t.gpos = 1
	t.srs = 28992
	for i := range t.rows {
		t.rows[i] = []interface{}{int64(i + 1), fmt.Sprintf("n%d", i), float64(i) / 4,
			time.Date(2001+i%20, time.Month(1+i%12), 1+i%28, i%24, i%60, (7*i)%60, (i%1000)*1000000, time.UTC), time.Date(1995+i%30, time.Month(1+i%12), 1+i%28, 0, 0, 0, 0, time.UTC)}
		t.geoms[i] = geom.Polygon{{{float64(i), 0}, {float64(i) + 1, 0}, {float64(i), 1}}}
	}
	src := filepath.Join(dir, "src.gpkg")
	if err := writeSource(src, []*tableSpec{t}); err != nil {
		r.Notes = append(r.Notes, "gpkg-pipe: "+err.Error())
		return
	}
	var source tgpkg.SourceGeopackage
	source.Init(src)
	tables := source.GetTableInfo()
	source.Table = tables[0]
	targets := map[int]processing.Target{}
	var tgs []*tgpkg.TargetGeopackage
	for tm := 0; tm < ntargets; tm++ {
		tg := &tgpkg.TargetGeopackage{}
		tg.Init(filepath.Join(dir, fmt.Sprintf("dst_%d.gpkg", tm)), pagesize)
		if err := tg.CreateTables(tables); err != nil {
			r.Notes = append(r.Notes, "gpkg-pipe: "+err.Error())
			return
		}
		tg.Table = tables[0]
		targets[tm] = tg
		tgs = append(tgs, tg)
	}
	f := func(p geom.Polygon, tmIDs []tms20.TMID) map[tms20.TMID][]geom.Polygon {
		res := map[tms20.TMID][]geom.Polygon{}
		for _, tm := range tmIDs {
			res[tm] = []geom.Polygon{{{{p[0][0][0], float64(1000 + tm)}, {1, 0}, {0, 1}}}}
		}
		return res
	}
	mark(fmt.Sprintf("gpkg-pipe: real SourceGeopackage (%d polygon features, 5 attribute columns) through ProcessFeatures into %d real TargetGeopackages, page size %d", nfeat, ntargets, pagesize))
	op := fmt.Sprintf("gpkg-pipe: %d features, 5 attribute columns incl. DATETIME and DATE (cap 8), %d real GeoPackage targets, page size %d", nfeat, ntargets, pagesize)
	returned := make(chan string, 1)
	go func() {
		defer func() {
			if rec := recover(); rec != nil {
				returned <- fmt.Sprint(rec)
			}
		}()
		processing.ProcessFeatures(source, targets, f)
		returned <- ""
	}()
	select {
	case p := <-returned:
		if p != "" {
			unmark()
			r.count("gpkg-pipe", op, true)
			r.violation(Violation{Oracle: "pipeline-returns", Op: op, Impl: "panic", Detail: p})
			return
		}
	case <-time.After(time.Duration(60+nfeat/100) * time.Second):
		unmark()
		r.count("gpkg-pipe", op, true)
		r.violation(Violation{Oracle: "pipeline-returns", Op: op, Impl: "ProcessFeatures has not returned", Detail: fmt.Sprintf("after %d seconds; the goroutines of the pipeline are left behind", 60+nfeat/100)})
		return
	}
	// the targets are closed as main.go closes them once ProcessFeatures has returned: a writer that is still at work then (the call returned
	// too early) runs into the closed handle and ends the process with log.Fatal — the marker stays until here, so that case is reported
	for _, tg := range tgs {
		tg.Close()
	}
	source.Close()
	time.Sleep(100 * time.Millisecond)
	unmark()
	r.count("gpkg-pipe", op, true)
	for tm := 0; tm < ntargets; tm++ {
		got, err := readBack(filepath.Join(dir, fmt.Sprintf("dst_%d.gpkg", tm)), "polys", t.gcol)
		if err != nil {
			r.violation(Violation{Oracle: "target-readable", Op: op, Detail: err.Error()})
			continue
		}
		if len(got.rows) != nfeat {
			r.violation(Violation{Oracle: "each-feature-exactly-once-in-order", Op: op, Detail: fmt.Sprintf("target %d has %d rows, expected %d", tm, len(got.rows), nfeat)})
			continue
		}
		wrong := 0
		first := ""
		for i, row := range got.rows {
			var want []string
			for _, v := range t.rows[i] {
				want = append(want, printVal(v))
			}
			if strings.Join(row.attrs, "|") != strings.Join(want, "|") {
				r.violation(Violation{Oracle: "original-attribute-values", Op: op, Impl: fmt.Sprintf("target %d row %d: %v", tm, i, row.attrs), Detail: fmt.Sprintf("expected %v", want)})
				break
			}
			pg, ok := row.g.(geom.Polygon)
			if !ok || len(pg) == 0 || len(pg[0]) == 0 || pg[0][0][1] != float64(1000+tm) || pg[0][0][0] != float64(i) {
				wrong++
				if first == "" {
					first = fmt.Sprintf("row %d carries %s", i, row.wkt)
				}
			}
		}
		if wrong > 0 {
			r.violation(Violation{Oracle: "geometry-of-that-tile-matrix-only", Op: op, Impl: fmt.Sprintf("%d of %d rows of target %d carry a geometry made for another tile matrix or feature", wrong, nfeat, tm), Detail: first})
		}
	}
}
