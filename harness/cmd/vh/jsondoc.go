package main

import (
	"time"
	"encoding/json"
	"fmt"
	"math"
	"os"
	"path/filepath"
	"sort"
	"strconv"
	"strings"

	"github.com/pdok/texel/tms20"
)

func init() { checks["C16"] = checkC16 }

func repoDir() string {
	if p := os.Getenv("VERIF_REPO"); p != "" {
		return p
	}
	return "/repo"
}

type decodeOutcome struct {
	panicMsg string
	err      error
	tms      *tms20.TileMatrixSet
}

// decodeDoc decodes under recover and a five-second limit: a decoder that never returns (a worker waiting on a channel nobody reads) is reported
// like a panic, with the document
func decodeDoc(b []byte) (o decodeOutcome) {
	ch := make(chan decodeOutcome, 1)
	mark("tmsdoc " + clip(string(b), 1500))
	go func() {
		var r decodeOutcome
		defer func() {
			if rec := recover(); rec != nil {
				r.panicMsg = fmt.Sprint(rec)
			}
			ch <- r
		}()
		var t tms20.TileMatrixSet
		if err := json.Unmarshal(b, &t); err != nil {
			r.err = err
			return
		}
		r.tms = &t
	}()
	select {
	case o = <-ch:
	case <-time.After(5 * time.Second):
		o.panicMsg = "the decoder has not returned after 5 seconds (deadlock or endless loop)"
		decodeHangs++
	}
	unmark()
	return o
}

// decodeHangs counts decoders that did not return; after three the check stops handing out documents (each costs five seconds)
var decodeHangs int

func encodeDoc(t *tms20.TileMatrixSet) (b []byte, p string) {
	defer func() {
		if r := recover(); r != nil {
			p = fmt.Sprint(r)
		}
	}()
	b, err := json.Marshal(t)
	if err != nil {
		return nil, "marshal error: " + err.Error()
	}
	return b, ""
}

// canonical JSON text: sorted keys, numbers as shortest float64 text
func canonJSON(v interface{}) string {
	switch t := v.(type) {
	case map[string]interface{}:
		keys := make([]string, 0, len(t))
		for k := range t {
			keys = append(keys, k)
		}
		sort.Strings(keys)
		parts := make([]string, len(keys))
		for i, k := range keys {
			kb, _ := json.Marshal(k)
			parts[i] = string(kb) + ":" + canonJSON(t[k])
		}
		return "{" + strings.Join(parts, ",") + "}"
	case []interface{}:
		parts := make([]string, len(t))
		for i, x := range t {
			parts[i] = canonJSON(x)
		}
		return "[" + strings.Join(parts, ",") + "]"
	case float64:
		return strconv.FormatFloat(t, 'g', -1, 64)
	case json.Number:
		f, _ := t.Float64()
		return strconv.FormatFloat(f, 'g', -1, 64)
	default:
		b, _ := json.Marshal(t)
		return string(b)
	}
}

func parseTree(b []byte) (interface{}, error) {
	var v interface{}
	err := json.Unmarshal(b, &v)
	return v, err
}

// semantic normal form of a document for "re-encoded equals original": explicit defaults, tile matrices sorted by integer id
func normaliseDoc(v interface{}) interface{} {
	m, ok := v.(map[string]interface{})
	if !ok {
		return v
	}
	out := map[string]interface{}{}
	for k, x := range m {
		out[k] = x
	}
	if tms, ok := out["tileMatrices"].([]interface{}); ok {
		list := make([]interface{}, 0, len(tms))
		for _, e := range tms {
			if tm, ok := e.(map[string]interface{}); ok {
				c := map[string]interface{}{}
				for k, x := range tm {
					c[k] = x
				}
				if _, has := c["cornerOfOrigin"]; !has {
					c["cornerOfOrigin"] = "topLeft" // the schema's default, made explicit by the encoder
				}
				list = append(list, c)
			} else {
				list = append(list, e)
			}
		}
		sort.SliceStable(list, func(i, j int) bool {
			a, _ := list[i].(map[string]interface{})
			b, _ := list[j].(map[string]interface{})
			ai, _ := strconv.ParseInt(fmt.Sprint(a["id"]), 10, 64)
			bi, _ := strconv.ParseInt(fmt.Sprint(b["id"]), 10, 64)
			return ai < bi
		})
		out["tileMatrices"] = list
	}
	return out
}

// ---- structural mutation of a JSON tree

var palette = []interface{}{nil, true, false, 0.0, -1.0, 1.0, 2.0, 0.5, 256.9, 1e30, -1e30, "", "0", "x", "1.5", "topLeft", "bottomLeft", []interface{}{}, map[string]interface{}{}, []interface{}{1.0, 2.0}, "http://www.opengis.net/def/crs/EPSG/0/3857", "urn:ogc:def:crs:EPSG::28992",
	[]interface{}{1.0, 2.0, 3.0}, []interface{}{1.0}, "07", "+3", "-0", -285401.9200000001, 1e-10, 123456.123456789012, []interface{}{1e-10, 0.30000000000000004}, map[string]interface{}{"uri": "urn:ogc:def:crs:EPSG::28992", "description": "d"},
	map[string]interface{}{"wkt": map[string]interface{}{"id": map[string]interface{}{"authority": "EPSG", "code": "3857"}}},
	map[string]interface{}{"referenceSystem": map[string]interface{}{"name": "x"}}, map[string]interface{}{"wkt": map[string]interface{}{}}}

type path []interface{} // string keys and int indices

func collectPaths(v interface{}, cur path, out *[]path) {
	switch t := v.(type) {
	case map[string]interface{}:
		keys := make([]string, 0, len(t))
		for k := range t {
			keys = append(keys, k)
		}
		sort.Strings(keys)
		for _, k := range keys {
			p := append(append(path{}, cur...), k)
			*out = append(*out, p)
			collectPaths(t[k], p, out)
		}
	case []interface{}:
		for i := range t {
			if i > 2 && i < len(t)-1 { // the first three and the last element are enough
				continue
			}
			p := append(append(path{}, cur...), i)
			*out = append(*out, p)
			collectPaths(t[i], p, out)
		}
	}
}

func deepCopy(v interface{}) interface{} {
	switch t := v.(type) {
	case map[string]interface{}:
		m := make(map[string]interface{}, len(t))
		for k, x := range t {
			m[k] = deepCopy(x)
		}
		return m
	case []interface{}:
		a := make([]interface{}, len(t))
		for i, x := range t {
			a[i] = deepCopy(x)
		}
		return a
	}
	return v
}

// mutate applies one mutation at path p: kind 0 delete, 1 replace by palette value
func mutateAt(root interface{}, p path, del bool, val interface{}) interface{} {
	if len(p) == 0 {
		if del {
			return nil
		}
		return val
	}
	switch t := root.(type) {
	case map[string]interface{}:
		k := p[0].(string)
		if len(p) == 1 {
			if del {
				delete(t, k)
			} else {
				t[k] = val
			}
			return t
		}
		t[k] = mutateAt(t[k], p[1:], del, val)
		return t
	case []interface{}:
		i := p[0].(int)
		if i >= len(t) {
			return t
		}
		if len(p) == 1 {
			if del {
				return append(append([]interface{}{}, t[:i]...), t[i+1:]...)
			}
			t[i] = val
			return t
		}
		t[i] = mutateAt(t[i], p[1:], del, val)
		return t
	}
	return root
}

func fmtPath(p path) string {
	parts := make([]string, len(p))
	for i, x := range p {
		parts[i] = fmt.Sprint(x)
	}
	return strings.Join(parts, ".")
}

// mustReject: the conditions the property names, evaluated on the document tree
func mustReject(v interface{}) string {
	m, ok := v.(map[string]interface{})
	if !ok {
		return "document is not an object"
	}
	crs, ok := m["crs"]
	if !ok {
		return "missing crs"
	}
	switch crs.(type) {
	case string, map[string]interface{}:
	default:
		return "crs is neither a string nor an object"
	}
	if bbv, present := m["boundingBox"]; present && bbv != nil {
		if bb, ok := bbv.(map[string]interface{}); ok {
			for _, k := range []string{"lowerLeft", "upperRight"} {
				if cv, present := bb[k]; present {
					arr, ok := cv.([]interface{})
					if !ok || len(arr) != 2 {
						return "boundingBox." + k + " is not a pair"
					}
					for _, x := range arr {
						if _, ok := x.(float64); !ok {
							return "boundingBox." + k + " holds something that is not a number"
						}
					}
				}
			}
		} else {
			return "boundingBox is not an object"
		}
	}
	tms, ok := m["tileMatrices"]
	if !ok {
		return "missing tileMatrices"
	}
	list, ok := tms.([]interface{})
	if !ok {
		return "tileMatrices is not an array"
	}
	if len(list) == 0 {
		return "no tile matrices"
	}
	for i, e := range list {
		tm, ok := e.(map[string]interface{})
		if !ok {
			return fmt.Sprintf("tileMatrices[%d] is not an object", i)
		}
		id, ok := tm["id"].(string)
		if !ok {
			return fmt.Sprintf("tileMatrices[%d].id is not a string", i)
		}
		if _, err := strconv.ParseInt(id, 10, 64); err != nil {
			return fmt.Sprintf("tileMatrices[%d].id %q is not an integer", i, id)
		}
		if po, present := tm["pointOfOrigin"]; present {
			arr, ok := po.([]interface{})
			if !ok || len(arr) != 2 {
				return fmt.Sprintf("tileMatrices[%d].pointOfOrigin is not a pair", i)
			}
			for _, x := range arr {
				if _, ok := x.(float64); !ok {
					return fmt.Sprintf("tileMatrices[%d].pointOfOrigin holds something that is not a number", i)
				}
			}
		}
		for _, k := range []string{"tileWidth", "tileHeight", "matrixWidth", "matrixHeight", "cellSize", "scaleDenominator"} {
			f, ok := tm[k].(float64)
			if !ok {
				return fmt.Sprintf("tileMatrices[%d].%s is missing or not a number", i, k)
			}
			if f <= 0 {
				return fmt.Sprintf("tileMatrices[%d].%s = %v is not positive", i, k, f)
			}
		}
	}
	return ""
}

func checkC16(e *env) {
	r := e.res
	r.Rule = "all 14 built-in documents and the test document, decode -> encode -> decode -> encode (equal value, stable encoding, re-encoded document semantically equal to the original: same tree after making the cornerOfOrigin default explicit, " +
		"numbers compared as float64); every built-in document with each single key or array element deleted (thorough: and each single value replaced by each palette value); documents obtained from them by 1..3 structural mutations (delete a key, drop an array element, replace a value by one of 35 palette values of every JSON kind; one document in eight: an earlier tile matrix takes the id of a later one and is changed at one place) at paths biased to crs, tileMatrices and the tile matrix fields: " +
		"no panic; accepted documents must survive the round trip; documents with missing crs/tileMatrices (or none), a crs that is neither text nor object, a point of origin that is not a pair of numbers, other wrong kinds, non-positive or non-numeric sizes, non-integer ids must be rejected; every document also goes through the model (op tmsdoc). " +
		"Non-trivial = a mutated document; distinct by document text."
	files, _ := filepath.Glob(filepath.Join(repoDir(), "tms20", "tilematrixsets", "*.json"))
	sort.Strings(files)
	var docs []interface{}
	var names []string
	for _, f := range files {
		b, err := os.ReadFile(f)
		if err != nil {
			continue
		}
		v, err := parseTree(b)
		if err != nil {
			continue
		}
		docs = append(docs, v)
		names = append(names, strings.TrimSuffix(filepath.Base(f), ".json"))
	}
	if b, err := os.ReadFile(filepath.Join(repoDir(), "tms20", "testdata", "SomethingWithBottomLeftAndLatLonAndDoubleHeight.json")); err == nil {
		if v, err := parseTree(b); err == nil {
			docs = append(docs, v)
			names = append(names, "testdata")
		}
	}
	if len(docs) < 14 {
		r.Notes = append(r.Notes, fmt.Sprintf("only %d documents found under %s", len(docs), repoDir()))
	}
	one := func(name string, tree interface{}, mutated bool) {
		if decodeHangs >= 3 {
			return
		}
		b, _ := json.Marshal(tree)
		op := "tmsdoc " + string(b)
		short := name
		r.count("tmsdoc", op, mutated)
		d1 := decodeDoc(b)
		impl := ""
		switch {
		case d1.panicMsg != "":
			impl = "panic"
			r.violation(Violation{Oracle: "decoding-never-panics", Op: short + " | " + clip(string(b), 1500), Impl: "panic", Detail: d1.panicMsg})
		case d1.err != nil:
			impl = "err"
			r.Dist["tmsdoc:rejected"]++
		default:
			r.Dist["tmsdoc:accepted"]++
			enc1, p := encodeDoc(d1.tms)
			if p != "" {
				r.violation(Violation{Oracle: "encoding-never-panics", Op: short + " | " + clip(string(b), 1500), Impl: "panic", Detail: p})
				return
			}
			d2 := decodeDoc(enc1)
			if d2.panicMsg != "" || d2.err != nil {
				r.violation(Violation{Oracle: "re-encoded-document-decodes", Op: short + " | " + clip(string(b), 1500), Impl: clip(string(enc1), 600), Detail: fmt.Sprint(d2.panicMsg, d2.err)})
				return
			}
			enc2, _ := encodeDoc(d2.tms)
			if k1, k2 := fmt.Sprintf("%T", d1.tms.CRS), fmt.Sprintf("%T", d2.tms.CRS); k1 != k2 {
				r.violation(Violation{Oracle: "decode-encode-decode-yields-an-equal-value", Op: short + " | " + clip(string(b), 1500), Impl: clip(string(enc1), 600), Detail: "the CRS is a " + k1 + " after decoding and a " + k2 + " after the round trip"})
				return
			}
			if bad := sameValue(d1.tms, d2.tms); bad != "" {
				r.violation(Violation{Oracle: "decode-encode-decode-yields-an-equal-value", Op: short + " | " + clip(string(b), 1500), Impl: clip(string(enc1), 600), Detail: bad})
				return
			}
			if string(enc1) != string(enc2) {
				r.violation(Violation{Oracle: "encoding-stable", Op: short + " | " + clip(string(b), 1500), Impl: clip(string(enc1), 600), Detail: "second encoding: " + clip(string(enc2), 600)})
				return
			}
			t1, _ := parseTree(enc1)
			impl = "ok " + canonJSON(t1)
			if !mutated {
				// built-in documents: the re-encoded JSON is semantically equal to the original
				if a, c := canonJSON(normaliseDoc(tree)), canonJSON(normaliseDoc(t1)); a != c {
					r.violation(Violation{Oracle: "re-encoded-equals-original", Op: short, Impl: clip(c, 800), Detail: "original (normalised): " + clip(a, 800)})
				}
			}
		}
		if why := mustReject(tree); why != "" && d1.err == nil && d1.panicMsg == "" {
			r.violation(Violation{Oracle: "malformed-document-rejected", Op: short + " | " + clip(string(b), 1500), Impl: "accepted", Detail: why})
		}
		e.pending = append(e.pending, pendingOp{"tmsdoc", op, impl})
		if len(e.pending) >= 512 {
			e.flushJSON()
		}
	}
	// first each built-in document with its reference systems written the other way ("crs": "<uri>" <-> {"uri": "<uri>"}), then as it is:
	// what was decoded before must not decide how a document comes back
	for i, d := range docs {
		tree := deepCopy(d)
		if m, ok := tree.(map[string]interface{}); ok {
			flipped := false
			for _, holder := range []interface{}{m, m["boundingBox"]} {
				if h, ok := holder.(map[string]interface{}); ok {
					switch c := h["crs"].(type) {
					case string:
						h["crs"], flipped = map[string]interface{}{"uri": c}, true
					case map[string]interface{}:
						if u, ok := c["uri"].(string); ok && len(c) == 1 {
							h["crs"], flipped = u, true
						}
					}
				}
			}
			if flipped {
				one(names[i]+" with every crs written the other way", tree, true)
			}
		}
	}
	for i, d := range docs {
		one(names[i], d, false)
	}
	// systematically: every built-in document (cut to three tile matrices) with each single key or array element deleted; in the thorough tier
	// also with each single value replaced by each palette value
	for i, d := range docs {
		small := deepCopy(d)
		if m, ok := small.(map[string]interface{}); ok {
			if l, ok := m["tileMatrices"].([]interface{}); ok && len(l) > 3 {
				m["tileMatrices"] = append([]interface{}{}, l[:3]...)
			}
		}
		var paths []path
		collectPaths(small, nil, &paths)
		for _, p := range paths {
			one(names[i]+" with delete "+fmtPath(p), mutateAt(deepCopy(small), p, true, nil), true)
			if e.tier == "thorough" {
				for _, v := range palette {
					one(fmt.Sprintf("%s with %s := %s", names[i], fmtPath(p), canonJSON(v)), mutateAt(deepCopy(small), p, false, deepCopy(v)), true)
				}
			}
		}
	}
	n := e.n(6000, 200000)
	for it := 0; it < n; it++ {
		di := e.rng.Intn(len(docs))
		tree := deepCopy(docs[di])
		// keep documents small: at most 4 tile matrices
		if m, ok := tree.(map[string]interface{}); ok {
			if l, ok := m["tileMatrices"].([]interface{}); ok && len(l) > 4 {
				k := e.rng.Intn(len(l) - 3)
				m["tileMatrices"] = append([]interface{}{}, l[k:k+3]...)
			}
		}
		depth := 1 + e.rng.Intn(3)
		var desc []string
		// the same reference system written the other way: "crs": "<uri>" <-> "crs": {"uri": "<uri>"} (also inside boundingBox); what was decoded
		// before must not decide how a later document comes back, so the built-in documents are run again every now and then
		if m, ok := tree.(map[string]interface{}); ok && e.rng.Intn(6) == 0 {
			flip := func(holder map[string]interface{}, where string) {
				switch c := holder["crs"].(type) {
				case string:
					holder["crs"] = map[string]interface{}{"uri": c}
					desc = append(desc, where+"crs written as {uri}")
				case map[string]interface{}:
					if u, ok := c["uri"].(string); ok && len(c) == 1 {
						holder["crs"] = u
						desc = append(desc, where+"crs written as a string")
					}
				}
			}
			if e.rng.Intn(3) != 0 {
				flip(m, "")
			}
			if bb, ok := m["boundingBox"].(map[string]interface{}); ok && e.rng.Intn(2) == 0 {
				flip(bb, "boundingBox.")
			}
			if len(desc) > 0 && e.rng.Intn(2) == 0 {
				depth = 0
			}
		}
		// a tie: one tile matrix takes the scale denominator or the cell size of its neighbour (nothing may be ordered by a value that need not be unique)
		if m, ok := tree.(map[string]interface{}); ok && e.rng.Intn(10) == 0 {
			if l, ok := m["tileMatrices"].([]interface{}); ok && len(l) >= 2 {
				k := e.rng.Intn(len(l) - 1)
				key := []string{"scaleDenominator", "cellSize"}[e.rng.Intn(2)]
				if a, ok := l[k].(map[string]interface{}); ok {
					if b, ok := l[k+1].(map[string]interface{}); ok {
						a[key] = b[key]
						desc = append(desc, fmt.Sprintf("tileMatrices.%d.%s := tileMatrices.%d.%s", k, key, k+1, key))
						if e.rng.Intn(2) == 0 {
							depth = 0
						}
					}
				}
			}
		}
		if it%500 == 499 {
			for i, d := range docs {
				one(names[i], d, false)
			}
		}
		// two cooperating edits: an earlier tile matrix takes the id of a later one (the later one wins in the decoded set) and is itself
		// changed at one place — every array element has to be validated, not only the ones that survive
		if m, ok := tree.(map[string]interface{}); ok && e.rng.Intn(8) == 0 {
			if l, ok := m["tileMatrices"].([]interface{}); ok && len(l) >= 2 {
				k := e.rng.Intn(len(l) - 1)
				j := k + 1 + e.rng.Intn(len(l)-k-1)
				if a, ok := l[k].(map[string]interface{}); ok {
					if b, ok := l[j].(map[string]interface{}); ok {
						a["id"] = b["id"]
						desc = append(desc, fmt.Sprintf("tileMatrices.%d.id := tileMatrices.%d.id", k, j))
						var sub []path
						collectPaths(a, nil, &sub)
						if len(sub) > 0 {
							sp := sub[e.rng.Intn(len(sub))]
							full := append(path{"tileMatrices", k}, sp...)
							if e.rng.Intn(3) == 0 {
								tree = mutateAt(tree, full, true, nil)
								desc = append(desc, "delete "+fmtPath(full))
							} else {
								v := deepCopy(palette[e.rng.Intn(len(palette))])
								tree = mutateAt(tree, full, false, v)
								desc = append(desc, fmt.Sprintf("%s := %s", fmtPath(full), canonJSON(v)))
							}
						}
						depth = e.rng.Intn(2)
					}
				}
			}
		}
		for k := 0; k < depth; k++ {
			var paths []path
			collectPaths(tree, nil, &paths)
			if len(paths) == 0 {
				break
			}
			// bias: half of the time inside tileMatrices or crs
			var biased []path
			for _, p := range paths {
				if s, ok := p[0].(string); ok && (s == "tileMatrices" || s == "crs") {
					biased = append(biased, p)
				}
			}
			p := paths[e.rng.Intn(len(paths))]
			if len(biased) > 0 && e.rng.Intn(2) == 0 {
				p = biased[e.rng.Intn(len(biased))]
			}
			if e.rng.Intn(3) == 0 {
				tree = mutateAt(tree, p, true, nil)
				desc = append(desc, "delete "+fmtPath(p))
			} else {
				v := deepCopy(palette[e.rng.Intn(len(palette))])
				tree = mutateAt(tree, p, false, v)
				desc = append(desc, fmt.Sprintf("%s := %s", fmtPath(p), canonJSON(v)))
			}
		}
		one(names[di]+" with "+strings.Join(desc, "; "), tree, true)
	}
	e.flushJSON()
}

// sameValue: field by field equality of two decoded tile matrix sets (empty and nil slices are the same value)
func sameValue(a, b *tms20.TileMatrixSet) string {
	if a.ID != b.ID || a.Title != b.Title || a.Description != b.Description || a.URI != b.URI || a.WellKnownScaleSet != b.WellKnownScaleSet {
		return "a top-level string differs after the round trip"
	}
	if fmt.Sprint(a.Keywords) != fmt.Sprint(b.Keywords) || fmt.Sprint(a.OrderedAxes) != fmt.Sprint(b.OrderedAxes) || (a.OrderedAxes == nil) != (b.OrderedAxes == nil) {
		return "keywords or orderedAxes differ after the round trip"
	}
	if (a.BoundingBox == nil) != (b.BoundingBox == nil) {
		return "boundingBox present/absent differs"
	}
	if a.BoundingBox != nil {
		if *a.BoundingBox.LowerLeft != *b.BoundingBox.LowerLeft || *a.BoundingBox.UpperRight != *b.BoundingBox.UpperRight || fmt.Sprint(a.BoundingBox.OrderedAxes) != fmt.Sprint(b.BoundingBox.OrderedAxes) {
			return fmt.Sprintf("boundingBox differs: %v %v vs %v %v", *a.BoundingBox.LowerLeft, *a.BoundingBox.UpperRight, *b.BoundingBox.LowerLeft, *b.BoundingBox.UpperRight)
		}
	}
	if len(a.TileMatrices) != len(b.TileMatrices) {
		return fmt.Sprintf("%d tile matrices before, %d after the round trip", len(a.TileMatrices), len(b.TileMatrices))
	}
	for id, x := range a.TileMatrices {
		y, ok := b.TileMatrices[id]
		if !ok {
			return fmt.Sprintf("tile matrix %d lost in the round trip", id)
		}
		if x.ID != y.ID {
			return fmt.Sprintf("tile matrix %d: id %q became %q", id, x.ID, y.ID)
		}
		if x.Title != y.Title || x.Description != y.Description || fmt.Sprint(x.Keywords) != fmt.Sprint(y.Keywords) || x.ScaleDenominator != y.ScaleDenominator || x.CellSize != y.CellSize ||
			x.TileWidth != y.TileWidth || x.TileHeight != y.TileHeight || x.MatrixWidth != y.MatrixWidth || x.MatrixHeight != y.MatrixHeight || fmt.Sprint(x.VariableMatrixWidths) != fmt.Sprint(y.VariableMatrixWidths) {
			return fmt.Sprintf("tile matrix %d: a field differs after the round trip (%+v vs %+v)", id, x, y)
		}
		if *x.PointOfOrigin != *y.PointOfOrigin {
			return fmt.Sprintf("tile matrix %d: pointOfOrigin %v became %v", id, *x.PointOfOrigin, *y.PointOfOrigin)
		}
		xc, yc := x.CornerOfOrigin, y.CornerOfOrigin
		if xc != yc {
			return fmt.Sprintf("tile matrix %d: cornerOfOrigin %q became %q", id, xc, yc)
		}
	}
	return ""
}

func clip(s string, n int) string {
	if len(s) > n {
		return s[:n] + " …"
	}
	return s
}

// flushJSON: like flush, but the model's answer `ok <json>` is compared as a JSON tree (numbers as float64)
func (e *env) flushJSON() {
	if len(e.pending) == 0 {
		return
	}
	if e.drv != nil {
		ops := make([]string, len(e.pending))
		for i, p := range e.pending {
			ops[i] = p.op
		}
		ans := e.drv.AskAll(ops)
		for i, p := range e.pending {
			m := ans[i]
			if strings.HasPrefix(m, "ok ") {
				if t, err := parseTree([]byte(m[3:])); err == nil {
					m = "ok " + canonJSON(t)
				}
			}
			if m != p.impl {
				e.res.diff(Diff{Stream: p.stream, Op: clip(p.op, 3000), Impl: clip(p.impl, 1500), Model: clip(m, 1500)})
			}
		}
	}
	e.pending = e.pending[:0]
}

var _ = math.Abs

// verifDir: the directory of the verification project (where corpus/ lives): VERIF_DIR, or the parent of the directory the harness binary is in
func verifDir() string {
	if p := os.Getenv("VERIF_DIR"); p != "" {
		return p
	}
	if exe, err := os.Executable(); err == nil {
		return filepath.Dir(filepath.Dir(exe))
	}
	return "/verif"
}
