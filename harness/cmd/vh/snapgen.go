package main

import (
	"fmt"
	"math"
	"math/rand"
	"os"
	"sort"
	"strings"

	"github.com/go-spatial/geom"
	"github.com/pdok/texel/snap"
)

// Polygon generators. Coordinates are produced on a lattice of U points per pixel (of the deepest requested
// tile matrix) inside a window of G x G pixels, so that vertices on pixel borders and corners and edges through
// corners occur all the time.

func star(rng *rand.Rand, cx, cy, rmax float64, n int, U int64, spiky bool) []ipt {
	angs := make([]float64, n)
	for i := range angs {
		angs[i] = rng.Float64() * 2 * math.Pi
	}
	sort.Float64s(angs)
	r := make([]ipt, 0, n)
	for _, a := range angs {
		rad := rmax * (0.3 + 0.7*rng.Float64())
		if spiky && rng.Intn(3) == 0 {
			rad = rmax * (0.05 + 0.2*rng.Float64())
		}
		r = append(r, ipt{int64(math.Round((cx + rad*math.Cos(a)) * float64(U))), int64(math.Round((cy + rad*math.Sin(a)) * float64(U)))})
	}
	return r
}

func clampRing(r []ipt, lo, hi int64) []ipt {
	for i := range r {
		r[i].x = max64(lo, min64(hi, r[i].x))
		r[i].y = max64(lo, min64(hi, r[i].y))
	}
	return r
}

// comb: a base bar with thin teeth (width well below a pixel now and then)
func comb(rng *rand.Rand, G float64, U int64) []ipt {
	n := 2 + rng.Intn(5)
	x0 := int64((1 + rng.Float64()*(G/4)) * float64(U))
	y0 := int64((1 + rng.Float64()*(G/3)) * float64(U))
	barH := 1 + rng.Int63n(2*U)
	var r []ipt
	r = append(r, ipt{x0, y0})
	x := x0
	pitch := int64(float64(U) * (0.5 + rng.Float64()*2.5))
	// bundle: the teeth stand a fraction of a pixel apart and are a fraction of a pixel wide, so that several of them collapse onto the
	// same column of pixels (back and forth over the same vertices, again and again); the last one may be bent like an L
	bundle := rng.Intn(3) == 0
	if bundle {
		pitch = 1 + rng.Int63n(max64(1, U/4))
	}
	// many: eight to twelve thin teeth a good pixel apart on a bar less than a pixel high: the long bottom edge of the bar passes more than ten
	// pixels that hold a vertex (the feet of the teeth) on one level
	many := !bundle && rng.Intn(4) == 0 && G >= 22
	if many {
		n = 8 + rng.Intn(5)
		x0 = U + rng.Int63n(U)
		x = x0
		pitch = U + rng.Int63n(U/2+1)
		barH = 1 + rng.Int63n(max64(1, U-1))
	}
	sameH := int64(float64(U) * (1 + rng.Float64()*(G/3)))
	var top []ipt
	for i := 0; i < n; i++ {
		w := 1 + rng.Int63n(max64(1, U/2)) // thin
		if rng.Intn(3) == 0 && !many {
			w = 1 + rng.Int63n(2*U)
		}
		h := int64(float64(U) * (1 + rng.Float64()*(G/3)))
		if bundle {
			w = 1 + rng.Int63n(max64(1, U/8))
			if rng.Intn(2) == 0 {
				h = sameH
			}
		}
		if bundle && i == n-1 && rng.Intn(2) == 0 && h > 2*U {
			bend := U + rng.Int63n(3*U)
			w2 := 1 + rng.Int63n(max64(1, U/8))
			top = append(top, ipt{x, y0 + barH}, ipt{x, y0 + barH + h}, ipt{x + w + bend, y0 + barH + h}, ipt{x + w + bend, y0 + barH + h - w2},
				ipt{x + w, y0 + barH + h - w2}, ipt{x + w, y0 + barH})
			x += w + bend + pitch
			continue
		}
		top = append(top, ipt{x, y0 + barH}, ipt{x, y0 + barH + h}, ipt{x + w, y0 + barH + h}, ipt{x + w, y0 + barH})
		x += w + pitch
	}
	r = append(r, ipt{x, y0}, ipt{x, y0 + barH})
	for i := len(top) - 1; i >= 0; i-- {
		r = append(r, top[i])
	}
	// remove the duplicate corner when the first tooth starts at x0 / last ends at x
	out := r[:0:0]
	for i, p := range r {
		if i > 0 && p == r[i-1] {
			continue
		}
		out = append(out, p)
	}
	if len(out) > 1 && out[0] == out[len(out)-1] {
		out = out[:len(out)-1]
	}
	return out
}

// sliver: a long thin quadrilateral or triangle
func sliver(rng *rand.Rand, G float64, U int64) []ipt {
	gu := int64(G * float64(U))
	a := ipt{U + rng.Int63n(gu-2*U), U + rng.Int63n(gu-2*U)}
	b := ipt{U + rng.Int63n(gu-2*U), U + rng.Int63n(gu-2*U)}
	w := 1 + rng.Int63n(max64(1, U/2))
	dx, dy := b.x-a.x, b.y-a.y
	var nx, ny int64
	if abs64i(dx) > abs64i(dy) {
		ny = w
	} else {
		nx = w
	}
	if rng.Intn(2) == 0 {
		return []ipt{a, b, {b.x + nx, b.y + ny}}
	}
	return []ipt{a, b, {b.x + nx, b.y + ny}, {a.x + nx, a.y + ny}}
}

// pinched: two blobs joined by a neck narrower than a pixel
func pinched(rng *rand.Rand, G float64, U int64) []ipt {
	cy := G/2 + (rng.Float64()-0.5)*G/4
	r1 := 1.5 + rng.Float64()*(G/6)
	r2 := 1.5 + rng.Float64()*(G/6)
	c1 := r1 + 1 + rng.Float64()
	c2 := G - r2 - 1 - rng.Float64()
	if c2-r2 <= c1+r1+1 {
		c2 = c1 + r1 + r2 + 2
	}
	neck := (0.05 + rng.Float64()*0.6) / 2
	f := func(v float64) int64 { return int64(math.Round(v * float64(U))) }
	var r []ipt
	// lower half left to right, upper half right to left
	n1, n2 := 3+rng.Intn(4), 3+rng.Intn(4)
	for i := 0; i <= n1; i++ {
		a := math.Pi + float64(i)/float64(n1)*math.Pi*0.9 // pi .. ~2pi (bottom of blob 1)
		r = append(r, ipt{f(c1 + r1*math.Cos(a)), f(cy + r1*math.Sin(a) - neck)})
	}
	r = append(r, ipt{f(c1 + r1), f(cy - neck)}, ipt{f(c2 - r2), f(cy - neck)})
	for i := 0; i <= n2; i++ {
		a := math.Pi*1.1 + float64(i)/float64(n2)*math.Pi*0.9
		r = append(r, ipt{f(c2 + r2*math.Cos(a)), f(cy + r2*math.Sin(a) - neck)})
	}
	for i := 0; i <= n2; i++ {
		a := float64(i) / float64(n2) * math.Pi * 0.9
		r = append(r, ipt{f(c2 + r2*math.Cos(a)), f(cy + r2*math.Sin(a) + neck)})
	}
	r = append(r, ipt{f(c2 - r2), f(cy + neck)}, ipt{f(c1 + r1), f(cy + neck)})
	for i := 0; i <= n1; i++ {
		a := math.Pi*0.1 + float64(i)/float64(n1)*math.Pi*0.9
		r = append(r, ipt{f(c1 + r1*math.Cos(a)), f(cy + r1*math.Sin(a) + neck)})
	}
	out := r[:0:0]
	for i, p := range r {
		if i > 0 && p == r[i-1] {
			continue
		}
		out = append(out, p)
	}
	return out
}

// chole: a big rectangle with a C-shaped hole (a ring-shaped hole with a slit narrower than a pixel, so that the enclosed part of the
// polygon pinches off into a nested polygon) and, often, a second small hole inside the enclosed part, close to its edge
func chole(rng *rand.Rand, G float64, U int64) [][]ipt {
	gi := int64(G)
	if gi < 12 {
		return nil
	}
	W, H := (9+rng.Int63n(gi-11))*U, (9+rng.Int63n(gi-11))*U
	x0, y0 := (1+rng.Int63n(gi-2-W/U))*U+rng.Int63n(U), (1+rng.Int63n(gi-2-H/U))*U+rng.Int63n(U)
	if x0+W >= gi*U-U/2 || y0+H >= gi*U-U/2 {
		return nil
	}
	shell := []ipt{{x0 - U/2, y0 - U/2}, {x0 + W + U/2, y0 - U/2}, {x0 + W + U/2, y0 + H + U/2}, {x0 - U/2, y0 + H + U/2}}
	t := U + rng.Int63n(U)             // thickness of the C
	s := 1 + rng.Int63n(max64(1, U/3)) // half width of the slit: well below a pixel
	m := y0 + H/2
	m1 := U/2 + rng.Int63n(U/2+1) // margin between shell and C
	ox0, oy0, ox1, oy1 := x0+m1, y0+m1, x0+W-m1, y0+H-m1
	c := []ipt{{ox0, oy0}, {ox1, oy0}, {ox1, m - s}, {ox1 - t, m - s}, {ox1 - t, oy0 + t}, {ox0 + t, oy0 + t}, {ox0 + t, oy1 - t}, {ox1 - t, oy1 - t}, {ox1 - t, m + s}, {ox1, m + s}, {ox1, oy1}, {ox0, oy1}}
	rings := [][]ipt{shell, c}
	if rng.Intn(4) > 0 { // a small hole in the enclosed part, near one of its sides
		ix0, iy0, ix1, iy1 := ox0+t, oy0+t, ox1-t, oy1-t
		if ix1-ix0 > 3*U && iy1-iy0 > 3*U {
			d := 1 + rng.Int63n(U) // distance to the enclosed part's edge: within a pixel
			var hx, hy int64
			switch rng.Intn(4) {
			case 0:
				hx, hy = ix0+d, iy0+U+rng.Int63n(iy1-iy0-2*U)
			case 1:
				hx, hy = ix1-d-U, iy0+U+rng.Int63n(iy1-iy0-2*U)
			case 2:
				hx, hy = ix0+U+rng.Int63n(ix1-ix0-2*U), iy0+d
			default:
				hx, hy = ix0+U+rng.Int63n(ix1-ix0-2*U), iy1-d-U
			}
			// big enough to have interior locations more than a pixel away from every boundary
			sz := (3 + rng.Int63n(2)) * U
			if rng.Intn(3) == 0 {
				sz = U
			}
			hx, hy = min64(hx, ix1-d-sz), min64(hy, iy1-d-sz)
			if hx > ix0 && hy > iy0 {
				rings = append(rings, []ipt{{hx, hy}, {hx + sz, hy}, {hx + sz, hy + sz}, {hx, hy + sz}})
			}
		}
	}
	return rings
}

// dblc: a square shell, a hole in the shape of a thick letter C whose opening is narrower than a pixel, and a second, very thin C-shaped
// hole hugging the first one on the outside at a fraction of a pixel: both sides of the thin one snap onto the outline of the thick one, so
// that the same ring arrives several times, as an outer and as inner rings, each starting somewhere else (shell/hole cancellation)
func dblc(rng *rand.Rand, G float64, U int64) [][]ipt {
	if U < 8 || G < 20 {
		return nil
	}
	e := U / 8 // one eighth of a pixel
	o0 := (12 + 8*rng.Int63n(3)) * e
	o1 := o0 + (80+8*rng.Int63n(3))*e
	if o1+40*e >= int64(G)*U {
		return nil
	}
	wall := 24 * e
	i0, i1 := o0+wall, o1-wall
	// the opening: inside one pixel column of the top wall
	k := (i0/e+8)/8 + rng.Int63n(max64(1, (i1-i0)/e/8-2))
	xa, xb := (8*k+2+rng.Int63n(2))*e, (8*k+5+rng.Int63n(2))*e
	d1, d2 := (1+rng.Int63n(2))*e, (3+rng.Int63n(2))*e // the thin C lies between d1 and d2 outside the thick one (d2 < half a pixel + ...)
	shell := []ipt{{o0 - 8*e, o1 + 32*e}, {o0 - 8*e, o0 - 8*e}, {o1 + 32*e, o0 - 8*e}, {o1 + 32*e, o1 + 32*e}}
	thick := []ipt{{o0, o1}, {o0, o0}, {o1, o0}, {o1, o1}, {xb, o1}, {xb, i1}, {i1, i1}, {i1, i0}, {i0, i0}, {i0, i1}, {xa, i1}, {xa, o1}}
	thin := []ipt{{xb, o1 + d1}, {xb, o1 + d2}, {o1 + d2, o1 + d2}, {o1 + d2, o0 - d2}, {o0 - d2, o0 - d2}, {o0 - d2, o1 + d2}, {xa, o1 + d2}, {xa, o1 + d1},
		{o0 - d1, o1 + d1}, {o0 - d1, o0 - d1}, {o1 + d1, o0 - d1}, {o1 + d1, o1 + d1}}
	rings := [][]ipt{shell, thick, thin}
	// any of the four orientations
	switch rng.Intn(4) {
	case 1:
		for _, r := range rings {
			for i := range r {
				r[i] = ipt{r[i].y, r[i].x}
			}
		}
	case 2:
		m := o0 + o1 + 24*e
		for _, r := range rings {
			for i := range r {
				r[i] = ipt{r[i].x, m - r[i].y}
			}
		}
	case 3:
		m := o0 + o1 + 24*e
		for _, r := range rings {
			for i := range r {
				r[i] = ipt{m - r[i].y, r[i].x}
			}
		}
	}
	return rings
}

// dblc2: two of dblc's pairs (a thick C-shaped hole with a thin one hugging it) side by side in one shell: two shell/hole cancellations on one level
func dblc2(rng *rand.Rand, G float64, U int64) [][]ipt {
	if U < 8 || G < 24 {
		return nil
	}
	e := U / 8
	span, wall := 64*e, 24*e // walls of three pixels: the middle of a moat is farther than a pixel from its sides
	y0 := (12 + 8*rng.Int63n(2)) * e
	y1 := y0 + span
	var rings [][]ipt
	x0 := y0
	for n := 0; n < 2; n++ {
		x1 := x0 + span
		i0x, i1x, i0y, i1y := x0+wall, x1-wall, y0+wall, y1-wall
		k := (i0x/e+8)/8 + rng.Int63n(max64(1, (i1x-i0x)/e/8-1))
		xa, xb := (8*k+2+rng.Int63n(2))*e, (8*k+5+rng.Int63n(2))*e
		if xa <= i0x || xb >= i1x {
			return nil
		}
		d1, d2 := (1+rng.Int63n(2))*e, (3+rng.Int63n(2))*e
		thick := []ipt{{x0, y1}, {x0, y0}, {x1, y0}, {x1, y1}, {xb, y1}, {xb, i1y}, {i1x, i1y}, {i1x, i0y}, {i0x, i0y}, {i0x, i1y}, {xa, i1y}, {xa, y1}}
		thin := []ipt{{xb, y1 + d1}, {xb, y1 + d2}, {x1 + d2, y1 + d2}, {x1 + d2, y0 - d2}, {x0 - d2, y0 - d2}, {x0 - d2, y1 + d2}, {xa, y1 + d2}, {xa, y1 + d1},
			{x0 - d1, y1 + d1}, {x0 - d1, y0 - d1}, {x1 + d1, y0 - d1}, {x1 + d1, y1 + d1}}
		rings = append(rings, thick, thin)
		x0 = x1 + 16*e
	}
	if x0+8*e >= int64(G)*U || y1+24*e >= int64(G)*U {
		return nil
	}
	shell := []ipt{{y0 - 8*e, y1 + 16*e}, {y0 - 8*e, y0 - 8*e}, {x0, y0 - 8*e}, {x0, y1 + 16*e}}
	return append([][]ipt{shell}, rings...)
}

// edgehole: a rectangle with a small hole within a pixel of one of its sides or corners (top/right ones included)
// manyholes: a rectangle with 66 small triangular holes and then three hourglass-shaped holes whose waist lies inside one pixel (they pinch when
// snapped and must be split in two): rings with indexes beyond 64, where per-ring bookkeeping packed into a machine word runs out
func manyholes(rng *rand.Rand, G float64, U int64) [][]ipt {
	if G < 24 || U < 4 {
		return nil
	}
	dx, dy := rng.Int63n(U), rng.Int63n(U)
	rings := [][]ipt{{{1, 1}, {24*U - 2, 1}, {24*U - 2, 24*U - 2}, {1, 24*U - 2}}}
	for j := int64(0); j < 6; j++ {
		for i := int64(0); i < 11; i++ {
			ox, oy := U+2*U*i+dx, U+2*U*j+dy
			rings = append(rings, []ipt{{ox + 1, oy + 1}, {ox + 1, oy + U + 2}, {ox + U + 2, oy + 1}})
		}
	}
	for _, x0 := range []int64{U, 6 * U, 11 * U} {
		x, y := x0+dx, 14*U+dy
		rings = append(rings, []ipt{{x, y}, {x + U + 1, y + U + 1}, {x, y + 3*U - 1}, {x + 3*U - 1, y + 3*U - 1}, {x + U + 3, y + U + 1}, {x + 3*U - 1, y}})
	}
	return rings
}

// notchhole: a notch cut into the shell from the right (or, mirrored, from the left, the top, the bottom) and a triangular hole whose nearest
// vertex is a fraction of a pixel away from the notch's tip: snapped, the hole touches the shell at a reflex corner of it
func notchhole(rng *rand.Rand, G float64, U int64) [][]ipt {
	if U < 4 || G < 14 {
		return nil
	}
	a, b := U+rng.Int63n(U), U+rng.Int63n(U)
	c, d := a+(9+rng.Int63n(3))*U, b+(9+rng.Int63n(3))*U
	t, m := c-3*U-rng.Int63n(U), (b+d)/2+rng.Int63n(U)
	sh := []ipt{{a, b}, {c, b}, {c, m - 2*U}, {t, m}, {c, m + 2*U}, {c, d}, {a, d}}
	gap := 1 + rng.Int63n(U/2)
	hole := []ipt{{t - gap, m}, {t - gap - 2*U, m - U}, {t - gap - 2*U, m + U}}
	rings := [][]ipt{sh, hole}
	lim := int64(13) * U
	switch rng.Intn(4) {
	case 1: // from the left
		for _, r := range rings {
			for i := range r {
				r[i] = ipt{lim + 2*U - r[i].x, r[i].y}
			}
		}
	case 2: // from the top
		for _, r := range rings {
			for i := range r {
				r[i] = ipt{r[i].y, r[i].x}
			}
		}
	case 3: // from the bottom
		for _, r := range rings {
			for i := range r {
				r[i] = ipt{r[i].y, lim + 2*U - r[i].x}
			}
		}
	}
	return rings
}

// ushape: a U-shaped shell (a notch cut in from the top) and a rectangular hole straight below the notch, exactly as wide: every vertex of the
// hole has a vertical edge of the shell straight above it
func ushape(rng *rand.Rand, G float64, U int64) [][]ipt {
	if G < 14 {
		return nil
	}
	a, b := U+rng.Int63n(U), U+rng.Int63n(U)
	c, d := a+(10+rng.Int63n(3))*U, b+(10+rng.Int63n(3))*U
	x1 := a + (3+rng.Int63n(2))*U + rng.Int63n(U)
	x2 := x1 + (2+rng.Int63n(2))*U
	n := d - (3+rng.Int63n(2))*U
	y2 := n - (1+rng.Int63n(2))*U - rng.Int63n(U)
	y1 := y2 - (2+rng.Int63n(2))*U
	if x2 >= c-U || y1 <= b+U/2 {
		return nil
	}
	shell := []ipt{{a, b}, {c, b}, {c, d}, {x2, d}, {x2, n}, {x1, n}, {x1, d}, {a, d}}
	hole := []ipt{{x1, y1}, {x1, y2}, {x2, y2}, {x2, y1}}
	rings := [][]ipt{shell, hole}
	if rng.Intn(2) == 0 { // the same lying on its side
		for _, r := range rings {
			for i := range r {
				r[i] = ipt{r[i].y, r[i].x}
			}
		}
	}
	return rings
}

// pinhole: a rectangle with a hole smaller than a deepest pixel that sits in a pixel one of the shell's sides passes through (the hole collapses
// to a point on every level, but its pixel is hot: the side must be routed through its centre); sometimes a second, ordinary hole as well
func pinhole(rng *rand.Rand, G float64, U int64) [][]ipt {
	shell := rectOnLattice(rng, G, U)
	if len(shell) != 4 || U < 4 {
		return nil
	}
	a, b, c, d := shell[0].x, shell[0].y, shell[2].x, shell[2].y
	if c-a < 4*U || d-b < 4*U {
		return nil
	}
	var hole []ipt
	switch rng.Intn(4) {
	case 0: // left side
		if a%U > U-3 {
			return nil
		}
		y0 := (b/U+1)*U + rng.Int63n((d-b)/U-2)*U
		hole = []ipt{{a + 1, y0 + 1}, {a + 2, y0 + 1}, {a + 1, y0 + 2}}
	case 1: // right side
		if c%U < 3 {
			return nil
		}
		y0 := (b/U+1)*U + rng.Int63n((d-b)/U-2)*U
		hole = []ipt{{c - 1, y0 + 1}, {c - 1, y0 + 2}, {c - 2, y0 + 1}}
	case 2: // bottom side
		if b%U > U-3 {
			return nil
		}
		x0 := (a/U+1)*U + rng.Int63n((c-a)/U-2)*U
		hole = []ipt{{x0 + 1, b + 1}, {x0 + 1, b + 2}, {x0 + 2, b + 1}}
	default: // top side
		if d%U < 3 {
			return nil
		}
		x0 := (a/U+1)*U + rng.Int63n((c-a)/U-2)*U
		hole = []ipt{{x0 + 1, d - 1}, {x0 + 2, d - 1}, {x0 + 1, d - 2}}
	}
	rings := [][]ipt{{{a, b}, {c, b}, {c, d}, {a, d}}, hole}
	if rng.Intn(3) == 0 && c-a > 8*U && d-b > 8*U { // an ordinary hole in the middle
		mx, my := (a+c)/2, (b+d)/2
		rings = append(rings, []ipt{{mx, my}, {mx, my + 2*U}, {mx + 2*U, my + 2*U}, {mx + 2*U, my}})
	}
	return rings
}

func edgehole(rng *rand.Rand, G float64, U int64) [][]ipt {
	shell := rectOnLattice(rng, G, U)
	if len(shell) != 4 {
		return nil
	}
	a, b, c, d := shell[0].x, shell[0].y, shell[2].x, shell[2].y
	if c-a < 4*U || d-b < 4*U {
		return nil
	}
	if rng.Intn(3) == 0 && U >= 4 {
		// a hole hugging a corner so closely that all its vertices share the pixel row or column of the shell's sides there
		fx, fy := 2+rng.Int63n(U-2), 2+rng.Int63n(U-2) // where inside its pixel the corner sits (lattice units), >= 2
		right, top := rng.Intn(2) == 0, rng.Intn(2) == 0
		cx, cy := (c/U)*U+fx, (d/U)*U+fy
		sx, sy := int64(-1), int64(-1)
		if !right {
			cx, sx = (a/U)*U+U-fx, 1
		}
		if !top {
			cy, sy = (b/U)*U+U-fy, 1
		}
		sh := []ipt{{a, b}, {c, b}, {c, d}, {a, d}}
		if right {
			sh[1].x, sh[2].x = cx, cx
		} else {
			sh[0].x, sh[3].x = cx, cx
		}
		if top {
			sh[2].y, sh[3].y = cy, cy
		} else {
			sh[0].y, sh[1].y = cy, cy
		}
		far := U + rng.Int63n(U)
		hole := []ipt{{cx + sx*far, cy + sy*1}, {cx + sx*1, cy + sy*far}, {cx + sx*1, cy + sy*1}}
		return [][]ipt{sh, hole}
	}
	e := 1 + rng.Int63n(U) // distance from the side(s)
	sz := U/2 + rng.Int63n(2*U)
	var hx, hy int64
	switch rng.Intn(8) {
	case 0: // top right corner
		hx, hy = c-e-sz, d-e-sz
	case 1: // top left
		hx, hy = a+e, d-e-sz
	case 2:
		hx, hy = c-e-sz, b+e
	case 3:
		hx, hy = a+e, b+e
	case 4: // top side
		hx, hy = a+U+rng.Int63n(c-a-2*U-sz), d-e-sz
	case 5: // right side
		hx, hy = c-e-sz, b+U+rng.Int63n(d-b-2*U-sz)
	case 6:
		hx, hy = a+U+rng.Int63n(c-a-2*U-sz), b+e
	default:
		hx, hy = a+e, b+U+rng.Int63n(d-b-2*U-sz)
	}
	hole := []ipt{{hx, hy}, {hx + sz, hy + sz/3}, {hx + sz/2, hy + sz}}
	if rng.Intn(2) == 0 {
		hole = []ipt{{hx, hy}, {hx + sz, hy}, {hx + sz, hy + sz}, {hx, hy + sz}}
	}
	return [][]ipt{shell, hole}
}

// rectOnLattice: axis-parallel rectangle (or L-shape) with vertices on pixel borders / corners
func rectOnLattice(rng *rand.Rand, G float64, U int64) []ipt {
	gi := int64(G)
	x0, y0 := 1+rng.Int63n(gi-3), 1+rng.Int63n(gi-3)
	x1, y1 := x0+1+rng.Int63n(gi-1-x0), y0+1+rng.Int63n(gi-1-y0)
	off := func() int64 { // mostly exactly on a border
		if rng.Intn(3) == 0 {
			return rng.Int63n(U)
		}
		return 0
	}
	a, b, c, d := x0*U+off(), y0*U+off(), x1*U+off(), y1*U+off()
	if c <= a {
		c = a + 1
	}
	if d <= b {
		d = b + 1
	}
	if rng.Intn(2) == 0 {
		return []ipt{{a, b}, {c, b}, {c, d}, {a, d}}
	}
	mx, my := a+1+rng.Int63n(c-a), b+1+rng.Int63n(d-b)
	if mx >= c || my >= d {
		return []ipt{{a, b}, {c, b}, {c, d}, {a, d}}
	}
	return []ipt{{a, b}, {c, b}, {c, my}, {mx, my}, {mx, d}, {a, d}}
}

func abs64i(a int64) int64 {
	if a < 0 {
		return -a
	}
	return a
}

// genValid returns a valid polygon (exactly checked) of the requested family in lattice units, or nil
func genValid(rng *rand.Rand, family string, G float64, U int64, maxv int) (res [][]ipt) {
	defer func() { // a generator that runs out of room (rand.Int63n of a non-positive number) just produces nothing
		if r := recover(); r != nil {
			res = nil
		}
	}()
	var shell []ipt
	cx, cy, rmax := 0.0, 0.0, 0.0
	switch family {
	case "chole", "edgehole", "dblc", "pinhole", "notchhole", "ushape":
		var rings [][]ipt
		switch family {
		case "ushape":
			rings = ushape(rng, G, U)
		case "notchhole":
			rings = notchhole(rng, G, U)
		case "pinhole":
			rings = pinhole(rng, G, U)
		case "chole":
			rings = chole(rng, G, U)
		case "dblc":
			rings = dblc(rng, G, U)
			if rng.Intn(3) == 0 {
				if r2 := dblc2(rng, G, U); r2 != nil {
					rings = r2
				}
			}
		default:
			rings = edgehole(rng, G, U)
		}
		if rings == nil {
			return nil
		}
		guu := int64(G * float64(U))
		for _, r := range rings {
			for _, p := range r {
				if p.x < 0 || p.y < 0 || p.x >= guu || p.y >= guu {
					return nil
				}
			}
		}
		for i := range rings {
			if rng.Intn(2) == 0 {
				reverseRing(rings[i])
			}
		}
		if !validPolygon(rings) {
			return nil
		}
		return rings
	case "star", "holes":
		nv := 3 + rng.Intn(maxv-2)
		rmax = 1 + rng.Float64()*(G/2-1.5)
		cx, cy = rmax+0.25+rng.Float64()*(G-2*rmax-0.5), rmax+0.25+rng.Float64()*(G-2*rmax-0.5)
		shell = star(rng, cx, cy, rmax, nv, U, true)
	case "thinpath":
		// a path of two or three short segments, thickened by a fraction of a pixel: strips and legs that collapse to lines on most levels,
		// and enclose a pixel triangle on some (which ones depends on how the two sides meet the pixel borders)
		k := 2 + rng.Intn(2)
		x, y := (2+rng.Float64()*(G-4))*float64(U), (2+rng.Float64()*(G-4))*float64(U)
		var fwd, back []ipt
		fwd = append(fwd, ipt{int64(x), int64(y)})
		for i := 0; i < k; i++ {
			a := rng.Float64() * 2 * math.Pi
			d := (0.8 + rng.Float64()*1.6) * float64(U)
			x, y = x+d*math.Cos(a), y+d*math.Sin(a)
			fwd = append(fwd, ipt{int64(x), int64(y)})
		}
		th := 1 + rng.Int63n(max64(1, U/3))
		for i := len(fwd) - 1; i >= 1; i-- {
			back = append(back, ipt{fwd[i].x + rng.Int63n(2*th+1) - th, fwd[i].y + 1 + rng.Int63n(th)})
		}
		shell = append(fwd, back...)
		if area2(shell).Sign() < 0 {
			reverseRing(shell)
		}
	case "tiny":
		// a few vertices within two or three pixels of the deepest level, spiky: on that level it mostly collapses to points and lines,
		// on shallower ones (requested together) too, but not always on the same ones
		nv := 3 + rng.Intn(4)
		rmax = 0.4 + rng.Float64()*1.4
		cx, cy = 2+rng.Float64()*(G-4), 2+rng.Float64()*(G-4)
		shell = star(rng, cx, cy, rmax, nv, U, true)
	case "comb":
		shell = comb(rng, G, U)
	case "sliver":
		shell = sliver(rng, G, U)
	case "pinched":
		shell = pinched(rng, G, U)
	case "rect":
		shell = rectOnLattice(rng, G, U)
	}
	gu := int64(G * float64(U))
	for _, p := range shell {
		if p.x < 0 || p.y < 0 || p.x >= gu || p.y >= gu {
			return nil
		}
	}
	if !ringSimple(shell) || area2(shell).Sign() == 0 {
		return nil
	}
	rings := [][]ipt{shell}
	if family == "holes" || (family == "rect" && rng.Intn(2) == 0) {
		if family == "rect" {
			// centre of the rectangle's bounding box
			minx, miny, maxx, maxy := shell[0].x, shell[0].y, shell[0].x, shell[0].y
			for _, p := range shell {
				minx, miny, maxx, maxy = min64(minx, p.x), min64(miny, p.y), max64(maxx, p.x), max64(maxy, p.y)
			}
			cx, cy = float64(minx+maxx)/2/float64(U), float64(miny+maxy)/2/float64(U)
			rmax = float64(min64(maxx-minx, maxy-miny)) / 2 / float64(U)
		}
		for h := 0; h < 1+rng.Intn(2); h++ {
			hr := star(rng, cx+(rng.Float64()-0.5)*rmax*0.6, cy+(rng.Float64()-0.5)*rmax*0.6, rmax*0.3*(0.3+rng.Float64()), 3+rng.Intn(5), U, false)
			cand := append(append([][]ipt{}, rings...), hr)
			if validPolygon(cand) {
				rings = cand
			}
		}
	}
	for i := range rings {
		if rng.Intn(2) == 0 {
			reverseRing(rings[i])
		}
	}
	if !validPolygon(rings) {
		return nil
	}
	return rings
}

// farPolygon: a triangle or convex quadrangle whose corners lie (i·2^20, j·2^20) pixels apart, each moved by up to 8 pixels, sometimes with a
// small triangular hole next to a corner
func farPolygon(rng *rand.Rand, U int64) [][]ipt {
	K := int64(1<<20) * U
	corners := [][2]int64{{0, 0}, {1, 0}, {1, 1}, {0, 1}}
	if rng.Intn(3) == 0 {
		corners = [][2]int64{{0, 0}, {2, 0}, {2, 1}, {0, 1}}
	}
	if rng.Intn(2) == 0 {
		d := rng.Intn(4)
		corners = append(corners[:d:d], corners[d+1:]...)
	}
	var shell []ipt
	for _, c := range corners {
		shell = append(shell, ipt{c[0]*K + 8*U + rng.Int63n(8*U), c[1]*K + 8*U + rng.Int63n(8*U)})
	}
	rings := [][]ipt{shell}
	if rng.Intn(2) == 0 {
		// a hole well inside, again a multiple of 2^20 pixels from nothing in particular
		cx, cy := (shell[0].x+shell[1].x+shell[2].x)/3, (shell[0].y+shell[1].y+shell[2].y)/3
		hole := []ipt{{cx, cy}, {cx + 3*U + rng.Int63n(4*U), cy + rng.Int63n(2*U)}, {cx + rng.Int63n(2*U), cy + 3*U + rng.Int63n(4*U)}}
		if validPolygon([][]ipt{shell, hole}) {
			rings = append(rings, hole)
		}
	}
	if !validPolygon(rings) {
		return nil
	}
	return rings
}

func reverseRing(r []ipt) {
	for a, b := 0, len(r)-1; a < b; a, b = a+1, b-1 {
		r[a], r[b] = r[b], r[a]
	}
}

// genArbitrary: arbitrary (mostly invalid) vertex sequences: random walks, zig-zags of small period, repeated vertices,
// rings of one or two points, self-intersections; all inside the window
func genArbitrary(rng *rand.Rand, G float64, U int64, maxv int) [][]ipt {
	gu := int64(G * float64(U))
	nr := 1 + rng.Intn(3)
	rings := make([][]ipt, nr)
	for ri := range rings {
		var r []ipt
		rp := func() ipt { return ipt{rng.Int63n(gu), rng.Int63n(gu)} }
		switch rng.Intn(7) {
		case 0: // tiny ring
			for i := 0; i < 1+rng.Intn(2); i++ {
				r = append(r, rp())
			}
		case 1: // zig-zag of period p over a small alphabet, repeated
			p := 1 + rng.Intn(6)
			alpha := make([]ipt, p)
			for i := range alpha {
				alpha[i] = rp()
				if rng.Intn(2) == 0 && i > 0 { // keep the alphabet close together: same or neighbouring pixel
					alpha[i] = ipt{max64(0, min64(gu-1, alpha[0].x+rng.Int63n(3*U)-U)), max64(0, min64(gu-1, alpha[0].y+rng.Int63n(3*U)-U))}
				}
			}
			n := 3 + rng.Intn(maxv)
			for i := 0; i < n; i++ {
				k := i % (2*p - 1)
				if p > 1 && k >= p {
					k = 2*p - 2 - k
				}
				if p == 1 {
					k = 0
				}
				r = append(r, alpha[k])
			}
			if rng.Intn(2) == 0 {
				r = append(r, rp(), rp())
			}
		case 2: // random walk with small steps (many vertices share pixels)
			cur := rp()
			n := 3 + rng.Intn(maxv)
			for i := 0; i < n; i++ {
				r = append(r, cur)
				cur = ipt{max64(0, min64(gu-1, cur.x+rng.Int63n(4*U+1)-2*U)), max64(0, min64(gu-1, cur.y+rng.Int63n(4*U+1)-2*U))}
			}
		case 3: // random points (self-intersecting)
			n := 3 + rng.Intn(maxv)
			for i := 0; i < n; i++ {
				r = append(r, rp())
			}
		case 4: // few pixels, many visits
			k := 2 + rng.Intn(4)
			alpha := make([]ipt, k)
			base := rp()
			for i := range alpha {
				alpha[i] = ipt{max64(0, min64(gu-1, base.x+(rng.Int63n(4)-1)*U+U/2)), max64(0, min64(gu-1, base.y+(rng.Int63n(4)-1)*U+U/2))}
			}
			n := 3 + rng.Intn(maxv)
			for i := 0; i < n; i++ {
				r = append(r, alpha[rng.Intn(k)])
			}
		case 5: // a valid star with repeated / doubled vertices
			rmax := 1 + rng.Float64()*(G/2-1.5)
			cx, cy := rmax+0.25+rng.Float64()*(G-2*rmax-0.5), rmax+0.25+rng.Float64()*(G-2*rmax-0.5)
			s := clampRing(star(rng, cx, cy, rmax, 3+rng.Intn(maxv), U, true), 0, gu-1)
			for _, p := range s {
				r = append(r, p)
				if rng.Intn(4) == 0 {
					r = append(r, p)
				}
			}
		default: // spike: out and back along the same line
			a, b, c := rp(), rp(), rp()
			r = []ipt{a, b, c, b}
			if rng.Intn(2) == 0 {
				r = append(r, rp())
			}
		}
		rings[ri] = r
	}
	return rings
}

// window: where the lattice sits in a grid
type window struct {
	gs     *gridSpec
	baseX  float64 // CRS coordinates of the window's lower left corner
	baseY  float64
	G      float64 // window size in pixels of the deepest requested id
	maxID  int     // deepest id used with this window
	minID  int
	weight int
	far    bool // room for polygons 2^21 pixels wide to the north-east of the corner
}

func (w window) toPoly(rings [][]ipt, U int64, pixf float64) geom.Polygon {
	poly := make(geom.Polygon, len(rings))
	for i, r := range rings {
		poly[i] = make([][2]float64, len(r))
		for j, p := range r {
			poly[i][j] = [2]float64{w.baseX + float64(p.x)/float64(U)*pixf, w.baseY + float64(p.y)/float64(U)*pixf}
		}
	}
	return poly
}

func pixelSize(gs *gridSpec, id int) float64 { return gs.tms.TileMatrices[id].CellSize / 16 }

var synthWindows, realWindows []window

func initWindows() {
	if synthWindows != nil {
		return
	}
	for _, d := range []uint{0, 1, 2} {
		G := float64(int(16) << d)
		synthWindows = append(synthWindows, window{gs: newSynth(d, 0, 0), G: G, maxID: int(d), weight: 3})
		synthWindows = append(synthWindows, window{gs: newSynth(d, -1024, 512), baseX: -1024, baseY: 512, G: G, maxID: int(d), weight: 1})
	}
	rd := newReal("NetherlandsRDNewQuad", 16, true)
	wm := newReal("WebMercatorQuad", 18, false)
	laea := newReal("EuropeanETRS89_LAEAQuad", 15, false)
	realWindows = []window{
		{gs: rd, baseX: 20000, baseY: 380000, G: 24, maxID: 14, minID: 12, weight: 2, far: true},
		{gs: rd, baseX: 120000, baseY: 480000, G: 24, maxID: 10, minID: 8, weight: 2, far: true},
		{gs: rd, baseX: 155000, baseY: 463000, G: 24, maxID: 5, minID: 3, weight: 1},
		{gs: wm, baseX: 550000, baseY: 6800000, G: 24, maxID: 18, minID: 16, weight: 2, far: true},
		{gs: wm, baseX: -0.25, baseY: -0.2, G: 24, maxID: 18, minID: 16, weight: 1},       // astride the centre lines of the extent (root quadrants; the extent does not divide evenly here)
		{gs: wm, baseX: 15550000, baseY: 4250000, G: 24, maxID: 20, minID: 19, weight: 1}, // levels 31 and 32, far from the origin
		{gs: wm, baseX: -17800000, baseY: -4120000, G: 24, maxID: 18, minID: 16, weight: 1}, // negative ordinates beyond 2^53 units of 1e-10, |x| beyond 2^24 (the south-west, near the antimeridian)
		{gs: laea, baseX: 4000000, baseY: 3200000, G: 24, maxID: 14, minID: 12, weight: 2},
	}
}

// VERIF_ONLY_WINDOW=<substring of "name/maxID"> and VERIF_ONLY_FAMILY=<family> narrow the generators for experiments and replays
var onlyWindow, onlyFamily = os.Getenv("VERIF_ONLY_WINDOW"), os.Getenv("VERIF_ONLY_FAMILY")

func pickWindow(rng *rand.Rand, ws []window) window {
	if onlyWindow != "" {
		var sel []window
		for _, w := range ws {
			if strings.Contains(fmt.Sprintf("%s/%d", w.gs.name, w.maxID), onlyWindow) {
				sel = append(sel, w)
			}
		}
		if len(sel) > 0 {
			ws = sel
		}
	}
	t := 0
	for _, w := range ws {
		t += w.weight
	}
	k := rng.Intn(t)
	for _, w := range ws {
		if k < w.weight {
			return w
		}
		k -= w.weight
	}
	return ws[0]
}

var validFamilies = []string{"star", "star", "holes", "holes", "comb", "sliver", "pinched", "rect", "chole", "edgehole", "dblc", "tiny", "thinpath", "pinhole", "notchhole", "ushape"}

// genCase: one snapping case. valid=true: a valid polygon; otherwise arbitrary vertex sequences.
func genCase(rng *rand.Rand, w window, valid bool, maxv int) *snapCase {
	U := []int64{2, 4, 8, 16}[rng.Intn(4)]
	var rings [][]ipt
	fam := "arbitrary"
	for try := 0; try < 50 && rings == nil; try++ {
		if valid {
			fam = validFamilies[rng.Intn(len(validFamilies))]
			if onlyFamily != "" {
				fam = onlyFamily
			}
			rings = genValid(rng, fam, w.G, U, maxv)
		} else {
			rings = genArbitrary(rng, w.G, U, maxv)
		}
	}
	// far family (real grids, deep levels): a few vertices whose pixels are whole multiples of 2^20 apart (so that their keys agree in the low
	// 40 bits): exercises everything keyed by pixel — caches, maps, the Z-order hierarchy — across distant parts of the tree
	if valid && w.far && rng.Intn(10) == 0 {
		if fr := farPolygon(rng, U); fr != nil {
			rings, fam = fr, "far"
		}
	}
	if valid && (rng.Intn(60) == 0 || onlyFamily == "manyholes") && (onlyFamily == "" || onlyFamily == "manyholes") {
		if mh := manyholes(rng, w.G, U); mh != nil && validPolygon(mh) {
			rings, fam = mh, "manyholes"
		}
	}
	// POLYGON EMPTY: a polygon of no rings at all
	if rng.Intn(80) == 0 && (onlyFamily == "" || onlyFamily == "empty") {
		rings, fam = [][]ipt{}, "empty"
	}
	if rings == nil {
		return nil
	}
	// a polygon may start each of its rings at any vertex
	for i := range rings {
		if n := len(rings[i]); n > 1 && rng.Intn(2) == 0 {
			k := rng.Intn(n)
			rings[i] = append(append([]ipt{}, rings[i][k:]...), rings[i][:k]...)
		}
	}
	c := &snapCase{gs: w.gs, tag: fam, skipModel: !valid && w.gs.levelDiff != 4}
	c.tmids = []int{w.maxID}
	if w.maxID > w.minID && (rng.Intn(2) == 0 || fam == "tiny" || fam == "thinpath") {
		// one or two shallower ids as well
		for id := w.minID; id < w.maxID; id++ {
			if rng.Intn(2) == 0 {
				c.tmids = append(c.tmids, id)
			}
		}
	}
	if w.gs.round && w.minID >= 4 && rng.Intn(6) == 0 {
		// a much coarser tile matrix as well, on which the polygon is a fraction of a pixel: what collapses there must not leak into the finer ones
		c.tmids = append(c.tmids, rng.Intn(w.minID-2))
	}
	if rng.Intn(3) == 0 { // request order should not matter
		rng.Shuffle(len(c.tmids), func(i, j int) { c.tmids[i], c.tmids[j] = c.tmids[j], c.tmids[i] })
	}
	c.cfg = snap.Config{KeepPointsAndLines: rng.Intn(2) == 0, ReverseWindingOrder: rng.Intn(2) == 0}
	poly := w.toPoly(rings, U, pixelSize(w.gs, w.maxID))
	if w.gs.levelDiff != 4 && rng.Intn(4) == 0 {
		// real grids: some vertices that sit on a pixel border are moved one to three float64 steps below it (where a quotient taken in floating
		// point lands on the other side of the border than the exact one)
		for ri := range poly {
			for vi := range poly[ri] {
				if rings[ri][vi].x%U == 0 && rng.Intn(3) == 0 {
					for k := 1 + rng.Intn(3); k > 0; k-- {
						poly[ri][vi][0] = math.Nextafter(poly[ri][vi][0], math.Inf(-1))
					}
				}
				if rings[ri][vi].y%U == 0 && rng.Intn(3) == 0 {
					for k := 1 + rng.Intn(3); k > 0; k-- {
						poly[ri][vi][1] = math.Nextafter(poly[ri][vi][1], math.Inf(-1))
					}
				}
			}
		}
	}
	c.setPoly(poly)
	if valid && !validPolygon(c.rings) { // the quantised integer polygon must be valid too (real grids)
		return nil
	}
	return c
}
