package main

import (
	"database/sql"
	"fmt"
	"math"
	"math/rand"
	"os"
	"path/filepath"
	"sort"
	"strings"
	"time"

	"github.com/go-spatial/geom"
	"github.com/go-spatial/geom/cmp"
	"github.com/go-spatial/geom/encoding/gpkg"
	"github.com/go-spatial/geom/encoding/wkt"
	"github.com/pdok/texel/processing"
	tgpkg "github.com/pdok/texel/processing/gpkg"
)

func init() { checks["C12"] = checkC12 }

// ---- building source GeoPackages

type colSpec struct {
	name, ctype string
}

type tableSpec struct {
	name  string
	gcol  string
	gpos  int // position of the geometry column among the attribute columns
	gtype gpkg.GeometryType
	srs   int32
	intPK bool
	cols  []colSpec
	rows  [][]interface{} // attribute values (without geometry), first is the key when intPK
	geoms []geom.Geometry
}

func (t *tableSpec) allColumns() []colSpec {
	var cs []colSpec
	cs = append(cs, t.cols[:t.gpos]...)
	cs = append(cs, colSpec{t.gcol, strings.ToUpper(t.gtype.String())})
	cs = append(cs, t.cols[t.gpos:]...)
	return cs
}

var rdSRS = gpkg.SpatialReferenceSystem{Name: "Amersfoort / RD New", ID: 28992, Organization: "EPSG", OrganizationCoordsysID: 28992, Definition: "PROJCS[\"Amersfoort / RD New\"]", Description: "rd"}

// customSRS: a reference system whose srs_id is not its organisation's id for it (as Esri tools write them)
var customSRS = gpkg.SpatialReferenceSystem{Name: "RD New (custom id)", ID: 100001, Organization: "EPSG", OrganizationCoordsysID: 28992, Definition: "PROJCS[\"Amersfoort / RD New\"]", Description: "rd under another id"}

func writeSource(path string, tables []*tableSpec) error {
	h, err := gpkg.Open(path)
	if err != nil {
		return err
	}
	defer h.Close()
	if err := h.UpdateSRS(rdSRS, customSRS); err != nil {
		return err
	}
	for _, t := range tables {
		var parts []string
		for i, c := range t.allColumns() {
			p := c.name + " " + c.ctype
			if i == 0 && t.intPK && c.name != t.gcol {
				p += " PRIMARY KEY"
			}
			parts = append(parts, p)
		}
		if _, err := h.Exec(fmt.Sprintf(`CREATE TABLE "%s"(%s);`, t.name, strings.Join(parts, ", "))); err != nil {
			return fmt.Errorf("create: %w", err)
		}
		if err := h.AddGeometryTable(gpkg.TableDescription{Name: t.name, ShortName: t.name, Description: t.name, GeometryField: t.gcol, GeometryType: t.gtype, SRS: t.srs, Z: gpkg.Prohibited, M: gpkg.Prohibited}); err != nil {
			return fmt.Errorf("add geometry table: %w", err)
		}
		var names, qs []string
		for _, c := range t.allColumns() {
			names = append(names, c.name)
			qs = append(qs, "?")
		}
		tx, err := h.Begin()
		if err != nil {
			return err
		}
		stmt, err := tx.Prepare(fmt.Sprintf(`INSERT INTO "%s"(%s) VALUES(%s)`, t.name, strings.Join(names, ","), strings.Join(qs, ",")))
		if err != nil {
			return err
		}
		for i, row := range t.rows {
			sb, err := gpkg.NewBinary(t.srs, t.geoms[i])
			if err != nil {
				return err
			}
			var vals []interface{}
			vals = append(vals, row[:t.gpos]...)
			vals = append(vals, sb)
			vals = append(vals, row[t.gpos:]...)
			if _, err := stmt.Exec(vals...); err != nil {
				return fmt.Errorf("insert: %w", err)
			}
		}
		stmt.Close()
		if err := tx.Commit(); err != nil {
			return err
		}
	}
	return nil
}

// ---- reading a GeoPackage back

type rowBack struct {
	attrs []string // printed attribute values in table order, geometry column skipped
	wkt   string
	empty bool
	g     geom.Geometry
	hdr   bool  // the geometry blob was decoded
	hsrs  int32 // srs_id in the blob's header
	hempt bool  // the header's empty flag
}

type tableBack struct {
	columns  string // name type, ...
	rows     []rowBack
	rtree    int
	extent   string
	geomCol  string // table_name column_name geometry_type_name srs_id
	srsID    int    // srs_id of gpkg_geometry_columns (-1: no row)
	srsRow   string // the gpkg_spatial_ref_sys row of that srs_id: name | organization | organization_coordsys_id
	contents string // data_type srs_id
}

func printVal(v interface{}) string {
	switch t := v.(type) {
	case nil:
		return "NULL"
	case []byte:
		return "s:" + string(t)
	case string:
		return "s:" + t
	case int64:
		return fmt.Sprintf("i:%d", t)
	case float64:
		return fmt.Sprintf("f:%x", math.Float64bits(t))
	case time.Time:
		return "t:" + t.UTC().Format(time.RFC3339Nano) // the instant, whatever text form the file holds
	}
	return fmt.Sprintf("%T:%v", v, v)
}

func readBack(path, table, gcol string) (*tableBack, error) {
	db, err := sql.Open(gpkg.SPATIALITE, path)
	if err != nil {
		return nil, err
	}
	defer db.Close()
	tb := &tableBack{}
	rows, err := db.Query(fmt.Sprintf(`PRAGMA table_info('%s')`, table))
	if err != nil {
		return nil, err
	}
	var colNames []string
	var cols []string
	for rows.Next() {
		var cid, notnull, pk int
		var name, ctype string
		var dflt interface{}
		if err := rows.Scan(&cid, &name, &ctype, &notnull, &dflt, &pk); err != nil {
			return nil, err
		}
		colNames = append(colNames, name)
		cols = append(cols, fmt.Sprintf("%s %s pk=%d", name, ctype, pk))
	}
	rows.Close()
	tb.columns = strings.Join(cols, ", ")
	if len(colNames) == 0 {
		return nil, fmt.Errorf("table %s does not exist", table)
	}
	rows, err = db.Query(fmt.Sprintf(`SELECT %s FROM "%s" ORDER BY rowid`, strings.Join(colNames, ","), table))
	if err != nil {
		return nil, err
	}
	for rows.Next() {
		vals := make([]interface{}, len(colNames))
		ptrs := make([]interface{}, len(colNames))
		for i := range vals {
			ptrs[i] = &vals[i]
		}
		if err := rows.Scan(ptrs...); err != nil {
			return nil, err
		}
		var rb rowBack
		for i, n := range colNames {
			if n == gcol {
				b, ok := vals[i].([]byte)
				if !ok {
					rb.wkt = "NULL"
					continue
				}
				sb, err := gpkg.DecodeGeometry(b)
				if err != nil {
					rb.wkt = "undecodable: " + err.Error()
					continue
				}
				rb.g = sb.Geometry
				rb.hdr, rb.hsrs, rb.hempt = true, sb.Header.SRSID(), sb.Header.IsGeometryEmpty()
				rb.empty = cmp.IsEmptyGeo(sb.Geometry)
				rb.wkt, _ = wkt.EncodeString(sb.Geometry)
			} else {
				rb.attrs = append(rb.attrs, printVal(vals[i]))
			}
		}
		tb.rows = append(tb.rows, rb)
	}
	rows.Close()
	_ = db.QueryRow(fmt.Sprintf(`SELECT count(*) FROM "rtree_%s_%s"`, table, gcol)).Scan(&tb.rtree)
	var a, b, c, d *float64
	var dataType string
	var srs int
	if err := db.QueryRow(`SELECT min_x, min_y, max_x, max_y, data_type, srs_id FROM gpkg_contents WHERE table_name = ?`, table).Scan(&a, &b, &c, &d, &dataType, &srs); err != nil {
		tb.extent = "no gpkg_contents row: " + err.Error()
	} else if a == nil || b == nil || c == nil || d == nil {
		tb.extent = "NULL"
	} else {
		tb.extent = fmt.Sprintf("%v %v %v %v", *a, *b, *c, *d)
	}
	tb.contents = fmt.Sprintf("%s %d", dataType, srs)
	var tn, cn, gt string
	var gsrs int
	if err := db.QueryRow(`SELECT table_name, column_name, geometry_type_name, srs_id FROM gpkg_geometry_columns WHERE table_name = ?`, table).Scan(&tn, &cn, &gt, &gsrs); err != nil {
		tb.geomCol = "no gpkg_geometry_columns row"
		tb.srsID = -1
	} else {
		tb.srsID = gsrs
		var sn, so string
		var soid int
		if err := db.QueryRow(`SELECT srs_name, organization, organization_coordsys_id FROM gpkg_spatial_ref_sys WHERE srs_id = ?`, gsrs).Scan(&sn, &so, &soid); err != nil {
			tb.srsRow = "no gpkg_spatial_ref_sys row for srs_id " + fmt.Sprint(gsrs)
		} else {
			tb.srsRow = fmt.Sprintf("%s | %s | %d", sn, so, soid)
		}
		tb.geomCol = fmt.Sprintf("%s %s %s %d", tn, cn, strings.ToUpper(gt), gsrs)
	}
	return tb, nil
}

func bboxOf(gs []geom.Geometry) string {
	var ext *geom.Extent
	for _, g := range gs {
		e, err := geom.NewExtentFromGeometry(g)
		if err != nil || e == nil {
			continue
		}
		if ext == nil {
			ext = e
		} else {
			ext.Add(e)
		}
	}
	if ext == nil {
		return "NULL"
	}
	return fmt.Sprintf("%v %v %v %v", ext.MinX(), ext.MinY(), ext.MaxX(), ext.MaxY())
}

// ---- random tables

func randGeom(rng *rand.Rand, gt gpkg.GeometryType, i int, emptyShare int) geom.Geometry {
	// ordinates that are not float32 numbers (an rtree stores float32, rounded outwards)
	x, y := float64(rng.Intn(2000))/4-100+0.1234567, float64(rng.Intn(2000))/4+300+0.7654321
	if gt == gpkg.Geometry { // a table of mixed geometries
		gt = []gpkg.GeometryType{gpkg.Point, gpkg.Linestring, gpkg.Polygon, gpkg.MultiPolygon, gpkg.MultiPoint, gpkg.MultiLinestring}[rng.Intn(6)]
	}
	if rng.Intn(100) < emptyShare {
		switch gt {
		case gpkg.MultiPoint:
			return geom.MultiPoint{}
		case gpkg.Linestring:
			return geom.LineString{}
		case gpkg.MultiPolygon:
			return geom.MultiPolygon{}
		case gpkg.Polygon:
			return geom.Polygon{}
		case gpkg.MultiLinestring:
			return geom.MultiLineString{}
		case gpkg.GeometryCollection:
			return geom.Collection{}
		}
	}
	switch gt {
	case gpkg.Point:
		return geom.Point{x, y}
	case gpkg.Linestring:
		return geom.LineString{{x, y}, {x + 3, y + 1}, {x + 5, y - 2}}
	case gpkg.MultiPoint:
		return geom.MultiPoint{{x, y}, {x + 1, y + 1}}
	case gpkg.Polygon:
		return geom.Polygon{{{x, y}, {x + 4, y}, {x + 4, y + 4}, {x, y + 4}}}
	case gpkg.MultiPolygon:
		return geom.MultiPolygon{{{{x, y}, {x + 4, y}, {x, y + 4}}}, {{{x + 10, y}, {x + 14, y}, {x + 10, y + 4}}}}
	case gpkg.MultiLinestring:
		return geom.MultiLineString{{{x, y}, {x + 3, y + 1}}, {{x + 5, y - 2}, {x + 6, y + 7}, {x + 8, y}}}
	case gpkg.GeometryCollection:
		return geom.Collection{geom.Point{x, y}, geom.LineString{{x + 1, y + 1}, {x + 6, y + 2}}}
	}
	return geom.Point{x, y}
}

func randTable(rng *rand.Rand, name string, gt gpkg.GeometryType, n int, emptyShare int) *tableSpec {
	t := &tableSpec{name: name, gcol: []string{"geom", "geometry", "shape"}[rng.Intn(3)], gtype: gt, srs: []int32{28992, 4326, 3857, 100001}[rng.Intn(4)], intPK: true}
	if t.intPK {
		t.cols = append(t.cols, colSpec{"fid", "INTEGER"})
	} else {
		t.cols = append(t.cols, colSpec{"code", "TEXT"})
	}
	types := []string{"INTEGER", "REAL", "TEXT", "INTEGER", "REAL", "TEXT", "DATETIME", "DATE"}
	na := rng.Intn(5) // 0..4 more attribute columns: with the key 1..5 columns, so cap > len happens
	for a := 0; a < na; a++ {
		t.cols = append(t.cols, colSpec{fmt.Sprintf("a%d", a), types[rng.Intn(len(types))]})
	}
	t.gpos = 1 + rng.Intn(len(t.cols)) // anywhere after the key
	desc := rng.Intn(2) == 0
	for i := 0; i < n; i++ {
		row := make([]interface{}, len(t.cols))
		if t.intPK {
			row[0] = int64(i + 1)
			if desc {
				row[0] = int64(3*n - 2*i) // descending, with gaps
			}
		} else {
			row[0] = fmt.Sprintf("k%05d", n-i) // descending keys: insertion order is not key order
		}
		for a := 1; a < len(t.cols); a++ {
			if rng.Intn(5) == 0 {
				row[a] = nil
				continue
			}
			switch t.cols[a].ctype {
			case "INTEGER":
				row[a] = int64(rng.Intn(1000) - 500)
			case "REAL":
				row[a] = float64(rng.Intn(1000))/8 + 0.5
			case "DATETIME": // with milliseconds, now and then exactly on a second
				ms := rng.Intn(1000)
				if rng.Intn(4) == 0 {
					ms = 0
				}
				row[a] = time.Date(1990+rng.Intn(40), time.Month(1+rng.Intn(12)), 1+rng.Intn(28), rng.Intn(24), rng.Intn(60), rng.Intn(60), ms*1000000, time.UTC)
			case "DATE":
				row[a] = time.Date(1990+rng.Intn(40), time.Month(1+rng.Intn(12)), 1+rng.Intn(28), 0, 0, 0, 0, time.UTC)
			default:
				row[a] = fmt.Sprintf("t%d-%d", i, rng.Intn(100))
			}
		}
		t.rows = append(t.rows, row)
		t.geoms = append(t.geoms, randGeom(rng, gt, i, emptyShare))
	}
	return t
}

// expectRows: what a faithful copy of the table looks like when read back
func expectRows(t *tableSpec) []rowBack {
	var rs []rowBack
	// a table with an INTEGER PRIMARY KEY is stored in key order (rowid = key): rows are compared in that order; the order of arrival
	// at the target is the pipeline's business (C10)
	idx := make([]int, len(t.rows))
	for i := range idx {
		idx[i] = i
	}
	sort.SliceStable(idx, func(a, b int) bool { return t.rows[idx[a]][0].(int64) < t.rows[idx[b]][0].(int64) })
	for _, i := range idx {
		row := t.rows[i]
		var rb rowBack
		for _, v := range row {
			rb.attrs = append(rb.attrs, printVal(v))
		}
		rb.wkt, _ = wkt.EncodeString(t.geoms[i])
		rb.empty = cmp.IsEmptyGeo(t.geoms[i])
		rs = append(rs, rb)
	}
	return rs
}

func compareTable(t *tableSpec, want []rowBack, wantGeoms []geom.Geometry, got *tableBack, srcBack *tableBack) string {
	if len(got.rows) != len(want) {
		return fmt.Sprintf("%d rows, expected %d", len(got.rows), len(want))
	}
	nonEmpty := 0
	for i := range want {
		if strings.Join(got.rows[i].attrs, "|") != strings.Join(want[i].attrs, "|") {
			return fmt.Sprintf("row %d: attributes %v, expected %v", i, got.rows[i].attrs, want[i].attrs)
		}
		if got.rows[i].wkt != want[i].wkt {
			return fmt.Sprintf("row %d: geometry %s, expected %s", i, got.rows[i].wkt, want[i].wkt)
		}
		if !want[i].empty {
			nonEmpty++
		}
		// the blob itself says which reference system it is in and whether it is empty
		if got.rows[i].hdr && int(got.rows[i].hsrs) != got.srsID {
			return fmt.Sprintf("row %d: the geometry's header says srs_id %d, the table is registered with srs_id %d", i, got.rows[i].hsrs, got.srsID)
		}
		if got.rows[i].hdr && got.rows[i].hempt != want[i].empty {
			return fmt.Sprintf("row %d: the geometry's header says empty=%v, the geometry %s", i, got.rows[i].hempt, want[i].wkt)
		}
	}
	if got.rtree != nonEmpty {
		return fmt.Sprintf("spatial index has %d entries, %d rows have a non-empty geometry", got.rtree, nonEmpty)
	}
	if bb := bboxOf(wantGeoms); got.extent != bb {
		return fmt.Sprintf("recorded extent %s, bounding box of the written geometries %s", got.extent, bb)
	}
	if srcBack != nil {
		if got.columns != srcBack.columns {
			return fmt.Sprintf("columns %q, source %q", got.columns, srcBack.columns)
		}
		if got.geomCol != srcBack.geomCol {
			return fmt.Sprintf("gpkg_geometry_columns %q, source %q", got.geomCol, srcBack.geomCol)
		}
		if got.contents != srcBack.contents {
			return fmt.Sprintf("gpkg_contents %q, source %q", got.contents, srcBack.contents)
		}
		if got.srsRow != srcBack.srsRow {
			return fmt.Sprintf("spatial reference system %q, source %q", got.srsRow, srcBack.srsRow)
		}
	}
	return ""
}

// scratchBase: a memory-backed directory when there is one (SQLite syncs every transaction)
func scratchBase() string {
	if st, err := os.Stat("/dev/shm"); err == nil && st.IsDir() {
		return "/dev/shm"
	}
	return ""
}

// ---- C12

func checkC12(e *env) {
	r := e.res
	r.Rule = "the real gpkg.SourceGeopackage -> gpkg.TargetGeopackage.WriteFeatures on real SQLite (stub spatialite driver, tag verif): feature counts 0..3p+1 for page sizes p = 1..7 (all pairs) plus random larger pairs, " +
		"tables with an INTEGER primary key (ascending, or descending with gaps), 0..4 further INTEGER/REAL/TEXT columns with NULLs, geometry column at any position, all eight geometry types a GeoPackage can declare (POINT, LINESTRING, POLYGON, MULTIPOINT, MULTILINESTRING, MULTIPOLYGON, GEOMETRYCOLLECTION, GEOMETRY with mixed content) with " +
		"a share of empty geometries (also all-empty tables), srs 28992/4326/3857; the target file is read back (rows in rowid order, rtree table, gpkg_contents, gpkg_geometry_columns, table_info) and compared with the source. " +
		"Then sources with 2..4 tables written through one source and one target object, table after table, as main.go does. Model: op page (page sizes of the paging function). Non-trivial = count > page size with count mod page size in {0, 1, p-1} or some empty geometry; distinct by (p, n, table shape)."
	dir, err := os.MkdirTemp(scratchBase(), "vh-c12-")
	if err != nil {
		r.Notes = append(r.Notes, err.Error())
		return
	}
	defer os.RemoveAll(dir)
	gts := []gpkg.GeometryType{gpkg.Point, gpkg.Linestring, gpkg.Polygon, gpkg.MultiPolygon, gpkg.MultiPoint, gpkg.MultiLinestring, gpkg.GeometryCollection, gpkg.Geometry}
	type pn struct{ p, n int }
	var cases []pn
	for p := 1; p <= 7; p++ {
		for n := 0; n <= 3*p+1; n++ {
			cases = append(cases, pn{p, n})
		}
	}
	for i := 0; i < e.n(60, 3000); i++ {
		p := 1 + e.rng.Intn(40)
		cases = append(cases, pn{p, []int{0, p - 1, p, p + 1, 2 * p, 2*p + 1, e.rng.Intn(4 * p)}[e.rng.Intn(7)]})
	}
	if e.tier == "thorough" {
		cases = append(cases, pn{1000, 2001}, pn{1000, 3000})
	}
	for ci, c := range cases {
		emptyShare := []int{0, 0, 20, 100}[e.rng.Intn(4)]
		t := randTable(e.rng, fmt.Sprintf("tab_%d", ci), gts[e.rng.Intn(len(gts))], c.n, emptyShare)
		src := filepath.Join(dir, fmt.Sprintf("src%d.gpkg", ci))
		dst := filepath.Join(dir, fmt.Sprintf("dst%d.gpkg", ci))
		if err := writeSource(src, []*tableSpec{t}); err != nil {
			r.Notes = append(r.Notes, "could not write a source: "+err.Error())
			continue
		}
		op := fmt.Sprintf("page %d %d", c.p, c.n)
		desc := fmt.Sprintf("%s | table %s: key %s, %d attribute column(s), geometry column %q at position %d, %v, srs %d, empty share %d%%", op, t.name, t.cols[0].ctype, len(t.cols), t.gcol, t.gpos, t.gtype, t.srs, emptyShare)
		mark("C12 single table: " + desc)
		var source tgpkg.SourceGeopackage
		source.Init(src)
		tables := source.GetTableInfo()
		if len(tables) != 1 {
			r.violation(Violation{Oracle: "source-table-info", Op: desc, Detail: fmt.Sprintf("%d tables found", len(tables))})
			source.Close()
			unmark()
			continue
		}
		source.Table = tables[0]
		var target tgpkg.TargetGeopackage
		target.Init(dst, c.p)
		if err := target.CreateTables(tables); err != nil {
			r.violation(Violation{Oracle: "create-tables", Op: desc, Detail: err.Error()})
		}
		target.Table = tables[0]
		ch := make(chan processing.Feature)
		go source.ReadFeatures(ch)
		target.WriteFeatures(ch)
		target.Close()
		source.Close()
		unmark()
		got, err := readBack(dst, t.name, t.gcol)
		srcBack, err2 := readBack(src, t.name, t.gcol)
		nontrivial := (c.n > c.p && (c.n%c.p == 0 || c.n%c.p == 1 || c.n%c.p == c.p-1)) || emptyShare > 0
		r.count("page", desc, nontrivial)
		r.Dist[fmt.Sprintf("c12:n-mod-p=%s", map[bool]string{true: "0", false: "other"}[c.n%c.p == 0])]++
		// the model's pages must add up to the stream (ties the op to this run; the paging structure itself is in the extracted skeleton)
		sizes := 0
		pagesN := 0
		if e.drv != nil {
			for _, f := range strings.Fields(e.drv.Ask(op)) {
				var k int
				fmt.Sscanf(f, "%d", &k)
				sizes += k
				pagesN++
			}
			if sizes != c.n {
				r.diff(Diff{Stream: "page", Op: op, Impl: fmt.Sprint(c.n), Model: fmt.Sprint(sizes)})
			}
		}
		if err != nil || err2 != nil {
			r.violation(Violation{Oracle: "target-readable", Op: desc, Detail: fmt.Sprint(err, err2)})
			continue
		}
		if bad := compareTable(t, expectRows(t), t.geoms, got, srcBack); bad != "" {
			r.violation(Violation{Oracle: "target-complete-and-consistent", Op: desc, Impl: fmt.Sprintf("%d rows, rtree %d, extent %s", len(got.rows), got.rtree, got.extent), Detail: bad})
		}
		os.Remove(src)
		os.Remove(dst)
	}
	// ---- several tables through ONE source and ONE target, as main.go does it (target.Table is switched per table)
	for mi := 0; mi < e.n(40, 600); mi++ {
		p := 1 + e.rng.Intn(6)
		nt := 2 + e.rng.Intn(3)
		var ts []*tableSpec
		for k := 0; k < nt; k++ {
			n := []int{0, 1, p - 1, p, p + 1, 2*p + 1, e.rng.Intn(4*p + 1)}[e.rng.Intn(7)]
			ts = append(ts, randTable(e.rng, fmt.Sprintf("m%d_%d", mi, k), gts[e.rng.Intn(len(gts))], n, []int{0, 0, 20, 100}[e.rng.Intn(4)]))
		}
		src := filepath.Join(dir, fmt.Sprintf("msrc%d.gpkg", mi))
		dst := filepath.Join(dir, fmt.Sprintf("mdst%d.gpkg", mi))
		if err := writeSource(src, ts); err != nil {
			r.Notes = append(r.Notes, "could not write a source: "+err.Error())
			continue
		}
		md := fmt.Sprintf("C12 several tables through one target, page size %d:", p)
		for _, t := range ts {
			md += fmt.Sprintf(" %s(%d rows, %v)", t.name, len(t.geoms), t.gtype)
		}
		mark(md)
		var source tgpkg.SourceGeopackage
		source.Init(src)
		tables := source.GetTableInfo()
		var target tgpkg.TargetGeopackage
		target.Init(dst, p)
		if err := target.CreateTables(tables); err != nil {
			r.violation(Violation{Oracle: "create-tables", Op: fmt.Sprintf("multi page %d", p), Detail: err.Error()})
		}
		for _, tb := range tables {
			source.Table = tb
			target.Table = tb
			ch := make(chan processing.Feature)
			go source.ReadFeatures(ch)
			target.WriteFeatures(ch)
		}
		target.Close()
		source.Close()
		unmark()
		if len(tables) != nt {
			r.violation(Violation{Oracle: "source-table-info", Op: fmt.Sprintf("multi page %d", p), Detail: fmt.Sprintf("%d tables found, %d written", len(tables), nt)})
		}
		for k, t := range ts {
			desc := fmt.Sprintf("page %d %d | table %d of %d in one file (%s): %v, srs %d", p, len(t.geoms), k+1, nt, t.name, t.gtype, t.srs)
			r.count("page-multi", desc, true)
			got, err := readBack(dst, t.name, t.gcol)
			srcBack, err2 := readBack(src, t.name, t.gcol)
			if err != nil || err2 != nil {
				r.violation(Violation{Oracle: "target-readable", Op: desc, Detail: fmt.Sprint(err, err2)})
				continue
			}
			if bad := compareTable(t, expectRows(t), t.geoms, got, srcBack); bad != "" {
				r.violation(Violation{Oracle: "target-complete-and-consistent", Op: desc, Impl: fmt.Sprintf("%d rows, rtree %d, extent %s", len(got.rows), got.rtree, got.extent), Detail: bad})
			}
		}
		os.Remove(src)
		os.Remove(dst)
	}
}
