package main

import (
	"math"
	"bytes"
	"context"
	"encoding/json"
	"fmt"
	"os"
	"os/exec"
	"path/filepath"
	"sort"
	"strings"
	"time"

	"github.com/go-spatial/geom"
	"github.com/go-spatial/geom/cmp"
	"github.com/go-spatial/geom/encoding/gpkg"
	"github.com/go-spatial/geom/encoding/wkt"
	"github.com/pdok/texel/snap"
)

func init() { checks["C13"] = checkC13 }

func texelBin() string {
	if p := os.Getenv("VERIF_TEXEL_BIN"); p != "" {
		return p
	}
	return "/verif/.build/texel-bin"
}

// libGeometry: what processing.processFeatures makes of the library's answer for one feature and one tile matrix
func libGeometry(g geom.Geometry, gs *gridSpec, ids []int, id int, cfg snap.Config) (out geom.Geometry, present bool, panicked string) {
	defer func() {
		if r := recover(); r != nil {
			panicked = fmt.Sprint(r)
		}
	}()
	switch t := g.(type) {
	case geom.Polygon:
		res := snap.SnapPolygon(t, gs.tms, append([]int(nil), ids...), cfg)
		polys, ok := res[id]
		if !ok {
			return nil, false, ""
		}
		if len(polys) == 1 {
			return polys[0], true, ""
		}
		mp := make(geom.MultiPolygon, len(polys))
		for i := range polys {
			mp[i] = polys[i]
		}
		return mp, true, ""
	case geom.MultiPolygon:
		var mp geom.MultiPolygon
		for _, p := range t {
			res := snap.SnapPolygon(p, gs.tms, append([]int(nil), ids...), cfg)
			for _, np := range res[id] {
				mp = append(mp, np)
			}
		}
		if mp == nil {
			return nil, false, ""
		}
		return mp, true, ""
	}
	return g, true, ""
}

func checkC13(e *env) {
	r := e.res
	r.Rule = "the real binary (go build -tags verif of /repo) on random source GeoPackages: 1-3 tables (POLYGON, MULTIPOLYGON with 1-3 parts, POINT/LINESTRING/MULTIPOINT with some empty geometries, GEOMETRY holding polygons among other kinds), 0-25 features each, polygons from the valid families in a NetherlandsRDNewQuad window (one run in eight: WebMercatorQuad ids 19-20, the deepest levels), near-duplicates of a polygon 2e-5 apart " +
		"plus sub-pixel polygons that collapse, sub-pixel polygons astride a corner of four pixels (which do not) and (with -iog) polygons outside the grid, 1-5 attribute columns with NULLs, geometry column anywhere; id lists of 1-3 ids, page sizes 1..7 and 1000, all keep/reverse/ignore flags (each option by its long name, its alias or its environment variable), " +
		"target paths over a safe alphabet (dots in directory and file names, no extension), with pre-existing target files of other content when overwrite is on. Expected content is computed by calling snap.SnapPolygon in-process. " +
		"Non-trivial = at least two ids and a polygon table where some feature is omitted or becomes a multipolygon for some id; distinct by command line + source content."
	bin := texelBin()
	if _, err := os.Stat(bin); err != nil {
		r.Notes = append(r.Notes, "texel binary missing: "+err.Error())
		r.diff(Diff{Stream: "cli", Op: "build", Impl: "binary not built", Model: "-"})
		return
	}
	dir, err := os.MkdirTemp(scratchBase(), "vh-c13-")
	if err != nil {
		r.Notes = append(r.Notes, err.Error())
		return
	}
	defer os.RemoveAll(dir)
	initWindows()
	wins := []window{realWindows[0], realWindows[1], realWindows[2]}
	n := e.n(60, 2500)
	hangs := 0
	for it := 0; it < n; it++ {
		w := wins[e.rng.Intn(len(wins))]
		if it%8 == 7 { // the deepest levels the library still snaps on (WebMercatorQuad 19 and 20: levels 31 and 32)
			w = realWindows[5]
		}
		rd := w.gs // the tile matrix set of this run
		setName, setSRS := "NetherlandsRDNewQuad", int32(28992)
		if w.gs.name != "NetherlandsRDNewQuad" {
			setName, setSRS = w.gs.name, 3857
		}
		w.G = 16
		var ids []int
		for id := w.minID; id <= w.maxID; id++ {
			if e.rng.Intn(2) == 0 {
				ids = append(ids, id)
			}
		}
		if len(ids) == 0 {
			ids = []int{w.maxID}
		}
		e.rng.Shuffle(len(ids), func(i, j int) { ids[i], ids[j] = ids[j], ids[i] })
		cfg := snap.Config{KeepPointsAndLines: e.rng.Intn(2) == 0, ReverseWindingOrder: e.rng.Intn(2) == 0, IgnoreOutsideGrid: e.rng.Intn(2) == 0}
		pagesize := []int{1, 2, 3, 5, 7, 1000}[e.rng.Intn(6)]
		// ---- source
		var tables []*tableSpec
		ntab := 1 + e.rng.Intn(3)
		for ti := 0; ti < ntab; ti++ {
			gt := []gpkg.GeometryType{gpkg.Polygon, gpkg.Polygon, gpkg.MultiPolygon, gpkg.Point, gpkg.Linestring, gpkg.Geometry, gpkg.MultiPoint}[e.rng.Intn(7)]
			if ti == 0 {
				gt = gpkg.Polygon
			}
			t := randTable(e.rng, fmt.Sprintf("t%d_%s", ti, strings.ToLower(gt.String())), gt, e.rng.Intn(26), 0)
			if gt == gpkg.Polygon || gt == gpkg.MultiPolygon || gt == gpkg.Geometry { // the other tables keep a reference system of their own
				t.srs = setSRS
			}
			pix := pixelSize(rd, ids[0])
			for i := range t.geoms {
				switch gt {
				case gpkg.Polygon, gpkg.MultiPolygon:
					mk := func() geom.Polygon {
						switch e.rng.Intn(8) {
						case 0: // far below a pixel of every requested id: collapses
							x, y := w.baseX+e.rng.Float64()*100, w.baseY+e.rng.Float64()*100
							d := pix / 50
							return geom.Polygon{{{x, y}, {x + d, y}, {x, y + d}}}
						case 2: // smaller than a pixel, but astride a corner of four pixels of the first requested id: it does not collapse there
							if ebl, _, err := rd.tms.MatrixBoundingBox(0); err == nil {
								kx := math.Floor((w.baseX-ebl[0])/pix) + float64(2+e.rng.Intn(10))
								ky := math.Floor((w.baseY-ebl[1])/pix) + float64(2+e.rng.Intn(10))
								cx, cy, h := ebl[0]+kx*pix, ebl[1]+ky*pix, 0.4*pix
								return geom.Polygon{{{cx - h, cy - h}, {cx + h, cy - h}, {cx + h, cy + h}, {cx - h, cy + h}}}
							}
						case 1:
							if cfg.IgnoreOutsideGrid { // outside the extent of the set
								return geom.Polygon{{{-4e8, 0}, {-3.99e8, 0}, {-3.99e8, 1000}}}
							}
						}
						for {
							if c := genCase(e.rng, w, true, 16); c != nil {
								return c.poly
							}
						}
					}
					if gt == gpkg.Polygon {
						t.geoms[i] = mk()
					} else {
						mp := geom.MultiPolygon{}
						for k := 0; k < 1+e.rng.Intn(3); k++ {
							mp = append(mp, mk())
						}
						t.geoms[i] = mp
					}
				default:
					t.geoms[i] = randGeom(e.rng, gt, i, 10)
				}
			}
			// a near-duplicate of an earlier polygon of the table (the same parcel from another survey: every vertex 2e-5 to the left, which is
			// another pixel for the vertices on a pixel border): it must get its own geometry
			if gt == gpkg.Polygon && len(t.geoms) >= 2 && e.rng.Intn(3) == 0 {
				if src, ok := t.geoms[0].(geom.Polygon); ok {
					cp := make(geom.Polygon, len(src))
					for ri := range src {
						cp[ri] = make([][2]float64, len(src[ri]))
						for vi, v := range src[ri] {
							cp[ri][vi] = [2]float64{v[0] - 2e-5, v[1]}
						}
					}
					t.geoms[len(t.geoms)-1] = cp
					r.Dist["cli:near-duplicate-polygon"]++
				}
			}
			tables = append(tables, t)
		}
		caseDir := filepath.Join(dir, fmt.Sprintf("c%d", it))
		sub := []string{"", "out.dir", "a/b"}[e.rng.Intn(3)]
		_ = os.MkdirAll(filepath.Join(caseDir, sub), 0o755)
		src := filepath.Join(caseDir, "source.gpkg")
		if err := writeSource(src, tables); err != nil {
			r.Notes = append(r.Notes, "could not write a source: "+err.Error())
			continue
		}
		base := []string{"target.gpkg", "my.target.gpkg", "target", "t-1_x.gpkg"}[e.rng.Intn(4)]
		target := filepath.Join(caseDir, sub, base)
		ext := filepath.Ext(base)
		stem := strings.TrimSuffix(base, ext)
		pathFor := func(id int) string { return filepath.Join(caseDir, sub, fmt.Sprintf("%s_%d%s", stem, id, ext)) }
		overwrite := e.rng.Intn(2) == 0
		if overwrite && e.rng.Intn(2) == 0 { // pre-existing targets with other content
			for _, id := range ids {
				old := randTable(e.rng, "old_table", gpkg.Point, 3, 0)
				old.srs = 4326
				_ = writeSource(pathFor(id), []*tableSpec{old})
			}
			r.Dist["cli:pre-existing-targets"]++
		}
		idsJSON, _ := json.Marshal(ids)
		// every option is given by its long name, by its alias or through the environment (the flag's name in capitals)
		args := []string{"-s", src, "-t", target, "-tms", setName}
		var envs []string
		give := func(name, alias, value string, isBool bool) {
			switch e.rng.Intn(3) {
			case 0:
				args = append(args, "--"+name)
				if !isBool {
					args = append(args, value)
				}
			case 1:
				args = append(args, "-"+alias)
				if !isBool {
					args = append(args, value)
				}
			default:
				envs = append(envs, strings.ToUpper(name)+"="+value)
				r.Dist["cli:option-through-environment"]++
			}
		}
		give("tilematrices", "z", string(idsJSON), false)
		give("pagesize", "p", fmt.Sprint(pagesize), false)
		for _, b := range []struct {
			on          bool
			name, alias string
		}{{cfg.KeepPointsAndLines, "keeppointsandlines", "pl"}, {cfg.ReverseWindingOrder, "reversewindingorder", "rwo"}, {cfg.IgnoreOutsideGrid, "ignoreoutsidegrid", "iog"}, {overwrite, "overwrite", "o"}} {
			if b.on {
				give(b.name, b.alias, "true", true)
			}
		}
		ctx, cancel := context.WithTimeout(context.Background(), 30*time.Second)
		cmd := exec.CommandContext(ctx, bin, args...)
		cmd.Env = cleanEnv(envs)
		var stderr bytes.Buffer
		cmd.Stderr = &stderr
		cmd.Stdout = &stderr
		runErr := cmd.Run()
		hung := ctx.Err() == context.DeadlineExceeded
		cancel()
		op := strings.TrimSpace(strings.Join(envs, " ") + " texel " + strings.Join(args, " "))
		desc := op + fmt.Sprintf(" | %d table(s):", len(tables))
		for _, t := range tables {
			desc += fmt.Sprintf(" %s(%d rows, %d cols)", t.name, len(t.rows), len(t.cols))
		}
		// ---- expectation from the library
		nontrivial := false
		libPanic := ""
		type want struct {
			rows  []rowBack
			geoms []geom.Geometry
		}
		expected := map[int]map[string]want{}
		for _, id := range ids {
			expected[id] = map[string]want{}
			for _, t := range tables {
				var wnt want
				idx := make([]int, len(t.rows))
				for i := range idx {
					idx[i] = i
				}
				sort.SliceStable(idx, func(a, b int) bool { return t.rows[idx[a]][0].(int64) < t.rows[idx[b]][0].(int64) })
				for _, i := range idx {
					g, present, p := libGeometry(t.geoms[i], rd, ids, id, cfg)
					if p != "" {
						libPanic = p
						continue
					}
					if !present {
						nontrivial = nontrivial || len(ids) > 1
						continue
					}
					if _, isMulti := g.(geom.MultiPolygon); isMulti && t.gtype == gpkg.Polygon {
						nontrivial = nontrivial || len(ids) > 1
					}
					var rb rowBack
					for _, v := range t.rows[i] {
						rb.attrs = append(rb.attrs, printVal(v))
					}
					rb.wkt, _ = wkt.EncodeString(g)
					rb.empty = cmp.IsEmptyGeo(g)
					wnt.rows = append(wnt.rows, rb)
					wnt.geoms = append(wnt.geoms, g)
				}
				expected[id][t.name] = wnt
			}
		}
		r.count("cli", desc, nontrivial)
		if hung {
			r.violation(Violation{Oracle: "tool-returns", Op: desc, Impl: "still running after 30 seconds (killed)", Detail: "sources of at most 3 tables of at most 25 features take well under a second"})
			os.RemoveAll(caseDir)
			if hangs++; hangs >= 3 {
				r.Notes = append(r.Notes, "stopped after three runs that did not return")
				break
			}
			continue
		}
		if libPanic != "" {
			// the library panics on this input (outside grid without -iog): the tool must fail too
			if runErr == nil {
				r.violation(Violation{Oracle: "tool-fails-when-the-library-panics", Op: desc, Impl: "exit 0", Detail: "library: " + libPanic})
			}
			r.Dist["cli:library-panics"]++
			os.RemoveAll(caseDir)
			continue
		}
		if runErr != nil {
			tail := stderr.String()
			if len(tail) > 600 {
				tail = tail[len(tail)-600:]
			}
			r.violation(Violation{Oracle: "tool-runs", Op: desc, Impl: runErr.Error(), Detail: tail})
			os.RemoveAll(caseDir)
			continue
		}
		// exactly one target file per id
		entries, _ := os.ReadDir(filepath.Join(caseDir, sub))
		var files []string
		for _, en := range entries {
			if !en.IsDir() && en.Name() != "source.gpkg" && !strings.HasSuffix(en.Name(), "-journal") {
				files = append(files, en.Name())
			}
		}
		sort.Strings(files)
		var wantFiles []string
		for _, id := range ids {
			wantFiles = append(wantFiles, filepath.Base(pathFor(id)))
		}
		sort.Strings(wantFiles)
		if strings.Join(files, " ") != strings.Join(wantFiles, " ") {
			r.violation(Violation{Oracle: "one-target-file-per-id-named-_<id>", Op: desc, Impl: strings.Join(files, " "), Detail: "expected " + strings.Join(wantFiles, " ")})
		}
		for _, id := range ids { // the model's path construction against the file that exists
			rel := filepath.Join(sub, base)
			impl := "missing"
			if _, err := os.Stat(pathFor(id)); err == nil {
				impl = filepath.Join(sub, fmt.Sprintf("%s_%d%s", stem, id, ext))
			}
			r.stream("tpath").Ops++
			e.pending = append(e.pending, pendingOp{"tpath", fmt.Sprintf("tpath %s %d", rel, id), impl})
		}
		e.flush()
		for _, id := range ids {
			for _, t := range tables {
				got, err := readBack(pathFor(id), t.name, t.gcol)
				if err != nil {
					r.violation(Violation{Oracle: "target-readable", Op: desc, Detail: fmt.Sprintf("id %d table %s: %v", id, t.name, err)})
					continue
				}
				srcBack, _ := readBack(src, t.name, t.gcol)
				w := expected[id][t.name]
				if bad := compareTable(t, w.rows, w.geoms, got, srcBack); bad != "" {
					r.violation(Violation{Oracle: "table-holds-what-the-library-computes", Op: desc, Impl: fmt.Sprintf("id %d table %s: %d rows", id, t.name, len(got.rows)), Detail: fmt.Sprintf("id %d table %s: %s", id, t.name, bad)})
				}
			}
			if overwrite {
				if old, err := readBack(pathFor(id), "old_table", "geom"); err == nil && old != nil {
					r.violation(Violation{Oracle: "overwrite-leaves-nothing", Op: desc, Detail: fmt.Sprintf("id %d: table old_table of the pre-existing file survived", id)})
				}
			}
		}
		os.RemoveAll(caseDir)
	}
}

// cleanEnv: the harness's environment without any variable the tool reads, plus the given ones
func cleanEnv(extra []string) []string {
	var out []string
	for _, kv := range os.Environ() {
		name := strings.SplitN(kv, "=", 2)[0]
		switch name {
		case "SOURCE_GPKG", "TARGET_GPKG", "OVERWRITE", "TILEMATRIXSET", "TILEMATRICES", "PAGESIZE", "KEEPPOINTSANDLINES", "IGNOREOUTSIDEGRID", "REVERSEWINDINGORDER":
			continue
		}
		out = append(out, kv)
	}
	return append(out, extra...)
}
