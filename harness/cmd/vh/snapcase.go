package main

import (
	"fmt"
	"sort"
	"strconv"
	"strings"
	"time"

	"github.com/go-spatial/geom"
	"github.com/pdok/texel/intgeom"
	"github.com/pdok/texel/pointindex"
	"github.com/pdok/texel/snap"
	"github.com/pdok/texel/tms20"
)

// gridSpec: a tile matrix set together with the integer grid the index derives from it (read through the hook XGrid)
type gridSpec struct {
	name      string
	tms       tms20.TileMatrixSet
	levelDiff uint // level = tile matrix id + levelDiff
	round     bool // extent divides evenly into pixels on every level up to maxID
	maxID     int
	grids     map[int]grid // by deepest id
}

func (gs *gridSpec) gridFor(deepestID int) grid {
	if g, ok := gs.grids[deepestID]; ok {
		return g
	}
	ix, err := pointindex.FromTileMatrixSet(gs.tms, deepestID)
	if err != nil {
		panic(err)
	}
	g := gridOf(ix)
	gs.grids[deepestID] = g
	return g
}

func newSynth(deepest uint, ox, oy float64) *gridSpec {
	return &gridSpec{name: fmt.Sprintf("synth(d=%d,o=%g,%g)", deepest, ox, oy), tms: synthTMS(deepest, 16, ox, oy), levelDiff: 4, round: true, maxID: int(deepest), grids: map[int]grid{}}
}

func newReal(name string, maxID int, round bool) *gridSpec {
	t, err := loadSet(name)
	if err != nil {
		panic(err)
	}
	return &gridSpec{name: name, tms: t, levelDiff: 12, round: round, maxID: maxID, grids: map[int]grid{}}
}

// setVariants: what a user may build from a built-in tile matrix set and hand to the library (name = "<built-in>+<variant>")
var setVariants = []string{"matrices-x2", "tiles-512", "tiles-128", "from-1"}

// loadSet: a built-in tile matrix set, or a variant of one: every matrix of twice as many tiles each way (a first matrix of 2 x 2 tiles),
// tiles of 512 or 128 pixels (the cell sizes kept), the first matrix dropped and the others renumbered from 0, the whole set moved by a
// quarter of its width
func loadSet(name string) (tms20.TileMatrixSet, error) {
	base, variant, _ := strings.Cut(name, "+")
	t, err := tms20.LoadEmbeddedTileMatrixSet(base)
	if err != nil || variant == "" {
		return t, err
	}
	c := cloneTMS(t) // under the id of the built-in set: nothing may be remembered by id
	switch variant {
	case "moved":
		span := t.TileMatrices[0].CellSize * float64(t.TileMatrices[0].TileWidth)
		for id, tm := range c.TileMatrices {
			tm.PointOfOrigin[0] -= span / 4 // towards the lower left: the upper right corner of the moved set lies inside the original one
			tm.PointOfOrigin[1] -= span / 4
			c.TileMatrices[id] = tm
		}
	case "matrices-x2":
		for id, tm := range c.TileMatrices {
			tm.MatrixWidth, tm.MatrixHeight = 2*tm.MatrixWidth, 2*tm.MatrixHeight
			c.TileMatrices[id] = tm
		}
	case "tiles-512", "tiles-128":
		for id, tm := range c.TileMatrices {
			tm.TileWidth, tm.TileHeight = 512, 512
			if variant == "tiles-128" {
				tm.TileWidth, tm.TileHeight = 128, 128
			}
			c.TileMatrices[id] = tm
		}
	case "from-1":
		c.TileMatrices = map[tms20.TMID]tms20.TileMatrix{}
		for id, tm := range t.TileMatrices {
			if id == 0 {
				continue
			}
			o := *tm.PointOfOrigin
			tm.PointOfOrigin = &o
			tm.ID = strconv.Itoa(id - 1)
			c.TileMatrices[id-1] = tm
		}
	default:
		return t, fmt.Errorf("unknown variant %q", variant)
	}
	return c, nil
}

type snapCase struct {
	gs    *gridSpec
	tmids []int
	cfg   snap.Config
	poly  geom.Polygon // the floats handed to SnapPolygon
	rings [][]ipt      // the same vertices as int64 (intgeom.FromGeomPoint), what the model sees
	tag   string       // generator family
	// skipModel: arbitrary (invalid) polygons on non-dyadic real grids are outside the model's precondition: there the code's
	// float orientation / area / ray tests on near-degenerate rings need not agree with the exact ones of the model
	// (DESIGN §7, float seams). The property oracles still run on them.
	skipModel bool
	// before: calls made in the same process just before this one (neighbours sharing an edge, a polygon leaving the grid); only a
	// history-dependent implementation needs them to reproduce a failure — the replay with the same seed makes them again
	before []string
}

func (c *snapCase) deepest() int {
	m := c.tmids[0]
	for _, t := range c.tmids {
		if t > m {
			m = t
		}
	}
	return m
}
func (c *snapCase) grid() grid { return c.gs.gridFor(c.deepest()) }
func (c *snapCase) levels() []uint {
	ls := make([]uint, len(c.tmids))
	for i, t := range c.tmids {
		ls[i] = uint(t) + c.gs.levelDiff
	}
	return ls
}

func (c *snapCase) setPoly(poly geom.Polygon) {
	c.poly = poly
	c.rings = make([][]ipt, len(poly))
	for i, r := range poly {
		c.rings[i] = make([]ipt, len(r))
		for j, v := range r {
			p := intgeom.FromGeomPoint(v)
			c.rings[i][j] = ipt{p[0], p[1]}
		}
	}
}

func (c *snapCase) opWith(kind string) string {
	var sb strings.Builder
	g := c.grid()
	ls := c.levels()
	sort.Slice(ls, func(i, j int) bool { return ls[i] < ls[j] })
	fmt.Fprintf(&sb, "%s %s %s %s %s %d", kind, g, b2s(c.cfg.KeepPointsAndLines), b2s(c.cfg.ReverseWindingOrder), b2s(c.cfg.IgnoreOutsideGrid), len(ls))
	for _, l := range ls {
		fmt.Fprintf(&sb, " %d", l)
	}
	fmt.Fprintf(&sb, " %d", len(c.rings))
	for _, r := range c.rings {
		fmt.Fprintf(&sb, " %d", len(r))
		for _, p := range r {
			fmt.Fprintf(&sb, " %d %d", p.x, p.y)
		}
	}
	return sb.String()
}
func (c *snapCase) op() string { return c.opWith("snap") }

// describe: the human-readable part of a replay (tile matrix set, ids, flags, float coordinates)
func (c *snapCase) describe() string {
	d := fmt.Sprintf("tms=%s ids=%v keep=%v reverse=%v ignoreOutside=%v polygon=%v", c.gs.name, c.tmids, c.cfg.KeepPointsAndLines, c.cfg.ReverseWindingOrder, c.cfg.IgnoreOutsideGrid, c.poly)
	if len(c.before) > 0 {
		d += " | snapped just before, same set, ids and flags: " + strings.Join(c.before, "; ")
	}
	return d
}

type ring = []ipt
type polygonI = []ring

// snapResult: the implementation's answer in pixel indices
type snapResult struct {
	panicMsg  string
	hang      bool
	levels    map[uint][]polygonI
	notCentre []string // returned coordinates that are not bit-exactly a pixel centre of their level
	elapsed   time.Duration
}

func panicClass(msg string) string {
	switch {
	case strings.Contains(msg, "outside the grid"), strings.Contains(msg, "outside-grid"):
		return "outside-grid"
	case strings.Contains(msg, "no points found"):
		return "no points found"
	case strings.Contains(msg, "cannot make Z"):
		return "cannot make Z"
	case strings.Contains(msg, "partial rings remaining"), strings.Contains(msg, "reached end of ring with stack"):
		return "partial rings remaining on stack"
	case strings.Contains(msg, "index out of range"):
		return "index out of range"
	case strings.Contains(msg, "slice bounds out of range"):
		return "slice bounds out of range"
	case strings.Contains(msg, "nil pointer"):
		return "nil pointer"
	case strings.Contains(msg, "fuel("):
		return "hang " + msg
	}
	return "other: " + msg
}

var idsBuf = make([]int, 0, 64)

const hangLimit = 20 * time.Second

// runImpl calls the real SnapPolygon under recover and a watchdog
func (c *snapCase) runImpl() *snapResult {
	type out struct {
		res map[tms20.TMID][]geom.Polygon
		p   string
	}
	ch := make(chan out, 1)
	start := time.Now()
	mark(c.op())
	// a caller may keep one slice of ids and overwrite it between calls: the result must depend on what is in it now
	idsBuf = append(idsBuf[:0], c.tmids...)
	ids := idsBuf
	go func() {
		var o out
		defer func() {
			if r := recover(); r != nil {
				o.p = fmt.Sprint(r)
			}
			ch <- o
		}()
		o.res = snap.SnapPolygon(c.poly, c.gs.tms, ids, c.cfg)
	}()
	var o out
	select {
	case o = <-ch:
		unmark()
	case <-time.After(hangLimit):
		unmark()                    // reported as a hang by the caller
		idsBuf = make([]int, 0, 64) // the hung call still holds the old one
		return &snapResult{hang: true, elapsed: time.Since(start)}
	}
	sr := &snapResult{levels: map[uint][]polygonI{}, elapsed: time.Since(start)}
	if o.p != "" {
		sr.panicMsg = o.p
		return sr
	}
	g := c.grid()
	for id, polys := range o.res {
		l := uint(id) + c.gs.levelDiff
		ps := make([]polygonI, len(polys))
		for i, pg := range polys {
			ps[i] = make(polygonI, len(pg))
			for j, rg := range pg {
				ps[i][j] = make(ring, len(rg))
				for k, v := range rg {
					kx, ok1 := g.canon(l, v[0], g.minX)
					ky, ok2 := g.canon(l, v[1], g.minY)
					if !ok1 || !ok2 {
						sr.notCentre = append(sr.notCentre, fmt.Sprintf("id %d: (%v, %v)", id, v[0], v[1]))
					}
					ps[i][j][k] = ipt{kx, ky}
				}
			}
		}
		sr.levels[l] = ps
	}
	return sr
}

func fmtRing(r ring) string {
	parts := make([]string, len(r))
	for i, p := range r {
		parts[i] = fmt.Sprintf("%d,%d", p.x, p.y)
	}
	return strings.Join(parts, " ")
}

func fmtPolys(ps []polygonI) string {
	pp := make([]string, len(ps))
	for i, pg := range ps {
		rr := make([]string, len(pg))
		for j, r := range pg {
			rr[j] = fmtRing(r)
		}
		pp[i] = strings.Join(rr, "|")
	}
	return strings.Join(pp, ";")
}

// canonical text, the same format the driver prints
func (sr *snapResult) String() string {
	if sr.hang {
		return "hang"
	}
	if sr.panicMsg != "" {
		return "panic " + panicClass(sr.panicMsg)
	}
	ls := make([]uint, 0, len(sr.levels))
	for l := range sr.levels {
		ls = append(ls, l)
	}
	sort.Slice(ls, func(i, j int) bool { return ls[i] < ls[j] })
	parts := make([]string, len(ls))
	for i, l := range ls {
		parts[i] = fmt.Sprintf("L%d:[%s]", l, fmtPolys(sr.levels[l]))
	}
	return "ok " + strings.Join(parts, " ")
}

func canonModel(ans string) string {
	if strings.HasPrefix(ans, "panic ") {
		return "panic " + panicClass(ans[6:])
	}
	return ans
}

// parseChains parses the driver's answer to a `chains` op: level -> ring index -> chain
func parseChains(ans string) map[uint][]ring {
	res := map[uint][]ring{}
	if !strings.HasPrefix(ans, "ok ") {
		return nil
	}
	for _, part := range splitLevels(ans[3:]) {
		var l uint
		i := strings.Index(part, ":[")
		fmt.Sscanf(part[1:i], "%d", &l)
		body := part[i+2 : len(part)-1]
		var rings []ring
		for _, rs := range strings.Split(body, "|") {
			rings = append(rings, parseRing(rs))
		}
		res[l] = rings
	}
	return res
}

func splitLevels(s string) []string {
	var parts []string
	for _, p := range strings.Split(s, " L") {
		p = strings.TrimSpace(p)
		if p == "" {
			continue
		}
		if !strings.HasPrefix(p, "L") {
			p = "L" + p
		}
		parts = append(parts, p)
	}
	return parts
}

func parseRing(s string) ring {
	var r ring
	for _, f := range strings.Fields(s) {
		var x, y int64
		fmt.Sscanf(f, "%d,%d", &x, &y)
		r = append(r, ipt{x, y})
	}
	return r
}
