// trgen morton: translate morton/morton.go (masks, powersOfTwo, ToZ, FromZ) into Lean 4 definitions over BitVec 64.
// Accepts only the shapes described in DESIGN.md §4.1 and fails loudly on anything else.
package main

import (
	"fmt"
	"go/ast"
	"go/parser"
	"go/token"
	"os"
	"strconv"
	"strings"
)

var tables = map[string][]uint64{}

// dieHook, when set, is called instead of exiting (used where a failure to translate is tolerated)
var dieHook func()

func die(format string, a ...any) {
	if dieHook != nil {
		dieHook()
	}
	fmt.Fprintf(os.Stderr, "trgen: "+format+"\n", a...)
	os.Exit(2)
}

func parseUint(lit string) uint64 {
	s := strings.ReplaceAll(lit, "_", "")
	v, err := strconv.ParseUint(s, 0, 64)
	if err != nil {
		die("bad integer literal %q", lit)
	}
	return v
}

// constant integer expression in terms of the loop variable
func evalInt(e ast.Expr, env map[string]int64) int64 {
	switch t := e.(type) {
	case *ast.BasicLit:
		return int64(parseUint(t.Value))
	case *ast.Ident:
		v, ok := env[t.Name]
		if !ok {
			die("unknown integer %q", t.Name)
		}
		return v
	case *ast.BinaryExpr:
		a, b := evalInt(t.X, env), evalInt(t.Y, env)
		switch t.Op {
		case token.ADD:
			return a + b
		case token.SUB:
			return a - b
		}
	case *ast.ParenExpr:
		return evalInt(t.X, env)
	}
	die("unsupported index expression %T", e)
	return 0
}

// bit-vector expression -> Lean
func bv(e ast.Expr, env map[string]int64, names map[string]string) string {
	switch t := e.(type) {
	case *ast.Ident:
		n, ok := names[t.Name]
		if !ok {
			die("unknown variable %q", t.Name)
		}
		return n
	case *ast.ParenExpr:
		return "(" + bv(t.X, env, names) + ")"
	case *ast.IndexExpr:
		id, ok := t.X.(*ast.Ident)
		if !ok {
			die("unsupported index base")
		}
		tab, ok := tables[id.Name]
		if !ok {
			die("unknown table %q", id.Name)
		}
		i := evalInt(t.Index, env)
		if i < 0 || int(i) >= len(tab) {
			die("index %d out of range for %s", i, id.Name)
		}
		return fmt.Sprintf("0x%016X#64", tab[i])
	case *ast.BinaryExpr:
		switch t.Op {
		case token.OR:
			return bv(t.X, env, names) + " ||| " + bv(t.Y, env, names)
		case token.AND:
			return bv(t.X, env, names) + " &&& " + bv(t.Y, env, names)
		case token.SHL, token.SHR:
			op := " <<< "
			if t.Op == token.SHR {
				op = " >>> "
			}
			var amount int64
			switch y := t.Y.(type) {
			case *ast.IndexExpr:
				id := y.X.(*ast.Ident)
				tab, ok := tables[id.Name]
				if !ok {
					die("unknown table %q", id.Name)
				}
				i := evalInt(y.Index, env)
				if i < 0 || int(i) >= len(tab) {
					die("index %d out of range for %s", i, id.Name)
				}
				amount = int64(tab[i])
			default:
				amount = evalInt(t.Y, env)
			}
			return bv(t.X, env, names) + op + strconv.FormatInt(amount, 10)
		}
	}
	die("unsupported expression %T", e)
	return ""
}

type emitter struct {
	lines []string
	names map[string]string // Go variable -> current Lean name
}

func (em *emitter) assign(lhs string, rhs ast.Expr, env map[string]int64) {
	r := bv(rhs, env, em.names)
	em.lines = append(em.lines, fmt.Sprintf("  let %s : BitVec 64 := %s", lhs, r))
	em.names[lhs] = lhs
}

func (em *emitter) stmt(s ast.Stmt, env map[string]int64, okLine *string) {
	switch t := s.(type) {
	case *ast.AssignStmt:
		if len(t.Lhs) != 1 || len(t.Rhs) != 1 {
			die("unsupported assignment")
		}
		name := t.Lhs[0].(*ast.Ident).Name
		if name == "ok" {
			// ok = x <= math.MaxUint32 && y <= math.MaxUint32
			be, okb := t.Rhs[0].(*ast.BinaryExpr)
			if !okb || be.Op != token.LAND {
				die("unsupported ok expression")
			}
			var parts []string
			for _, side := range []ast.Expr{be.X, be.Y} {
				c, okc := side.(*ast.BinaryExpr)
				if !okc || c.Op != token.LEQ {
					die("unsupported ok comparison")
				}
				sel, oks := c.Y.(*ast.SelectorExpr)
				if !oks || sel.Sel.Name != "MaxUint32" {
					die("unsupported ok bound")
				}
				parts = append(parts, fmt.Sprintf("decide (%s ≤ 0x00000000FFFFFFFF#64)", em.names[c.X.(*ast.Ident).Name]))
			}
			*okLine = "  let ok : Bool := " + strings.Join(parts, " && ")
			em.lines = append(em.lines, *okLine)
			em.names["ok"] = "ok"
			return
		}
		em.assign(name, t.Rhs[0], env)
	case *ast.ForStmt:
		init := t.Init.(*ast.AssignStmt)
		v := init.Lhs[0].(*ast.Ident).Name
		i := evalInt(init.Rhs[0], env)
		cond := t.Cond.(*ast.BinaryExpr)
		bound := evalInt(cond.Y, env)
		post := t.Post.(*ast.IncDecStmt)
		step := int64(1)
		if post.Tok == token.DEC {
			step = -1
		}
		for n := 0; n < 200; n++ {
			holds := false
			switch cond.Op {
			case token.GEQ:
				holds = i >= bound
			case token.LEQ:
				holds = i <= bound
			case token.LSS:
				holds = i < bound
			case token.GTR:
				holds = i > bound
			default:
				die("unsupported loop condition")
			}
			if !holds {
				return
			}
			env2 := map[string]int64{v: i}
			for _, b := range t.Body.List {
				em.stmt(b, env2, okLine)
			}
			i += step
		}
		die("loop does not terminate within 200 iterations")
	case *ast.ReturnStmt:
		var rs []string
		for _, r := range t.Results {
			rs = append(rs, em.names[r.(*ast.Ident).Name])
		}
		em.lines = append(em.lines, "  ("+strings.Join(rs, ", ")+")")
	default:
		die("unsupported statement %T", s)
	}
}

func trMorton(path string) string {
	fset := token.NewFileSet()
	f, err := parser.ParseFile(fset, path, nil, 0)
	if err != nil {
		die("%v", err)
	}
	var out []string
	out = append(out, "/-! GENERATED by trgen morton from morton/morton.go — do not edit. -/", "namespace Texel.Gen.Morton", "")
	for _, d := range f.Decls {
		if g, ok := d.(*ast.GenDecl); ok && g.Tok == token.VAR {
			for _, sp := range g.Specs {
				vs := sp.(*ast.ValueSpec)
				for i, n := range vs.Names {
					cl, ok := vs.Values[i].(*ast.CompositeLit)
					if !ok {
						continue
					}
					var vals []uint64
					for _, e := range cl.Elts {
						vals = append(vals, parseUint(e.(*ast.BasicLit).Value))
					}
					tables[n.Name] = vals
					var ss []string
					for _, v := range vals {
						ss = append(ss, fmt.Sprintf("0x%016X", v))
					}
					out = append(out, fmt.Sprintf("def %s : List Nat := [%s]", n.Name, strings.Join(ss, ", ")))
				}
			}
		}
	}
	for _, d := range f.Decls {
		fn, ok := d.(*ast.FuncDecl)
		if !ok {
			continue
		}
		switch fn.Name.Name {
		case "ToZ", "FromZ":
			em := &emitter{names: map[string]string{}}
			var params []string
			for _, p := range fn.Type.Params.List {
				for _, n := range p.Names {
					em.names[n.Name] = n.Name
					params = append(params, n.Name)
				}
			}
			okLine := ""
			for _, s := range fn.Body.List {
				em.stmt(s, map[string]int64{}, &okLine)
			}
			ret := "BitVec 64 × Bool"
			name := "toZ"
			if fn.Name.Name == "FromZ" {
				ret = "BitVec 64 × BitVec 64"
				name = "fromZ"
			}
			out = append(out, "", fmt.Sprintf("def %s (%s : BitVec 64) : %s :=", name, strings.Join(params, " "), ret))
			out = append(out, em.lines...)
		}
	}
	out = append(out, "", "end Texel.Gen.Morton")
	return strings.Join(out, "\n") + "\n"
}
