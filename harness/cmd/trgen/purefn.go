// trgen mathhelp: translate the pure integer helpers of mathhelp/mathhelp.go that the exact pixel test and the address arithmetic rest on
// (FloorDiv, abs64, mul128, CmpProducts) into Lean 4 definitions over Int.
//
// A function is accepted when its body consists of: `x := e`, `x, y := e1, e2`, `x, y, z := f(…)` (f a translated function or bits.Mul64),
// `x = e`, `x, y = …`, `x--`, `if c { … }` (with or without a `return` at its end, no else), a tagless `switch` whose cases either all end in
// `return` or only assign, and `return e…` (or a bare `return` with named results). Expressions: integer literals, identifiers, unary `-` and `!`,
// `+ - *`, `/` and `%` (Go's truncating division and remainder: Int.tdiv, Int.tmod), comparisons, `&& ||`, parentheses, conversions between
// integer types (dropped: DESIGN §7), calls of translated functions. `bits.Mul64(x, y)` is read as the two 64-bit halves of the exact product
// (`(x*y) / 2^64`, `(x*y) % 2^64`; standard library, trusted). Variables assigned inside an `if` or `switch` that does not return are merged
// (`let x := if c then … else x`). Anything else: exit 2.
package main

import (
	"fmt"
	"go/ast"
	"go/parser"
	"go/token"
	"path/filepath"
	"strings"
)

type pfEnv struct {
	fset    *token.FileSet
	fn      string
	known   map[string]bool // translated functions
	results []string        // named results
}

func (p *pfEnv) expr(e ast.Expr) string {
	switch t := e.(type) {
	case *ast.Ident:
		if t.Name == "true" || t.Name == "false" {
			return t.Name
		}
		return t.Name
	case *ast.BasicLit:
		if t.Kind != token.INT {
			die("mathhelp %s: literal %s", p.fn, t.Value)
		}
		return fmt.Sprintf("(%d : Int)", parseUint(t.Value))
	case *ast.ParenExpr:
		return "(" + p.expr(t.X) + ")"
	case *ast.UnaryExpr:
		switch t.Op {
		case token.SUB:
			return "(-" + p.expr(t.X) + ")"
		case token.NOT:
			return "(!" + p.expr(t.X) + ")"
		}
		die("mathhelp %s: unary %s", p.fn, t.Op)
	case *ast.BinaryExpr:
		x, y := p.expr(t.X), p.expr(t.Y)
		switch t.Op {
		case token.ADD, token.SUB, token.MUL:
			return "(" + x + " " + t.Op.String() + " " + y + ")"
		case token.QUO:
			return "(Int.tdiv " + x + " " + y + ")"
		case token.REM:
			return "(Int.tmod " + x + " " + y + ")"
		case token.LSS, token.GTR:
			return "decide (" + x + " " + t.Op.String() + " " + y + ")"
		case token.LEQ:
			return "decide (" + x + " ≤ " + y + ")"
		case token.GEQ:
			return "decide (" + x + " ≥ " + y + ")"
		case token.EQL:
			return "decide (" + x + " = " + y + ")"
		case token.NEQ:
			return "decide (" + x + " ≠ " + y + ")"
		case token.LAND:
			return "(" + x + " && " + y + ")"
		case token.LOR:
			return "(" + x + " || " + y + ")"
		}
		die("mathhelp %s: operator %s", p.fn, t.Op)
	case *ast.CallExpr:
		fun := goText(p.fset, t.Fun)
		if intConversions[fun] && len(t.Args) == 1 {
			return p.expr(t.Args[0])
		}
		var args []string
		for _, a := range t.Args {
			args = append(args, p.expr(a))
		}
		if fun == "bits.Mul64" && len(args) == 2 {
			return "(mul64 " + strings.Join(args, " ") + ")"
		}
		if p.known[fun] {
			return "(" + lowerFirst(fun) + " " + strings.Join(args, " ") + ")"
		}
		die("mathhelp %s: call %s", p.fn, fun)
	}
	die("mathhelp %s: unsupported expression %s", p.fn, goText(p.fset, e))
	return ""
}

func lowerFirst(s string) string { return strings.ToLower(s[:1]) + s[1:] }

func tuple(xs []string) string {
	if len(xs) == 1 {
		return xs[0]
	}
	return "(" + strings.Join(xs, ", ") + ")"
}

// assigned: the variables a statement list assigns (not defines) — what an `if`/`switch` without return hands on
func (p *pfEnv) assigned(list []ast.Stmt, into map[string]bool) {
	for _, st := range list {
		switch s := st.(type) {
		case *ast.AssignStmt:
			if s.Tok == token.ASSIGN {
				for _, l := range s.Lhs {
					into[l.(*ast.Ident).Name] = true
				}
			}
		case *ast.IncDecStmt:
			into[s.X.(*ast.Ident).Name] = true
		case *ast.IfStmt:
			p.assigned(s.Body.List, into)
		case *ast.SwitchStmt:
			for _, c := range s.Body.List {
				p.assigned(c.(*ast.CaseClause).Body, into)
			}
		}
	}
}

func endsInReturn(list []ast.Stmt) bool {
	if len(list) == 0 {
		return false
	}
	_, ok := list[len(list)-1].(*ast.ReturnStmt)
	return ok
}

// block translates a statement list followed by the continuation `rest` (a Lean expression producing the function's result)
func (p *pfEnv) block(list []ast.Stmt, rest string, ind string) string {
	if len(list) == 0 {
		return rest
	}
	st, tail := list[0], list[1:]
	next := func() string { return p.block(tail, rest, ind) }
	switch s := st.(type) {
	case *ast.ReturnStmt:
		if len(s.Results) == 0 {
			if len(p.results) == 0 {
				die("mathhelp %s: bare return without named results", p.fn)
			}
			return tuple(p.results)
		}
		var rs []string
		for _, r := range s.Results {
			rs = append(rs, p.expr(r))
		}
		return tuple(rs)
	case *ast.AssignStmt:
		var lhs []string
		for _, l := range s.Lhs {
			id, ok := l.(*ast.Ident)
			if !ok {
				die("mathhelp %s: assignment to %s", p.fn, goText(p.fset, l))
			}
			lhs = append(lhs, id.Name)
		}
		var rhs string
		if len(s.Rhs) == 1 {
			rhs = p.expr(s.Rhs[0])
		} else {
			var rs []string
			for _, r := range s.Rhs {
				rs = append(rs, p.expr(r))
			}
			rhs = tuple(rs)
		}
		return "let " + tuple(lhs) + " := " + rhs + "\n" + ind + next()
	case *ast.IncDecStmt:
		x := s.X.(*ast.Ident).Name
		op := "+"
		if s.Tok == token.DEC {
			op = "-"
		}
		return "let " + x + " := (" + x + " " + op + " (1 : Int))\n" + ind + next()
	case *ast.IfStmt:
		if s.Else != nil || s.Init != nil {
			die("mathhelp %s: if with else/init", p.fn)
		}
		cond := p.expr(s.Cond)
		if endsInReturn(s.Body.List) {
			return "if " + cond + " then\n" + ind + "  " + p.block(s.Body.List, "", ind+"  ") + "\n" + ind + "else\n" + ind + "  " + p.block(tail, rest, ind+"  ")
		}
		vars := map[string]bool{}
		p.assigned(s.Body.List, vars)
		vs := sortedKeys(vars)
		if len(vs) == 0 {
			die("mathhelp %s: an if that neither returns nor assigns", p.fn)
		}
		return "let " + tuple(vs) + " := if " + cond + " then\n" + ind + "    " + p.block(s.Body.List, tuple(vs), ind+"    ") + "\n" + ind + "  else " + tuple(vs) + "\n" + ind + next()
	case *ast.SwitchStmt:
		if s.Tag != nil || s.Init != nil {
			die("mathhelp %s: switch with a tag", p.fn)
		}
		allReturn, anyReturn := true, false
		for _, c := range s.Body.List {
			if endsInReturn(c.(*ast.CaseClause).Body) {
				anyReturn = true
			} else {
				allReturn = false
			}
		}
		if anyReturn && !allReturn {
			die("mathhelp %s: a switch whose cases partly return", p.fn)
		}
		if allReturn {
			var b strings.Builder
			hasDefault := false
			for _, c := range s.Body.List {
				cc := c.(*ast.CaseClause)
				if cc.List == nil {
					hasDefault = true
					b.WriteString(p.block(cc.Body, "", ind+"  "))
					continue
				}
				if len(cc.List) != 1 {
					die("mathhelp %s: case with several expressions", p.fn)
				}
				b.WriteString("if " + p.expr(cc.List[0]) + " then\n" + ind + "  " + p.block(cc.Body, "", ind+"  ") + "\n" + ind + "else ")
			}
			if !hasDefault {
				b.WriteString("\n" + ind + "  " + p.block(tail, rest, ind+"  "))
			}
			return b.String()
		}
		vars := map[string]bool{}
		for _, c := range s.Body.List {
			p.assigned(c.(*ast.CaseClause).Body, vars)
		}
		vs := sortedKeys(vars)
		var b strings.Builder
		b.WriteString("let " + tuple(vs) + " :=\n" + ind + "  ")
		hasDefault := false
		for _, c := range s.Body.List {
			cc := c.(*ast.CaseClause)
			if cc.List == nil {
				hasDefault = true
				b.WriteString(p.block(cc.Body, tuple(vs), ind+"    "))
				continue
			}
			b.WriteString("if " + p.expr(cc.List[0]) + " then\n" + ind + "    " + p.block(cc.Body, tuple(vs), ind+"    ") + "\n" + ind + "  else ")
		}
		if !hasDefault {
			b.WriteString(tuple(vs))
		}
		return b.String() + "\n" + ind + next()
	}
	die("mathhelp %s: unsupported statement %s", p.fn, goText(p.fset, st))
	return ""
}

func sortedKeys(m map[string]bool) []string {
	var ks []string
	for k := range m {
		ks = append(ks, k)
	}
	for i := range ks {
		for j := i + 1; j < len(ks); j++ {
			if ks[j] < ks[i] {
				ks[i], ks[j] = ks[j], ks[i]
			}
		}
	}
	return ks
}

func trMathhelp(repo string) string {
	fset := token.NewFileSet()
	f, err := parser.ParseFile(fset, filepath.Join(repo, "mathhelp", "mathhelp.go"), nil, 0)
	if err != nil {
		die("%v", err)
	}
	order := []string{"FloorDiv", "abs64", "mul128", "CmpProducts"}
	known := map[string]bool{}
	var out strings.Builder
	out.WriteString("/-! GENERATED by trgen mathhelp from mathhelp/mathhelp.go — do not edit. -/\nset_option linter.unusedVariables false\nnamespace Texel.Gen.MH\n\n")
	out.WriteString("/-- `bits.Mul64`: the high and the low 64 bits of the exact product of two unsigned 64-bit numbers -/\ndef mul64 (x y : Int) : Int × Int := ((x * y) / 2 ^ 64, (x * y) % 2 ^ 64)\n")
	for _, name := range order {
		var fd *ast.FuncDecl
		for _, d := range f.Decls {
			if x, ok := d.(*ast.FuncDecl); ok && x.Name.Name == name && x.Recv == nil {
				fd = x
			}
		}
		if fd == nil {
			die("mathhelp: function %s not found", name)
		}
		env := &pfEnv{fset: fset, fn: name, known: known}
		var params []string
		for _, fl := range fd.Type.Params.List {
			for _, n := range fl.Names {
				params = append(params, n.Name)
			}
		}
		var resTypes []string
		for _, fl := range fd.Type.Results.List {
			typ := "Int"
			if goText(fset, fl.Type) == "bool" {
				typ = "Bool"
			}
			k := len(fl.Names)
			if k == 0 {
				k = 1
			}
			for i := 0; i < k; i++ {
				resTypes = append(resTypes, typ)
			}
			for _, n := range fl.Names {
				env.results = append(env.results, n.Name)
			}
		}
		body := fd.Body.List
		pre := ""
		if len(env.results) > 0 { // named results start at their zero values
			var zs []string
			for _, t := range resTypes {
				if t == "Bool" {
					zs = append(zs, "false")
				} else {
					zs = append(zs, "(0 : Int)")
				}
			}
			pre = "let " + tuple(env.results) + " : " + strings.Join(resTypes, " × ") + " := " + tuple(zs) + "\n  "
		}
		fmt.Fprintf(&out, "\n/-- `%s` (mathhelp/mathhelp.go) -/\ndef %s (%s : Int) : %s :=\n  %s%s\n", name, lowerFirst(name), strings.Join(params, " "), strings.Join(resTypes, " × "), pre, env.block(body, "", "  "))
		known[name] = true
	}
	out.WriteString("\nend Texel.Gen.MH\n")
	return out.String()
}
