// trgen arith: translate the straight-line integer arithmetic of pointindex and snap that the Lean model of the grid rests on
// (pixel span, extent and centre of a quadrant, the deepest address of a point and its rejection test, the pixel of an address on a
// level, the half-open containment test, the level of a tile matrix in pointindex and in snap) into Lean 4 definitions over Int.
//
// Accepted shapes only: `name := expr` definitions, one `if cond {` test, `return expr`, a keyed field of a composite literal; in
// expressions: integer literals, + - * / (Go's truncating division -> Int.tdiv), comparisons, && and ||, parentheses, conversions
// between integer types and to float64 (dropped: no overflow is assumed, DESIGN §7), mathhelp.Pow2, mathhelp.FloorDiv, math.Log2 (of an
// exact integer below 2^53, truncated by the conversion around it), a named integer constant, array composite literals, and the leaves
// listed per function below. Anything else makes the translator fail loudly.
package main

import (
	"bytes"
	"fmt"
	"go/ast"
	"go/parser"
	"go/printer"
	"go/token"
	"path/filepath"
	"strings"
)

type arithFn struct {
	file, fn string
	leaves   [][2]string // printed Go expression -> Lean parameter (in this order)
	wants    [][2]string // what to export: Go local (or "return", "if", "field:<name>") -> Lean definition name
}

var arithFns = []arithFn{
	{"pointindex/pointindex.go", "getQuadrantExtentAndCentroid",
		[][2]string{{"ix.deepestLevel", "deepestLevel"}, {"ix.deepestRes", "deepestRes"}, {"intRootExtent.MinX()", "rootMinX"}, {"intRootExtent.MinY()", "rootMinY"}, {"level", "level"}, {"x", "x"}, {"y", "y"}},
		[][2]string{{"intQuadrantSpan", "quadrantSpan"}, {"intExtent", "quadrantExtent"}, {"intCentroid", "quadrantCentroid"}}},
	{"pointindex/pointindex.go", "InsertPoint",
		[][2]string{{"intPoint.X()", "px"}, {"intPoint.Y()", "py"}, {"ix.intExtent.MinX()", "extMinX"}, {"ix.intExtent.MinY()", "extMinY"}, {"ix.deepestRes", "deepestRes"}},
		[][2]string{{"deepestX", "insertPointX"}, {"deepestY", "insertPointY"}}},
	{"pointindex/pointindex.go", "InsertCoord",
		[][2]string{{"deepestX", "deepestX"}, {"deepestY", "deepestY"}, {"ix.deepestSize", "deepestSize"}},
		[][2]string{{"if", "insertCoordOutside"}}},
	{"pointindex/pointindex.go", "insertCoord",
		[][2]string{{"deepestX", "deepestX"}, {"deepestY", "deepestY"}, {"ix.deepestLevel", "deepestLevel"}, {"l", "l"}},
		[][2]string{{"x", "levelX"}, {"y", "levelY"}}},
	{"pointindex/pointindex.go", "containsPoint",
		[][2]string{{"intPt[0]", "px"}, {"intPt[1]", "py"}, {"intExtent.MinX()", "minX"}, {"intExtent.MinY()", "minY"}, {"intExtent.MaxX()", "maxX"}, {"intExtent.MaxY()", "maxY"}},
		[][2]string{{"return", "containsPoint"}}},
	{"pointindex/pointindex.go", "FromTileMatrixSet",
		[][2]string{{"rootTM.TileWidth", "tileWidth"}, {"deepestTMID", "deepestTMID"}, {"intExtent.XSpan()", "xSpan"}},
		[][2]string{{"levelDiff", "indexLevelDiff"}, {"deepestLevel", "indexDeepestLevel"}, {"deepestSize", "indexDeepestSize"}, {"field:deepestRes", "indexDeepestRes"}}},
	{"snap/snap.go", "tileMatrixIDsByLevels",
		[][2]string{{"rootTM.TileWidth", "tileWidth"}, {"tmID", "tmID"}},
		[][2]string{{"levelDiff", "snapLevelDiff"}, {"level", "snapLevelOf"}}},
}

func goText(fset *token.FileSet, n ast.Node) string {
	var b bytes.Buffer
	_ = printer.Fprint(&b, fset, n)
	return b.String()
}

type arithEnv struct {
	fset   *token.FileSet
	leaves map[string]string
	locals map[string]bool
	consts map[string]string
	fn     string
}

var intConversions = map[string]bool{"int": true, "int64": true, "uint": true, "uint64": true, "float64": true, "Level": true, "pointindex.Level": true}

func (a *arithEnv) expr(e ast.Expr) string {
	if l, ok := a.leaves[goText(a.fset, e)]; ok {
		return l
	}
	switch t := e.(type) {
	case *ast.Ident:
		if a.locals[t.Name] {
			return t.Name
		}
		if v, ok := a.consts[t.Name]; ok {
			return v
		}
		die("arith %s: unknown identifier %q", a.fn, t.Name)
	case *ast.BasicLit:
		if t.Kind != token.INT {
			die("arith %s: literal %s is not an integer", a.fn, t.Value)
		}
		return fmt.Sprintf("(%d : Int)", parseUint(t.Value))
	case *ast.ParenExpr:
		return "(" + a.expr(t.X) + ")"
	case *ast.BinaryExpr:
		x, y := a.expr(t.X), a.expr(t.Y)
		switch t.Op {
		case token.ADD, token.SUB, token.MUL:
			return "(" + x + " " + t.Op.String() + " " + y + ")"
		case token.QUO:
			return "(Int.tdiv " + x + " " + y + ")"
		case token.LSS, token.GTR:
			return "decide (" + x + " " + t.Op.String() + " " + y + ")"
		case token.LEQ:
			return "decide (" + x + " ≤ " + y + ")"
		case token.GEQ:
			return "decide (" + x + " ≥ " + y + ")"
		case token.EQL:
			return "decide (" + x + " = " + y + ")"
		case token.NEQ:
			return "decide (" + x + " ≠ " + y + ")"
		case token.LAND:
			return "(" + x + " && " + y + ")"
		case token.LOR:
			return "(" + x + " || " + y + ")"
		}
		die("arith %s: operator %s", a.fn, t.Op)
	case *ast.SelectorExpr:
		if v, ok := a.consts[t.Sel.Name]; ok { // pointindex.VectorTileInternalPixelResolution
			return v
		}
		die("arith %s: unknown selector %s", a.fn, goText(a.fset, e))
	case *ast.CallExpr:
		fun := goText(a.fset, t.Fun)
		switch {
		case intConversions[fun] && len(t.Args) == 1:
			return a.expr(t.Args[0])
		case fun == "mathhelp.Pow2" && len(t.Args) == 1:
			return "(2 ^ (" + a.expr(t.Args[0]) + ").toNat)"
		case fun == "mathhelp.FloorDiv" && len(t.Args) == 2:
			return "(Int.fdiv " + a.expr(t.Args[0]) + " " + a.expr(t.Args[1]) + ")"
		case fun == "math.Log2" && len(t.Args) == 1:
			return "(((" + a.expr(t.Args[0]) + ").toNat.log2 : Nat) : Int)"
		}
		die("arith %s: call %s", a.fn, goText(a.fset, e))
	case *ast.CompositeLit:
		var parts []string
		for _, el := range t.Elts {
			if _, kv := el.(*ast.KeyValueExpr); kv {
				die("arith %s: keyed composite literal as a value", a.fn)
			}
			parts = append(parts, a.expr(el))
		}
		return "(" + strings.Join(parts, ", ") + ")"
	}
	die("arith %s: unsupported expression %s", a.fn, goText(a.fset, e))
	return ""
}

func tupleType(n int) string {
	if n <= 1 {
		return "Int"
	}
	return strings.TrimSuffix(strings.Repeat("Int × ", n), " × ")
}

func trArith(repo string) string {
	var out strings.Builder
	out.WriteString("/-! GENERATED by trgen arith from pointindex/pointindex.go and snap/snap.go — do not edit. -/\nset_option linter.unusedVariables false\nnamespace Texel.Gen.Arith\n")
	parsed := map[string]*ast.File{}
	fset := token.NewFileSet()
	for _, spec := range arithFns {
		f := parsed[spec.file]
		if f == nil {
			var err error
			f, err = parser.ParseFile(fset, filepath.Join(repo, spec.file), nil, 0)
			if err != nil {
				die("%v", err)
			}
			parsed[spec.file] = f
		}
		// integer constants of pointindex (VectorTileInternalPixelResolution)
		consts := map[string]string{}
		pf := parsed["pointindex/pointindex.go"]
		if pf == nil {
			var err error
			pf, err = parser.ParseFile(fset, filepath.Join(repo, "pointindex/pointindex.go"), nil, 0)
			if err != nil {
				die("%v", err)
			}
			parsed["pointindex/pointindex.go"] = pf
		}
		for _, d := range pf.Decls {
			if g, ok := d.(*ast.GenDecl); ok && g.Tok == token.CONST {
				for _, sp := range g.Specs {
					vs := sp.(*ast.ValueSpec)
					for i, n := range vs.Names {
						if i < len(vs.Values) {
							if bl, ok := vs.Values[i].(*ast.BasicLit); ok && bl.Kind == token.INT {
								consts[n.Name] = fmt.Sprintf("(%d : Int)", parseUint(bl.Value))
							}
						}
					}
				}
			}
		}
		var fd *ast.FuncDecl
		for _, d := range f.Decls {
			if x, ok := d.(*ast.FuncDecl); ok && x.Name.Name == spec.fn {
				fd = x
			}
		}
		if fd == nil {
			die("arith: function %s not found in %s", spec.fn, spec.file)
		}
		env := &arithEnv{fset: fset, leaves: map[string]string{}, locals: map[string]bool{}, consts: consts, fn: spec.fn}
		var params []string
		for _, l := range spec.leaves {
			env.leaves[l[0]] = l[1]
			params = append(params, l[1])
		}
		want := map[string]string{}
		for _, w := range spec.wants {
			want[w[0]] = w[1]
		}
		type letdef struct {
			name, body string
			arity      int
		}
		var lets []letdef
		emitted := map[string]bool{}
		emit := func(lean string, body string, arity int, isBool bool) {
			typ := tupleType(arity)
			if isBool {
				typ = "Bool"
			}
			fmt.Fprintf(&out, "\n/-- `%s` of `%s` (%s) -/\ndef %s (%s : Int) : %s :=\n", lean, spec.fn, spec.file, lean, strings.Join(params, " "), typ)
			for _, l := range lets {
				fmt.Fprintf(&out, "  let %s : %s := %s\n", l.name, tupleType(l.arity), l.body)
			}
			fmt.Fprintf(&out, "  %s\n", body)
			emitted[lean] = true
		}
		arityOf := func(e ast.Expr) int {
			if c, ok := e.(*ast.CompositeLit); ok {
				return len(c.Elts)
			}
			return 1
		}
		// the statements of the body, loop bodies flattened, in source order
		var walk func(list []ast.Stmt)
		walk = func(list []ast.Stmt) {
			for _, st := range list {
				switch s := st.(type) {
				case *ast.AssignStmt:
					if s.Tok == token.DEFINE && len(s.Lhs) == 1 && len(s.Rhs) == 1 {
						id, ok := s.Lhs[0].(*ast.Ident)
						if !ok {
							continue
						}
						if lean, wanted := want[id.Name]; wanted && !emitted[lean] {
							body := env.expr(s.Rhs[0])
							emit(lean, body, arityOf(s.Rhs[0]), false)
							lets = append(lets, letdef{id.Name, body, arityOf(s.Rhs[0])})
							env.locals[id.Name] = true
							continue
						}
						// a definition the wanted ones may depend on: keep it when it translates, otherwise it must not be used later
						if body, ok := tryExpr(env, s.Rhs[0]); ok {
							lets = append(lets, letdef{id.Name, body, arityOf(s.Rhs[0])})
							env.locals[id.Name] = true
						}
					}
					// ix := PointIndex{ ..., deepestRes: expr, ...}
					if len(s.Rhs) == 1 {
						if cl, ok := s.Rhs[0].(*ast.CompositeLit); ok {
							for _, el := range cl.Elts {
								if kv, ok := el.(*ast.KeyValueExpr); ok {
									if k, ok := kv.Key.(*ast.Ident); ok {
										if lean, wanted := want["field:"+k.Name]; wanted && !emitted[lean] {
											emit(lean, env.expr(kv.Value), 1, false)
										}
									}
								}
							}
						}
					}
				case *ast.IfStmt:
					if lean, wanted := want["if"]; wanted && !emitted[lean] {
						emit(lean, env.expr(s.Cond), 1, true)
					}
				case *ast.ReturnStmt:
					if lean, wanted := want["return"]; wanted && !emitted[lean] && len(s.Results) == 1 {
						emit(lean, env.expr(s.Results[0]), 1, true)
					}
				case *ast.ForStmt:
					walk(s.Body.List)
				case *ast.RangeStmt:
					walk(s.Body.List)
				}
			}
		}
		walk(fd.Body.List)
		for _, w := range spec.wants {
			if !emitted[w[1]] {
				die("arith %s: %q not found", spec.fn, w[0])
			}
		}
	}
	out.WriteString("\nend Texel.Gen.Arith\n")
	return out.String()
}

// tryExpr: translate, reporting failure instead of dying (for definitions nothing exported may depend on)
func tryExpr(env *arithEnv, e ast.Expr) (s string, ok bool) {
	defer func() {
		if r := recover(); r != nil {
			ok = false
		}
	}()
	old := dieHook
	dieHook = func() { panic("untranslatable") }
	defer func() { dieHook = old }()
	return env.expr(e), true
}
