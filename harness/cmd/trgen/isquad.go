// trgen isquad: translate pointindex.IsQuadTree — the checks validation makes on every tile matrix, in their order — into Lean 4.
//
// Accepted shape (anything else: exit 2):
//
//	var previousTMID int
//	var previousTM *tms20.TileMatrix
//	tmIDs := maps.Keys(tms.TileMatrices)
//	slices.Sort(tmIDs)
//	for _, tmID := range tmIDs {
//		tm := tms.TileMatrices[tmID]
//		CHECKS                                     // `if c { return errors.New("…" [+ tm.ID]) }`, and once
//		                                           // `tmIDStringToInt, err := strconv.Atoi(tm.ID)` + `if err != nil { return err }`
//		if previousTM == nil { CHECKS } else { CHECKS }
//		previousTMID = tmID
//		previousTM = &tm
//	}
//	return nil
//
// Conditions are comparisons (`!=`, `==`, `<`, …) of integer expressions over the fields of `tm` and `previousTM`, `tmID`, `previousTMID`,
// `tmIDStringToInt`, `len(tm.VariableMatrixWidths)` and literals with `+` and `*`; three conditions are read as a whole:
// `bits.OnesCount(x) != 1` (x is not a power of two), `*tm.PointOfOrigin != *previousTM.PointOfOrigin` (either ordinate differs) and
// `!mathhelp.FBetweenInc(previousTM.CellSize/tm.CellSize, 1.99, 2.01)` (the float ratio test, kept as the model's exact-rational `ratioOK`: float seam).
package main

import (
	"fmt"
	"go/ast"
	"go/parser"
	"go/token"
	"path/filepath"
	"strconv"
	"strings"
)

var isquadLeaves = map[string]string{
	"tm.MatrixHeight": "tm.mh", "tm.MatrixWidth": "tm.mw", "tm.TileHeight": "tm.th", "tm.TileWidth": "tm.tw", "tmID": "tm.id",
	"previousTMID": "previousTM.id", "previousTM.TileHeight": "previousTM.th", "previousTM.TileWidth": "previousTM.tw",
	"previousTM.MatrixHeight": "previousTM.mh", "previousTM.MatrixWidth": "previousTM.mw", "len(tm.VariableMatrixWidths)": "tm.nvar",
	"tm.CornerOfOrigin": "tm.corner", "previousTM.CornerOfOrigin": "previousTM.corner", "tmIDStringToInt": "tmIDStringToInt",
}

var isquadWhole = map[string]string{
	"bits.OnesCount(tm.TileWidth) != 1":                                  "(!isPow2 tm.tw)",
	"*tm.PointOfOrigin != *previousTM.PointOfOrigin":                     "decide (tm.ox ≠ previousTM.ox ∨ tm.oy ≠ previousTM.oy)",
	"!mathhelp.FBetweenInc(previousTM.CellSize/tm.CellSize, 1.99, 2.01)": "(!ratioOK previousTM tm)",
}

type iqEnv struct{ fset *token.FileSet }

func (q *iqEnv) expr(e ast.Expr) string {
	t := strings.Join(strings.Fields(goText(q.fset, e)), " ")
	if l, ok := isquadLeaves[t]; ok {
		return l
	}
	switch x := e.(type) {
	case *ast.BasicLit:
		if x.Kind == token.INT {
			return fmt.Sprint(parseUint(x.Value))
		}
	case *ast.ParenExpr:
		return "(" + q.expr(x.X) + ")"
	case *ast.BinaryExpr:
		a, b := q.expr(x.X), q.expr(x.Y)
		switch x.Op {
		case token.ADD, token.MUL:
			return "(" + a + " " + x.Op.String() + " " + b + ")"
		}
	}
	die("isquad: unsupported expression %s", t)
	return ""
}

func (q *iqEnv) cond(e ast.Expr) string {
	t := strings.Join(strings.Fields(goText(q.fset, e)), " ")
	if w, ok := isquadWhole[t]; ok {
		return w
	}
	b, ok := e.(*ast.BinaryExpr)
	if !ok {
		die("isquad: unsupported condition %s", t)
	}
	x, y := q.expr(b.X), q.expr(b.Y)
	switch b.Op {
	case token.NEQ:
		return "decide (" + x + " ≠ " + y + ")"
	case token.EQL:
		return "decide (" + x + " = " + y + ")"
	case token.LSS, token.GTR:
		return "decide (" + x + " " + b.Op.String() + " " + y + ")"
	case token.LEQ:
		return "decide (" + x + " ≤ " + y + ")"
	case token.GEQ:
		return "decide (" + x + " ≥ " + y + ")"
	}
	die("isquad: unsupported condition %s", t)
	return ""
}

// message: errors.New("text" [+ tm.ID]) -> "text"
func (q *iqEnv) message(e ast.Expr) string {
	call, ok := e.(*ast.CallExpr)
	if !ok || goText(q.fset, call.Fun) != "errors.New" || len(call.Args) != 1 {
		die("isquad: expected `return errors.New(…)`, found %s", goText(q.fset, e))
	}
	arg := call.Args[0]
	if b, ok := arg.(*ast.BinaryExpr); ok && b.Op == token.ADD {
		arg = b.X
	}
	lit, ok := arg.(*ast.BasicLit)
	if !ok || lit.Kind != token.STRING {
		die("isquad: the error text is not a string literal")
	}
	s, _ := strconv.Unquote(lit.Value)
	return strings.TrimSuffix(strings.TrimSpace(s), ":")
}

// checks translates a list of checks followed by `rest`
func (q *iqEnv) checks(list []ast.Stmt, rest string, ind string) string {
	if len(list) == 0 {
		return rest
	}
	txt := func(n ast.Node) string { return strings.Join(strings.Fields(goText(q.fset, n)), " ") }
	switch s := list[0].(type) {
	case *ast.IfStmt:
		if s.Init != nil || s.Else != nil || len(s.Body.List) != 1 {
			die("isquad: a check must be `if c { return … }`: %s", txt(s))
		}
		ret, ok := s.Body.List[0].(*ast.ReturnStmt)
		if !ok || len(ret.Results) != 1 {
			die("isquad: a check must return an error: %s", txt(s))
		}
		return "if " + q.cond(s.Cond) + " then some " + strconv.Quote(q.message(ret.Results[0])) + " else\n" + ind + q.checks(list[1:], rest, ind)
	case *ast.AssignStmt:
		if txt(s) == "tmIDStringToInt, err := strconv.Atoi(tm.ID)" && len(list) >= 2 && txt(list[1]) == "if err != nil { return err }" {
			return "match atoi tm.idText with\n" + ind + "| none => some \"strconv.Atoi\"\n" + ind + "| some tmIDStringToInt =>\n" + ind + q.checks(list[2:], rest, ind)
		}
	}
	die("isquad: unsupported statement among the checks: %s", txt(list[0]))
	return ""
}

func trIsquad(repo string) string {
	fset := token.NewFileSet()
	f, err := parser.ParseFile(fset, filepath.Join(repo, "pointindex", "pointindex.go"), nil, 0)
	if err != nil {
		die("%v", err)
	}
	var fd *ast.FuncDecl
	for _, d := range f.Decls {
		if x, ok := d.(*ast.FuncDecl); ok && x.Name.Name == "IsQuadTree" && x.Recv == nil {
			fd = x
		}
	}
	if fd == nil {
		die("isquad: IsQuadTree not found")
	}
	q := &iqEnv{fset: fset}
	txt := func(n ast.Node) string { return strings.Join(strings.Fields(goText(fset, n)), " ") }
	want := func(n ast.Node, s string) {
		if got := txt(n); got != s {
			die("isquad: expected `%s`, found `%s`", s, got)
		}
	}
	st := fd.Body.List
	if len(st) != 6 {
		die("isquad: %d statements in IsQuadTree, expected 6", len(st))
	}
	want(st[0], "var previousTMID int")
	want(st[1], "var previousTM *tms20.TileMatrix")
	want(st[2], "tmIDs := maps.Keys(tms.TileMatrices)")
	want(st[3], "slices.Sort(tmIDs)")
	want(st[5], "return nil")
	loop, ok := st[4].(*ast.RangeStmt)
	if !ok || txt(loop.Key) != "_" || txt(loop.Value) != "tmID" || txt(loop.X) != "tmIDs" {
		die("isquad: expected `for _, tmID := range tmIDs {`")
	}
	b := loop.Body.List
	n := len(b)
	if n < 5 {
		die("isquad: the loop body is too short")
	}
	want(b[0], "tm := tms.TileMatrices[tmID]")
	want(b[n-2], "previousTMID = tmID")
	want(b[n-1], "previousTM = &tm")
	branch, ok := b[n-3].(*ast.IfStmt)
	if !ok || txt(branch.Cond) != "previousTM == nil" || branch.Else == nil {
		die("isquad: expected `if previousTM == nil { … } else { … }` before the bookkeeping")
	}
	eb, ok := branch.Else.(*ast.BlockStmt)
	if !ok {
		die("isquad: else if is not accepted")
	}
	first := q.checks(branch.Body.List, "none", "      ")
	pair := q.checks(eb.List, "none", "      ")
	tail := "match prev with\n  | none =>\n      " + first + "\n  | some previousTM =>\n      " + pair
	body := q.checks(b[1:n-3], tail, "  ")
	var out strings.Builder
	out.WriteString("import Texel.Model.QuadTree\n/-! GENERATED by trgen isquad from pointindex/pointindex.go (IsQuadTree) — do not edit. -/\nset_option linter.unusedVariables false\nnamespace Texel.Gen.IQ\nopen Texel.QT\n\n")
	out.WriteString("/-- one pass of the loop over the sorted ids: `prev` is `previousTM` (`none`: nil); the text of the first failing check, `none` if all pass -/\n")
	out.WriteString("def step (prev : Option TM) (tm : TM) : Option String :=\n  " + body + "\n\n")
	out.WriteString("/-- the loop (checked statement by statement by the translator): tile matrices in the order of their keys, the one before remembered -/\n")
	out.WriteString("def isQuadTreeFrom (prev : Option TM) : List TM → Option String\n  | [] => none\n  | tm :: rest =>\n    match step prev tm with\n    | some e => some e\n    | none => isQuadTreeFrom (some tm) rest\n\n")
	out.WriteString("def isQuadTree (tms : List TM) : Option String := isQuadTreeFrom none tms\n\nend Texel.Gen.IQ\n")
	return out.String()
}
