// trgen quadrants: translate pointindex.findIntersectingQuadrants — which child quadrants of a parent a line is tested against, in which order,
// which of them are certain and which exclude each other — and its helpers getInfiniteQuadrant, quadrantsAreAdjacent, adjacentQuadrantX/Y.
//
// Accepted shape of findIntersectingQuadrants (anything else: exit 2):
//
//	pt1InfiniteQuadrantI := getInfiniteQuadrant(intLine[0], parent.intCentroid)
//	pt1IsInsideQuadrant := containsPoint(intLine[0], parent.intExtent)
//	pt2InfiniteQuadrantI := getInfiniteQuadrant(intLine[1], parent.intCentroid)
//	pt2IsInsideQuadrant := containsPoint(intLine[1], parent.intExtent)
//	var quadrantsToCheck []quadrantToCheck
//	switch { … }            // a tree of tagless switches and if/else whose leaves are `quadrantsToCheck = []quadrantToCheck{{i, certain, mutex}, …}`
//	found := make([]Q, 0, 4)
//	mutexed := false
//	for _, quadrantToCheck := range quadrantsToCheck {
//		if quadrantToCheck.mutex && mutexed { continue }
//		quadrant, hasPoints := quadrants[quadrantToCheck.i]
//		if !hasPoints { continue }
//		if quadrantToCheck.certain || lineIntersects(intLine, quadrant.intExtent) {
//			found = append(found, quadrantToCheck.i)
//			if quadrantToCheck.mutex { mutexed = true }
//		}
//	}
//	return found
//
// The tree is translated (conditions and leaves); the first four definitions and the loop are checked textually and emitted as fixed text.
// The helpers are translated over Nat: `|`, `^`, `<<` become `|||`, `^^^`, `<<<`; mathhelp.Bool2int(c) becomes `if c then 1 else 0`.
package main

import (
	"fmt"
	"go/ast"
	"go/parser"
	"go/token"
	"path/filepath"
	"strings"
)

type qEnv struct {
	fset   *token.FileSet
	fn     string
	leaves map[string]string
}

func (q *qEnv) expr(e ast.Expr) string {
	if l, ok := q.leaves[goText(q.fset, e)]; ok {
		return l
	}
	switch t := e.(type) {
	case *ast.Ident:
		if t.Name == "true" || t.Name == "false" {
			return t.Name
		}
		return t.Name
	case *ast.BasicLit:
		if t.Kind != token.INT {
			die("quadrants %s: literal %s", q.fn, t.Value)
		}
		return fmt.Sprintf("(%d : Nat)", parseUint(t.Value))
	case *ast.ParenExpr:
		return "(" + q.expr(t.X) + ")"
	case *ast.UnaryExpr:
		if t.Op == token.NOT {
			return "(!" + q.expr(t.X) + ")"
		}
		die("quadrants %s: unary %s", q.fn, t.Op)
	case *ast.BinaryExpr:
		x, y := q.expr(t.X), q.expr(t.Y)
		switch t.Op {
		case token.OR:
			return "(" + x + " ||| " + y + ")"
		case token.XOR:
			return "(" + x + " ^^^ " + y + ")"
		case token.SHL:
			return "(" + x + " <<< " + y + ")"
		case token.EQL:
			return "decide (" + x + " = " + y + ")"
		case token.NEQ:
			return "decide (" + x + " ≠ " + y + ")"
		case token.GEQ:
			return "decide (" + x + " ≥ " + y + ")"
		case token.LAND:
			return "(" + x + " && " + y + ")"
		case token.LOR:
			return "(" + x + " || " + y + ")"
		}
		die("quadrants %s: operator %s", q.fn, t.Op)
	case *ast.CallExpr:
		fun := goText(q.fset, t.Fun)
		var args []string
		for _, a := range t.Args {
			args = append(args, q.expr(a))
		}
		switch fun {
		case "mathhelp.Bool2int":
			if len(args) == 1 {
				return "(if " + args[0] + " then (1 : Nat) else (0 : Nat))"
			}
		case "quadrantsAreAdjacent", "adjacentQuadrantX", "adjacentQuadrantY":
			return "(" + fun + " " + strings.Join(args, " ") + ")"
		}
		die("quadrants %s: call %s", q.fn, fun)
	}
	die("quadrants %s: unsupported expression %s", q.fn, goText(q.fset, e))
	return ""
}

// tree: a statement list that is one assignment of a list literal, one if/else, or one tagless switch
func (q *qEnv) tree(list []ast.Stmt, ind string) string {
	if len(list) != 1 {
		die("quadrants: a branch of the decision tree has %d statements, expected 1", len(list))
	}
	switch s := list[0].(type) {
	case *ast.AssignStmt:
		if s.Tok != token.ASSIGN || len(s.Lhs) != 1 || goText(q.fset, s.Lhs[0]) != "quadrantsToCheck" {
			die("quadrants: expected `quadrantsToCheck = []quadrantToCheck{…}`, found %s", goText(q.fset, s))
		}
		cl, ok := s.Rhs[0].(*ast.CompositeLit)
		if !ok || goText(q.fset, cl.Type) != "[]quadrantToCheck" {
			die("quadrants: expected a []quadrantToCheck literal")
		}
		var els []string
		for _, el := range cl.Elts {
			c, ok := el.(*ast.CompositeLit)
			if !ok || len(c.Elts) != 3 {
				die("quadrants: expected {i, certain, mutex}")
			}
			els = append(els, "("+q.expr(c.Elts[0])+", "+q.expr(c.Elts[1])+", "+q.expr(c.Elts[2])+")")
		}
		return "[" + strings.Join(els, ", ") + "]"
	case *ast.IfStmt:
		if s.Init != nil || s.Else == nil {
			die("quadrants: an if of the decision tree needs an else")
		}
		eb, ok := s.Else.(*ast.BlockStmt)
		if !ok {
			die("quadrants: else if is not accepted")
		}
		return "if " + q.expr(s.Cond) + " then\n" + ind + "  " + q.tree(s.Body.List, ind+"  ") + "\n" + ind + "else\n" + ind + "  " + q.tree(eb.List, ind+"  ")
	case *ast.SwitchStmt:
		if s.Tag != nil || s.Init != nil {
			die("quadrants: switch with a tag")
		}
		var b strings.Builder
		n := len(s.Body.List)
		for i, c := range s.Body.List {
			cc := c.(*ast.CaseClause)
			if cc.List == nil {
				if i != n-1 {
					die("quadrants: default must come last")
				}
				b.WriteString(q.tree(cc.Body, ind+"  "))
				return b.String()
			}
			if len(cc.List) != 1 {
				die("quadrants: case with several expressions")
			}
			b.WriteString("if " + q.expr(cc.List[0]) + " then\n" + ind + "  " + q.tree(cc.Body, ind+"  ") + "\n" + ind + "else ")
		}
		die("quadrants: a switch of the decision tree needs a default")
	}
	die("quadrants: unsupported statement in the decision tree: %s", goText(q.fset, list[0]))
	return ""
}

func trQuadrants(repo string) string {
	fset := token.NewFileSet()
	f, err := parser.ParseFile(fset, filepath.Join(repo, "pointindex", "pointindex.go"), nil, 0)
	if err != nil {
		die("%v", err)
	}
	get := func(name string) *ast.FuncDecl {
		for _, d := range f.Decls {
			if x, ok := d.(*ast.FuncDecl); ok && x.Name.Name == name && x.Recv == nil {
				return x
			}
		}
		die("quadrants: function %s not found", name)
		return nil
	}
	txt := func(n ast.Node) string { return strings.Join(strings.Fields(goText(fset, n)), " ") }
	want := func(n ast.Node, s string) {
		if got := txt(n); got != s {
			die("quadrants: expected `%s`, found `%s`", s, got)
		}
	}
	var out strings.Builder
	out.WriteString("/-! GENERATED by trgen quadrants from pointindex/pointindex.go — do not edit. -/\nset_option linter.unusedVariables false\nnamespace Texel.Gen.Quad\n")
	// helpers: straight-line `x := e` … `return e`
	helper := func(name string, params string, leaves map[string]string, ret string) {
		fd := get(name)
		env := &qEnv{fset: fset, fn: name, leaves: leaves}
		fmt.Fprintf(&out, "\n/-- `%s` -/\ndef %s %s : %s :=\n", name, name, params, ret)
		for i, st := range fd.Body.List {
			switch s := st.(type) {
			case *ast.AssignStmt:
				if s.Tok != token.DEFINE || len(s.Lhs) != 1 || len(s.Rhs) != 1 {
					die("quadrants %s: unsupported statement %s", name, txt(st))
				}
				fmt.Fprintf(&out, "  let %s := %s\n", txt(s.Lhs[0]), env.expr(s.Rhs[0]))
			case *ast.ReturnStmt:
				if i != len(fd.Body.List)-1 || len(s.Results) != 1 {
					die("quadrants %s: return must come last", name)
				}
				fmt.Fprintf(&out, "  %s\n", env.expr(s.Results[0]))
			default:
				die("quadrants %s: unsupported statement %s", name, txt(st))
			}
		}
	}
	helper("getInfiniteQuadrant", "(px py cx cy : Int)", map[string]string{"intPt[0]": "px", "intPt[1]": "py", "intCentroid[0]": "cx", "intCentroid[1]": "cy"}, "Nat")
	helper("quadrantsAreAdjacent", "(quadrantIA quadrantIB : Nat)", nil, "Bool")
	helper("adjacentQuadrantX", "(quadrantI : Nat)", nil, "Nat")
	helper("adjacentQuadrantY", "(quadrantI : Nat)", nil, "Nat")

	fd := get("findIntersectingQuadrants")
	st := fd.Body.List
	if len(st) != 10 {
		die("quadrants: %d statements in findIntersectingQuadrants, expected 10", len(st))
	}
	want(st[0], "pt1InfiniteQuadrantI := getInfiniteQuadrant(intLine[0], parent.intCentroid)")
	want(st[1], "pt1IsInsideQuadrant := containsPoint(intLine[0], parent.intExtent)")
	want(st[2], "pt2InfiniteQuadrantI := getInfiniteQuadrant(intLine[1], parent.intCentroid)")
	want(st[3], "pt2IsInsideQuadrant := containsPoint(intLine[1], parent.intExtent)")
	want(st[4], "var quadrantsToCheck []quadrantToCheck")
	env := &qEnv{fset: fset, fn: "findIntersectingQuadrants"}
	tree := env.tree(st[5:6], "  ")
	want(st[6], "found := make([]Q, 0, 4)")
	want(st[7], "mutexed := false")
	loop, ok := st[8].(*ast.RangeStmt)
	if !ok || txt(loop.Key) != "_" || txt(loop.Value) != "quadrantToCheck" || txt(loop.X) != "quadrantsToCheck" || len(loop.Body.List) != 4 {
		die("quadrants: expected `for _, quadrantToCheck := range quadrantsToCheck {` with four statements")
	}
	want(loop.Body.List[0], "if quadrantToCheck.mutex && mutexed { continue }")
	want(loop.Body.List[1], "quadrant, hasPoints := quadrants[quadrantToCheck.i]")
	want(loop.Body.List[2], "if !hasPoints { continue }")
	want(loop.Body.List[3], "if quadrantToCheck.certain || lineIntersects(intLine, quadrant.intExtent) { found = append(found, quadrantToCheck.i) if quadrantToCheck.mutex { mutexed = true } }")
	want(st[9], "return found")

	out.WriteString("\n/-- the decision tree of `findIntersectingQuadrants`: which quadrants are tested, in which order, as (i, certain, mutex) -/\n")
	out.WriteString("def toCheck (pt1InfiniteQuadrantI pt2InfiniteQuadrantI : Nat) (pt1IsInsideQuadrant pt2IsInsideQuadrant : Bool) : List (Nat × Bool × Bool) :=\n  " + tree + "\n")
	out.WriteString("\n/-- the loop over `quadrantsToCheck` (checked statement by statement by the translator): `present i` = the map has quadrant `i`,\n`li i` = `lineIntersects(intLine, quadrants[i].intExtent)` -/\n")
	out.WriteString("def found (li present : Nat → Bool) : List (Nat × Bool × Bool) → Bool → List Nat\n  | [], _ => []\n  | (i, certain, mutex) :: rest, mutexed =>\n    if mutex && mutexed then found li present rest mutexed\n    else if !present i then found li present rest mutexed\n    else if certain || li i then i :: found li present rest (mutexed || mutex)\n    else found li present rest mutexed\n")
	out.WriteString("\n/-- `findIntersectingQuadrants`: (p1, p2) the line, (cx, cy) the parent's centroid, in1/in2 = `containsPoint` of the end points in the parent's extent -/\n")
	out.WriteString("def findIntersectingQuadrants (p1x p1y p2x p2y cx cy : Int) (in1 in2 : Bool) (li present : Nat → Bool) : List Nat :=\n  found li present (toCheck (getInfiniteQuadrant p1x p1y cx cy) (getInfiniteQuadrant p2x p2y cx cy) in1 in2) false\n")
	out.WriteString("\nend Texel.Gen.Quad\n")
	return out.String()
}
