// trgen regenerates /verif/lean/Texel/Gen/*.lean from the current source of /repo.
// Each translator accepts a narrow grammar and fails loudly (exit 2) on anything else.
package main

import (
	"fmt"
	"os"
	"path/filepath"
)

func main() {
	if len(os.Args) != 4 {
		die("usage: trgen <what> <repo> <outdir>")
	}
	what, repo, out := os.Args[1], os.Args[2], os.Args[3]
	var name, text string
	switch what {
	case "morton":
		name, text = "Morton.lean", trMorton(filepath.Join(repo, "morton", "morton.go"))
	case "flags":
		name, text = "Flags.lean", trFlags(repo)
	case "hits":
		name, text = "Hits.lean", trHits(repo)
	case "removeseq":
		name, text = "Removeseq.lean", trRemoveseq(repo)
	case "isquad":
		name, text = "Isquad.lean", trIsquad(repo)
	case "quadrants":
		name, text = "Quadrants.lean", trQuadrants(repo)
	case "mathhelp":
		name, text = "Mathhelp.lean", trMathhelp(repo)
	case "lineint":
		name, text = "Lineint.lean", trLineInt(repo)
	case "arith":
		name, text = "Arith.lean", trArith(repo)
	case "skel":
		name, text = "Skel.lean", trSkel(repo)
	default:
		die("unknown translator %q", what)
	}
	if err := os.WriteFile(filepath.Join(out, name), []byte(text), 0o644); err != nil {
		die("%v", err)
	}
	fmt.Println("generated", filepath.Join(out, name))
}
