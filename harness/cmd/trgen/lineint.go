// trgen lineint: translate pointindex.lineIntersects (the exact pixel test of C02) into Lean 4.
//
// The function is accepted only in the following shape (anything else: exit 2):
//
//	lowers := [3]tBound{{num: A, den: B}}
//	uppers := [3]tBound{{num: C, den: D}}
//	n := 1
//	for ax := 0; ax < 2; ax++ {
//		p := intLine[0][ax]
//		d := intLine[1][ax] - p
//		minOrd, maxOrd := intExtent[ax], intExtent[ax+2]
//		switch {
//		case COND0:  if REJECT0 { return false }; continue
//		case COND1:  lowers[n] = tBound{...}; uppers[n] = tBound{...}
//		default:     lowers[n] = tBound{...}; uppers[n] = tBound{...}
//		}
//		n++
//	}
//	for _, lower := range lowers[:n] { for _, upper := range uppers[:n] {
//		c := mathhelp.CmpProducts(E1, E2, E3, E4)
//		if REJECT { return false }
//	} }
//	return true
//
// What is translated are the expressions A..D, COND0, REJECT0, COND1, the six fields of each of the four tBound literals, E1..E4 and REJECT;
// the loop structure above is checked statement by statement and then emitted as the fixed combinator `lineIntersects` (both axes, then all
// pairs of bounds). mathhelp.CmpProducts(a, b, c, d) is read as the sign of a*b - c*d over Int (its 128-bit implementation is compared with
// math/big by the harness; trusted base).
package main

import (
	"fmt"
	"go/ast"
	"go/parser"
	"go/token"
	"path/filepath"
	"strings"
)

type liEnv struct {
	fset *token.FileSet
	vars map[string]string
}

func (l *liEnv) expr(e ast.Expr) string {
	switch t := e.(type) {
	case *ast.Ident:
		if v, ok := l.vars[t.Name]; ok {
			return v
		}
		if t.Name == "true" || t.Name == "false" {
			return t.Name
		}
		die("lineint: unknown identifier %q", t.Name)
	case *ast.BasicLit:
		if t.Kind != token.INT {
			die("lineint: literal %s", t.Value)
		}
		return fmt.Sprintf("(%d : Int)", parseUint(t.Value))
	case *ast.ParenExpr:
		return "(" + l.expr(t.X) + ")"
	case *ast.UnaryExpr:
		if t.Op == token.SUB {
			return "(-" + l.expr(t.X) + ")"
		}
		if t.Op == token.NOT {
			return "(!" + l.expr(t.X) + ")"
		}
		die("lineint: unary %s", t.Op)
	case *ast.SelectorExpr: // lower.num, upper.exclusive
		if id, ok := t.X.(*ast.Ident); ok && (id.Name == "lower" || id.Name == "upper") {
			switch t.Sel.Name {
			case "num", "den", "exclusive":
				return id.Name + "." + t.Sel.Name
			}
		}
		die("lineint: selector %s", goText(l.fset, e))
	case *ast.BinaryExpr:
		x, y := l.expr(t.X), l.expr(t.Y)
		switch t.Op {
		case token.ADD, token.SUB, token.MUL:
			return "(" + x + " " + t.Op.String() + " " + y + ")"
		case token.LSS, token.GTR:
			return "decide (" + x + " " + t.Op.String() + " " + y + ")"
		case token.LEQ:
			return "decide (" + x + " ≤ " + y + ")"
		case token.GEQ:
			return "decide (" + x + " ≥ " + y + ")"
		case token.EQL:
			return "decide (" + x + " = " + y + ")"
		case token.NEQ:
			return "decide (" + x + " ≠ " + y + ")"
		case token.LAND:
			return "(" + x + " && " + y + ")"
		case token.LOR:
			return "(" + x + " || " + y + ")"
		}
		die("lineint: operator %s", t.Op)
	case *ast.CallExpr:
		if goText(l.fset, t.Fun) == "mathhelp.CmpProducts" && len(t.Args) == 4 {
			return "(cmpInt (" + l.expr(t.Args[0]) + " * " + l.expr(t.Args[1]) + ") (" + l.expr(t.Args[2]) + " * " + l.expr(t.Args[3]) + "))"
		}
		die("lineint: call %s", goText(l.fset, e))
	}
	die("lineint: unsupported expression %s", goText(l.fset, e))
	return ""
}

// tBound{num: a, den: b, exclusive: c} -> ⟨a, b, c⟩
func (l *liEnv) bound(e ast.Expr) string {
	cl, ok := e.(*ast.CompositeLit)
	if !ok {
		die("lineint: expected a tBound literal, got %s", goText(l.fset, e))
	}
	f := map[string]string{"num": "", "den": "", "exclusive": "false"}
	for _, el := range cl.Elts {
		kv, ok := el.(*ast.KeyValueExpr)
		if !ok {
			die("lineint: tBound literal without keys")
		}
		k := kv.Key.(*ast.Ident).Name
		if _, known := f[k]; !known {
			die("lineint: tBound field %s", k)
		}
		f[k] = l.expr(kv.Value)
	}
	if f["num"] == "" || f["den"] == "" {
		die("lineint: tBound literal without num/den")
	}
	return "⟨" + f["num"] + ", " + f["den"] + ", " + f["exclusive"] + "⟩"
}

func trLineInt(repo string) string {
	fset := token.NewFileSet()
	f, err := parser.ParseFile(fset, filepath.Join(repo, "pointindex", "pointindex.go"), nil, 0)
	if err != nil {
		die("%v", err)
	}
	var fd *ast.FuncDecl
	for _, d := range f.Decls {
		if x, ok := d.(*ast.FuncDecl); ok && x.Name.Name == "lineIntersects" && x.Recv == nil {
			fd = x
		}
	}
	if fd == nil {
		die("lineint: lineIntersects not found")
	}
	txt := func(n ast.Node) string { return strings.Join(strings.Fields(goText(fset, n)), " ") }
	want := func(n ast.Node, s string) {
		if got := txt(n); got != s {
			die("lineint: expected `%s`, found `%s`", s, got)
		}
	}
	st := fd.Body.List
	if len(st) != 6 {
		die("lineint: %d statements in lineIntersects, expected 6", len(st))
	}
	env := &liEnv{fset: fset, vars: map[string]string{}}
	// lowers := [3]tBound{{num: 0, den: 1}} ; uppers := ...
	first := func(s ast.Stmt, name string) string {
		as, ok := s.(*ast.AssignStmt)
		if !ok || len(as.Lhs) != 1 || txt(as.Lhs[0]) != name || as.Tok != token.DEFINE {
			die("lineint: expected `%s := [3]tBound{…}`", name)
		}
		cl, ok := as.Rhs[0].(*ast.CompositeLit)
		if !ok || txt(cl.Type) != "[3]tBound" || len(cl.Elts) != 1 {
			die("lineint: expected `%s := [3]tBound{{…}}`", name)
		}
		return env.bound(cl.Elts[0])
	}
	lower0 := first(st[0], "lowers")
	upper0 := first(st[1], "uppers")
	want(st[2], "n := 1")
	loop, ok := st[3].(*ast.ForStmt)
	if !ok {
		die("lineint: the fourth statement is not the loop over the axes")
	}
	want(loop.Init, "ax := 0")
	want(loop.Cond, "ax < 2")
	want(loop.Post, "ax++")
	b := loop.Body.List
	if len(b) != 5 {
		die("lineint: %d statements in the axis loop, expected 5", len(b))
	}
	want(b[0], "p := intLine[0][ax]")
	want(b[1], "d := intLine[1][ax] - p")
	want(b[2], "minOrd, maxOrd := intExtent[ax], intExtent[ax+2]")
	want(b[4], "n++")
	for _, v := range []string{"p", "d", "minOrd", "maxOrd"} {
		env.vars[v] = v
	}
	sw, ok := b[3].(*ast.SwitchStmt)
	if !ok || sw.Tag != nil || sw.Init != nil || len(sw.Body.List) != 3 {
		die("lineint: expected a tagless switch with three cases")
	}
	cases := sw.Body.List
	c0 := cases[0].(*ast.CaseClause)
	c1 := cases[1].(*ast.CaseClause)
	c2 := cases[2].(*ast.CaseClause)
	if len(c0.List) != 1 || len(c1.List) != 1 || c2.List != nil {
		die("lineint: expected `case c0:`, `case c1:`, `default:`")
	}
	cond0, cond1 := env.expr(c0.List[0]), env.expr(c1.List[0])
	// case 0: if REJECT0 { return false }; continue
	if len(c0.Body) != 2 {
		die("lineint: first case: expected `if … { return false }; continue`")
	}
	if0, ok := c0.Body[0].(*ast.IfStmt)
	if !ok || if0.Else != nil || len(if0.Body.List) != 1 {
		die("lineint: first case: expected `if … { return false }`")
	}
	want(if0.Body.List[0], "return false")
	want(c0.Body[1], "continue")
	reject0 := env.expr(if0.Cond)
	pair := func(body []ast.Stmt) (string, string) {
		if len(body) != 2 {
			die("lineint: a case must set lowers[n] and uppers[n]")
		}
		get := func(s ast.Stmt, name string) string {
			as, ok := s.(*ast.AssignStmt)
			if !ok || as.Tok != token.ASSIGN || len(as.Lhs) != 1 || txt(as.Lhs[0]) != name+"[n]" {
				die("lineint: expected `%s[n] = tBound{…}`", name)
			}
			return env.bound(as.Rhs[0])
		}
		return get(body[0], "lowers"), get(body[1], "uppers")
	}
	l1, u1 := pair(c1.Body)
	l2, u2 := pair(c2.Body)
	// the double loop
	outer, ok := st[4].(*ast.RangeStmt)
	if !ok || txt(outer.Key) != "_" || txt(outer.Value) != "lower" || txt(outer.X) != "lowers[:n]" || len(outer.Body.List) != 1 {
		die("lineint: expected `for _, lower := range lowers[:n] {`")
	}
	inner, ok := outer.Body.List[0].(*ast.RangeStmt)
	if !ok || txt(inner.Key) != "_" || txt(inner.Value) != "upper" || txt(inner.X) != "uppers[:n]" || len(inner.Body.List) != 2 {
		die("lineint: expected `for _, upper := range uppers[:n] {` with two statements")
	}
	cas, ok := inner.Body.List[0].(*ast.AssignStmt)
	if !ok || cas.Tok != token.DEFINE || len(cas.Lhs) != 1 || txt(cas.Lhs[0]) != "c" {
		die("lineint: expected `c := mathhelp.CmpProducts(…)`")
	}
	env.vars = map[string]string{}
	cexpr := env.expr(cas.Rhs[0])
	env.vars["c"] = "c"
	ifr, ok := inner.Body.List[1].(*ast.IfStmt)
	if !ok || ifr.Else != nil || len(ifr.Body.List) != 1 {
		die("lineint: expected `if … { return false }` in the double loop")
	}
	want(ifr.Body.List[0], "return false")
	reject := env.expr(ifr.Cond)
	want(st[5], "return true")

	var out strings.Builder
	out.WriteString("/-! GENERATED by trgen lineint from pointindex/pointindex.go (lineIntersects) — do not edit. -/\nset_option linter.unusedVariables false\nnamespace Texel.Gen.LI\n\n")
	out.WriteString("/-- `tBound` -/\nstructure TB where\n  num : Int\n  den : Int\n  exclusive : Bool\n\n")
	out.WriteString("/-- `mathhelp.CmpProducts(a, b, c, d)` is called with the products `a*b` and `c*d`: -1, 0 or 1 -/\ndef cmpInt (x y : Int) : Int := if x < y then -1 else if x = y then 0 else 1\n\n")
	fmt.Fprintf(&out, "def lower0 : TB := %s\ndef upper0 : TB := %s\n\n", lower0, upper0)
	out.WriteString("/-- one pass of the loop over the axes: `none` = `return false`; otherwise the bounds appended (none after `continue`) -/\n")
	fmt.Fprintf(&out, "def axis (p d minOrd maxOrd : Int) : Option (List TB × List TB) :=\n  if %s then (if %s then none else some ([], []))\n  else if %s then some ([%s], [%s])\n  else some ([%s], [%s])\n\n", cond0, reject0, cond1, l1, u1, l2, u2)
	out.WriteString("/-- the test inside the double loop: `return false` when it holds -/\n")
	fmt.Fprintf(&out, "def reject (lower upper : TB) : Bool :=\n  let c : Int := %s\n  %s\n\n", cexpr, reject)
	out.WriteString("/-- the loop structure (checked statement by statement by the translator): both axes, then every lower bound against every upper bound -/\n")
	out.WriteString("def lineIntersects (x1 y1 x2 y2 minX minY maxX maxY : Int) : Bool :=\n  match axis x1 (x2 - x1) minX maxX, axis y1 (y2 - y1) minY maxY with\n  | some (lx, ux), some (ly, uy) =>\n    (lower0 :: (lx ++ ly)).all fun lower => (upper0 :: (ux ++ uy)).all fun upper => !reject lower upper\n  | _, _ => false\n\nend Texel.Gen.LI\n")
	return out.String()
}
