// trgen skel: extract the concurrency-relevant skeleton of processing/processing.go and of the paging/insert code of
// processing/gpkg/gpkg.go: channel creation (buffered or not), goroutine starts, sends, receives, closes, wait-group calls,
// defers, loop/branch structure around them, and for gpkg the paging test and the slice the row is built in.
// Logging, counters and local arithmetic are ignored, so a harmless refactor keeps the skeleton.
package main

import (
	"bytes"
	"fmt"
	"go/ast"
	"go/parser"
	"go/printer"
	"go/token"
	"path/filepath"
	"strings"
)

type skelWalker struct {
	fset *token.FileSet
	out  []string
}

func (w *skelWalker) src(n ast.Node) string {
	var b bytes.Buffer
	_ = printer.Fprint(&b, w.fset, n)
	return strings.Join(strings.Fields(b.String()), " ")
}

func (w *skelWalker) emit(s string) { w.out = append(w.out, s) }

var skelCalls = map[string]bool{"writeFeaturesToTargets": true, "processFeatures": true, "readFeaturesFromSource": true, "WriteFeatures": true,
	"writeFeatures": true, "ReadFeatures": true, "f": true, "processMultiPolygon": true, "wrapFeatureForTileMatrix": true, "Exec": true, "Columns": true, "Commit": true, "Begin": true}

// expr: tokens for the interesting calls inside an expression, in source order
func (w *skelWalker) expr(e ast.Expr) {
	ast.Inspect(e, func(n ast.Node) bool {
		switch t := n.(type) {
		case *ast.FuncLit:
			return false
		case *ast.UnaryExpr:
			if t.Op == token.ARROW {
				w.emit("recv " + w.src(t.X))
			}
		case *ast.CallExpr:
			name := ""
			switch f := t.Fun.(type) {
			case *ast.Ident:
				name = f.Name
			case *ast.SelectorExpr:
				name = f.Sel.Name
				if x, ok := f.X.(*ast.Ident); ok && x.Name == "wg" {
					w.emit("wg." + name)
					return true
				}
			}
			switch {
			case name == "make":
				if len(t.Args) > 0 {
					if _, ok := t.Args[0].(*ast.ChanType); ok {
						if len(t.Args) > 1 {
							w.emit("make-chan buffered " + w.src(t.Args[1]))
						} else {
							w.emit("make-chan unbuffered")
						}
					} else if strings.Contains(w.src(t), "Columns()") {
						w.emit("make-slice " + w.src(t))
					}
				}
			case name == "close":
				w.emit("close " + w.src(t.Args[0]))
			case name == "panic":
				w.emit("panic")
			case name == "append":
				if src := w.src(t); strings.Contains(src, "features") || strings.Contains(src, "data") || strings.Contains(src, "Columns()") {
					w.emit("append " + src)
				}
			case skelCalls[name]:
				w.emit("call " + name)
			}
		}
		return true
	})
}

func (w *skelWalker) block(label string, stmts []ast.Stmt) {
	mark := len(w.out)
	w.emit(label + " {")
	inner := len(w.out)
	for _, s := range stmts {
		w.stmt(s)
	}
	if len(w.out) == inner { // nothing interesting inside: drop the block
		w.out = w.out[:mark]
		return
	}
	w.emit("}")
}

func (w *skelWalker) stmt(s ast.Stmt) {
	switch t := s.(type) {
	case *ast.GoStmt:
		if fl, ok := t.Call.Fun.(*ast.FuncLit); ok {
			w.block("go func", fl.Body.List)
		} else {
			w.emit("go " + w.src(t.Call.Fun))
		}
	case *ast.DeferStmt:
		w.emit("defer " + w.src(t.Call))
	case *ast.SendStmt:
		w.emit("send " + w.src(t.Chan))
		w.expr(t.Value)
	case *ast.ExprStmt:
		w.expr(t.X)
	case *ast.AssignStmt:
		for _, r := range t.Rhs {
			w.expr(r)
		}
		if len(t.Lhs) == 1 && len(t.Rhs) == 1 {
			if id, ok := t.Rhs[0].(*ast.Ident); ok && id.Name == "nil" {
				w.emit("reset " + w.src(t.Lhs[0]))
			}
		}
	case *ast.DeclStmt:
		// var declarations carry nothing of interest
	case *ast.ReturnStmt:
		w.emit("return")
	case *ast.BranchStmt:
		w.emit(t.Tok.String())
	case *ast.BlockStmt:
		for _, b := range t.List {
			w.stmt(b)
		}
	case *ast.IfStmt:
		if t.Init != nil {
			w.stmt(t.Init)
		}
		mark := len(w.out)
		w.block("if "+w.src(t.Cond), t.Body.List)
		had := len(w.out) > mark
		if t.Else != nil {
			m2 := len(w.out)
			switch e := t.Else.(type) {
			case *ast.BlockStmt:
				w.block("else", e.List)
			default:
				w.emit("else {")
				in := len(w.out)
				w.stmt(e)
				if len(w.out) == in {
					w.out = w.out[:m2]
				} else {
					w.emit("}")
				}
			}
			if len(w.out) > m2 && !had { // else branch is interesting but the if branch was dropped: keep the condition
				tail := append([]string{}, w.out[m2:]...)
				w.out = append(w.out[:m2], "if "+w.src(t.Cond)+" { }")
				w.out = append(w.out, tail...)
			}
		}
	case *ast.ForStmt:
		if t.Cond != nil {
			w.block("for "+w.src(t.Cond), t.Body.List)
		} else {
			w.block("for", t.Body.List)
		}
	case *ast.RangeStmt:
		w.block("range "+w.src(t.X), t.Body.List)
	case *ast.SwitchStmt:
		for _, c := range t.Body.List {
			cc := c.(*ast.CaseClause)
			w.block("case", cc.Body)
		}
	case *ast.TypeSwitchStmt:
		for _, c := range t.Body.List {
			cc := c.(*ast.CaseClause)
			lbl := "default"
			if len(cc.List) > 0 {
				lbl = "case " + w.src(cc.List[0])
			}
			w.block(lbl, cc.Body)
		}
	case *ast.LabeledStmt:
		w.stmt(t.Stmt)
	}
}

func skelOfFile(path string, funcs []string) []string {
	fset := token.NewFileSet()
	f, err := parser.ParseFile(fset, path, nil, 0)
	if err != nil {
		die("%v", err)
	}
	var out []string
	for _, want := range funcs {
		found := false
		for _, d := range f.Decls {
			fn, ok := d.(*ast.FuncDecl)
			if !ok || fn.Name.Name != want || fn.Body == nil {
				continue
			}
			found = true
			w := &skelWalker{fset: fset}
			for _, s := range fn.Body.List {
				w.stmt(s)
			}
			out = append(out, "func "+want)
			out = append(out, w.out...)
			out = append(out, "end")
		}
		if !found {
			die("function %s not found in %s", want, path)
		}
	}
	return out
}

func trSkel(repo string) string {
	toks := skelOfFile(filepath.Join(repo, "processing", "processing.go"), []string{"ProcessFeatures", "readFeaturesFromSource", "processFeatures", "writeFeaturesToTargets", "processMultiPolygon"})
	toks = append(toks, skelOfFile(filepath.Join(repo, "processing", "gpkg", "gpkg.go"), []string{"ReadFeatures", "WriteFeatures", "writeFeatures"})...)
	var b strings.Builder
	b.WriteString("/-! GENERATED by trgen skel from processing/processing.go and processing/gpkg/gpkg.go — do not edit. -/\nnamespace Texel.Gen.Skel\n\ndef skeleton : List String := [\n")
	for i, t := range toks {
		sep := ","
		if i == len(toks)-1 {
			sep = ""
		}
		fmt.Fprintf(&b, "  %q%s\n", t, sep)
	}
	b.WriteString("]\n\nend Texel.Gen.Skel\n")
	return b.String()
}
