package main

import (
	"encoding/json"
	"fmt"

	"github.com/pdok/texel/tms20"
)

func try(name, doc string) {
	var t tms20.TileMatrixSet
	defer func() {
		if r := recover(); r != nil {
			fmt.Printf("%-28s PANIC %v\n", name, r)
		}
	}()
	err := json.Unmarshal([]byte(doc), &t)
	if err != nil {
		fmt.Printf("%-28s ERR %.110s\n", name, err.Error())
		return
	}
	b, _ := json.Marshal(&t)
	fmt.Printf("%-28s OK %T %.300s\n", name, t.CRS, string(b))
}

func main() {
	crs := `"http://www.opengis.net/def/crs/EPSG/0/28992"`
	m := func(k, v string) string {
		return `{"id":"0","pointOfOrigin":[1,2],"scaleDenominator":5,"cellSize":3,"tileWidth":256,"tileHeight":256,"matrixWidth":1,"matrixHeight":1,"` + k + `":` + v + `}`
	}
	for _, v := range []string{"[1]", "[1,2]", "[1,2,3]", "null", "[\"a\",2]", "{}", "[]", "5", "[null,1]"} {
		try("tm pointOfOrigin="+v, `{"crs":`+crs+`,"tileMatrices":[`+m("pointOfOrigin", v)+`]}`)
		try("bbox lowerLeft="+v, `{"boundingBox":{"crs":`+crs+`,"lowerLeft":`+v+`,"upperRight":[3,4]},"crs":`+crs+`,"tileMatrices":[`+m("title", `"t"`)+`]}`)
	}
}
