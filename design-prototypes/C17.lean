import GenMorton
import Morton

/-! The property theorems are about the *generated* definitions. -/

theorem gen_toZ_eq (x y : BitVec 64) : (Gen.Morton.toZ x y).1 = toZ x y := rfl
theorem gen_fromZ_eq (z : BitVec 64) : Gen.Morton.fromZ z = fromZ z := rfl

theorem C17_roundtrip (x y : BitVec 32) :
    Gen.Morton.fromZ (Gen.Morton.toZ (x.setWidth 64) (y.setWidth 64)).1 = (x.setWidth 64, y.setWidth 64) := by
  rw [gen_toZ_eq, gen_fromZ_eq]; exact roundtrip x y

theorem C17_ok_iff (x y : BitVec 64) :
    (Gen.Morton.toZ x y).2 = true ↔ x ≤ 0x00000000FFFFFFFF#64 ∧ y ≤ 0x00000000FFFFFFFF#64 := by
  simp [Gen.Morton.toZ]

#print axioms C17_roundtrip
#print axioms C17_ok_iff
