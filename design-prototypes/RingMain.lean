import Snap

def parseInts (ws : List String) : Array Int := (ws.filterMap String.toInt?).toArray
def toPts (a : Array Int) : Array P := Id.run do
  let mut r := #[]
  for i in [0 : a.size / 2] do r := r.push (a[2*i]!, a[2*i+1]!)
  return r
def showRing (r : Array P) : String := " ".intercalate (r.toList.map fun p => s!"{p.1},{p.2}")
def showRings (rs : Array (Array P)) : String := "[" ++ "|".intercalate (rs.toList.map showRing) ++ "]"

def handle (line : String) : String :=
  match line.trimAscii.toString.splitOn " " with
  | "kmp" :: rest =>
    match kmpDeduplicate (toPts (parseInts rest)) with
    | .ok r => "ok " ++ showRing r
    | .error e => "panic " ++ e
  | "split" :: o :: nflag :: rest =>
    let xs := parseInts rest
    let nf := nflag.toNat!
    let flags := toPts (xs.extract 0 (2 * nf))
    let ring := toPts (xs.extract (2 * nf) xs.size)
    match cleanupNewRing ring (o == "1") (fun p => flags.contains p) with
    | .ok s => s!"ok O{showRings s.outers} I{showRings s.inners} PL{showRings s.pointsAndLines}"
    | .error e => "panic " ++ e
  | "snap" :: rest =>
    let xs := parseInts rest
    -- depth minX minY res keep reverse nlev levels... nrings (n x y ...)*
    let g : Grid := ⟨xs[1]!, xs[2]!, xs[3]!, xs[0]!.toNat⟩
    let cfg : Config := ⟨xs[4]! == 1, xs[5]! == 1⟩
    let nlev := xs[6]!.toNat
    let levels := ((xs.extract 7 (7 + nlev)).toList.map Int.toNat)
    let nr := xs[7 + nlev]!.toNat
    let (rings, _) := Id.run do
      let mut pos := 8 + nlev
      let mut rings : Array (Array Pt) := #[]
      for _ in [0 : nr] do
        let n := xs[pos]!.toNat
        rings := rings.push (toPts (xs.extract (pos + 1) (pos + 1 + 2 * n)))
        pos := pos + 1 + 2 * n
      return (rings, pos)
    match snapPolygon g rings levels cfg with
    | .ok res =>
      let sorted := res.toArray.qsort (fun a b => a.1 < b.1)
      "ok " ++ " ".intercalate (sorted.toList.map fun (l, polys) =>
        s!"L{l}:[" ++ ";".intercalate (polys.toList.map fun pg => "|".intercalate (pg.toList.map showRing)) ++ "]")
    | .error e => "panic " ++ e
  | _ => "bad-op"

partial def loop (h : IO.FS.Stream) : IO Unit := do
  let line ← h.getLine
  if line.isEmpty then return ()
  IO.println (handle line)
  loop h

def main : IO Unit := do loop (← IO.getStdin)
