import Ring

def parseInts (ws : List String) : Array Int := (ws.filterMap String.toInt?).toArray
def toPts (a : Array Int) : Array P := Id.run do
  let mut r := #[]
  for i in [0 : a.size / 2] do r := r.push (a[2*i]!, a[2*i+1]!)
  return r
def showRing (r : Array P) : String := " ".intercalate (r.toList.map fun p => s!"{p.1},{p.2}")
def showRings (rs : Array (Array P)) : String := "[" ++ "|".intercalate (rs.toList.map showRing) ++ "]"

def handle (line : String) : String :=
  match line.trimAscii.toString.splitOn " " with
  | "kmp" :: rest =>
    match kmpDeduplicate (toPts (parseInts rest)) with
    | .ok r => "ok " ++ showRing r
    | .error e => "panic " ++ e
  | "split" :: o :: nflag :: rest =>
    let xs := parseInts rest
    let nf := nflag.toNat!
    let flags := toPts (xs.extract 0 (2 * nf))
    let ring := toPts (xs.extract (2 * nf) xs.size)
    match cleanupNewRing ring (o == "1") (fun p => flags.contains p) with
    | .ok s => s!"ok O{showRings s.outers} I{showRings s.inners} PL{showRings s.pointsAndLines}"
    | .error e => "panic " ++ e
  | _ => "bad-op"

partial def loop (h : IO.FS.Stream) : IO Unit := do
  let line ← h.getLine
  if line.isEmpty then return ()
  IO.println (handle line)
  loop h

def main : IO Unit := do loop (← IO.getStdin)
