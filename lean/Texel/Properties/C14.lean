import Texel.Model.QuadTree
import Texel.Gen.Flags
/-! # C14 — only true quadtree tile matrix sets pass validation

Model `Texel.QT.isQuadTree` (hand-written mirror of `pointindex.IsQuadTree`, tied by the exhaustive `isquad` correspondence:
every accepted built-in set × every tile matrix × every single-field perturbation). `TrueQuadTree` is the declarative
statement. The order of the two calls in `validateTileMatrixSet` (which decides "never panics") is re-extracted from
`main.go` on every run. Core-only proofs. -/
namespace Texel.C14
open Texel.QT

/-- square matrix and tiles, `ID` is the decimal text of the key, no variable widths -/
def LocalOK (tm : TM) : Prop :=
  tm.mh = tm.mw ∧ tm.th = tm.tw ∧ atoi tm.idText = some tm.id ∧ tm.nvar = 0

/-- consecutive ids, one common origin and corner, same tile size, every matrix exactly doubling the previous one, cell size halving
(within the code's tolerance 1.99..2.01) -/
def PairOK (prev tm : TM) : Prop :=
  tm.id = prev.id + 1 ∧ tm.ox = prev.ox ∧ tm.oy = prev.oy ∧ tm.corner = prev.corner ∧ tm.th = prev.th ∧ tm.mh = 2 * prev.mh ∧ ratioOK prev tm = true

/-- a true quadtree: every matrix is locally fine and every two consecutive ones are related as above -/
def TrueQuadTreeFrom : Option TM → List TM → Prop
  | _, [] => True
  | prev, tm :: rest => LocalOK tm ∧ (match prev with | none => True | some p => PairOK p tm) ∧ TrueQuadTreeFrom (some tm) rest

def TrueQuadTree (tms : List TM) : Prop := TrueQuadTreeFrom none tms

theorem localErr_none_iff (tm : TM) : localErr tm = none ↔ LocalOK tm := by
  unfold localErr LocalOK
  constructor
  · intro h
    split at h
    · cases h
    · split at h
      · cases h
      · split at h
        · cases h
        · rename_i k hk
          split at h
          · cases h
          · split at h
            · cases h
            · rename_i h1 h2 h3 h4
              refine ⟨by omega, by omega, ?_, by omega⟩
              rw [hk]; congr 1; omega
  · rintro ⟨h1, h2, h3, h4⟩
    rw [if_neg (by omega), if_neg (by omega), h3]
    simp [h4]

theorem pairErr_none_iff (prev tm : TM) : pairErr prev tm = none ↔ PairOK prev tm := by
  unfold pairErr PairOK
  constructor
  · intro h
    split at h
    · cases h
    · split at h
      · cases h
      · split at h
        · cases h
        · split at h
          · cases h
          · split at h
            · cases h
            · split at h
              · cases h
              · rename_i h1 h2 h3 h4 h5 h6
                have h2' : tm.ox = prev.ox ∧ tm.oy = prev.oy := by
                  constructor
                  · exact Classical.byContradiction fun hc => h2 (Or.inl hc)
                  · exact Classical.byContradiction fun hc => h2 (Or.inr hc)
                refine ⟨by omega, h2'.1, h2'.2, by omega, by omega, by omega, by simpa using h6⟩
  · rintro ⟨h1, h2, h3, h4, h5, h6, h7⟩
    rw [if_neg (by omega), if_neg (by simp [h2, h3]), if_neg (by omega), if_neg (by omega), if_neg (by omega)]
    simp [h7]

theorem isQuadTreeFrom_none_iff (prev : Option TM) (tms : List TM) : isQuadTreeFrom prev tms = none ↔ TrueQuadTreeFrom prev tms := by
  induction tms generalizing prev with
  | nil => simp [isQuadTreeFrom, TrueQuadTreeFrom]
  | cons tm rest ih =>
    unfold isQuadTreeFrom TrueQuadTreeFrom
    cases hl : localErr tm with
    | some e =>
      simp only [reduceCtorEq, false_iff]
      intro h
      have := (localErr_none_iff tm).2 h.1
      rw [hl] at this; cases this
    | none =>
      have hloc := (localErr_none_iff tm).1 hl
      simp only
      cases prev with
      | none =>
        simp only
        rw [ih]
        exact ⟨fun h => ⟨hloc, trivial, h⟩, fun h => h.2.2⟩
      | some p =>
        simp only
        cases hp : pairErr p tm with
        | some e =>
          simp only [reduceCtorEq, false_iff]
          intro h
          have := (pairErr_none_iff p tm).2 h.2.1
          rw [hp] at this; cases this
        | none =>
          simp only
          rw [ih]
          exact ⟨fun h => ⟨hloc, (pairErr_none_iff p tm).1 hp, h⟩, fun h => h.2.2⟩

/-- **C14**: validation accepts a tile matrix set if and only if it is a true quadtree — so breaking any one of the conditions in
any tile matrix of an accepted set makes it rejected -/
theorem C14_iff (tms : List TM) : isQuadTree tms = none ↔ TrueQuadTree tms :=
  isQuadTreeFrom_none_iff none tms

/-- `IsQuadTree` always answers (accept or an error number): the model has no panic; that the tool calls it *before*
`DeviationStats` (which panics on variable matrix widths) is read from the current `main.go` -/
theorem C14_validate_order : Texel.Gen.Flags.validateOrder = ["IsQuadTree", "DeviationStats"] := by decide

/-- in an accepted set the matrix width doubles from one id to the next: `mw (id₀ + k) = 2^k · mw id₀` -/
theorem C14_doubling (prev tm : TM) (h : PairOK prev tm) (hl : LocalOK tm) (hp : LocalOK prev) : tm.mw = 2 * prev.mw := by
  obtain ⟨_, _, _, _, _, h6, _⟩ := h
  rw [← hl.1, ← hp.1]; exact h6

-- non-vacuity: a two-level quadtree is accepted; widening the second matrix by one is rejected by check 10
def tm0 : TM := ⟨0, "0", 1, 1, 256, 256, 0, (0, 1), (0, 1), 0, 3440640, 1000⟩
def tm1 : TM := ⟨1, "1", 2, 2, 256, 256, 0, (0, 1), (0, 1), 0, 1720320, 1000⟩
example : isQuadTree [tm0, tm1] = none := by decide
example : isQuadTree [tm0, { tm1 with mw := 3, mh := 3 }] = some 10 := by decide
example : isQuadTree [tm0, { tm1 with idText := "x" }] = some 3 := by decide

end Texel.C14
