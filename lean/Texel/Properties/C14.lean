import Texel.Model.QuadTree
import Texel.Gen.Flags
import Texel.Proofs.GenArith
import Texel.Proofs.GenIsquad
/-! # C14 — only true quadtree tile matrix sets pass validation

Model `Texel.QT.isQuadTree` (hand-written mirror of `pointindex.IsQuadTree`, tied by the exhaustive `isquad` correspondence:
every accepted built-in set × every tile matrix × every single-field perturbation). `TrueQuadTree` is the declarative
statement. The order of the two calls in `validateTileMatrixSet` (which decides "never panics") is re-extracted from
`main.go` on every run. Core-only proofs. -/
namespace Texel.C14
open Texel.QT

/-- square matrix and tiles, the tile width a power of two, `ID` is the decimal text of the key, no variable widths -/
def LocalOK (tm : TM) : Prop :=
  tm.mh = tm.mw ∧ tm.th = tm.tw ∧ (∃ k, tm.tw = 2 ^ k) ∧ atoi tm.idText = some tm.id ∧ tm.nvar = 0

/-- the first matrix has id 0 and is a single tile ("consecutive integer ids from 0") -/
def FirstOK (tm : TM) : Prop := tm.id = 0 ∧ tm.mw = 1

theorem isPow2_iff (n : Nat) : isPow2 n = true ↔ ∃ k, n = 2 ^ k := by
  unfold isPow2
  constructor
  · intro h; exact ⟨n.log2, (by simpa using h : 2 ^ n.log2 = n).symm⟩
  · rintro ⟨k, rfl⟩; simp [Nat.log2_two_pow]

/-- consecutive ids, one common origin and corner, same tile size, every matrix exactly doubling the previous one, cell size halving
(within the code's tolerance 1.99..2.01) -/
def PairOK (prev tm : TM) : Prop :=
  tm.id = prev.id + 1 ∧ tm.ox = prev.ox ∧ tm.oy = prev.oy ∧ tm.corner = prev.corner ∧ tm.th = prev.th ∧ tm.mh = 2 * prev.mh ∧ ratioOK prev tm = true

/-- a true quadtree: every matrix is locally fine and every two consecutive ones are related as above -/
def TrueQuadTreeFrom : Option TM → List TM → Prop
  | _, [] => True
  | prev, tm :: rest => LocalOK tm ∧ (match prev with | none => FirstOK tm | some p => PairOK p tm) ∧ TrueQuadTreeFrom (some tm) rest

def TrueQuadTree (tms : List TM) : Prop := TrueQuadTreeFrom none tms

theorem localErr_none_iff (tm : TM) : localErr tm = none ↔ LocalOK tm := by
  unfold localErr LocalOK
  constructor
  · intro h
    split at h
    · cases h
    · split at h
      · cases h
      · split at h
        · cases h
        · split at h
          · cases h
          · rename_i k hk
            split at h
            · cases h
            · split at h
              · cases h
              · refine ⟨by omega, by omega, (isPow2_iff _).1 (by simp_all), ?_, by omega⟩
                rw [hk]; congr 1; omega
  · rintro ⟨h1, h2, h3, h4, h5⟩
    rw [if_neg (by omega), if_neg (by omega), if_neg (by simp [(isPow2_iff _).2 h3]), h4]
    simp [h5]

theorem firstErr_none_iff (tm : TM) : firstErr tm = none ↔ FirstOK tm := by
  unfold firstErr FirstOK
  constructor
  · intro h
    split at h
    · cases h
    · split at h
      · cases h
      · constructor <;> omega
  · rintro ⟨h1, h2⟩
    rw [if_neg (by omega), if_neg (by omega)]

theorem pairErr_none_iff (prev tm : TM) : pairErr prev tm = none ↔ PairOK prev tm := by
  unfold pairErr PairOK
  constructor
  · intro h
    split at h
    · cases h
    · split at h
      · cases h
      · split at h
        · cases h
        · split at h
          · cases h
          · split at h
            · cases h
            · split at h
              · cases h
              · rename_i h1 h2 h3 h4 h5 h6
                have h2' : tm.ox = prev.ox ∧ tm.oy = prev.oy := by
                  constructor
                  · exact Classical.byContradiction fun hc => h2 (Or.inl hc)
                  · exact Classical.byContradiction fun hc => h2 (Or.inr hc)
                refine ⟨by omega, h2'.1, h2'.2, by omega, by omega, by omega, by simpa using h6⟩
  · rintro ⟨h1, h2, h3, h4, h5, h6, h7⟩
    rw [if_neg (by omega), if_neg (by simp [h2, h3]), if_neg (by omega), if_neg (by omega), if_neg (by omega)]
    simp [h7]

theorem isQuadTreeFrom_none_iff (prev : Option TM) (tms : List TM) : isQuadTreeFrom prev tms = none ↔ TrueQuadTreeFrom prev tms := by
  induction tms generalizing prev with
  | nil => simp [isQuadTreeFrom, TrueQuadTreeFrom]
  | cons tm rest ih =>
    unfold isQuadTreeFrom TrueQuadTreeFrom
    cases hl : localErr tm with
    | some e =>
      simp only [reduceCtorEq, false_iff]
      intro h
      have := (localErr_none_iff tm).2 h.1
      rw [hl] at this; cases this
    | none =>
      have hloc := (localErr_none_iff tm).1 hl
      simp only
      cases prev with
      | none =>
        simp only
        cases hf : firstErr tm with
        | some e =>
          simp only [reduceCtorEq, false_iff]
          intro h
          have := (firstErr_none_iff tm).2 h.2.1
          rw [hf] at this; cases this
        | none =>
          simp only
          rw [ih]
          exact ⟨fun h => ⟨hloc, (firstErr_none_iff tm).1 hf, h⟩, fun h => h.2.2⟩
      | some p =>
        simp only
        cases hp : pairErr p tm with
        | some e =>
          simp only [reduceCtorEq, false_iff]
          intro h
          have := (pairErr_none_iff p tm).2 h.2.1
          rw [hp] at this; cases this
        | none =>
          simp only
          rw [ih]
          exact ⟨fun h => ⟨hloc, (pairErr_none_iff p tm).1 hp, h⟩, fun h => h.2.2⟩

/-- **C14**: validation accepts a tile matrix set if and only if it is a true quadtree — so breaking any one of the conditions in
any tile matrix of an accepted set makes it rejected -/
theorem C14_iff (tms : List TM) : isQuadTree tms = none ↔ TrueQuadTree tms :=
  isQuadTreeFrom_none_iff none tms

/-- **C14 on the current source**: the checks `trgen isquad` regenerates from `pointindex.IsQuadTree` on every run accept a tile matrix set if and
only if it is a true quadtree -/
theorem C14_iff_source (tms : List TM) : Gen.IQ.isQuadTree tms = none ↔ TrueQuadTree tms :=
  (GenIsquad.gen_isQuadTree_none tms).trans (C14_iff tms)

/-- `IsQuadTree` always answers (accept or an error number): the model has no panic; that the tool calls it *before*
`DeviationStats` (which panics on variable matrix widths) is read from the current `main.go` -/
theorem C14_validate_order : Texel.Gen.Flags.validateOrder = ["IsQuadTree", "DeviationStats"] := by decide

/-- in an accepted set the matrix width doubles from one id to the next: `mw (id₀ + k) = 2^k · mw id₀` -/
theorem C14_doubling (prev tm : TM) (h : PairOK prev tm) (hl : LocalOK tm) (hp : LocalOK prev) : tm.mw = 2 * prev.mw := by
  obtain ⟨_, _, _, _, _, h6, _⟩ := h
  rw [← hl.1, ← hp.1]; exact h6

/-- below an accepted matrix `p`, the `i`-th following matrix has id `p.id + i + 1`, `2^(i+1)` times its width, and its tile width -/
theorem from_shape (p : TM) (rest : List TM) (h : TrueQuadTreeFrom (some p) rest) (hp : LocalOK p) :
    ∀ i (hi : i < rest.length), rest[i].id = p.id + (i + 1 : Nat) ∧ rest[i].mw = 2 ^ (i + 1) * p.mw ∧ rest[i].tw = p.tw := by
  induction rest generalizing p with
  | nil => intro i hi; simp at hi
  | cons tm rest ih =>
    obtain ⟨hl, hpair, hrest⟩ := h
    have hmw := C14_doubling p tm hpair hl hp
    have htw : tm.tw = p.tw := by rw [← hl.2.1, ← hp.2.1]; exact hpair.2.2.2.2.1
    intro i hi
    cases i with
    | zero => exact ⟨by simpa using hpair.1, by simpa using hmw, htw⟩
    | succ j =>
      obtain ⟨a, b, c⟩ := ih tm hrest hl j (by simpa using hi)
      refine ⟨?_, ?_, ?_⟩
      · simp only [List.getElem_cons_succ]; rw [a, hpair.1]; push_cast; omega
      · simp only [List.getElem_cons_succ]; rw [b, hmw]; have e : 2 ^ (j + 1 + 1) = 2 ^ (j + 1) * 2 := Nat.pow_succ ..; rw [e, Nat.mul_assoc]
      · simp only [List.getElem_cons_succ]; rw [c, htw]

/-- **C14 (pixel size)**: in an accepted set the `i`-th matrix has id `i` and `2^i` tiles of the first matrix's (power of two) width on each
axis, so the extent holds exactly `2^(i + log₂ tileWidth + 4)` pixels of 1/16 cell on each axis: the level `snap` and `pointindex`
use for tile matrix `i` (`i + log₂ tileWidth + log₂ 16`) has pixels of exactly the cell size of `i` divided by 16 -/
theorem C14_pixel_count (tms : List TM) (h : isQuadTree tms = none) (i : Nat) (hi : i < tms.length) :
    tms[i].id = (i : Int) ∧ tms[i].mw = 2 ^ i ∧ tms[i].tw = (tms[0]'(by omega)).tw ∧
    tms[i].mw * tms[i].tw * 16 = 2 ^ (i + (tms[0]'(by omega)).tw.log2 + 4) := by
  rw [C14_iff] at h
  cases tms with
  | nil => simp at hi
  | cons t0 rest =>
    obtain ⟨hl, hf, hrest⟩ := h
    obtain ⟨k, hk⟩ := hl.2.2.1
    have key : ∀ j (hj : j < (t0 :: rest).length), (t0 :: rest)[j].id = (j : Int) ∧ (t0 :: rest)[j].mw = 2 ^ j ∧ (t0 :: rest)[j].tw = t0.tw := by
      intro j hj
      cases j with
      | zero => exact ⟨by simpa using hf.1, by simpa using hf.2, rfl⟩
      | succ m =>
        obtain ⟨a, b, c⟩ := from_shape t0 rest hrest hl m (by simpa using hj)
        refine ⟨?_, ?_, ?_⟩
        · simp only [List.getElem_cons_succ]; rw [a, hf.1]; push_cast; omega
        · simp only [List.getElem_cons_succ]; rw [b, hf.2]; simp
        · simp only [List.getElem_cons_succ]; exact c
    obtain ⟨a, b, c⟩ := key i hi
    refine ⟨a, b, c, ?_⟩
    rw [b, c]
    simp only [List.getElem_cons_zero]
    rw [hk, Nat.log2_two_pow, Nat.pow_add, Nat.pow_add]

/-- **C14 (pixel size, on the current source)**: the level that `pointindex.FromTileMatrixSet` and `snap.tileMatrixIDsByLevels` compute for
tile matrix `i` of an accepted set (their arithmetic is regenerated from the source on every run, `Gen.Arith`) is the same, and the extent holds
exactly `2^level` pixels of 1/16 cell on each axis -/
theorem C14_level_used (tms : List TM) (h : isQuadTree tms = none) (i : Nat) (hi : i < tms.length) (xSpan : Int) :
    Gen.Arith.snapLevelOf (tms[0]'(by omega)).tw i = Gen.Arith.indexDeepestLevel (tms[0]'(by omega)).tw i xSpan ∧
    tms[i].mw * tms[i].tw * 16 = 2 ^ (Gen.Arith.snapLevelOf (tms[0]'(by omega)).tw i).toNat := by
  obtain ⟨hl, hs, _, _⟩ := GenArith.gen_level (tms[0]'(by omega)).tw i xSpan
  refine ⟨by rw [hl, hs], ?_⟩
  rw [hs, Int.toNat_natCast]
  exact (C14_pixel_count tms h i hi).2.2.2

-- non-vacuity: a two-level quadtree is accepted; widening the second matrix by one is rejected by check 10
def tm0 : TM := ⟨0, "0", 1, 1, 256, 256, 0, (0, 1), (0, 1), 0, 3440640, 1000⟩
def tm1 : TM := ⟨1, "1", 2, 2, 256, 256, 0, (0, 1), (0, 1), 0, 1720320, 1000⟩
example : isQuadTree [tm0, tm1] = none := by decide
example : isQuadTree [tm0, { tm1 with mw := 3, mh := 3 }] = some 10 := by decide
example : isQuadTree [tm0, { tm1 with idText := "x" }] = some 3 := by decide
-- F14: ids that do not start at 0; F15: a first matrix of 2 x 2 tiles, a tile width that is not a power of two
example : isQuadTree [{ tm1 with mw := 1, mh := 1 }] = some 6 := by decide
example : isQuadTree [{ tm0 with mw := 2, mh := 2 }, { tm1 with mw := 4, mh := 4 }] = some 14 := by decide
example : isQuadTree [{ tm0 with tw := 300, th := 300 }] = some 12 := by decide
example : Gen.IQ.isQuadTree [tm0, tm1] = none ∧ Gen.IQ.isQuadTree [tm0, { tm1 with mw := 3, mh := 3 }] = some "tile matrix should double in size each level" := by decide

end Texel.C14
