import Texel.Gen.Morton
import Texel.Model.Index
import Texel.Proofs.Morton
/-! # C17 — Z-order pixel keys are unique and hierarchical

All statements are about `Texel.Gen.Morton.toZ/fromZ`, the definitions *regenerated from
`morton/morton.go`* by `trgen morton` on every run (`uint` = 64 bit is part of the trusted base).
32-bit addresses are embedded in `BitVec 64` by zero extension (`setWidth 64`). -/
namespace Texel.C17
open Texel.Morton

/-- the generated code is, literally, the hand-written spread/compact formulation the lemmas are about -/
theorem gen_toZ_eq (x y : BitVec 64) : (Gen.Morton.toZ x y).1 = toZ x y := rfl
theorem gen_fromZ_eq (z : BitVec 64) : Gen.Morton.fromZ z = fromZ z := rfl

/-- decoding a key returns the address it was made from -/
theorem C17_roundtrip (x y : BitVec 32) :
    Gen.Morton.fromZ (Gen.Morton.toZ (x.setWidth 64) (y.setWidth 64)).1 = (x.setWidth 64, y.setWidth 64) := by
  rw [gen_toZ_eq, gen_fromZ_eq]; exact roundtrip x y

theorem setWidth_inj (a b : BitVec 32) (h : a.setWidth 64 = b.setWidth 64) : a = b := by
  have := congrArg (BitVec.setWidth 32) h
  simpa using this

/-- keys are distinct for distinct pairs of 32-bit addresses -/
theorem C17_injective (x₁ y₁ x₂ y₂ : BitVec 32)
    (h : (Gen.Morton.toZ (x₁.setWidth 64) (y₁.setWidth 64)).1 = (Gen.Morton.toZ (x₂.setWidth 64) (y₂.setWidth 64)).1) :
    x₁ = x₂ ∧ y₁ = y₂ := by
  have h1 := C17_roundtrip x₁ y₁
  have h2 := C17_roundtrip x₂ y₂
  rw [h, h2] at h1
  exact ⟨(setWidth_inj _ _ (congrArg Prod.fst h1)).symm, (setWidth_inj _ _ (congrArg Prod.snd h1)).symm⟩

/-- every bit of the key: even positions carry x, odd positions carry y -/
theorem C17_bit (x y : BitVec 32) (i : Nat) (hi : i < 64) :
    (Gen.Morton.toZ (x.setWidth 64) (y.setWidth 64)).1.getLsbD i = (if i % 2 = 0 then x.getLsbD (i / 2) else y.getLsbD (i / 2)) := by
  rw [gen_toZ_eq]; exact toZ_bit x y i hi

/-- the key of the parent pixel (one level up) is the key with its two lowest bits removed -/
theorem C17_parent (x y : BitVec 32) :
    (Gen.Morton.toZ ((x >>> 1).setWidth 64) ((y >>> 1).setWidth 64)).1 = (Gen.Morton.toZ (x.setWidth 64) (y.setWidth 64)).1 >>> 2 := by
  apply BitVec.eq_of_getLsbD_eq
  intro i hi
  rw [C17_bit _ _ i hi]
  conv_rhs => rw [BitVec.getLsbD_ushiftRight]
  by_cases h62 : 2 + i < 64
  · rw [C17_bit _ _ (2 + i) h62]
    have e1 : (2 + i) % 2 = i % 2 := by omega
    have e2 : (2 + i) / 2 = 1 + i / 2 := by omega
    simp only [e1, e2, BitVec.getLsbD_ushiftRight]
  · have : (Gen.Morton.toZ (x.setWidth 64) (y.setWidth 64)).1.getLsbD (2 + i) = false :=
      BitVec.getLsbD_of_ge _ _ (by omega)
    rw [this]
    have hge : 32 ≤ 1 + i / 2 := by omega
    split
    · rw [BitVec.getLsbD_ushiftRight]; exact BitVec.getLsbD_of_ge _ _ hge
    · rw [BitVec.getLsbD_ushiftRight]; exact BitVec.getLsbD_of_ge _ _ hge

/-- addresses that do not fit in 32 bits are reported (`ok = false`; `MustToZ` panics), never silently aliased -/
theorem C17_ok_iff (x y : BitVec 64) :
    (Gen.Morton.toZ x y).2 = true ↔ x ≤ 0x00000000FFFFFFFF#64 ∧ y ≤ 0x00000000FFFFFFFF#64 := by
  simp [Gen.Morton.toZ]

theorem C17_ok_of_32 (x y : BitVec 32) : (Gen.Morton.toZ (x.setWidth 64) (y.setWidth 64)).2 = true := by
  rw [C17_ok_iff]
  constructor <;> (rw [BitVec.le_def]; simp; omega)

/-- `getQuadrantZs`: the four keys looked up below a parent are the keys of its four children, none of them aliased -/
theorem getQuadrantZs_spec (px py : BitVec 32) (hx : px.toNat < 2 ^ 31) (hy : py.toNat < 2 ^ 31) :
    getQuadrantZs (Gen.Morton.toZ (px.setWidth 64) (py.setWidth 64)).1 =
      [0, 1, 2, 3].map fun (i : Nat) =>
        ((Gen.Morton.toZ ((px * 2#32 + BitVec.ofNat 32 (i &&& 1)).setWidth 64)
                          ((py * 2#32 + BitVec.ofNat 32 ((i &&& 2) >>> 1)).setWidth 64)).1, true) := by
  unfold getQuadrantZs
  rw [C17_roundtrip]
  have key : ∀ (p : BitVec 32) (b : Nat), p.toNat < 2 ^ 31 → b < 2 →
      p.setWidth 64 * 2#64 + BitVec.ofNat 64 b = (p * 2#32 + BitVec.ofNat 32 b).setWidth 64 := by
    intro p b hp hb
    apply BitVec.eq_of_toNat_eq
    simp [BitVec.toNat_add, BitVec.toNat_mul, BitVec.toNat_setWidth]
    omega
  simp only [List.map_cons, List.map_nil]
  have e := fun (p : BitVec 32) (b : Nat) (hp : p.toNat < 2 ^ 31) (hb : b < 2) => key p b hp hb
  simp only [show (0 &&& 1 : Nat) = 0 from rfl, show (1 &&& 1 : Nat) = 1 from rfl, show (2 &&& 1 : Nat) = 0 from rfl,
    show (3 &&& 1 : Nat) = 1 from rfl, show ((0 &&& 2) >>> 1 : Nat) = 0 from rfl, show ((1 &&& 2) >>> 1 : Nat) = 0 from rfl,
    show ((2 &&& 2) >>> 1 : Nat) = 1 from rfl, show ((3 &&& 2) >>> 1 : Nat) = 1 from rfl]
  rw [e px 0 hx (by omega), e px 1 hx (by omega), e py 0 hy (by omega), e py 1 hy (by omega)]
  simp only [Prod.mk.injEq, List.cons.injEq, and_true]
  refine ⟨?_, ?_, ?_, ?_⟩ <;> exact Prod.ext rfl (C17_ok_of_32 _ _)

-- non-vacuity / concrete instances
example : (Gen.Morton.toZ 3#64 5#64) = (39#64, true) := by decide
example : Gen.Morton.fromZ 39#64 = (3#64, 5#64) := by decide
example : (Gen.Morton.toZ 0x100000000#64 0#64).2 = false := by decide

end Texel.C17
