import Texel.Properties.C02
import Texel.Model.SnapF
import Texel.Proofs.Shrink
/-! # C01 — snapping never introduces crossing edges   (partial)

The full statement is `C01_statement` below. What is proved: the two ingredients of the snap-rounding argument that are
properties of *this* code — the routing is exact (C02: an edge is routed through exactly the hot pixels it meets, so a routed
fragment between two consecutive hot pixels meets no other hot pixel) and the algebraic core of the shrinking step
(`shrink_ne_zero`). The geometric core (`SnapRoundingNoCross`, Guibas–Marimont for half-open pixels) and the hypothesis that every
output edge is a run of routed edges are *not* proved; C01 is therefore decided per generated case by the exact oracle
`oracleNoCross` on the implementation's output, with the model tied by the `snap` correspondence. One genuine defect is known
(finding F5). -/
namespace Texel.C01
open Texel

/-- sign of the orientation of `c` relative to the directed line `a → b` (pixel indices) -/
def orient (a b c : P) : Int := (b.1 - a.1) * (c.2 - a.2) - (b.2 - a.2) * (c.1 - a.1)

/-- the two segments cross in a point interior to both (not merely touch or overlap) -/
def properCross (a b c d : P) : Bool :=
  decide (orient a b c * orient a b d < 0) && decide (orient c d a * orient c d b < 0)

def ringEdgesP (r : Array P) : List (P × P) :=
  match r.toList with
  | [] => []
  | [_] => []
  | v :: vs => List.zip (v :: vs) (vs ++ [v])

def noCross (polys : Array Poly) : Bool :=
  let es := polys.toList.flatMap fun pg => pg.toList.flatMap ringEdgesP
  es.all fun e => es.all fun f => !properCross e.1 e.2 f.1 f.2

/-- the property at full strength, on the model (`Valid` is the exact validity predicate of the generator) -/
def C01_statement (Valid : List (List Pt) → Prop) : Prop :=
  ∀ (g : Grid) (rings : List (List Pt)) (levels : List Nat) (cfg : Config) (res : List (Nat × Array Poly)),
    0 < g.res → Valid rings → snapPolygonF g rings levels cfg = .ok res → ∀ e ∈ res, noCross e.2 = true

/-- proper crossing is symmetric in the two segments and in the direction of each (so the oracle may test unordered pairs) -/
theorem properCross_symm (a b c d : P) : properCross a b c d = properCross c d a b := by
  unfold properCross; rw [Bool.and_comm]

theorem orient_swap (a b c : P) : orient b a c = - orient a b c := by
  unfold orient
  have h1 : (a.1 - b.1) * (c.2 - b.2) = (b.1 - a.1) * (b.2 - c.2) := by
    rw [show a.1 - b.1 = -(b.1 - a.1) by omega, show c.2 - b.2 = -(b.2 - c.2) by omega, Int.neg_mul_neg]
  have h2 : (a.2 - b.2) * (c.1 - b.1) = (b.2 - a.2) * (b.1 - c.1) := by
    rw [show a.2 - b.2 = -(b.2 - a.2) by omega, show c.1 - b.1 = -(b.1 - c.1) by omega, Int.neg_mul_neg]
  rw [h1, h2]
  have e1 : (b.1 - a.1) * (b.2 - c.2) = (b.1 - a.1) * (b.2 - a.2) - (b.1 - a.1) * (c.2 - a.2) := by
    rw [← Int.mul_sub]; congr 1; omega
  have e2 : (b.2 - a.2) * (b.1 - c.1) = (b.2 - a.2) * (b.1 - a.1) - (b.2 - a.2) * (c.1 - a.1) := by
    rw [← Int.mul_sub]; congr 1; omega
  rw [e1, e2, Int.mul_comm (b.1 - a.1) (b.2 - a.2)]
  omega

/-- an edge never properly crosses itself or an edge sharing an endpoint with it -/
theorem properCross_shared_endpoint (a b d : P) : properCross a b a d = false := by
  unfold properCross
  have : orient a b a = 0 := by unfold orient; simp
  simp [this]

/-- the routed fragment between consecutive hot pixels meets no other hot pixel (C02) — first ingredient -/
theorem C01_ingredient_routing (g : Grid) (hres : 0 < g.res) (hot : Nat → Quad → Bool) (hc : HotClosed g.depth hot)
    (L : Seg) (l : Nat) (hl : l ≤ g.depth) :
    (∀ p, p ∈ snapLevel lineIntersects g hot L l ↔
        p.x < 2 ^ l ∧ p.y < 2 ^ l ∧ (l = 0 ∨ hot l p = true) ∧ Meets L (g.box l p)) ∧
    (snapLevel lineIntersects g hot L l).Pairwise (fun a b => Precedes L (g.box l a) (g.box l b)) :=
  Texel.C02.C02_routing g hres hot hc L l hl
/-- algebraic core of the shrinking step — second ingredient -/
theorem C01_ingredient_shrink (v z τ : ℚ) (hτ0 : 0 ≤ τ) (hτ1 : τ < 1) (hv : 1/2 ≤ |v|) (hz : |v - z| ≤ 1/2) :
    (1 - τ) * v + τ * z ≠ 0 :=
  Texel.shrink_ne_zero v z τ hτ0 hτ1 hv hz

example : properCross (0, 0) (2, 2) (0, 2) (2, 0) = true := by decide
example : properCross (0, 0) (2, 2) (1, 1) (2, 0) = false := by decide      -- touching is allowed
example : properCross (0, 0) (2, 0) (1, 0) (3, 0) = false := by decide      -- overlapping is allowed

end Texel.C01
