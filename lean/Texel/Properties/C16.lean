import Texel.Model.TmsJson
import Texel.Proofs.TmsJson
/-! # C16 — tile matrix set documents survive decode/encode; bad ones give errors

Model `Texel.TJ` (`Model/TmsJson.lean`): `decode`/`encode` of tile matrix set documents including the library behaviour that
decides acceptance (kind checks, `validate` tags, float → uint conversion, `ParseInt`, the three CRS forms), tied to
`tms20` by the `tmsdoc` correspondence (every built-in document and tens of thousands of structural mutations: accept/reject
and the re-encoded document must agree). Proved here: the rejection clauses of the property, for *every* document. The model has
no panic (it is total), so "never panics" for the code is what the correspondence and the harness's `recover` establish. -/
namespace Texel.C16
open Texel.TJ

/-- not accepted: the decoder answers with an error -/
def Rejected {α} (r : E α) : Prop := ∀ v, r ≠ .ok v

theorem rejected_error {α} (e : String) : Rejected (.error e : E α) := by intro v h; cases h

theorem rejected_bind {α β} (x : E α) (f : α → E β) (h : ∀ a, x = .ok a → Rejected (f a)) : Rejected (x >>= f) := by
  intro v hv
  cases x with
  | error e => cases hv
  | ok a => exact h a rfl v hv

/-- a document that is not a JSON object is rejected -/
theorem C16_not_an_object (j : J) (h : ∀ kvs, j ≠ .obj kvs) : Rejected (decode j) := by
  cases j with
  | obj kvs => exact absurd rfl (h kvs)
  | _ => exact rejected_error _

theorem rejected_check_false {β} (err : String) (f : Unit → E β) : Rejected (check false err >>= f) := by
  intro v hv; cases hv

/-- a document without `crs` is rejected -/
theorem C16_missing_crs (kvs : List (String × J)) (h : lookup "crs" kvs = none) : Rejected (decode (.obj kvs)) := by
  unfold decode
  refine rejected_bind _ _ fun _ _ => rejected_bind _ _ fun _ _ => rejected_bind _ _ fun _ _ => rejected_bind _ _ fun _ _ =>
    rejected_bind _ _ fun _ _ => rejected_bind _ _ fun _ _ => rejected_bind _ _ fun _ _ => rejected_bind _ _ fun _ _ => ?_
  refine rejected_bind _ _ fun c hc => ?_
  unfold reqField at hc
  rw [h] at hc
  cases hc

/-- a document without `tileMatrices`, or whose `tileMatrices` is not an array, is rejected -/
theorem C16_missing_tileMatrices (kvs : List (String × J)) (h : ∀ xs, lookup "tileMatrices" kvs ≠ some (.arr xs)) :
    Rejected (decode (.obj kvs)) := by
  unfold decode
  refine rejected_bind _ _ fun _ _ => rejected_bind _ _ fun _ _ => rejected_bind _ _ fun _ _ => rejected_bind _ _ fun _ _ =>
    rejected_bind _ _ fun _ _ => rejected_bind _ _ fun _ _ => rejected_bind _ _ fun _ _ => rejected_bind _ _ fun _ _ =>
    rejected_bind _ _ fun _ _ => ?_
  refine rejected_bind _ _ fun ms hms => ?_
  unfold reqField at hms
  cases hl : lookup "tileMatrices" kvs with
  | none => rw [hl] at hms; cases hms
  | some j =>
    rw [hl] at hms
    cases j with
    | arr xs => exact absurd hl (h xs)
    | _ => cases hms

/-- an empty list of tile matrices is rejected -/
theorem C16_no_tile_matrices (kvs : List (String × J)) (h : lookup "tileMatrices" kvs = some (.arr [])) : Rejected (decode (.obj kvs)) := by
  unfold decode
  refine rejected_bind _ _ fun _ _ => rejected_bind _ _ fun _ _ => rejected_bind _ _ fun _ _ => rejected_bind _ _ fun _ _ =>
    rejected_bind _ _ fun _ _ => rejected_bind _ _ fun _ _ => rejected_bind _ _ fun _ _ => rejected_bind _ _ fun _ _ =>
    rejected_bind _ _ fun _ _ => ?_
  refine rejected_bind _ _ fun ms hms => ?_
  unfold reqField at hms
  rw [h] at hms
  simp only [matricesField, decodeTMs, Except.ok.injEq] at hms
  subst hms
  refine rejected_bind _ _ fun _ _ => rejected_bind _ _ fun _ _ => rejected_bind _ _ fun _ _ => ?_
  exact rejected_check_false _ _

/-- a `crs` of a wrong kind (number, boolean, null, array) is rejected -/
theorem C16_crs_wrong_kind (j : J) (hs : ∀ s, j ≠ .str s) (ho : ∀ kvs, j ≠ .obj kvs) : Rejected (decodeCRS j) := by
  cases j with
  | str s => exact absurd rfl (hs s)
  | obj kvs => exact absurd rfl (ho kvs)
  | _ => exact rejected_error _

/-- a tile matrix entry that is not an object is rejected -/
theorem C16_tm_not_object (j : J) (h : ∀ kvs, j ≠ .obj kvs) : Rejected (decodeTM j) := by
  cases j with
  | obj kvs => exact absurd rfl (h kvs)
  | _ => exact rejected_error _

/-- a size field (`tileWidth`, `tileHeight`, `matrixWidth`, `matrixHeight`) that is zero or negative never decodes to an accepted size:
the float → uint conversion truncates toward zero or wraps around, and `required`/`max` then fail -/
theorem C16_nonpositive_size_rejected (q : Num) (hq : q.m ≤ 0) : q.toUint = none ∨ q.toUint = some 0 := by
  unfold Num.toUint
  by_cases hneg : q.m < 0
  · rw [if_pos hneg]
    split
    · exact Or.inl rfl
    · exact Or.inr rfl
  · rw [if_neg hneg]
    have : q.m = 0 := by omega
    right
    rw [this]; simp

/-- a non-positive `cellSize` or `scaleDenominator` is not positive (`gt=0` fails) -/
theorem C16_nonpositive_float (q : Num) (hq : q.m ≤ 0) : q.pos = false := by
  unfold Num.pos; simp; omega

/-- ids that are not (signed) decimal integers are rejected: `parseInt64` only accepts an optional sign followed by digits -/
theorem C16_non_integer_id (s : String) (c : Char) (hc : c ∈ s.toList) (hnd : c.isDigit = false) (hsign : c ≠ '-' ∧ c ≠ '+') :
    parseInt64 s = none := by
  unfold parseInt64
  simp only
  have key : ∀ ds : List Char, c ∈ ds → (ds.isEmpty || !ds.all Char.isDigit) = true := by
    intro ds hmem
    have : ds.all Char.isDigit = false := by
      rw [List.all_eq_false]
      exact ⟨c, hmem, by simp [hnd]⟩
    simp [this]
  split
  · rename_i r heq
    have : c ∈ r := by
      have : c ∈ '-' :: r := heq ▸ hc
      rcases List.mem_cons.1 this with h | h
      · exact absurd h hsign.1
      · exact h
    simp only
    rw [if_pos (key r this)]
  · rename_i r heq
    have : c ∈ r := by
      have : c ∈ '+' :: r := heq ▸ hc
      rcases List.mem_cons.1 this with h | h
      · exact absurd h hsign.2
      · exact h
    simp only
    rw [if_pos (key r this)]
  · simp only
    rw [if_pos (key _ hc)]

/-- the validation of a size never accepts a zero or negative number -/
theorem validUint_nonpos (q : Num) (hq : q.m ≤ 0) (k : String) : Rejected (validUint (some q) k) := by
  unfold validUint
  simp only
  rcases C16_nonpositive_size_rejected q hq with h | h <;> rw [h] <;> exact rejected_error _

theorem validPos_nonpos (q : Num) (hq : q.m ≤ 0) (k : String) : Rejected (validPos (some q) k) := by
  unfold validPos
  simp only
  rw [C16_nonpositive_float q hq]
  exact rejected_error _

/-- **non-positive sizes**: a tile matrix whose `tileWidth` is a number ≤ 0 is rejected (likewise the other three sizes, below) -/
theorem C16_tm_nonpositive_tileWidth (kvs : List (String × J)) (q : Num) (hk : lookup "tileWidth" kvs = some (.num q)) (hq : q.m ≤ 0) :
    Rejected (decodeTM (.obj kvs)) := by
  unfold decodeTM
  refine rejected_bind _ _ fun _ _ => rejected_bind _ _ fun _ _ => rejected_bind _ _ fun _ _ => rejected_bind _ _ fun _ _ =>
    rejected_bind _ _ fun _ _ => rejected_bind _ _ fun _ _ => rejected_bind _ _ fun _ _ => rejected_bind _ _ fun _ _ => ?_
  refine rejected_bind _ _ fun twq htw => ?_
  have : twq = some q := by
    unfold getNum at htw; rw [hk] at htw; simp only [Except.ok.injEq] at htw; exact htw.symm
  subst this
  refine rejected_bind _ _ fun _ _ => rejected_bind _ _ fun _ _ => rejected_bind _ _ fun _ _ => rejected_bind _ _ fun _ _ =>
    rejected_bind _ _ fun _ _ => rejected_bind _ _ fun _ _ => rejected_bind _ _ fun _ _ => rejected_bind _ _ fun _ _ => ?_
  exact rejected_bind _ _ fun v hv => absurd hv (validUint_nonpos q hq _ v)

/-- **non-positive cell size** -/
theorem C16_tm_nonpositive_cellSize (kvs : List (String × J)) (q : Num) (hk : lookup "cellSize" kvs = some (.num q)) (hq : q.m ≤ 0) :
    Rejected (decodeTM (.obj kvs)) := by
  unfold decodeTM
  refine rejected_bind _ _ fun _ _ => rejected_bind _ _ fun _ _ => rejected_bind _ _ fun _ _ => rejected_bind _ _ fun _ _ =>
    rejected_bind _ _ fun _ _ => ?_
  refine rejected_bind _ _ fun csq hcs => ?_
  have : csq = some q := by
    unfold getNum at hcs; rw [hk] at hcs; simp only [Except.ok.injEq] at hcs; exact hcs.symm
  subst this
  refine rejected_bind _ _ fun _ _ => rejected_bind _ _ fun _ _ => rejected_bind _ _ fun _ _ => rejected_bind _ _ fun _ _ =>
    rejected_bind _ _ fun _ _ => rejected_bind _ _ fun _ _ => rejected_bind _ _ fun _ _ => rejected_bind _ _ fun _ _ =>
    rejected_bind _ _ fun _ _ => ?_
  exact rejected_bind _ _ fun v hv => absurd hv (validPos_nonpos q hq _ v)

/-- **wrong type**: a size given as a string (or any non-number, non-null) is rejected -/
theorem C16_tm_size_wrong_kind (kvs : List (String × J)) (j : J) (hk : lookup "tileWidth" kvs = some j)
    (hnum : ∀ q, j ≠ .num q) (hnull : j ≠ .null) : Rejected (decodeTM (.obj kvs)) := by
  unfold decodeTM
  refine rejected_bind _ _ fun _ _ => rejected_bind _ _ fun _ _ => rejected_bind _ _ fun _ _ => rejected_bind _ _ fun _ _ =>
    rejected_bind _ _ fun _ _ => rejected_bind _ _ fun _ _ => rejected_bind _ _ fun _ _ => rejected_bind _ _ fun _ _ => ?_
  refine rejected_bind _ _ fun twq htw => ?_
  unfold getNum at htw
  rw [hk] at htw
  cases j with
  | num q => exact absurd rfl (hnum q)
  | null => exact absurd rfl hnull
  | _ => cases htw

/-- **non-integer ids**: a tile matrix whose `id` is a string that `ParseInt` refuses is rejected -/
theorem C16_tm_non_integer_id (kvs : List (String × J)) (s : String) (hk : lookup "id" kvs = some (.str s)) (hp : parseInt64 s = none) :
    Rejected (decodeTM (.obj kvs)) := by
  unfold decodeTM
  refine rejected_bind _ _ fun id hid => ?_
  have : id = s := by
    unfold getStr at hid; rw [hk] at hid; simp only [Except.ok.injEq] at hid; exact hid.symm
  subst this
  refine rejected_bind _ _ fun _ _ => rejected_bind _ _ fun _ _ => rejected_bind _ _ fun _ _ => rejected_bind _ _ fun _ _ =>
    rejected_bind _ _ fun _ _ => rejected_bind _ _ fun _ _ => rejected_bind _ _ fun _ _ => rejected_bind _ _ fun _ _ =>
    rejected_bind _ _ fun _ _ => rejected_bind _ _ fun _ _ => rejected_bind _ _ fun _ _ => rejected_bind _ _ fun _ _ =>
    rejected_bind _ _ fun _ _ => rejected_bind _ _ fun _ _ => rejected_bind _ _ fun _ _ => rejected_bind _ _ fun _ _ =>
    rejected_bind _ _ fun _ _ => rejected_bind _ _ fun _ _ => rejected_bind _ _ fun _ _ => rejected_bind _ _ fun _ _ => ?_
  refine rejected_bind _ _ fun k hkk => ?_
  unfold idKey at hkk
  rw [hp] at hkk
  cases hkk

/-- a rejected tile matrix makes the whole list of tile matrices rejected -/
theorem C16_tms_rejected_of_member (xs : List J) (x : J) (hx : x ∈ xs) (hr : Rejected (decodeTM x)) (acc : List (Int × TM)) :
    Rejected (decodeTMs xs acc) := by
  induction xs generalizing acc with
  | nil => cases hx
  | cons y ys ih =>
    unfold decodeTMs
    rcases List.mem_cons.1 hx with h | h
    · subst h
      exact rejected_bind _ _ fun v hv => absurd hv (hr v)
    · refine rejected_bind _ _ fun v _ => ?_
      exact ih h _

/-- **round trip**: whatever document the decoder accepts, encoding the decoded value and decoding again yields an equal value -/
theorem C16_roundtrip (j : J) (t : TMS) (h : decode j = .ok t) : decode (encode t) = .ok t :=
  decode_encode_decode j t h

/-- **stable encoding**: decoding the encoding and encoding again gives the same document -/
theorem C16_stable (j : J) (t t' : TMS) (h : decode j = .ok t) (h' : decode (encode t) = .ok t') : encode t' = encode t := by
  rw [decode_encode_decode j t h] at h'
  cases h'
  rfl

/-- accepted documents carry only positive sizes, positive cell sizes and integer ids — in every tile matrix -/
theorem C16_accepted_is_well_formed (j : J) (t : TMS) (h : decode j = .ok t) :
    t.matrices ≠ [] ∧ ∀ e ∈ t.matrices, 1 ≤ e.2.tileWidth ∧ 1 ≤ e.2.tileHeight ∧ 1 ≤ e.2.matrixWidth ∧ 1 ≤ e.2.matrixHeight ∧
      e.2.cellSize.pos = true ∧ e.2.scaleDenominator.pos = true ∧ parseInt64 e.2.id = some e.1 := by
  have hwf := decode_WF j t h
  refine ⟨hwf.nonempty, fun e he => ?_⟩
  have := hwf.matrices.2 e he
  exact ⟨this.tw.1, this.th.1, this.mw.1, this.mh.1, this.cs, this.sd, this.key⟩

-- concrete instances
example : Rejected (decode (.obj [("tileMatrices", .arr [])])) := C16_missing_crs _ rfl
example : (Num.toUint ⟨-1, 0⟩) = none := by decide
example : (Num.toUint ⟨5, 1⟩) = some 0 := by decide           -- 0.5 truncates to 0: `required` fails
example : (Num.toUint ⟨2569, 1⟩) = some 256 := by decide       -- 256.9 truncates to 256
example : parseInt64 "1.5" = none := by decide
example : parseInt64 "+12" = some 12 := by decide

end Texel.C16
