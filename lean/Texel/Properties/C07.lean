import Texel.Proofs.SnapF
import Texel.Proofs.Direction
/-! # C07 — deterministic and independent of how the polygon is written down

The model is a function, so "same input, same output" holds by construction *of the model*; that the implementation is a
function as well (Go randomises map iteration) is what the correspondence and the repetition / fresh-process runs of the
harness check. Proved here: requesting reversed winding order changes nothing except the direction of every returned
polygon ring; appended points and lines are unchanged. Writing any subset of the rings in the opposite direction
returns the same result, for every polygon whose rings have non-zero area (every valid polygon): `C07_ring_direction`; the harness
evaluates the same on the implementation for every valid case (`independent-of-ring-direction`). -/
namespace Texel.C07
open Texel

/-- nothing before the final assembly looks at the reverse flag -/
theorem levelAcc_indep (g : Grid) (hot : Nat → Quad → Bool) (keep : Bool) (l : Nat) (rings : List (List Pt)) :
    ∀ r₁ r₂ io₁ io₂ : Bool, levelAcc g hot (Config.mk keep r₁ io₁).keep l rings = levelAcc g hot (Config.mk keep r₂ io₂).keep l rings :=
  fun _ _ _ _ => rfl

/-- **C07 (reverse flag)**: if without the flag a tile matrix carries `polys`, then `polys = core ++ appended` where `appended`
are the single-ring points/lines, and with the flag it carries `core` with every ring reversed, followed by the same `appended` -/
theorem C07_flag (g : Grid) (hot : Nat → Quad → Bool) (keep io : Bool) (l : Nat) (rings : List (List Pt))
    (polys : Array Poly) (h : processLevel g hot ⟨keep, false, io⟩ l rings = .ok (some polys)) :
    ∃ (core : Array Poly) (pls : Array (Array P)),
      polys = core ++ pls.map (fun pl => #[pl]) ∧
      processLevel g hot ⟨keep, true, io⟩ l rings = .ok (some (reversePolys core ++ pls.map (fun pl => #[pl]))) := by
  obtain ⟨acc, core, hacc, hcore, hfin⟩ := processLevel_some _ _ _ _ _ _ h
  obtain ⟨hpolys, hne⟩ := finishLevel_some _ _ _ _ hfin
  simp only [Bool.false_eq_true, if_false] at hpolys
  refine ⟨core, acc.pls, hpolys, ?_⟩
  rw [processLevel_of g hot ⟨keep, true, io⟩ l rings acc core hacc hcore]
  unfold finishLevel
  simp only [if_true]
  have : ¬ ((reversePolys core ++ acc.pls.map fun pl => #[pl]).size = 0) := by
    rw [hpolys] at hne
    simpa [reversePolys, Array.size_append] using hne
  rw [if_neg this]

/-- reversing twice gives the polygons back -/
theorem reversePolys_involutive (core : Array Poly) : reversePolys (reversePolys core) = core := by
  unfold reversePolys
  simp [Array.map_map, Function.comp_def]

/-- a level absent without the flag is absent with it (and the other way round): presence does not depend on the flag -/
theorem C07_flag_presence (g : Grid) (hot : Nat → Quad → Bool) (keep io : Bool) (l : Nat) (rings : List (List Pt))
    (h : processLevel g hot ⟨keep, false, io⟩ l rings = .ok none) :
    processLevel g hot ⟨keep, true, io⟩ l rings = .ok none := by
  unfold processLevel at h ⊢
  simp only [bind, Except.bind] at h ⊢
  split at h
  · simp at h
  · rename_i r hr
    cases r with
    | none => rfl
    | some acc =>
      simp only at h ⊢
      unfold assembleLevel at h ⊢
      simp only [bind, Except.bind] at h ⊢
      split at h
      · simp at h
      · rename_i core hcore
        simp only [pure, Except.pure, Except.ok.injEq] at h ⊢
        unfold finishLevel at h ⊢
        simp only [Bool.false_eq_true, if_false, if_true] at h ⊢
        split at h
        · rename_i h0
          have : (reversePolys core ++ acc.pls.map fun pl => #[pl]).size = 0 := by
            simpa [reversePolys, Array.size_append] using h0
          rw [if_pos this]
        · simp at h

/-- **C07 (ring direction)**: giving any of the rings in the opposite direction returns identical geometry — every grid, every level
set, every combination of flags, every polygon all of whose rings have non-zero signed area (in particular every valid polygon) -/
theorem C07_ring_direction (g : Grid) (rings rings' : List (List Pt)) (levels : List Nat) (cfg : Config)
    (h : SomeReversed rings rings') (ha : ∀ r ∈ rings, area2 (ptsToPs r) ≠ 0) :
    snapPolygonF g rings' levels cfg = snapPolygonF g rings levels cfg :=
  snapPolygonF_reverse g rings rings' levels cfg h ha

-- non-vacuity: a shell written clockwise and a hole written counter-clockwise are `SomeReversed` versions of the normal form
example : SomeReversed [[⟨8, 8⟩, ⟨200, 8⟩, ⟨200, 200⟩], [⟨60, 60⟩, ⟨60, 140⟩, ⟨140, 140⟩]] [[⟨200, 200⟩, ⟨200, 8⟩, ⟨8, 8⟩], [⟨60, 60⟩, ⟨60, 140⟩, ⟨140, 140⟩]] :=
  .cons (Or.inr rfl) (.cons (Or.inl rfl) .nil)
#guard area2 (ptsToPs [⟨8, 8⟩, ⟨200, 8⟩, ⟨200, 200⟩]) != 0

end Texel.C07
