import Texel.Model.SnapF
import Texel.Proofs.GenArith
import Texel.Proofs.GenMathhelp
import Texel.Model.Small
/-! # C09 — polygons reaching outside the grid are rejected, never silently moved

Model: `deepestAddr` (`PointIndex.InsertPoint` + the bounds test of `InsertCoord`, floor division after the repair
of finding F2) and `snapPolygonF`. The half-open extent is `[minX, minX + 2^depth·res) × [minY, minY + 2^depth·res)`.
Core-only proofs. -/
namespace Texel.C09
open Texel

/-- the half-open extent of the grid -/
def Inside (g : Grid) (p : Pt) : Prop :=
  g.minX ≤ p.x ∧ p.x < g.minX + 2 ^ g.depth * g.res ∧ g.minY ≤ p.y ∧ p.y < g.minY + 2 ^ g.depth * g.res

theorem fdiv_nonneg_iff (a b : Int) (hb : 0 < b) : 0 ≤ Int.fdiv a b ↔ 0 ≤ a := by
  rw [Int.fdiv_eq_ediv_of_nonneg _ (Int.le_of_lt hb)]
  constructor
  · intro h
    by_cases hneg : a < 0
    · have := Int.ediv_neg_of_neg_of_pos hneg hb; omega
    · omega
  · intro h; exact Int.ediv_nonneg h (Int.le_of_lt hb)

theorem fdiv_le_iff (a b : Int) (n : Int) (hb : 0 < b) : Int.fdiv a b ≤ n - 1 ↔ a < n * b := by
  rw [Int.fdiv_eq_ediv_of_nonneg _ (Int.le_of_lt hb)]
  constructor
  · intro h
    have h1 : a / b < n := by omega
    exact (Int.ediv_lt_iff_lt_mul hb).1 h1
  · intro h
    have := (Int.ediv_lt_iff_lt_mul hb).2 h
    omega

/-- **C09 (vertex level)**: a vertex gets an address — is inserted, made hot, possibly snapped to — if and only if it lies
inside the half-open extent: left and bottom borders belong to it, right and top do not; at every distance outside, on
every side, it is rejected. -/
theorem C09_accept_iff (g : Grid) (hres : 0 < g.res) (p : Pt) : (deepestAddr g p).isSome = true ↔ Inside g p := by
  unfold deepestAddr Inside
  simp only
  have hx0 := fdiv_nonneg_iff (p.x - g.minX) g.res hres
  have hy0 := fdiv_nonneg_iff (p.y - g.minY) g.res hres
  have hx1 := fdiv_le_iff (p.x - g.minX) g.res (2 ^ g.depth) hres
  have hy1 := fdiv_le_iff (p.y - g.minY) g.res (2 ^ g.depth) hres
  split
  · rename_i h
    simp only [Option.isSome_none, Bool.false_eq_true, false_iff]
    intro hin
    rcases h with h | h | h | h <;> omega
  · rename_i h
    simp only [Option.isSome_some, true_iff]
    have h' : ¬ (Int.fdiv (p.x - g.minX) g.res < 0) ∧ ¬ (Int.fdiv (p.y - g.minY) g.res < 0) ∧
        ¬ (Int.fdiv (p.x - g.minX) g.res > 2 ^ g.depth - 1) ∧ ¬ (Int.fdiv (p.y - g.minY) g.res > 2 ^ g.depth - 1) := by
      refine ⟨fun c => h (Or.inl c), fun c => h (Or.inr (Or.inl c)), fun c => h (Or.inr (Or.inr (Or.inl c))), fun c => h (Or.inr (Or.inr (Or.inr c)))⟩
    obtain ⟨a, b, c, d⟩ := h'
    refine ⟨?_, ?_, ?_, ?_⟩ <;> omega

theorem mapM_none_of_mem {α β} (f : α → Option β) (l : List α) (a : α) (ha : a ∈ l) (hf : f a = none) : l.mapM f = none := by
  induction l with
  | nil => cases ha
  | cons x xs ih =>
    rw [List.mapM_cons]
    rcases List.mem_cons.1 ha with h | h
    · subst h; simp [hf]
    · cases hx : f x with
      | none => simp
      | some y => simp [ih h]

theorem mapM_some_of_all {α β} (f : α → Option β) (l : List α) (h : ∀ a ∈ l, (f a).isSome = true) : (l.mapM f).isSome = true := by
  induction l with
  | nil => simp
  | cons x xs ih =>
    rw [List.mapM_cons]
    have hx := h x (List.mem_cons_self)
    obtain ⟨y, hy⟩ := Option.isSome_iff_exists.1 hx
    obtain ⟨ys, hys⟩ := Option.isSome_iff_exists.1 (ih (fun a ha => h a (List.mem_cons_of_mem _ ha)))
    simp [hy, hys]

/-- **C09 (polygon level)**: if any vertex of any ring lies outside the half-open extent — by any amount, on any side —
the call fails with the outside-grid error by default and returns the empty result when outside-grid polygons are ignored;
nothing is snapped. -/
theorem C09_outside_rejected (g : Grid) (hres : 0 < g.res) (rings : List (List Pt)) (levels : List Nat) (cfg : Config)
    (v : Pt) (hv : v ∈ rings.flatten) (hout : ¬ Inside g v) :
    snapPolygonF g rings levels cfg = if cfg.ignoreOutside then .ok [] else .error "outside-grid" := by
  have hnone : deepestAddr g v = none := by
    cases h : deepestAddr g v with
    | none => rfl
    | some a => exact absurd ((C09_accept_iff g hres v).1 (by simp [h])) hout
  unfold snapPolygonF insertAll
  rw [mapM_none_of_mem (deepestAddr g) rings.flatten v hv hnone]

/-- conversely a polygon is snapped (the index is built, no outside-grid error) only if every vertex is inside -/
theorem C09_snapped_only_inside (g : Grid) (hres : 0 < g.res) (rings : List (List Pt)) :
    (insertAll g rings).isSome = true ↔ ∀ v ∈ rings.flatten, Inside g v := by
  constructor
  · intro h v hv
    rw [← C09_accept_iff g hres v]
    cases hd : deepestAddr g v with
    | some a => rfl
    | none => unfold insertAll at h; rw [mapM_none_of_mem _ _ v hv hd] at h; simp at h
  · intro h
    exact mapM_some_of_all _ _ (fun v hv => (C09_accept_iff g hres v).2 (h v hv))

/-- the unrepaired arithmetic (Go's truncating `/`) is on record: it accepts a coordinate one unit left of the extent -/
theorem F2_witness : accepted 16 (addrTrunc 0 10 (-1)) = true := Texel.F2_witness

-- non-vacuity: one unit left of a 16-pixel grid is outside; the border itself is inside; the right border is outside
example : deepestAddr ⟨0, 0, 10, 4⟩ ⟨-1, 5⟩ = none := by decide
example : deepestAddr ⟨0, 0, 10, 4⟩ ⟨0, 0⟩ = some ⟨0, 0⟩ := by decide
example : deepestAddr ⟨0, 0, 10, 4⟩ ⟨160, 5⟩ = none := by decide
example : deepestAddr ⟨-50, 20, 10, 4⟩ ⟨109, 179⟩ = some ⟨15, 15⟩ := by decide

/-- **C09 on the current source**: the rejection test of `InsertCoord` applied to the addresses `InsertPoint` computes (both regenerated from
`/repo` on every run, `FloorDiv` proved to be the flooring division) lets a vertex through exactly when it lies in the half-open extent of the grid -/
theorem C09_accept_iff_source (g : Grid) (hres : 0 < g.res) (p : Pt) :
    Gen.Arith.insertCoordOutside (Gen.Arith.insertPointX p.x p.y g.minX g.minY g.res) (Gen.Arith.insertPointY p.x p.y g.minX g.minY g.res) (2 ^ g.depth) = false
      ↔ Inside g p := by
  rw [← C09_accept_iff g hres p, GenArith.gen_deepestAddr]
  cases h : Gen.Arith.insertCoordOutside (Gen.Arith.insertPointX p.x p.y g.minX g.minY g.res) (Gen.Arith.insertPointY p.x p.y g.minX g.minY g.res) (2 ^ g.depth) <;> simp

end Texel.C09
