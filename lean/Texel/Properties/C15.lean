import Texel.Model.Tile
/-! # C15 — tile addressing is self-consistent in x,y order

Exact model `Texel.Tile` (integers over a common denominator), tied to `tms20.FromNative/ToNative/MatrixBoundingBox` by the
`tile` correspondence; the code works in float64 and rounds corners to 9 decimals, which the harness accounts for
(tolerance `1e-9 + 4 ulp`; points within that distance of a tile border are not constrained). Core-only proofs. -/
namespace Texel.C15
open Texel.Tile

theorem ediv_eq_of_bounds (a b : Int) (r : Nat) (hb : 0 < b) (h1 : (r : Int) * b ≤ a) (h2 : a < ((r : Int) + 1) * b) : (a / b).toNat = r := by
  have hle : (r : Int) ≤ a / b := (Int.le_ediv_iff_mul_le hb).2 h1
  have hlt : a / b < (r : Int) + 1 := (Int.ediv_lt_iff_lt_mul hb).2 h2
  omega

/-- **round trip**: a point strictly inside tile `(c, r)` — right of and below its top-left corner by less than a tile — is found
in tile `(c, r)`, for both corner-of-origin conventions -/
theorem C15_roundtrip (m : Matrix) (hcs : 0 < m.cs) (htw : 0 < m.tw) (hth : 0 < m.th) (c r : Nat) (hc : c < m.mw) (hr : r < m.mh)
    (px py : Int)
    (hx1 : (toNative m c r).1 < px) (hx2 : px < (toNative m c r).1 + m.tsx)
    (hy1 : (toNative m c r).2 - m.tsy < py) (hy2 : py < (toNative m c r).2) :
    fromNative m px py = some (c, r) := by
  have htsx : 0 < m.tsx := by unfold Matrix.tsx; exact Int.mul_pos (by exact_mod_cast htw) hcs
  have htsy : 0 < m.tsy := by unfold Matrix.tsy; exact Int.mul_pos (by exact_mod_cast hth) hcs
  unfold toNative at hx1 hx2 hy1 hy2
  simp only at hx1 hx2 hy1 hy2
  have hcx : (c : Int) * m.tsx ≤ px - m.ox := by omega
  have hcx2 : px - m.ox < ((c : Int) + 1) * m.tsx := by
    have : ((c : Int) + 1) * m.tsx = c * m.tsx + m.tsx := by rw [Int.add_mul, Int.one_mul]
    omega
  have hux := ediv_eq_of_bounds (px - m.ox) m.tsx c htsx hcx hcx2
  have hxnn : ¬ (px - m.ox < 0) := by
    have : 0 ≤ (c : Int) * m.tsx := Int.mul_nonneg (by omega) (by omega)
    omega
  unfold fromNative
  simp only
  rw [if_neg hxnn, hux, if_neg (by omega)]
  have hr1 : ((r : Int) + 1) * m.tsy = r * m.tsy + m.tsy := by rw [Int.add_mul, Int.one_mul]
  have hrnn : 0 ≤ (r : Int) * m.tsy := Int.mul_nonneg (by omega) (by omega)
  by_cases hcor : m.corner = 0
  · rw [if_pos hcor] at hy1 hy2 ⊢
    have hy := ediv_eq_of_bounds (m.oy - py) m.tsy r htsy (by omega) (by omega)
    rw [if_neg (by omega), hy, if_neg (by omega)]
  · rw [if_neg hcor] at hy1 hy2 ⊢
    have hy := ediv_eq_of_bounds (py - m.oy) m.tsy r htsy (by omega) (by omega)
    rw [if_neg (by omega), hy, if_neg (by omega)]

/-- points left of the matrix extent map to no tile -/
theorem C15_outside_left (m : Matrix) (px py : Int) (h : px < m.ox) : fromNative m px py = none := by
  unfold fromNative; simp only; rw [if_pos (by omega)]

/-- points at or right of the right border map to no tile -/
theorem C15_outside_right (m : Matrix) (hcs : 0 < m.cs) (htw : 0 < m.tw) (px py : Int) (h : m.ox + m.mw * m.tsx ≤ px) :
    fromNative m px py = none := by
  have htsx : 0 < m.tsx := by unfold Matrix.tsx; exact Int.mul_pos (by exact_mod_cast htw) hcs
  unfold fromNative; simp only
  split
  · rfl
  · have : (m.mw : Int) ≤ (px - m.ox) / m.tsx := (Int.le_ediv_iff_mul_le htsx).2 (by omega)
    rw [if_pos (by omega)]

/-- points above (top-left origin) / below (bottom-left origin) the row-0 border map to no tile -/
theorem C15_outside_row0 (m : Matrix) (px py : Int) (h : if m.corner = 0 then m.oy < py else py < m.oy) : fromNative m px py = none := by
  unfold fromNative; simp only
  split
  · rfl
  · split
    · rfl
    · by_cases hcor : m.corner = 0
      · rw [if_pos hcor] at h ⊢; rw [if_pos (by omega)]
      · rw [if_neg hcor] at h ⊢; rw [if_pos (by omega)]

/-- the corner of tile `(c, r)` on the side of the corner of origin (`ToNative` returns the *top-left* corner: the same point for a
top-left origin, the origin-side corner of row `r+1` for a bottom-left origin) -/
def originCorner (m : Matrix) (c r : Nat) : Int × Int :=
  (m.ox + c * m.tsx, if m.corner = 0 then m.oy - r * m.tsy else m.oy + r * m.tsy)

theorem toNative_originCorner (m : Matrix) (c r : Nat) :
    toNative m c r = if m.corner = 0 then originCorner m c r else originCorner m c (r + 1) := by
  unfold toNative originCorner
  by_cases h : m.corner = 0 <;> simp [h]

/-- **bounding box**: it spans exactly from the corner of tile (0,0) to the corner of tile (width, height) -/
theorem C15_bbox (m : Matrix) :
    (bbox m).1.1 = (originCorner m 0 0).1 ∧ (bbox m).2.1 = (originCorner m m.mw m.mh).1 ∧
    (if m.corner = 0 then (bbox m).2.2 = (originCorner m 0 0).2 ∧ (bbox m).1.2 = (originCorner m m.mw m.mh).2
     else (bbox m).1.2 = (originCorner m 0 0).2 ∧ (bbox m).2.2 = (originCorner m m.mw m.mh).2) := by
  unfold bbox originCorner
  by_cases hcor : m.corner = 0 <;> simp [hcor]

-- non-vacuity: RD-like matrix (tile 256·cs = 2560, top-left origin (−100, 900)), point inside tile (1, 2)
def mEx : Matrix := ⟨-100, 900, 10, 256, 256, 4, 4, 0⟩
example : toNative mEx 1 2 = (2460, -4220) := by decide
example : fromNative mEx 2470 (-4230) = some (1, 2) := by decide
example : fromNative mEx (-101) 0 = none := by decide
example : (toNative mEx 1 2).1 < 2470 ∧ (2470 : Int) < (toNative mEx 1 2).1 + mEx.tsx ∧ (toNative mEx 1 2).2 - mEx.tsy < -4230 ∧ (-4230 : Int) < (toNative mEx 1 2).2 := by decide

end Texel.C15
