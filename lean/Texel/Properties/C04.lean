import Texel.Proofs.Chain
import Texel.Proofs.Output
import Texel.Model.RingF
/-! # C04 — shape fidelity: nothing moves more than half a pixel, nothing is lost

Proved here: (a, whole clause) `C04_output_vertex_is_input_pixel`: every vertex of every ring `snapPolygonF` returns — after joining,
spike removal, ring splitting, shell/hole cancellation, hole matching, reversal and the keep option — is the pixel on that level of a
vertex of the input polygon, and that pixel contains the vertex (so the vertex moved by at most half a pixel in each axis, `C03_centre_*`).
Its ingredients: (a, routed part) every vertex of every routed chain is the pixel of an input vertex (its centre is the pixel
centre of some vertex of the input polygon), on every level, for every polygon; (a, clean-up part) spike removal
(`kmpDeduplicate`, functional version) never invents a vertex. Edge distance (b) and coverage (c) are decided per generated case
by the exact oracles `oracleC04ab`/`oracleC04c` on the implementation's output (geometric core open, see DESIGN §6 C01/C04). -/
namespace Texel.C04
open Texel

/-- every vertex of a routed edge is the pixel (on that level) of a vertex that was inserted into the index -/
theorem C04_routed_vertex_is_input_pixel (g : Grid) (hres : 0 < g.res) (addrs : List Quad) (L : Seg) (l : Nat)
    (hl : l ≤ g.depth) (hl0 : l ≠ 0) (p : Quad) (hp : p ∈ snapLevel lineIntersects g (hotOf g addrs) L l) :
    ∃ a ∈ addrs, a.up g l = p :=
  routed_is_vertex_pixel g hres addrs L l hl hl0 p hp

/-- the deepest address of a vertex brackets the vertex: the pixel really contains it -/
theorem C04_address_contains_vertex (g : Grid) (hres : 0 < g.res) (p : Pt) (a : Quad) (h : deepestAddr g p = some a) :
    g.minX + a.x * g.res ≤ p.x ∧ p.x < g.minX + (a.x + 1) * g.res ∧ g.minY + a.y * g.res ≤ p.y ∧ p.y < g.minY + (a.y + 1) * g.res := by
  obtain ⟨h1, h2, h3, h4, _, _⟩ := deepestAddr_spec g hres p a h
  exact ⟨h1, h2, h3, h4⟩

/-- spike removal never invents a vertex (every ring, valid or not) -/
theorem C04_dedup_vertices (ring out : Array P) (h : kmpDeduplicateF ring = .ok out) : ∀ v ∈ out, v ∈ ring :=
  kmpDeduplicateF_mem ring out h

/-- **C04, first clause, at full strength on the model**: every output vertex is the pixel centre of some vertex of the input polygon —
for every polygon (valid or not), every requested level `0 < l ≤ depth`, every combination of flags. `v` is the pixel index pair the
coordinate stands for (`Grid.centroid g l q` is the coordinate, C03); `u` is the input vertex, `a` its deepest address. -/
theorem C04_output_vertex_is_input_pixel (g : Grid) (hres : 0 < g.res) (rings : List (List Pt)) (levels : List Nat) (cfg : Config)
    (res : List (Nat × Array Poly)) (h : snapPolygonF g rings levels cfg = .ok res)
    (hlev : ∀ l ∈ levels, l ≤ g.depth ∧ l ≠ 0)
    (l : Nat) (polys : Array Poly) (hm : (l, polys) ∈ res) (pg : Poly) (hpg : pg ∈ polys) (r : Array P) (hr : r ∈ pg) (v : P) (hv : v ∈ r) :
    ∃ ring ∈ rings, ∃ u ∈ ring, ∃ a, deepestAddr g u = some a ∧ v = (a.up g l).toP ∧ containsPoint u (g.box l (a.up g l)) = true :=
  snapPolygonF_vertex g hres rings levels cfg res h hlev l polys hm pg hpg r hr v hv

-- non-vacuity: a triangle on a 16×16 grid (res 4, depth 4) snapped at level 2 comes back with three vertices, each the pixel of its vertex
#guard (snapPolygonF ⟨0, 0, 4, 4⟩ [[⟨2, 2⟩, ⟨50, 6⟩, ⟨30, 60⟩]] [2] ⟨false, false, false⟩).toOption.map (fun r => r.map fun e => (e.1, e.2.toList.map fun pg => pg.toList.map Array.toList))
  == some [(2, [[[(0, 0), (3, 0), (1, 3)]]])]

end Texel.C04
