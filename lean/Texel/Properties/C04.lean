import Texel.Proofs.Chain
import Texel.Proofs.Output
import Texel.Proofs.ChainEdges
import Texel.Proofs.NoCollapse
import Texel.Model.RingF
import Texel.Proofs.DedupeSub
/-! # C04 — shape fidelity: nothing moves more than half a pixel, nothing is lost

Proved here: (a, whole clause) `C04_output_vertex_is_input_pixel`: every vertex of every ring `snapPolygonF` returns — after joining,
spike removal, ring splitting, shell/hole cancellation, hole matching, reversal and the keep option — is the pixel on that level of a
vertex of the input polygon, and that pixel contains the vertex (so the vertex moved by at most half a pixel in each axis, `C03_centre_*`).
(b, for the routed boundary) `C04_routed_boundary_within_half_pixel`: every edge of the routed boundary of a ring — the closing edge
included — joins two pixels one input edge is routed through, and every point of the straight line between two such pixel centres lies
within half a pixel (both axes) of that input edge. After clean-up the output edges are runs of routed edges only for moderately collapsing
polygons (C18); in general (b) and (c) are decided by the exact oracles.
Ingredients of (a): (a, routed part) every vertex of every routed chain is the pixel of an input vertex (its centre is the pixel
centre of some vertex of the input polygon), on every level, for every polygon; (a, clean-up part) spike removal
(`kmpDeduplicate`, functional version) never invents a vertex. Edge distance (b) and coverage (c) are decided per generated case
by the exact oracles `oracleC04ab`/`oracleC04c` on the implementation's output (geometric core open, see DESIGN §6 C01/C04). -/
namespace Texel.C04
open Texel

/-- every vertex of a routed edge is the pixel (on that level) of a vertex that was inserted into the index -/
theorem C04_routed_vertex_is_input_pixel (g : Grid) (hres : 0 < g.res) (addrs : List Quad) (L : Seg) (l : Nat)
    (hl : l ≤ g.depth) (hl0 : l ≠ 0) (p : Quad) (hp : p ∈ snapLevel lineIntersects g (hotOf g addrs) L l) :
    ∃ a ∈ addrs, a.up g l = p :=
  routed_is_vertex_pixel g hres addrs L l hl hl0 p hp

/-- the deepest address of a vertex brackets the vertex: the pixel really contains it -/
theorem C04_address_contains_vertex (g : Grid) (hres : 0 < g.res) (p : Pt) (a : Quad) (h : deepestAddr g p = some a) :
    g.minX + a.x * g.res ≤ p.x ∧ p.x < g.minX + (a.x + 1) * g.res ∧ g.minY + a.y * g.res ≤ p.y ∧ p.y < g.minY + (a.y + 1) * g.res := by
  obtain ⟨h1, h2, h3, h4, _, _⟩ := deepestAddr_spec g hres p a h
  exact ⟨h1, h2, h3, h4⟩

/-- spike removal never invents a vertex (every ring, valid or not) -/
theorem C04_dedup_vertices (ring out : Array P) (h : kmpDeduplicateF ring = .ok out) : ∀ v ∈ out, v ∈ ring :=
  kmpDeduplicateF_mem ring out h

/-- **shell/hole cancellation only deletes** (ring level, for every list of shells and holes): what `dedupeInnersOuters` returns is a
sub-sequence of the shells and a sub-sequence of the holes it was given — it never duplicates, invents, reorders a ring or moves one from
the holes to the shells. (Which rings it deletes is decided by a loop of the model that is compared with the code, stream `snap`; that a
deleted ring had an equal partner is finding F13's territory.) -/
theorem C04_dedupe_only_deletes (outers inners o i : Array (Array P)) (h : dedupeF outers inners = .ok (o, i)) :
    o.toList.Sublist outers.toList ∧ i.toList.Sublist inners.toList :=
  dedupeF_sublist outers inners o i h

-- non-vacuity (compiler-evaluated: the decision is a loop): of two equal shells and the same ring as a hole, one shell and the hole cancel
#guard (match dedupeF #[#[(0,0),(2,0),(2,2)], #[(5,5),(7,5),(7,7)], #[(0,0),(2,0),(2,2)]] #[#[(0,0),(2,2),(2,0)]] with | .ok (o, i) => (o.size, i.size) | .error _ => (9, 9)) = (2, 0)

/-- **hole matching loses and duplicates nothing** (ring level; partial: under the guard that every decision of `matchInnersToPolygons` names
an existing polygon — in Go an index outside the slice is a panic, explored under C06): the polygons returned hold exactly the rings of the
polygons given plus every hole once, attached to a shell or turned into a shell of its own. Together with `C04_dedupe_only_deletes`: between
the ring clean-up and the result, rings disappear only by shell/hole cancellation. -/
theorem C04_matching_loses_nothing_partial (polys0 : Array (Array (Array P))) (inners : Array (Array P))
    (hd : ∀ inner ∈ inners.toList, ∀ i, matchDecision (polys0.map fun pg => pg[0]!) (sortPolyIdxsByOuterAreaDesc polys0) inner = some i → i < polys0.size) :
    ringCount (matchF polys0 inners).toList = ringCount polys0.toList + inners.size :=
  matchF_ringCount polys0 inners hd

-- non-vacuity (compiler-evaluated): a hole inside the only shell is attached to polygon 0; one outside every shell becomes a shell of its own: 1 + 2 rings
#guard matchDecision #[#[(0,0),(10,0),(10,10),(0,10)]] #[0] #[(2,2),(2,4),(4,4)] = some 0
#guard ringCount (matchF #[#[#[(0,0),(10,0),(10,10),(0,10)]]] #[#[(2,2),(2,4),(4,4)], #[(20,20),(20,24),(24,24)]]).toList = 3

/-- **C04, first clause, at full strength on the model**: every output vertex is the pixel centre of some vertex of the input polygon —
for every polygon (valid or not), every requested level `0 < l ≤ depth`, every combination of flags. `v` is the pixel index pair the
coordinate stands for (`Grid.centroid g l q` is the coordinate, C03); `u` is the input vertex, `a` its deepest address. -/
theorem C04_output_vertex_is_input_pixel (g : Grid) (hres : 0 < g.res) (rings : List (List Pt)) (levels : List Nat) (cfg : Config)
    (res : List (Nat × Array Poly)) (h : snapPolygonF g rings levels cfg = .ok res)
    (hlev : ∀ l ∈ levels, l ≤ g.depth ∧ l ≠ 0)
    (l : Nat) (polys : Array Poly) (hm : (l, polys) ∈ res) (pg : Poly) (hpg : pg ∈ polys) (r : Array P) (hr : r ∈ pg) (v : P) (hv : v ∈ r) :
    ∃ ring ∈ rings, ∃ u ∈ ring, ∃ a, deepestAddr g u = some a ∧ v = (a.up g l).toP ∧ containsPoint u (g.box l (a.up g l)) = true :=
  snapPolygonF_vertex g hres rings levels cfg res h hlev l polys hm pg hpg r hr v hv

/-- the straight line between the centres of `u` and `v` stays within half a pixel of an edge of `ring` -/
def NearInput (g : Grid) (l : Nat) (ring : List Pt) (u v : P) : Prop :=
  ∃ s ∈ ringEdges ring, ∃ p q : Quad, u = p.toP ∧ v = q.toP ∧ ∀ σ : ℚ, 0 ≤ σ → σ ≤ 1 → ∃ t : ℚ, 0 ≤ t ∧ t ≤ 1 ∧
    |((1 - σ) * g.cx l p + σ * g.cx l q) - s.X t| ≤ (g.span l : ℚ) / 2 ∧ |((1 - σ) * g.cy l p + σ * g.cy l q) - s.Y t| ≤ (g.span l : ℚ) / 2

/-- **C04, second clause, for the routed boundary**: every point of every edge of the routed boundary of a ring (the chain of routed
edges `joinChain (routeRing …)`, closing edge included) lies within half a pixel — Chebyshev distance — of the input ring. Every grid,
every level `l ≤ depth`, every polygon inside the grid, valid or not. -/
theorem C04_routed_boundary_within_half_pixel (g : Grid) (hres : 0 < g.res) (rings : List (List Pt)) (addrs : List Quad)
    (hins : insertAll g rings = some addrs) (ring : List Pt) (hring : ∀ v ∈ ring, v ∈ rings.flatten) (l : Nat) (hl : l ≤ g.depth)
    (chain : List P) (h : joinChain (routeRing g (hotOf g addrs) l ring) = some chain) :
    List.IsChain (NearInput g l ring) chain ∧ ∀ u v, chain.getLast? = some u → chain.head? = some v → NearInput g l ring u v := by
  obtain ⟨h1, h2⟩ := routedBoundary_colisted g hres rings addrs hins ring hring l hl chain h
  have key : ∀ u v, CoListed (routeRing g (hotOf g addrs) l ring) u v → NearInput g l ring u v := by
    rintro u v ⟨r, hr, hu, hv⟩
    unfold routeRing at hr
    simp only [List.mem_map] at hr
    obtain ⟨s, hs, rfl⟩ := hr
    simp only [List.mem_map] at hu hv
    obtain ⟨p, hp, rfl⟩ := hu
    obtain ⟨q, hq, rfl⟩ := hv
    exact ⟨s, hs, p, q, rfl, rfl, fun σ h0 h1 =>
      routed_run_within_half_pixel g (hotOf g addrs) s hres (hotOf_closed g addrs) l hl p q hp hq σ h0 h1⟩
  exact ⟨List.IsChain.imp (fun a b hc => key a b hc) h1, fun u v hu hv => key u v (h2 u v hu hv)⟩

theorem nearInput_symm (g : Grid) (l : Nat) (ring : List Pt) (u v : P) (h : NearInput g l ring u v) : NearInput g l ring v u := by
  obtain ⟨s, hs, p, q, hu, hv, hσ⟩ := h
  refine ⟨s, hs, q, p, hv, hu, ?_⟩
  intro σ h0 h1
  obtain ⟨t, ht0, ht1, hx, hy⟩ := hσ (1 - σ) (by linarith) (by linarith)
  refine ⟨t, ht0, ht1, ?_, ?_⟩
  · have : (1 - σ) * g.cx l q + σ * g.cx l p = (1 - (1 - σ)) * g.cx l p + (1 - σ) * g.cx l q := by ring
    rw [this]; exact hx
  · have : (1 - σ) * g.cy l q + σ * g.cy l p = (1 - (1 - σ)) * g.cy l p + (1 - σ) * g.cy l q := by ring
    rw [this]; exact hy

/-- **C04, second clause, through the whole of `processLevel` when nothing collapses**: for a polygon without holes whose routed chain
has at least three pixels and visits none twice, the ring that is returned is that chain (in one direction or the other), and every point
of every one of its edges — the closing edge included — lies within half a pixel of the input ring -/
theorem C04_edges_within_half_pixel_no_collapse (g : Grid) (hres : 0 < g.res) (ring : List Pt) (addrs : List Quad)
    (hins : insertAll g [ring] = some addrs) (cfg : Config) (l : Nat) (hl : l ≤ g.depth) (chain : List P)
    (hj : joinChain (routeRing g (hotOf g addrs) l (normaliseRing ring false)) = some chain)
    (hnd : chain.Nodup) (hlen : 3 ≤ chain.length) (hhits : (ringHits (routeRing g (hotOf g addrs) l (normaliseRing ring false))).Nodup) :
    ∃ r : List P, processLevel g (hotOf g addrs) cfg l [ring] = .ok (some #[#[r.toArray]]) ∧
      List.IsChain (NearInput g l (normaliseRing ring false)) r ∧
      ∀ u v, r.getLast? = some u → r.head? = some v → NearInput g l (normaliseRing ring false) u v := by
  have hp := processLevel_plain g (hotOf g addrs) cfg l ring chain hj hnd hlen hhits
  obtain ⟨hc1, hc2⟩ := C04_routed_boundary_within_half_pixel g hres [ring] addrs hins (normaliseRing ring false)
    (fun v hv => by simpa using normaliseRing_mem ring false v hv) l hl chain hj
  -- the chain the other way round
  have hrev1 : List.IsChain (NearInput g l (normaliseRing ring false)) chain.reverse := by
    rw [List.isChain_reverse]
    exact List.IsChain.imp (fun a b hab => nearInput_symm g l _ a b hab) hc1
  have hrev2 : ∀ u v, chain.reverse.getLast? = some u → chain.reverse.head? = some v → NearInput g l (normaliseRing ring false) u v := by
    intro u v hu hv
    rw [List.getLast?_reverse] at hu
    rw [List.head?_reverse] at hv
    exact nearInput_symm g l _ v u (hc2 v u hv hu)
  -- which of the two is returned
  by_cases hw : windingOK chain.toArray false = true <;> by_cases hr : cfg.reverse = true
  · exact ⟨chain.reverse, by rw [hp]; simp [hw, hr], hrev1, hrev2⟩
  · exact ⟨chain, by rw [hp]; simp [hw, hr], hc1, hc2⟩
  · exact ⟨chain, by rw [hp]; simp [hw, hr], hc1, hc2⟩
  · exact ⟨chain.reverse, by rw [hp]; simp [hw, hr], hrev1, hrev2⟩

-- non-vacuity: a triangle on a 16×16 grid (res 4, depth 4) snapped at level 2 comes back with three vertices, each the pixel of its vertex
#guard (snapPolygonF ⟨0, 0, 4, 4⟩ [[⟨2, 2⟩, ⟨50, 6⟩, ⟨30, 60⟩]] [2] ⟨false, false, false⟩).toOption.map (fun r => r.map fun e => (e.1, e.2.toList.map fun pg => pg.toList.map Array.toList))
  == some [(2, [[[(0, 0), (3, 0), (1, 3)]]])]

end Texel.C04
