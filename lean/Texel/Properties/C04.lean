import Texel.Proofs.Chain
import Texel.Model.RingF
/-! # C04 — shape fidelity: nothing moves more than half a pixel, nothing is lost

Proved here: (a, routed part) every vertex of every routed chain is the pixel of an input vertex (its centre is the pixel
centre of some vertex of the input polygon), on every level, for every polygon; (a, clean-up part) spike removal
(`kmpDeduplicate`, functional version) never invents a vertex. Edge distance (b) and coverage (c) are decided per generated case
by the exact oracles `oracleC04ab`/`oracleC04c` on the implementation's output (geometric core open, see DESIGN §6 C01/C04). -/
namespace Texel.C04
open Texel

/-- every vertex of a routed edge is the pixel (on that level) of a vertex that was inserted into the index -/
theorem C04_routed_vertex_is_input_pixel (g : Grid) (hres : 0 < g.res) (addrs : List Quad) (L : Seg) (l : Nat)
    (hl : l ≤ g.depth) (hl0 : l ≠ 0) (p : Quad) (hp : p ∈ snapLevel lineIntersects g (hotOf g addrs) L l) :
    ∃ a ∈ addrs, a.up g l = p :=
  routed_is_vertex_pixel g hres addrs L l hl hl0 p hp

/-- the deepest address of a vertex brackets the vertex: the pixel really contains it -/
theorem C04_address_contains_vertex (g : Grid) (hres : 0 < g.res) (p : Pt) (a : Quad) (h : deepestAddr g p = some a) :
    g.minX + a.x * g.res ≤ p.x ∧ p.x < g.minX + (a.x + 1) * g.res ∧ g.minY + a.y * g.res ≤ p.y ∧ p.y < g.minY + (a.y + 1) * g.res := by
  obtain ⟨h1, h2, h3, h4, _, _⟩ := deepestAddr_spec g hres p a h
  exact ⟨h1, h2, h3, h4⟩

/-- spike removal never invents a vertex (every ring, valid or not) -/
theorem C04_dedup_vertices (ring out : Array P) (h : kmpDeduplicateF ring = .ok out) : ∀ v ∈ out, v ∈ ring :=
  kmpDeduplicateF_mem ring out h

end Texel.C04
