import Texel.Proofs.Chain
import Texel.Properties.C17
import Texel.Proofs.NoTwice
import Texel.Proofs.Total
import Texel.Properties.C09
import Texel.Proofs.GenRemoveseq
/-! # C06 — snapping is total: no panic, no hang for any in-grid polygon

Every Go panic site is an `Except.error` of the model and every Go loop a structural recursion or a recursion on explicit
fuel (`fuel(...)` errors would be hangs). Proved here (for all polygons, valid or not):
* `panicNoPointsFoundForVertices` is unreachable (every edge of an in-grid polygon is routed through ≥ 1 pixel);
* `MustToZ` cannot panic while the deepest level is ≤ 32 (above that it does: known finding F7);
* the outside-grid error is the only error the index construction can raise.
* `splitRing` never reaches one of its panics (index out of range on the stack of partial rings, nil `stack.Newest`, "partial rings
  remaining on stack") and the rest of the ring clean-up raises nothing: for every ring of a polygon inside the grid, on every level, an
  error of `processRing` can only come out of `kmpDeduplicate` (`C06_ring_cleanup_total_partial`; under the hypothesis `KmpNoDup`, see C05).
* `dedupeInnersOuters` raises nothing (no ring it sees is empty), so for a polygon inside the grid **everything `snapPolygonF` raises
  is raised by `kmpDeduplicate`** (`C06_total_up_to_kmp_partial`), the outside-grid error apart.
Not proved (open): that `kmpDeduplicate` never reaches its index/slice panics and that its fuel is never exhausted (and the
hypothesis `KmpNoDup` about its result, which `C06_removeSequences_sublist` reduces to `KmpRangesForward`: the recorded ranges run forward) — these are evaluated on every generated input (correspondence streams `snap`, `kmp`, `split`; watchdog), see DESIGN §6 C06. -/
namespace Texel.C06
open Texel

/-- `cleanupNewVertices` never sees an empty list: no "no points found" panic for any ring of an in-grid polygon, on any level -/
theorem C06_no_points_found_unreachable (g : Grid) (hres : 0 < g.res) (rings : List (List Pt)) (addrs : List Quad)
    (hins : insertAll g rings = some addrs) (ring : List Pt) (hring : ring ∈ rings) (cw : Bool) (l : Nat) (hl : l ≤ g.depth) :
    (joinChain (routeRing g (hotOf g addrs) l (normaliseRing ring cw))).isSome = true := by
  apply joinChain_isSome g hres rings addrs hins _ _ l hl
  intro v hv
  have hv' : v ∈ ring := by
    unfold normaliseRing at hv
    split at hv
    · exact hv
    · exact List.mem_reverse.1 hv
  exact List.mem_flatten.2 ⟨ring, hring, hv'⟩

/-- pixel addresses of an index of depth ≤ 32 are encodable: `MustToZ` does not panic (for deeper indexes it does: finding F7) -/
theorem C06_keys_encodable (x y : BitVec 32) : (Gen.Morton.toZ (x.setWidth 64) (y.setWidth 64)).2 = true :=
  Texel.C17.C17_ok_of_32 x y

/-- with every vertex inside the grid the index is built: `InsertPolygon` raises no error -/
theorem C06_index_total (g : Grid) (hres : 0 < g.res) (rings : List (List Pt))
    (h : ∀ v ∈ rings.flatten, (deepestAddr g v).isSome = true) : (insertAll g rings).isSome = true := by
  exact mapM_isSome_of_all _ _ h

/-- **the ring clean-up is total up to spike removal** (partial: under `KmpNoDup`): for every ring of a polygon inside the grid, on every
level `l ≤ depth`, whatever `processRing` (`cleanupNewVertices`, `cleanupNewRing`, `splitRing`) raises is raised by `kmpDeduplicate` —
none of `splitRing`'s own panics is reachable -/
theorem C06_ring_cleanup_total_partial (hk : KmpNoDup) (g : Grid) (hres : 0 < g.res) (rings : List (List Pt)) (addrs : List Quad)
    (hins : insertAll g rings = some addrs) (ring : List Pt) (hring : ring ∈ rings) (l : Nat) (hl : l ≤ g.depth) (isOuter : Bool) (e : String)
    (herr : processRing g (hotOf g addrs) l isOuter ring = .error e) : ∃ r, kmpDeduplicateF r = .error e :=
  (processRing_nodup hk g hres rings addrs hins ring (fun v hv => List.mem_flatten.2 ⟨ring, hring, hv⟩) l hl isOuter).2 e herr

/-- **snapping is total up to spike removal** (partial: under `KmpNoDup`): for every polygon, every set of levels `≤ depth` and every
combination of flags, an error of `snapPolygonF` is either the outside-grid error (some vertex is outside the extent) or an error raised
inside `kmpDeduplicate` -/
theorem C06_total_up_to_kmp_partial (hk : KmpNoDup) (g : Grid) (hres : 0 < g.res) (rings : List (List Pt)) (levels : List Nat) (cfg : Config)
    (hlev : ∀ l ∈ levels, l ≤ g.depth) (e : String) (h : snapPolygonF g rings levels cfg = .error e) :
    (e = "outside-grid" ∧ insertAll g rings = none) ∨ ∃ r, kmpDeduplicateF r = .error e :=
  snapPolygonF_error hk g hres rings levels cfg hlev e h

/-- **the open hypothesis reduced to the bookkeeping of the spike search**: if every range `kmpDeduplicate` records for `RemoveSequences`
runs forward (`KmpRangesForward`: from ≤ to, demanded only where `RemoveSequences` itself does not panic), then what it returns is a
sublist of the ring it was given — nothing repeated, nothing reordered — and `KmpNoDup` holds. `RemoveSequences` is thereby out of the
unproved part: "assumes sorted, non-overlapping ranges" is enforced by its own slice bounds (a panic, not a wrong answer). -/
theorem C06_removeSequences_sublist (h : KmpRangesForward) (ring out : Array P) (hk : kmpDeduplicateF ring = .ok out) :
    out.toList.Sublist ring.toList ∧ KmpNoDup :=
  ⟨kmpDeduplicateF_sublist h ring out hk, kmpNoDup_of_rangesForward h⟩

/-- **snapping is total up to the loop of the spike search** (partial: under `KmpRangesForward`, which is weaker in kind than `KmpNoDup` — it
speaks about the recorded ranges, not about the result) -/
theorem C06_total_up_to_kmp_ranges_partial (h : KmpRangesForward) (g : Grid) (hres : 0 < g.res) (rings : List (List Pt)) (levels : List Nat) (cfg : Config)
    (hlev : ∀ l ∈ levels, l ≤ g.depth) (e : String) (he : snapPolygonF g rings levels cfg = .error e) :
    (e = "outside-grid" ∧ insertAll g rings = none) ∨ ∃ r, kmpDeduplicateF r = .error e :=
  snapPolygonF_error (kmpNoDup_of_rangesForward h) g hres rings levels cfg hlev e he

/-- **`RemoveSequences`, on the translated source** (`trgen removeseq`, `gen_removeSequences`): for every ring and every list of ranges that
each run forward, the current `mapslicehelp.RemoveSequences` returns a sublist of the ring or panics on a slice bound; and it is the function the
model uses (`removeSeqsF`), for all inputs. -/
theorem C06_removeSequences_source (s : Array P) (es : List (Array P × (Int × Int))) :
    Gen.Removeseq.removeSequences s es = removeSeqsF s es 0 ∧
    ∀ out, Gen.Removeseq.removeSequences s es = .ok out → (∀ e ∈ es, e.2.1 ≤ e.2.2) → out.toList.Sublist s.toList :=
  ⟨gen_removeSequences s es, fun out h hfw => gen_removeSequences_sublist s es out h hfw⟩

-- non-vacuity (compiler-evaluated, the loop contains `while`): a ring walking `(2,0) (3,0)` back and forth twice records one forward range, [4, 5)
#guard rangesForwardB #[(0,0),(2,0),(3,0),(2,0),(3,0),(2,0),(2,2),(0,2)] = true
#guard (match kmpLoop #[(0,0),(2,0),(3,0),(2,0),(3,0),(2,0),(2,2),(0,2)] 200 ⟨0, #[], {}⟩ with | .ok s => s.entries.toList.map (·.2) | .error _ => []) = [(4, 5)]
#guard (match kmpDeduplicateF #[(0,0),(2,0),(3,0),(2,0),(3,0),(2,0),(2,2),(0,2)] with | .ok r => r.size | .error _ => 0) = 7

/-- **finding F16, on the model**: "inside the grid" in the theorems above is the integer grid of `2^depth` pixels of size `res`; when the extent of
the tile matrix set does not divide evenly (`XSpan = 2^depth · res + r`, `0 < r`: `r` is the deviation the tool reports) the strip
`[minX + 2^depth·res, minX + XSpan)` lies inside the extent and outside the grid: every vertex there gets no address, so the polygon is reported
as outside the grid although it is inside the extent. (On a round extent, `r = 0`, the strip is empty.) -/
theorem C06_F16_strip (g : Grid) (hres : 0 < g.res) (XSpan r : Int) (hX : XSpan = 2 ^ g.depth * g.res + r) (p : Pt)
    (hx : g.minX + 2 ^ g.depth * g.res ≤ p.x) (_hin : p.x < g.minX + XSpan) : deepestAddr g p = none := by
  have h := (Texel.C09.C09_accept_iff g hres p)
  cases hd : deepestAddr g p with
  | none => rfl
  | some a =>
    have : (deepestAddr g p).isSome = true := by rw [hd]; rfl
    have hi := h.1 this
    unfold Texel.C09.Inside at hi
    omega

-- non-vacuity: a grid of 4 pixels of 3 units on an extent of 14 units (r = 2): x = 12 and x = 13 are inside the extent and get no address
example : deepestAddr ⟨0, 0, 3, 2⟩ ⟨12, 5⟩ = none ∧ deepestAddr ⟨0, 0, 3, 2⟩ ⟨13, 5⟩ = none ∧ (deepestAddr ⟨0, 0, 3, 2⟩ ⟨11, 5⟩).isSome = true := by decide

end Texel.C06
