import Texel.Properties.C02
import Texel.Proofs.Output
import Texel.Properties.C14
import Texel.Proofs.GenArith
import Mathlib.Tactic.Ring
import Mathlib.Tactic.Linarith
/-! # C03 — output coordinates are vector-tile pixel centres

Model: every coordinate handed out on level `l` is `Grid.centroid g l p` for a routed pixel `p`
(`getQuadrantExtentAndCentroid`: `min + k·span + span/2`, integer units of 1e-10), with `span l = 2^(depth-l)·res` and
`res = XSpan / 2^depth` (Go's integer division). The float seam (`ToGeomOrd`, and that every returned float is bit-exactly
the image of such an integer) is checked by the harness canonicalisation on every returned coordinate. -/
namespace Texel.C03
open Texel

/-- routed pixels are pixels of the level's grid: indices in `[0, 2^l)` -/
theorem C03_index_in_range (g : Grid) (hres : 0 < g.res) (hot : Nat → Quad → Bool) (hc : HotClosed g.depth hot)
    (L : Seg) (l : Nat) (hl : l ≤ g.depth) (p : Quad) (hp : p ∈ snapLevel lineIntersects g hot L l) :
    p.x < 2 ^ l ∧ p.y < 2 ^ l := by
  have := ((Texel.C02.C02_routing g hres hot hc L l hl).1 p).1 hp
  exact ⟨this.1, this.2.1⟩

theorem span_pos (g : Grid) (hres : 0 < g.res) (l : Nat) : 0 < g.span l := by
  unfold Grid.span; positivity

theorem span_even (g : Grid) (l : Nat) (hl : l < g.depth) : g.span l = 2 * g.span (l + 1) := span_succ g l hl

/-- the centre lies in its own half-open pixel -/
theorem C03_centre_in_pixel (g : Grid) (hres : 0 < g.res) (l : Nat) (p : Quad) :
    containsPoint (g.centroid l p) (g.box l p) = true := by
  rw [containsPoint_iff]
  have hs := span_pos g hres l
  unfold Grid.centroid Grid.box
  simp only
  have h1 : 0 ≤ g.span l / 2 := Int.ediv_nonneg (le_of_lt hs) (by norm_num)
  have h2 : g.span l / 2 < g.span l := Int.ediv_lt_of_lt_mul (by norm_num) (by linarith)
  refine ⟨by linarith, by nlinarith, by linarith, by nlinarith⟩

/-- above the deepest level the centre is exactly the middle of the pixel: `2·(c - pixel min) = span` -/
theorem C03_centre_exact (g : Grid) (l : Nat) (hl : l < g.depth) (p : Quad) :
    2 * ((g.centroid l p).x - (g.box l p).minX) = g.span l ∧ 2 * ((g.centroid l p).y - (g.box l p).minY) = g.span l := by
  have he := span_even g l hl
  unfold Grid.centroid Grid.box
  simp only
  have : g.span l / 2 = g.span (l + 1) := by rw [he]; simp
  constructor <;> (rw [this]; linarith)

/-- on the deepest level the middle is rounded down by at most half a unit (1e-10/2) -/
theorem C03_centre_deepest (g : Grid) (l : Nat) (p : Quad) :
    0 ≤ g.span l - 2 * ((g.centroid l p).x - (g.box l p).minX) ∧ g.span l - 2 * ((g.centroid l p).x - (g.box l p).minX) ≤ 1 := by
  unfold Grid.centroid Grid.box
  simp only
  have h1 := Int.mul_ediv_add_emod (g.span l) 2
  have h2 := Int.emod_nonneg (g.span l) (by norm_num : (2 : Int) ≠ 0)
  have h3 := Int.emod_lt_of_pos (g.span l) (by norm_num : (0 : Int) < 2)
  constructor <;> linarith

/-- **C03 (round extent)**: when the extent divides evenly into deepest pixels (`XSpan = 2^depth · res`), the coordinate handed
out for pixel `k` of level `l < depth` is the ideal centre `minX + (k + ½)·XSpan/2^l`, stated without division:
`2^(l+1) · (c - minX) = (2k+1) · XSpan` -/
theorem C03_round (g : Grid) (XSpan : Int) (hX : XSpan = 2 ^ g.depth * g.res) (l : Nat) (hl : l < g.depth) (p : Quad) :
    2 ^ (l + 1) * ((g.centroid l p).x - g.minX) = (2 * (p.x : Int) + 1) * XSpan := by
  obtain ⟨hc, _⟩ := C03_centre_exact g l hl p
  unfold Grid.box at hc
  simp only at hc
  have hspan : (2 : Int) ^ l * g.span l = XSpan := by
    unfold Grid.span
    rw [hX, ← mul_assoc, ← pow_add]
    congr 2; omega
  have : (g.centroid l p).x - g.minX = (p.x : Int) * g.span l + ((g.centroid l p).x - (g.minX + (p.x : Int) * g.span l)) := by ring
  calc 2 ^ (l + 1) * ((g.centroid l p).x - g.minX)
      = 2 ^ l * (2 * ((p.x : Int) * g.span l) + 2 * ((g.centroid l p).x - (g.minX + (p.x : Int) * g.span l))) := by rw [pow_succ]; ring
    _ = 2 ^ l * (2 * ((p.x : Int) * g.span l) + g.span l) := by rw [hc]
    _ = (2 * (p.x : Int) + 1) * (2 ^ l * g.span l) := by ring
    _ = (2 * (p.x : Int) + 1) * XSpan := by rw [hspan]

/-- **C03 (deviation)**: in general `XSpan = 2^depth · res + r` with `0 ≤ r < 2^depth` (Go's integer division; `r·1e-10` is the
deviation `DeviationStats` reports for the right border). The coordinate handed out for pixel `k < 2^l` lies left of the
ideal centre by `(2k+1)·r / 2^(l+1)`, which is `≥ 0` and `< r`: the distance to the ideal pixel centre never exceeds the
reported deviation. Stated without division. -/
theorem C03_deviation (g : Grid) (XSpan r : Int) (hX : XSpan = 2 ^ g.depth * g.res + r) (hr : 0 ≤ r)
    (l : Nat) (hl : l < g.depth) (p : Quad) (hp : p.x < 2 ^ l) :
    (2 * (p.x : Int) + 1) * XSpan - 2 ^ (l + 1) * ((g.centroid l p).x - g.minX) = (2 * (p.x : Int) + 1) * r ∧
    0 ≤ (2 * (p.x : Int) + 1) * r ∧ (2 * (p.x : Int) + 1) * r ≤ 2 ^ (l + 1) * r := by
  have h0 := C03_round g (2 ^ g.depth * g.res) rfl l hl p
  refine ⟨by rw [h0, hX]; ring, by positivity, ?_⟩
  have hk : (2 * (p.x : Int) + 1) ≤ 2 ^ (l + 1) := by
    have : (p.x : Int) + 1 ≤ 2 ^ l := by exact_mod_cast hp
    rw [pow_succ]; linarith
  exact mul_le_mul_of_nonneg_right hk hr

/-- the pixel size of level `l` is the deepest pixel times a power of two; for a round extent it is `XSpan / 2^l` exactly -/
theorem C03_pixel_size (g : Grid) (XSpan : Int) (hX : XSpan = 2 ^ g.depth * g.res) (l : Nat) (hl : l ≤ g.depth) :
    2 ^ l * g.span l = XSpan := by
  unfold Grid.span
  rw [hX, ← mul_assoc, ← pow_add]
  congr 2; omega

/-- **every coordinate `snapPolygonF` hands out on level `l` stands for a pixel of that level's grid**: indices in `[0, 2^l)`, for every ring
of every polygon, after all clean-up and assembly (the coordinate itself is `Grid.centroid g l q`, related to the ideal centre above) -/
theorem C03_output_is_pixel_of_level (g : Grid) (hres : 0 < g.res) (rings : List (List Pt)) (levels : List Nat) (cfg : Config)
    (res : List (Nat × Array Poly)) (h : snapPolygonF g rings levels cfg = .ok res)
    (hlev : ∀ l ∈ levels, l ≤ g.depth ∧ l ≠ 0)
    (l : Nat) (polys : Array Poly) (hm : (l, polys) ∈ res) (pg : Poly) (hpg : pg ∈ polys) (r : Array P) (hr : r ∈ pg) (v : P) (hv : v ∈ r) :
    ∃ q : Quad, v = q.toP ∧ q.x < 2 ^ l ∧ q.y < 2 ^ l :=
  snapPolygonF_vertex_in_range g hres rings levels cfg res h hlev l polys hm pg hpg r hr v hv

/-- **the pixel size of tile matrix `i` is its cell size divided by 16**: in a tile matrix set that validation accepts, the level used for
tile matrix `i` is `i + log₂ tileWidth + 4`; on a round extent of `matrixWidth · tileWidth` cells of size `cell`, sixteen pixels of that
level make one cell. (Before the fix for F15 validation also accepted sets whose first matrix has more than one tile, or tiles that are not a
power of two wide, and this was false for them.) -/
theorem C03_pixel_is_sixteenth_of_cell (g : Grid) (XSpan : Int) (hX : XSpan = 2 ^ g.depth * g.res)
    (tms : List QT.TM) (hacc : QT.isQuadTree tms = none) (i : Nat) (hi : i < tms.length)
    (l : Nat) (hl : l = i + (tms[0]'(by omega)).tw.log2 + 4) (hld : l ≤ g.depth)
    (cell : Int) (hcell : XSpan = ((tms[i].mw * tms[i].tw : Nat) : Int) * cell) :
    16 * g.span l = cell := by
  obtain ⟨_, hmw, htw, hcount⟩ := Texel.C14.C14_pixel_count tms hacc i hi
  have hsize := C03_pixel_size g XSpan hX l hld
  have hpos : (0 : Int) < ((tms[i].mw * tms[i].tw : Nat) : Int) := by
    have : 0 < tms[i].mw * tms[i].tw * 16 := by rw [hcount]; positivity
    have : 0 < tms[i].mw * tms[i].tw := by omega
    exact_mod_cast this
  have h2 : ((2 : Int) ^ l) = ((tms[i].mw * tms[i].tw : Nat) : Int) * 16 := by
    rw [hl]
    have := congrArg (fun n : Nat => (n : Int)) hcount
    simp only [Nat.cast_mul, Nat.cast_pow, Nat.cast_ofNat] at this
    push_cast
    linarith
  rw [h2, hcell] at hsize
  have : ((tms[i].mw * tms[i].tw : Nat) : Int) * (16 * g.span l) = ((tms[i].mw * tms[i].tw : Nat) : Int) * cell := by linarith
  exact mul_left_cancel₀ (ne_of_gt hpos) this

/-- **C03 on the current source**: the centre `getQuadrantExtentAndCentroid` hands out (its arithmetic regenerated from `/repo` on every run) lies in
the extent it computes for the same pixel, and above the deepest level it is exactly the middle of that extent -/
theorem C03_centre_source (g : Grid) (hres : 0 < g.res) (l : Nat) (p : Quad) :
    let c := Gen.Arith.quadrantCentroid g.depth g.res g.minX g.minY l p.x p.y
    let e := Gen.Arith.quadrantExtent g.depth g.res g.minX g.minY l p.x p.y
    (e.1 ≤ c.1 ∧ c.1 < e.2.2.1 ∧ e.2.1 ≤ c.2 ∧ c.2 < e.2.2.2) ∧
    (l < g.depth → 2 * (c.1 - e.1) = Gen.Arith.quadrantSpan g.depth g.res g.minX g.minY l p.x p.y ∧ 2 * (c.2 - e.2.1) = Gen.Arith.quadrantSpan g.depth g.res g.minX g.minY l p.x p.y) := by
  simp only [GenArith.gen_centroid g (le_of_lt hres) l p, GenArith.gen_extent g l p, GenArith.gen_span]
  refine ⟨?_, fun hl => C03_centre_exact g l hl p⟩
  have := (containsPoint_iff _ _).1 (C03_centre_in_pixel g hres l p)
  exact this

-- non-vacuity of `C03_pixel_is_sixteenth_of_cell`: the two-matrix set of C14 is accepted; on a grid of depth 13 with unit resolution
-- (XSpan = 2^13 = 1 · 256 · 32) level 0 + 8 + 4 has pixels of 2 units = 32 / 16
example : QT.isQuadTree [Texel.C14.tm0, Texel.C14.tm1] = none ∧ (2 : Int) ^ 13 = ((1 * 256 : Nat) : Int) * 32 ∧ 16 * (Grid.span ⟨0, 0, 1, 13⟩ 12) = 32 := by decide

-- non-vacuity: RD-like round grid (res 4, depth 4): centre of pixel (5,3) on level 3 is 8·5+4 = 44
example : (Grid.centroid ⟨0, 0, 4, 4⟩ 3 ⟨5, 3⟩) = ⟨44, 28⟩ := by decide
example : (2:Int) ^ (3 + 1) * (44 - 0) = (2 * 5 + 1) * 64 := by decide

end Texel.C03
