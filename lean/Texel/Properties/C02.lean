import Texel.Proofs.Route3
import Texel.Proofs.GenArith
import Texel.Proofs.GenMathhelp
import Texel.Proofs.GenLineInt
import Texel.Proofs.GenQuadrants
import Texel.Proofs.GenRoute
import Texel.Proofs.NoCollapse
/-! # C02 — each edge is routed through exactly the hot pixels it meets

Model: `Texel.snapLevel lineIntersects g hot L l` (`pointindex.snapClosestPoints`, hand-written in
`Texel/Model/Route.lean`, tied to the code by the `li`, `route` and `snap` correspondence streams).
Specification (`Texel/Proofs/Route1.lean`): `MeetsAt L B t` — the point of the closed segment `L` at parameter
`t ∈ [0,1]` (rational) lies in the half-open box `B` (left/bottom sides included, right/top excluded);
`Meets L B := ∃ t, MeetsAt L B t`; `Precedes L B₁ B₂` — every parameter in `B₁` is smaller than every one in `B₂`. -/
namespace Texel.C02
open Texel

/-- the pixel test is exact: closed segment meets half-open pixel -/
theorem C02_pixel_test (L : Seg) (B : Box) : lineIntersects L B = true ↔ Meets L B :=
  lineIntersects_iff L B

/-- … and it is the pixel test of the current source: the definitions `trgen lineint` regenerates from `pointindex.lineIntersects` on every run
answer true exactly when the closed segment meets the half-open pixel -/
theorem C02_pixel_test_source (L : Seg) (B : Box) :
    Gen.LI.lineIntersects L.p1.x L.p1.y L.p2.x L.p2.y B.minX B.minY B.maxX B.maxY = true ↔ Meets L B := by
  rw [GenLineInt.gen_lineIntersects]; exact lineIntersects_iff L B

/-- inserting vertices (`insertCoord` on every level) yields hot sets closed under "parent" -/
theorem C02_hot_closed (g : Grid) (addrs : List Quad) : HotClosed g.depth (hotOf g addrs) :=
  hotOf_closed g addrs

/-- **C02 (first sentence)**: on every level `l ≤ depth`, for every grid, every segment and every parent-closed hot set,
the descent returns exactly the pixels that are inside the grid, hot (on level 0 the root) and met by the closed
segment; and the list is in order of travel. No bound on depth, coordinates or the hot set. -/
theorem C02_routing (g : Grid) (hres : 0 < g.res) (hot : Nat → Quad → Bool) (hc : HotClosed g.depth hot)
    (L : Seg) (l : Nat) (hl : l ≤ g.depth) :
    (∀ p, p ∈ snapLevel lineIntersects g hot L l ↔
        p.x < 2 ^ l ∧ p.y < 2 ^ l ∧ (l = 0 ∨ hot l p = true) ∧ Meets L (g.box l p)) ∧
    (snapLevel lineIntersects g hot L l).Pairwise (fun a b => Precedes L (g.box l a) (g.box l b)) :=
  Texel.C02_routing g hot L hres hc l hl

/-- **C02 (first sentence) on the current source**: the descent in which the per-parent step (`findIntersectingQuadrants`), the pixel test
(`lineIntersects`, with `CmpProducts`) and the containment test (`containsPoint`) are the definitions regenerated from `/repo` on every run — only
the loop over the levels and the look-up of the children are written by hand — returns, on every level, exactly the hot pixels the closed segment
meets, in order of travel -/
theorem C02_routing_source (g : Grid) (hres : 0 < g.res) (hot : Nat → Quad → Bool) (hc : HotClosed g.depth hot)
    (L : Seg) (l : Nat) (hl : l ≤ g.depth) :
    (∀ p, p ∈ GenRoute.snapLevelSrc g hot L l ↔
        p.x < 2 ^ l ∧ p.y < 2 ^ l ∧ (l = 0 ∨ hot l p = true) ∧ Meets L (g.box l p)) ∧
    (GenRoute.snapLevelSrc g hot L l).Pairwise (fun a b => Precedes L (g.box l a) (g.box l b)) := by
  rw [GenRoute.snapLevelSrc_eq]
  exact C02_routing g hres hot hc L l hl

/-- the same for the hot sets the index really builds from a polygon's vertices -/
theorem C02_routing_index (g : Grid) (hres : 0 < g.res) (addrs : List Quad) (L : Seg) (l : Nat) (hl : l ≤ g.depth) :
    (∀ p, p ∈ snapLevel lineIntersects g (hotOf g addrs) L l ↔
        p.x < 2 ^ l ∧ p.y < 2 ^ l ∧ (l = 0 ∨ hotOf g addrs l p = true) ∧ Meets L (g.box l p)) ∧
    (snapLevel lineIntersects g (hotOf g addrs) L l).Pairwise (fun a b => Precedes L (g.box l a) (g.box l b)) :=
  C02_routing g hres _ (hotOf_closed g addrs) L l hl

/-- no pixel is routed twice -/
theorem C02_nodup (g : Grid) (hres : 0 < g.res) (hot : Nat → Quad → Bool) (hc : HotClosed g.depth hot)
    (L : Seg) (l : Nat) (hl : l ≤ g.depth) : (snapLevel lineIntersects g hot L l).Nodup := by
  obtain ⟨hmem, hpw⟩ := C02_routing g hres hot hc L l hl
  refine List.Pairwise.imp_of_mem ?_ hpw
  intro a b ha _ hprec hab
  subst hab
  obtain ⟨t, ht⟩ := ((hmem a).1 ha).2.2.2
  exact absurd (hprec t t ht ht) (lt_irrefl t)

/-- an edge that starts at an inserted vertex is routed through that vertex's pixel on every level:
`SnapClosestPoints` never returns an empty list for a polygon edge, `panicNoPointsFoundForVertices` is unreachable -/
theorem C02_routed_nonempty (g : Grid) (hres : 0 < g.res) (addrs : List Quad) (L : Seg) (a : Quad)
    (ha : deepestAddr g L.p1 = some a) (hin : a ∈ addrs) (l : Nat) (hl : l ≤ g.depth) :
    a.up g l ∈ snapLevel lineIntersects g (hotOf g addrs) L l :=
  routed_nonempty g hres addrs L a ha hin l hl

/-- **C02 (second sentence), ring by ring**: whenever the routed chain of a ring — the concatenation of its routed edges,
`joinChain (routeRing …)` — has at least three pixels and visits no pixel twice (neither the chain nor the list of pixel hits has a
duplicate: no two parts of the ring collapse onto a common pixel), the ring comes back from the whole clean-up (`cleanupNewRing`: closing
duplicate, `kmpDeduplicate`, `splitRing`) as exactly that chain: one shell part for the outer ring (counter-clockwise, turned round if
need be), one hole part for an inner ring (clockwise). Every grid, level, hot set, ring. (The assembly of the rings of a polygon,
`dedupeInnersOuters`/`matchInnersToPolygons`, is decided per generated case by the oracle of the `snap` stream.) -/
theorem C02_second_sentence_ring (g : Grid) (hot : Nat → Quad → Bool) (l : Nat) (isOuter : Bool) (ring : List Pt) (chain : List P)
    (hj : joinChain (routeRing g hot l (normaliseRing ring (!isOuter))) = some chain)
    (hnd : chain.Nodup) (hlen : 3 ≤ chain.length) (hhits : (ringHits (routeRing g hot l (normaliseRing ring (!isOuter)))).Nodup) :
    processRing g hot l isOuter ring = .ok
      (if isOuter then { outers := #[if windingOK chain.toArray false then chain.toArray else chain.toArray.reverse] }
       else { inners := #[if windingOK chain.toArray true then chain.toArray else chain.toArray.reverse] } : Split) := by
  rw [processRing_plain g hot l isOuter ring chain hj hnd hlen hhits, classify_single isOuter chain hlen]

/-- **C02 (second sentence) for a polygon without holes**: if the routed chain of its ring has at least three pixels and visits no
pixel twice, the tile matrix carries exactly one polygon with exactly one ring — that chain, counter-clockwise, clockwise under the
reverse flag; the keep option changes nothing -/
theorem C02_second_sentence_polygon (g : Grid) (hot : Nat → Quad → Bool) (cfg : Config) (l : Nat) (ring : List Pt) (chain : List P)
    (hj : joinChain (routeRing g hot l (normaliseRing ring false)) = some chain)
    (hnd : chain.Nodup) (hlen : 3 ≤ chain.length) (hhits : (ringHits (routeRing g hot l (normaliseRing ring false))).Nodup) :
    processLevel g hot cfg l [ring] = .ok (some #[#[
      let oc := if windingOK chain.toArray false then chain.toArray else chain.toArray.reverse
      if cfg.reverse then oc.reverse else oc]]) :=
  processLevel_plain g hot cfg l ring chain hj hnd hlen hhits

-- non-vacuity: the triangle (2,2) (50,6) (30,60) on the grid below at level 2: chain and hits without duplicates, three pixels
#guard (joinChain (routeRing ⟨0, 0, 4, 4⟩ (hotOf ⟨0, 0, 4, 4⟩ [⟨0, 0⟩, ⟨12, 1⟩, ⟨7, 15⟩]) 2 [⟨2, 2⟩, ⟨50, 6⟩, ⟨30, 60⟩])) == some [(0, 0), (3, 0), (1, 3)]
#guard (ringHits (routeRing ⟨0, 0, 4, 4⟩ (hotOf ⟨0, 0, 4, 4⟩ [⟨0, 0⟩, ⟨12, 1⟩, ⟨7, 15⟩]) 2 [⟨2, 2⟩, ⟨50, 6⟩, ⟨30, 60⟩])) == [(3, 0), (1, 3), (0, 0)]

-- non-vacuity: a concrete grid (16×16 pixels of 4 units), hot set and segment — the F1 witness: the line
-- (10,6)→(7.5,8.5) passes exactly through the included corner (8,8) and is routed through pixel (8,8)
def gEx : Grid := ⟨0, 0, 4, 4⟩
def addrsEx : List Quad := [⟨8, 8⟩, ⟨10, 6⟩]
example : snapLevel lineIntersects gEx (hotOf gEx addrsEx) ⟨⟨40, 24⟩, ⟨30, 34⟩⟩ 4 = [⟨10, 6⟩, ⟨8, 8⟩] := by decide
example : (0 : Int) < gEx.res ∧ (4 : Nat) ≤ gEx.depth := by decide
-- the other F1 witness: (9,8)→(7.5,9.5) only touches the excluded corner (8,9) of pixel (7,8): not routed through it
example : snapLevel lineIntersects gEx (hotOf gEx [⟨7, 8⟩, ⟨9, 8⟩]) ⟨⟨36, 32⟩, ⟨30, 38⟩⟩ 4 = [⟨9, 8⟩] := by decide

end Texel.C02
