import Texel.Proofs.Pipe
import Texel.Model.Dispatch
import Texel.Gen.Skel
/-! # C10 — every feature reaches every target exactly as it should

Model: `Texel.Pipe` — reader, snapper (`processFeatures`), router (`writeFeaturesToTargets`) and N writers over unbuffered
channels, as a state machine whose steps are the joint send/receive events, for any number of targets and any schedule;
`Texel.Pipe.deliverKind` — which targets get a copy of a feature. The concurrency skeleton the model assumes is compared
(`decide`) with the skeleton `trgen skel` extracts from `processing/processing.go` and `processing/gpkg/gpkg.go` on every run. -/
namespace Texel.C10
open Texel.Pipe

/-- the skeleton extracted from the current source is the one the model was written for -/
theorem skeleton_matches : Texel.Gen.Skel.skeleton = Texel.Pipe.assumedSkeleton := by decide +kernel

/-- the dispatch yields a well-formed configuration: no target twice, only known targets — provided the snapping result is keyed
by requested ids (C08_keys) -/
theorem C10_deliver_ok (targets : List TM) (hnd : targets.Nodup) (kinds : Nat → Kind)
    (hkeys : ∀ f tm, tm ∈ deliverKind targets (kinds f) → tm ∈ targets) :
    CfgOK ⟨targets, fun f => deliverKind targets (kinds f)⟩ := by
  refine ⟨hnd, ?_, hkeys⟩
  intro f
  simp only
  cases kinds f with
  | other => exact hnd
  | polygon o => exact dedupKeys_nodup _
  | multiPolygon ps => exact dedupKeys_nodup _

/-- a non-polygon feature goes to every target, with its geometry untouched -/
theorem C10_other_to_all (targets : List TM) (tm : TM) :
    (tm ∈ deliverKind targets .other ↔ tm ∈ targets) ∧ geomKind .other tm = some .orig := ⟨Iff.rfl, rfl⟩

/-- a polygon goes to a target iff snapping produced an entry for that tile matrix -/
theorem C10_polygon_iff (targets : List TM) (o : List (TM × Nat)) (tm : TM) :
    tm ∈ deliverKind targets (.polygon o) ↔ ∃ n, (tm, n) ∈ o := by
  simp only [deliverKind, mem_dedupKeys, List.mem_map]
  constructor
  · rintro ⟨⟨t, n⟩, h, rfl⟩; exact ⟨n, h⟩
  · rintro ⟨n, h⟩; exact ⟨(tm, n), h, rfl⟩

/-- **C10**: under every schedule, at every moment, what a target has received is a prefix of the features addressed to it, in
source order, each exactly once (no loss, duplication or reordering) — for any number of targets and any stream -/
theorem C10_prefix (c : Cfg) (hc : CfgOK c) (fs : List Nat) (sched : List Action) (s : State)
    (h : run c (init fs) sched = some s) (tm : TM) : ∃ rest, s.received tm ++ rest = expected c fs tm :=
  Texel.Pipe.C10_prefix c hc fs sched s h tm

/-- … and once `ProcessFeatures` has returned every target has received exactly the features addressed to it -/
theorem C10_complete (c : Cfg) (hc : CfgOK c) (fs : List Nat) (sched : List Action) (s : State)
    (h : run c (init fs) sched = some s) (hret : s.returned = true) : ∀ tm ∈ c.targets, s.received tm = expected c fs tm :=
  fun tm htm => (C11_return_after c hc fs sched s h hret tm htm).2

-- non-vacuity: two targets, three features (feature 1 only for target 7), a complete schedule
def cEx : Cfg := ⟨[5, 7], fun f => if f = 1 then [7] else [5, 7]⟩
example : CfgOK cEx := ⟨by decide, by intro f; simp only [cEx]; split <;> decide, by intro f tm h; simp only [cEx] at h ⊢; split at h <;> simp_all⟩
example : expected cEx [0, 1, 2] 5 = [(0, 5), (2, 5)] := by decide
example : expected cEx [0, 1, 2] 7 = [(0, 7), (1, 7), (2, 7)] := by decide

end Texel.C10
