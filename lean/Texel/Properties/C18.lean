import Texel.Proofs.Chain
import Texel.Proofs.GenHits
import Texel.Proofs.Vertices
import Texel.Proofs.SplitInv
import Texel.Proofs.HitCount
import Texel.Model.RingF
import Texel.Proofs.DedupeSub
/-! # C18 — moderately collapsing polygons are reduced without inventing geometry   (partial)

`maxVisits` (how often the routed boundary passes through one pixel centre) is defined on the model's routed chains; the three
conclusions (a) every output edge is a routed run, (b) holes inside or on their shell, (c) signed area preserved are decided
per generated case by the exact oracle `oracleC18` on the implementation's output, for cases whose chains — computed by the
proved-correct routing of the model — have `maxVisits ≤ 2`. Proved here: the chains exist for every in-grid polygon, their
vertices are input-vertex pixels, spike removal only removes vertices, and — `C18_no_vertex_invented`, for every polygon, not only
moderately collapsing ones — every vertex of every returned ring is a pixel some edge of the polygon is routed through on that level. -/
namespace Texel.C18
open Texel

/-- how often the most visited pixel centre occurs in the routed chains of a level -/
def maxVisits (chains : List (List P)) : Nat :=
  let all := chains.flatten
  all.foldl (fun m p => max m (all.count p)) 0

/-- the routed boundary of a level: per ring the joined chain -/
def routedBoundary (g : Grid) (hot : Nat → Quad → Bool) (l : Nat) (rings : List (List Pt)) : List (Option (List P)) :=
  rings.zipIdx.map fun (r, i) => joinChain (routeRing g hot l (normaliseRing r (i != 0)))

/-- the routed boundary exists (every chain joins) for every polygon inside the grid, on every level -/
theorem C18_boundary_exists (g : Grid) (hres : 0 < g.res) (rings : List (List Pt)) (addrs : List Quad)
    (hins : insertAll g rings = some addrs) (l : Nat) (hl : l ≤ g.depth) :
    ∀ c ∈ routedBoundary g (hotOf g addrs) l rings, c.isSome = true := by
  intro c hc
  unfold routedBoundary at hc
  simp only [List.mem_map] at hc
  obtain ⟨⟨r, i⟩, hri, rfl⟩ := hc
  have hr : r ∈ rings := (List.mem_zipIdx hri).2.2 ▸ List.getElem_mem _
  apply joinChain_isSome g hres rings addrs hins _ _ l hl
  intro v hv
  have hv' : v ∈ r := by
    unfold normaliseRing at hv
    split at hv
    · exact hv
    · exact List.mem_reverse.1 hv
  exact List.mem_flatten.2 ⟨r, hr, hv'⟩

/-- spike removal only removes: the de-duplicated ring's vertices are vertices of the routed chain -/
theorem C18_dedup_subset (ring out : Array P) (h : kmpDeduplicateF ring = .ok out) : ∀ v ∈ out, v ∈ ring :=
  kmpDeduplicateF_mem ring out h

/-- **cancellation and hole matching invent no ring** (ring level): shell/hole cancellation returns a sub-sequence of the shells and a
sub-sequence of the holes it was given, and hole matching returns exactly the rings of the polygons it was given plus every hole once
(partial in its second half: under the guard that every matching decision names an existing polygon — in Go an index panic). -/
theorem C18_assembly_invents_no_ring_partial (outers inners o i : Array (Array P)) (h : dedupeF outers inners = .ok (o, i))
    (polys0 : Array (Array (Array P)))
    (hd : ∀ inner ∈ i.toList, ∀ k, matchDecision (polys0.map fun pg => pg[0]!) (sortPolyIdxsByOuterAreaDesc polys0) inner = some k → k < polys0.size) :
    o.toList.Sublist outers.toList ∧ i.toList.Sublist inners.toList ∧
    ringCount (matchF polys0 i).toList = ringCount polys0.toList + i.size :=
  ⟨(dedupeF_sublist outers inners o i h).1, (dedupeF_sublist outers inners o i h).2, matchF_ringCount polys0 i hd⟩

/-- **no vertex is invented**: every vertex of every ring returned for level `l` is a routed pixel of some edge of some ring of the
input polygon (whatever joining, spike removal, splitting, cancellation, hole matching, reversal and the keep option did) -/
theorem C18_no_vertex_invented (g : Grid) (hot : Nat → Quad → Bool) (cfg : Config) (l : Nat) (rings : List (List Pt)) (polys : Array Poly)
    (h : processLevel g hot cfg l rings = .ok (some polys)) :
    ∀ pg ∈ polys, ∀ r ∈ pg, ∀ v ∈ r, ∃ ring ∈ rings, ∃ cw, ∃ s ∈ ringEdges (normaliseRing ring cw), ∃ q ∈ snapLevel lineIntersects g hot s l, v = q.toP := by
  intro pg hpg r hr v hv
  obtain ⟨ring, hring, cw, s, hs, q, hq, hvq⟩ := processLevel_V g hot cfg l rings polys h pg (by simpa using hpg) r hr v hv
  exact ⟨ring, hring, cw, s, hs, q, hq, hvq⟩

/-- **ring splitting invents no area and loses none**: `splitRing` cuts a ring (whose unflagged vertices occur once — the flags of
`checkPointHits` are exact, `Proofs/HitCount.lean`) into closed rings that visit no vertex twice and whose signed areas (`closedSum`,
equal to `area2` for rings of at least three vertices: `closedSum_eq_area2`) add up to the signed area of the ring; `classify` then sorts
them into shell parts, hole parts and points/lines. Zero-width parts are split off as rings of zero area. -/
theorem C18_split_preserves_area (ring : List P) (isOuter : Bool) (isHit : P → Bool) (hne : ring ≠ [])
    (hflags : ∀ pre v suf, ring = pre ++ v :: suf → isHit v = false → v ∉ pre ∧ v ∉ suf) :
    ∃ rings : List (List P), splitRingF ring isOuter isHit = .ok (classify isOuter rings) ∧ (∀ r ∈ rings, r.Nodup) ∧
      (rings.map closedSum).sum = closedSum ring :=
  splitRingF_area ring isOuter isHit hne hflags

/-- **the repeated-vertex flags are exact**: for a ring of a polygon inside the grid, a pixel is flagged by `checkPointHits` (hit at least
twice while the ring was routed) if and only if the routed chain of the ring — its closing duplicate removed, at least two pixels long —
passes through it at least twice. This is what `splitRing` relies on to cut the ring exactly at its repeated vertices. -/
theorem C18_flags_exact (g : Grid) (hres : 0 < g.res) (rings : List (List Pt)) (addrs : List Quad)
    (hins : insertAll g rings = some addrs) (v0 : Pt) (vs : List Pt) (hring : ∀ v ∈ v0 :: vs, v ∈ rings.flatten) (l : Nat) (hl : l ≤ g.depth)
    (chain : List P) (hj : joinChain (routeRing g (hotOf g addrs) l (v0 :: vs)) = some chain) (hlen : 2 ≤ chain.length) (p : P) :
    isHitF (ringHits (routeRing g (hotOf g addrs) l (v0 :: vs))) p = true ↔
      2 ≤ (if chain.length > 1 && chain.head? == chain.getLast? then chain.dropLast else chain).count p := by
  obtain ⟨hlk, hcl⟩ := routeRing_linked g hres rings addrs hins v0 vs hring l hl
  have hhead : chain.head? = some (pixOf g l v0) := by
    cases hr : routeRing g (hotOf g addrs) l (v0 :: vs) with
    | nil => rw [hr] at hj; unfold joinChain at hj; simp at hj; subst hj; simp at hlen
    | cons r rs =>
      rw [hr] at hj hlk
      obtain ⟨hne, _, hrh, _⟩ := hlk
      rw [joinChain_head r rs chain hne hj, hrh]
  rw [chain_count_eq_hits _ (pixOf g l v0) hlk hcl chain hj hlen hhead p]
  unfold isHitF
  simp

-- non-vacuity: two triangles meeting in the pinch point (1,1), which is flagged: the ring is cut there into its two lobes
#guard (splitRingF [(0, 0), (1, 1), (2, 0), (2, 2), (1, 1), (0, 2)] true (fun p => p == (1, 1))).toOption.map
    (fun sp => (sp.outers.toList.map Array.toList, sp.inners.toList.map Array.toList)) == some ([[(0, 0), (1, 1), (0, 2)], [(1, 1), (2, 0), (2, 2)]], [])
#guard closedSum [(0, 0), (1, 1), (0, 2)] + closedSum [(1, 1), (2, 0), (2, 2)] == closedSum [(0, 0), (1, 1), (2, 0), (2, 2), (1, 1), (0, 2)]

example : maxVisits [[(0, 0), (1, 0), (0, 0), (2, 2)], [(5, 5)]] = 2 := by decide

end Texel.C18
