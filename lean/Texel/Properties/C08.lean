import Texel.Model.SnapF
/-! # C08 — a tile matrix's result does not depend on which others are requested

Model: `snapPolygonF` / `processLevels` / `processLevel` (`Model/SnapF.lean`). Levels stand for tile matrix ids
(`tileMatrixIDsByLevels` adds the same constant to every id). Core-only proofs. -/
namespace Texel.C08
open Texel

/-- result keys are requested levels -/
theorem processLevels_keys (g : Grid) (hot : Nat → Quad → Bool) (cfg : Config) (rings : List (List Pt)) (levels : List Nat)
    (res : List (Nat × Array Poly)) (h : processLevels g hot cfg rings levels = .ok res) :
    ∀ e ∈ res, e.1 ∈ levels := by
  induction levels generalizing res with
  | nil => simp [processLevels] at h; subst h; simp
  | cons l ls ih =>
    simp only [processLevels, bind, Except.bind] at h
    split at h
    · simp at h
    · rename_i r hr
      split at h
      · simp at h
      · rename_i rest hrest
        simp only [pure, Except.pure, Except.ok.injEq] at h
        subst h
        intro e he
        cases r with
        | none => exact List.mem_cons_of_mem _ (ih rest hrest e he)
        | some polys =>
          rcases List.mem_cons.1 he with h1 | h1
          · subst h1; exact List.mem_cons_self
          · exact List.mem_cons_of_mem _ (ih rest hrest e h1)

/-- **C08 (keys)**: the result is keyed by requested tile matrices only -/
theorem C08_keys (g : Grid) (rings : List (List Pt)) (levels : List Nat) (cfg : Config) (res : List (Nat × Array Poly))
    (h : snapPolygonF g rings levels cfg = .ok res) : ∀ e ∈ res, e.1 ∈ levels := by
  unfold snapPolygonF at h
  split at h
  · split at h
    · simp only [Except.ok.injEq] at h; subst h; simp
    · simp at h
  · exact processLevels_keys _ _ _ _ _ _ h

/-- what is returned for level `z` when it is requested together with others is what `processLevel` computes for `z` alone -/
theorem processLevels_entry (g : Grid) (hot : Nat → Quad → Bool) (cfg : Config) (rings : List (List Pt)) (levels : List Nat)
    (hnd : levels.Nodup) (res : List (Nat × Array Poly)) (h : processLevels g hot cfg rings levels = .ok res)
    (z : Nat) (hz : z ∈ levels) (polys : Array Poly) :
    (z, polys) ∈ res ↔ processLevel g hot cfg z rings = .ok (some polys) := by
  induction levels generalizing res with
  | nil => cases hz
  | cons l ls ih =>
    simp only [processLevels, bind, Except.bind] at h
    split at h
    · simp at h
    · rename_i r hr
      split at h
      · simp at h
      · rename_i rest hrest
        simp only [pure, Except.pure, Except.ok.injEq] at h
        have hnd' := (List.nodup_cons.1 hnd)
        have hkeys := processLevels_keys g hot cfg rings ls rest hrest
        by_cases hzl : z = l
        · subst hzl
          have hnotin : ∀ q, (z, q) ∉ rest := fun q hq => hnd'.1 (hkeys _ hq)
          cases r with
          | none =>
            simp only at h; subst h
            constructor
            · intro hm; exact absurd hm (hnotin polys)
            · intro hp; rw [hr] at hp; simp at hp
          | some p0 =>
            simp only at h; subst h
            constructor
            · intro hm
              rcases List.mem_cons.1 hm with h1 | h1
              · simp only [Prod.mk.injEq, true_and] at h1; subst h1; exact hr
              · exact absurd h1 (hnotin polys)
            · intro hp
              rw [hr] at hp
              simp only [Except.ok.injEq, Option.some.injEq] at hp
              subst hp; exact List.mem_cons_self
        · have hzls : z ∈ ls := by
            rcases List.mem_cons.1 hz with h1 | h1
            · exact absurd h1 hzl
            · exact h1
          have := ih hnd'.2 rest hrest hzls
          cases r with
          | none => simp only at h; subst h; exact this
          | some p0 =>
            simp only at h; subst h
            rw [← this]
            constructor
            · intro hm
              rcases List.mem_cons.1 hm with h1 | h1
              · simp only [Prod.mk.injEq] at h1; exact absurd h1.1 hzl
              · exact h1
            · intro hm; exact List.mem_cons_of_mem _ hm

/-- **C08 (independence, same index)**: with the index of the polygon fixed, the geometry returned for a tile matrix `z` is the
same whether `z` is requested alone or together with any other tile matrices — for every polygon, configuration and grid.
(Requesting a deeper tile matrix changes the index depth; that the per-level result does not depend on the depth for a
round grid is `C08_round_grid` below / the `snap` correspondence on round grids.) -/
theorem C08_alone_eq_together (g : Grid) (hot : Nat → Quad → Bool) (cfg : Config) (rings : List (List Pt))
    (levels : List Nat) (hnd : levels.Nodup) (z : Nat) (hz : z ∈ levels)
    (together alone : List (Nat × Array Poly))
    (ht : processLevels g hot cfg rings levels = .ok together) (ha : processLevels g hot cfg rings [z] = .ok alone)
    (polys : Array Poly) : (z, polys) ∈ together ↔ (z, polys) ∈ alone := by
  rw [processLevels_entry g hot cfg rings levels hnd together ht z hz polys,
      processLevels_entry g hot cfg rings [z] (by simp) alone ha z (by simp) polys]

-- non-vacuity: a triangle on a 16-pixel grid requested on levels 3 and 4 together and on level 3 alone
def gEx : Grid := ⟨0, 0, 4, 4⟩
def triEx : List (List Pt) := [[⟨2, 2⟩, ⟨50, 3⟩, ⟨30, 50⟩]]
-- (the ring clean-up below `processRing` contains `while` loops, which the kernel cannot unfold: these two instances are
--  evaluated by the compiler with `#guard`; they show that the hypotheses `… = .ok …` are met by concrete inputs)
#guard (snapPolygonF gEx triEx [3, 4] ⟨false, false, false⟩).toOption.map (·.map (·.1)) == some [3, 4]
#guard (snapPolygonF gEx triEx [3] ⟨false, false, false⟩).toOption.map (·.map (·.1)) == some [3]

end Texel.C08
