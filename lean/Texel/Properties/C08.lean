import Texel.Model.SnapF
import Texel.Proofs.Depth
/-! # C08 — a tile matrix's result does not depend on which others are requested

Model: `snapPolygonF` / `processLevels` / `processLevel` (`Model/SnapF.lean`). Levels stand for tile matrix ids
(`tileMatrixIDsByLevels` adds the same constant to every id). Core-only proofs. -/
namespace Texel.C08
open Texel

/-- result keys are requested levels -/
theorem processLevels_keys (g : Grid) (hot : Nat → Quad → Bool) (cfg : Config) (rings : List (List Pt)) (levels : List Nat)
    (res : List (Nat × Array Poly)) (h : processLevels g hot cfg rings levels = .ok res) :
    ∀ e ∈ res, e.1 ∈ levels := by
  induction levels generalizing res with
  | nil => simp [processLevels] at h; subst h; simp
  | cons l ls ih =>
    simp only [processLevels, bind, Except.bind] at h
    split at h
    · simp at h
    · rename_i r hr
      split at h
      · simp at h
      · rename_i rest hrest
        simp only [pure, Except.pure, Except.ok.injEq] at h
        subst h
        intro e he
        cases r with
        | none => exact List.mem_cons_of_mem _ (ih rest hrest e he)
        | some polys =>
          rcases List.mem_cons.1 he with h1 | h1
          · subst h1; exact List.mem_cons_self
          · exact List.mem_cons_of_mem _ (ih rest hrest e h1)

/-- **C08 (keys)**: the result is keyed by requested tile matrices only -/
theorem C08_keys (g : Grid) (rings : List (List Pt)) (levels : List Nat) (cfg : Config) (res : List (Nat × Array Poly))
    (h : snapPolygonF g rings levels cfg = .ok res) : ∀ e ∈ res, e.1 ∈ levels := by
  unfold snapPolygonF at h
  split at h
  · split at h
    · simp only [Except.ok.injEq] at h; subst h; simp
    · simp at h
  · exact processLevels_keys _ _ _ _ _ _ h

/-- what is returned for level `z` when it is requested together with others is what `processLevel` computes for `z` alone -/
theorem processLevels_entry (g : Grid) (hot : Nat → Quad → Bool) (cfg : Config) (rings : List (List Pt)) (levels : List Nat)
    (hnd : levels.Nodup) (res : List (Nat × Array Poly)) (h : processLevels g hot cfg rings levels = .ok res)
    (z : Nat) (hz : z ∈ levels) (polys : Array Poly) :
    (z, polys) ∈ res ↔ processLevel g hot cfg z rings = .ok (some polys) := by
  induction levels generalizing res with
  | nil => cases hz
  | cons l ls ih =>
    simp only [processLevels, bind, Except.bind] at h
    split at h
    · simp at h
    · rename_i r hr
      split at h
      · simp at h
      · rename_i rest hrest
        simp only [pure, Except.pure, Except.ok.injEq] at h
        have hnd' := (List.nodup_cons.1 hnd)
        have hkeys := processLevels_keys g hot cfg rings ls rest hrest
        by_cases hzl : z = l
        · subst hzl
          have hnotin : ∀ q, (z, q) ∉ rest := fun q hq => hnd'.1 (hkeys _ hq)
          cases r with
          | none =>
            simp only at h; subst h
            constructor
            · intro hm; exact absurd hm (hnotin polys)
            · intro hp; rw [hr] at hp; simp at hp
          | some p0 =>
            simp only at h; subst h
            constructor
            · intro hm
              rcases List.mem_cons.1 hm with h1 | h1
              · simp only [Prod.mk.injEq, true_and] at h1; subst h1; exact hr
              · exact absurd h1 (hnotin polys)
            · intro hp
              rw [hr] at hp
              simp only [Except.ok.injEq, Option.some.injEq] at hp
              subst hp; exact List.mem_cons_self
        · have hzls : z ∈ ls := by
            rcases List.mem_cons.1 hz with h1 | h1
            · exact absurd h1 hzl
            · exact h1
          have := ih hnd'.2 rest hrest hzls
          cases r with
          | none => simp only at h; subst h; exact this
          | some p0 =>
            simp only at h; subst h
            rw [← this]
            constructor
            · intro hm
              rcases List.mem_cons.1 hm with h1 | h1
              · simp only [Prod.mk.injEq] at h1; exact absurd h1.1 hzl
              · exact h1
            · intro hm; exact List.mem_cons_of_mem _ hm

/-- **C08 (independence, same index)**: with the index of the polygon fixed, the geometry returned for a tile matrix `z` is the
same whether `z` is requested alone or together with any other tile matrices — for every polygon, configuration and grid.
(Requesting a deeper tile matrix changes the index depth; that the per-level result does not depend on the depth for a
round grid is `C08_depth_independent` / `C08_independent` below.) -/
theorem C08_alone_eq_together (g : Grid) (hot : Nat → Quad → Bool) (cfg : Config) (rings : List (List Pt))
    (levels : List Nat) (hnd : levels.Nodup) (z : Nat) (hz : z ∈ levels)
    (together alone : List (Nat × Array Poly))
    (ht : processLevels g hot cfg rings levels = .ok together) (ha : processLevels g hot cfg rings [z] = .ok alone)
    (polys : Array Poly) : (z, polys) ∈ together ↔ (z, polys) ∈ alone := by
  rw [processLevels_entry g hot cfg rings levels hnd together ht z hz polys,
      processLevels_entry g hot cfg rings [z] (by simp) alone ha z (by simp) polys]

/-- **C08 (round grid)**: two indexes over the same extent whose span divides evenly into the pixels of both depths (`SameExtent`: same
origin, `2^depth₁·res₁ = 2^depth₂·res₂`) compute the same result for every level both reach — the depth of the index, which follows
the deepest requested tile matrix, does not matter -/
theorem C08_depth_independent (g₁ g₂ : Grid) (h : SameExtent g₁ g₂) (rings : List (List Pt)) (as₁ as₂ : List Quad)
    (i1 : insertAll g₁ rings = some as₁) (i2 : insertAll g₂ rings = some as₂) (cfg : Config) (l : Nat) (h1 : l ≤ g₁.depth) (h2 : l ≤ g₂.depth) :
    processLevel g₁ (hotOf g₁ as₁) cfg l rings = processLevel g₂ (hotOf g₂ as₂) cfg l rings :=
  C08_round_grid g₁ g₂ h rings as₁ as₂ i1 i2 cfg l h1 h2

/-- **C08 (independence)**: on a round grid, the geometry returned for tile matrix level `z` when it is requested alone (index `g₁`, of
depth `z` or more) equals the geometry returned for it when requested together with any other tile matrices (index `g₂`, as deep as
the deepest of them) -/
theorem C08_independent (g₁ g₂ : Grid) (h : SameExtent g₁ g₂) (rings : List (List Pt)) (cfg : Config)
    (z : Nat) (h1 : z ≤ g₁.depth) (h2 : z ≤ g₂.depth) (levels : List Nat) (hnd : levels.Nodup) (hz : z ∈ levels)
    (alone together : List (Nat × Array Poly))
    (ha : snapPolygonF g₁ rings [z] cfg = .ok alone) (ht : snapPolygonF g₂ rings levels cfg = .ok together)
    (as₁ as₂ : List Quad) (i1 : insertAll g₁ rings = some as₁) (i2 : insertAll g₂ rings = some as₂)
    (polys : Array Poly) : (z, polys) ∈ alone ↔ (z, polys) ∈ together := by
  unfold snapPolygonF at ha ht
  rw [i1] at ha
  rw [i2] at ht
  simp only at ha ht
  rw [processLevels_entry g₁ _ cfg rings [z] (by simp) alone ha z (by simp) polys,
      processLevels_entry g₂ _ cfg rings levels hnd together ht z hz polys,
      C08_round_grid g₁ g₂ h rings as₁ as₂ i1 i2 cfg z h1 h2]

-- non-vacuity: a triangle on a 16-pixel grid requested on levels 3 and 4 together and on level 3 alone
def gEx : Grid := ⟨0, 0, 4, 4⟩
def triEx : List (List Pt) := [[⟨2, 2⟩, ⟨50, 3⟩, ⟨30, 50⟩]]
-- (the ring clean-up below `processRing` contains `while` loops, which the kernel cannot unfold: these two instances are
--  evaluated by the compiler with `#guard`; they show that the hypotheses `… = .ok …` are met by concrete inputs)
#guard (snapPolygonF gEx triEx [3, 4] ⟨false, false, false⟩).toOption.map (·.map (·.1)) == some [3, 4]
#guard (snapPolygonF gEx triEx [3] ⟨false, false, false⟩).toOption.map (·.map (·.1)) == some [3]
-- the same extent at depth 3 (pixels of 8 units) and depth 4 (pixels of 4 units): `SameExtent` is satisfiable
example : SameExtent ⟨0, 0, 8, 3⟩ ⟨0, 0, 4, 4⟩ := ⟨rfl, rfl, by decide, by decide, by decide⟩

end Texel.C08
