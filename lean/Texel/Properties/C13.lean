import Texel.Model.Cli
import Texel.Gen.Flags
import Texel.Properties.C10
import Texel.Properties.C12
/-! # C13 — the command line tool writes, per tile matrix, what the library computes

Proved: the shape of the target path (`_<id>` goes before the extension of the file name, the directory is untouched); the
plumbing between flags and behaviour extracted from `main.go` on every run is the expected one; and the composition of the
two proved stages — a target file's table holds exactly the features the dispatch addresses to that tile matrix, in source order
(C10 ∘ C12). End to end (the real binary on random source GeoPackages, compared with the library called in-process) is the
`cli` stream of the harness. -/
namespace Texel.C13
open Texel

/-- the flag → behaviour plumbing of `main.go`, as extracted by `trgen flags` from the current source; every flag has its alias and is also read
from the environment variable named after itself (`env:`) -/
theorem flags_match :
    Gen.Flags.configPlumbing = ["KeepPointsAndLines=Bool:keeppointsandlines", "IgnoreOutsideGrid=Bool:ignoreoutsidegrid", "ReverseWindingOrder=Bool:reversewindingorder"] ∧
    Gen.Flags.localPlumbing = ["overwrite=Bool:overwrite", "pagesize=Int:pagesize"] ∧
    Gen.Flags.flags = ["BoolFlag ignoreoutsidegrid iog env:ignoreoutsidegrid", "BoolFlag keeppointsandlines pl env:keeppointsandlines",
      "BoolFlag overwrite o env:overwrite", "BoolFlag reversewindingorder rwo env:reversewindingorder", "IntFlag pagesize p env:pagesize",
      "StringFlag sourceGpkg s env:sourceGpkg", "StringFlag targetGpkg t env:targetGpkg", "StringFlag tilematrices z env:tilematrices",
      "StringFlag tilematrixset tms env:tilematrixset"] ∧
    Gen.Flags.defaults = ["ignoreoutsidegrid=false", "keeppointsandlines=false", "pagesize=1000", "reversewindingorder=false"] ∧
    Gen.Flags.validateOrder = ["IsQuadTree", "DeviationStats"] := by decide +kernel

theorem takeWhile_eq_self {α} (p : α → Bool) (l : List α) (h : ∀ x ∈ l, p x = true) : l.takeWhile p = l := by
  induction l with
  | nil => rfl
  | cons a as ih =>
    rw [List.takeWhile_cons, h a List.mem_cons_self]
    simp only [if_true]
    rw [ih (fun x hx => h x (List.mem_cons_of_mem _ hx))]

theorem mem_takeWhile_true {α} (p : α → Bool) (l : List α) (x : α) (hx : x ∈ l.takeWhile p) : p x = true := by
  induction l with
  | nil => cases hx
  | cons a as ih =>
    rw [List.takeWhile_cons] at hx
    cases hpa : p a with
    | false => rw [hpa] at hx; cases hx
    | true =>
      rw [hpa] at hx
      simp only [if_true] at hx
      rcases List.mem_cons.1 hx with h | h
      · subst h; exact hpa
      · exact ih h

theorem dropWhile_cons_of_mem {α} (p : α → Bool) (l : List α) (x : α) (hx : x ∈ l) (hp : p x = false) :
    ∃ c rest, l.dropWhile p = c :: rest ∧ p c = false := by
  induction l with
  | nil => cases hx
  | cons a as ih =>
    rw [List.dropWhile_cons]
    cases hpa : p a with
    | false => exact ⟨a, as, by simp, hpa⟩
    | true =>
      simp only [if_true]
      rcases List.mem_cons.1 hx with h | h
      · subst h; rw [hp] at hpa; cases hpa
      · exact ih h

/-- the file name part: `_<id>` is inserted before the extension -/
theorem C13_path_file (file : List Char) (hns : '/' ∉ file) (id : Nat) :
    Cli.targetPath (String.ofList file) id = String.ofList (Cli.stem file ++ '_' :: (toString id).toList ++ Cli.ext file) := by
  unfold Cli.targetPath Cli.splitPath
  have h1 : (file.reverse.takeWhile (fun c => decide (c ≠ '/'))) = file.reverse := by
    apply takeWhile_eq_self
    intro c hc
    have : c ∈ file := List.mem_reverse.1 hc
    simp only [ne_eq, decide_eq_true_eq]
    intro h; subst h; exact hns this
  simp only [String.toList_ofList, h1, List.reverse_reverse, Nat.sub_self, List.take_zero, List.nil_append]

/-- a file name with a dot is `stem ++ "." ++ (dot-free extension)` -/
theorem ext_decomp (file : List Char) (hd : '.' ∈ file) :
    ∃ pre suf, file = pre ++ '.' :: suf ∧ '.' ∉ suf ∧ Cli.ext file = '.' :: suf := by
  have hsplit := List.takeWhile_append_dropWhile (p := fun c => decide (c ≠ '.')) (l := file.reverse)
  obtain ⟨c, rest, hdw, hc⟩ := dropWhile_cons_of_mem (fun c => decide (c ≠ '.')) file.reverse '.' (List.mem_reverse.2 hd) (by simp)
  have hc' : c = '.' := by simpa using hc
  subst hc'
  rw [hdw] at hsplit
  refine ⟨rest.reverse, (file.reverse.takeWhile (fun c => decide (c ≠ '.'))).reverse, ?_, ?_, ?_⟩
  · have := congrArg List.reverse hsplit
    simp only [List.reverse_append, List.reverse_cons, List.reverse_reverse, List.append_assoc, List.singleton_append] at this
    exact this.symm
  · intro hmem
    have hm : '.' ∈ file.reverse.takeWhile (fun c => decide (c ≠ '.')) := List.mem_reverse.1 hmem
    have := mem_takeWhile_true _ _ _ hm
    simp at this
  · unfold Cli.ext; rw [if_pos hd]

/-- stem and extension partition the file name -/
theorem C13_stem_ext (file : List Char) : Cli.stem file ++ Cli.ext file = file := by
  unfold Cli.stem
  by_cases hd : '.' ∈ file
  · obtain ⟨pre, suf, hfile, _, hext⟩ := ext_decomp file hd
    rw [hext]
    have hlen : file.length - ('.' :: suf).length = pre.length := by
      rw [hfile]; simp
    rw [hlen]
    have ht : List.take pre.length file = pre := by
      rw [hfile]; exact List.take_left' rfl
    rw [ht]; exact hfile.symm
  · have : Cli.ext file = [] := by unfold Cli.ext; rw [if_neg hd]
    rw [this]; simp

/-- **composition** (C10 ∘ C12): when processing a table has returned, what the target of tile matrix `tm` has written — whatever
the page size — is exactly the sequence of features the dispatch addresses to `tm`, in source order -/
theorem C13_compose (c : Pipe.Cfg) (hc : Pipe.CfgOK c) (fs : List Nat) (sched : List Pipe.Action) (s : Pipe.State)
    (h : Pipe.run c (Pipe.init fs) sched = some s) (hret : s.returned = true) (p : Nat) (tm : Nat) (htm : tm ∈ c.targets) :
    (pages p (s.received tm)).flatten = Pipe.expected c fs tm := by
  rw [Texel.C12.C12_concat, Texel.C10.C10_complete c hc fs sched s h hret tm htm]

example : Cli.targetPath "out/target.gpkg" 6 = "out/target_6.gpkg" := by decide
example : Cli.targetPath "target" 12 = "target_12" := by decide
example : Cli.targetPath "a.b/my.target.gpkg" 0 = "a.b/my.target_0.gpkg" := by decide

end Texel.C13
