import Texel.Model.Small
import Texel.Gen.Skel
import Texel.Model.Pipe
/-! # C12 — the target GeoPackage is complete and consistent for any page size

Model: `pages` (`TargetGeopackage.WriteFeatures`: flush when `len % pagesize = 0`, final flush always; the structure is part of
the skeleton `trgen skel` extracts on every run), the column lists of `selectSQL`/`insertSQL`, and the extent bookkeeping of
`writeFeatures` + `UpdateGeometryExtent`. SQLite, its rtree triggers and `database/sql` are outside the model: the harness
reads every written file back (rows, rtree, gpkg_contents, gpkg_geometry_columns, table_info). Core-only proofs. -/
namespace Texel.C12
open Texel

/-- nothing is lost, duplicated or reordered by paging, for every count and every page size -/
theorem C12_concat {α} (p : Nat) (xs : List α) : (pages p xs).flatten = xs := Texel.C12_concat p xs

/-- every transaction but the last holds exactly `p` features (`p > 0`; `p = 0` is a division by zero in the code) -/
theorem C12_sizes {α} (p : Nat) (hp : 0 < p) (xs : List α) : ∀ pg ∈ (pages p xs).dropLast, pg.length = p :=
  Texel.C12_sizes p hp xs

/-- there is always a final flush (possibly of nothing): the list of pages is never empty -/
theorem C12_final_flush {α} (p : Nat) (xs : List α) : pages p xs ≠ [] := pagesGo_ne_nil p xs []

/-! ### columns: `selectSQL` reads in table order, `insertSQL` writes the attributes in table order and the geometry last -/

def insertCols (cols : List String) (gcol : String) : List String := cols.filter (· ≠ gcol) ++ [gcol]
/-- `ReadFeatures`: the attribute values in table order (geometry column skipped), `writeFeatures`: the geometry appended -/
def rowData {V} (cols : List String) (gcol : String) (vals : String → V) : List V := (cols.filter (· ≠ gcol)).map vals ++ [vals gcol]

theorem zip_map_self {α β} (l : List α) (f : α → β) : l.zip (l.map f) = l.map fun a => (a, f a) := by
  induction l with
  | nil => rfl
  | cons a as ih => simp [ih]

/-- every value is inserted under its own column name, wherever the geometry column sits in the source table -/
theorem C12_columns {V} (cols : List String) (gcol : String) (vals : String → V) :
    (insertCols cols gcol).zip (rowData cols gcol vals) = (insertCols cols gcol).map fun c => (c, vals c) := by
  unfold insertCols rowData
  have := zip_map_self (cols.filter (· ≠ gcol) ++ [gcol]) vals
  simpa using this

/-! ### extent: per-page extents merged into the stored one give the bounding box of everything written -/

abbrev Ext := Option (Int × Int × Int × Int)     -- minx miny maxx maxy; `none` = no non-empty geometry yet

def union : Ext → Ext → Ext
  | none, e => e
  | e, none => e
  | some (a, b, c, d), some (a', b', c', d') => some (min a a', min b b', max c c', max d d')

/-- `writeFeatures`: the extent of one page (empty geometries contribute nothing) -/
def pageExt (gs : List Ext) : Ext := gs.foldl union none

theorem union_none_left (e : Ext) : union none e = e := by cases e <;> rfl
theorem union_none_right (e : Ext) : union e none = e := by cases e <;> rfl

theorem union_assoc (a b c : Ext) : union (union a b) c = union a (union b c) := by
  cases a with
  | none => simp [union_none_left]
  | some x =>
    cases b with
    | none => simp [union_none_left, union_none_right]
    | some y =>
      cases c with
      | none => simp [union_none_right]
      | some z =>
        obtain ⟨a1, a2, a3, a4⟩ := x
        obtain ⟨b1, b2, b3, b4⟩ := y
        obtain ⟨c1, c2, c3, c4⟩ := z
        simp only [union, Option.some.injEq, Prod.mk.injEq]
        refine ⟨Int.min_assoc _ _ _, Int.min_assoc _ _ _, Int.max_assoc _ _ _, Int.max_assoc _ _ _⟩

theorem foldl_union (gs : List Ext) (e : Ext) : gs.foldl union e = union e (pageExt gs) := by
  unfold pageExt
  induction gs generalizing e with
  | nil => simp [union_none_right]
  | cons g gs ih => simp only [List.foldl_cons]; rw [ih, ih (union none g), union_none_left, union_assoc]

theorem pageExt_append (a b : List Ext) : pageExt (a ++ b) = union (pageExt a) (pageExt b) := by
  unfold pageExt
  rw [List.foldl_append, foldl_union]
  rfl

/-- `UpdateGeometryExtent` after every transaction: stored := stored ∪ page extent -/
def storedAfter (pgs : List (List Ext)) : Ext := pgs.foldl (fun st pg => union st (pageExt pg)) none

theorem storedAfter_eq (pgs : List (List Ext)) (st : Ext) :
    pgs.foldl (fun st pg => union st (pageExt pg)) st = union st (pageExt pgs.flatten) := by
  induction pgs generalizing st with
  | nil => simp [pageExt, union_none_right]
  | cons pg pgs ih => simp only [List.foldl_cons, List.flatten_cons]; rw [ih, pageExt_append, union_assoc]

/-- **extent**: whatever the page size, the recorded table extent is the bounding box of all written geometries
(`none` — NULL in `gpkg_contents` — when no geometry is non-empty) -/
theorem C12_extent (p : Nat) (gs : List Ext) : storedAfter (pages p gs) = pageExt gs := by
  unfold storedAfter
  rw [storedAfter_eq, C12_concat, union_none_left]

/-- the paging and insert structure in the current source is the one the model assumes -/
theorem skeleton_matches : Texel.Gen.Skel.skeleton = Texel.Pipe.assumedSkeleton := by decide +kernel

example : pages 2 [1, 2, 3, 4] = [[1, 2], [3, 4], []] := by decide      -- exact multiple: an empty last transaction
example : pages 2 [1, 2, 3] = [[1, 2], [3]] := by decide
example : pages 3 ([] : List Nat) = [[]] := by decide
example : insertCols ["fid", "geom", "name"] "geom" = ["fid", "name", "geom"] := by decide
example : storedAfter (pages 2 [some (0, 0, 1, 1), none, some (-3, 2, 0, 5)]) = some (-3, 0, 1, 5) := by decide

end Texel.C12
