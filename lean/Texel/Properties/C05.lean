import Texel.Proofs.SnapF
import Texel.Proofs.RingShape
import Texel.Proofs.NoTwice
import Texel.Proofs.NoCollapse
import Texel.Gen.Flags
/-! # C05 — returned rings are well formed, correctly oriented, collapse policy respected

Proved here on the functional model `snapPolygonF` (all polygons, valid or not, all configurations):
* a tile matrix at which the whole polygon collapses is *absent* from the result, never mapped to an empty list;
* with keep-points-and-lines, every tile matrix present without the option carries the same polygons followed by
  single-ring polygons (the collapsed parts), and nothing else changes.
* every assembled polygon is its shell followed by its holes, each of at least three vertices, the shell counter-clockwise (signed area
  ≥ 0), the holes clockwise (≤ 0), the opposite under the reverse flag; collapsed parts are single rings of at most two vertices and
  absent without the option (`C05_shape`, `C05_at_least_three`; the signed area is the model's `area2`, proved equal to the shoelace sum
  and negated by reversal in `Proofs/Area.lean`).
* no ring of an assembled polygon visits a vertex twice — hence none repeats its first vertex at the end and none has two equal
  neighbours — `C05_no_vertex_twice_partial`: for every polygon inside the grid, under the explicit hypothesis `KmpNoDup` (spike removal
  returns no more copies of a vertex than it was given; it only cuts runs out, checked on every ring of the `kmp` stream). The proof is
  the stack invariant of `splitRing` (`Proofs/SplitInv.lean`) and the fact that the repeated-vertex flags are exact (`Proofs/HitCount.lean`).
These ring-level clauses are also evaluated by the exact oracle `oracleC05`
on every implementation answer and by the `snap`/`split` correspondence; their proofs need the inside of `splitRing`
(see DESIGN §6 C05). Core-only proofs. -/
namespace Texel.C05
open Texel

/-- **no empty list**: every tile matrix that is present carries at least one polygon -/
theorem C05_no_empty_list (g : Grid) (rings : List (List Pt)) (levels : List Nat) (cfg : Config)
    (res : List (Nat × Array Poly)) (h : snapPolygonF g rings levels cfg = .ok res) :
    ∀ e ∈ res, e.2.size ≠ 0 := by
  intro e he
  obtain ⟨addrs, _, _, hp⟩ := snapPolygonF_mem g rings levels cfg res h e.1 e.2 he
  obtain ⟨acc, core, _, _, hf⟩ := processLevel_some _ _ _ _ _ _ hp
  exact (finishLevel_some _ _ _ _ hf).2

/-- without the keep option nothing but assembled polygons is returned (no appended points or lines) -/
theorem C05_no_keep_no_appended (g : Grid) (hot : Nat → Quad → Bool) (rev : Bool) (l : Nat) (rings : List (List Pt))
    (acc : Acc) (h : levelAcc g hot false l rings = .ok (some acc)) : acc.pls = #[] := by
  unfold levelAcc at h
  split at h
  · simp only [Except.ok.injEq, Option.some.injEq] at h; subst h; rfl
  · simp only [bind, Except.bind] at h
    split at h
    · simp at h
    · rename_i sp hsp
      split at h
      · simp [pure, Except.pure] at h
      · split at h
        · simp at h
        · rename_i a' ha'
          simp only [pure, Except.pure, Except.ok.injEq, Option.some.injEq] at h
          subst h
          obtain ⟨_, _, _, _, hp⟩ := processHoles_keep g hot l _ (({} : Acc).add sp false) (({} : Acc).add sp true) a'
            (by simp [Acc.add]) (by simp [Acc.add]) (by simp [Acc.add]) ha'
          exact hp

/-- **keep extends**: if a tile matrix is present without keep-points-and-lines, then with the option it is present too and
carries exactly the same polygons, followed by single-ring polygons (the collapsed parts `pls`) -/
theorem C05_keep_extends (g : Grid) (hot : Nat → Quad → Bool) (rev io : Bool) (l : Nat) (rings : List (List Pt))
    (polys : Array Poly) (h : processLevel g hot ⟨false, rev, io⟩ l rings = .ok (some polys)) :
    ∃ pls : Array (Array P), processLevel g hot ⟨true, rev, io⟩ l rings = .ok (some (polys ++ pls.map fun pl => #[pl])) := by
  obtain ⟨acc, core, hacc, hcore, hfin⟩ := processLevel_some _ _ _ _ _ _ h
  simp only at hacc hfin
  have hpls0 : acc.pls = #[] := C05_no_keep_no_appended g hot rev l rings acc hacc
  obtain ⟨hpolys, hne⟩ := finishLevel_some _ _ _ _ hfin
  rw [hpls0] at hpolys
  simp only [Array.map_empty, Array.append_empty] at hpolys
  -- the same rings are accumulated with keep
  have key : ∃ acc1, levelAcc g hot true l rings = .ok (some acc1) ∧ acc.outers = acc1.outers ∧ acc.inners = acc1.inners := by
    unfold levelAcc at hacc ⊢
    split at hacc
    · simp only [Except.ok.injEq, Option.some.injEq] at hacc; subst hacc; exact ⟨{}, rfl, rfl, rfl⟩
    · simp only [bind, Except.bind] at hacc ⊢
      split at hacc
      · simp at hacc
      · rename_i sp hsp
        split at hacc
        · simp [pure, Except.pure] at hacc
        · rename_i hdead
          have hout : sp.outers.size ≠ 0 := by
            intro h0; exact hdead ⟨h0, Or.inl trivial⟩
          have hnd : ¬ (sp.outers.size = 0 ∧ (true = false ∨ sp.pointsAndLines.size = 0)) := fun hc => hout hc.1
          rw [if_neg hnd]
          split at hacc
          · simp at hacc
          · rename_i a' ha'
            simp only [pure, Except.pure, Except.ok.injEq, Option.some.injEq] at hacc
            subst hacc
            obtain ⟨a1', h1, h2, h3, _⟩ := processHoles_keep g hot l _ (({} : Acc).add sp false) (({} : Acc).add sp true) a'
              (by simp [Acc.add]) (by simp [Acc.add]) (by simp [Acc.add]) ha'
            rw [h1]
            exact ⟨a1', rfl, h2, h3⟩
  obtain ⟨acc1, hacc1, ho, hi⟩ := key
  have hcore1 : assembleCore acc1 = .ok core := by rw [← assembleCore_congr acc acc1 ho hi]; exact hcore
  refine ⟨acc1.pls, ?_⟩
  rw [processLevel_of g hot ⟨true, rev, io⟩ l rings acc1 core hacc1 hcore1]
  unfold finishLevel
  simp only
  rw [← hpolys]
  have : ¬ ((polys ++ acc1.pls.map fun pl => #[pl]).size = 0) := by
    simp only [Array.size_append]; omega
  rw [if_neg this]

/-- the orientation the caller asked for: counter-clockwise shells (non-negative signed area), clockwise holes; the opposite under the
reverse-winding-order flag. Rings of zero area satisfy both (the property exempts them). -/
def Oriented (reverse : Bool) (isShell : Bool) (r : Array P) : Prop :=
  if reverse = isShell then area2 r ≤ 0 else 0 ≤ area2 r

/-- **shape of a level** (`snapPolygonF`, every polygon, every configuration): the polygons of a tile matrix are assembled polygons followed
by the collapsed parts; every assembled polygon is its shell followed by its holes, all of at least three vertices, the shell
counter-clockwise and the holes clockwise — exactly the opposite under the reverse flag; the collapsed parts are single rings of at
most two vertices, and there are none without keep-points-and-lines -/
theorem C05_shape (g : Grid) (rings : List (List Pt)) (levels : List Nat) (cfg : Config)
    (res : List (Nat × Array Poly)) (h : snapPolygonF g rings levels cfg = .ok res) (l : Nat) (polys : Array Poly) (hm : (l, polys) ∈ res) :
    ∃ core : Array Poly, ∃ pls : Array (Array P), polys = core ++ pls.map (fun pl => #[pl]) ∧
      (∀ pg ∈ core, ∃ shell holes, pg.toList = shell :: holes ∧
        3 ≤ shell.size ∧ Oriented cfg.reverse true shell ∧ ∀ h ∈ holes, 3 ≤ h.size ∧ Oriented cfg.reverse false h) ∧
      (∀ pl ∈ pls, pl.size ≤ 2) ∧ (cfg.keep = false → pls = #[]) := by
  obtain ⟨addrs, _, _, hp⟩ := snapPolygonF_mem g rings levels cfg res h l polys hm
  obtain ⟨core, acc, hacc, hpolys, hcore, hpls⟩ := processLevel_shape lawOriented g (hotOf g addrs) cfg l rings polys hp
  refine ⟨if cfg.reverse then reversePolys core else core, acc.pls, hpolys, ?_, hpls, ?_⟩
  · intro pg hpg
    by_cases hrev : cfg.reverse = true
    · rw [if_pos hrev] at hpg
      unfold reversePolys at hpg
      simp only [Array.mem_map] at hpg
      obtain ⟨pg0, hpg0, rfl⟩ := hpg
      obtain ⟨shell, holes, h1, h2, h3⟩ := hcore pg0 hpg0
      refine ⟨shell.reverse, holes.map Array.reverse, by simp [h1], by simpa using h2.1, ?_, ?_⟩
      · unfold Oriented; rw [if_pos hrev, area2_reverse]; have := h2.2; omega
      · intro hh hhm
        simp only [List.mem_map] at hhm
        obtain ⟨h0, hh0, rfl⟩ := hhm
        refine ⟨by simpa using (h3 h0 hh0).1, ?_⟩
        unfold Oriented
        rw [if_neg (by simp [hrev]), area2_reverse]; have := (h3 h0 hh0).2; omega
    · rw [if_neg hrev] at hpg
      have hrev' : cfg.reverse = false := by simpa using hrev
      obtain ⟨shell, holes, h1, h2, h3⟩ := hcore pg hpg
      refine ⟨shell, holes, h1, h2.1, ?_, ?_⟩
      · unfold Oriented; rw [if_neg (by simp [hrev'])]; exact h2.2
      · intro hh hhm
        refine ⟨(h3 hh hhm).1, ?_⟩
        unfold Oriented; rw [if_pos (by simp [hrev'])]; exact (h3 hh hhm).2
  · intro hk
    rw [hk] at hacc
    exact C05_no_keep_no_appended g (hotOf g addrs) cfg.reverse l rings acc hacc

/-- **without keep-points-and-lines every returned ring has at least three vertices** (any polygon, any levels, either winding order) -/
theorem C05_at_least_three (g : Grid) (rings : List (List Pt)) (levels : List Nat) (cfg : Config) (hk : cfg.keep = false)
    (res : List (Nat × Array Poly)) (h : snapPolygonF g rings levels cfg = .ok res) (l : Nat) (polys : Array Poly) (hm : (l, polys) ∈ res) :
    ∀ pg ∈ polys, ∀ r ∈ pg, 3 ≤ r.size := by
  obtain ⟨core, pls, h1, h2, _, h4⟩ := C05_shape g rings levels cfg res h l polys hm
  rw [h4 hk] at h1
  simp only [Array.map_empty, Array.append_empty] at h1
  subst h1
  intro pg hpg r hr
  obtain ⟨shell, holes, e, hs, _, hh⟩ := h2 pg hpg
  have : r ∈ pg.toList := by simpa using hr
  rw [e] at this
  rcases List.mem_cons.1 this with h5 | h5
  · subst h5; exact hs
  · exact (hh r h5).1

/-- **no vertex twice** (partial: under `KmpNoDup`, see the file comment): in everything `snapPolygonF` returns for a polygon inside the
grid on a level `l ≤ depth`, every ring of every assembled polygon is free of repetitions; the collapsed parts (`pls`, rings of one or two
vertices that keep-points-and-lines appends) are not constrained here -/
theorem C05_no_vertex_twice_partial (hk : KmpNoDup) (g : Grid) (hres : 0 < g.res) (rings : List (List Pt)) (levels : List Nat) (cfg : Config)
    (res : List (Nat × Array Poly)) (h : snapPolygonF g rings levels cfg = .ok res) (hlev : ∀ l ∈ levels, l ≤ g.depth)
    (l : Nat) (polys : Array Poly) (hm : (l, polys) ∈ res) :
    ∃ core : Array Poly, ∃ pls : Array (Array P), polys = core ++ pls.map (fun pl => #[pl]) ∧ ∀ pg ∈ core, ∀ r ∈ pg, r.toList.Nodup := by
  obtain ⟨addrs, hins, hl, hp⟩ := snapPolygonF_mem g rings levels cfg res h l polys hm
  exact processLevel_nodup hk g hres rings addrs hins cfg l (hlev l hl) polys hp

/-- a ring without repetition does not end in its first vertex and has no two equal neighbours -/
theorem nodup_no_closing_duplicate (r : List P) (h : r.Nodup) (h2 : 2 ≤ r.length) : r.head? ≠ r.getLast? := by
  have := nodup_head_ne_last r h h2
  intro hh; rw [hh] at this; simp at this

-- non-vacuity: an L-shaped polygon with a hole on a 64x64 grid at level 4: one polygon, shell with positive and hole with negative area
#guard (snapPolygonF ⟨0, 0, 4, 6⟩ [[⟨8, 8⟩, ⟨200, 8⟩, ⟨200, 200⟩, ⟨8, 200⟩], [⟨60, 60⟩, ⟨60, 140⟩, ⟨140, 140⟩, ⟨140, 60⟩]] [4] ⟨false, false, false⟩).toOption.map
    (fun r => r.map fun e => e.2.toList.map fun pg => pg.toList.map area2) == some [[[288, -50]]]

/-- how the two options of this property are requested from the tool (re-extracted from `main.go` on every run): the configuration fields
are fed by the flags of their own names, and each flag is read from its alias and from the environment variable named after itself -/
theorem C05_options_requested :
    "KeepPointsAndLines=Bool:keeppointsandlines" ∈ Gen.Flags.configPlumbing ∧ "ReverseWindingOrder=Bool:reversewindingorder" ∈ Gen.Flags.configPlumbing ∧
    "BoolFlag keeppointsandlines pl env:keeppointsandlines" ∈ Gen.Flags.flags ∧ "BoolFlag reversewindingorder rwo env:reversewindingorder" ∈ Gen.Flags.flags ∧
    "keeppointsandlines=false" ∈ Gen.Flags.defaults ∧ "reversewindingorder=false" ∈ Gen.Flags.defaults := by decide +kernel

end Texel.C05
