import Texel.Proofs.SnapF
import Texel.Proofs.RingSize
/-! # C05 — returned rings are well formed, correctly oriented, collapse policy respected

Proved here on the functional model `snapPolygonF` (all polygons, valid or not, all configurations):
* a tile matrix at which the whole polygon collapses is *absent* from the result, never mapped to an empty list;
* with keep-points-and-lines, every tile matrix present without the option carries the same polygons followed by
  single-ring polygons (the collapsed parts), and nothing else changes.
* without the option every ring of every returned polygon has at least three vertices; with it the returned list is such polygons
  followed by single rings of at most two vertices (`C05_at_least_three`, `C05_shape`).
The remaining ring-level clauses (orientation, no repeated vertex) are evaluated by the exact oracle `oracleC05`
on every implementation answer and by the `snap`/`split` correspondence; their proofs need the inside of `splitRing`
(see DESIGN §6 C05). Core-only proofs. -/
namespace Texel.C05
open Texel

/-- **no empty list**: every tile matrix that is present carries at least one polygon -/
theorem C05_no_empty_list (g : Grid) (rings : List (List Pt)) (levels : List Nat) (cfg : Config)
    (res : List (Nat × Array Poly)) (h : snapPolygonF g rings levels cfg = .ok res) :
    ∀ e ∈ res, e.2.size ≠ 0 := by
  intro e he
  obtain ⟨addrs, _, _, hp⟩ := snapPolygonF_mem g rings levels cfg res h e.1 e.2 he
  obtain ⟨acc, core, _, _, hf⟩ := processLevel_some _ _ _ _ _ _ hp
  exact (finishLevel_some _ _ _ _ hf).2

/-- without the keep option nothing but assembled polygons is returned (no appended points or lines) -/
theorem C05_no_keep_no_appended (g : Grid) (hot : Nat → Quad → Bool) (rev : Bool) (l : Nat) (rings : List (List Pt))
    (acc : Acc) (h : levelAcc g hot false l rings = .ok (some acc)) : acc.pls = #[] := by
  unfold levelAcc at h
  split at h
  · simp only [Except.ok.injEq, Option.some.injEq] at h; subst h; rfl
  · simp only [bind, Except.bind] at h
    split at h
    · simp at h
    · rename_i sp hsp
      split at h
      · simp [pure, Except.pure] at h
      · split at h
        · simp at h
        · rename_i a' ha'
          simp only [pure, Except.pure, Except.ok.injEq, Option.some.injEq] at h
          subst h
          obtain ⟨_, _, _, _, hp⟩ := processHoles_keep g hot l _ (({} : Acc).add sp false) (({} : Acc).add sp true) a'
            (by simp [Acc.add]) (by simp [Acc.add]) (by simp [Acc.add]) ha'
          exact hp

/-- **keep extends**: if a tile matrix is present without keep-points-and-lines, then with the option it is present too and
carries exactly the same polygons, followed by single-ring polygons (the collapsed parts `pls`) -/
theorem C05_keep_extends (g : Grid) (hot : Nat → Quad → Bool) (rev io : Bool) (l : Nat) (rings : List (List Pt))
    (polys : Array Poly) (h : processLevel g hot ⟨false, rev, io⟩ l rings = .ok (some polys)) :
    ∃ pls : Array (Array P), processLevel g hot ⟨true, rev, io⟩ l rings = .ok (some (polys ++ pls.map fun pl => #[pl])) := by
  obtain ⟨acc, core, hacc, hcore, hfin⟩ := processLevel_some _ _ _ _ _ _ h
  simp only at hacc hfin
  have hpls0 : acc.pls = #[] := C05_no_keep_no_appended g hot rev l rings acc hacc
  obtain ⟨hpolys, hne⟩ := finishLevel_some _ _ _ _ hfin
  rw [hpls0] at hpolys
  simp only [Array.map_empty, Array.append_empty] at hpolys
  -- the same rings are accumulated with keep
  have key : ∃ acc1, levelAcc g hot true l rings = .ok (some acc1) ∧ acc.outers = acc1.outers ∧ acc.inners = acc1.inners := by
    unfold levelAcc at hacc ⊢
    split at hacc
    · simp only [Except.ok.injEq, Option.some.injEq] at hacc; subst hacc; exact ⟨{}, rfl, rfl, rfl⟩
    · simp only [bind, Except.bind] at hacc ⊢
      split at hacc
      · simp at hacc
      · rename_i sp hsp
        split at hacc
        · simp [pure, Except.pure] at hacc
        · rename_i hdead
          have hout : sp.outers.size ≠ 0 := by
            intro h0; exact hdead ⟨h0, Or.inl trivial⟩
          have hnd : ¬ (sp.outers.size = 0 ∧ (true = false ∨ sp.pointsAndLines.size = 0)) := fun hc => hout hc.1
          rw [if_neg hnd]
          split at hacc
          · simp at hacc
          · rename_i a' ha'
            simp only [pure, Except.pure, Except.ok.injEq, Option.some.injEq] at hacc
            subst hacc
            obtain ⟨a1', h1, h2, h3, _⟩ := processHoles_keep g hot l _ (({} : Acc).add sp false) (({} : Acc).add sp true) a'
              (by simp [Acc.add]) (by simp [Acc.add]) (by simp [Acc.add]) ha'
            rw [h1]
            exact ⟨a1', rfl, h2, h3⟩
  obtain ⟨acc1, hacc1, ho, hi⟩ := key
  have hcore1 : assembleCore acc1 = .ok core := by rw [← assembleCore_congr acc acc1 ho hi]; exact hcore
  refine ⟨acc1.pls, ?_⟩
  rw [processLevel_of g hot ⟨true, rev, io⟩ l rings acc1 core hacc1 hcore1]
  unfold finishLevel
  simp only
  rw [← hpolys]
  have : ¬ ((polys ++ acc1.pls.map fun pl => #[pl]).size = 0) := by
    simp only [Array.size_append]; omega
  rw [if_neg this]

/-- **shape of a level**: assembled polygons whose rings all have at least three vertices, followed by the collapsed parts as single
rings of at most two vertices (none of them without the keep option) -/
theorem C05_shape (g : Grid) (rings : List (List Pt)) (levels : List Nat) (cfg : Config)
    (res : List (Nat × Array Poly)) (h : snapPolygonF g rings levels cfg = .ok res) (l : Nat) (polys : Array Poly) (hm : (l, polys) ∈ res) :
    ∃ core : Array Poly, ∃ pls : Array (Array P), polys = core ++ pls.map (fun pl => #[pl]) ∧
      (∀ pg ∈ core, ∀ r ∈ pg, 3 ≤ r.size) ∧ (∀ pl ∈ pls, pl.size ≤ 2) ∧ (cfg.keep = false → pls = #[]) := by
  obtain ⟨addrs, _, _, hp⟩ := snapPolygonF_mem g rings levels cfg res h l polys hm
  obtain ⟨core, pls, h1, h2, h3, acc, hacc, hpls⟩ := processLevel_size g (hotOf g addrs) cfg l rings polys hp
  refine ⟨core, pls, h1, h2, h3, ?_⟩
  intro hk
  rw [hk] at hacc
  rw [hpls]
  exact C05_no_keep_no_appended g (hotOf g addrs) cfg.reverse l rings acc hacc

/-- **without keep-points-and-lines every returned ring has at least three vertices** (any polygon, any levels, either winding order) -/
theorem C05_at_least_three (g : Grid) (rings : List (List Pt)) (levels : List Nat) (cfg : Config) (hk : cfg.keep = false)
    (res : List (Nat × Array Poly)) (h : snapPolygonF g rings levels cfg = .ok res) (l : Nat) (polys : Array Poly) (hm : (l, polys) ∈ res) :
    ∀ pg ∈ polys, ∀ r ∈ pg, 3 ≤ r.size := by
  obtain ⟨core, pls, h1, h2, _, h4⟩ := C05_shape g rings levels cfg res h l polys hm
  rw [h4 hk] at h1
  simp only [Array.map_empty, Array.append_empty] at h1
  subst h1
  exact h2

end Texel.C05
