import Texel.Proofs.Pipe
import Texel.Properties.C10
/-! # C11 — the pipeline always finishes, and only after every target is done

On the state machine `Texel.Pipe` (any number of targets, any stream, any schedule), under the stated hypothesis that a
target drains its channel until it is closed. The runtime part (real scheduling, memory model, race detector, goroutine leaks)
cannot be exhibited by a theorem and is exercised by the harness (`pipe` stream: real `ProcessFeatures` with fake targets of
adversarial speeds, GOMAXPROCS 1..16; `-race` in the thorough tier). -/
namespace Texel.C11
open Texel.Pipe

/-- returns only after every target has finished and has received everything addressed to it -/
theorem C11_return_after (c : Cfg) (hc : CfgOK c) (fs : List Nat) (sched : List Action) (s : State)
    (h : run c (init fs) sched = some s) (hret : s.returned = true) :
    ∀ tm ∈ c.targets, s.wDone tm = true ∧ s.received tm = expected c fs tm :=
  Texel.Pipe.C11_return_after c hc fs sched s h hret

/-- no deadlock: every reachable state that has not returned can take a step -/
theorem C11_progress (c : Cfg) (hc : CfgOK c) (fs : List Nat) (sched : List Action) (s : State)
    (h : run c (init fs) sched = some s) (hret : s.returned = false) : ∃ a s', step c s a = some s' :=
  Texel.Pipe.C11_progress c hc fs sched s h hret

/-- every schedule is finite: a natural-number measure drops with every step, so every maximal run ends — with
`C11_progress`, in a state that has returned -/
theorem C11_terminates (c : Cfg) (hnd : c.targets.Nodup) (s s' : State) (a : Action) (h : step c s a = some s') :
    mu c s' < mu c s :=
  step_decreases c hnd s s' a h

/-- the placement of `close`, `wg.Add/Done/Wait` and the goroutine starts in the current source is the one the model assumes -/
theorem skeleton_matches : Texel.Gen.Skel.skeleton = Texel.Pipe.assumedSkeleton := Texel.C10.skeleton_matches

end Texel.C11
