import Texel.Model.AssembleF
namespace Texel

theorem deleteByIndex_sublist (rs : List (Array P)) (del : Array Nat) (off : Nat) : (deleteByIndex rs del off).Sublist rs := by
  unfold deleteByIndex
  have h := (List.filter_sublist (l := rs.zipIdx) (p := fun (x : Array P × Nat) => !del.contains (x.2 + off))).map (·.1)
  have e : rs.zipIdx.map (·.1) = rs := by simp
  rw [e] at h
  exact h

/-- `dedupeInnersOuters` only deletes: the shells (holes) that survive are a sub-sequence of the shells (holes) it was given — no ring is
duplicated, invented, reordered or moved from one list to the other -/
theorem dedupeF_sublist (outers inners o i : Array (Array P)) (h : dedupeF outers inners = .ok (o, i)) :
    o.toList.Sublist outers.toList ∧ i.toList.Sublist inners.toList := by
  unfold dedupeF at h
  simp only [bind, Except.bind] at h
  split at h
  · cases h
  · rename_i del _
    split at h
    · simp only [pure, Except.pure, Except.ok.injEq, Prod.mk.injEq] at h
      obtain ⟨rfl, rfl⟩ := h
      exact ⟨List.Sublist.refl _, List.Sublist.refl _⟩
    · simp only [pure, Except.pure, Except.ok.injEq, Prod.mk.injEq] at h
      obtain ⟨rfl, rfl⟩ := h
      exact ⟨by simpa using deleteByIndex_sublist _ _ _, by simpa using deleteByIndex_sublist _ _ _⟩

/-- number of rings of a list of polygons -/
def ringCount (ps : List (Array (Array P))) : Nat := (ps.map Array.size).sum

theorem ringCount_attachAt (ps : List (Array (Array P))) (k : Nat) (inner : Array P) (hk : k < ps.length) :
    ringCount (attachAt ps k inner) = ringCount ps + 1 := by
  induction ps generalizing k with
  | nil => simp at hk
  | cons pg rest ih =>
    cases k with
    | zero => simp [attachAt, ringCount]; omega
    | succ k =>
      have := ih k (by simpa using hk)
      simp only [attachAt, ringCount, List.map_cons, List.sum_cons] at this ⊢
      omega

theorem attachAt_length (ps : List (Array (Array P))) (k : Nat) (inner : Array P) : (attachAt ps k inner).length = ps.length := by
  induction ps generalizing k with
  | nil => rfl
  | cons pg rest ih => cases k <;> simp [attachAt, ih]

/-- **hole matching loses and duplicates nothing**: as long as every decision names an existing polygon (in Go an index outside the slice is a
panic), the polygons returned hold exactly the rings of the polygons given plus every inner ring once — attached as a hole, or turned into a
shell of its own. -/
theorem matchF_ringCount (polys0 : Array (Array (Array P))) (inners : Array (Array P))
    (hd : ∀ inner ∈ inners.toList, ∀ i, matchDecision (polys0.map fun pg => pg[0]!) (sortPolyIdxsByOuterAreaDesc polys0) inner = some i → i < polys0.size) :
    ringCount (matchF polys0 inners).toList = ringCount polys0.toList + inners.size := by
  unfold matchF
  split
  · rename_i h0; simp [h0]
  · simp only []
    generalize hsh : (polys0.map fun pg => pg[0]!) = shells at hd
    generalize hso : sortPolyIdxsByOuterAreaDesc polys0 = sorted at hd
    have key : ∀ (l : List (Array P)) (st : MatchState), (∀ inner ∈ l, ∀ i, matchDecision shells sorted inner = some i → i < st.polys.length) →
        let st' := l.foldl (fun (st : MatchState) inner =>
          match matchDecision shells sorted inner with
          | some i => { st with polys := attachAt st.polys i inner }
          | none => { st with turned := st.turned ++ [inner.reverse] }) st
        ringCount st'.polys + st'.turned.length = ringCount st.polys + st.turned.length + l.length ∧ st'.polys.length = st.polys.length := by
      intro l
      induction l with
      | nil => intro st _; simp
      | cons a l ih =>
        intro st hl
        simp only [List.foldl_cons]
        cases hm : matchDecision shells sorted a with
        | none =>
          simp only []
          have := ih { st with turned := st.turned ++ [a.reverse] } (fun inner hin i hi => hl inner (List.mem_cons_of_mem _ hin) i hi)
          simp only [List.length_append, List.length_cons, List.length_nil] at this ⊢
          omega
        | some i =>
          simp only []
          have hi := hl a List.mem_cons_self i hm
          have := ih { st with polys := attachAt st.polys i a } (fun inner hin j hj => by
            rw [attachAt_length]; exact hl inner (List.mem_cons_of_mem _ hin) j hj)
          simp only [ringCount_attachAt _ _ _ hi, attachAt_length, List.length_cons] at this ⊢
          omega
    have := (key inners.toList { polys := polys0.toList } (by simpa using hd)).1
    simp only [List.length_nil, Nat.add_zero, Array.length_toList] at this
    simp only [ringCount, List.map_append, List.sum_append, List.map_map] at this ⊢
    have h1 : ∀ (ts : List (Array P)), (List.map (Array.size ∘ fun t => #[t]) ts).sum = ts.length := by
      intro ts; induction ts with
      | nil => rfl
      | cons t ts ih => simp [ih]; omega
    rw [h1]
    exact this

end Texel
