import Mathlib.Tactic.Linarith
import Mathlib.Tactic.FieldSimp
import Mathlib.Tactic.Ring
import Mathlib.Tactic.Push
import Mathlib.Algebra.Order.Field.Basic
import Mathlib.Algebra.Order.Field.Rat
import Mathlib.Data.Rat.Defs
import Texel.Model.Geom

namespace Texel

/-! Model of the repaired `lineIntersects` (integers only) and its specification. -/

def Bound.val (b : Bound) : ℚ := (b.num : ℚ) / (b.den : ℚ)

/-- lower bound `l` admits `t` -/
def Bound.below (l : Bound) (t : ℚ) : Prop := if l.strict then l.val < t else l.val ≤ t
/-- upper bound `u` admits `t` -/
def Bound.above (u : Bound) (t : ℚ) : Prop := if u.strict then t < u.val else t ≤ u.val

def Seg.x (L : Seg) (t : ℚ) : ℚ := L.p1.x + t * ((L.p2.x - L.p1.x : Int) : ℚ)
def Seg.y (L : Seg) (t : ℚ) : ℚ := L.p1.y + t * ((L.p2.y - L.p1.y : Int) : ℚ)

def MeetsI (L : Seg) (B : Box) : Prop :=
  ∃ t : ℚ, 0 ≤ t ∧ t ≤ 1 ∧ (B.minX : ℚ) ≤ L.x t ∧ L.x t < B.maxX ∧ (B.minY : ℚ) ≤ L.y t ∧ L.y t < B.maxY

/-! ### compat is comparison of values -/

theorem compat_iff (l u : Bound) (hl : 0 < l.den) (hu : 0 < u.den) :
    compat l u = true ↔ (if l.strict || u.strict then l.val < u.val else l.val ≤ u.val) := by
  have hl' : (0:ℚ) < l.den := by exact_mod_cast hl
  have hu' : (0:ℚ) < u.den := by exact_mod_cast hu
  unfold compat Bound.val
  by_cases h : (l.strict || u.strict) = true
  · simp only [h, if_true, decide_eq_true_eq]
    rw [div_lt_div_iff₀ hl' hu']
    constructor
    · intro h1; exact_mod_cast h1
    · intro h1; exact_mod_cast h1
  · simp only [h, Bool.false_eq_true, if_false, decide_eq_true_eq]
    rw [div_le_div_iff₀ hl' hu']
    constructor
    · intro h1; exact_mod_cast h1
    · intro h1; exact_mod_cast h1

/-! ### one lower and one upper bound -/

theorem ex_between (l u : Bound) :
    (∃ t, l.below t ∧ u.above t) ↔ (if l.strict || u.strict then l.val < u.val else l.val ≤ u.val) := by
  unfold Bound.below Bound.above
  cases hl : l.strict <;> cases hu : u.strict <;> simp
  · exact ⟨fun ⟨t, h1, h2⟩ => le_trans h1 h2, fun h => ⟨l.val, le_refl _, h⟩⟩
  · exact ⟨fun ⟨t, h1, h2⟩ => lt_of_le_of_lt h1 h2, fun h => ⟨l.val, le_refl _, h⟩⟩
  · exact ⟨fun ⟨t, h1, h2⟩ => lt_of_lt_of_le h1 h2, fun h => ⟨u.val, h, le_refl _⟩⟩
  · exact ⟨fun ⟨t, h1, h2⟩ => lt_trans h1 h2, fun h => ⟨(l.val + u.val) / 2, by linarith, by linarith⟩⟩

/-! ### a strongest lower / upper bound exists in a non-empty list -/

theorem strongest_lower (l0 : Bound) (ls : List Bound) :
    ∃ m, m ∈ l0 :: ls ∧ ∀ t, m.below t → ∀ l ∈ l0 :: ls, l.below t := by
  induction ls generalizing l0 with
  | nil => exact ⟨l0, by simp, fun t h l hl => by simp at hl; subst hl; exact h⟩
  | cons a as ih =>
    obtain ⟨m, hm, hmt⟩ := ih l0
    -- compare m with a
    by_cases hcmp : ∀ t, m.below t → a.below t
    · refine ⟨m, ?_, ?_⟩
      · simp at hm ⊢; rcases hm with h | h
        · exact Or.inl h
        · exact Or.inr (Or.inr h)
      · intro t ht l hl
        simp at hl
        rcases hl with h | h | h
        · subst h; exact hmt t ht l (by simp)
        · subst h; exact hcmp t ht
        · exact hmt t ht l (by simp [h])
    · -- a is stronger than m
      refine ⟨a, by simp, ?_⟩
      have hstr : ∀ t, a.below t → m.below t := by
        push Not at hcmp
        obtain ⟨t0, h1, h2⟩ := hcmp
        intro t ht
        unfold Bound.below at *
        cases ha : a.strict <;> cases hmS : m.strict <;> simp [ha, hmS] at * <;> linarith
      intro t ht l hl
      simp at hl
      rcases hl with h | h | h
      · subst h; exact hmt t (hstr t ht) l (by simp)
      · subst h; exact ht
      · exact hmt t (hstr t ht) l (by simp [h])

theorem strongest_upper (u0 : Bound) (us : List Bound) :
    ∃ m, m ∈ u0 :: us ∧ ∀ t, m.above t → ∀ u ∈ u0 :: us, u.above t := by
  induction us generalizing u0 with
  | nil => exact ⟨u0, by simp, fun t h u hu => by simp at hu; subst hu; exact h⟩
  | cons a as ih =>
    obtain ⟨m, hm, hmt⟩ := ih u0
    by_cases hcmp : ∀ t, m.above t → a.above t
    · refine ⟨m, ?_, ?_⟩
      · simp at hm ⊢; rcases hm with h | h
        · exact Or.inl h
        · exact Or.inr (Or.inr h)
      · intro t ht u hu
        simp at hu
        rcases hu with h | h | h
        · subst h; exact hmt t ht u (by simp)
        · subst h; exact hcmp t ht
        · exact hmt t ht u (by simp [h])
    · refine ⟨a, by simp, ?_⟩
      have hstr : ∀ t, a.above t → m.above t := by
        push Not at hcmp
        obtain ⟨t0, h1, h2⟩ := hcmp
        intro t ht
        unfold Bound.above at *
        cases ha : a.strict <;> cases hmS : m.strict <;> simp [ha, hmS] at * <;> linarith
      intro t ht u hu
      simp at hu
      rcases hu with h | h | h
      · subst h; exact hmt t (hstr t ht) u (by simp)
      · subst h; exact ht
      · exact hmt t (hstr t ht) u (by simp [h])

/-- 1-D Helly for rays: a common point exists iff every lower bound is compatible with every upper bound -/
theorem exists_iff_pairwise (l0 : Bound) (ls : List Bound) (u0 : Bound) (us : List Bound) :
    (∃ t, (∀ l ∈ l0 :: ls, l.below t) ∧ (∀ u ∈ u0 :: us, u.above t)) ↔
    (∀ l ∈ l0 :: ls, ∀ u ∈ u0 :: us, ∃ t, l.below t ∧ u.above t) := by
  constructor
  · rintro ⟨t, h1, h2⟩ l hl u hu
    exact ⟨t, h1 l hl, h2 u hu⟩
  · intro h
    obtain ⟨ml, hml, hl⟩ := strongest_lower l0 ls
    obtain ⟨mu, hmu, hu⟩ := strongest_upper u0 us
    obtain ⟨t, ht1, ht2⟩ := h ml hml mu hmu
    exact ⟨t, hl t ht1, hu t ht2⟩


/-! ### one axis -/

def AxisOK (p d lo hi : Int) (t : ℚ) : Prop := (lo : ℚ) ≤ p + t * (d : ℚ) ∧ (p : ℚ) + t * (d : ℚ) < hi

theorem axis_none (p d lo hi : Int) (h : axisBounds p d lo hi = none) (t : ℚ) : ¬ AxisOK p d lo hi t := by
  unfold axisBounds at h
  by_cases hd : d = 0
  · simp [hd] at h
    unfold AxisOK
    subst hd
    simp
    intro h1
    have h1' : lo ≤ p := by exact_mod_cast h1
    have := h h1'
    exact_mod_cast this
  · by_cases hp : 0 < d <;> simp [hd, hp] at h

theorem axis_some (p d lo hi : Int) (ls us : List Bound) (h : axisBounds p d lo hi = some (ls, us)) (t : ℚ) :
    AxisOK p d lo hi t ↔ ((∀ l ∈ ls, l.below t) ∧ (∀ u ∈ us, u.above t)) := by
  unfold axisBounds at h
  by_cases hd : d = 0
  · simp [hd] at h
    obtain ⟨⟨h1, h2⟩, rfl, rfl⟩ := h
    subst hd
    unfold AxisOK
    simp
    constructor
    · exact_mod_cast h1
    · exact_mod_cast h2
  · by_cases hp : 0 < d
    · simp [hd, hp] at h
      obtain ⟨rfl, rfl⟩ := h
      have hd' : (0:ℚ) < d := by exact_mod_cast hp
      unfold AxisOK
      simp [Bound.below, Bound.above, Bound.val]
      rw [div_le_iff₀ hd', lt_div_iff₀ hd']
      constructor
      · rintro ⟨h1, h2⟩; constructor <;> linarith
      · rintro ⟨h1, h2⟩; constructor <;> linarith
    · simp [hd, hp] at h
      obtain ⟨rfl, rfl⟩ := h
      have hn : d < 0 := by omega
      have hd' : (0:ℚ) < ((-d : Int) : ℚ) := by exact_mod_cast (by omega : 0 < -d)
      unfold AxisOK
      simp only [Bound.below, Bound.above, Bound.val, List.mem_singleton, forall_eq, if_true, Bool.false_eq_true, if_false]
      rw [div_lt_iff₀ hd', le_div_iff₀ hd']
      push_cast
      constructor
      · rintro ⟨h1, h2⟩; constructor <;> linarith
      · rintro ⟨h1, h2⟩; constructor <;> linarith

theorem axis_den_pos (p d lo hi : Int) (ls us : List Bound) (h : axisBounds p d lo hi = some (ls, us)) :
    (∀ l ∈ ls, 0 < l.den) ∧ (∀ u ∈ us, 0 < u.den) := by
  unfold axisBounds at h
  by_cases hd : d = 0
  · simp [hd] at h; obtain ⟨_, rfl, rfl⟩ := h; simp
  · by_cases hp : 0 < d
    · simp [hd, hp] at h; obtain ⟨rfl, rfl⟩ := h; simp [hp]
    · simp [hd, hp] at h; obtain ⟨rfl, rfl⟩ := h; simp; omega

theorem lineIntersects_iffI (L : Seg) (B : Box) : lineIntersects L B = true ↔ MeetsI L B := by
  unfold lineIntersects MeetsI
  have hx := axis_some L.p1.x (L.p2.x - L.p1.x) B.minX B.maxX
  have hy := axis_some L.p1.y (L.p2.y - L.p1.y) B.minY B.maxY
  cases hax : axisBounds L.p1.x (L.p2.x - L.p1.x) B.minX B.maxX with
  | none =>
    simp
    intro t _ _ h1 h2
    exact absurd ⟨h1, h2⟩ (axis_none _ _ _ _ hax t)
  | some px =>
    obtain ⟨lx, ux⟩ := px
    cases hay : axisBounds L.p1.y (L.p2.y - L.p1.y) B.minY B.maxY with
    | none =>
      simp
      intro t _ _ _ _ h1
      by_contra hc
      exact axis_none _ _ _ _ hay t ⟨h1, not_le.mp hc⟩
    | some py =>
      obtain ⟨ly, uy⟩ := py
      have hdx := axis_den_pos _ _ _ _ _ _ hax
      have hdy := axis_den_pos _ _ _ _ _ _ hay
      simp only [List.all_eq_true]
      have key := exists_iff_pairwise ⟨0, 1, false⟩ (lx ++ ly) ⟨1, 1, false⟩ (ux ++ uy)
      have hden_l : ∀ l ∈ (⟨0, 1, false⟩ : Bound) :: (lx ++ ly), 0 < l.den := by
        intro l hl; simp at hl; rcases hl with h | h | h
        · subst h; simp
        · exact hdx.1 l h
        · exact hdy.1 l h
      have hden_u : ∀ u ∈ (⟨1, 1, false⟩ : Bound) :: (ux ++ uy), 0 < u.den := by
        intro u hu; simp at hu; rcases hu with h | h | h
        · subst h; simp
        · exact hdx.2 u h
        · exact hdy.2 u h
      constructor
      · intro h
        have : ∀ l ∈ (⟨0, 1, false⟩ : Bound) :: (lx ++ ly), ∀ u ∈ (⟨1, 1, false⟩ : Bound) :: (ux ++ uy), ∃ t, l.below t ∧ u.above t := by
          intro l hl u hu
          rw [ex_between]
          exact (compat_iff l u (hden_l l hl) (hden_u u hu)).1 (h l hl u hu)
        obtain ⟨t, h1, h2⟩ := key.2 this
        refine ⟨t, ?_, ?_, ?_⟩
        · have := h1 ⟨0, 1, false⟩ (by simp); simpa [Bound.below, Bound.val] using this
        · have := h2 ⟨1, 1, false⟩ (by simp); simpa [Bound.above, Bound.val] using this
        · have hX := (hx lx ux hax t).2 ⟨fun l hl => h1 l (by simp [hl]), fun u hu => h2 u (by simp [hu])⟩
          have hY := (hy ly uy hay t).2 ⟨fun l hl => h1 l (by simp [hl]), fun u hu => h2 u (by simp [hu])⟩
          exact ⟨hX.1, hX.2, hY.1, hY.2⟩
      · rintro ⟨t, h0, h1, hx1, hx2, hy1, hy2⟩
        have hX := (hx lx ux hax t).1 ⟨hx1, hx2⟩
        have hY := (hy ly uy hay t).1 ⟨hy1, hy2⟩
        have hall : (∀ l ∈ (⟨0, 1, false⟩ : Bound) :: (lx ++ ly), l.below t) ∧ (∀ u ∈ (⟨1, 1, false⟩ : Bound) :: (ux ++ uy), u.above t) := by
          constructor
          · intro l hl; simp at hl; rcases hl with h | h | h
            · subst h; simpa [Bound.below, Bound.val] using h0
            · exact hX.1 l h
            · exact hY.1 l h
          · intro u hu; simp at hu; rcases hu with h | h | h
            · subst h; simpa [Bound.above, Bound.val] using h1
            · exact hX.2 u h
            · exact hY.2 u h
        intro l hl u hu
        rw [compat_iff l u (hden_l l hl) (hden_u u hu), ← ex_between]
        exact ⟨t, hall.1 l hl, hall.2 u hu⟩

example : lineIntersects ⟨⟨9*4, 8*4⟩, ⟨30, 38⟩⟩ ⟨28, 32, 32, 36⟩ = false := by decide   -- F1 witness: touches excluded corner (8,9)
example : lineIntersects ⟨⟨40, 24⟩, ⟨30, 34⟩⟩ ⟨32, 32, 36, 36⟩ = true := by decide      -- passes through included corner (8,8)


end Texel
