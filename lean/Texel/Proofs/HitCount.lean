import Texel.Proofs.ChainEdges
import Mathlib.Data.List.Nodup
/-! The vertices of the routed chain of a ring, once its closing duplicate is removed, are — with multiplicity — the pixel hits that
`checkPointHits` counted for the ring: "flagged as hit at least twice" is exactly "occurs at least twice in the chain". -/
namespace Texel

/-- `e` is where the edge before ended; what is still owed to the chain when its last vertex is not `e` -/
def pend (acc : List P) (e v : P) : Nat := if acc.getLast? = some e then 0 else if v = e then 1 else 0
def tot (acc : List P) (e v : P) : Nat := acc.count v + pend acc e v

/-- consecutive routed edges: each non-empty, without repetition, starting where the one before ended -/
def LinkedFrom : P → List (List P) → Prop
  | _, [] => True
  | e, r :: rs => ∃ hne : r ≠ [], r.Nodup ∧ r.head? = some e ∧ LinkedFrom (r.getLast hne) rs

def lastE : P → List (List P) → P
  | e, [] => e
  | e, r :: rs => if h : r = [] then lastE e rs else lastE (r.getLast h) rs

theorem count_dropLast_add (t : List P) (hne : t ≠ []) (v : P) :
    t.dropLast.count v + (if v = t.getLast hne then 1 else 0) = t.count v := by
  conv_rhs => rw [← List.dropLast_append_getLast hne]
  rw [List.count_append]
  simp only [List.count_cons, List.count_nil, Nat.zero_add]
  congr 1
  by_cases h : v = t.getLast hne
  · simp [h]
  · have : ¬ (t.getLast hne = v) := fun hh => h hh.symm
    simp [h, this]

theorem getLast_not_mem_dropLast (t : List P) (hne : t ≠ []) (hnd : t.Nodup) : t.getLast hne ∉ t.dropLast := by
  intro hin
  have h := hnd
  rw [← List.dropLast_append_getLast hne] at h
  exact (List.nodup_append.1 h).2.2 _ hin _ (by simp) rfl

theorem cnv_cons (a : P) (t : List P) (last : Option P) :
    cleanupNewVerticesF (a :: t) last = some (if last = some a then t.dropLast else a :: t.dropLast) := by
  unfold cleanupNewVerticesF
  cases t with
  | nil =>
    cases last with
    | none => simp
    | some x =>
      by_cases hx : x = a
      · subst hx; simp
      · have : ¬ (a = x) := fun h => hx h.symm
        simp [hx, this]
  | cons b t' =>
    cases last with
    | none => simp [List.dropLast]
    | some x =>
      by_cases hx : x = a
      · subst hx; simp [List.dropLast]
      · have : ¬ (a = x) := fun h => hx h.symm
        simp [hx, this, List.dropLast]

/-- one edge appended by `cleanupNewVertices` -/
theorem tot_step (acc : List P) (e : P) (r : List P) (hne : r ≠ []) (hnd : r.Nodup) (hhead : r.head? = some e) (nv : List P)
    (h : cleanupNewVerticesF r acc.getLast? = some nv) (v : P) :
    tot (acc ++ nv) (r.getLast hne) v = tot acc e v + r.tail.count v := by
  cases r with
  | nil => exact absurd rfl hne
  | cons a t =>
    simp only [List.head?_cons, Option.some.injEq] at hhead; subst hhead
    rw [cnv_cons] at h
    simp only [Option.some.injEq] at h
    simp only [List.tail_cons]
    by_cases ht : t = []
    · -- the edge stays within one pixel
      subst ht
      simp only [List.dropLast_nil] at h
      simp only [List.getLast_singleton, List.count_nil, Nat.add_zero]
      by_cases hc : acc.getLast? = some a
      · rw [if_pos hc] at h; subst h
        simp only [List.append_nil]
      · rw [if_neg hc] at h; subst h
        unfold tot pend
        simp only [List.getLast?_append_of_ne_nil _ (List.cons_ne_nil a []), List.getLast?_singleton, if_true, hc, if_false, List.count_append,
          List.count_cons, List.count_nil]
        by_cases hv : v = a
        · simp [hv]
        · have : ¬ (a = v) := fun hh => hv hh.symm
          simp [hv, this]
    · have hglast : (a :: t).getLast hne = t.getLast ht := List.getLast_cons ht
      rw [hglast]
      obtain ⟨hat, htnd⟩ := List.nodup_cons.1 hnd
      have hlt_ne_a : t.getLast ht ≠ a := fun hh => hat (hh ▸ List.getLast_mem ht)
      have hcount := count_dropLast_add t ht v
      by_cases hacc : acc.getLast? = some a
      · rw [if_pos hacc] at h; subst h
        have hnewlast : (acc ++ t.dropLast).getLast? ≠ some (t.getLast ht) := by
          by_cases hd : t.dropLast = []
          · rw [hd, List.append_nil, hacc]; intro hh; exact hlt_ne_a (Option.some.inj hh).symm
          · rw [List.getLast?_append_of_ne_nil _ hd]
            intro hh
            exact getLast_not_mem_dropLast t ht htnd (List.mem_of_mem_getLast? hh)
        unfold tot pend
        simp only [hnewlast, if_false, hacc, if_true, List.count_append, Nat.add_zero]
        omega
      · rw [if_neg hacc] at h; subst h
        have hnewlast : (acc ++ a :: t.dropLast).getLast? ≠ some (t.getLast ht) := by
          rw [List.getLast?_append_of_ne_nil _ (List.cons_ne_nil _ _)]
          intro hh
          have hmem := List.mem_of_mem_getLast? hh
          rcases List.mem_cons.1 hmem with h1 | h1
          · exact hlt_ne_a h1
          · exact getLast_not_mem_dropLast t ht htnd h1
        unfold tot pend
        simp only [hnewlast, if_false, hacc, List.count_append, List.count_cons]
        by_cases hv : v = a
        · simp [hv] at hcount ⊢; omega
        · have : ¬ (a = v) := fun hh => hv hh.symm
          simp [hv, this] at hcount ⊢; omega

theorem tot_fold (v : P) : ∀ (rs : List (List P)) (acc : List P) (e : P) (out : List P), LinkedFrom e rs →
    rs.foldlM (fun acc nv => (cleanupNewVerticesF nv acc.getLast?).map (acc ++ ·)) acc = some out →
    tot out (lastE e rs) v = tot acc e v + (rs.flatMap List.tail).count v
  | [], acc, e, out, _, h => by
    simp only [List.foldlM_nil, Option.pure_def, Option.some.injEq] at h; subst h
    simp [lastE]
  | r :: rs, acc, e, out, hl, h => by
    obtain ⟨hne, hnd, hhead, hrest⟩ := hl
    rw [List.foldlM_cons] at h
    cases hc : cleanupNewVerticesF r acc.getLast? with
    | none => simp [hc] at h
    | some nv =>
      simp only [hc, Option.map_some, Option.bind_eq_bind, Option.bind_some] at h
      have ih := tot_fold v rs (acc ++ nv) (r.getLast hne) out hrest h
      have hs := tot_step acc e r hne hnd hhead nv hc v
      simp only [lastE, hne, dite_false, List.flatMap_cons, List.count_append]
      rw [ih, hs]; omega

/-- **the chain of a closed ring, without its closing duplicate, has exactly the hits as its vertices, with multiplicity**
(for a chain of at least two vertices) -/
theorem chain_count_eq_hits (routed : List (List P)) (h0 : P) (hl : LinkedFrom h0 routed) (hclosed : lastE h0 routed = h0)
    (chain : List P) (hj : joinChain routed = some chain) (hlen : 2 ≤ chain.length) (hhead : chain.head? = some h0) (v : P) :
    (if chain.length > 1 && chain.head? == chain.getLast? then chain.dropLast else chain).count v = (ringHits routed).count v := by
  have ht := tot_fold v routed [] h0 chain hl (by unfold joinChain at hj; exact hj)
  rw [hclosed] at ht
  unfold tot pend at ht
  simp only [List.getLast?_nil, List.count_nil, Nat.zero_add] at ht
  unfold ringHits
  have hne : chain ≠ [] := by intro h; rw [h] at hlen; simp at hlen
  by_cases hlast : chain.getLast? = some h0
  · have hcond : (decide (chain.length > 1) && chain.head? == chain.getLast?) = true := by
      rw [hhead, hlast]; simp; omega
    rw [if_pos hcond]
    simp only [hlast, if_true, Nat.add_zero] at ht
    have hgl : chain.getLast hne = h0 := by
      have := List.getLast?_eq_some_getLast hne
      rw [hlast] at this; exact (Option.some.inj this).symm
    have := count_dropLast_add chain hne v
    rw [hgl] at this
    have hnone : (none : Option P) ≠ some h0 := by simp
    simp only [hnone, if_false] at ht
    omega
  · have hcond : ¬ ((decide (chain.length > 1) && chain.head? == chain.getLast?) = true) := by
      rw [hhead]
      simp only [Bool.and_eq_true, decide_eq_true_eq, beq_iff_eq, not_and]
      intro _ hh; exact hlast hh.symm
    rw [if_neg hcond]
    have hnone : (none : Option P) ≠ some h0 := by simp
    simp only [hlast, if_false, hnone] at ht
    omega

/-! ### the routed edges of a ring are linked and close up -/

theorem linkedFrom_map (pix : Pt → P) (f : Seg → List P) : ∀ (E : List Seg),
    (∀ s ∈ E, ∃ hne : f s ≠ [], (f s).Nodup ∧ (f s).head? = some (pix s.p1) ∧ (f s).getLast hne = pix s.p2) →
    List.IsChain (fun (s s' : Seg) => s.p2 = s'.p1) E → ∀ e, (∀ s, E.head? = some s → pix s.p1 = e) →
    LinkedFrom e (E.map f) ∧ lastE e (E.map f) = (E.getLast?.map (fun s => pix s.p2)).getD e
  | [], _, _, e, _ => ⟨trivial, rfl⟩
  | s :: rest, hall, hch, e, he => by
    obtain ⟨hne, hnd, hhead, hlast⟩ := hall s List.mem_cons_self
    have hrest := linkedFrom_map pix f rest (fun x hx => hall x (List.mem_cons_of_mem _ hx)) hch.tail (pix s.p2) (by
      intro s' hs'
      cases rest with
      | nil => cases hs'
      | cons r rs =>
        simp only [List.head?_cons, Option.some.injEq] at hs'; subst hs'
        have := (List.isChain_cons_cons.1 hch).1
        rw [this])
    have he' : pix s.p1 = e := he s rfl
    refine ⟨⟨hne, hnd, by rw [hhead, he'], by rw [hlast]; exact hrest.1⟩, ?_⟩
    simp only [List.map_cons, lastE, hne, dite_false]
    rw [hlast, hrest.2]
    cases rest with
    | nil => simp
    | cons r rs =>
      rw [List.getLast?_cons_cons, List.getLast?_eq_some_getLast (List.cons_ne_nil r rs)]
      simp

/-- the pixel, on level `l`, of a vertex -/
def pixOf (g : Grid) (l : Nat) (v : Pt) : P := match deepestAddr g v with | some a => (a.up g l).toP | none => (0, 0)

theorem toP_injective : Function.Injective Quad.toP := by
  intro a b h
  unfold Quad.toP at h
  simp only [Prod.mk.injEq, Int.natCast_inj] at h
  cases a; cases b; simp_all

/-- the routed edges of a ring whose vertices are all in the index: each list non-empty and without repetition, each starting in the pixel
where the one before ended, the last one ending in the pixel of the first vertex -/
theorem routeRing_linked (g : Grid) (hres : 0 < g.res) (rings : List (List Pt)) (addrs : List Quad)
    (hins : insertAll g rings = some addrs) (v0 : Pt) (vs : List Pt) (hring : ∀ v ∈ v0 :: vs, v ∈ rings.flatten) (l : Nat) (hl : l ≤ g.depth) :
    LinkedFrom (pixOf g l v0) (routeRing g (hotOf g addrs) l (v0 :: vs)) ∧
      lastE (pixOf g l v0) (routeRing g (hotOf g addrs) l (v0 :: vs)) = pixOf g l v0 := by
  have haddr : ∀ v ∈ v0 :: vs, ∃ a, deepestAddr g v = some a ∧ a ∈ addrs := by
    intro v hv
    unfold insertAll at hins
    exact mapM_mem_some _ _ _ hins _ (hring v hv)
  let f : Seg → List P := fun s => (snapLevel lineIntersects g (hotOf g addrs) s l).map Quad.toP
  have hall : ∀ s ∈ ringEdges (v0 :: vs), ∃ hne : f s ≠ [], (f s).Nodup ∧ (f s).head? = some (pixOf g l s.p1) ∧ (f s).getLast hne = pixOf g l s.p2 := by
    intro s hs
    obtain ⟨a, ha1, ha2⟩ := haddr _ (ringEdges_start_mem _ s hs)
    obtain ⟨b, hb1, hb2⟩ := haddr _ (ringEdges_end_mem _ s hs)
    have hhead := routed_head g hres addrs s a ha1 ha2 l hl
    have hlast := routed_last g hres addrs s b hb1 hb2 l hl
    have hne : f s ≠ [] := by
      intro h0
      simp only [f, List.map_eq_nil_iff] at h0
      rw [h0] at hhead; cases hhead
    refine ⟨hne, ?_, ?_, ?_⟩
    · have spec := C02_routing g (hotOf g addrs) s hres (hotOf_closed g addrs) l hl
      have hnd : (snapLevel lineIntersects g (hotOf g addrs) s l).Nodup := by
        refine List.Pairwise.imp_of_mem ?_ spec.2
        intro x y hx _ hprec hxy
        subst hxy
        obtain ⟨_, _, _, t, ht⟩ := (spec.1 x).1 hx
        exact absurd (hprec t t ht ht) (lt_irrefl t)
      exact List.Nodup.map toP_injective hnd
    · simp only [f, List.head?_map, hhead, Option.map_some, pixOf, ha1]
    · have : (f s).getLast? = some (pixOf g l s.p2) := by
        simp only [f, List.getLast?_map, hlast, Option.map_some, pixOf, hb1]
      rw [List.getLast?_eq_some_getLast hne] at this
      exact Option.some.inj this
  obtain ⟨hfirst, hlastE⟩ := ringEdges_closed v0 vs
  have hres' := linkedFrom_map (pixOf g l) f (ringEdges (v0 :: vs)) hall (ringEdges_chain _) (pixOf g l v0) (by
    intro s hs
    rw [hs] at hfirst
    simp only [Option.map_some, Option.some.injEq] at hfirst
    rw [hfirst])
  refine ⟨hres'.1, ?_⟩
  have := hres'.2
  show lastE (pixOf g l v0) ((ringEdges (v0 :: vs)).map f) = pixOf g l v0
  cases hgl : (ringEdges (v0 :: vs)).getLast? with
  | none => rw [hgl] at this; exact this
  | some s =>
    rw [hgl] at this hlastE
    simp only [Option.map_some, Option.some.injEq] at hlastE
    rw [this]
    simp only [Option.map_some, Option.getD_some, hlastE]

end Texel
