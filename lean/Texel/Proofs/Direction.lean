import Texel.Proofs.Output
import Texel.Proofs.Area
/-! Writing a ring of non-zero area in the opposite direction changes nothing: `normaliseRing` brings both to the same list before anything
else looks at the ring, and the point index only depends on the set of vertices. -/
namespace Texel

theorem ptsToPs_reverse (r : List Pt) : ptsToPs r.reverse = (ptsToPs r).reverse := by
  unfold ptsToPs; simp [List.map_reverse]

/-- both directions of a ring with non-zero area are normalised to the same list -/
theorem normaliseRing_reverse (r : List Pt) (cw : Bool) (h : area2 (ptsToPs r) ≠ 0) : normaliseRing r.reverse cw = normaliseRing r cw := by
  unfold normaliseRing
  rw [ptsToPs_reverse]
  have hrev := area2_reverse (ptsToPs r)
  cases cw with
  | false =>
    by_cases hp : 0 ≤ area2 (ptsToPs r)
    · have h1 : windingOK (ptsToPs r) false = true := (windingOK_shell _).2 hp
      have h2 : ¬ (windingOK (ptsToPs r).reverse false = true) := by
        intro hc; have := (windingOK_shell _).1 hc; omega
      rw [if_neg h2, if_pos h1, List.reverse_reverse]
    · have h1 : ¬ (windingOK (ptsToPs r) false = true) := fun hc => hp ((windingOK_shell _).1 hc)
      have h2 : windingOK (ptsToPs r).reverse false = true := (windingOK_shell _).2 (by omega)
      rw [if_pos h2, if_neg h1]
  | true =>
    by_cases hp : area2 (ptsToPs r) ≤ 0
    · have h1 : windingOK (ptsToPs r) true = true := (windingOK_hole _).2 hp
      have h2 : ¬ (windingOK (ptsToPs r).reverse true = true) := by
        intro hc; have := (windingOK_hole _).1 hc; omega
      rw [if_neg h2, if_pos h1, List.reverse_reverse]
    · have h1 : ¬ (windingOK (ptsToPs r) true = true) := fun hc => hp ((windingOK_hole _).1 hc)
      have h2 : windingOK (ptsToPs r).reverse true = true := (windingOK_hole _).2 (by omega)
      rw [if_pos h2, if_neg h1]

/-- `rings'` is `rings` with any of its rings written in the opposite direction -/
def SomeReversed (rings rings' : List (List Pt)) : Prop := List.Forall₂ (fun r r' => r' = r ∨ r' = r.reverse) rings rings'

theorem processRing_reverse (g : Grid) (hot : Nat → Quad → Bool) (l : Nat) (isOuter : Bool) (r r' : List Pt)
    (h : r' = r ∨ r' = r.reverse) (ha : area2 (ptsToPs r) ≠ 0) : processRing g hot l isOuter r' = processRing g hot l isOuter r := by
  rcases h with h | h
  · rw [h]
  · rw [h]; unfold processRing; rw [normaliseRing_reverse r _ ha]

theorem processHoles_reverse (g : Grid) (hot : Nat → Quad → Bool) (l : Nat) (keep : Bool) (hs hs' : List (List Pt))
    (h : SomeReversed hs hs') (ha : ∀ r ∈ hs, area2 (ptsToPs r) ≠ 0) (a : Acc) :
    processHoles g hot l keep hs' a = processHoles g hot l keep hs a := by
  induction h generalizing a with
  | nil => rfl
  | cons hr _ ih =>
    simp only [processHoles]
    rw [processRing_reverse g hot l false _ _ hr (ha _ List.mem_cons_self)]
    cases processRing g hot l false _ with
    | error e => rfl
    | ok sp =>
      simp only [bind, Except.bind]
      exact ih (fun r hr => ha r (List.mem_cons_of_mem _ hr)) _

theorem levelAcc_reverse (g : Grid) (hot : Nat → Quad → Bool) (keep : Bool) (l : Nat) (rings rings' : List (List Pt))
    (h : SomeReversed rings rings') (ha : ∀ r ∈ rings, area2 (ptsToPs r) ≠ 0) :
    levelAcc g hot keep l rings' = levelAcc g hot keep l rings := by
  cases h with
  | nil => rfl
  | cons hr hrest =>
    unfold levelAcc
    simp only
    rw [processRing_reverse g hot l true _ _ hr (ha _ List.mem_cons_self)]
    cases processRing g hot l true _ with
    | error e => rfl
    | ok sp =>
      simp only [bind, Except.bind]
      rw [processHoles_reverse g hot l keep _ _ hrest (fun r hr => ha r (List.mem_cons_of_mem _ hr))]

theorem processLevel_reverse (g : Grid) (hot : Nat → Quad → Bool) (cfg : Config) (l : Nat) (rings rings' : List (List Pt))
    (h : SomeReversed rings rings') (ha : ∀ r ∈ rings, area2 (ptsToPs r) ≠ 0) :
    processLevel g hot cfg l rings' = processLevel g hot cfg l rings := by
  unfold processLevel
  rw [levelAcc_reverse g hot cfg.keep l rings rings' h ha]

theorem processLevels_reverse (g : Grid) (hot : Nat → Quad → Bool) (cfg : Config) (rings rings' : List (List Pt)) (levels : List Nat)
    (h : SomeReversed rings rings') (ha : ∀ r ∈ rings, area2 (ptsToPs r) ≠ 0) :
    processLevels g hot cfg rings' levels = processLevels g hot cfg rings levels := by
  induction levels with
  | nil => rfl
  | cons l ls ih => simp only [processLevels]; rw [processLevel_reverse g hot cfg l rings rings' h ha, ih]

theorem someReversed_mem (rings rings' : List (List Pt)) (h : SomeReversed rings rings') (v : Pt) : v ∈ rings'.flatten ↔ v ∈ rings.flatten := by
  induction h with
  | nil => simp
  | cons hr _ ih =>
    simp only [List.flatten_cons, List.mem_append, ih]
    rcases hr with hr | hr <;> simp [hr]

theorem mapM_isSome_iff {α β} (f : α → Option β) (l : List α) : (l.mapM f).isSome = true ↔ ∀ a ∈ l, (f a).isSome = true := by
  constructor
  · intro h a ha
    obtain ⟨out, hout⟩ := Option.isSome_iff_exists.1 h
    obtain ⟨b, hb, _⟩ := mapM_mem_some f l out hout a ha
    simp [hb]
  · exact mapM_isSome_of_all f l

theorem hotOf_congr (g : Grid) (a b : List Quad) (h : ∀ q, q ∈ a ↔ q ∈ b) : hotOf g a = hotOf g b := by
  funext l p
  unfold hotOf
  rw [Bool.eq_iff_iff, List.any_eq_true, List.any_eq_true]
  constructor
  · rintro ⟨q, hq, hp⟩; exact ⟨q, (h q).1 hq, hp⟩
  · rintro ⟨q, hq, hp⟩; exact ⟨q, (h q).2 hq, hp⟩

/-- **independent of the direction the rings are written in** (`snapPolygonF`, every ring of non-zero area, every grid, levels and flags) -/
theorem snapPolygonF_reverse (g : Grid) (rings rings' : List (List Pt)) (levels : List Nat) (cfg : Config)
    (h : SomeReversed rings rings') (ha : ∀ r ∈ rings, area2 (ptsToPs r) ≠ 0) :
    snapPolygonF g rings' levels cfg = snapPolygonF g rings levels cfg := by
  unfold snapPolygonF insertAll
  have hmem := someReversed_mem rings rings' h
  cases h1 : rings.flatten.mapM (deepestAddr g) with
  | none =>
    cases h2 : rings'.flatten.mapM (deepestAddr g) with
    | none => rfl
    | some out' =>
      have : (rings'.flatten.mapM (deepestAddr g)).isSome = true := by simp [h2]
      rw [mapM_isSome_iff] at this
      have : (rings.flatten.mapM (deepestAddr g)).isSome = true := by
        rw [mapM_isSome_iff]; intro a ha'; exact this a ((hmem a).2 ha')
      simp [h1] at this
  | some out =>
    cases h2 : rings'.flatten.mapM (deepestAddr g) with
    | none =>
      have : (rings.flatten.mapM (deepestAddr g)).isSome = true := by simp [h1]
      rw [mapM_isSome_iff] at this
      have : (rings'.flatten.mapM (deepestAddr g)).isSome = true := by
        rw [mapM_isSome_iff]; intro a ha'; exact this a ((hmem a).1 ha')
      simp [h2] at this
    | some out' =>
      simp only
      have hq : ∀ q, q ∈ out' ↔ q ∈ out := by
        intro q
        constructor
        · intro hq
          obtain ⟨u, hu, huq⟩ := mapM_out_mem _ _ _ h2 q hq
          obtain ⟨b, hb1, hb2⟩ := mapM_mem_some _ _ _ h1 u ((hmem u).1 hu)
          rw [huq] at hb1; cases hb1; exact hb2
        · intro hq
          obtain ⟨u, hu, huq⟩ := mapM_out_mem _ _ _ h1 q hq
          obtain ⟨b, hb1, hb2⟩ := mapM_mem_some _ _ _ h2 u ((hmem u).2 hu)
          rw [huq] at hb1; cases hb1; exact hb2
      rw [hotOf_congr g out' out hq, processLevels_reverse g _ cfg rings rings' levels h ha]

end Texel
