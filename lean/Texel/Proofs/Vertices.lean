import Texel.Proofs.Chain
import Texel.Proofs.SnapF
/-! Every vertex of everything `snapPolygonF` returns is a routed pixel: the lift of `cleanupNewRingF_V`, `dedupeF_V`, `matchF_V` through
`processRing`, `processHoles`, `levelAcc`, `assembleCore`, `finishLevel`, `processLevel`, `processLevels`. -/
namespace Texel

theorem cleanupNewVerticesF_subset (nv : List P) (last : Option P) (out : List P) (h : cleanupNewVerticesF nv last = some out) : ∀ v ∈ out, v ∈ nv := by
  unfold cleanupNewVerticesF at h
  cases nv with
  | nil => cases h
  | cons a as =>
    simp only [Option.some.injEq] at h
    subst h
    intro v hv
    have hsub : ∀ x ∈ (if 1 < (a :: as).length then (a :: as).dropLast else a :: as), x ∈ a :: as := by
      intro x hx
      split at hx
      · exact (List.dropLast_sublist _).subset hx
      · exact hx
    generalize (if 1 < (a :: as).length then (a :: as).dropLast else a :: as) = nv' at hsub hv
    split at hv
    · exact hsub v (List.mem_of_mem_tail hv)
    · exact hsub v hv

theorem joinChain_subset (routed : List (List P)) (chain : List P) (h : joinChain routed = some chain) : ∀ v ∈ chain, ∃ r ∈ routed, v ∈ r := by
  unfold joinChain at h
  have key : ∀ (rs : List (List P)) (acc out : List P),
      rs.foldlM (fun acc nv => (cleanupNewVerticesF nv acc.getLast?).map (acc ++ ·)) acc = some out →
      ∀ v ∈ out, v ∈ acc ∨ ∃ r ∈ rs, v ∈ r := by
    intro rs
    induction rs with
    | nil => intro acc out h v hv; simp only [List.foldlM_nil, Option.pure_def, Option.some.injEq] at h; subst h; exact Or.inl hv
    | cons r rest ih =>
      intro acc out h v hv
      rw [List.foldlM_cons] at h
      cases hc : cleanupNewVerticesF r acc.getLast? with
      | none => simp [hc] at h
      | some nv =>
        simp only [hc, Option.map_some, Option.bind_eq_bind, Option.bind_some] at h
        rcases ih (acc ++ nv) out h v hv with h1 | h1
        · rcases List.mem_append.1 h1 with h2 | h2
          · exact Or.inl h2
          · exact Or.inr ⟨r, List.mem_cons_self, cleanupNewVerticesF_subset r _ nv hc v h2⟩
        · obtain ⟨r', hr', hv'⟩ := h1
          exact Or.inr ⟨r', List.mem_cons_of_mem _ hr', hv'⟩
  intro v hv
  rcases key routed [] chain h v hv with h1 | h1
  · cases h1
  · exact h1

/-- `v` is a pixel some edge of `ring` (in either orientation) is routed through on level `l` -/
def RoutedIn (g : Grid) (hot : Nat → Quad → Bool) (l : Nat) (ring : List Pt) (v : P) : Prop :=
  ∃ cw, ∃ s ∈ ringEdges (normaliseRing ring cw), ∃ q ∈ snapLevel lineIntersects g hot s l, v = q.toP

/-- … of some ring of the polygon -/
def Routed (g : Grid) (hot : Nat → Quad → Bool) (l : Nat) (rings : List (List Pt)) (v : P) : Prop := ∃ ring ∈ rings, RoutedIn g hot l ring v

theorem processRing_V (g : Grid) (hot : Nat → Quad → Bool) (l : Nat) (isOuter : Bool) (ring : List Pt) (sp : Split)
    (h : processRing g hot l isOuter ring = .ok sp) : SplitV (RoutedIn g hot l ring) sp := by
  unfold processRing at h
  simp only at h
  cases hj : joinChain (routeRing g hot l (normaliseRing ring (!isOuter))) with
  | none => rw [hj] at h; cases h
  | some chain =>
    rw [hj] at h
    simp only at h
    apply cleanupNewRingF_V (RoutedIn g hot l ring) chain isOuter _ sp _ h
    intro v hv
    obtain ⟨r, hr, hvr⟩ := joinChain_subset _ chain hj v hv
    unfold routeRing at hr
    simp only [List.mem_map] at hr
    obtain ⟨s, hs, rfl⟩ := hr
    simp only [List.mem_map] at hvr
    obtain ⟨q, hq, rfl⟩ := hvr
    exact ⟨!isOuter, s, hs, q, hq, rfl⟩

/-- all rings collected so far have only vertices satisfying `V` -/
def AccV (V : P → Prop) (a : Acc) : Prop :=
  (∀ r ∈ a.outers, ∀ v ∈ r, V v) ∧ (∀ r ∈ a.inners, ∀ v ∈ r, V v) ∧ (∀ r ∈ a.pls, ∀ v ∈ r, V v)

theorem acc_add_V (V : P → Prop) (a : Acc) (sp : Split) (keep : Bool) (ha : AccV V a) (hs : SplitV V sp) : AccV V (a.add sp keep) := by
  obtain ⟨a1, a2, a3⟩ := ha
  obtain ⟨s1, s2, s3⟩ := hs
  unfold Acc.add
  refine ⟨?_, ?_, ?_⟩
  · intro r hr; simp only at hr; rcases Array.mem_append.1 hr with h | h
    · exact a1 r h
    · exact s1 r h
  · intro r hr; simp only at hr; rcases Array.mem_append.1 hr with h | h
    · exact a2 r h
    · exact s2 r h
  · intro r hr; simp only at hr
    split at hr
    · rcases Array.mem_append.1 hr with h | h
      · exact a3 r h
      · exact s3 r h
    · exact a3 r hr

theorem splitV_mono (V W : P → Prop) (hVW : ∀ v, V v → W v) (sp : Split) (h : SplitV V sp) : SplitV W sp :=
  ⟨fun r hr v hv => hVW v (h.1 r hr v hv), fun r hr v hv => hVW v (h.2.1 r hr v hv), fun r hr v hv => hVW v (h.2.2 r hr v hv)⟩

theorem processHoles_V (g : Grid) (hot : Nat → Quad → Bool) (l : Nat) (keep : Bool) (V : P → Prop) (holes : List (List Pt))
    (hV : ∀ h ∈ holes, ∀ v, RoutedIn g hot l h v → V v) (a a' : Acc) (ha : AccV V a)
    (h : processHoles g hot l keep holes a = .ok a') : AccV V a' := by
  induction holes generalizing a with
  | nil => simp only [processHoles, Except.ok.injEq] at h; subst h; exact ha
  | cons hd tl ih =>
    simp only [processHoles, bind, Except.bind] at h
    split at h
    · cases h
    · rename_i sp hsp
      exact ih (fun x hx => hV x (List.mem_cons_of_mem _ hx)) (a.add sp keep)
        (acc_add_V V a sp keep ha (splitV_mono _ V (hV hd List.mem_cons_self) sp (processRing_V g hot l false hd sp hsp))) h

theorem levelAcc_V (g : Grid) (hot : Nat → Quad → Bool) (keep : Bool) (l : Nat) (rings : List (List Pt)) (acc : Acc)
    (h : levelAcc g hot keep l rings = .ok (some acc)) : AccV (Routed g hot l rings) acc := by
  unfold levelAcc at h
  cases rings with
  | nil => simp only [Except.ok.injEq, Option.some.injEq] at h; subst h; exact ⟨by intro r hr; simp at hr, by intro r hr; simp at hr, by intro r hr; simp at hr⟩
  | cons outer holes =>
    simp only [bind, Except.bind] at h
    split at h
    · cases h
    · rename_i sp hsp
      split at h
      · simp [pure, Except.pure] at h
      · split at h
        · cases h
        · rename_i a' ha'
          simp only [pure, Except.pure, Except.ok.injEq, Option.some.injEq] at h
          subst h
          apply processHoles_V g hot l keep (Routed g hot l (outer :: holes)) holes
            (fun hh hhm v hv => ⟨hh, List.mem_cons_of_mem _ hhm, hv⟩) _ a' _ ha'
          apply acc_add_V
          · exact ⟨by intro r hr; simp at hr, by intro r hr; simp at hr, by intro r hr; simp at hr⟩
          · exact splitV_mono _ _ (fun v hv => ⟨outer, List.mem_cons_self, hv⟩) sp (processRing_V g hot l true outer sp hsp)

theorem assembleCore_V (V : P → Prop) (a : Acc) (core : Array Poly) (ha : AccV V a) (h : assembleCore a = .ok core) : PolysV V core.toList := by
  unfold assembleCore at h
  simp only [bind, Except.bind] at h
  split at h
  · cases h
  · rename_i oi hoi
    obtain ⟨o, i⟩ := oi
    simp only [pure, Except.pure, Except.ok.injEq] at h
    subst h
    obtain ⟨ho, hi⟩ := dedupeF_V V a.outers a.inners o i (fun r hr => ha.1 r (by simpa using hr)) (fun r hr => ha.2.1 r (by simpa using hr)) hoi
    apply matchF_V V _ i _ hi
    intro pg hpg r hr v hv
    simp only [Array.toList_map, List.mem_map] at hpg
    obtain ⟨r0, hr0, rfl⟩ := hpg
    have : r = r0 := by simpa using hr
    subst this
    exact ho r hr0 v hv

theorem finishLevel_V (V : P → Prop) (rev : Bool) (core : Array Poly) (pls : Array (Array P)) (polys : Array Poly)
    (hc : PolysV V core.toList) (hp : ∀ r ∈ pls, ∀ v ∈ r, V v) (h : finishLevel rev core pls = some polys) : PolysV V polys.toList := by
  obtain ⟨hpolys, _⟩ := finishLevel_some rev core pls polys h
  subst hpolys
  intro pg hpg r hr v hv
  simp only [Array.toList_append, List.mem_append] at hpg
  rcases hpg with h1 | h1
  · split at h1
    · unfold reversePolys at h1
      simp only [Array.toList_map, List.mem_map] at h1
      obtain ⟨pg0, hpg0, rfl⟩ := h1
      simp only [Array.mem_map] at hr
      obtain ⟨r0, hr0, rfl⟩ := hr
      exact hc pg0 hpg0 r0 hr0 v (by simpa using hv)
    · exact hc pg h1 r hr v hv
  · simp only [Array.toList_map, List.mem_map] at h1
    obtain ⟨pl, hpl, rfl⟩ := h1
    have : r = pl := by simpa using hr
    subst this
    exact hp r (by simpa using hpl) v hv

/-- **every vertex of every returned ring is a routed pixel** of some edge of some ring of the input polygon, on that level -/
theorem processLevel_V (g : Grid) (hot : Nat → Quad → Bool) (cfg : Config) (l : Nat) (rings : List (List Pt)) (polys : Array Poly)
    (h : processLevel g hot cfg l rings = .ok (some polys)) : PolysV (Routed g hot l rings) polys.toList := by
  obtain ⟨acc, core, hacc, hcore, hfin⟩ := processLevel_some g hot cfg l rings polys h
  have ha := levelAcc_V g hot cfg.keep l rings acc hacc
  exact finishLevel_V _ cfg.reverse core acc.pls polys (assembleCore_V _ acc core ha hcore) ha.2.2 hfin

end Texel
