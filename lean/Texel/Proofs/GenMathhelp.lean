import Texel.Gen.Mathhelp
import Texel.Gen.Lineint
/-! # The integer helpers under the pixel test and the address arithmetic do what the model takes them to do

`Texel.Gen.MH` is regenerated on every run by `trgen mathhelp` from `mathhelp/mathhelp.go` (a small translator of pure integer functions:
definitions, `if`, tagless `switch`, `return`, over `Int`; `bits.Mul64` is the pair of 64-bit halves of the exact product). Proved here for all
integers: `FloorDiv` is the flooring division the model uses in `deepestAddr` (`Int.fdiv`), and `CmpProducts(a, b, c, d)` — sign and 128-bit
magnitude of each product, compared half by half — is the sign of `a·b − c·d`, which is how `trgen lineint` and the model read it. Core-only. -/
namespace Texel.GenMathhelp
open Texel.Gen.MH

theorem gen_floorDiv (n d : Int) (hd : d ≠ 0) : floorDiv n d = Int.fdiv n d := by
  unfold floorDiv
  simp only
  rw [Int.fdiv_eq_ediv, Int.tdiv_eq_ediv, Int.tmod_eq_emod]
  by_cases hD : d ∣ n
  · have h0 : n % d = 0 := Int.emod_eq_zero_of_dvd hD
    simp [hD, h0]
  · have h0 : n % d ≠ 0 := fun h => hD (Int.dvd_of_emod_eq_zero h)
    simp only [hD, or_false]
    rcases Int.lt_or_gt_of_ne hd with hdn | hdp
    · have hs : d.sign = -1 := Int.sign_eq_neg_one_of_neg hdn
      have hna : (d.natAbs : Int) = -d := by omega
      by_cases hn : 0 ≤ n
      · have e1 : decide (n < 0) = false := by simp; omega
        have e2 : decide (d < 0) = true := by simp; omega
        have e3 : ¬ (0 ≤ d) := by omega
        simp [hn, e1, e2, e3, h0]
      · have e1 : decide (n < 0) = true := by simp; omega
        have e2 : decide (d < 0) = true := by simp; omega
        have e3 : ¬ (0 ≤ d) := by omega
        simp [hn, e1, e2, e3, hs]
        omega
    · have hs : d.sign = 1 := Int.sign_eq_one_of_pos hdp
      have hna : (d.natAbs : Int) = d := by omega
      by_cases hn : 0 ≤ n
      · have e1 : decide (n < 0) = false := by simp; omega
        have e2 : decide (d < 0) = false := by simp; omega
        have e3 : (0 ≤ d) := by omega
        simp [hn, e1, e2, e3]
      · have e1 : decide (n < 0) = true := by simp; omega
        have e2 : decide (d < 0) = false := by simp; omega
        have e3 : (0 ≤ d) := by omega
        have hmod : n % d - d ≠ 0 := by
          have := Int.emod_lt_of_pos n hdp
          omega
        simp [hn, e1, e2, e3, hs, hna, hmod]

/-- sign and magnitude of a product, as `mul128` computes them from the signs and absolute values of the factors -/
theorem mag_spec (a b : Int) :
    0 ≤ abs64 a * abs64 b ∧
    (decide ((decide (a < 0)) ≠ (decide (b < 0))) = true → abs64 a * abs64 b = -(a * b)) ∧
    (decide ((decide (a < 0)) ≠ (decide (b < 0))) = false → abs64 a * abs64 b = a * b) := by
  have ea : abs64 a = if a < 0 then -a else a := by unfold abs64; simp
  have eb : abs64 b = if b < 0 then -b else b := by unfold abs64; simp
  rw [ea, eb]
  by_cases ha : a < 0 <;> by_cases hb : b < 0 <;> simp only [ha, hb, decide_true, decide_false, if_true, if_false]
  · refine ⟨Int.mul_nonneg (by omega) (by omega), by simp, fun _ => Int.neg_mul_neg a b⟩
  · refine ⟨Int.mul_nonneg (by omega) (by omega), fun _ => Int.neg_mul a b, by simp⟩
  · refine ⟨Int.mul_nonneg (by omega) (by omega), fun _ => Int.mul_neg a b, by simp⟩
  · refine ⟨Int.mul_nonneg (by omega) (by omega), by simp, fun _ => trivial⟩

/-- the decision tree of `CmpProducts` on signs and 64-bit halves: with `P = hi·2^64 + lo`, `Q = …` the magnitudes of `X` and `Y` -/
theorem tree_spec (X Y P Q lHi lLo rHi rLo : Int) (lNeg rNeg : Bool)
    (hP : 0 ≤ P) (hQ : 0 ≤ Q) (hlx : lNeg = true → P = -X) (hlx' : lNeg = false → P = X) (hry : rNeg = true → Q = -Y) (hry' : rNeg = false → Q = Y)
    (h1 : 18446744073709551616 * lHi + lLo = P) (h2 : 0 ≤ lLo) (h3 : lLo < 18446744073709551616)
    (k1 : 18446744073709551616 * rHi + rLo = Q) (k2 : 0 ≤ rLo) (k3 : rLo < 18446744073709551616) :
    (if ((decide (lHi = 0) && decide (lLo = 0)) && (decide (rHi = 0) && decide (rLo = 0))) = true then (0 : Int)
     else if (decide (lHi = 0) && decide (lLo = 0)) = true then (if rNeg = true then 1 else -1)
     else if (decide (rHi = 0) && decide (rLo = 0)) = true then (if lNeg = true then -1 else 1)
     else if decide (lNeg ≠ rNeg) = true then (if lNeg = true then -1 else 1)
     else
       let mag : Int := if decide (lHi ≠ rHi) = true then (if decide (lHi < rHi) = true then -1 else 1)
                        else if decide (lLo ≠ rLo) = true then (if decide (lLo < rLo) = true then -1 else 1) else 0
       if lNeg = true then -mag else mag)
    = Gen.LI.cmpInt X Y := by
  unfold Gen.LI.cmpInt
  cases lNeg <;> cases rNeg <;> simp only [Bool.and_eq_true, decide_eq_true_eq, ne_eq, not_true_eq_false, not_false_eq_true,
    decide_true, decide_false, Bool.false_eq_true, if_true, if_false, reduceCtorEq] at * <;>
  (have := hlx' ; have := hry') <;> simp_all <;> (repeat' split) <;> omega

/-- **`CmpProducts(a, b, c, d)` is the sign of `a·b − c·d`**, for all integers (no overflow anywhere: the magnitudes are 128 bits wide) -/
theorem gen_cmpProducts (a b c d : Int) : cmpProducts a b c d = Gen.LI.cmpInt (a * b) (c * d) := by
  obtain ⟨hP, hl, hl'⟩ := mag_spec a b
  obtain ⟨hQ, hr, hr'⟩ := mag_spec c d
  have e : (2 : Int) ^ 64 = 18446744073709551616 := by decide
  have h1 := Int.mul_ediv_add_emod (abs64 a * abs64 b) 18446744073709551616
  have h2 := Int.emod_nonneg (abs64 a * abs64 b) (by decide : (18446744073709551616 : Int) ≠ 0)
  have h3 := Int.emod_lt_of_pos (abs64 a * abs64 b) (by decide : (0 : Int) < 18446744073709551616)
  have k1 := Int.mul_ediv_add_emod (abs64 c * abs64 d) 18446744073709551616
  have k2 := Int.emod_nonneg (abs64 c * abs64 d) (by decide : (18446744073709551616 : Int) ≠ 0)
  have k3 := Int.emod_lt_of_pos (abs64 c * abs64 d) (by decide : (0 : Int) < 18446744073709551616)
  have := tree_spec (a * b) (c * d) (abs64 a * abs64 b) (abs64 c * abs64 d) _ _ _ _ _ _ hP hQ hl hl' hr hr' h1 h2 h3 k1 k2 k3
  rw [← this]
  unfold cmpProducts mul128 mul64
  simp only [e]

-- non-vacuity: products beyond 64 bits (2^62·2^62 against 2^62·(2^62+1)), mixed signs, zero; flooring of a negative quotient
example : cmpProducts 4611686018427387904 4611686018427387904 4611686018427387904 4611686018427387905 = -1 := by decide
example : cmpProducts (-3) 5 2 (-8) = 1 ∧ cmpProducts 0 7 (-1) 1 = 1 ∧ cmpProducts (-2) 3 3 (-2) = 0 := by decide
example : floorDiv (-7) 2 = -4 ∧ floorDiv 7 2 = 3 ∧ floorDiv (-8) 2 = -4 := by decide

end Texel.GenMathhelp
