import Texel.Proofs.RouteFinal
/-! The straight line between the centres of two pixels an input edge is routed through stays within half a pixel (Chebyshev distance) of
that edge: both centres are within half a pixel of a point of the edge (the edge passes through their pixels), and the distance to a
segment is convex. -/
namespace Texel

/-- exact centre of pixel `p` on level `l` (the coordinate handed out is this, rounded down by at most half a unit on the deepest level) -/
def Grid.cx (g : Grid) (l : Nat) (p : Quad) : ℚ := (g.minX : ℚ) + p.x * g.span l + (g.span l : ℚ) / 2
def Grid.cy (g : Grid) (l : Nat) (p : Quad) : ℚ := (g.minY : ℚ) + p.y * g.span l + (g.span l : ℚ) / 2

/-- a routed pixel's centre is within half a pixel, in both axes, of some point of the edge -/
theorem routed_centre_near (g : Grid) (hot : Nat → Quad → Bool) (L : Seg) (hres : 0 < g.res) (hclosed : HotClosed g.depth hot)
    (l : Nat) (hl : l ≤ g.depth) (p : Quad) (hp : p ∈ snapLevel lineIntersects g hot L l) :
    ∃ t : ℚ, 0 ≤ t ∧ t ≤ 1 ∧ |g.cx l p - L.X t| ≤ (g.span l : ℚ) / 2 ∧ |g.cy l p - L.Y t| ≤ (g.span l : ℚ) / 2 := by
  obtain ⟨_, _, _, t, h0, h1, hx0, hx1, hy0, hy1⟩ := ((C02_routing g hot L hres hclosed l hl).1 p).1 hp
  refine ⟨t, h0, h1, ?_, ?_⟩
  · unfold Grid.cx
    unfold Grid.box at hx0 hx1
    simp only at hx0 hx1
    push_cast at hx0 hx1
    rw [abs_le]; constructor <;> linarith
  · unfold Grid.cy
    unfold Grid.box at hy0 hy1
    simp only at hy0 hy1
    push_cast at hy0 hy1
    rw [abs_le]; constructor <;> linarith

theorem seg_X_affine (L : Seg) (s a b : ℚ) : L.X ((1 - s) * a + s * b) = (1 - s) * L.X a + s * L.X b := by
  unfold Seg.X; ring
theorem seg_Y_affine (L : Seg) (s a b : ℚ) : L.Y ((1 - s) * a + s * b) = (1 - s) * L.Y a + s * L.Y b := by
  unfold Seg.Y; ring

theorem convex_near (s ca cb xa xb r : ℚ) (h0 : 0 ≤ s) (h1 : s ≤ 1) (ha : |ca - xa| ≤ r) (hb : |cb - xb| ≤ r) :
    |((1 - s) * ca + s * cb) - ((1 - s) * xa + s * xb)| ≤ r := by
  rw [abs_le] at ha hb ⊢
  have e : ((1 - s) * ca + s * cb) - ((1 - s) * xa + s * xb) = (1 - s) * (ca - xa) + s * (cb - xb) := by ring
  rw [e]
  have hs' : 0 ≤ 1 - s := by linarith
  constructor
  · nlinarith [mul_le_mul_of_nonneg_left ha.1 hs', mul_le_mul_of_nonneg_left hb.1 h0]
  · nlinarith [mul_le_mul_of_nonneg_left ha.2 hs', mul_le_mul_of_nonneg_left hb.2 h0]

/-- **every point of the straight line between the centres of two pixels routed for the same edge lies within half a pixel of that edge**
(both axes, i.e. Chebyshev distance; any level, any hot set, ties included) -/
theorem routed_run_within_half_pixel (g : Grid) (hot : Nat → Quad → Bool) (L : Seg) (hres : 0 < g.res) (hclosed : HotClosed g.depth hot)
    (l : Nat) (hl : l ≤ g.depth) (p q : Quad) (hp : p ∈ snapLevel lineIntersects g hot L l) (hq : q ∈ snapLevel lineIntersects g hot L l)
    (s : ℚ) (hs0 : 0 ≤ s) (hs1 : s ≤ 1) :
    ∃ t : ℚ, 0 ≤ t ∧ t ≤ 1 ∧
      |((1 - s) * g.cx l p + s * g.cx l q) - L.X t| ≤ (g.span l : ℚ) / 2 ∧
      |((1 - s) * g.cy l p + s * g.cy l q) - L.Y t| ≤ (g.span l : ℚ) / 2 := by
  obtain ⟨tp, tp0, tp1, hpx, hpy⟩ := routed_centre_near g hot L hres hclosed l hl p hp
  obtain ⟨tq, tq0, tq1, hqx, hqy⟩ := routed_centre_near g hot L hres hclosed l hl q hq
  have hs' : 0 ≤ 1 - s := by linarith
  refine ⟨(1 - s) * tp + s * tq, by nlinarith [mul_nonneg hs' tp0, mul_nonneg hs0 tq0], ?_, ?_, ?_⟩
  · nlinarith [mul_le_mul_of_nonneg_left tp1 hs', mul_le_mul_of_nonneg_left tq1 hs0]
  · rw [seg_X_affine]; exact convex_near s _ _ _ _ _ hs0 hs1 hpx hqx
  · rw [seg_Y_affine]; exact convex_near s _ _ _ _ _ hs0 hs1 hpy hqy

end Texel
