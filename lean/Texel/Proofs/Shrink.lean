import Mathlib.Tactic.Linarith
import Mathlib.Algebra.Order.Field.Basic
import Mathlib.Algebra.Order.Field.Rat
import Mathlib.Algebra.Order.AbsoluteValue.Basic
namespace Texel

/-! `shrink_avoids`, algebraic core (one coordinate): a point `v` at distance ≥ ρ from a pixel centre (here 0) in
    this coordinate, whose companion `z` on the link is within ½ of it, stays at distance ≥ ρ − τ/2 while moving
    linearly to `z`. With ρ = ½: never reaches the centre before τ = 1. -/

theorem shrink_coord (v z τ ρ : ℚ) (hτ0 : 0 ≤ τ) (hτ1 : τ ≤ 1) (hv : ρ ≤ v) (hz : v - z ≤ 1/2) :
    ρ - τ / 2 ≤ (1 - τ) * v + τ * z := by
  have h1 : (1 - τ) * ρ ≤ (1 - τ) * v := mul_le_mul_of_nonneg_left hv (by linarith)
  have h2 : τ * (ρ - 1/2) ≤ τ * z := mul_le_mul_of_nonneg_left (by linarith) hτ0
  nlinarith

theorem shrink_coord_neg (v z τ ρ : ℚ) (hτ0 : 0 ≤ τ) (hτ1 : τ ≤ 1) (hv : v ≤ -ρ) (hz : z - v ≤ 1/2) :
    (1 - τ) * v + τ * z ≤ -(ρ - τ / 2) := by
  have := shrink_coord (-v) (-z) τ ρ hτ0 hτ1 (by linarith) (by linarith)
  linarith

/-- never the centre before the end: with ρ = ½ and τ < 1 the moved coordinate is non-zero -/
theorem shrink_ne_zero (v z τ : ℚ) (hτ0 : 0 ≤ τ) (hτ1 : τ < 1) (hv : 1/2 ≤ |v|) (hz : |v - z| ≤ 1/2) :
    (1 - τ) * v + τ * z ≠ 0 := by
  rcases le_abs'.1 hv with h | h
  · have := shrink_coord_neg v z τ (1/2) hτ0 (le_of_lt hτ1) (by linarith) (by have := (abs_le.1 hz).1; linarith)
    intro h0; rw [h0] at this; linarith
  · have := shrink_coord v z τ (1/2) hτ0 (le_of_lt hτ1) h (by have := (abs_le.1 hz).2; linarith)
    intro h0; rw [h0] at this; linarith

#print axioms shrink_ne_zero

end Texel
