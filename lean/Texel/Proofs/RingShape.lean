import Texel.Proofs.Vertices
import Texel.Proofs.Area
/-! Ring-level facts carried through clean-up and assembly, for any three predicates `Ro` (rings that end up as shells), `Ri` (rings that end
up as holes), `Rp` (rings that end up among the points and lines) obeying `RingLaw`: what `classify` decides from the winding order, and that
reversal turns one into the other. Instance `lawOriented`: shells have at least three vertices and non-negative signed area, holes at least
three vertices and non-positive signed area, points and lines at most two vertices. Result: every assembled polygon is a shell followed by
its holes (`PolyShape`). -/
namespace Texel

structure RingLaw (Ro Ri Rp : Array P → Prop) : Prop where
  small : ∀ r : Array P, r.size ≤ 2 → Rp r
  shellT : ∀ r : Array P, 3 ≤ r.size → windingOK r false = true → Ro r
  shellF : ∀ r : Array P, 3 ≤ r.size → windingOK r false = false → Ri r
  holeT : ∀ r : Array P, 3 ≤ r.size → windingOK r true = true → Ri r
  holeF : ∀ r : Array P, 3 ≤ r.size → windingOK r true = false → Ro r
  io : ∀ r, Ri r → Ro r.reverse
  oi : ∀ r, Ro r → Ri r.reverse

def SplitR (Ro Ri Rp : Array P → Prop) (sp : Split) : Prop :=
  (∀ r ∈ sp.outers, Ro r) ∧ (∀ r ∈ sp.inners, Ri r) ∧ (∀ r ∈ sp.pointsAndLines, Rp r)

theorem classify_R {Ro Ri Rp : Array P → Prop} (law : RingLaw Ro Ri Rp) (isOuter : Bool) (rings : List (List P)) :
    SplitR Ro Ri Rp (classify isOuter rings) := by
  unfold classify
  have hf : ∀ (l : List (List P)) (res : Split), SplitR Ro Ri Rp res →
      SplitR Ro Ri Rp (l.foldl (fun res r =>
        let ra := r.toArray
        if r.length < 3 then { res with pointsAndLines := res.pointsAndLines.push ra }
        else if isOuter then
          (if !windingOK ra false then { res with inners := res.inners.push ra } else { res with outers := res.outers.push ra })
        else
          (if !windingOK ra true then { res with outers := res.outers.push ra } else { res with inners := res.inners.push ra })) res) := by
    intro l
    induction l with
    | nil => intro res hr; exact hr
    | cons r rest ih =>
      intro res hres
      simp only [List.foldl_cons]
      apply ih
      obtain ⟨ho, hi, hp⟩ := hres
      have push : ∀ (Q : Array P → Prop) (arr : Array (Array P)), Q r.toArray → (∀ q ∈ arr, Q q) → ∀ q ∈ arr.push r.toArray, Q q := by
        intro Q arr hq harr q hq'
        rcases Array.mem_push.1 hq' with h1 | h1
        · exact harr q h1
        · subst h1; exact hq
      split
      · rename_i hlt; exact ⟨ho, hi, push Rp _ (law.small _ (by simp; omega)) hp⟩
      · rename_i hge
        have h3 : 3 ≤ r.toArray.size := by simp; omega
        split
        · split
          · rename_i hw; exact ⟨ho, push Ri _ (law.shellF _ h3 (by simpa using hw)) hi, hp⟩
          · rename_i hw; exact ⟨push Ro _ (law.shellT _ h3 (by simpa using hw)) ho, hi, hp⟩
        · split
          · rename_i hw; exact ⟨push Ro _ (law.holeF _ h3 (by simpa using hw)) ho, hi, hp⟩
          · rename_i hw; exact ⟨ho, push Ri _ (law.holeT _ h3 (by simpa using hw)) hi, hp⟩
  have base := hf rings {} ⟨by intro r hr; simp at hr, by intro r hr; simp at hr, by intro r hr; simp at hr⟩
  generalize (rings.foldl _ ({} : Split)) = res at base
  obtain ⟨ho, hi, hp⟩ := base
  have rev : ∀ (Q Q' : Array P → Prop), (∀ r, Q r → Q' r.reverse) → ∀ (arr : Array (Array P)), (∀ q ∈ arr, Q q) → ∀ q ∈ arr.map Array.reverse, Q' q := by
    intro Q Q' hQ arr harr q hq
    simp only [Array.mem_map] at hq
    obtain ⟨q0, hq0, rfl⟩ := hq
    exact hQ _ (harr q0 hq0)
  simp only
  split
  · exact ⟨rev Ri Ro law.io _ hi, by intro r hr; simp at hr, hp⟩
  · split
    · exact ⟨by intro r hr; simp at hr, rev Ro Ri law.oi _ ho, hp⟩
    · exact ⟨ho, hi, hp⟩

theorem cleanupNewRingF_R {Ro Ri Rp : Array P → Prop} (law : RingLaw Ro Ri Rp) (chain : List P) (isOuter : Bool) (isHit : P → Bool) (sp : Split)
    (h : cleanupNewRingF chain isOuter isHit = .ok sp) : SplitR Ro Ri Rp sp := by
  unfold cleanupNewRingF at h
  simp only [bind, Except.bind, pure, Except.pure] at h
  generalize (if (decide (chain.length > 1) && chain.head? == chain.getLast?) = true then chain.dropLast else chain) = nr at h
  split at h
  · rename_i hlt
    simp only [Except.ok.injEq] at h; subst h
    exact ⟨by intro r hr; simp at hr, by intro r hr; simp at hr, by intro r hr; simp at hr; subst hr; exact law.small _ (by simp; omega)⟩
  · split at h
    · cases h
    · rename_i dd hdd
      split at h
      · rename_i hlt
        simp only [Except.ok.injEq] at h; subst h
        exact ⟨by intro r hr; simp at hr, by intro r hr; simp at hr, by intro r hr; simp at hr; subst hr; exact law.small _ (by omega)⟩
      · unfold splitRingF at h
        split at h
        · cases h
        · simp only [bind, Except.bind] at h
          split at h
          · cases h
          · simp only [pure, Except.pure, Except.ok.injEq] at h
            subst h
            exact classify_R law _ _

theorem processRing_R {Ro Ri Rp : Array P → Prop} (law : RingLaw Ro Ri Rp) (g : Grid) (hot : Nat → Quad → Bool) (l : Nat) (isOuter : Bool)
    (ring : List Pt) (sp : Split) (h : processRing g hot l isOuter ring = .ok sp) : SplitR Ro Ri Rp sp := by
  unfold processRing at h
  simp only at h
  split at h
  · cases h
  · exact cleanupNewRingF_R law _ _ _ sp h

def AccR (Ro Ri Rp : Array P → Prop) (a : Acc) : Prop := (∀ r ∈ a.outers, Ro r) ∧ (∀ r ∈ a.inners, Ri r) ∧ (∀ r ∈ a.pls, Rp r)

theorem acc_add_R (Ro Ri Rp : Array P → Prop) (a : Acc) (sp : Split) (keep : Bool) (ha : AccR Ro Ri Rp a) (hs : SplitR Ro Ri Rp sp) :
    AccR Ro Ri Rp (a.add sp keep) := by
  obtain ⟨a1, a2, a3⟩ := ha
  obtain ⟨s1, s2, s3⟩ := hs
  unfold Acc.add
  refine ⟨?_, ?_, ?_⟩
  · intro r hr; simp only at hr; rcases Array.mem_append.1 hr with h | h
    · exact a1 r h
    · exact s1 r h
  · intro r hr; simp only at hr; rcases Array.mem_append.1 hr with h | h
    · exact a2 r h
    · exact s2 r h
  · intro r hr; simp only at hr
    split at hr
    · rcases Array.mem_append.1 hr with h | h
      · exact a3 r h
      · exact s3 r h
    · exact a3 r hr

theorem processHoles_R {Ro Ri Rp : Array P → Prop} (law : RingLaw Ro Ri Rp) (g : Grid) (hot : Nat → Quad → Bool) (l : Nat) (keep : Bool)
    (holes : List (List Pt)) (a a' : Acc) (ha : AccR Ro Ri Rp a) (h : processHoles g hot l keep holes a = .ok a') : AccR Ro Ri Rp a' := by
  induction holes generalizing a with
  | nil => simp only [processHoles, Except.ok.injEq] at h; subst h; exact ha
  | cons hd tl ih =>
    simp only [processHoles, bind, Except.bind] at h
    split at h
    · cases h
    · rename_i sp hsp
      exact ih (a.add sp keep) (acc_add_R _ _ _ a sp keep ha (processRing_R law g hot l false hd sp hsp)) h

theorem levelAcc_R {Ro Ri Rp : Array P → Prop} (law : RingLaw Ro Ri Rp) (g : Grid) (hot : Nat → Quad → Bool) (keep : Bool) (l : Nat)
    (rings : List (List Pt)) (acc : Acc) (h : levelAcc g hot keep l rings = .ok (some acc)) : AccR Ro Ri Rp acc := by
  have empty : AccR Ro Ri Rp {} := ⟨by intro r hr; simp at hr, by intro r hr; simp at hr, by intro r hr; simp at hr⟩
  unfold levelAcc at h
  cases rings with
  | nil => simp only [Except.ok.injEq, Option.some.injEq] at h; subst h; exact empty
  | cons outer holes =>
    simp only [bind, Except.bind] at h
    split at h
    · cases h
    · rename_i sp hsp
      split at h
      · simp [pure, Except.pure] at h
      · split at h
        · cases h
        · rename_i a' ha'
          simp only [pure, Except.pure, Except.ok.injEq, Option.some.injEq] at h
          subst h
          exact processHoles_R law g hot l keep holes _ a' (acc_add_R _ _ _ _ sp keep empty (processRing_R law g hot l true outer sp hsp)) ha'

/-! ### the assembly only selects, attaches and reverses rings -/

def RingsR (R : Array P → Prop) (rs : List (Array P)) : Prop := ∀ r ∈ rs, R r

/-- a polygon is a shell followed by its holes -/
def PolyShape (Ro Ri : Array P → Prop) (pg : Array (Array P)) : Prop :=
  ∃ shell holes, pg.toList = shell :: holes ∧ Ro shell ∧ ∀ h ∈ holes, Ri h

theorem deleteByIndex_R (R : Array P → Prop) (rs : List (Array P)) (del : Array Nat) (off : Nat) (h : RingsR R rs) : RingsR R (deleteByIndex rs del off) := by
  intro r hr
  unfold deleteByIndex at hr
  simp only [List.mem_map, List.mem_filter] at hr
  obtain ⟨⟨r', i⟩, ⟨hmem, _⟩, rfl⟩ := hr
  have hin : r' ∈ rs := by
    have := (List.mem_zipIdx hmem).2.2
    rw [this]; exact List.getElem_mem _
  exact h r' hin

theorem dedupeF_R (Ro Ri : Array P → Prop) (outers inners o i : Array (Array P)) (ho : RingsR Ro outers.toList) (hi : RingsR Ri inners.toList)
    (h : dedupeF outers inners = .ok (o, i)) : RingsR Ro o.toList ∧ RingsR Ri i.toList := by
  unfold dedupeF at h
  simp only [bind, Except.bind] at h
  split at h
  · cases h
  · rename_i del _
    split at h
    · simp only [pure, Except.pure, Except.ok.injEq, Prod.mk.injEq] at h
      obtain ⟨h1, h2⟩ := h; subst h1 h2; exact ⟨ho, hi⟩
    · simp only [pure, Except.pure, Except.ok.injEq, Prod.mk.injEq] at h
      obtain ⟨h1, h2⟩ := h; subst h1 h2
      exact ⟨by simpa using deleteByIndex_R Ro _ del 0 ho, by simpa using deleteByIndex_R Ri _ del outers.size hi⟩

theorem attachAt_shape (Ro Ri : Array P → Prop) (ps : List (Array (Array P))) (k : Nat) (inner : Array P)
    (hp : ∀ pg ∈ ps, PolyShape Ro Ri pg) (hi : Ri inner) : ∀ pg ∈ attachAt ps k inner, PolyShape Ro Ri pg := by
  induction ps generalizing k with
  | nil => intro pg hpg; cases hpg
  | cons pg rest ih =>
    cases k with
    | zero =>
      intro q hq
      simp only [attachAt] at hq
      rcases List.mem_cons.1 hq with h1 | h1
      · subst h1
        obtain ⟨shell, holes, h1, h2, h3⟩ := hp pg List.mem_cons_self
        refine ⟨shell, holes ++ [inner], by simp [h1], h2, ?_⟩
        intro h hh
        rcases List.mem_append.1 hh with h4 | h4
        · exact h3 h h4
        · simp only [List.mem_singleton] at h4; subst h4; exact hi
      · exact hp q (List.mem_cons_of_mem _ h1)
    | succ k' =>
      intro q hq
      simp only [attachAt] at hq
      rcases List.mem_cons.1 hq with h1 | h1
      · subst h1; exact hp _ List.mem_cons_self
      · exact ih k' (fun x hx => hp x (List.mem_cons_of_mem _ hx)) q h1

theorem matchF_shape (Ro Ri : Array P → Prop) (hio : ∀ r, Ri r → Ro r.reverse) (polys0 : Array (Array (Array P))) (inners : Array (Array P))
    (hp : ∀ pg ∈ polys0.toList, PolyShape Ro Ri pg) (hi : RingsR Ri inners.toList) : ∀ pg ∈ (matchF polys0 inners).toList, PolyShape Ro Ri pg := by
  unfold matchF
  split
  · exact hp
  · simp only
    have key : ∀ (l : List (Array P)) (st : MatchState), RingsR Ri l → (∀ pg ∈ st.polys, PolyShape Ro Ri pg) → RingsR Ro st.turned →
        let st' := l.foldl (fun (st : MatchState) inner =>
          match matchDecision (polys0.map fun pg => pg[0]!) (sortPolyIdxsByOuterAreaDesc polys0) inner with
          | some i => { st with polys := attachAt st.polys i inner }
          | none => { st with turned := st.turned ++ [inner.reverse] }) st
        (∀ pg ∈ st'.polys, PolyShape Ro Ri pg) ∧ RingsR Ro st'.turned := by
      intro l
      induction l with
      | nil => intro st _ h1 h2; exact ⟨h1, h2⟩
      | cons inner rest ih =>
        intro st hl h1 h2
        simp only [List.foldl_cons]
        apply ih _ (fun r hr => hl r (List.mem_cons_of_mem _ hr))
        · split
          · exact attachAt_shape Ro Ri _ _ _ h1 (hl inner List.mem_cons_self)
          · exact h1
        · split
          · exact h2
          · intro r hr
            rcases List.mem_append.1 hr with h3 | h3
            · exact h2 r h3
            · simp only [List.mem_singleton] at h3; subst h3
              exact hio _ (hl inner List.mem_cons_self)
    obtain ⟨k1, k2⟩ := key inners.toList { polys := polys0.toList } hi hp (by intro r hr; cases hr)
    intro pg hpg
    rcases List.mem_append.1 hpg with h3 | h3
    · exact k1 pg h3
    · simp only [List.mem_map] at h3
      obtain ⟨t, ht, rfl⟩ := h3
      exact ⟨t, [], by simp, k2 t ht, by intro h hh; cases hh⟩

theorem assembleCore_shape {Ro Ri Rp : Array P → Prop} (law : RingLaw Ro Ri Rp) (a : Acc) (core : Array Poly) (ha : AccR Ro Ri Rp a)
    (h : assembleCore a = .ok core) : ∀ pg ∈ core.toList, PolyShape Ro Ri pg := by
  unfold assembleCore at h
  simp only [bind, Except.bind] at h
  split at h
  · cases h
  · rename_i oi hoi
    obtain ⟨o, i⟩ := oi
    simp only [pure, Except.pure, Except.ok.injEq] at h
    subst h
    obtain ⟨ho, hi⟩ := dedupeF_R Ro Ri a.outers a.inners o i (fun r hr => ha.1 r (by simpa using hr)) (fun r hr => ha.2.1 r (by simpa using hr)) hoi
    apply matchF_shape Ro Ri law.io _ i _ hi
    intro pg hpg
    simp only [Array.toList_map, List.mem_map] at hpg
    obtain ⟨r0, hr0, rfl⟩ := hpg
    exact ⟨r0, [], by simp, ho r0 hr0, by intro h hh; cases hh⟩

/-- **what a level is made of**: assembled polygons, each a shell followed by its holes, reversed ring by ring under the flag, followed by the
collapsed parts as single rings -/
theorem processLevel_shape {Ro Ri Rp : Array P → Prop} (law : RingLaw Ro Ri Rp) (g : Grid) (hot : Nat → Quad → Bool) (cfg : Config) (l : Nat)
    (rings : List (List Pt)) (polys : Array Poly) (h : processLevel g hot cfg l rings = .ok (some polys)) :
    ∃ core : Array Poly, ∃ acc : Acc, levelAcc g hot cfg.keep l rings = .ok (some acc) ∧
      polys = (if cfg.reverse then reversePolys core else core) ++ acc.pls.map (fun pl => #[pl]) ∧
      (∀ pg ∈ core, PolyShape Ro Ri pg) ∧ (∀ pl ∈ acc.pls, Rp pl) := by
  obtain ⟨acc, core, hacc, hcore, hfin⟩ := processLevel_some g hot cfg l rings polys h
  have ha := levelAcc_R law g hot cfg.keep l rings acc hacc
  have hc := assembleCore_shape law acc core ha hcore
  obtain ⟨hpolys, _⟩ := finishLevel_some cfg.reverse core acc.pls polys hfin
  exact ⟨core, acc, hacc, hpolys, fun pg hpg => hc pg (by simpa using hpg), fun pl hpl => ha.2.2 pl hpl⟩

/-! ### the same lift for predicates established ring by ring (not by `classify` alone) -/

theorem processHoles_R' {Ro Ri Rp : Array P → Prop} (g : Grid) (hot : Nat → Quad → Bool) (l : Nat) (keep : Bool)
    (holes : List (List Pt)) (hpr : ∀ ring ∈ holes, ∀ sp, processRing g hot l false ring = .ok sp → SplitR Ro Ri Rp sp)
    (a a' : Acc) (ha : AccR Ro Ri Rp a) (h : processHoles g hot l keep holes a = .ok a') : AccR Ro Ri Rp a' := by
  induction holes generalizing a with
  | nil => simp only [processHoles, Except.ok.injEq] at h; subst h; exact ha
  | cons hd tl ih =>
    simp only [processHoles, bind, Except.bind] at h
    split at h
    · cases h
    · rename_i sp hsp
      exact ih (fun r hr => hpr r (List.mem_cons_of_mem _ hr)) (a.add sp keep)
        (acc_add_R _ _ _ a sp keep ha (hpr hd List.mem_cons_self sp hsp)) h

theorem levelAcc_R' {Ro Ri Rp : Array P → Prop} (g : Grid) (hot : Nat → Quad → Bool) (keep : Bool) (l : Nat) (rings : List (List Pt))
    (hpr : ∀ isOuter, ∀ ring ∈ rings, ∀ sp, processRing g hot l isOuter ring = .ok sp → SplitR Ro Ri Rp sp)
    (acc : Acc) (h : levelAcc g hot keep l rings = .ok (some acc)) : AccR Ro Ri Rp acc := by
  have empty : AccR Ro Ri Rp {} := ⟨by intro r hr; simp at hr, by intro r hr; simp at hr, by intro r hr; simp at hr⟩
  unfold levelAcc at h
  cases rings with
  | nil => simp only [Except.ok.injEq, Option.some.injEq] at h; subst h; exact empty
  | cons outer holes =>
    simp only [bind, Except.bind] at h
    split at h
    · cases h
    · rename_i sp hsp
      split at h
      · simp [pure, Except.pure] at h
      · split at h
        · cases h
        · rename_i a' ha'
          simp only [pure, Except.pure, Except.ok.injEq, Option.some.injEq] at h
          subst h
          exact processHoles_R' g hot l keep holes (fun r hr => hpr false r (List.mem_cons_of_mem _ hr)) _ a'
            (acc_add_R _ _ _ _ sp keep empty (hpr true outer List.mem_cons_self sp hsp)) ha'

theorem assembleCore_shape' {Ro Ri Rp : Array P → Prop} (hio : ∀ r, Ri r → Ro r.reverse) (a : Acc) (core : Array Poly) (ha : AccR Ro Ri Rp a)
    (h : assembleCore a = .ok core) : ∀ pg ∈ core.toList, PolyShape Ro Ri pg := by
  unfold assembleCore at h
  simp only [bind, Except.bind] at h
  split at h
  · cases h
  · rename_i oi hoi
    obtain ⟨o, i⟩ := oi
    simp only [pure, Except.pure, Except.ok.injEq] at h
    subst h
    obtain ⟨ho, hi⟩ := dedupeF_R Ro Ri a.outers a.inners o i (fun r hr => ha.1 r (by simpa using hr)) (fun r hr => ha.2.1 r (by simpa using hr)) hoi
    apply matchF_shape Ro Ri hio _ i _ hi
    intro pg hpg
    simp only [Array.toList_map, List.mem_map] at hpg
    obtain ⟨r0, hr0, rfl⟩ := hpg
    exact ⟨r0, [], by simp, ho r0 hr0, by intro h hh; cases hh⟩

theorem processLevel_shape' {Ro Ri Rp : Array P → Prop} (hio : ∀ r, Ri r → Ro r.reverse) (g : Grid) (hot : Nat → Quad → Bool) (cfg : Config) (l : Nat)
    (rings : List (List Pt)) (hpr : ∀ isOuter, ∀ ring ∈ rings, ∀ sp, processRing g hot l isOuter ring = .ok sp → SplitR Ro Ri Rp sp)
    (polys : Array Poly) (h : processLevel g hot cfg l rings = .ok (some polys)) :
    ∃ core : Array Poly, ∃ acc : Acc, levelAcc g hot cfg.keep l rings = .ok (some acc) ∧
      polys = (if cfg.reverse then reversePolys core else core) ++ acc.pls.map (fun pl => #[pl]) ∧
      (∀ pg ∈ core, PolyShape Ro Ri pg) ∧ (∀ pl ∈ acc.pls, Rp pl) := by
  obtain ⟨acc, core, hacc, hcore, hfin⟩ := processLevel_some g hot cfg l rings polys h
  have ha := levelAcc_R' g hot cfg.keep l rings hpr acc hacc
  have hc := assembleCore_shape' hio acc core ha hcore
  obtain ⟨hpolys, _⟩ := finishLevel_some cfg.reverse core acc.pls polys hfin
  exact ⟨core, acc, hacc, hpolys, fun pg hpg => hc pg (by simpa using hpg), fun pl hpl => ha.2.2 pl hpl⟩

/-! ### the instance: sizes and orientation -/

def ShellOK (r : Array P) : Prop := 3 ≤ r.size ∧ 0 ≤ area2 r
def HoleOK (r : Array P) : Prop := 3 ≤ r.size ∧ area2 r ≤ 0
def SmallRing (r : Array P) : Prop := r.size ≤ 2

theorem lawOriented : RingLaw ShellOK HoleOK SmallRing where
  small := fun _ h => h
  shellT := fun r h3 hw => ⟨h3, (windingOK_shell r).1 hw⟩
  shellF := fun r h3 hw => ⟨h3, by
    have : ¬ (0 ≤ area2 r) := fun hc => by rw [(windingOK_shell r).2 hc] at hw; cases hw
    omega⟩
  holeT := fun r h3 hw => ⟨h3, (windingOK_hole r).1 hw⟩
  holeF := fun r h3 hw => ⟨h3, by
    have : ¬ (area2 r ≤ 0) := fun hc => by rw [(windingOK_hole r).2 hc] at hw; cases hw
    omega⟩
  io := fun r h => ⟨by simpa using h.1, by rw [area2_reverse]; have := h.2; omega⟩
  oi := fun r h => ⟨by simpa using h.1, by rw [area2_reverse]; have := h.2; omega⟩

end Texel
