import Texel.Gen.Arith
import Texel.Model.Route
/-! # The grid arithmetic of the model is the arithmetic of the current source

`Texel.Gen.Arith` is regenerated on every run by `trgen arith` from `pointindex/pointindex.go` and `snap/snap.go` (go/ast → Lean, over
`Int`; Go's `/` is `Int.tdiv`, conversions between integer types are dropped: no overflow, DESIGN §7). The theorems below say that the
hand-written model of the grid (`Grid.span/box/centroid`, `deepestAddr`, `Quad.up`, `containsPoint`) computes exactly these expressions
and that `pointindex` and `snap` use the same level `id + log₂ tileWidth + 4` for a tile matrix. A change of the arithmetic in the source
changes the generated file and breaks these proofs. Core-only. -/
namespace Texel.GenArith
open Texel Texel.Gen.Arith

theorem toNat_sub (d l : Nat) : ((d : Int) - (l : Int)).toNat = d - l := by omega

/-- pixel span of a level: `getQuadrantExtentAndCentroid`'s `intQuadrantSpan` -/
theorem gen_span (g : Grid) (l : Nat) (rx ry x y : Int) : quadrantSpan g.depth g.res rx ry l x y = g.span l := by
  unfold quadrantSpan Grid.span
  rw [toNat_sub]

/-- the extent of a quadrant is the model's half-open box -/
theorem gen_extent (g : Grid) (l : Nat) (p : Quad) :
    quadrantExtent g.depth g.res g.minX g.minY l p.x p.y = ((g.box l p).minX, (g.box l p).minY, (g.box l p).maxX, (g.box l p).maxY) := by
  unfold quadrantExtent Grid.box Grid.span
  simp only [toNat_sub]

/-- the centre handed out for a quadrant is the model's `Grid.centroid` (Go's truncating `/ 2` on a non-negative span) -/
theorem gen_centroid (g : Grid) (hres : 0 ≤ g.res) (l : Nat) (p : Quad) :
    quadrantCentroid g.depth g.res g.minX g.minY l p.x p.y = ((g.centroid l p).x, (g.centroid l p).y) := by
  have hs : 0 ≤ g.span l := by unfold Grid.span; exact Int.mul_nonneg (Int.pow_nonneg (by decide)) hres
  unfold quadrantCentroid Grid.centroid
  simp only [toNat_sub]
  have e : (2 : Int) ^ (g.depth - l) * g.res = g.span l := rfl
  rw [e, Int.tdiv_eq_ediv_of_nonneg hs]

/-- the deepest address of a vertex and the test that rejects it: `InsertPoint` + `InsertCoord` are the model's `deepestAddr` -/
theorem gen_deepestAddr (g : Grid) (p : Pt) :
    deepestAddr g p =
      (if insertCoordOutside (insertPointX p.x p.y g.minX g.minY g.res) (insertPointY p.x p.y g.minX g.minY g.res) (2 ^ g.depth) = true then none
       else some ⟨(insertPointX p.x p.y g.minX g.minY g.res).toNat, (insertPointY p.x p.y g.minX g.minY g.res).toNat⟩) := by
  unfold deepestAddr insertCoordOutside insertPointX insertPointY
  simp only [Bool.or_eq_true, decide_eq_true_eq, or_assoc]

/-- the pixel of a deepest address on level `l`: `insertCoord`'s `uint(deepestX) / Pow2(deepestLevel - l)` is the model's `Quad.up` -/
theorem gen_up (g : Grid) (a : Quad) (l : Nat) :
    levelX a.x a.y g.depth l = ((a.up g l).x : Int) ∧ levelY a.x a.y g.depth l = ((a.up g l).y : Int) := by
  unfold levelX levelY Quad.up
  simp only [toNat_sub]
  constructor
  · rw [Int.tdiv_eq_ediv_of_nonneg (Int.natCast_nonneg _)]; norm_cast
  · rw [Int.tdiv_eq_ediv_of_nonneg (Int.natCast_nonneg _)]; norm_cast

/-- the half-open containment test -/
theorem gen_containsPoint (p : Pt) (B : Box) : Gen.Arith.containsPoint p.x p.y B.minX B.minY B.maxX B.maxY = Texel.containsPoint p B := by
  unfold Gen.Arith.containsPoint Texel.containsPoint
  rfl

/-- `pointindex.FromTileMatrixSet` and `snap.tileMatrixIDsByLevels` put tile matrix `id` on the same level, `id + log₂ tileWidth + 4`, and the
index's deepest pixel is `XSpan / 2^level` -/
theorem gen_level (tileWidth id : Nat) (xSpan : Int) :
    indexDeepestLevel tileWidth id xSpan = ((id + tileWidth.log2 + 4 : Nat) : Int) ∧
    snapLevelOf tileWidth id = ((id + tileWidth.log2 + 4 : Nat) : Int) ∧
    indexDeepestSize tileWidth id xSpan = 2 ^ (id + tileWidth.log2 + 4) ∧
    indexDeepestRes tileWidth id xSpan = Int.tdiv xSpan (2 ^ (id + tileWidth.log2 + 4)) := by
  have h16 : ((16 : Int).toNat.log2) = 4 := by decide
  have hl : indexDeepestLevel tileWidth id xSpan = ((id + tileWidth.log2 + 4 : Nat) : Int) := by
    unfold indexDeepestLevel; simp only [Int.toNat_natCast, h16]; omega
  refine ⟨hl, ?_, ?_, ?_⟩
  · unfold snapLevelOf; simp only [Int.toNat_natCast, h16]; omega
  · have : indexDeepestSize tileWidth id xSpan = 2 ^ (indexDeepestLevel tileWidth id xSpan).toNat := rfl
    rw [this, hl, Int.toNat_natCast]
  · have : indexDeepestRes tileWidth id xSpan = Int.tdiv xSpan (2 ^ (indexDeepestLevel tileWidth id xSpan).toNat) := rfl
    rw [this, hl, Int.toNat_natCast]

-- non-vacuity: the RD-like grid of C03 (res 4, depth 4): span of level 3 is 8, the centre of pixel (5,3) is (44, 28); tile width 256, id 5 -> level 17
example : quadrantSpan 4 4 0 0 3 5 3 = 8 ∧ quadrantCentroid 4 4 0 0 3 5 3 = (44, 28) ∧ snapLevelOf 256 5 = 17 ∧ indexDeepestLevel 256 5 0 = 17 := by decide

end Texel.GenArith
