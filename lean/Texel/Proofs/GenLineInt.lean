import Texel.Gen.Lineint
import Texel.Model.Geom
/-! # The pixel test of the model is the pixel test of the current source

`Texel.Gen.LI` is regenerated on every run by `trgen lineint` from `pointindex.lineIntersects` (the expressions are translated, the loop
structure is checked statement by statement). `gen_lineIntersects` says that the hand-written `Texel.lineIntersects` — the function
`C02_pixel_test` characterises as "the closed segment meets the half-open pixel" — computes the same answer for every segment and box.
`mathhelp.CmpProducts` is read as the sign of the difference of the two products (trusted base). Core-only. -/
namespace Texel.GenLineInt
open Texel Texel.Gen.LI

def toB (b : TB) : Bound := ⟨b.num, b.den, b.exclusive⟩

theorem reject_compat (l u : TB) : (!reject l u) = compat (toB l) (toB u) := by
  unfold reject compat toB cmpInt
  simp only
  by_cases h1 : l.num * u.den < u.num * l.den
  · simp only [h1, if_true]
    cases hs : (l.exclusive || u.exclusive) <;> simp [Int.le_of_lt h1] <;> omega
  · by_cases h2 : l.num * u.den = u.num * l.den
    · simp only [h2, if_true]
      cases hs : (l.exclusive || u.exclusive) <;> simp
    · have h3 : ¬ (l.num * u.den ≤ u.num * l.den) := by omega
      simp only [h1, h2, if_false]
      cases hs : (l.exclusive || u.exclusive) <;> simp [h3]

theorem axis_bounds (p d lo hi : Int) :
    (axis p d lo hi).map (fun q => (q.1.map toB, q.2.map toB)) = axisBounds p d lo hi := by
  unfold axis axisBounds toB
  by_cases hd : d = 0
  · simp only [hd, decide_true, if_true]
    by_cases hc : lo ≤ p ∧ p < hi
    · have : (decide (p < lo) || decide (p ≥ hi)) = false := by simp; omega
      simp [this, hc]
    · have : (decide (p < lo) || decide (p ≥ hi)) = true := by simp; omega
      simp [this, hc]
  · by_cases hp : 0 < d
    · have : decide (d > 0) = true := by simpa using hp
      simp [hd, hp]
    · have : decide (d > 0) = false := by simpa using hp
      simp [hd, hp]

theorem all_map {α β} (f : α → β) (p : β → Bool) (l : List α) : (l.map f).all p = l.all (fun a => p (f a)) := by
  induction l with
  | nil => rfl
  | cons a as ih => simp [List.all_cons, ih]

/-- **the pixel test the C02 theorems are about is the one in the source** -/
theorem gen_lineIntersects (L : Seg) (B : Box) :
    Gen.LI.lineIntersects L.p1.x L.p1.y L.p2.x L.p2.y B.minX B.minY B.maxX B.maxY = Texel.lineIntersects L B := by
  unfold Gen.LI.lineIntersects Texel.lineIntersects
  have hx := axis_bounds L.p1.x (L.p2.x - L.p1.x) B.minX B.maxX
  have hy := axis_bounds L.p1.y (L.p2.y - L.p1.y) B.minY B.maxY
  rw [← hx, ← hy]
  cases h1 : axis L.p1.x (L.p2.x - L.p1.x) B.minX B.maxX with
  | none => simp
  | some qx =>
    cases h2 : axis L.p1.y (L.p2.y - L.p1.y) B.minY B.maxY with
    | none => simp
    | some qy =>
      obtain ⟨lx, ux⟩ := qx
      obtain ⟨ly, uy⟩ := qy
      simp only [Option.map_some]
      have e0 : (⟨0, 1, false⟩ : Bound) = toB lower0 := rfl
      have e1 : (⟨1, 1, false⟩ : Bound) = toB upper0 := rfl
      rw [e0, e1, ← List.map_append, ← List.map_append, ← List.map_cons, ← List.map_cons, all_map]
      congr 1
      funext l
      rw [all_map]
      congr 1
      funext u
      exact reject_compat l u

-- non-vacuity on the box [0,2)x[0,2): through the included corner (0,0); ending on the excluded top side; along the excluded top side
example : Gen.LI.lineIntersects (-1) (-1) 1 1 0 0 2 2 = true := by decide
example : Gen.LI.lineIntersects (-1) (-1) 0 2 0 0 2 2 = false := by decide
example : Gen.LI.lineIntersects 0 2 2 2 0 0 2 2 = false := by decide   -- along the excluded top side

end Texel.GenLineInt
