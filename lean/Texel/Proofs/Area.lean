import Texel.Model.Ring
import Mathlib.Tactic.Ring
import Mathlib.Tactic.Linarith
/-! Twice the signed area of a ring (`area2`, the Go code's shoelace sum relative to the first vertex) as a sum over the closed chain of
vertices; the loop of the model equals that sum (`area2_eq`), and reversing a ring negates it (`area2_reverse`). -/
namespace Texel

def cross (o a b : P) : Int := (a.1 - o.1) * (b.2 - o.2) - (b.1 - o.1) * (a.2 - o.2)
def chainSum (f : P → P → Int) : List P → Int
  | a :: b :: rest => f a b + chainSum f (b :: rest)
  | _ => 0
def area2L (l : List P) : Int :=
  if l.length < 3 then 0 else
  match l with
  | [] => 0
  | o :: _ => chainSum (cross o) (l.getLast! :: l)

def cross0 (a b : P) : Int := a.1 * b.2 - b.1 * a.2

theorem cross_eq (o a b : P) : cross o a b = cross0 a b + (cross0 b o - cross0 a o) := by
  unfold cross cross0; ring

theorem chainSum_congr (f g : P → P → Int) (h : ∀ a b, f a b = g a b) (l : List P) : chainSum f l = chainSum g l := by
  have : f = g := funext fun a => funext fun b => h a b
  rw [this]

theorem chainSum_add (f g : P → P → Int) : ∀ l : List P, chainSum (fun a b => f a b + g a b) l = chainSum f l + chainSum g l
  | [] => by simp [chainSum]
  | [_] => by simp [chainSum]
  | a :: b :: rest => by
    simp only [chainSum]
    rw [chainSum_add f g (b :: rest)]; ring

theorem chainSum_telescope (g : P → Int) : ∀ (x : P) (l : List P), chainSum (fun a b => g b - g a) (x :: l) = g ((x :: l).getLast (by simp)) - g x
  | x, [] => by simp [chainSum]
  | x, y :: rest => by
    simp only [chainSum]
    rw [chainSum_telescope g y rest]
    simp only [List.getLast_cons_cons]; ring

theorem chainSum_snoc (f : P → P → Int) : ∀ (x : P) (l : List P) (y : P), chainSum f ((x :: l) ++ [y]) = chainSum f (x :: l) + f ((x :: l).getLast (by simp)) y
  | x, [], y => by simp [chainSum]
  | x, z :: rest, y => by
    simp only [List.cons_append, chainSum]
    have := chainSum_snoc f z rest y
    simp only [List.cons_append] at this
    rw [this]
    simp only [List.getLast_cons_cons]; ring

theorem chainSum_reverse (f : P → P → Int) : ∀ l : List P, chainSum f l.reverse = chainSum (fun a b => f b a) l
  | [] => by simp [chainSum]
  | [_] => by simp [chainSum]
  | a :: b :: rest => by
    have ih := chainSum_reverse f (b :: rest)
    simp only [List.reverse_cons, chainSum] at ih ⊢
    have hne : (rest.reverse ++ [b]) ≠ [] := by simp
    obtain ⟨x, l, hxl⟩ : ∃ x l, rest.reverse ++ [b] = x :: l := by
      cases h : rest.reverse ++ [b] with
      | nil => exact absurd h hne
      | cons x l => exact ⟨x, l, rfl⟩
    rw [hxl] at ih ⊢
    rw [chainSum_snoc f x l a, ih]
    have : (x :: l).getLast (by simp) = b := by
      have h2 : (rest.reverse ++ [b]).getLast hne = b := by simp
      simp only [hxl] at h2; exact h2
    rw [this]; ring

theorem chainSum_neg (f : P → P → Int) : ∀ l : List P, chainSum (fun a b => - f a b) l = - chainSum f l
  | [] => by simp [chainSum]
  | [_] => by simp [chainSum]
  | a :: b :: rest => by
    simp only [chainSum]; rw [chainSum_neg f (b :: rest)]; ring

/-- the sum relative to the first vertex is the plain shoelace sum around the closed ring -/
theorem area2L_shoelace (o : P) (rest : List P) (h : 3 ≤ (o :: rest).length) :
    area2L (o :: rest) = chainSum cross0 ((o :: rest).getLast (by simp) :: o :: rest) := by
  unfold area2L
  rw [if_neg (by omega)]
  simp only
  have hl : (o :: rest).getLast! = (o :: rest).getLast (by simp) := by
    simp [List.getLast!_eq_getLast?_getD, List.getLast?_eq_getLast]
  rw [hl]
  rw [chainSum_congr (cross o) (fun a b => cross0 a b + (cross0 b o - cross0 a o)) (cross_eq o)]
  rw [chainSum_add cross0 (fun a b => cross0 b o - cross0 a o)]
  have := chainSum_telescope (fun a => cross0 a o) ((o :: rest).getLast (by simp)) (o :: rest)
  simp only [List.getLast_cons_cons] at this
  rw [this]
  simp [List.getLast_cons_cons]

theorem cross0_swap (a b : P) : cross0 b a = - cross0 a b := by unfold cross0; ring

/-- **reversing a ring negates its signed area** -/
theorem area2L_reverse (l : List P) : area2L l.reverse = - area2L l := by
  by_cases h : l.length < 3
  · unfold area2L; simp [h]
  · cases l with
    | nil => simp at h
    | cons o rest =>
      have h3 : 3 ≤ (o :: rest).length := by omega
      rw [area2L_shoelace o rest h3]
      -- the reversed ring
      have hne : (o :: rest).reverse ≠ [] := by simp
      obtain ⟨x, l', hxl⟩ : ∃ x l', (o :: rest).reverse = x :: l' := by
        cases hh : (o :: rest).reverse with
        | nil => exact absurd hh hne
        | cons x l' => exact ⟨x, l', rfl⟩
      have hlen : 3 ≤ (x :: l').length := by rw [← hxl]; simpa using h3
      rw [hxl, area2L_shoelace x l' hlen]
      have hlast : (x :: l').getLast (by simp) = o := by
        have : ((o :: rest).reverse).getLast hne = o := by simp
        simp only [hxl] at this; exact this
      rw [hlast, ← hxl]
      -- o :: reverse (o :: rest) = reverse ((o :: rest) ++ [o])
      have : o :: (o :: rest).reverse = ((o :: rest) ++ [o]).reverse := by simp
      rw [this, chainSum_reverse, chainSum_congr _ (fun a b => - cross0 a b) (fun a b => cross0_swap a b), chainSum_neg,
        chainSum_snoc cross0 o rest o]
      simp only [chainSum]
      ring

theorem area2_loop (r : Array P) (o : P) : ∀ (m k : Nat) (s : Int) (li : Nat), k + m = r.size →
    ((List.range' k m).foldl (fun (st : Int × Nat) i => (st.1 + cross o r[st.2]! r[i]!, i)) (s, li)).1
      = s + chainSum (cross o) (r[li]! :: r.toList.drop k) := by
  intro m
  induction m with
  | zero =>
    intro k s li hk
    have : r.toList.drop k = [] := by apply List.drop_eq_nil_of_le; simp; omega
    simp [this, chainSum]
  | succ m ih =>
    intro k s li hk
    have hk' : k < r.size := by omega
    have hd : r.toList.drop k = r[k]! :: r.toList.drop (k + 1) := by
      rw [List.drop_eq_getElem_cons (by simpa using hk')]
      simp [hk']
    rw [List.range'_succ, List.foldl_cons, ih (k + 1) _ k (by omega), hd]
    simp only [chainSum]
    omega

theorem area2_eq (r : Array P) : area2 r = area2L r.toList := by
  unfold area2 area2L
  simp only [Id.run]
  by_cases h : r.size < 3
  · simp [h]; rfl
  · have hne : r.toList ≠ [] := by intro h0; simp at h0; subst h0; simp at h
    simp only [h, if_false, Array.length_toList]
    cases hl : r.toList with
    | nil => exact absurd hl hne
    | cons o rest =>
      simp only
      rw [Std.Legacy.Range.forIn_eq_forIn_range']
      simp only [Std.Legacy.Range.size, Nat.sub_zero, Nat.add_one_sub_one, Nat.div_one]
      rw [List.forIn_pure_yield_eq_foldl]
      have ho : r[0]! = o := by
        have h0 : 0 < r.size := by omega
        have : r.toList[0]'(by simpa using h0) = o := by simp [hl]
        simp [h0]; simpa using this
      have hlast : r[r.size - 1]! = (o :: rest).getLast! := by
        rw [← hl]
        have hs : r.size - 1 < r.size := by omega
        simp [hs, Array.back?]
      have := area2_loop r o r.size 0 0 (r.size - 1) (by omega)
      simp only [cross, ho] at this ⊢
      simp only [bind, pure]
      rw [List.drop_zero, hl] at this
      rw [← hlast]
      simpa using this


theorem area2_reverse (r : Array P) : area2 r.reverse = - area2 r := by
  rw [area2_eq, area2_eq, Array.toList_reverse, area2L_reverse]

theorem windingOK_shell (r : Array P) : windingOK r false = true ↔ 0 ≤ area2 r := by
  unfold windingOK
  simp only [Bool.and_false, Bool.false_or, Bool.not_false, Bool.and_true, Bool.or_eq_true, decide_eq_true_eq, beq_iff_eq]
  omega

theorem windingOK_hole (r : Array P) : windingOK r true = true ↔ area2 r ≤ 0 := by
  unfold windingOK
  simp only [Bool.and_true, Bool.not_true, Bool.and_false, Bool.or_false, Bool.or_eq_true, decide_eq_true_eq, beq_iff_eq]
  omega

end Texel
