import Texel.Proofs.Vertices
import Texel.Proofs.Depth
/-! What `snapPolygonF` hands out, vertex by vertex: every vertex of every ring of every polygon of every level is the pixel — on that
level — of a vertex of the input polygon, and that pixel contains the vertex. Lifted from `processLevel_V` (clean-up, splitting,
de-duplication, hole matching, reversal and the keep option only select and rearrange routed pixels) and `routed_is_vertex_pixel`
(the routing only emits occupied pixels). -/
namespace Texel

theorem mapM_out_mem {α β} (f : α → Option β) (l : List α) (out : List β) (h : l.mapM f = some out) (b : β) (hb : b ∈ out) :
    ∃ a ∈ l, f a = some b := by
  induction l generalizing out with
  | nil => simp at h; subst h; cases hb
  | cons x xs ih =>
    rw [List.mapM_cons] at h
    cases hx : f x with
    | none => simp [hx] at h
    | some y =>
      cases hxs : xs.mapM f with
      | none => simp [hx, hxs] at h
      | some ys =>
        simp [hx, hxs] at h
        subst h
        rcases List.mem_cons.1 hb with h1 | h1
        · subst h1; exact ⟨x, List.mem_cons_self, hx⟩
        · obtain ⟨a, ha1, ha2⟩ := ih ys hxs h1
          exact ⟨a, List.mem_cons_of_mem _ ha1, ha2⟩

theorem normaliseRing_mem (ring : List Pt) (cw : Bool) (v : Pt) (h : v ∈ normaliseRing ring cw) : v ∈ ring := by
  unfold normaliseRing at h
  split at h
  · exact h
  · exact List.mem_reverse.1 h

/-- a routed pixel of level `l` of a polygon that was inserted into the index is the level-`l` pixel of one of its vertices -/
theorem routed_is_input_pixel (g : Grid) (hres : 0 < g.res) (rings : List (List Pt)) (addrs : List Quad)
    (hins : insertAll g rings = some addrs) (l : Nat) (hl : l ≤ g.depth) (hl0 : l ≠ 0) (v : P)
    (hv : Routed g (hotOf g addrs) l rings v) :
    ∃ ring ∈ rings, ∃ u ∈ ring, ∃ a, deepestAddr g u = some a ∧ v = (a.up g l).toP ∧ containsPoint u (g.box l (a.up g l)) = true := by
  obtain ⟨ring, _, cw, s, _, q, hq, rfl⟩ := hv
  obtain ⟨a, ha, rfl⟩ := routed_is_vertex_pixel g hres addrs s l hl hl0 q hq
  unfold insertAll at hins
  obtain ⟨u, hu, hua⟩ := mapM_out_mem _ _ _ hins a ha
  obtain ⟨ring', hr', hur'⟩ := List.mem_flatten.1 hu
  exact ⟨ring', hr', u, hur', a, hua, rfl, own_pixel g hres u a hua l⟩

/-- **every output vertex is the pixel of an input vertex** (`snapPolygonF`, any polygon, any flags, any requested levels `0 < l ≤ depth`) -/
theorem snapPolygonF_vertex (g : Grid) (hres : 0 < g.res) (rings : List (List Pt)) (levels : List Nat) (cfg : Config)
    (res : List (Nat × Array Poly)) (h : snapPolygonF g rings levels cfg = .ok res)
    (hlev : ∀ l ∈ levels, l ≤ g.depth ∧ l ≠ 0)
    (l : Nat) (polys : Array Poly) (hm : (l, polys) ∈ res) (pg : Poly) (hpg : pg ∈ polys) (r : Array P) (hr : r ∈ pg) (v : P) (hv : v ∈ r) :
    ∃ ring ∈ rings, ∃ u ∈ ring, ∃ a, deepestAddr g u = some a ∧ v = (a.up g l).toP ∧ containsPoint u (g.box l (a.up g l)) = true := by
  obtain ⟨addrs, hins, hl, hp⟩ := snapPolygonF_mem g rings levels cfg res h l polys hm
  have hV := processLevel_V g (hotOf g addrs) cfg l rings polys hp pg (by simpa using hpg) r hr v hv
  exact routed_is_input_pixel g hres rings addrs hins l (hlev l hl).1 (hlev l hl).2 v hV

/-- … and therefore a pixel of that level's grid: both indices in `[0, 2^l)` -/
theorem snapPolygonF_vertex_in_range (g : Grid) (hres : 0 < g.res) (rings : List (List Pt)) (levels : List Nat) (cfg : Config)
    (res : List (Nat × Array Poly)) (h : snapPolygonF g rings levels cfg = .ok res)
    (hlev : ∀ l ∈ levels, l ≤ g.depth ∧ l ≠ 0)
    (l : Nat) (polys : Array Poly) (hm : (l, polys) ∈ res) (pg : Poly) (hpg : pg ∈ polys) (r : Array P) (hr : r ∈ pg) (v : P) (hv : v ∈ r) :
    ∃ q : Quad, v = q.toP ∧ q.x < 2 ^ l ∧ q.y < 2 ^ l := by
  obtain ⟨_, _, u, _, a, hua, rfl, _⟩ := snapPolygonF_vertex g hres rings levels cfg res h hlev l polys hm pg hpg r hr v hv
  obtain ⟨_, _, _, _, hx, hy⟩ := deepestAddr_spec g hres u a hua
  have hl := (hlev l (snapPolygonF_mem g rings levels cfg res h l polys hm).choose_spec.2.1).1
  refine ⟨a.up g l, rfl, ?_, ?_⟩
  · unfold Quad.up; simp only
    rw [Nat.div_lt_iff_lt_mul (by positivity), ← pow_add]
    have : l + (g.depth - l) = g.depth := by omega
    rw [this]; exact hx
  · unfold Quad.up; simp only
    rw [Nat.div_lt_iff_lt_mul (by positivity), ← pow_add]
    have : l + (g.depth - l) = g.depth := by omega
    rw [this]; exact hy

end Texel
