import Texel.Model.SplitF
import Texel.Proofs.Area
import Mathlib.Data.List.Chain
import Mathlib.Data.List.Nodup
import Mathlib.Algebra.BigOperators.Group.List.Basic
/-! The stack invariant of `splitRing`: the partial rings on the stack form one path without repetition (each starts where the one before
ends), every flagged vertex on it is the start of a partial ring, and the path starts at the ring's first vertex. Consequences: the `error`
branches of `splitRingF` are unreachable and no returned ring visits a vertex twice — provided an unflagged vertex occurs only once in
the ring. -/
namespace Texel

/-- the vertices on the stack, in order: the first partial ring, then the others without their first vertex (= the last of the one before) -/
def spath : List (List P) → List P
  | [] => []
  | p :: rest => p ++ rest.flatMap List.tail

theorem spath_append_singleton (ps : List (List P)) (p : List P) (hps : ps ≠ []) : spath (ps ++ [p]) = spath ps ++ p.tail := by
  cases ps with
  | nil => exact absurd rfl hps
  | cons a t => simp [spath, List.flatMap_append]

/-- merging the last two partial rings does not change the path -/
theorem spath_merge (ps : List (List P)) (p q : List P) (hp : p ≠ []) : spath (ps ++ [p, q]) = spath (ps ++ [p ++ q.tail]) := by
  cases ps with
  | nil => simp [spath]
  | cons a t =>
    simp only [List.cons_append, spath, List.flatMap_append, List.flatMap_cons, List.flatMap_nil, List.append_nil]
    congr 2
    cases p with
    | nil => exact absurd rfl hp
    | cons x xs => simp

theorem mem_spath_of_mem (ps : List (List P)) (p : List P) (hp : p ∈ ps) (v : P) (hv : v ∈ p.tail) : v ∈ spath ps := by
  cases ps with
  | nil => cases hp
  | cons a t =>
    simp only [spath, List.mem_append, List.mem_flatMap]
    rcases List.mem_cons.1 hp with h | h
    · subst h; exact Or.inl (List.mem_of_mem_tail hv)
    · exact Or.inr ⟨p, h, hv⟩

/-! ### what `mergeBack` does on a linked stack -/

/-- newest first: every partial ring is non-empty and ends where the next newer one (first: the ring being closed) starts -/
def BackLinked : List (Nat × List P) → Option P → Prop
  | [], _ => True
  | (_, part) :: rest, h => part ≠ [] ∧ h.isSome ∧ part.getLast? = h ∧ BackLinked rest part.head?

def mfold (walked : List (Nat × List P)) (temp : List P) : List P := walked.foldl (fun t e => e.2 ++ t.tail) temp

theorem getLast?_append_tail (part temp : List P) (h2 : 2 ≤ temp.length) : (part ++ temp.tail).getLast? = temp.getLast? := by
  cases temp with
  | nil => simp at h2
  | cons a t =>
    cases t with
    | nil => simp at h2
    | cons b t' =>
      simp only [List.tail_cons]
      rw [List.getLast?_append_of_ne_nil _ (by simp), List.getLast?_cons_cons]

theorem head?_append_of_ne_nil (part rest : List P) (h : part ≠ []) : (part ++ rest).head? = part.head? := by
  cases part with
  | nil => exact absurd rfl h
  | cons a t => rfl

theorem mergeBack_spec (v : P) : ∀ (earlier : List (Nat × List P)) (temp : List P) (used : List Nat),
    2 ≤ temp.length → temp.getLast? = some v → BackLinked earlier temp.head? →
    (mergeBack temp earlier used = .ok none ∧ ∀ e ∈ earlier, e.2.head? ≠ some v) ∨
    (∃ walked k part rest, earlier = walked ++ (k, part) :: rest ∧ (∀ e ∈ walked, e.2.head? ≠ some v) ∧ part.head? = some v ∧
      mergeBack temp earlier used = .ok (some (k, (part ++ (mfold walked temp).tail).dropLast, k :: (walked.map (·.1)).reverse ++ used))) := by
  intro earlier
  induction earlier with
  | nil => intro temp used _ _ _; exact Or.inl ⟨rfl, by intro e he; cases he⟩
  | cons e rest ih =>
    intro temp used h2 hlast hlink
    obtain ⟨k, part⟩ := e
    obtain ⟨hne, hsome, hl, hrest⟩ := hlink
    obtain ⟨hd, hhd⟩ := Option.isSome_iff_exists.1 hsome
    have hpl : part.getLast? = some hd := by rw [hl, hhd]
    unfold mergeBack
    simp only [hpl, hhd]
    simp only [if_true]
    have hlast' : (part ++ temp.tail).getLast? = some v := by rw [getLast?_append_tail part temp h2, hlast]
    have hhead' : (part ++ temp.tail).head? = part.head? := head?_append_of_ne_nil part _ hne
    by_cases hc : part.head? = some v
    · -- closes here
      have : (part ++ temp.tail).head? = (part ++ temp.tail).getLast? := by rw [hhead', hlast', hc]
      simp only [this, if_true]
      exact Or.inr ⟨[], k, part, rest, rfl, (fun e he => by cases he), hc, by simp [mfold]⟩
    · have hne' : ¬ ((part ++ temp.tail).head? = (part ++ temp.tail).getLast?) := by rw [hhead', hlast']; exact hc
      simp only [hne', if_false]
      have h2' : 2 ≤ (part ++ temp.tail).length := by
        have : 1 ≤ part.length := by cases part with | nil => exact absurd rfl hne | cons a t => simp
        have : 1 ≤ temp.tail.length := by simp; omega
        simp; omega
      rcases ih (part ++ temp.tail) (k :: used) h2' hlast' (by rw [hhead']; exact hrest) with ⟨h1, h3⟩ | ⟨walked, k', part', rest', he, hw, hp, hres⟩
      · exact Or.inl ⟨h1, by
          intro e he
          rcases List.mem_cons.1 he with h | h
          · subst h; exact hc
          · exact h3 e h⟩
      · refine Or.inr ⟨(k, part) :: walked, k', part', rest', by rw [he]; rfl, ?_, hp, ?_⟩
        · intro e he'
          rcases List.mem_cons.1 he' with h | h
          · subst h; exact hc
          · exact hw e h
        · rw [hres]
          simp [mfold, List.append_assoc]

/-! ### the association list -/

theorem sGet_last (init : StackL) (k : Nat) (x : List P) (h : ∀ e ∈ init, e.1 ≠ k) : sGet (init ++ [(k, x)]) k = some x := by
  unfold sGet
  induction init with
  | nil => simp
  | cons a t ih =>
    have ha : a.1 ≠ k := h a List.mem_cons_self
    simp only [List.cons_append, List.find?_cons]
    have : (a.1 == k) = false := by simpa using ha
    rw [this]
    exact ih (fun e he => h e (List.mem_cons_of_mem _ he))

theorem sGet_none (s : StackL) (k : Nat) (h : ∀ e ∈ s, e.1 ≠ k) : sGet s k = none := by
  unfold sGet
  rw [List.find?_eq_none.2 (by intro e he; simpa using h e he)]
  rfl

theorem sSet_last (init : StackL) (k : Nat) (x y : List P) (h : ∀ e ∈ init, e.1 ≠ k) : sSet (init ++ [(k, x)]) k y = init ++ [(k, y)] := by
  induction init with
  | nil => simp [sSet]
  | cons a t ih =>
    obtain ⟨ka, pa⟩ := a
    have ha : ka ≠ k := h (ka, pa) List.mem_cons_self
    simp only [List.cons_append, sSet, ha, if_false]
    rw [ih (fun e he => h e (List.mem_cons_of_mem _ he))]

theorem sSet_new (s : StackL) (k : Nat) (y : List P) (h : ∀ e ∈ s, e.1 ≠ k) : sSet s k y = s ++ [(k, y)] := by
  induction s with
  | nil => simp [sSet]
  | cons a t ih =>
    obtain ⟨ka, pa⟩ := a
    have ha : ka ≠ k := h (ka, pa) List.mem_cons_self
    simp only [List.cons_append, sSet, ha, if_false]
    rw [ih (fun e he => h e (List.mem_cons_of_mem _ he))]

theorem sDelete_last (init : StackL) (k : Nat) (x : List P) (h : ∀ e ∈ init, e.1 ≠ k) : sDelete (init ++ [(k, x)]) k = init := by
  unfold sDelete
  rw [List.filter_append]
  have h1 : init.filter (fun e => e.1 != k) = init := List.filter_eq_self.2 (by intro e he; simpa using h e he)
  rw [h1]; simp

theorem foldl_sDelete_eq_filter (used : List Nat) (s : StackL) : used.foldl sDelete s = s.filter (fun e => !used.contains e.1) := by
  induction used generalizing s with
  | nil => simp
  | cons k ks ih =>
    rw [List.foldl_cons, ih]
    unfold sDelete
    rw [List.filter_filter]
    congr 1
    funext e
    simp only [List.contains_cons, Bool.not_or, bne]
    rw [Bool.and_comm]

/-! ### more about the path -/

theorem spath_append (pre seg : List (List P)) (hpre : pre ≠ []) : spath (pre ++ seg) = spath pre ++ seg.flatMap List.tail := by
  cases pre with
  | nil => exact absurd rfl hpre
  | cons a t => simp [spath, List.flatMap_append, List.append_assoc]

theorem spath_snoc_last (ps : List (List P)) (pr : List P) (v : P) (hpr : pr ≠ []) :
    spath (ps ++ [pr ++ [v]]) = spath (ps ++ [pr]) ++ [v] := by
  cases ps with
  | nil => simp [spath]
  | cons a t =>
    rw [spath_append_singleton _ _ (by simp), spath_append_singleton _ _ (by simp)]
    cases pr with
    | nil => exact absurd rfl hpr
    | cons x xs => simp

theorem spath_cons_tail (s0 : List P) (srest : List (List P)) (h : s0 ≠ []) :
    (spath (s0 :: srest)).tail = (s0 :: srest).flatMap List.tail := by
  cases s0 with
  | nil => exact absurd rfl h
  | cons x xs => simp [spath]

theorem mfold_spath : ∀ (walked : List (Nat × List P)) (temp : List P), (∀ e ∈ walked, e.2 ≠ []) →
    mfold walked temp = spath (walked.reverse.map (·.2) ++ [temp])
  | [], temp, _ => by simp [mfold, spath]
  | e :: w, temp, h => by
    have ih := mfold_spath w (e.2 ++ temp.tail) (fun x hx => h x (List.mem_cons_of_mem _ hx))
    have he : e.2 ≠ [] := h e List.mem_cons_self
    unfold mfold at ih ⊢
    rw [List.foldl_cons, ih]
    simp only [List.reverse_cons, List.map_append, List.map_cons, List.map_nil, List.append_assoc, List.cons_append, List.nil_append]
    exact (spath_merge _ e.2 temp he).symm

/-- the last vertex of a last partial ring of at least two vertices is on the path -/
theorem last_mem_spath (ps : List (List P)) (p : List P) (x : P) (hx : p.getLast? = some x) (h2 : 2 ≤ p.length) : x ∈ spath (ps ++ [p]) := by
  have hxt : x ∈ p.tail := by
    cases p with
    | nil => cases hx
    | cons y ys =>
      cases ys with
      | nil => simp at h2
      | cons z zs =>
        simp only [List.tail_cons]
        rw [List.getLast?_cons_cons] at hx
        exact List.mem_of_mem_getLast? hx
  exact mem_spath_of_mem (ps ++ [p]) p (by simp) x hxt

/-- a final segment of the stack is itself a path without repetition, provided it starts where the part before it ends -/
theorem nodup_spath_suffix (pre : List (List P)) (s0 : List P) (srest : List (List P)) (hs0 : s0 ≠ [])
    (hnd : (spath (pre ++ s0 :: srest)).Nodup) (hlink : pre = [] ∨ s0.head?.any (· ∈ spath pre)) : (spath (s0 :: srest)).Nodup := by
  rcases hlink with h | h
  · subst h; simpa using hnd
  · have hpre : pre ≠ [] := by intro h0; subst h0; cases s0 with | nil => exact absurd rfl hs0 | cons x xs => simp [spath] at h
    rw [spath_append pre _ hpre] at hnd
    obtain ⟨_, h2, h3⟩ := List.nodup_append.1 hnd
    cases s0 with
    | nil => exact absurd rfl hs0
    | cons x xs =>
      simp only [List.head?_cons, Option.any_some, decide_eq_true_eq] at h
      simp only [spath, List.cons_append, List.flatMap_cons, List.tail_cons] at h2 h3 ⊢
      refine List.nodup_cons.2 ⟨?_, h2⟩
      intro hx
      exact h3 x h x hx rfl

/-! ### edge sums: the partial rings on the stack carry every edge walked so far that is not yet in a complete ring -/

/-- the shoelace sum around a closed ring (twice its signed area) -/
def closedSum (r : List P) : Int := match r with | [] => 0 | a :: _ => chainSum cross0 (r ++ [a])
/-- the edge from the last vertex of `l` to `v` -/
def edgeTo (l : List P) (v : P) : Int := match l.getLast? with | some x => cross0 x v | none => 0
def partsSum (ps : List (List P)) : Int := (ps.map (chainSum cross0)).sum

theorem chainSum_snoc' (l : List P) (v : P) : chainSum cross0 (l ++ [v]) = chainSum cross0 l + edgeTo l v := by
  cases l with
  | nil => simp [chainSum, edgeTo]
  | cons x t =>
    rw [chainSum_snoc cross0 x t v]
    unfold edgeTo
    rw [List.getLast?_eq_some_getLast (List.cons_ne_nil x t)]

theorem edgeTo_congr (a b : List P) (v : P) (h : a.getLast? = b.getLast?) : edgeTo a v = edgeTo b v := by unfold edgeTo; rw [h]

theorem chainSum_append_tail : ∀ (a b : List P), a ≠ [] → b ≠ [] → a.getLast? = b.head? →
    chainSum cross0 (a ++ b.tail) = chainSum cross0 a + chainSum cross0 b
  | [], _, h, _, _ => absurd rfl h
  | [x], b, _, hb, hl => by
    cases b with
    | nil => exact absurd rfl hb
    | cons y t =>
      simp only [List.getLast?_singleton, List.head?_cons, Option.some.injEq] at hl
      subst hl
      simp [chainSum]
  | x :: y :: t, b, _, hb, hl => by
    have ih := chainSum_append_tail (y :: t) b (by simp) hb (by rw [List.getLast?_cons_cons] at hl; exact hl)
    simp only [List.cons_append, chainSum] at ih ⊢
    rw [ih]; ring

/-- oldest first: every partial ring non-empty, each ending where the next one starts -/
def FL : List (List P) → Prop
  | [] => True
  | [p] => p ≠ []
  | p :: q :: r => p ≠ [] ∧ p.getLast? = q.head? ∧ FL (q :: r)

theorem fl_tail (p : List P) (rest : List (List P)) (h : FL (p :: rest)) : FL rest := by
  cases rest with
  | nil => trivial
  | cons q r => exact h.2.2

theorem fl_head_ne (p : List P) (rest : List (List P)) (h : FL (p :: rest)) : p ≠ [] := by
  cases rest with
  | nil => exact h
  | cons q r => exact h.1

theorem chainSum_spath_aux : ∀ (rest : List (List P)) (p : List P), FL (p :: rest) →
    chainSum cross0 (p ++ rest.flatMap List.tail) = chainSum cross0 p + partsSum rest
  | [], p, _ => by simp [partsSum]
  | q :: r, p, h => by
    obtain ⟨hp, hl, hrest⟩ := h
    have hq : q ≠ [] := fl_head_ne q r hrest
    have hm : FL ((p ++ q.tail) :: r) := by
      cases r with
      | nil => simp [FL, hp]
      | cons s r' =>
        refine ⟨by simp [hp], ?_, hrest.2.2⟩
        by_cases ht : q.tail = []
        · rw [ht, List.append_nil, hl]
          cases q with
          | nil => exact absurd rfl hq
          | cons a t => simp only [List.tail_cons] at ht; subst ht; simpa using hrest.2.1
        · rw [List.getLast?_append_of_ne_nil _ ht]
          cases q with
          | nil => exact absurd rfl hq
          | cons a t =>
            simp only [List.tail_cons] at ht ⊢
            have := hrest.2.1
            cases t with
            | nil => exact absurd rfl ht
            | cons b t' => rw [List.getLast?_cons_cons] at this; exact this
    have ih := chainSum_spath_aux r (p ++ q.tail) hm
    simp only [List.flatMap_cons, ← List.append_assoc]
    rw [ih, chainSum_append_tail p q hp hq hl]
    simp only [partsSum, List.map_cons, List.sum_cons]
    ring

theorem chainSum_spath (ps : List (List P)) (h : FL ps) : chainSum cross0 (spath ps) = partsSum ps := by
  cases ps with
  | nil => simp [spath, chainSum, partsSum]
  | cons p rest =>
    simp only [spath]
    rw [chainSum_spath_aux rest p h]
    simp [partsSum]

/-- the path ends where its last partial ring ends -/
theorem spath_getLast : ∀ (ps : List (List P)) (pr : List P), FL (ps ++ [pr]) → (spath (ps ++ [pr])).getLast? = pr.getLast?
  | [], pr, _ => by simp [spath]
  | p :: rest, pr, h => by
    -- merge the first two and recurse
    cases rest with
    | nil =>
      obtain ⟨hp, hl, hpr⟩ := h
      simp only [List.cons_append, List.nil_append, spath, List.flatMap_cons, List.flatMap_nil, List.append_nil]
      by_cases ht : pr.tail = []
      · rw [ht, List.append_nil, hl]
        cases pr with
        | nil => exact absurd rfl hpr
        | cons a t => simp only [List.tail_cons] at ht; subst ht; simp
      · rw [List.getLast?_append_of_ne_nil _ ht]
        cases pr with
        | nil => exact absurd rfl hpr
        | cons a t =>
          cases t with
          | nil => exact absurd rfl ht
          | cons b t' => simp [List.getLast?_cons_cons]
    | cons q r =>
      obtain ⟨hp, hl, hrest⟩ := h
      have hq : q ≠ [] := fl_head_ne q _ hrest
      have hmerge : spath (p :: q :: r ++ [pr]) = spath ((p ++ q.tail) :: r ++ [pr]) := by
        simp [spath, List.append_assoc]
      have hm : FL (((p ++ q.tail) :: r) ++ [pr]) := by
        cases hr : r ++ [pr] with
        | nil => simp at hr
        | cons s r' =>
          have hrest' : FL (q :: s :: r') := by simpa [hr] using hrest
          simp only [List.cons_append, hr]
          refine ⟨by simp [hp], ?_, hrest'.2.2⟩
          by_cases ht : q.tail = []
          · rw [ht, List.append_nil, hl]
            cases q with
            | nil => exact absurd rfl hq
            | cons a t => simp only [List.tail_cons] at ht; subst ht; simpa using hrest'.2.1
          · rw [List.getLast?_append_of_ne_nil _ ht]
            cases q with
            | nil => exact absurd rfl hq
            | cons a t =>
              simp only [List.tail_cons] at ht ⊢
              have := hrest'.2.1
              cases t with
              | nil => exact absurd rfl ht
              | cons b t' => rw [List.getLast?_cons_cons] at this; exact this
      simp only [List.cons_append] at hmerge ⊢
      rw [hmerge]
      exact spath_getLast ((p ++ q.tail) :: r) pr hm
termination_by ps _ _ => ps.length

theorem partsSum_append (a b : List (List P)) : partsSum (a ++ b) = partsSum a + partsSum b := by
  simp [partsSum, List.map_append, List.sum_append]

/-! ### the invariant -/

/-- `init` are the partial rings below the current one `pr` (oldest first) -/
structure SI (isHit : P → Bool) (v0 : P) (seen : List P) (st : SplitState) (init : StackL) (pr : List P) : Prop where
  stack_eq : st.stack = init ++ [(st.idx, pr)]
  keys_lt : ∀ e ∈ init, e.1 < st.idx
  keys_sorted : init.Pairwise (fun a b => a.1 < b.1)
  pr_ne : pr ≠ []
  init_len : ∀ e ∈ init, 2 ≤ e.2.length
  head0 : (init.map (·.2) ++ [pr]).head?.bind List.head? = some v0
  links : BackLinked init.reverse pr.head?
  nodup : (spath (init.map (·.2) ++ [pr])).Nodup
  heads : ∀ v ∈ spath (init.map (·.2) ++ [pr]), isHit v = true → (∃ e ∈ init, e.2.head? = some v) ∨ pr.head? = some v
  seen_sub : ∀ v ∈ spath (init.map (·.2) ++ [pr]), v ∈ seen
  complete_nodup : ∀ e ∈ st.complete, e.2.Nodup
  last_eq : pr.getLast? = seen.getLast?
  area : (st.complete.map (fun e => closedSum e.2)).sum + partsSum (init.map (·.2) ++ [pr]) = chainSum cross0 seen
  ckeys : (st.complete.map (·.1)).Nodup ∧ ∀ e ∈ st.complete, e.1 ≤ st.idx ∧ (∀ x ∈ init, x.1 ≠ e.1) ∧ e.1 ≠ st.idx

theorem fl_of_backLinked : ∀ (rev : StackL) (q : List P) (rest : List (List P)), BackLinked rev q.head? → FL (q :: rest) →
    FL (rev.reverse.map (·.2) ++ q :: rest)
  | [], q, rest, _, h => by simpa using h
  | (k, part) :: rev', q, rest, hl, h => by
    obtain ⟨hne, _, hlast, hrest⟩ := hl
    have := fl_of_backLinked rev' part (q :: rest) hrest ⟨hne, hlast, h⟩
    simpa [List.append_assoc] using this

theorem keys_ne_of_lt (init : StackL) (k : Nat) (h : ∀ e ∈ init, e.1 < k) : ∀ e ∈ init, e.1 ≠ k := fun e he => Nat.ne_of_lt (h e he)

/-- a vertex that is not flagged (and has not been seen before) is appended to the current partial ring -/
theorem step_unflagged (isHit : P → Bool) (v0 : P) (seen : List P) (st : SplitState) (init : StackL) (pr : List P)
    (inv : SI isHit v0 seen st init pr) (vi : Nat) (v : P) (hv : isHit v = false) (hnew : v ∉ seen) :
    ∃ st', splitStep isHit st vi v false = .ok st' ∧ SI isHit v0 (seen ++ [v]) st' init (pr ++ [v]) := by
  have hk := keys_ne_of_lt init st.idx inv.keys_lt
  refine ⟨{ st with stack := init ++ [(st.idx, pr ++ [v])] }, ?_, ?_⟩
  · unfold splitStep stack1Of
    simp only [hv, Bool.not_false, Bool.or_true, Bool.and_true, if_true]
    rw [inv.stack_eq, sGet_last init st.idx pr hk]
    simp only [sSet_last init st.idx pr (pr ++ [v]) hk]
  · have hpath : spath (init.map (·.2) ++ [pr ++ [v]]) = spath (init.map (·.2) ++ [pr]) ++ [v] := spath_snoc_last _ pr v inv.pr_ne
    have hhead : (pr ++ [v]).head? = pr.head? := head?_append_of_ne_nil pr _ inv.pr_ne
    constructor
    · rfl
    · exact inv.keys_lt
    · exact inv.keys_sorted
    · simp
    · exact inv.init_len
    · have := inv.head0
      cases hi : init with
      | nil => simp only [hi, List.map_nil, List.nil_append, List.head?_cons, Option.bind_some] at this ⊢; rw [hhead]; exact this
      | cons a t => simp only [hi, List.map_cons, List.cons_append, List.head?_cons, Option.bind_some] at this ⊢; exact this
    · rw [hhead]; exact inv.links
    · rw [hpath]
      apply List.nodup_append.2
      refine ⟨inv.nodup, by simp, ?_⟩
      intro a ha b hb
      simp only [List.mem_singleton] at hb
      subst hb
      intro hab; subst hab
      exact hnew (inv.seen_sub _ ha)
    · intro x hx hflag
      rw [hpath] at hx
      rcases List.mem_append.1 hx with h | h
      · rcases inv.heads x h hflag with h1 | h1
        · exact Or.inl h1
        · exact Or.inr (by rw [hhead]; exact h1)
      · simp only [List.mem_singleton] at h; subst h; rw [hv] at hflag; cases hflag
    · intro x hx
      rw [hpath] at hx
      rcases List.mem_append.1 hx with h | h
      · exact List.mem_append_left _ (inv.seen_sub _ h)
      · exact List.mem_append_right _ h
    · exact inv.complete_nodup
    · simp [List.getLast?_append]
    · have h1 : partsSum (init.map (·.2) ++ [pr ++ [v]]) = partsSum (init.map (·.2) ++ [pr]) + edgeTo pr v := by
        rw [partsSum_append, partsSum_append]
        simp only [partsSum, List.map_cons, List.map_nil, List.sum_cons, List.sum_nil, Int.add_zero]
        rw [chainSum_snoc']; ring
      rw [h1, chainSum_snoc', edgeTo_congr pr seen v inv.last_eq, ← inv.area]
      simp only
      ring
    · exact inv.ckeys

/-! ### closing the current partial ring -/

theorem filter_used (pre post : StackL) (k idx : Nat) (part temp : List P)
    (hs : (pre ++ (k, part) :: post).Pairwise (fun a b => a.1 < b.1)) (hlt : ∀ e ∈ pre ++ (k, part) :: post, e.1 < idx) :
    (k :: (post.reverse.map (·.1)).reverse ++ [idx]).foldl sDelete (pre ++ (k, part) :: post ++ [(idx, temp)]) = pre := by
  rw [foldl_sDelete_eq_filter]
  have hsplit := List.pairwise_append.1 hs
  have hkpost := List.pairwise_cons.1 hsplit.2.1
  simp only [List.map_reverse, List.reverse_reverse, List.filter_append, List.filter_cons, List.filter_nil]
  have hpre : pre.filter (fun e => !(k :: List.map (fun x => x.1) post ++ [idx]).contains e.1) = pre := by
    apply List.filter_eq_self.2
    intro e he
    simp only [Bool.not_eq_true', List.contains_eq_mem, List.mem_append, List.mem_cons, List.mem_map, List.mem_singleton, List.not_mem_nil, or_false, decide_eq_false_iff_not]
    intro hc
    have h1 : e.1 < k := hsplit.2.2 e he (k, part) List.mem_cons_self
    rcases hc with (hc | ⟨x, hx, hxe⟩) | hc
    · omega
    · have := hsplit.2.2 e he x (List.mem_cons_of_mem _ hx); omega
    · have := hlt e (List.mem_append_left _ he); omega
  have hpost : post.filter (fun e => !(k :: List.map (fun x => x.1) post ++ [idx]).contains e.1) = [] := by
    apply List.filter_eq_nil_iff.2
    intro e he
    simp only [Bool.not_eq_true', Bool.not_eq_false, List.contains_eq_mem, decide_eq_true_eq]
    exact List.mem_append_left _ (List.mem_cons_of_mem _ (List.mem_map.2 ⟨e, he, rfl⟩))
  rw [hpre, hpost]
  simp

theorem getLast?_snoc (pr : List P) (v : P) : (pr ++ [v]).getLast? = some v := by simp

theorem backLinked_split : ∀ (walked : List (Nat × List P)) (k : Nat) (part : List P) (rest : List (Nat × List P)) (h : Option P),
    BackLinked (walked ++ (k, part) :: rest) h → BackLinked rest part.head? ∧ part ≠ [] ∧ (∀ e ∈ walked, e.2 ≠ [])
  | [], k, part, rest, h, hl => ⟨hl.2.2.2, hl.1, by intro e he; cases he⟩
  | (k', p') :: w, k, part, rest, h, hl => by
    obtain ⟨h1, _, _, h4⟩ := hl
    obtain ⟨r1, r2, r3⟩ := backLinked_split w k part rest _ h4
    exact ⟨r1, r2, by
      intro e he
      rcases List.mem_cons.1 he with h | h
      · subst h; exact h1
      · exact r3 e h⟩

/-- what `closeOrMerge` does when the vertex `v` has been appended to the current partial ring `pr` -/
theorem closeOrMerge_cases (isHit : P → Bool) (v0 : P) (seen : List P) (st : SplitState) (init : StackL) (pr : List P)
    (inv : SI isHit v0 seen st init pr) (v : P) :
    (pr.head? = some v ∧ closeOrMerge (init ++ [(st.idx, pr ++ [v])]) st.idx st.complete (pr ++ [v]) = .ok (init, st.complete ++ [(st.idx, pr)])) ∨
    (pr.head? ≠ some v ∧ (∀ e ∈ init, e.2.head? ≠ some v) ∧
      closeOrMerge (init ++ [(st.idx, pr ++ [v])]) st.idx st.complete (pr ++ [v]) = .ok (init ++ [(st.idx, pr ++ [v])], st.complete)) ∨
    (pr.head? ≠ some v ∧ ∃ pre k part post, init = pre ++ (k, part) :: post ∧ part.head? = some v ∧ (∀ e ∈ post, e.2.head? ≠ some v) ∧
      closeOrMerge (init ++ [(st.idx, pr ++ [v])]) st.idx st.complete (pr ++ [v]) =
        .ok (pre, st.complete ++ [(k, spath (part :: post.map (·.2) ++ [pr]))])) := by
  have hk := keys_ne_of_lt init st.idx inv.keys_lt
  have hhead : (pr ++ [v]).head? = pr.head? := head?_append_of_ne_nil pr _ inv.pr_ne
  have hlast : (pr ++ [v]).getLast? = some v := getLast?_snoc pr v
  unfold closeOrMerge
  by_cases hc : pr.head? = some v
  · left
    refine ⟨hc, ?_⟩
    have : (pr ++ [v]).head? = (pr ++ [v]).getLast? := by rw [hhead, hlast, hc]
    rw [if_pos this, sDelete_last init st.idx _ hk, List.dropLast_concat]
  · right
    have hne : ¬ ((pr ++ [v]).head? = (pr ++ [v]).getLast?) := by rw [hhead, hlast]; exact hc
    rw [if_neg hne]
    have hrev : (init ++ [(st.idx, pr ++ [v])]).reverse = (st.idx, pr ++ [v]) :: init.reverse := by simp
    rw [hrev]
    simp only
    have h2 : 2 ≤ (pr ++ [v]).length := by
      have : 1 ≤ pr.length := by cases pr with | nil => exact absurd rfl inv.pr_ne | cons a t => simp
      simp; omega
    rcases mergeBack_spec v init.reverse (pr ++ [v]) [st.idx] h2 hlast (by rw [hhead]; exact inv.links) with ⟨hm, hall⟩ | ⟨walked, k, part, rest, he, hw, hp, hm⟩
    · left
      refine ⟨hc, fun e he => hall e (List.mem_reverse.2 he), ?_⟩
      rw [hm]
    · right
      have hinit : init = rest.reverse ++ (k, part) :: walked.reverse := by
        have := congrArg List.reverse he
        simpa using this
      obtain ⟨_, hpne, hwne⟩ := backLinked_split walked k part rest _ (by rw [← he]; exact inv.links)
      refine ⟨hc, rest.reverse, k, part, walked.reverse, hinit, hp, fun e he' => hw e (List.mem_reverse.1 he'), ?_⟩
      rw [hm]
      simp only
      have hdel := filter_used rest.reverse walked.reverse k st.idx part (pr ++ [v]) (by rw [← hinit]; exact inv.keys_sorted) (by rw [← hinit]; exact inv.keys_lt)
      have hstack : init ++ [(st.idx, pr ++ [v])] = rest.reverse ++ (k, part) :: walked.reverse ++ [(st.idx, pr ++ [v])] := by rw [hinit]
      rw [hstack, List.reverse_reverse] at *
      rw [hdel]
      -- the ring
      have hring : (part ++ (mfold walked (pr ++ [v])).tail).dropLast = spath (part :: walked.reverse.map (·.2) ++ [pr]) := by
        rw [mfold_spath walked _ hwne]
        have hX : ∃ s0 srest, walked.reverse.map (·.2) ++ [pr ++ [v]] = s0 :: srest ∧ s0 ≠ [] := by
          cases hwr : walked.reverse with
          | nil => exact ⟨pr ++ [v], [], by simp, by simp⟩
          | cons a t =>
            refine ⟨a.2, t.map (·.2) ++ [pr ++ [v]], by simp, hwne a ?_⟩
            exact List.mem_reverse.1 (by rw [hwr]; exact List.mem_cons_self)
        obtain ⟨s0, srest, hs, hs0⟩ := hX
        rw [hs, spath_cons_tail s0 srest hs0, ← hs]
        have : part ++ (walked.reverse.map (·.2) ++ [pr ++ [v]]).flatMap List.tail = spath (part :: walked.reverse.map (·.2) ++ [pr ++ [v]]) := by
          simp [spath]
        rw [this]
        have h3 := spath_snoc_last (part :: walked.reverse.map (·.2)) pr v inv.pr_ne
        simp only [List.cons_append] at h3 ⊢
        rw [h3, List.dropLast_concat]
      rw [hring]

/-! ### the invariant after a flagged vertex -/

/-- the vertex the newest partial ring below ends with is on the path of the rings below -/
theorem backLinked_last (pre : StackL) (h : Option P) (hl : BackLinked pre.reverse h) (hne : pre ≠ []) (hlen : ∀ e ∈ pre, 2 ≤ e.2.length) :
    ∃ x, h = some x ∧ x ∈ spath (pre.map (·.2)) := by
  obtain ⟨t, a, rfl⟩ : ∃ t a, pre = t ++ [a] := ⟨pre.dropLast, pre.getLast hne, (List.dropLast_append_getLast hne).symm⟩
  rw [List.reverse_append] at hl
  simp only [List.reverse_cons, List.reverse_nil, List.nil_append, List.cons_append] at hl
  obtain ⟨_, hsome, hlast, _⟩ := hl
  obtain ⟨x, hx⟩ := Option.isSome_iff_exists.1 hsome
  refine ⟨x, hx, ?_⟩
  rw [List.map_append]
  exact last_mem_spath (t.map (·.2)) a.2 x (by rw [hlast, hx]) (hlen a (by simp))

theorem nodup_prefix (pre rest : List (List P)) (h : (spath (pre ++ rest)).Nodup) : (spath pre).Nodup := by
  cases pre with
  | nil => simp [spath]
  | cons a t =>
    rw [spath_append (a :: t) rest (by simp)] at h
    exact (List.nodup_append.1 h).1

theorem mem_spath_prefix (pre rest : List (List P)) (x : P) (hx : x ∈ spath pre) : x ∈ spath (pre ++ rest) := by
  cases pre with
  | nil => simp [spath] at hx
  | cons a t => rw [spath_append (a :: t) rest (by simp)]; exact List.mem_append_left _ hx

theorem backLinked_prefix : ∀ (a b : List (Nat × List P)) (h : Option P), BackLinked (a ++ b) h → BackLinked a h
  | [], _, _, _ => trivial
  | (k, p) :: a', b, h, hl => by
    obtain ⟨h1, h2, h3, h4⟩ := hl
    exact ⟨h1, h2, h3, backLinked_prefix a' b _ h4⟩

theorem partsSum_snoc_last (ps : List (List P)) (pr : List P) (v : P) :
    partsSum (ps ++ [pr ++ [v]]) = partsSum (ps ++ [pr]) + edgeTo pr v := by
  rw [partsSum_append, partsSum_append]
  simp only [partsSum, List.map_cons, List.map_nil, List.sum_cons, List.sum_nil, Int.add_zero]
  rw [chainSum_snoc']; ring

theorem partsSum_snoc_single (ps : List (List P)) (v : P) : partsSum (ps ++ [[v]]) = partsSum ps := by
  rw [partsSum_append]; simp [partsSum, chainSum]

theorem closedSum_of_head (pr : List P) (v : P) (h : pr.head? = some v) : closedSum pr = chainSum cross0 pr + edgeTo pr v := by
  cases pr with
  | nil => cases h
  | cons a t =>
    simp only [List.head?_cons, Option.some.injEq] at h; subst h
    unfold closedSum
    simp only
    rw [chainSum_snoc']

/-- case A: the current partial ring closes on itself -/
theorem si_after_close (isHit : P → Bool) (v0 : P) (seen : List P) (st : SplitState) (init : StackL) (pr : List P)
    (inv : SI isHit v0 seen st init pr) (v : P) (hc : pr.head? = some v) :
    SI isHit v0 (seen ++ [v]) ⟨st.idx + 1, init ++ [(st.idx + 1, [v])], st.complete ++ [(st.idx, pr)]⟩ init [v] := by
  have hold : ∀ x ∈ spath (init.map (·.2)), x ∈ spath (init.map (·.2) ++ [pr]) := fun x hx => mem_spath_prefix _ _ x hx
  have hnew : init ≠ [] → spath (init.map (·.2) ++ [[v]]) = spath (init.map (·.2)) := by
    intro h; rw [spath_append_singleton _ _ (by simpa using h)]; simp
  constructor
  · rfl
  · intro e he; have := inv.keys_lt e he; simp only; omega
  · exact inv.keys_sorted
  · simp
  · exact inv.init_len
  · have := inv.head0
    cases hi : init with
    | nil => simp only [hi, List.map_nil, List.nil_append, List.head?_cons, Option.bind_some] at this ⊢; rw [← hc, this]
    | cons a t => simp only [hi, List.map_cons, List.cons_append, List.head?_cons, Option.bind_some] at this ⊢; exact this
  · have := inv.links; rw [hc] at this; exact this
  · cases hi : init with
    | nil => simp [spath]
    | cons a t =>
      rw [← hi, spath_append_singleton _ _ (by rw [hi]; simp)]
      simp only [List.tail_cons, List.append_nil]
      exact nodup_prefix _ [pr] inv.nodup
  · intro x hx hflag
    by_cases hi : init = []
    · subst hi; simp [spath] at hx; subst hx; exact Or.inr rfl
    · rw [hnew hi] at hx
      rcases inv.heads x (hold x hx) hflag with h | h
      · exact Or.inl h
      · rw [hc] at h; exact Or.inr h
  · intro x hx
    by_cases hi : init = []
    · subst hi; simp [spath] at hx; subst hx; simp
    · rw [hnew hi] at hx
      exact List.mem_append_left _ (inv.seen_sub x (hold x hx))
  · intro e he
    rcases List.mem_append.1 he with h | h
    · exact inv.complete_nodup e h
    · simp only [List.mem_singleton] at h; subst h
      simp only
      have : (spath (pr :: [])).Nodup := by
        apply nodup_spath_suffix (init.map (·.2)) pr [] inv.pr_ne inv.nodup
        by_cases hi : init = []
        · left; simp [hi]
        · right
          obtain ⟨x, hx1, hx2⟩ := backLinked_last init _ inv.links hi inv.init_len
          rw [hx1]; simpa using hx2
      simpa [spath] using this
  · simp [List.getLast?_append]
  · simp only [List.map_append, List.map_cons, List.map_nil, List.sum_append, List.sum_cons, List.sum_nil, Int.add_zero]
    rw [partsSum_snoc_single, closedSum_of_head pr v hc, chainSum_snoc', edgeTo_congr pr seen v inv.last_eq, ← inv.area, partsSum_append]
    simp only [partsSum, List.map_cons, List.map_nil, List.sum_cons, List.sum_nil, Int.add_zero]
    ring
  · obtain ⟨hnd, hall⟩ := inv.ckeys
    constructor
    · simp only [List.map_append, List.map_cons, List.map_nil]
      apply List.nodup_append.2
      refine ⟨hnd, by simp, ?_⟩
      intro a ha b hb
      simp only [List.mem_singleton] at hb; subst hb
      obtain ⟨e, he, rfl⟩ := List.mem_map.1 ha
      exact (hall e he).2.2
    · intro e he
      rcases List.mem_append.1 he with h | h
      · obtain ⟨h1, h2, h3⟩ := hall e h
        exact ⟨by simp only; omega, h2, by simp only; omega⟩
      · simp only [List.mem_singleton] at h; subst h
        exact ⟨by simp, fun x hx => Nat.ne_of_lt (inv.keys_lt x hx), by simp⟩

/-- case B1: the flagged vertex has not been seen on the stack: the current partial ring stays, a new one starts -/
theorem si_after_push (isHit : P → Bool) (v0 : P) (seen : List P) (st : SplitState) (init : StackL) (pr : List P)
    (inv : SI isHit v0 seen st init pr) (v : P) (hv : isHit v = true) (hc : pr.head? ≠ some v) (hall : ∀ e ∈ init, e.2.head? ≠ some v) :
    SI isHit v0 (seen ++ [v]) ⟨st.idx + 1, (init ++ [(st.idx, pr ++ [v])]) ++ [(st.idx + 1, [v])], st.complete⟩ (init ++ [(st.idx, pr ++ [v])]) [v] := by
  have hhead : (pr ++ [v]).head? = pr.head? := head?_append_of_ne_nil pr _ inv.pr_ne
  have hmap : (init ++ [(st.idx, pr ++ [v])]).map (·.2) = init.map (·.2) ++ [pr ++ [v]] := by simp
  have hpath : spath ((init ++ [(st.idx, pr ++ [v])]).map (·.2) ++ [[v]]) = spath (init.map (·.2) ++ [pr]) ++ [v] := by
    rw [hmap, spath_append_singleton _ _ (by simp), spath_snoc_last _ pr v inv.pr_ne]; simp
  have hvnew : v ∉ spath (init.map (·.2) ++ [pr]) := by
    intro hin
    rcases inv.heads v hin hv with ⟨e, he, hh⟩ | h
    · exact hall e he hh
    · exact hc h
  constructor
  · rfl
  · intro e he
    rcases List.mem_append.1 he with h | h
    · have := inv.keys_lt e h; simp only; omega
    · simp only [List.mem_singleton] at h; subst h; simp
  · apply List.pairwise_append.2
    refine ⟨inv.keys_sorted, by simp, ?_⟩
    intro a ha b hb
    simp only [List.mem_singleton] at hb; subst hb
    exact inv.keys_lt a ha
  · simp
  · intro e he
    rcases List.mem_append.1 he with h | h
    · exact inv.init_len e h
    · simp only [List.mem_singleton] at h; subst h
      have : 1 ≤ pr.length := by cases pr with | nil => exact absurd rfl inv.pr_ne | cons a t => simp
      simp; omega
  · have := inv.head0
    rw [hmap]
    cases hi : init with
    | nil => simp only [hi, List.map_nil, List.nil_append, List.head?_cons, Option.bind_some, List.cons_append] at this ⊢; rw [hhead]; exact this
    | cons a t => simp only [hi, List.map_cons, List.cons_append, List.head?_cons, Option.bind_some] at this ⊢; exact this
  · rw [List.reverse_append]
    simp only [List.reverse_cons, List.reverse_nil, List.nil_append, List.cons_append, List.head?_cons]
    exact ⟨by simp, rfl, by simp, by rw [hhead]; exact inv.links⟩
  · rw [hpath]
    apply List.nodup_append.2
    refine ⟨inv.nodup, by simp, ?_⟩
    intro a ha b hb
    simp only [List.mem_singleton] at hb; subst hb
    intro hab; subst hab
    exact hvnew ha
  · intro x hx hflag
    rw [hpath] at hx
    rcases List.mem_append.1 hx with h | h
    · rcases inv.heads x h hflag with ⟨e, he, hh⟩ | h1
      · exact Or.inl ⟨e, List.mem_append_left _ he, hh⟩
      · exact Or.inl ⟨(st.idx, pr ++ [v]), by simp, by simp only; rw [hhead]; exact h1⟩
    · simp only [List.mem_singleton] at h; subst h; exact Or.inr rfl
  · intro x hx
    rw [hpath] at hx
    rcases List.mem_append.1 hx with h | h
    · exact List.mem_append_left _ (inv.seen_sub x h)
    · exact List.mem_append_right _ h
  · exact inv.complete_nodup
  · simp [List.getLast?_append]
  · rw [hmap, partsSum_snoc_single, partsSum_snoc_last, chainSum_snoc', edgeTo_congr pr seen v inv.last_eq, ← inv.area]
    simp only
    ring
  · obtain ⟨hnd, hall⟩ := inv.ckeys
    refine ⟨hnd, ?_⟩
    intro e he
    obtain ⟨h1, h2, h3⟩ := hall e he
    refine ⟨by simp only; omega, ?_, by simp only; omega⟩
    intro x hx
    rcases List.mem_append.1 hx with h | h
    · exact h2 x h
    · simp only [List.mem_singleton] at h; subst h; exact fun hh => h3 hh.symm

/-- walking back from the current partial ring over `walked` (newest first) down to `part`: the first vertex of each of them, and of the
current one (`h`), is the last vertex of the ring before it, hence in the tail region of the path of `part :: walked.reverse` -/
theorem heads_in_tails : ∀ (walked : List (Nat × List P)) (k : Nat) (part : List P) (rest : List (Nat × List P)) (h : Option P),
    BackLinked (walked ++ (k, part) :: rest) h → 2 ≤ part.length → (∀ e ∈ walked, 2 ≤ e.2.length) →
    (∃ x, h = some x ∧ x ∈ (part :: walked.reverse.map (·.2)).flatMap List.tail) ∧
    (∀ e ∈ walked, ∃ x, e.2.head? = some x ∧ x ∈ (part :: walked.reverse.map (·.2)).flatMap List.tail)
  | [], k, part, rest, h, hl, hp, _ => by
    obtain ⟨_, hsome, hlast, _⟩ := hl
    obtain ⟨x, hx⟩ := Option.isSome_iff_exists.1 hsome
    refine ⟨⟨x, hx, ?_⟩, by intro e he; cases he⟩
    simp only [List.reverse_nil, List.map_nil, List.flatMap_cons, List.flatMap_nil, List.append_nil]
    cases part with
    | nil => simp at hp
    | cons a t =>
      cases t with
      | nil => simp at hp
      | cons b t' =>
        rw [hx, List.getLast?_cons_cons] at hlast
        exact List.mem_of_mem_getLast? hlast
  | (k', p') :: w, k, part, rest, h, hl, hp, hw => by
    obtain ⟨_, hsome, hlast, hrest⟩ := hl
    obtain ⟨⟨y, hy1, hy2⟩, ih2⟩ := heads_in_tails w k part rest p'.head? hrest hp (fun e he => hw e (List.mem_cons_of_mem _ he))
    obtain ⟨x, hx⟩ := Option.isSome_iff_exists.1 hsome
    have hsub : ∀ z ∈ (part :: w.reverse.map (·.2)).flatMap List.tail, z ∈ (part :: ((k', p') :: w).reverse.map (·.2)).flatMap List.tail := by
      intro z hz
      simp only [List.reverse_cons, List.map_append, List.map_cons, List.map_nil, List.flatMap_cons, List.flatMap_append, List.flatMap_nil, List.append_nil, List.mem_append] at hz ⊢
      rcases hz with h1 | h1
      · exact Or.inl h1
      · exact Or.inr (Or.inl h1)
    refine ⟨⟨x, hx, ?_⟩, ?_⟩
    · have hp'len := hw (k', p') List.mem_cons_self
      have : x ∈ p'.tail := by
        cases p' with
        | nil => simp at hp'len
        | cons a t =>
          cases t with
          | nil => simp at hp'len
          | cons b t' =>
            rw [hx, List.getLast?_cons_cons] at hlast
            exact List.mem_of_mem_getLast? hlast
      simp only [List.reverse_cons, List.map_append, List.map_cons, List.map_nil, List.flatMap_cons, List.flatMap_append, List.flatMap_nil, List.append_nil, List.mem_append]
      exact Or.inr (Or.inr this)
    · intro e he
      rcases List.mem_cons.1 he with h1 | h1
      · subst h1; exact ⟨y, hy1, hsub y hy2⟩
      · obtain ⟨z, hz1, hz2⟩ := ih2 e h1
        exact ⟨z, hz1, hsub z hz2⟩

/-- case B2: the flagged vertex is the first vertex of a partial ring on the stack: everything from there on is one complete ring -/
theorem si_after_merge (isHit : P → Bool) (v0 : P) (seen : List P) (st : SplitState) (init : StackL) (pr : List P)
    (inv : SI isHit v0 seen st init pr) (v : P) (pre : StackL) (k : Nat) (part : List P) (post : StackL)
    (hinit : init = pre ++ (k, part) :: post) (hp : part.head? = some v) :
    SI isHit v0 (seen ++ [v]) ⟨st.idx + 1, pre ++ [(st.idx + 1, [v])], st.complete ++ [(k, spath (part :: post.map (·.2) ++ [pr]))]⟩ pre [v] := by
  have hrev : init.reverse = post.reverse ++ (k, part) :: pre.reverse := by rw [hinit]; simp
  have hlinks := inv.links
  rw [hrev] at hlinks
  obtain ⟨hpre_links, hpart_ne, _⟩ := backLinked_split post.reverse k part pre.reverse _ hlinks
  have hmap : init.map (·.2) ++ [pr] = pre.map (·.2) ++ (part :: post.map (·.2) ++ [pr]) := by rw [hinit]; simp
  have hnd := inv.nodup
  rw [hmap] at hnd
  have hprelen : ∀ e ∈ pre, 2 ≤ e.2.length := fun e he => inv.init_len e (by rw [hinit]; exact List.mem_append_left _ he)
  have hold : ∀ x ∈ spath (pre.map (·.2)), x ∈ spath (init.map (·.2) ++ [pr]) := by
    intro x hx; rw [hmap]; exact mem_spath_prefix _ _ x hx
  have hnew : pre ≠ [] → spath (pre.map (·.2) ++ [[v]]) = spath (pre.map (·.2)) := by
    intro h; rw [spath_append_singleton _ _ (by simpa using h)]; simp
  -- heads of the rings that are taken away lie in the tail region, which is disjoint from the path of `pre`
  have htails := heads_in_tails post.reverse k part pre.reverse pr.head? hlinks
    (inv.init_len (k, part) (by rw [hinit]; simp)) (fun e he => inv.init_len e (by rw [hinit]; simp; exact Or.inr (Or.inr (List.mem_reverse.1 he))))
  rw [List.reverse_reverse] at htails
  have hdisj : pre ≠ [] → ∀ x ∈ spath (pre.map (·.2)), x ∉ (part :: post.map (·.2)).flatMap List.tail := by
    intro hne x hx hxt
    rw [spath_append _ _ (by simpa using hne)] at hnd
    have h3 := (List.nodup_append.1 hnd).2.2 x hx x
    apply h3 _ rfl
    have : (part :: post.map (·.2) ++ [pr]).flatMap List.tail = (part :: post.map (·.2)).flatMap List.tail ++ pr.tail := by
      simp [List.flatMap_append]
    rw [this]
    exact List.mem_append_left _ hxt
  constructor
  · rfl
  · intro e he; have := inv.keys_lt e (by rw [hinit]; exact List.mem_append_left _ he); simp only; omega
  · have := inv.keys_sorted; rw [hinit] at this; exact (List.pairwise_append.1 this).1
  · simp
  · exact hprelen
  · have := inv.head0
    rw [hinit] at this
    cases hi : pre with
    | nil => simp only [hi, List.nil_append, List.map_cons, List.cons_append, List.head?_cons, Option.bind_some, List.map_nil] at this ⊢; rw [← hp, this]
    | cons a t => simp only [hi, List.map_cons, List.cons_append, List.head?_cons, Option.bind_some] at this ⊢; exact this
  · rw [hp] at hpre_links; exact hpre_links
  · by_cases hi : pre = []
    · subst hi; simp [spath]
    · rw [hnew hi]; exact nodup_prefix _ _ hnd
  · intro x hx hflag
    by_cases hi : pre = []
    · subst hi; simp [spath] at hx; subst hx; exact Or.inr rfl
    · rw [hnew hi] at hx
      rcases inv.heads x (hold x hx) hflag with ⟨e, he, hh⟩ | h
      · rw [hinit] at he
        rcases List.mem_append.1 he with h1 | h1
        · exact Or.inl ⟨e, h1, hh⟩
        · rcases List.mem_cons.1 h1 with h2 | h2
          · subst h2; simp only at hh; rw [hp] at hh; exact Or.inr (by simpa using hh)
          · exfalso
            obtain ⟨z, hz1, hz2⟩ := htails.2 e (List.mem_reverse.2 h2)
            rw [hh] at hz1; cases hz1
            exact hdisj hi x hx hz2
      · exfalso
        obtain ⟨z, hz1, hz2⟩ := htails.1
        rw [h] at hz1; cases hz1
        exact hdisj hi x hx hz2
  · intro x hx
    by_cases hi : pre = []
    · subst hi; simp [spath] at hx; subst hx; simp
    · rw [hnew hi] at hx
      exact List.mem_append_left _ (inv.seen_sub x (hold x hx))
  · intro e he
    rcases List.mem_append.1 he with h | h
    · exact inv.complete_nodup e h
    · simp only [List.mem_singleton] at h; subst h
      simp only
      have := nodup_spath_suffix (pre.map (·.2)) part (post.map (·.2) ++ [pr]) hpart_ne (by simpa using hnd) (by
        by_cases hi : pre = []
        · left; simp [hi]
        · right
          obtain ⟨x, hx1, hx2⟩ := backLinked_last pre _ hpre_links hi hprelen
          rw [hx1]; simpa using hx2)
      simpa using this
  · simp [List.getLast?_append]
  · -- the ring that is completed carries exactly the edges of the partial rings it is made of, plus the closing edge
    have hfl : FL (part :: post.map (·.2) ++ [pr ++ [v]]) := by
      have hbl : BackLinked (post.reverse ++ [(k, part)]) (pr ++ [v]).head? := by
        rw [head?_append_of_ne_nil pr _ inv.pr_ne]
        have : post.reverse ++ (k, part) :: pre.reverse = (post.reverse ++ [(k, part)]) ++ pre.reverse := by simp
        rw [this] at hlinks
        exact backLinked_prefix _ _ _ hlinks
      have := fl_of_backLinked (post.reverse ++ [(k, part)]) (pr ++ [v]) [] hbl (by simp [FL])
      simpa using this
    have hring : closedSum (spath (part :: post.map (·.2) ++ [pr])) = partsSum (part :: post.map (·.2) ++ [pr]) + edgeTo pr v := by
      have hhead : (spath (part :: post.map (·.2) ++ [pr])).head? = some v := by
        cases part with
        | nil => exact absurd rfl hpart_ne
        | cons a t => simp only [List.head?_cons, Option.some.injEq] at hp; subst hp; simp [spath]
      rw [closedSum_of_head _ v hhead]
      have h1 := spath_snoc_last (part :: post.map (·.2)) pr v inv.pr_ne
      have h2 := chainSum_spath _ hfl
      simp only [List.cons_append] at h1 h2
      rw [h1, chainSum_snoc'] at h2
      have h3 := partsSum_snoc_last (part :: post.map (·.2)) pr v
      simp only [List.cons_append] at h3
      -- the last vertex of the ring is the last vertex of `pr`
      have hlast : (spath (part :: (post.map (·.2) ++ [pr]))).getLast? = pr.getLast? := by
        have hfl' : FL (part :: post.map (·.2) ++ [pr]) := by
          have hbl : BackLinked (post.reverse ++ [(k, part)]) pr.head? := by
            have : post.reverse ++ (k, part) :: pre.reverse = (post.reverse ++ [(k, part)]) ++ pre.reverse := by simp
            rw [this] at hlinks
            exact backLinked_prefix _ _ _ hlinks
          have := fl_of_backLinked (post.reverse ++ [(k, part)]) pr [] hbl (by simp [FL, inv.pr_ne])
          simpa using this
        have := spath_getLast (part :: post.map (·.2)) pr (by simpa using hfl')
        simpa using this
      simp only [List.cons_append] at h2 h3 hlast ⊢
      rw [edgeTo_congr _ pr v hlast] at h2 ⊢
      omega
    have harea := inv.area
    rw [hmap, partsSum_append] at harea
    simp only [List.map_append, List.map_cons, List.map_nil, List.sum_append, List.sum_cons, List.sum_nil, Int.add_zero]
    rw [partsSum_snoc_single, hring, chainSum_snoc', edgeTo_congr pr seen v inv.last_eq, ← harea]
    ring
  · obtain ⟨hnd', hall⟩ := inv.ckeys
    have hk_init : (k, part) ∈ init := by rw [hinit]; simp
    constructor
    · simp only [List.map_append, List.map_cons, List.map_nil]
      apply List.nodup_append.2
      refine ⟨hnd', by simp, ?_⟩
      intro a ha b hb
      simp only [List.mem_singleton] at hb
      rw [hb]
      obtain ⟨e, he, rfl⟩ := List.mem_map.1 ha
      exact fun hh => (hall e he).2.1 (k, part) hk_init hh.symm
    · intro e he
      rcases List.mem_append.1 he with h | h
      · obtain ⟨h1, h2, h3⟩ := hall e h
        exact ⟨by simp only; omega, fun x hx => h2 x (by rw [hinit]; exact List.mem_append_left _ hx), by simp only; omega⟩
      · simp only [List.mem_singleton] at h; subst h
        have hklt := inv.keys_lt (k, part) hk_init
        refine ⟨by simp only at hklt ⊢; omega, ?_, by simp only at hklt ⊢; omega⟩
        intro x hx
        have hs := inv.keys_sorted
        rw [hinit] at hs
        have := (List.pairwise_append.1 hs).2.2 x hx (k, part) List.mem_cons_self
        simp only at this ⊢
        omega

/-! ### one step, the closing step, the loop -/

theorem new_partial (stack2 : StackL) (k : Nat) (v : P) (h : ∀ e ∈ stack2, e.1 < k) :
    sSet stack2 k ((sGet stack2 k).getD [] ++ [v]) = stack2 ++ [(k, [v])] := by
  have hne : ∀ e ∈ stack2, e.1 ≠ k := fun e he => Nat.ne_of_lt (h e he)
  rw [sGet_none stack2 k hne, sSet_new stack2 k _ hne]; rfl

/-- a flagged vertex (not the first one of the ring): the step succeeds and re-establishes the invariant with a new current partial ring `[v]` -/
theorem step_flagged (isHit : P → Bool) (v0 : P) (seen : List P) (st : SplitState) (init : StackL) (pr : List P)
    (inv : SI isHit v0 seen st init pr) (vi : Nat) (hvi : vi ≠ 0) (v : P) (hv : isHit v = true) :
    ∃ st' init', splitStep isHit st vi v false = .ok st' ∧ SI isHit v0 (seen ++ [v]) st' init' [v] := by
  have hk := keys_ne_of_lt init st.idx inv.keys_lt
  have hvi' : (vi == 0) = false := by simpa using hvi
  have hstack1 : stack1Of isHit st vi v = init ++ [(st.idx, pr ++ [v])] := by
    unfold stack1Of
    simp only [hvi', hv, Bool.not_true, Bool.or_false, Bool.false_eq_true, if_false]
    rw [inv.stack_eq, sGet_last init st.idx pr hk, sSet_last init st.idx pr _ hk]; rfl
  obtain ⟨a, as, hpr⟩ : ∃ a as, pr = a :: as := by
    cases pr with
    | nil => exact absurd rfl inv.pr_ne
    | cons a as => exact ⟨a, as, rfl⟩
  have htemp : (sGet (init ++ [(st.idx, pr ++ [v])]) st.idx).getD [] = a :: (as ++ [v]) := by
    rw [sGet_last init st.idx _ hk, hpr]; rfl
  unfold splitStep
  simp only [hstack1, hvi', hv, Bool.not_true, Bool.or_false, Bool.false_and, Bool.false_eq_true, if_false, htemp]
  have hcons : a :: (as ++ [v]) = pr ++ [v] := by rw [hpr]; rfl
  rw [hcons]
  rcases closeOrMerge_cases isHit v0 seen st init pr inv v with ⟨hc, hres⟩ | ⟨hc, hall, hres⟩ | ⟨hc, pre, k, part, post, hinit, hp, _, hres⟩
  · rw [hres]
    simp only [Bool.not_false, if_true]
    rw [new_partial init (st.idx + 1) v (fun e he => by have := inv.keys_lt e he; omega)]
    exact ⟨_, init, rfl, si_after_close isHit v0 seen st init pr inv v hc⟩
  · rw [hres]
    simp only [Bool.not_false, if_true]
    rw [new_partial (init ++ [(st.idx, pr ++ [v])]) (st.idx + 1) v (by
      intro e he
      rcases List.mem_append.1 he with h | h
      · have := inv.keys_lt e h; omega
      · simp only [List.mem_singleton] at h; subst h; simp)]
    exact ⟨_, _, rfl, si_after_push isHit v0 seen st init pr inv v hv hc hall⟩
  · rw [hres]
    simp only [Bool.not_false, if_true]
    rw [new_partial pre (st.idx + 1) v (fun e he => by have := inv.keys_lt e (by rw [hinit]; exact List.mem_append_left _ he); omega)]
    exact ⟨_, pre, rfl, si_after_merge isHit v0 seen st init pr inv v pre k part post hinit hp⟩

theorem backLinked_last_tail (pre : StackL) (h : Option P) (hl : BackLinked pre.reverse h) (hne : pre ≠ []) (hlen : ∀ e ∈ pre, 2 ≤ e.2.length) :
    ∃ x, h = some x ∧ x ∈ (pre.map (·.2)).flatMap List.tail := by
  obtain ⟨t, a, rfl⟩ : ∃ t a, pre = t ++ [a] := ⟨pre.dropLast, pre.getLast hne, (List.dropLast_append_getLast hne).symm⟩
  rw [List.reverse_append] at hl
  simp only [List.reverse_cons, List.reverse_nil, List.nil_append, List.cons_append] at hl
  obtain ⟨_, hsome, hlast, _⟩ := hl
  obtain ⟨x, hx⟩ := Option.isSome_iff_exists.1 hsome
  refine ⟨x, hx, ?_⟩
  have h2 := hlen a (by simp)
  have : x ∈ a.2.tail := by
    obtain ⟨ka, pa⟩ := a
    cases pa with
    | nil => simp at h2
    | cons y ys =>
      cases ys with
      | nil => simp at h2
      | cons z zs =>
        simp only at hlast
        rw [hx, List.getLast?_cons_cons] at hlast
        exact List.mem_of_mem_getLast? hlast
  simp only [List.map_append, List.map_cons, List.map_nil, List.flatMap_append, List.flatMap_cons, List.flatMap_nil, List.append_nil, List.mem_append]
  exact Or.inr this

/-- the first vertex of the path occurs nowhere else on it -/
theorem v0_not_in_tails (f : List P) (rest : List (List P)) (v0 : P) (hf : f.head? = some v0) (hnd : (spath (f :: rest)).Nodup) :
    v0 ∉ (f :: rest).flatMap List.tail := by
  cases f with
  | nil => cases hf
  | cons a t =>
    simp only [List.head?_cons, Option.some.injEq] at hf; subst hf
    simp only [spath, List.cons_append] at hnd
    simpa using (List.nodup_cons.1 hnd).1

/-- the closing vertex (the ring's first vertex again): everything left on the stack closes into one last ring -/
theorem step_close (isHit : P → Bool) (v0 : P) (seen : List P) (st : SplitState) (init : StackL) (pr : List P)
    (inv : SI isHit v0 seen st init pr) (vi : Nat) :
    ∃ st', splitStep isHit st vi v0 true = .ok st' ∧ (∀ e ∈ st'.complete, e.2.Nodup) ∧
      (st'.complete.map (fun e => closedSum e.2)).sum = chainSum cross0 (seen ++ [v0]) ∧ (st'.complete.map (·.1)).Nodup := by
  have hk := keys_ne_of_lt init st.idx inv.keys_lt
  have hstack1 : stack1Of isHit st vi v0 = init ++ [(st.idx, pr ++ [v0])] := by
    unfold stack1Of
    rw [inv.stack_eq, sGet_last init st.idx pr hk]
    split
    · simp only [sSet_last init st.idx pr _ hk]
    · simp only [Option.getD_some, sSet_last init st.idx pr _ hk]
  obtain ⟨a, as, hpr⟩ : ∃ a as, pr = a :: as := by
    cases pr with
    | nil => exact absurd rfl inv.pr_ne
    | cons a as => exact ⟨a, as, rfl⟩
  have htemp : (sGet (init ++ [(st.idx, pr ++ [v0])]) st.idx).getD [] = a :: (as ++ [v0]) := by
    rw [sGet_last init st.idx _ hk, hpr]; rfl
  have hcons : a :: (as ++ [v0]) = pr ++ [v0] := by rw [hpr]; rfl
  -- the whole path: its first vertex v0 occurs nowhere in the tails
  have hv0 : v0 ∉ (init.map (·.2) ++ [pr]).flatMap List.tail := by
    have h0 := inv.head0
    cases hi : init.map (·.2) ++ [pr] with
    | nil => simp at hi
    | cons f rest =>
      rw [hi] at h0
      simp only [List.head?_cons, Option.bind_some] at h0
      have := inv.nodup; rw [hi] at this
      exact v0_not_in_tails f rest v0 h0 this
  unfold splitStep
  simp only [hstack1, Bool.not_true, Bool.and_false, Bool.false_eq_true, if_false, htemp]
  rw [hcons]
  rcases closeOrMerge_cases isHit v0 seen st init pr inv v0 with ⟨hc, hres⟩ | ⟨hc, hall, hres⟩ | ⟨hc, pre, k, part, post, hinit, hp, _, hres⟩
  · rw [hres]
    have hinit : init = [] := by
      by_contra hne
      obtain ⟨x, hx1, hx2⟩ := backLinked_last_tail init _ inv.links hne inv.init_len
      rw [hc] at hx1; cases hx1
      exact hv0 (by simp only [List.flatMap_append, List.mem_append]; exact Or.inl hx2)
    subst hinit
    simp only [Bool.not_true, Bool.false_eq_true, if_false, List.isEmpty_nil, Bool.not_true]
    have hsi := si_after_close isHit v0 seen st [] pr inv v0 hc
    refine ⟨_, rfl, hsi.complete_nodup, ?_, hsi.ckeys.1⟩
    have := hsi.area
    simpa [partsSum, chainSum] using this
  · exfalso
    have h0 := inv.head0
    cases hi : init with
    | nil => rw [hi] at h0; simp only [List.map_nil, List.nil_append, List.head?_cons, Option.bind_some] at h0; exact hc h0
    | cons e t =>
      rw [hi] at h0; simp only [List.map_cons, List.cons_append, List.head?_cons, Option.bind_some] at h0
      exact hall e (by rw [hi]; exact List.mem_cons_self) h0
  · rw [hres]
    have hpre : pre = [] := by
      by_contra hne
      have hrev : init.reverse = post.reverse ++ (k, part) :: pre.reverse := by rw [hinit]; simp
      have hlinks := inv.links
      rw [hrev] at hlinks
      obtain ⟨hpre_links, _, _⟩ := backLinked_split post.reverse k part pre.reverse _ hlinks
      obtain ⟨x, hx1, hx2⟩ := backLinked_last_tail pre _ hpre_links hne (fun e he => inv.init_len e (by rw [hinit]; exact List.mem_append_left _ he))
      rw [hp] at hx1; cases hx1
      apply hv0
      rw [hinit]
      simp only [List.map_append, List.flatMap_append, List.mem_append]
      exact Or.inl (Or.inl hx2)
    subst hpre
    simp only [Bool.not_true, Bool.false_eq_true, if_false, List.isEmpty_nil]
    have hsi := si_after_merge isHit v0 seen st init pr inv v0 [] k part post hinit hp
    refine ⟨_, rfl, hsi.complete_nodup, ?_, hsi.ckeys.1⟩
    have := hsi.area
    simpa [partsSum, chainSum] using this

/-- unflagged vertices occur only once: each one is new when it arrives -/
def UnflaggedNew (isHit : P → Bool) (seen vs : List P) : Prop :=
  ∀ pre v suf, vs = pre ++ v :: suf → isHit v = false → v ∉ seen ++ pre

theorem loop_inv (isHit : P → Bool) (v0 : P) : ∀ (vs : List P) (vi : Nat) (seen : List P) (st : SplitState) (init : StackL) (pr : List P),
    vi ≠ 0 → SI isHit v0 seen st init pr → UnflaggedNew isHit seen vs →
    ∃ st', splitLoop isHit (vs ++ [v0]) vi st = .ok st' ∧ (∀ e ∈ st'.complete, e.2.Nodup) ∧
      (st'.complete.map (fun e => closedSum e.2)).sum = chainSum cross0 (seen ++ vs ++ [v0]) ∧ (st'.complete.map (·.1)).Nodup := by
  intro vs
  induction vs with
  | nil =>
    intro vi seen st init pr _ inv _
    simp only [List.nil_append, splitLoop, List.append_nil]
    exact step_close isHit v0 seen st init pr inv vi
  | cons v r ih =>
    intro vi seen st init pr hvi inv hnew
    have hsplit : (v :: r) ++ [v0] = v :: (r ++ [v0]) := rfl
    rw [hsplit]
    cases hr : r ++ [v0] with
    | nil => simp at hr
    | cons a t =>
      unfold splitLoop
      have hnew' : ∀ seen', seen' = seen ++ [v] → UnflaggedNew isHit seen' r := by
        intro seen' hs pre x suf hx hflag
        have := hnew (v :: pre) x suf (by rw [hx]; rfl) hflag
        rw [hs]; simpa [List.append_assoc] using this
      cases hv : isHit v with
      | false =>
        obtain ⟨st1, hst1, inv1⟩ := step_unflagged isHit v0 seen st init pr inv vi v hv (by
          have := hnew [] v r rfl hv; simpa using this)
        rw [hst1]
        simp only [bind, Except.bind]
        rw [← hr]
        have := ih (vi + 1) (seen ++ [v]) st1 init (pr ++ [v]) (by omega) inv1 (hnew' _ rfl)
        simpa [List.append_assoc] using this
      | true =>
        obtain ⟨st1, init1, hst1, inv1⟩ := step_flagged isHit v0 seen st init pr inv vi hvi v hv
        rw [hst1]
        simp only [bind, Except.bind]
        rw [← hr]
        have := ih (vi + 1) (seen ++ [v]) st1 init1 [v] (by omega) inv1 (hnew' _ rfl)
        simpa [List.append_assoc] using this

theorem first_step (isHit : P → Bool) (v0 : P) :
    splitStep isHit {} 0 v0 false = .ok ⟨0, [(0, [v0])], []⟩ ∧ SI isHit v0 [v0] ⟨0, [(0, [v0])], []⟩ [] [v0] := by
  constructor
  · unfold splitStep stack1Of
    simp [sGet, sSet]
  · constructor
    · rfl
    · intro e he; cases he
    · exact List.Pairwise.nil
    · simp
    · intro e he; cases he
    · rfl
    · trivial
    · simp [spath]
    · intro v hv _; simp [spath] at hv; subst hv; exact Or.inr rfl
    · intro v hv; simpa [spath] using hv
    · intro e he; cases he
    · rfl
    · simp [partsSum, chainSum]
    · exact ⟨by simp, by intro e he; cases he⟩

theorem completeSorted_mem (cs : List (Nat × List P)) (Q : List P → Prop) (h : ∀ e ∈ cs, Q e.2) : ∀ r ∈ completeSorted cs, Q r := by
  have hstep : ∀ (acc : List (Nat × List P)) (e : Nat × List P), (∀ x ∈ acc, Q x.2) → Q e.2 → ∀ x ∈ dedupStep acc e, Q x.2 := by
    intro acc e ha he x hx
    unfold dedupStep at hx
    split at hx
    · simp only [List.mem_map] at hx
      obtain ⟨a, haa, rfl⟩ := hx
      split
      · exact he
      · exact ha a haa
    · rcases List.mem_append.1 hx with h1 | h1
      · exact ha x h1
      · simp only [List.mem_singleton] at h1; subst h1; exact he
  have hfold : ∀ (l acc : List (Nat × List P)), (∀ e ∈ l, Q e.2) → (∀ x ∈ acc, Q x.2) → ∀ x ∈ l.foldl dedupStep acc, Q x.2 := by
    intro l
    induction l with
    | nil => intro acc _ ha; exact ha
    | cons e rest ih =>
      intro acc hl ha
      simp only [List.foldl_cons]
      exact ih _ (fun x hx => hl x (List.mem_cons_of_mem _ hx)) (hstep acc e ha (hl e List.mem_cons_self))
  unfold completeSorted
  intro r hr
  simp only [List.mem_map] at hr
  obtain ⟨e, he, rfl⟩ := hr
  have he' : e ∈ cs.foldl dedupStep [] := (List.mergeSort_perm _ _).subset he
  exact hfold cs [] h (by intro x hx; cases hx) e he'

/-- whatever holds for every ring handed to `classify` and survives reversal holds for every ring it returns -/
theorem classify_Q (Q : Array P → Prop) (hrev : ∀ r, Q r → Q r.reverse) (isOuter : Bool) (rings : List (List P)) (h : ∀ r ∈ rings, Q r.toArray) :
    (∀ r ∈ (classify isOuter rings).outers, Q r) ∧ (∀ r ∈ (classify isOuter rings).inners, Q r) ∧ (∀ r ∈ (classify isOuter rings).pointsAndLines, Q r) := by
  unfold classify
  have hf : ∀ (l : List (List P)) (res : Split), (∀ r ∈ l, Q r.toArray) → ((∀ r ∈ res.outers, Q r) ∧ (∀ r ∈ res.inners, Q r) ∧ (∀ r ∈ res.pointsAndLines, Q r)) →
      let res' := l.foldl (fun res r =>
        let ra := r.toArray
        if r.length < 3 then { res with pointsAndLines := res.pointsAndLines.push ra }
        else if isOuter then
          (if !windingOK ra false then { res with inners := res.inners.push ra } else { res with outers := res.outers.push ra })
        else
          (if !windingOK ra true then { res with outers := res.outers.push ra } else { res with inners := res.inners.push ra })) res
      (∀ r ∈ res'.outers, Q r) ∧ (∀ r ∈ res'.inners, Q r) ∧ (∀ r ∈ res'.pointsAndLines, Q r) := by
    intro l
    induction l with
    | nil => intro res _ hr; exact hr
    | cons r rest ih =>
      intro res hl hres
      simp only [List.foldl_cons]
      apply ih _ (fun x hx => hl x (List.mem_cons_of_mem _ hx))
      have hr : Q r.toArray := hl r List.mem_cons_self
      obtain ⟨ho, hi, hp⟩ := hres
      have push : ∀ (arr : Array (Array P)), (∀ q ∈ arr, Q q) → ∀ q ∈ arr.push r.toArray, Q q := by
        intro arr harr q hq
        rcases Array.mem_push.1 hq with h1 | h1
        · exact harr q h1
        · subst h1; exact hr
      split
      · exact ⟨ho, hi, push _ hp⟩
      · split
        · split
          · exact ⟨ho, push _ hi, hp⟩
          · exact ⟨push _ ho, hi, hp⟩
        · split
          · exact ⟨push _ ho, hi, hp⟩
          · exact ⟨ho, push _ hi, hp⟩
  have base := hf rings {} h ⟨by intro r hr; simp at hr, by intro r hr; simp at hr, by intro r hr; simp at hr⟩
  simp only at base
  generalize (rings.foldl _ ({} : Split)) = res at base
  obtain ⟨ho, hi, hp⟩ := base
  have rev : ∀ (arr : Array (Array P)), (∀ q ∈ arr, Q q) → ∀ q ∈ arr.map Array.reverse, Q q := by
    intro arr harr q hq
    simp only [Array.mem_map] at hq
    obtain ⟨q0, hq0, rfl⟩ := hq
    exact hrev _ (harr q0 hq0)
  simp only
  split
  · exact ⟨rev _ hi, by intro r hr; simp at hr, hp⟩
  · split
    · exact ⟨by intro r hr; simp at hr, rev _ ho, hp⟩
    · exact ⟨ho, hi, hp⟩

/-- **`splitRing` is total and cuts the ring into rings that visit no vertex twice**, provided every vertex that is not flagged occurs only
once in the ring (the flags are what `checkPointHits` recorded: "this pixel was hit at least twice") -/
theorem splitRingF_nodup (ring : List P) (isOuter : Bool) (isHit : P → Bool) (hne : ring ≠ [])
    (hflags : ∀ pre v suf, ring = pre ++ v :: suf → isHit v = false → v ∉ pre ∧ v ∉ suf) :
    ∃ sp, splitRingF ring isOuter isHit = .ok sp ∧
      (∀ r ∈ sp.outers, r.toList.Nodup) ∧ (∀ r ∈ sp.inners, r.toList.Nodup) ∧ (∀ r ∈ sp.pointsAndLines, r.toList.Nodup) := by
  cases ring with
  | nil => exact absurd rfl hne
  | cons v0 rest =>
    obtain ⟨h1, inv1⟩ := first_step isHit v0
    have hnew : UnflaggedNew isHit [v0] rest := by
      intro pre v suf hx hflag
      have := (hflags (v0 :: pre) v suf (by rw [hx]; rfl) hflag).1
      simpa using this
    obtain ⟨st', hst', hnd, _, _⟩ := loop_inv isHit v0 rest 1 [v0] _ [] [v0] (by omega) inv1 hnew
    have hloop : splitLoop isHit ((v0 :: rest) ++ [v0]) 0 {} = .ok st' := by
      have hsplit : (v0 :: rest) ++ [v0] = v0 :: (rest ++ [v0]) := rfl
      rw [hsplit]
      cases hr : rest ++ [v0] with
      | nil => simp at hr
      | cons a t =>
        unfold splitLoop
        rw [h1]
        simp only [bind, Except.bind]
        rw [← hr]; exact hst'
    unfold splitRingF
    simp only [hloop, bind, Except.bind, pure, Except.pure]
    refine ⟨_, rfl, ?_⟩
    have hrings := completeSorted_mem st'.complete (fun r => r.Nodup) hnd
    exact classify_Q (fun r => r.toList.Nodup) (by intro r hr; simp only [Array.toList_reverse]; exact List.nodup_reverse.2 hr) isOuter _ (by intro r hr; simpa using hrings r hr)

/-! ### `splitRing` preserves the signed area -/

theorem foldl_dedup_nodup : ∀ (l acc : List (Nat × List P)), ((acc ++ l).map (·.1)).Nodup → l.foldl dedupStep acc = acc ++ l
  | [], acc, _ => by simp
  | e :: rest, acc, h => by
    have hnot : acc.any (fun a => a.1 == e.1) = false := by
      rw [List.any_eq_false]
      intro a ha
      simp only [List.map_append, List.map_cons] at h
      have := (List.nodup_append.1 h).2.2 a.1 (List.mem_map.2 ⟨a, ha, rfl⟩) e.1 List.mem_cons_self
      simpa using this
    simp only [List.foldl_cons, dedupStep, hnot, Bool.false_eq_true, if_false]
    rw [foldl_dedup_nodup rest (acc ++ [e]) (by simpa [List.append_assoc] using h)]
    simp [List.append_assoc]

theorem completeSorted_sum (cs : List (Nat × List P)) (hk : (cs.map (·.1)).Nodup) (f : List P → Int) :
    ((completeSorted cs).map f).sum = (cs.map (fun e => f e.2)).sum := by
  unfold completeSorted
  rw [foldl_dedup_nodup cs [] (by simpa using hk), List.nil_append, List.map_map]
  exact ((List.mergeSort_perm cs _).map _).sum_eq

/-- **`splitRing` cuts the ring into closed rings without repetition whose signed areas add up to the signed area of the ring** (same
hypothesis on the flags as `splitRingF_nodup`); `classify` then only sorts them into shell parts, hole parts and points/lines, turning a
ring round where needed -/
theorem splitRingF_area (ring : List P) (isOuter : Bool) (isHit : P → Bool) (hne : ring ≠ [])
    (hflags : ∀ pre v suf, ring = pre ++ v :: suf → isHit v = false → v ∉ pre ∧ v ∉ suf) :
    ∃ rings : List (List P), splitRingF ring isOuter isHit = .ok (classify isOuter rings) ∧ (∀ r ∈ rings, r.Nodup) ∧
      (rings.map closedSum).sum = closedSum ring := by
  cases ring with
  | nil => exact absurd rfl hne
  | cons v0 rest =>
    obtain ⟨h1, inv1⟩ := first_step isHit v0
    have hnew : UnflaggedNew isHit [v0] rest := by
      intro pre v suf hx hflag
      have := (hflags (v0 :: pre) v suf (by rw [hx]; rfl) hflag).1
      simpa using this
    obtain ⟨st', hst', hnd, harea, hkeys⟩ := loop_inv isHit v0 rest 1 [v0] _ [] [v0] (by omega) inv1 hnew
    have hloop : splitLoop isHit ((v0 :: rest) ++ [v0]) 0 {} = .ok st' := by
      have hsplit : (v0 :: rest) ++ [v0] = v0 :: (rest ++ [v0]) := rfl
      rw [hsplit]
      cases hr : rest ++ [v0] with
      | nil => simp at hr
      | cons a t =>
        unfold splitLoop
        rw [h1]
        simp only [bind, Except.bind]
        rw [← hr]; exact hst'
    refine ⟨completeSorted st'.complete, ?_, completeSorted_mem st'.complete (fun r => r.Nodup) hnd, ?_⟩
    · unfold splitRingF
      simp only [hloop, bind, Except.bind, pure, Except.pure]
    · rw [completeSorted_sum st'.complete hkeys closedSum, harea]
      simp [closedSum]

/-- the shoelace sum around a ring of at least three vertices is `area2`, twice the signed area the model (and the code) computes -/
theorem closedSum_eq_area2 (r : List P) (h : 3 ≤ r.length) : closedSum r = area2 r.toArray := by
  rw [area2_eq]
  cases r with
  | nil => simp at h
  | cons o rest =>
    simp only [List.toList_toArray]
    rw [area2L_shoelace o rest h]
    unfold closedSum
    simp only
    rw [chainSum_snoc cross0 o rest o]
    simp only [chainSum]
    ring

end Texel
