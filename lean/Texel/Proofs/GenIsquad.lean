import Texel.Gen.Isquad
/-! # Validation accepts what the model says it accepts

`Texel.Gen.IQ` is regenerated on every run by `trgen isquad` from `pointindex.IsQuadTree` (every check, in source order, with its message; the
loop skeleton is checked statement by statement). `gen_isQuadTree_none`: the regenerated function accepts a list of tile matrices exactly when
the hand-written `QT.isQuadTree` — the function `C14_iff` characterises as "true quadtree" — accepts it. Core-only. -/
namespace Texel.GenIsquad
open Texel.QT

theorem gen_step_none (prev : Option TM) (tm : TM) :
    Gen.IQ.step prev tm = none ↔
      (localErr tm = none ∧ (match prev with | none => firstErr tm | some p => pairErr p tm) = none) := by
  unfold Gen.IQ.step localErr
  by_cases h1 : tm.mh ≠ tm.mw
  · simp [h1]
  · by_cases h2 : tm.th ≠ tm.tw
    · simp [h1, h2]
    · by_cases h3 : isPow2 tm.tw = true
      · cases hat : atoi tm.idText with
        | none => simp [h1, h2, h3]
        | some k =>
          by_cases h4 : k ≠ tm.id
          · simp [h1, h2, h3, h4]
          · by_cases h5 : tm.nvar ≠ 0
            · simp [h1, h2, h3, h4, h5]
            · cases prev with
              | none =>
                unfold firstErr
                by_cases h6 : tm.id ≠ 0
                · simp [h1, h2, h3, h4, h5, h6]
                · by_cases h7 : tm.mw ≠ 1
                  · simp [h1, h2, h3, h4, h5, h6, h7]
                  · simp [h1, h2, h3, h4, h5, h6, h7]
              | some p =>
                unfold pairErr
                by_cases h6 : tm.id ≠ p.id + 1
                · simp [h1, h2, h3, h4, h5, h6]
                · by_cases h7 : tm.ox ≠ p.ox ∨ tm.oy ≠ p.oy
                  · simp [h1, h2, h3, h4, h5, h6, h7]
                  · by_cases h8 : tm.corner ≠ p.corner
                    · simp [h1, h2, h3, h4, h5, h6, h7, h8]
                    · by_cases h9 : tm.th ≠ p.th
                      · simp [h1, h2, h3, h4, h5, h6, h7, h8, h9]
                      · by_cases h10 : tm.mh ≠ 2 * p.mh
                        · simp [h1, h2, h3, h4, h5, h6, h7, h8, h9, h10]
                        · by_cases h11 : ratioOK p tm = true
                          · simp [h1, h2, h3, h4, h5, h6, h7, h8, h9, h10, h11]
                          · simp [h1, h2, h3, h4, h5, h6, h7, h8, h9, h10, h11]
      · simp [h1, h2, h3]

theorem from_cons (prev : Option TM) (tm : TM) (rest : List TM) :
    isQuadTreeFrom prev (tm :: rest) = none ↔
      (localErr tm = none ∧ (match prev with | none => firstErr tm | some p => pairErr p tm) = none ∧ isQuadTreeFrom (some tm) rest = none) := by
  conv => lhs; unfold isQuadTreeFrom
  cases hl : localErr tm with
  | some e => simp
  | none =>
    cases prev with
    | none =>
      simp only
      cases hf : firstErr tm with
      | some e => simp
      | none => simp
    | some p =>
      simp only
      cases hp : pairErr p tm with
      | some e => simp
      | none => simp

theorem gen_isQuadTreeFrom_none (prev : Option TM) (tms : List TM) :
    Gen.IQ.isQuadTreeFrom prev tms = none ↔ isQuadTreeFrom prev tms = none := by
  induction tms generalizing prev with
  | nil => simp [Gen.IQ.isQuadTreeFrom, isQuadTreeFrom]
  | cons tm rest ih =>
    rw [from_cons]
    conv => lhs; unfold Gen.IQ.isQuadTreeFrom
    have hs := gen_step_none prev tm
    cases hstep : Gen.IQ.step prev tm with
    | some e =>
      rw [hstep] at hs
      simp only [reduceCtorEq, false_iff] at hs ⊢
      intro h
      exact hs ⟨h.1, h.2.1⟩
    | none =>
      rw [hstep] at hs
      obtain ⟨hl, hp⟩ := hs.1 rfl
      simp only
      rw [ih (some tm)]
      exact ⟨fun h => ⟨hl, hp, h⟩, fun h => h.2.2⟩

/-- **the regenerated `IsQuadTree` accepts exactly what the model accepts** -/
theorem gen_isQuadTree_none (tms : List TM) : Gen.IQ.isQuadTree tms = none ↔ isQuadTree tms = none :=
  gen_isQuadTreeFrom_none none tms

end Texel.GenIsquad
