import Texel.Proofs.LI
import Texel.Proofs.Route2
namespace Texel

/-! Instantiating the abstract `li` with the proved integer `lineIntersects`. -/

theorem lineIntersects_iff (L : Seg) (B : Box) : lineIntersects L B = true ↔ Meets L B := by
  rw [lineIntersects_iffI]
  unfold MeetsI Meets MeetsAt InBox Seg.x Seg.y Seg.X Seg.Y
  simp only [Int.cast_sub]

/-- C02 (routing): on every level the descent returns exactly the hot quadrants the closed segment meets, in travel order. -/
theorem C02_routing (g : Grid) (hot : Nat → Quad → Bool) (L : Seg) (hres : 0 < g.res) (hclosed : HotClosed g.depth hot)
    (l : Nat) (hl : l ≤ g.depth) :
    (∀ p, p ∈ snapLevel lineIntersects g hot L l ↔ Found g hot L l p) ∧
    (snapLevel lineIntersects g hot L l).Pairwise (fun a b => Precedes L (g.box l a) (g.box l b)) :=
  snapLevel_spec lineIntersects g hot L (fun B => lineIntersects_iff L B) hres hclosed l hl

#print axioms C02_routing

-- non-vacuity: a concrete grid, hot set and segment (the F1 witness) evaluate as the specification says
def gEx : Grid := ⟨0, 0, 4, 4⟩           -- 16×16 pixels of 4 units
def hotEx : Nat → Quad → Bool := fun l p => p == ⟨8 / 2 ^ (4 - l), 8 / 2 ^ (4 - l)⟩ || p == ⟨10 / 2 ^ (4 - l), 6 / 2 ^ (4 - l)⟩
#eval snapLevel lineIntersects gEx hotEx ⟨⟨40, 24⟩, ⟨30, 34⟩⟩ 4   -- line (10,6)→(7.5,8.5): pixels (10,6) then (8,8)

end Texel
