import Texel.Gen.Quadrants
import Texel.Model.Route
/-! # The per-parent step of the descent is the one in the current source

`Texel.Gen.Quad` is regenerated on every run by `trgen quadrants` from `pointindex.findIntersectingQuadrants` and its helpers (the decision tree
that lists the child quadrants to test — with their `certain` and `mutex` marks — is translated; the four definitions before it and the loop
after it are checked statement by statement). `gen_findIntersectingQuadrants`: for every line, parent, set of present children and pixel test,
the regenerated function returns the list the hand-written `Texel.findIntersectingQuadrants` returns — the function `C02_routing` is proved
about. Core-only. -/
namespace Texel.GenQuadrants
open Texel

theorem gen_getInfiniteQuadrant (p c : Pt) : Gen.Quad.getInfiniteQuadrant p.x p.y c.x c.y = getInfiniteQuadrant p c := by
  unfold Gen.Quad.getInfiniteQuadrant getInfiniteQuadrant
  by_cases hx : p.x ≥ c.x <;> by_cases hy : p.y ≥ c.y <;> simp [hx, hy]

theorem gen_adjacent (a b : Nat) : Gen.Quad.quadrantsAreAdjacent a b = quadrantsAreAdjacent a b := by
  unfold Gen.Quad.quadrantsAreAdjacent quadrantsAreAdjacent
  simp only
  have e : ∀ (x y : Nat), decide (x = y) = (x == y) := fun x y => by
    by_cases h : x = y <;> simp [h]
  rw [e, e]

theorem gen_adjX (q : Nat) : Gen.Quad.adjacentQuadrantX q = adjacentQuadrantX q := rfl
theorem gen_adjY (q : Nat) : Gen.Quad.adjacentQuadrantY q = adjacentQuadrantY q := rfl

def ofT (t : Nat × Bool × Bool) : ToCheck := ⟨t.1, t.2.1, t.2.2⟩

/-- the translated decision tree lists the same quadrants, marks and order as the model's (which writes the four diagonal sub-cases as
`certain := inside`) -/
theorem gen_toCheck (q1 q2 : Nat) (in1 in2 : Bool) :
    (Gen.Quad.toCheck q1 q2 in1 in2).map ofT =
      (if q1 = q2 then (if in1 && in2 then [⟨q1, true, false⟩] else [⟨q1, false, false⟩])
       else if quadrantsAreAdjacent q1 q2 then
         (if in1 && in2 then [⟨q1, true, false⟩, ⟨q2, true, false⟩] else [⟨q1, false, false⟩, ⟨q2, false, false⟩])
       else [⟨q1, in1, false⟩, ⟨adjacentQuadrantX q1, false, true⟩, ⟨adjacentQuadrantY q1, false, true⟩, ⟨q2, in2, false⟩] : List ToCheck) := by
  unfold Gen.Quad.toCheck
  rw [gen_adjacent, gen_adjX, gen_adjY]
  by_cases h : q1 = q2
  · cases in1 <;> cases in2 <;> simp [h, ofT]
  · by_cases ha : quadrantsAreAdjacent q1 q2 = true
    · cases in1 <;> cases in2 <;> simp [h, ha, ofT]
    · cases in1 <;> cases in2 <;> simp [h, ha, ofT]

theorem gen_found (li present : Nat → Bool) (L : Seg) (P : Parent) (lim : Seg → Box → Bool) (hli : ∀ q, li q = lim L (P.child q))
    (l : List (Nat × Bool × Bool)) (m : Bool) :
    Gen.Quad.found li present l m = findIntersectingQuadrants.go lim L present P (l.map ofT) m := by
  induction l generalizing m with
  | nil => simp [Gen.Quad.found, findIntersectingQuadrants.go]
  | cons t ts ih =>
    obtain ⟨i, c, mu⟩ := t
    simp only [Gen.Quad.found, List.map_cons, findIntersectingQuadrants.go, ofT, hli]
    split
    · exact ih m
    · split
      · exact ih m
      · split
        · rw [ih]
        · exact ih m

/-- **the per-parent step of the descent** -/
theorem gen_findIntersectingQuadrants (lim : Seg → Box → Bool) (L : Seg) (present : Nat → Bool) (P : Parent) :
    Gen.Quad.findIntersectingQuadrants L.p1.x L.p1.y L.p2.x L.p2.y P.centroid.x P.centroid.y
      (containsPoint L.p1 P.box) (containsPoint L.p2 P.box) (fun q => lim L (P.child q)) present
    = findIntersectingQuadrants lim L present P := by
  unfold Gen.Quad.findIntersectingQuadrants findIntersectingQuadrants
  rw [gen_found _ present L P lim (fun _ => rfl), gen_toCheck, gen_getInfiniteQuadrant, gen_getInfiniteQuadrant]

-- non-vacuity: a line from the lower left to the upper right child, both ends inside the parent, all children present and met: the lower left
-- child, the first of the two mutually exclusive neighbours, the upper right child
example : Gen.Quad.findIntersectingQuadrants 0 0 3 3 2 2 true true (fun _ => true) (fun _ => true) = [0, 1, 3] := by decide
example : Gen.Quad.toCheck 1 0 false true = [(1, false, false), (0, false, false)] := by decide

end Texel.GenQuadrants
