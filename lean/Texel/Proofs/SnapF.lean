import Texel.Model.SnapF
/-! Helper lemmas about the functional composition `snapPolygonF` (core-only). The ring clean-up (`cleanupNewRing`) and the
assembly (`dedupeInnersOuters`, `matchInnersToPolygons`) are used as black boxes here. -/
namespace Texel

/-- an entry of the result is what `processLevel` computes for that level -/
theorem processLevels_mem (g : Grid) (hot : Nat → Quad → Bool) (cfg : Config) (rings : List (List Pt)) (levels : List Nat)
    (res : List (Nat × Array Poly)) (h : processLevels g hot cfg rings levels = .ok res)
    (z : Nat) (polys : Array Poly) (hm : (z, polys) ∈ res) :
    z ∈ levels ∧ processLevel g hot cfg z rings = .ok (some polys) := by
  induction levels generalizing res with
  | nil => simp [processLevels] at h; subst h; cases hm
  | cons l ls ih =>
    simp only [processLevels, bind, Except.bind] at h
    split at h
    · simp at h
    · rename_i r hr
      split at h
      · simp at h
      · rename_i rest hrest
        simp only [pure, Except.pure, Except.ok.injEq] at h
        cases r with
        | none =>
          simp only at h; subst h
          obtain ⟨h1, h2⟩ := ih rest hrest hm
          exact ⟨List.mem_cons_of_mem _ h1, h2⟩
        | some p0 =>
          simp only at h; subst h
          rcases List.mem_cons.1 hm with h1 | h1
          · simp only [Prod.mk.injEq] at h1
            obtain ⟨rfl, rfl⟩ := h1
            exact ⟨List.mem_cons_self, hr⟩
          · obtain ⟨h2, h3⟩ := ih rest hrest h1
            exact ⟨List.mem_cons_of_mem _ h2, h3⟩

theorem snapPolygonF_mem (g : Grid) (rings : List (List Pt)) (levels : List Nat) (cfg : Config)
    (res : List (Nat × Array Poly)) (h : snapPolygonF g rings levels cfg = .ok res)
    (z : Nat) (polys : Array Poly) (hm : (z, polys) ∈ res) :
    ∃ addrs, insertAll g rings = some addrs ∧ z ∈ levels ∧ processLevel g (hotOf g addrs) cfg z rings = .ok (some polys) := by
  unfold snapPolygonF at h
  split at h
  · split at h
    · simp only [Except.ok.injEq] at h; subst h; cases hm
    · simp at h
  · rename_i addrs ha
    exact ⟨addrs, ha, processLevels_mem _ _ _ _ _ _ h z polys hm⟩

theorem finishLevel_some (rev : Bool) (core : Array Poly) (pls : Array (Array P)) (polys : Array Poly)
    (h : finishLevel rev core pls = some polys) :
    polys = (if rev then reversePolys core else core) ++ pls.map (fun pl => #[pl]) ∧ polys.size ≠ 0 := by
  unfold finishLevel at h
  by_cases hz : ((if rev = true then reversePolys core else core) ++ Array.map (fun pl => #[pl]) pls).size = 0
  · rw [if_pos hz] at h; cases h
  · rw [if_neg hz] at h
    injection h with h
    subst h
    exact ⟨rfl, hz⟩

/-- what `processLevel` returns, in terms of the accumulated rings and the assembled core -/
theorem processLevel_some (g : Grid) (hot : Nat → Quad → Bool) (cfg : Config) (l : Nat) (rings : List (List Pt)) (polys : Array Poly)
    (h : processLevel g hot cfg l rings = .ok (some polys)) :
    ∃ acc core, levelAcc g hot cfg.keep l rings = .ok (some acc) ∧ assembleCore acc = .ok core ∧
      finishLevel cfg.reverse core acc.pls = some polys := by
  unfold processLevel at h
  simp only [bind, Except.bind] at h
  split at h
  · simp at h
  · rename_i r hr
    cases r with
    | none => simp [pure, Except.pure] at h
    | some acc =>
      simp only at h
      unfold assembleLevel at h
      simp only [bind, Except.bind] at h
      split at h
      · simp at h
      · rename_i core hcore
        simp only [pure, Except.pure, Except.ok.injEq] at h
        exact ⟨acc, core, hr, hcore, h⟩

theorem processLevel_of (g : Grid) (hot : Nat → Quad → Bool) (cfg : Config) (l : Nat) (rings : List (List Pt))
    (acc : Acc) (core : Array Poly) (h1 : levelAcc g hot cfg.keep l rings = .ok (some acc)) (h2 : assembleCore acc = .ok core) :
    processLevel g hot cfg l rings = .ok (finishLevel cfg.reverse core acc.pls) := by
  unfold processLevel
  simp only [bind, Except.bind, h1]
  unfold assembleLevel
  simp only [bind, Except.bind, h2, pure, Except.pure]

/-- the holes' clean-up does not look at the keep flag: with and without it the same outers and inners are accumulated -/
theorem processHoles_keep (g : Grid) (hot : Nat → Quad → Bool) (l : Nat) (holes : List (List Pt)) (a0 a1 a0' : Acc)
    (ho : a0.outers = a1.outers) (hi : a0.inners = a1.inners) (hp : a0.pls = #[])
    (h : processHoles g hot l false holes a0 = .ok a0') :
    ∃ a1', processHoles g hot l true holes a1 = .ok a1' ∧ a0'.outers = a1'.outers ∧ a0'.inners = a1'.inners ∧ a0'.pls = #[] := by
  induction holes generalizing a0 a1 with
  | nil =>
    simp only [processHoles, Except.ok.injEq] at h
    subst h
    exact ⟨a1, rfl, ho, hi, hp⟩
  | cons hd tl ih =>
    simp only [processHoles, bind, Except.bind] at h ⊢
    split at h
    · simp at h
    · rename_i sp hsp
      first
        | (rw [hsp]; simp only; apply ih (a0.add sp false) (a1.add sp true))
        | apply ih (a0.add sp false) (a1.add sp true)
      · simp [Acc.add, ho]
      · simp [Acc.add, hi]
      · simp [Acc.add, hp]
      · exact h

theorem assembleCore_congr (a b : Acc) (ho : a.outers = b.outers) (hi : a.inners = b.inners) : assembleCore a = assembleCore b := by
  unfold assembleCore; rw [ho, hi]

end Texel
