import Mathlib.Tactic.Linarith
import Mathlib.Tactic.Ring
import Mathlib.Tactic.IntervalCases
import Mathlib.Algebra.Order.Field.Basic
import Mathlib.Algebra.Order.Field.Rat
import Mathlib.Data.Rat.Defs
import Texel.Model.Route
namespace Texel

def Seg.X (L : Seg) (t : ℚ) : ℚ := (L.p1.x : ℚ) + t * ((L.p2.x : ℚ) - L.p1.x)
def Seg.Y (L : Seg) (t : ℚ) : ℚ := (L.p1.y : ℚ) + t * ((L.p2.y : ℚ) - L.p1.y)
def InBox (x y : ℚ) (B : Box) : Prop := (B.minX : ℚ) ≤ x ∧ x < B.maxX ∧ (B.minY : ℚ) ≤ y ∧ y < B.maxY
def MeetsAt (L : Seg) (B : Box) (t : ℚ) : Prop := 0 ≤ t ∧ t ≤ 1 ∧ InBox (L.X t) (L.Y t) B
def Meets (L : Seg) (B : Box) : Prop := ∃ t, MeetsAt L B t
def Precedes (L : Seg) (B₁ B₂ : Box) : Prop := ∀ t₁ t₂, MeetsAt L B₁ t₁ → MeetsAt L B₂ t₂ → t₁ < t₂

/-! ### one coordinate along the segment -/

theorem conv_ge (a b c t : ℚ) (ha : c ≤ a) (hb : c ≤ b) (h0 : 0 ≤ t) (h1 : t ≤ 1) : c ≤ a + t * (b - a) := by
  have : a + t * (b - a) = (1 - t) * a + t * b := by ring
  rw [this]; nlinarith [mul_le_mul_of_nonneg_left ha (by linarith : (0:ℚ) ≤ 1 - t), mul_le_mul_of_nonneg_left hb h0]

theorem conv_lt (a b c t : ℚ) (ha : a < c) (hb : b < c) (h0 : 0 ≤ t) (h1 : t ≤ 1) : a + t * (b - a) < c := by
  have : a + t * (b - a) = (1 - t) * a + t * b := by ring
  rw [this]
  rcases eq_or_lt_of_le h0 with h | h
  · subst h; simpa using ha
  · nlinarith [mul_le_mul_of_nonneg_left (le_of_lt ha) (by linarith : (0:ℚ) ≤ 1 - t), mul_lt_mul_of_pos_left hb h]

/-- crossing a threshold upwards: points below come before points at or above -/
theorem mono_up (a b c t₁ t₂ : ℚ) (ha : a < c) (hb : c ≤ b) (h1 : a + t₁ * (b - a) < c) (h2 : c ≤ a + t₂ * (b - a)) : t₁ < t₂ := by
  have hd : 0 < b - a := by linarith
  by_contra hn
  have : t₂ ≤ t₁ := not_lt.mp hn
  have := mul_le_mul_of_nonneg_right this (le_of_lt hd)
  linarith

/-- crossing a threshold downwards: points at or above come before points below -/
theorem mono_down (a b c t₁ t₂ : ℚ) (ha : c ≤ a) (hb : b < c) (h1 : c ≤ a + t₁ * (b - a)) (h2 : a + t₂ * (b - a) < c) : t₁ < t₂ := by
  have hd : b - a < 0 := by linarith
  by_contra hn
  have : t₂ ≤ t₁ := not_lt.mp hn
  have := mul_le_mul_of_nonpos_right this (le_of_lt hd)
  linarith

/-! ### quadrant numbers -/

theorem infQ_cases (p c : Pt) :
    (p.x < c.x ∧ p.y < c.y ∧ getInfiniteQuadrant p c = 0) ∨ (c.x ≤ p.x ∧ p.y < c.y ∧ getInfiniteQuadrant p c = 1) ∨
    (p.x < c.x ∧ c.y ≤ p.y ∧ getInfiniteQuadrant p c = 2) ∨ (c.x ≤ p.x ∧ c.y ≤ p.y ∧ getInfiniteQuadrant p c = 3) := by
  unfold getInfiniteQuadrant
  by_cases hx : p.x ≥ c.x <;> by_cases hy : p.y ≥ c.y <;> simp [hx, hy] <;> omega

/-- child boxes, concretely -/
theorem child0 (P : Parent) : P.child 0 = ⟨P.x0, P.y0, P.x0 + P.h, P.y0 + P.h⟩ := by simp [Parent.child]
theorem child1 (P : Parent) : P.child 1 = ⟨P.x0 + P.h, P.y0, P.x0 + P.h + P.h, P.y0 + P.h⟩ := by simp [Parent.child]
theorem child2 (P : Parent) : P.child 2 = ⟨P.x0, P.y0 + P.h, P.x0 + P.h, P.y0 + P.h + P.h⟩ := by simp [Parent.child]
theorem child3 (P : Parent) : P.child 3 = ⟨P.x0 + P.h, P.y0 + P.h, P.x0 + P.h + P.h, P.y0 + P.h + P.h⟩ := by simp [Parent.child]

/-- a point of child `q` is on `q`'s side of the centroid on both axes -/
theorem inChild_side (P : Parent) (q : Nat) (hq : q < 4) (x y : ℚ) (h : InBox x y (P.child q)) :
    ((q = 1 ∨ q = 3) → ((P.x0 + P.h : Int) : ℚ) ≤ x) ∧ ((q = 0 ∨ q = 2) → x < ((P.x0 + P.h : Int) : ℚ)) ∧
    ((q = 2 ∨ q = 3) → ((P.y0 + P.h : Int) : ℚ) ≤ y) ∧ ((q = 0 ∨ q = 1) → y < ((P.y0 + P.h : Int) : ℚ)) := by
  unfold InBox at h
  interval_cases q
  · rw [child0] at h; simp at h ⊢; push_cast; exact ⟨h.2.1, h.2.2.2⟩
  · rw [child1] at h; simp at h ⊢; push_cast at h ⊢; exact ⟨h.1, h.2.2.2⟩
  · rw [child2] at h; simp at h ⊢; push_cast at h ⊢; exact ⟨h.2.1, h.2.2.1⟩
  · rw [child3] at h; simp at h ⊢; push_cast at h ⊢; exact ⟨h.1, h.2.2.1⟩


/-! ### which children can be met at all (Lemma E) -/

/-- If child `q` is met, then on each axis `q` is on the side of one of the two endpoints. -/
theorem meets_side (P : Parent) (L : Seg) (q : Nat) (hq : q < 4) (h : Meets L (P.child q)) :
    let c := P.centroid
    ((q = 1 ∨ q = 3) → (c.x ≤ L.p1.x ∨ c.x ≤ L.p2.x)) ∧ ((q = 0 ∨ q = 2) → (L.p1.x < c.x ∨ L.p2.x < c.x)) ∧
    ((q = 2 ∨ q = 3) → (c.y ≤ L.p1.y ∨ c.y ≤ L.p2.y)) ∧ ((q = 0 ∨ q = 1) → (L.p1.y < c.y ∨ L.p2.y < c.y)) := by
  intro c
  obtain ⟨t, h0, h1, hb⟩ := h
  have hs := inChild_side P q hq _ _ hb
  have hcx : ((P.x0 + P.h : Int) : ℚ) = (c.x : ℚ) := rfl
  have hcy : ((P.y0 + P.h : Int) : ℚ) = (c.y : ℚ) := rfl
  rw [hcx, hcy] at hs
  refine ⟨?_, ?_, ?_, ?_⟩
  · intro hq'
    by_contra hn
    rw [not_or] at hn
    have := conv_lt (L.p1.x : ℚ) L.p2.x c.x t (by exact_mod_cast not_le.mp hn.1) (by exact_mod_cast not_le.mp hn.2) h0 h1
    have := hs.1 hq'
    unfold Seg.X at this; linarith
  · intro hq'
    by_contra hn
    rw [not_or] at hn
    have := conv_ge (L.p1.x : ℚ) L.p2.x c.x t (by exact_mod_cast not_lt.mp hn.1) (by exact_mod_cast not_lt.mp hn.2) h0 h1
    have := hs.2.1 hq'
    unfold Seg.X at this; linarith
  · intro hq'
    by_contra hn
    rw [not_or] at hn
    have := conv_lt (L.p1.y : ℚ) L.p2.y c.y t (by exact_mod_cast not_le.mp hn.1) (by exact_mod_cast not_le.mp hn.2) h0 h1
    have := hs.2.2.1 hq'
    unfold Seg.Y at this; linarith
  · intro hq'
    by_contra hn
    rw [not_or] at hn
    have := conv_ge (L.p1.y : ℚ) L.p2.y c.y t (by exact_mod_cast not_lt.mp hn.1) (by exact_mod_cast not_lt.mp hn.2) h0 h1
    have := hs.2.2.2 hq'
    unfold Seg.Y at this; linarith

/-! ### "certain" is sound (Lemma C) -/

theorem certain1 (P : Parent) (L : Seg) (hin : containsPoint L.p1 P.box = true) :
    Meets L (P.child (getInfiniteQuadrant L.p1 P.centroid)) := by
  refine ⟨0, le_refl _, by norm_num, ?_⟩
  have ⟨h1, h2, h3, h4⟩ : P.x0 ≤ L.p1.x ∧ L.p1.x < P.x0 + 2 * P.h ∧ P.y0 ≤ L.p1.y ∧ L.p1.y < P.y0 + 2 * P.h := by
    simpa [Parent.box] using (containsPoint_iff _ _).1 hin
  unfold InBox Seg.X Seg.Y
  simp only [zero_mul, add_zero]
  rcases infQ_cases L.p1 P.centroid with h | h | h | h <;> obtain ⟨hx, hy, hq⟩ := h <;> rw [hq] <;>
    simp only [Parent.centroid] at hx hy
  · rw [child0]; simp only; exact ⟨by exact_mod_cast h1, by exact_mod_cast hx, by exact_mod_cast h3, by exact_mod_cast hy⟩
  · rw [child1]; simp only; exact ⟨by exact_mod_cast hx, by exact_mod_cast (by omega : L.p1.x < P.x0 + P.h + P.h), by exact_mod_cast h3, by exact_mod_cast hy⟩
  · rw [child2]; simp only; exact ⟨by exact_mod_cast h1, by exact_mod_cast hx, by exact_mod_cast hy, by exact_mod_cast (by omega : L.p1.y < P.y0 + P.h + P.h)⟩
  · rw [child3]; simp only; exact ⟨by exact_mod_cast hx, by exact_mod_cast (by omega : L.p1.x < P.x0 + P.h + P.h), by exact_mod_cast hy, by exact_mod_cast (by omega : L.p1.y < P.y0 + P.h + P.h)⟩

theorem certain2 (P : Parent) (L : Seg) (hin : containsPoint L.p2 P.box = true) :
    Meets L (P.child (getInfiniteQuadrant L.p2 P.centroid)) := by
  refine ⟨1, by norm_num, le_refl _, ?_⟩
  have ⟨h1, h2, h3, h4⟩ : P.x0 ≤ L.p2.x ∧ L.p2.x < P.x0 + 2 * P.h ∧ P.y0 ≤ L.p2.y ∧ L.p2.y < P.y0 + 2 * P.h := by
    simpa [Parent.box] using (containsPoint_iff _ _).1 hin
  unfold InBox Seg.X Seg.Y
  simp only [one_mul, add_sub_cancel]
  rcases infQ_cases L.p2 P.centroid with h | h | h | h <;> obtain ⟨hx, hy, hq⟩ := h <;> rw [hq] <;>
    simp only [Parent.centroid] at hx hy
  · rw [child0]; simp only; exact ⟨by exact_mod_cast h1, by exact_mod_cast hx, by exact_mod_cast h3, by exact_mod_cast hy⟩
  · rw [child1]; simp only; exact ⟨by exact_mod_cast hx, by exact_mod_cast (by omega : L.p2.x < P.x0 + P.h + P.h), by exact_mod_cast h3, by exact_mod_cast hy⟩
  · rw [child2]; simp only; exact ⟨by exact_mod_cast h1, by exact_mod_cast hx, by exact_mod_cast hy, by exact_mod_cast (by omega : L.p2.y < P.y0 + P.h + P.h)⟩
  · rw [child3]; simp only; exact ⟨by exact_mod_cast hx, by exact_mod_cast (by omega : L.p2.x < P.x0 + P.h + P.h), by exact_mod_cast hy, by exact_mod_cast (by omega : L.p2.y < P.y0 + P.h + P.h)⟩


/-! ### order along one axis -/

theorem axis_lt_first (a b c t₁ t₂ : ℚ) (ha : a < c) (h1 : a + t₁ * (b - a) < c) (h2 : c ≤ a + t₂ * (b - a))
    (h20 : 0 ≤ t₂) (h21 : t₂ ≤ 1) : t₁ < t₂ := by
  by_cases hb : c ≤ b
  · exact mono_up a b c t₁ t₂ ha hb h1 h2
  · have := conv_lt a b c t₂ ha (not_le.mp hb) h20 h21; linarith

theorem axis_ge_first (a b c t₁ t₂ : ℚ) (ha : c ≤ a) (h1 : c ≤ a + t₁ * (b - a)) (h2 : a + t₂ * (b - a) < c)
    (h20 : 0 ≤ t₂) (h21 : t₂ ≤ 1) : t₁ < t₂ := by
  by_cases hb : b < c
  · exact mono_down a b c t₁ t₂ ha hb h1 h2
  · have := conv_ge a b c t₂ ha (not_lt.mp hb) h20 h21; linarith

theorem axis_ge_last (a b c t₁ t₂ : ℚ) (hb : c ≤ b) (h1 : a + t₁ * (b - a) < c) (h2 : c ≤ a + t₂ * (b - a))
    (h10 : 0 ≤ t₁) (h11 : t₁ ≤ 1) : t₁ < t₂ := by
  by_cases ha : a < c
  · exact mono_up a b c t₁ t₂ ha hb h1 h2
  · have := conv_ge a b c t₁ (not_lt.mp ha) hb h10 h11; linarith

theorem axis_lt_last (a b c t₁ t₂ : ℚ) (hb : b < c) (h1 : c ≤ a + t₁ * (b - a)) (h2 : a + t₂ * (b - a) < c)
    (h10 : 0 ≤ t₁) (h11 : t₁ ≤ 1) : t₁ < t₂ := by
  by_cases ha : c ≤ a
  · exact mono_down a b c t₁ t₂ ha hb h1 h2
  · have := conv_lt a b c t₁ (not_le.mp ha) hb h10 h11; linarith


/-! ### sides as propositions -/

def right (q : Nat) : Prop := q = 1 ∨ q = 3
def top (q : Nat) : Prop := q = 2 ∨ q = 3
instance (q : Nat) : Decidable (right q) := by unfold right; infer_instance
instance (q : Nat) : Decidable (top q) := by unfold top; infer_instance

theorem inChild_iff (P : Parent) (q : Nat) (hq : q < 4) (L : Seg) (t : ℚ) (h : MeetsAt L (P.child q) t) :
    (((P.centroid.x : Int) : ℚ) ≤ L.X t ↔ right q) ∧ (((P.centroid.y : Int) : ℚ) ≤ L.Y t ↔ top q) := by
  have hs := inChild_side P q hq _ _ h.2.2
  have hcx : ((P.x0 + P.h : Int) : ℚ) = ((P.centroid.x : Int) : ℚ) := rfl
  have hcy : ((P.y0 + P.h : Int) : ℚ) = ((P.centroid.y : Int) : ℚ) := rfl
  rw [hcx, hcy] at hs
  unfold right top
  interval_cases q <;> simp at hs ⊢ <;> constructor <;> linarith [hs.1, hs.2]

theorem infQ_iff (p c : Pt) :
    (c.x ≤ p.x ↔ right (getInfiniteQuadrant p c)) ∧ (c.y ≤ p.y ↔ top (getInfiniteQuadrant p c)) ∧ getInfiniteQuadrant p c < 4 := by
  unfold right top
  rcases infQ_cases p c with h | h | h | h <;> obtain ⟨hx, hy, hq⟩ := h <;> rw [hq] <;> simp <;> omega

theorem ne_sides (q q' : Nat) (hq : q < 4) (hq' : q' < 4) (hne : q ≠ q') :
    (right q ↔ ¬ right q') ∨ (top q ↔ ¬ top q') := by
  unfold right top
  interval_cases q <;> interval_cases q' <;> simp at hne ⊢

theorem eq_of_sides (q q' : Nat) (hq : q < 4) (hq' : q' < 4) (h1 : right q ↔ right q') (h2 : top q ↔ top q') : q = q' := by
  unfold right at h1; unfold top at h2
  interval_cases q <;> interval_cases q' <;> simp at h1 h2 ⊢

/-- Lemma Ord1: everything met in the start quadrant comes before everything met in any other child -/
theorem precedes_from_start (P : Parent) (L : Seg) (q : Nat) (hq : q < 4)
    (hne : q ≠ getInfiniteQuadrant L.p1 P.centroid) :
    Precedes L (P.child (getInfiniteQuadrant L.p1 P.centroid)) (P.child q) := by
  intro t₁ t₂ m1 m2
  obtain ⟨hpx, hpy, hq1⟩ := infQ_iff L.p1 P.centroid
  obtain ⟨a1, b1⟩ := inChild_iff P _ hq1 L t₁ m1
  obtain ⟨a2, b2⟩ := inChild_iff P q hq L t₂ m2
  obtain ⟨h20, h21, _⟩ := m2
  have hpx' : ((P.centroid.x : Int) : ℚ) ≤ (L.p1.x : ℚ) ↔ right (getInfiniteQuadrant L.p1 P.centroid) := by
    rw [← hpx]; exact Int.cast_le
  have hpy' : ((P.centroid.y : Int) : ℚ) ≤ (L.p1.y : ℚ) ↔ top (getInfiniteQuadrant L.p1 P.centroid) := by
    rw [← hpy]; exact Int.cast_le
  unfold Seg.X at a1 a2; unfold Seg.Y at b1 b2
  rcases ne_sides q _ hq hq1 hne with h | h
  · by_cases hr : right (getInfiniteQuadrant L.p1 P.centroid)
    · exact axis_ge_first _ _ _ _ _ (hpx'.2 hr) (a1.2 hr) (not_le.mp (fun hc => (h.1 (a2.1 hc)) hr)) h20 h21
    · exact axis_lt_first _ _ _ _ _ (not_le.mp (fun hc => hr (hpx'.1 hc))) (not_le.mp (fun hc => hr (a1.1 hc))) (a2.2 (h.2 hr)) h20 h21
  · by_cases hr : top (getInfiniteQuadrant L.p1 P.centroid)
    · exact axis_ge_first _ _ _ _ _ (hpy'.2 hr) (b1.2 hr) (not_le.mp (fun hc => (h.1 (b2.1 hc)) hr)) h20 h21
    · exact axis_lt_first _ _ _ _ _ (not_le.mp (fun hc => hr (hpy'.1 hc))) (not_le.mp (fun hc => hr (b1.1 hc))) (b2.2 (h.2 hr)) h20 h21

/-- Lemma Ord2: everything met in any other child comes before everything met in the end quadrant -/
theorem precedes_to_end (P : Parent) (L : Seg) (q : Nat) (hq : q < 4)
    (hne : q ≠ getInfiniteQuadrant L.p2 P.centroid) :
    Precedes L (P.child q) (P.child (getInfiniteQuadrant L.p2 P.centroid)) := by
  intro t₁ t₂ m1 m2
  obtain ⟨hpx, hpy, hq2⟩ := infQ_iff L.p2 P.centroid
  obtain ⟨a1, b1⟩ := inChild_iff P q hq L t₁ m1
  obtain ⟨a2, b2⟩ := inChild_iff P _ hq2 L t₂ m2
  obtain ⟨h10, h11, _⟩ := m1
  have hpx' : ((P.centroid.x : Int) : ℚ) ≤ (L.p2.x : ℚ) ↔ right (getInfiniteQuadrant L.p2 P.centroid) := by
    rw [← hpx]; exact Int.cast_le
  have hpy' : ((P.centroid.y : Int) : ℚ) ≤ (L.p2.y : ℚ) ↔ top (getInfiniteQuadrant L.p2 P.centroid) := by
    rw [← hpy]; exact Int.cast_le
  unfold Seg.X at a1 a2; unfold Seg.Y at b1 b2
  rcases ne_sides q _ hq hq2 hne with h | h
  · by_cases hr : right (getInfiniteQuadrant L.p2 P.centroid)
    · exact axis_ge_last _ _ _ _ _ (hpx'.2 hr) (not_le.mp (fun hc => (h.1 (a1.1 hc)) hr)) (a2.2 hr) h10 h11
    · exact axis_lt_last _ _ _ _ _ (not_le.mp (fun hc => hr (hpx'.1 hc))) (a1.2 (h.2 hr)) (not_le.mp (fun hc => hr (a2.1 hc))) h10 h11
  · by_cases hr : top (getInfiniteQuadrant L.p2 P.centroid)
    · exact axis_ge_last _ _ _ _ _ (hpy'.2 hr) (not_le.mp (fun hc => (h.1 (b1.1 hc)) hr)) (b2.2 hr) h10 h11
    · exact axis_lt_last _ _ _ _ _ (not_le.mp (fun hc => hr (hpy'.1 hc))) (b1.2 (h.2 hr)) (not_le.mp (fun hc => hr (b2.1 hc))) h10 h11


/-! ### Lemma E restated: a met child is on an endpoint's side on each axis -/

theorem meets_side_iff (P : Parent) (L : Seg) (q : Nat) (hq : q < 4) (h : Meets L (P.child q)) :
    let q1 := getInfiniteQuadrant L.p1 P.centroid
    let q2 := getInfiniteQuadrant L.p2 P.centroid
    ((right q ↔ right q1) ∨ (right q ↔ right q2)) ∧ ((top q ↔ top q1) ∨ (top q ↔ top q2)) := by
  intro q1 q2
  obtain ⟨x1, y1, _⟩ := infQ_iff L.p1 P.centroid
  obtain ⟨x2, y2, _⟩ := infQ_iff L.p2 P.centroid
  have hs := meets_side P L q hq h
  simp only at hs
  obtain ⟨s1, s2, s3, s4⟩ := hs
  constructor
  · by_cases hr : right q
    · rcases s1 hr with h' | h'
      · exact Or.inl ⟨fun _ => x1.1 h', fun _ => hr⟩
      · exact Or.inr ⟨fun _ => x2.1 h', fun _ => hr⟩
    · have : q = 0 ∨ q = 2 := by unfold right at hr; omega
      rcases s2 this with h' | h'
      · exact Or.inl ⟨fun h'' => absurd h'' hr, fun h'' => absurd (x1.2 h'') (by omega)⟩
      · exact Or.inr ⟨fun h'' => absurd h'' hr, fun h'' => absurd (x2.2 h'') (by omega)⟩
  · by_cases hr : top q
    · rcases s3 hr with h' | h'
      · exact Or.inl ⟨fun _ => y1.1 h', fun _ => hr⟩
      · exact Or.inr ⟨fun _ => y2.1 h', fun _ => hr⟩
    · have : q = 0 ∨ q = 1 := by unfold top at hr; omega
      rcases s4 this with h' | h'
      · exact Or.inl ⟨fun h'' => absurd h'' hr, fun h'' => absurd (y1.2 h'') (by omega)⟩
      · exact Or.inr ⟨fun h'' => absurd h'' hr, fun h'' => absurd (y2.2 h'') (by omega)⟩

/-- candidates: same quadrant → only it; adjacent → only those two -/
theorem meets_candidates (P : Parent) (L : Seg) (q : Nat) (hq : q < 4) (h : Meets L (P.child q)) :
    let q1 := getInfiniteQuadrant L.p1 P.centroid
    let q2 := getInfiniteQuadrant L.p2 P.centroid
    (q1 = q2 → q = q1) ∧ (quadrantsAreAdjacent q1 q2 = true → q = q1 ∨ q = q2) := by
  intro q1 q2
  have hq1 : q1 < 4 := (infQ_iff L.p1 P.centroid).2.2
  have hq2 : q2 < 4 := (infQ_iff L.p2 P.centroid).2.2
  have hs := meets_side_iff P L q hq h
  simp only at hs
  change ((right q ↔ right q1) ∨ (right q ↔ right q2)) ∧ ((top q ↔ top q1) ∨ (top q ↔ top q2)) at hs
  revert hs
  generalize q1 = a at *
  generalize q2 = b at *
  unfold right top quadrantsAreAdjacent
  interval_cases q <;> interval_cases a <;> interval_cases b <;> simp

/-- Lemma X: on a diagonal the two neighbours of the start quadrant are never both met -/
theorem diag_exclusive (P : Parent) (L : Seg)
    (hdiag : getInfiniteQuadrant L.p1 P.centroid ^^^ getInfiniteQuadrant L.p2 P.centroid = 3)
    (hX : Meets L (P.child (adjacentQuadrantX (getInfiniteQuadrant L.p1 P.centroid))))
    (hY : Meets L (P.child (adjacentQuadrantY (getInfiniteQuadrant L.p1 P.centroid)))) : False := by
  obtain ⟨x1, y1, hq1⟩ := infQ_iff L.p1 P.centroid
  obtain ⟨x2, y2, hq2⟩ := infQ_iff L.p2 P.centroid
  obtain ⟨ta, ma⟩ := hX
  obtain ⟨tb, mb⟩ := hY
  generalize hg1 : getInfiniteQuadrant L.p1 P.centroid = a at *
  generalize hg2 : getInfiniteQuadrant L.p2 P.centroid = b at *
  have hax : adjacentQuadrantX a < 4 := by unfold adjacentQuadrantX; interval_cases a <;> decide
  have hay : adjacentQuadrantY a < 4 := by unfold adjacentQuadrantY; interval_cases a <;> decide
  obtain ⟨ax, ay⟩ := inChild_iff P _ hax L ta ma
  obtain ⟨bx, by'⟩ := inChild_iff P _ hay L tb mb
  obtain ⟨ha0, ha1, _⟩ := ma
  obtain ⟨hb0, hb1, _⟩ := mb
  have x1' : ((P.centroid.x : Int) : ℚ) ≤ (L.p1.x : ℚ) ↔ right a := by rw [← x1]; exact Int.cast_le
  have y1' : ((P.centroid.y : Int) : ℚ) ≤ (L.p1.y : ℚ) ↔ top a := by rw [← y1]; exact Int.cast_le
  unfold Seg.X at ax bx; unfold Seg.Y at ay by'
  -- adjX a has the other x-side and the same y-side as a; adjY a the same x-side and the other y-side
  have sX : (right (adjacentQuadrantX a) ↔ ¬ right a) ∧ (top (adjacentQuadrantX a) ↔ top a) := by
    unfold right top adjacentQuadrantX; interval_cases a <;> simp
  have sY : (right (adjacentQuadrantY a) ↔ right a) ∧ (top (adjacentQuadrantY a) ↔ ¬ top a) := by
    unfold right top adjacentQuadrantY; interval_cases a <;> simp
  -- x-axis: tb (on a's x-side) before ta (other side); y-axis: ta (on a's y-side) before tb
  have h1 : tb < ta := by
    by_cases hr : right a
    · exact axis_ge_first _ _ _ _ _ (x1'.2 hr) (bx.2 (sY.1.2 hr)) (not_le.mp (fun hc => (sX.1.1 (ax.1 hc)) hr)) ha0 ha1
    · exact axis_lt_first _ _ _ _ _ (not_le.mp (fun hc => hr (x1'.1 hc))) (not_le.mp (fun hc => hr (sY.1.1 (bx.1 hc)))) (ax.2 (sX.1.2 hr)) ha0 ha1
  have h2 : ta < tb := by
    by_cases hr : top a
    · exact axis_ge_first _ _ _ _ _ (y1'.2 hr) (ay.2 (sX.2.2 hr)) (not_le.mp (fun hc => (sY.2.1 (by'.1 hc)) hr)) hb0 hb1
    · exact axis_lt_first _ _ _ _ _ (not_le.mp (fun hc => hr (y1'.1 hc))) (not_le.mp (fun hc => hr (sX.2.1 (ay.1 hc)))) (by'.2 (sY.2.2 hr)) hb0 hb1
  linarith


/-! ### the program: evaluating `go` on the three list shapes -/

section prog
variable (li : Seg → Box → Bool) (L : Seg) (present : Nat → Bool) (P : Parent)

/-- what one entry contributes -/
def hit (a : Nat) (ca : Bool) : Bool := present a && (ca || li L (P.child a))

theorem go1 (a : Nat) (ca : Bool) :
    findIntersectingQuadrants.go li L present P [⟨a, ca, false⟩] false = if hit li L present P a ca then [a] else [] := by
  unfold hit
  simp only [findIntersectingQuadrants.go]
  cases present a <;> cases ca <;> cases li L (P.child a) <;> simp

theorem go2 (a b : Nat) (ca cb : Bool) :
    findIntersectingQuadrants.go li L present P [⟨a, ca, false⟩, ⟨b, cb, false⟩] false =
      (if hit li L present P a ca then [a] else []) ++ (if hit li L present P b cb then [b] else []) := by
  unfold hit
  simp only [findIntersectingQuadrants.go]
  cases present a <;> cases ca <;> cases li L (P.child a) <;> cases present b <;> cases cb <;> cases li L (P.child b) <;> simp

theorem go4 (a x y b : Nat) (ca cb : Bool) :
    findIntersectingQuadrants.go li L present P [⟨a, ca, false⟩, ⟨x, false, true⟩, ⟨y, false, true⟩, ⟨b, cb, false⟩] false =
      (if hit li L present P a ca then [a] else []) ++
      (if hit li L present P x false then [x] else if hit li L present P y false then [y] else []) ++
      (if hit li L present P b cb then [b] else []) := by
  unfold hit
  simp only [findIntersectingQuadrants.go]
  cases present a <;> cases ca <;> cases li L (P.child a) <;> cases present x <;> cases li L (P.child x) <;>
    cases present y <;> cases li L (P.child y) <;> cases present b <;> cases cb <;> cases li L (P.child b) <;> simp

end prog


/-! ### main per-parent theorem -/

theorem diag_facts (a b : Nat) (ha : a < 4) (hb : b < 4) (hne : a ≠ b) (hna : quadrantsAreAdjacent a b = false) :
    adjacentQuadrantX a < 4 ∧ adjacentQuadrantY a < 4 ∧ adjacentQuadrantX a ≠ a ∧ adjacentQuadrantY a ≠ a ∧
    adjacentQuadrantX a ≠ b ∧ adjacentQuadrantY a ≠ b ∧ adjacentQuadrantX a ≠ adjacentQuadrantY a ∧
    (∀ q, q < 4 → q = a ∨ q = adjacentQuadrantX a ∨ q = adjacentQuadrantY a ∨ q = b) := by
  unfold adjacentQuadrantX adjacentQuadrantY quadrantsAreAdjacent at *
  interval_cases a <;> interval_cases b <;> simp at hne hna ⊢ <;> omega

theorem fiq_spec (li : Seg → Box → Bool) (L : Seg) (present : Nat → Bool) (P : Parent)
    (hli : ∀ B, li L B = true ↔ Meets L B) :
    (∀ q, q ∈ findIntersectingQuadrants li L present P ↔ (q < 4 ∧ present q = true ∧ Meets L (P.child q))) ∧
    (findIntersectingQuadrants li L present P).Pairwise (fun a b => Precedes L (P.child a) (P.child b)) := by
  obtain ⟨_, _, hq1⟩ := infQ_iff L.p1 P.centroid
  obtain ⟨_, _, hq2⟩ := infQ_iff L.p2 P.centroid
  have c1 := certain1 P L
  have c2 := certain2 P L
  have cand := fun q hq h => meets_candidates P L q hq h
  have ord1 := fun q hq hne => precedes_from_start P L q hq hne
  have ord2 := fun q hq hne => precedes_to_end P L q hq hne
  have excl := fun h hX hY => diag_exclusive P L h hX hY
  have hit_iff : ∀ a ca, (ca = true → Meets L (P.child a)) →
      (hit li L present P a ca = true ↔ (present a = true ∧ Meets L (P.child a))) := by
    intro a ca hc
    unfold hit
    rw [Bool.and_eq_true, Bool.or_eq_true, hli]
    constructor
    · rintro ⟨h1, h2 | h2⟩
      · exact ⟨h1, hc h2⟩
      · exact ⟨h1, h2⟩
    · rintro ⟨h1, h2⟩; exact ⟨h1, Or.inr h2⟩
  unfold findIntersectingQuadrants
  simp only
  generalize getInfiniteQuadrant L.p1 P.centroid = a at *
  generalize getInfiniteQuadrant L.p2 P.centroid = b at *
  generalize hin1 : containsPoint L.p1 P.box = in1 at *
  generalize hin2 : containsPoint L.p2 P.box = in2 at *
  by_cases hab : a = b
  · -- same infinite quadrant
    subst hab
    simp only [if_true]
    have hA : hit li L present P a (in1 && in2) = true ↔ (present a = true ∧ Meets L (P.child a)) :=
      hit_iff a _ (fun h => c1 (by simp at h; exact h.1))
    have e : findIntersectingQuadrants.go li L present P
        (if (in1 && in2) = true then [⟨a, true, false⟩] else [⟨a, false, false⟩]) false =
        if hit li L present P a (in1 && in2) then [a] else [] := by
      cases h : (in1 && in2) <;> simp only [h, Bool.false_eq_true, if_false, if_true] <;> rw [go1]
    rw [e]
    constructor
    · intro q
      by_cases hh : hit li L present P a (in1 && in2) = true
      · simp only [hh, if_true, List.mem_singleton]
        constructor
        · rintro rfl; exact ⟨hq1, hA.1 hh⟩
        · rintro ⟨hq, _, hm⟩; exact ((cand q hq hm).1 rfl)
      · simp only [hh, Bool.false_eq_true, if_false, List.not_mem_nil, false_iff]
        rintro ⟨hq, hp, hm⟩
        have := (cand q hq hm).1 rfl
        subst this
        exact hh (hA.2 ⟨hp, hm⟩)
    · by_cases hh : hit li L present P a (in1 && in2) = true <;> simp [hh]
  · simp only [hab, if_false]
    by_cases hadj : quadrantsAreAdjacent a b = true
    · -- adjacent infinite quadrants
      simp only [hadj, if_true]
      have hA : hit li L present P a (in1 && in2) = true ↔ (present a = true ∧ Meets L (P.child a)) :=
        hit_iff a _ (fun h => c1 (by simp at h; exact h.1))
      have hB : hit li L present P b (in1 && in2) = true ↔ (present b = true ∧ Meets L (P.child b)) :=
        hit_iff b _ (fun h => c2 (by simp at h; exact h.2))
      have e : findIntersectingQuadrants.go li L present P
          (if (in1 && in2) = true then [⟨a, true, false⟩, ⟨b, true, false⟩] else [⟨a, false, false⟩, ⟨b, false, false⟩]) false =
          (if hit li L present P a (in1 && in2) then [a] else []) ++ (if hit li L present P b (in1 && in2) then [b] else []) := by
        cases h : (in1 && in2) <;> simp only [h, Bool.false_eq_true, if_false, if_true] <;> rw [go2]
      rw [e]
      constructor
      · intro q
        rw [List.mem_append]
        constructor
        · rintro (h | h)
          · by_cases hh : hit li L present P a (in1 && in2) = true
            · simp only [hh, if_true, List.mem_singleton] at h; subst h; exact ⟨hq1, hA.1 hh⟩
            · simp [hh] at h
          · by_cases hh : hit li L present P b (in1 && in2) = true
            · simp only [hh, if_true, List.mem_singleton] at h; subst h; exact ⟨hq2, hB.1 hh⟩
            · simp [hh] at h
        · rintro ⟨hq, hp, hm⟩
          rcases (cand q hq hm).2 hadj with rfl | rfl
          · left; simp [hA.2 ⟨hp, hm⟩]
          · right; simp [hB.2 ⟨hp, hm⟩]
      · have hab' : b ≠ a := fun h => hab h.symm
        by_cases hh : hit li L present P a (in1 && in2) = true <;> by_cases hh' : hit li L present P b (in1 && in2) = true <;>
          simp [hh, hh']
        exact ord1 b hq2 hab'
    · -- diagonal
      have hadj' : quadrantsAreAdjacent a b = false := by simpa using hadj
      simp only [hadj, Bool.false_eq_true, if_false]
      obtain ⟨hx4, hy4, hxa, hya, hxb, hyb, hxy, hall⟩ := diag_facts a b hq1 hq2 hab hadj'
      have hA : hit li L present P a in1 = true ↔ (present a = true ∧ Meets L (P.child a)) := hit_iff a _ (fun h => c1 h)
      have hB : hit li L present P b in2 = true ↔ (present b = true ∧ Meets L (P.child b)) := hit_iff b _ (fun h => c2 h)
      have hX := hit_iff (adjacentQuadrantX a) false (fun h => absurd h (by simp))
      have hY := hit_iff (adjacentQuadrantY a) false (fun h => absurd h (by simp))
      have hdiag : a ^^^ b = 3 := by
        unfold quadrantsAreAdjacent at hadj'
        interval_cases a <;> interval_cases b <;> simp at hab hadj' ⊢
      rw [go4]
      constructor
      · intro q
        simp only [List.mem_append]
        constructor
        · rintro ((h | h) | h)
          · by_cases hh : hit li L present P a in1 = true
            · simp only [hh, if_true, List.mem_singleton] at h; subst h; exact ⟨hq1, hA.1 hh⟩
            · simp [hh] at h
          · by_cases hh : hit li L present P (adjacentQuadrantX a) false = true
            · simp only [hh, if_true, List.mem_singleton] at h; subst h; exact ⟨hx4, hX.1 hh⟩
            · by_cases hh' : hit li L present P (adjacentQuadrantY a) false = true
              · simp only [hh, hh', Bool.false_eq_true, if_false, if_true, List.mem_singleton] at h; subst h; exact ⟨hy4, hY.1 hh'⟩
              · simp [hh, hh'] at h
          · by_cases hh : hit li L present P b in2 = true
            · simp only [hh, if_true, List.mem_singleton] at h; subst h; exact ⟨hq2, hB.1 hh⟩
            · simp [hh] at h
        · rintro ⟨hq, hp, hm⟩
          rcases hall q hq with rfl | rfl | rfl | rfl
          · left; left; simp [hA.2 ⟨hp, hm⟩]
          · left; right; simp [hX.2 ⟨hp, hm⟩]
          · left; right
            have hnx : ¬ hit li L present P (adjacentQuadrantX a) false = true := by
              intro hc; exact excl hdiag (hX.1 hc).2 hm
            simp [hnx, hY.2 ⟨hp, hm⟩]
          · right; simp [hB.2 ⟨hp, hm⟩]
      · have hab' : b ≠ a := fun h => hab h.symm
        by_cases h1 : hit li L present P a in1 = true <;>
        by_cases h2 : hit li L present P (adjacentQuadrantX a) false = true <;>
        by_cases h3 : hit li L present P (adjacentQuadrantY a) false = true <;>
        by_cases h4 : hit li L present P b in2 = true <;>
          simp [h1, h2, h3, h4, List.pairwise_append, List.pairwise_cons] <;>
          (try constructor) <;>
          first
          | exact ord1 _ hx4 hxa | exact ord1 _ hy4 hya | exact ord1 _ hq2 hab'
          | exact ord2 _ hx4 hxb | exact ord2 _ hy4 hyb | exact ord2 _ hq1 hab
          | (constructor <;> first | exact ord1 _ hx4 hxa | exact ord1 _ hy4 hya | exact ord1 _ hq2 hab' | exact ord2 _ hx4 hxb | exact ord2 _ hy4 hyb | exact ord2 _ hq1 hab)
          | skip

#print axioms fiq_spec

end Texel
