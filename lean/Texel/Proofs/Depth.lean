import Texel.Proofs.Chain
import Texel.Proofs.SnapF
/-! Independence of a level's result from the depth of the index, for two indexes over the same extent (`SameExtent`):
`snapLevel_congr`, `own_pixel`, `pixel_unique`, `up_eq`, `hotOf_eq`, `processLevel_congr`, `C08_round_grid`. -/
namespace Texel

/-- two grids over the same extent: same origin, same total span -/
structure SameExtent (g₁ g₂ : Grid) : Prop where
  minX : g₁.minX = g₂.minX
  minY : g₁.minY = g₂.minY
  span : 2 ^ g₁.depth * g₁.res = 2 ^ g₂.depth * g₂.res
  res₁ : 0 < g₁.res
  res₂ : 0 < g₂.res

theorem span_mul (g : Grid) (k : Nat) (hk : k ≤ g.depth) : 2 ^ k * g.span k = 2 ^ g.depth * g.res := by
  unfold Grid.span
  rw [← mul_assoc, ← pow_add]
  congr 2; omega

theorem span_eq (g₁ g₂ : Grid) (h : SameExtent g₁ g₂) (k : Nat) (h1 : k ≤ g₁.depth) (h2 : k ≤ g₂.depth) : g₁.span k = g₂.span k := by
  have e1 := span_mul g₁ k h1
  have e2 := span_mul g₂ k h2
  have : (2 : Int) ^ k * g₁.span k = 2 ^ k * g₂.span k := by rw [e1, e2, h.span]
  exact mul_left_cancel₀ (by positivity) this

theorem box_eq (g₁ g₂ : Grid) (h : SameExtent g₁ g₂) (k : Nat) (h1 : k ≤ g₁.depth) (h2 : k ≤ g₂.depth) (p : Quad) : g₁.box k p = g₂.box k p := by
  unfold Grid.box; rw [span_eq g₁ g₂ h k h1 h2, h.minX, h.minY]

theorem parent_eq (g₁ g₂ : Grid) (h : SameExtent g₁ g₂) (k : Nat) (h1 : k + 1 ≤ g₁.depth) (h2 : k + 1 ≤ g₂.depth) (p : Quad) : g₁.parent k p = g₂.parent k p := by
  unfold Grid.parent
  rw [span_eq g₁ g₂ h k (by omega) (by omega), span_eq g₁ g₂ h (k + 1) h1 h2, h.minX, h.minY]

theorem snapLevel_congr (li : Seg → Box → Bool) (g₁ g₂ : Grid) (h : SameExtent g₁ g₂) (hot₁ hot₂ : Nat → Quad → Bool) (L : Seg)
    (l : Nat) (h1 : l ≤ g₁.depth) (h2 : l ≤ g₂.depth) (hhot : ∀ k, 1 ≤ k → k ≤ l → ∀ p, hot₁ k p = hot₂ k p) :
    snapLevel li g₁ hot₁ L l = snapLevel li g₂ hot₂ L l := by
  induction l with
  | zero => simp only [snapLevel]; rw [box_eq g₁ g₂ h 0 (by omega) (by omega)]
  | succ n ih =>
    simp only [snapLevel]
    rw [ih (by omega) (by omega) (fun k hk1 hk2 p => hhot k hk1 (by omega) p)]
    congr 1
    funext p
    rw [parent_eq g₁ g₂ h n h1 h2 p]
    have : (fun q => hot₁ (n + 1) (p.child q)) = (fun q => hot₂ (n + 1) (p.child q)) := by
      funext q; exact hhot (n + 1) (by omega) (by omega) _
    rw [this]

/-- a vertex lies in the level-`l` pixel of its own deepest address (integer form of `start_in_own_pixel`) -/
theorem own_pixel (g : Grid) (hres : 0 < g.res) (p : Pt) (a : Quad) (ha : deepestAddr g p = some a) (l : Nat) :
    containsPoint p (g.box l (a.up g l)) = true := by
  obtain ⟨x0, x1, y0, y1, _, _⟩ := deepestAddr_spec g hres p a ha
  rw [containsPoint_iff]
  unfold Grid.box Grid.span Quad.up
  simp only
  set k := 2 ^ (g.depth - l) with hk
  have hkpos : 0 < k := by positivity
  have dx := Nat.div_add_mod a.x k
  have dy := Nat.div_add_mod a.y k
  have mx := Nat.mod_lt a.x hkpos
  have my := Nat.mod_lt a.y hkpos
  have hkz : ((2 : Int) ^ (g.depth - l)) = (k : Int) := by simp [hk]
  rw [hkz]
  have dxz : ((k : Int) * ((a.x / k : Nat) : Int) + ((a.x % k : Nat) : Int)) = (a.x : Int) := by exact_mod_cast dx
  have dyz : ((k : Int) * ((a.y / k : Nat) : Int) + ((a.y % k : Nat) : Int)) = (a.y : Int) := by exact_mod_cast dy
  have mxz : ((a.x % k : Nat) : Int) < k := by exact_mod_cast mx
  have myz : ((a.y % k : Nat) : Int) < k := by exact_mod_cast my
  have mx0 : (0 : Int) ≤ ((a.x % k : Nat) : Int) := Int.natCast_nonneg _
  have my0 : (0 : Int) ≤ ((a.y % k : Nat) : Int) := Int.natCast_nonneg _
  have kz : (0 : Int) < k := by exact_mod_cast hkpos
  refine ⟨?_, ?_, ?_, ?_⟩
  · have : g.minX + ((a.x / k : Nat) : Int) * ((k : Int) * g.res) ≤ p.x := by nlinarith
    exact_mod_cast this
  · have : p.x < g.minX + (((a.x / k : Nat) : Int) + 1) * ((k : Int) * g.res) := by nlinarith
    exact_mod_cast this
  · have : g.minY + ((a.y / k : Nat) : Int) * ((k : Int) * g.res) ≤ p.y := by nlinarith
    exact_mod_cast this
  · have : p.y < g.minY + (((a.y / k : Nat) : Int) + 1) * ((k : Int) * g.res) := by nlinarith
    exact_mod_cast this

/-- pixels of one level are disjoint: a point lies in at most one -/
theorem pixel_unique (g : Grid) (l : Nat) (hs : 0 < g.span l) (p : Pt) (q q' : Quad)
    (h : containsPoint p (g.box l q) = true) (h' : containsPoint p (g.box l q') = true) : q = q' := by
  rw [containsPoint_iff] at h h'
  unfold Grid.box at h h'
  simp only at h h'
  obtain ⟨a1, a2, a3, a4⟩ := h
  obtain ⟨b1, b2, b3, b4⟩ := h'
  have hx : (q.x : Int) = q'.x := by
    by_contra hne
    rcases lt_or_gt_of_ne hne with hlt | hgt
    · have : (q.x : Int) + 1 ≤ q'.x := by omega
      nlinarith
    · have : (q'.x : Int) + 1 ≤ q.x := by omega
      nlinarith
  have hy : (q.y : Int) = q'.y := by
    by_contra hne
    rcases lt_or_gt_of_ne hne with hlt | hgt
    · have : (q.y : Int) + 1 ≤ q'.y := by omega
      nlinarith
    · have : (q'.y : Int) + 1 ≤ q.y := by omega
      nlinarith
  cases q; cases q'
  simp only [Quad.mk.injEq]
  exact ⟨by exact_mod_cast hx, by exact_mod_cast hy⟩

/-- the level-`k` pixel of a vertex does not depend on the depth of the index (same extent) -/
theorem up_eq (g₁ g₂ : Grid) (h : SameExtent g₁ g₂) (p : Pt) (a₁ a₂ : Quad) (h1 : deepestAddr g₁ p = some a₁) (h2 : deepestAddr g₂ p = some a₂)
    (k : Nat) (hk1 : k ≤ g₁.depth) (hk2 : k ≤ g₂.depth) : a₁.up g₁ k = a₂.up g₂ k := by
  have c1 := own_pixel g₁ h.res₁ p a₁ h1 k
  have c2 := own_pixel g₂ h.res₂ p a₂ h2 k
  rw [← box_eq g₁ g₂ h k hk1 hk2] at c2
  have hs : 0 < g₁.span k := by unfold Grid.span; have := h.res₁; positivity
  exact pixel_unique g₁ k hs p _ _ c1 c2


theorem mapM_up_eq (g₁ g₂ : Grid) (h : SameExtent g₁ g₂) (k : Nat) (hk1 : k ≤ g₁.depth) (hk2 : k ≤ g₂.depth)
    (vs : List Pt) (as₁ as₂ : List Quad) (h1 : vs.mapM (deepestAddr g₁) = some as₁) (h2 : vs.mapM (deepestAddr g₂) = some as₂) :
    as₁.map (·.up g₁ k) = as₂.map (·.up g₂ k) := by
  induction vs generalizing as₁ as₂ with
  | nil => simp at h1 h2; subst h1 h2; rfl
  | cons v rest ih =>
    rw [List.mapM_cons] at h1 h2
    cases hv1 : deepestAddr g₁ v with
    | none => simp [hv1] at h1
    | some a1 =>
      cases hv2 : deepestAddr g₂ v with
      | none => simp [hv2] at h2
      | some a2 =>
        cases hr1 : rest.mapM (deepestAddr g₁) with
        | none => simp [hv1, hr1] at h1
        | some r1 =>
          cases hr2 : rest.mapM (deepestAddr g₂) with
          | none => simp [hv2, hr2] at h2
          | some r2 =>
            simp [hv1, hr1] at h1
            simp [hv2, hr2] at h2
            subst h1 h2
            simp only [List.map_cons]
            rw [up_eq g₁ g₂ h v a1 a2 hv1 hv2 k hk1 hk2, ih r1 r2 hr1 hr2]

theorem hotOf_eq (g₁ g₂ : Grid) (h : SameExtent g₁ g₂) (k : Nat) (hk1 : k ≤ g₁.depth) (hk2 : k ≤ g₂.depth)
    (vs : List Pt) (as₁ as₂ : List Quad) (h1 : vs.mapM (deepestAddr g₁) = some as₁) (h2 : vs.mapM (deepestAddr g₂) = some as₂) (q : Quad) :
    hotOf g₁ as₁ k q = hotOf g₂ as₂ k q := by
  have := mapM_up_eq g₁ g₂ h k hk1 hk2 vs as₁ as₂ h1 h2
  unfold hotOf
  have e1 : (as₁.any fun a => a.up g₁ k == q) = ((as₁.map (·.up g₁ k)).any (· == q)) := by rw [List.any_map]; rfl
  have e2 : (as₂.any fun a => a.up g₂ k == q) = ((as₂.map (·.up g₂ k)).any (· == q)) := by rw [List.any_map]; rfl
  rw [e1, e2, this]

theorem routeRing_congr (g₁ g₂ : Grid) (h : SameExtent g₁ g₂) (hot₁ hot₂ : Nat → Quad → Bool) (l : Nat) (h1 : l ≤ g₁.depth) (h2 : l ≤ g₂.depth)
    (hhot : ∀ k, 1 ≤ k → k ≤ l → ∀ p, hot₁ k p = hot₂ k p) (ring : List Pt) : routeRing g₁ hot₁ l ring = routeRing g₂ hot₂ l ring := by
  unfold routeRing
  congr 1
  funext s
  rw [snapLevel_congr lineIntersects g₁ g₂ h hot₁ hot₂ s l h1 h2 hhot]

theorem processRing_congr (g₁ g₂ : Grid) (h : SameExtent g₁ g₂) (hot₁ hot₂ : Nat → Quad → Bool) (l : Nat) (h1 : l ≤ g₁.depth) (h2 : l ≤ g₂.depth)
    (hhot : ∀ k, 1 ≤ k → k ≤ l → ∀ p, hot₁ k p = hot₂ k p) (isOuter : Bool) (ring : List Pt) :
    processRing g₁ hot₁ l isOuter ring = processRing g₂ hot₂ l isOuter ring := by
  unfold processRing
  rw [routeRing_congr g₁ g₂ h hot₁ hot₂ l h1 h2 hhot]

theorem processHoles_congr (g₁ g₂ : Grid) (h : SameExtent g₁ g₂) (hot₁ hot₂ : Nat → Quad → Bool) (l : Nat) (h1 : l ≤ g₁.depth) (h2 : l ≤ g₂.depth)
    (hhot : ∀ k, 1 ≤ k → k ≤ l → ∀ p, hot₁ k p = hot₂ k p) (keep : Bool) (holes : List (List Pt)) (a : Acc) :
    processHoles g₁ hot₁ l keep holes a = processHoles g₂ hot₂ l keep holes a := by
  induction holes generalizing a with
  | nil => rfl
  | cons hd tl ih =>
    simp only [processHoles]
    rw [processRing_congr g₁ g₂ h hot₁ hot₂ l h1 h2 hhot]
    congr 1
    funext sp
    exact ih _

theorem processLevel_congr (g₁ g₂ : Grid) (h : SameExtent g₁ g₂) (hot₁ hot₂ : Nat → Quad → Bool) (l : Nat) (h1 : l ≤ g₁.depth) (h2 : l ≤ g₂.depth)
    (hhot : ∀ k, 1 ≤ k → k ≤ l → ∀ p, hot₁ k p = hot₂ k p) (cfg : Config) (rings : List (List Pt)) :
    processLevel g₁ hot₁ cfg l rings = processLevel g₂ hot₂ cfg l rings := by
  unfold processLevel levelAcc
  cases rings with
  | nil => rfl
  | cons outer holes =>
    simp only
    rw [processRing_congr g₁ g₂ h hot₁ hot₂ l h1 h2 hhot]
    have : ∀ a, processHoles g₁ hot₁ l cfg.keep holes a = processHoles g₂ hot₂ l cfg.keep holes a :=
      fun a => processHoles_congr g₁ g₂ h hot₁ hot₂ l h1 h2 hhot cfg.keep holes a
    simp only [this]

/-- **C08 (depth independence on a round grid)**: two indexes over the same extent (same origin, `2^depth·res` equal — the extent divides
evenly into the pixels of both depths) give, for every polygon inside the extent and every level both reach, the same result for that level -/
theorem C08_round_grid (g₁ g₂ : Grid) (h : SameExtent g₁ g₂) (rings : List (List Pt)) (as₁ as₂ : List Quad)
    (i1 : insertAll g₁ rings = some as₁) (i2 : insertAll g₂ rings = some as₂) (cfg : Config) (l : Nat) (h1 : l ≤ g₁.depth) (h2 : l ≤ g₂.depth) :
    processLevel g₁ (hotOf g₁ as₁) cfg l rings = processLevel g₂ (hotOf g₂ as₂) cfg l rings := by
  apply processLevel_congr g₁ g₂ h _ _ l h1 h2
  intro k _ hk q
  exact hotOf_eq g₁ g₂ h k (by omega) (by omega) rings.flatten as₁ as₂ i1 i2 q

end Texel
