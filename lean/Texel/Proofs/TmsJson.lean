import Texel.Model.TmsJson
/-! Round trip of tile matrix set documents on the model `Texel.TJ` (core-only):
`decode_encode` (encoding a well-formed value and decoding it gives the value back), `decode_WF` (whatever `decode` accepts is
well formed), hence `decode_encode_decode`. -/
namespace Texel.TJ

theorem lookup_append (k : String) (a b : List (String × J)) : lookup k (a ++ b) = (lookup k a).orElse (fun _ => lookup k b) := by
  induction a with
  | nil => simp [lookup]
  | cons x xs ih =>
    obtain ⟨k', v⟩ := x
    simp only [List.cons_append, lookup]
    split
    · simp
    · exact ih

theorem lookup_optStr (k k' s : String) : lookup k (optStr k' s) = if s ≠ "" ∧ k' = k then some (.str s) else none := by
  unfold optStr
  by_cases hs : s = ""
  · simp [hs, lookup]
  · simp [hs, lookup]

theorem toUint_nat (n : Nat) : Num.toUint ⟨(n : Int), 0⟩ = some n := by
  unfold Num.toUint
  have : ¬ ((n : Int) < 0) := by omega
  simp [this]

end Texel.TJ

namespace Texel.TJ

def VMW.WF (v : VMW) : Prop := 2 ≤ v.coalesce ∧ v.coalesce ≤ maxU ∧ v.minRow ≤ maxU ∧ v.maxRow ≤ maxU

theorem getNum_natJ (kvs : List (String × J)) (k : String) (n : Nat) (h : lookup k kvs = some (natJ n)) : getNum kvs k = .ok (some ⟨(n : Int), 0⟩) := by
  unfold getNum; rw [h]; rfl

theorem decodeVMW_encode (v : VMW) (h : v.WF) : decodeVMW (encodeVMW v) = .ok v := by
  obtain ⟨h1, h2, h3, h4⟩ := h
  unfold encodeVMW decodeVMW
  have hc : getUintReq [("coalesce", natJ v.coalesce), ("minTileRow", natJ v.minRow), ("maxTileRow", natJ v.maxRow)] "coalesce" 2 = .ok v.coalesce := by
    unfold getUintReq
    rw [getNum_natJ _ _ v.coalesce (by simp [lookup])]
    simp only [bind, Except.bind, toUint_nat]
    cases hcz : v.coalesce with
    | zero => omega
    | succ m =>
      simp only
      rw [if_neg (by omega), if_neg (by omega)]
  have hlo : getUintOpt [("coalesce", natJ v.coalesce), ("minTileRow", natJ v.minRow), ("maxTileRow", natJ v.maxRow)] "minTileRow" = .ok v.minRow := by
    unfold getUintOpt
    rw [getNum_natJ _ _ v.minRow (by simp [lookup])]
    simp only [bind, Except.bind, toUint_nat]
    rw [if_neg (by omega)]
  have hhi : getUintOpt [("coalesce", natJ v.coalesce), ("minTileRow", natJ v.minRow), ("maxTileRow", natJ v.maxRow)] "maxTileRow" = .ok v.maxRow := by
    unfold getUintOpt
    rw [getNum_natJ _ _ v.maxRow (by simp [lookup])]
    simp only [bind, Except.bind, toUint_nat]
    rw [if_neg (by omega)]
  simp only [bind, Except.bind, hc, hlo, hhi, pure, Except.pure]

theorem decodeVMWs_encode (vs : List VMW) (h : ∀ v ∈ vs, v.WF) : decodeVMWs (vs.map encodeVMW) = .ok vs := by
  induction vs with
  | nil => rfl
  | cons v rest ih =>
    simp only [List.map_cons, decodeVMWs, bind, Except.bind]
    rw [decodeVMW_encode v (h v List.mem_cons_self), ih (fun w hw => h w (List.mem_cons_of_mem _ hw))]
    rfl

end Texel.TJ

namespace Texel.TJ

def tmFields (t : TM) : List (String × J) :=
  [("id", .str t.id)] ++ optStr "title" t.title ++ optStr "description" t.description ++ optStrs "keywords" t.keywords ++
    [("scaleDenominator", .num t.scaleDenominator), ("cellSize", .num t.cellSize)] ++ optStr "cornerOfOrigin" t.corner ++
    [("pointOfOrigin", pointJ t.origin), ("tileWidth", natJ t.tileWidth), ("tileHeight", natJ t.tileHeight),
     ("matrixWidth", natJ t.matrixWidth), ("matrixHeight", natJ t.matrixHeight)] ++
    (if t.vmw = [] then [] else [("variableMatrixWidths", .arr (t.vmw.map encodeVMW))])

theorem encodeTM_eq (t : TM) : encodeTM t = .obj (tmFields t) := rfl

theorem lookup_optStrs (k k' : String) (l : List String) : lookup k (optStrs k' l) = if l ≠ [] ∧ k' = k then some (.arr (l.map .str)) else none := by
  unfold optStrs
  by_cases hs : l = []
  · simp [hs, lookup]
  · simp [hs, lookup]

theorem lookup_cons (k k' : String) (v : J) (rest : List (String × J)) : lookup k ((k', v) :: rest) = if k' = k then some v else lookup k rest := rfl

theorem lookup_ite_nil (k k' : String) (c : Prop) [Decidable c] (v : J) :
    lookup k (if c then [] else [(k', v)]) = if ¬ c ∧ k' = k then some v else none := by
  by_cases h : c <;> simp [h, lookup]

macro "lk" : tactic => `(tactic| (simp [tmFields, lookup_append, lookup_cons, lookup_optStr, lookup_optStrs, lookup_ite_nil, lookup] <;> (try split) <;> simp_all))

theorem lk_id (t : TM) : lookup "id" (tmFields t) = some (.str t.id) := by lk
theorem lk_title (t : TM) : lookup "title" (tmFields t) = if t.title ≠ "" then some (.str t.title) else none := by lk
theorem lk_desc (t : TM) : lookup "description" (tmFields t) = if t.description ≠ "" then some (.str t.description) else none := by lk
theorem lk_kw (t : TM) : lookup "keywords" (tmFields t) = if t.keywords ≠ [] then some (.arr (t.keywords.map .str)) else none := by lk
theorem lk_sd (t : TM) : lookup "scaleDenominator" (tmFields t) = some (.num t.scaleDenominator) := by lk
theorem lk_cs (t : TM) : lookup "cellSize" (tmFields t) = some (.num t.cellSize) := by lk
theorem lk_corner (t : TM) : lookup "cornerOfOrigin" (tmFields t) = if t.corner ≠ "" then some (.str t.corner) else none := by lk
theorem lk_origin (t : TM) : lookup "pointOfOrigin" (tmFields t) = some (pointJ t.origin) := by lk
theorem lk_tw (t : TM) : lookup "tileWidth" (tmFields t) = some (natJ t.tileWidth) := by lk
theorem lk_th (t : TM) : lookup "tileHeight" (tmFields t) = some (natJ t.tileHeight) := by lk
theorem lk_mw (t : TM) : lookup "matrixWidth" (tmFields t) = some (natJ t.matrixWidth) := by lk
theorem lk_mh (t : TM) : lookup "matrixHeight" (tmFields t) = some (natJ t.matrixHeight) := by lk
theorem lk_vmw (t : TM) : lookup "variableMatrixWidths" (tmFields t) = if t.vmw ≠ [] then some (.arr (t.vmw.map encodeVMW)) else none := by lk

end Texel.TJ

namespace Texel.TJ

structure TM.WF (k : Int) (t : TM) : Prop where
  id_ne : t.id ≠ ""
  key : parseInt64 t.id = some k
  sd : t.scaleDenominator.pos = true
  cs : t.cellSize.pos = true
  corner : t.corner = "" ∨ t.corner = "topLeft" ∨ t.corner = "bottomLeft"
  tw : 1 ≤ t.tileWidth ∧ t.tileWidth ≤ maxU
  th : 1 ≤ t.tileHeight ∧ t.tileHeight ≤ maxU
  mw : 1 ≤ t.matrixWidth ∧ t.matrixWidth ≤ maxU
  mh : 1 ≤ t.matrixHeight ∧ t.matrixHeight ≤ maxU
  vmw : ∀ v ∈ t.vmw, v.WF

theorem strList_map_str (l : List String) : strList (l.map .str) = .ok l := by
  induction l with
  | nil => rfl
  | cons s rest ih => simp only [List.map_cons, strList, bind, Except.bind, ih]; rfl

theorem getStr_of (kvs : List (String × J)) (k s : String) (h : lookup k kvs = if s ≠ "" then some (.str s) else none) : getStr kvs k = .ok s := by
  unfold getStr
  by_cases hs : s = ""
  · subst hs; simp at h; rw [h]
  · rw [if_pos hs] at h; rw [h]

theorem getStrs_of (kvs : List (String × J)) (k : String) (l : List String)
    (h : lookup k kvs = if l ≠ [] then some (.arr (l.map .str)) else none) : (getStrs kvs k).map (·.getD []) = .ok l := by
  unfold getStrs
  by_cases hl : l = []
  · subst hl; simp at h; rw [h]; rfl
  · rw [if_pos hl] at h; rw [h]
    simp only [bind, Except.bind, strList_map_str, pure, Except.pure]
    rfl

theorem validUint_nat (n : Nat) (k : String) (h : 1 ≤ n ∧ n ≤ maxU) : validUint (some ⟨(n : Int), 0⟩) k = .ok n := by
  unfold validUint
  simp only [toUint_nat]
  cases hn : n with
  | zero => omega
  | succ m => simp only; rw [if_neg (by omega)]

theorem decodeTM_encode (k : Int) (t : TM) (h : t.WF k) : decodeTM (encodeTM t) = .ok (k, t) := by
  rw [encodeTM_eq]
  unfold decodeTM
  have e_id : getStr (tmFields t) "id" = .ok t.id := by unfold getStr; rw [lk_id]
  have e_title := getStr_of (tmFields t) "title" t.title (lk_title t)
  have e_desc := getStr_of (tmFields t) "description" t.description (lk_desc t)
  have e_kw : ∃ kwo, getStrs (tmFields t) "keywords" = .ok kwo ∧ kwo.getD [] = t.keywords := by
    have := getStrs_of (tmFields t) "keywords" t.keywords (lk_kw t)
    cases hg : getStrs (tmFields t) "keywords" with
    | error e => rw [hg] at this; cases this
    | ok kwo => rw [hg] at this; simp only [Except.map, Except.ok.injEq] at this; exact ⟨kwo, rfl, this⟩
  obtain ⟨kwo, e_kw1, e_kw2⟩ := e_kw
  have e_sd : getNum (tmFields t) "scaleDenominator" = .ok (some t.scaleDenominator) := by unfold getNum; rw [lk_sd]
  have e_cs : getNum (tmFields t) "cellSize" = .ok (some t.cellSize) := by unfold getNum; rw [lk_cs]
  have e_corner : decodeCorner (tmFields t) = .ok t.corner := by
    unfold decodeCorner
    rw [lk_corner]
    rcases h.corner with hc | hc | hc <;> rw [hc] <;> simp
  have e_origin : optField (tmFields t) "pointOfOrigin" point = .ok (some t.origin) := by
    unfold optField; rw [lk_origin]; simp [pointJ, point, Except.map]
  have e_tw : getNum (tmFields t) "tileWidth" = .ok (some ⟨(t.tileWidth : Int), 0⟩) := getNum_natJ _ _ _ (lk_tw t)
  have e_th : getNum (tmFields t) "tileHeight" = .ok (some ⟨(t.tileHeight : Int), 0⟩) := getNum_natJ _ _ _ (lk_th t)
  have e_mw : getNum (tmFields t) "matrixWidth" = .ok (some ⟨(t.matrixWidth : Int), 0⟩) := getNum_natJ _ _ _ (lk_mw t)
  have e_mh : getNum (tmFields t) "matrixHeight" = .ok (some ⟨(t.matrixHeight : Int), 0⟩) := getNum_natJ _ _ _ (lk_mh t)
  have e_vmw : ∃ vo, optField (tmFields t) "variableMatrixWidths" vmwField = .ok vo ∧ vo.getD [] = t.vmw := by
    unfold optField
    rw [lk_vmw]
    by_cases hv : t.vmw = []
    · simp [hv]
    · rw [if_pos hv]
      simp only [vmwField, decodeVMWs_encode t.vmw h.vmw, Except.map]
      exact ⟨some t.vmw, rfl, rfl⟩
  obtain ⟨vo, e_vmw1, e_vmw2⟩ := e_vmw
  have e_check : check (decide (t.id ≠ "")) "ID: required" = .ok () := by
    unfold check; simp [h.id_ne]
  have e_vsd : validPos (some t.scaleDenominator) "scaleDenominator" = .ok t.scaleDenominator := by unfold validPos; simp [h.sd]
  have e_vcs : validPos (some t.cellSize) "cellSize" = .ok t.cellSize := by unfold validPos; simp [h.cs]
  have e_key : idKey t.id = .ok k := by unfold idKey; rw [h.key]
  simp only [bind, Except.bind, e_id, e_title, e_desc, e_kw1, e_sd, e_cs, e_corner, e_origin, e_tw, e_th, e_mw, e_mh, e_vmw1, e_check,
    e_vsd, e_vcs, required, validUint_nat _ _ h.tw, validUint_nat _ _ h.th, validUint_nat _ _ h.mw, validUint_nat _ _ h.mh, e_key,
    pure, Except.pure, e_kw2, e_vmw2]

end Texel.TJ

namespace Texel.TJ

/-! ### the list of tile matrices -/

theorem insertTM_append (k : Int) (tm : TM) (acc : List (Int × TM)) (h : ∀ e ∈ acc, e.1 < k) : insertTM k tm acc = acc ++ [(k, tm)] := by
  induction acc with
  | nil => rfl
  | cons e rest ih =>
    obtain ⟨k', t'⟩ := e
    have hk : k' < k := h (k', t') List.mem_cons_self
    simp only [insertTM, List.cons_append]
    rw [if_neg (by omega), if_neg (by omega), ih (fun e he => h e (List.mem_cons_of_mem _ he))]

/-- strictly increasing keys, every matrix well formed for its key -/
def MatricesWF (ms : List (Int × TM)) : Prop := ms.Pairwise (fun a b => a.1 < b.1) ∧ ∀ e ∈ ms, e.2.WF e.1

theorem decodeTMs_encode (ms acc : List (Int × TM)) (hwf : MatricesWF ms) (hacc : ∀ a ∈ acc, ∀ e ∈ ms, a.1 < e.1) :
    decodeTMs (ms.map fun e => encodeTM e.2) acc = .ok (acc ++ ms) := by
  induction ms generalizing acc with
  | nil => simp [decodeTMs]
  | cons e rest ih =>
    obtain ⟨k, t⟩ := e
    obtain ⟨hpw, hall⟩ := hwf
    rw [List.pairwise_cons] at hpw
    simp only [List.map_cons, decodeTMs, bind, Except.bind]
    rw [decodeTM_encode k t (hall (k, t) List.mem_cons_self)]
    simp only
    rw [insertTM_append k t acc (fun a ha => hacc a ha (k, t) List.mem_cons_self)]
    rw [ih (acc ++ [(k, t)]) ⟨hpw.2, fun e he => hall e (List.mem_cons_of_mem _ he)⟩]
    · simp
    · intro a ha e he
      rcases List.mem_append.1 ha with h1 | h1
      · exact hacc a h1 e (List.mem_cons_of_mem _ he)
      · simp only [List.mem_singleton] at h1
        subst h1
        exact hpw.1 e he

theorem mem_insertTM (k : Int) (tm : TM) (acc : List (Int × TM)) (e : Int × TM) (he : e ∈ insertTM k tm acc) : e = (k, tm) ∨ (e ∈ acc ∧ e.1 ≠ k) ∨ (e ∈ acc ∧ False) ∨ e ∈ acc := by
  induction acc with
  | nil => simp only [insertTM, List.mem_singleton] at he; exact Or.inl he
  | cons a rest ih =>
    obtain ⟨k', t'⟩ := a
    simp only [insertTM] at he
    split at he
    · rcases List.mem_cons.1 he with h | h
      · exact Or.inl h
      · exact Or.inr (Or.inr (Or.inr h))
    · split at he
      · rcases List.mem_cons.1 he with h | h
        · exact Or.inl h
        · exact Or.inr (Or.inr (Or.inr (List.mem_cons_of_mem _ h)))
      · rcases List.mem_cons.1 he with h | h
        · subst h; exact Or.inr (Or.inr (Or.inr List.mem_cons_self))
        · rcases ih h with h1 | h1 | h1 | h1
          · exact Or.inl h1
          · exact Or.inr (Or.inr (Or.inr (List.mem_cons_of_mem _ h1.1)))
          · exact absurd h1.2 id
          · exact Or.inr (Or.inr (Or.inr (List.mem_cons_of_mem _ h1)))

theorem insertTM_WF (k : Int) (tm : TM) (acc : List (Int × TM)) (hacc : MatricesWF acc) (ht : tm.WF k) : MatricesWF (insertTM k tm acc) := by
  induction acc with
  | nil => exact ⟨by simp [insertTM], by intro e he; simp only [insertTM, List.mem_singleton] at he; subst he; exact ht⟩
  | cons a rest ih =>
    obtain ⟨k', t'⟩ := a
    obtain ⟨hpw, hall⟩ := hacc
    have hpw' := List.pairwise_cons.1 hpw
    simp only [insertTM]
    split
    · rename_i hlt
      refine ⟨List.pairwise_cons.2 ⟨?_, hpw⟩, ?_⟩
      · intro e he
        rcases List.mem_cons.1 he with h | h
        · subst h; exact hlt
        · have := hpw'.1 e h; simp only at this ⊢; omega
      · intro e he
        rcases List.mem_cons.1 he with h | h
        · subst h; exact ht
        · exact hall e h
    · split
      · rename_i hnlt heq
        subst heq
        refine ⟨List.pairwise_cons.2 ⟨hpw'.1, hpw'.2⟩, ?_⟩
        intro e he
        rcases List.mem_cons.1 he with h | h
        · subst h; exact ht
        · exact hall e (List.mem_cons_of_mem _ h)
      · rename_i hnlt hne
        have ihh := ih ⟨hpw'.2, fun e he => hall e (List.mem_cons_of_mem _ he)⟩
        refine ⟨List.pairwise_cons.2 ⟨?_, ihh.1⟩, ?_⟩
        · intro e he
          rcases mem_insertTM k tm rest e he with h | h | h | h
          · subst h; simp only; omega
          · exact hpw'.1 e h.1
          · exact absurd h.2 id
          · exact hpw'.1 e h
        · intro e he
          rcases List.mem_cons.1 he with h | h
          · subst h; exact hall (k', t') List.mem_cons_self
          · exact ihh.2 e h

/-! ### CRS -/

def CRS.WF : CRS → Prop
  | .uri d u asString => crsUriOK u = true ∧ (asString = true → d = "")
  | .wkt _ w => projJsonOK w = true
  | .refsys _ _ => True

theorem getStrStrict_optStr (d : String) (rest : List (String × J)) (h : lookup "description" rest = none) :
    crsOfObj.getStrStrict (optStr "description" d ++ rest) "description" = .ok d := by
  unfold crsOfObj.getStrStrict
  rw [lookup_append, lookup_optStr]
  by_cases hd : d = ""
  · subst hd; simp [h]
  · simp [hd]

theorem decodeCRS_encode (c : CRS) (h : c.WF) : decodeCRS (encodeCRS c) = .ok c := by
  cases c with
  | uri d u asString =>
    obtain ⟨hu, hd⟩ := h
    cases asString with
    | true =>
      have : d = "" := hd rfl
      subst this
      simp [encodeCRS, decodeCRS, crsOfObj, crsOfObj.getStrStrict, lookup, hu]
    | false =>
      simp only [encodeCRS, decodeCRS, crsOfObj]
      rw [getStrStrict_optStr d _ (by simp [lookup])]
      simp [lookup_append, lookup_optStr, lookup, hu]
  | wkt d w =>
    simp only [encodeCRS, decodeCRS, crsOfObj]
    rw [getStrStrict_optStr d _ (by simp [lookup])]
    have hw : projJsonOK w = true := h
    simp [lookup_append, lookup_optStr, lookup, hw]
  | refsys d r =>
    simp only [encodeCRS, decodeCRS, crsOfObj]
    rw [getStrStrict_optStr d _ (by simp [lookup])]
    simp [lookup_append, lookup_optStr, lookup, crsOfObj.tryRef]

end Texel.TJ

namespace Texel.TJ

/-! ### bounding box -/

def BBox.WF (b : BBox) : Prop := (b.orderedAxes = [] ∨ b.orderedAxes.length = 2) ∧ b.crs.WF

def bboxFields (b : BBox) : List (String × J) :=
  [("lowerLeft", pointJ b.lowerLeft), ("upperRight", pointJ b.upperRight)] ++ optStrs "orderedAxes" b.orderedAxes ++ [("crs", encodeCRS b.crs)]

theorem encodeBBox_eq (b : BBox) : encodeBBox b = .obj (bboxFields b) := rfl

theorem decodeBBox_encode (b : BBox) (h : b.WF) : decodeBBox (encodeBBox b) = .ok b := by
  rw [encodeBBox_eq]
  unfold decodeBBox
  have e_ll : optField (bboxFields b) "lowerLeft" point = .ok (some b.lowerLeft) := by
    unfold optField; simp [bboxFields, lookup_append, lookup_cons, pointJ, point, Except.map]
  have e_ur : optField (bboxFields b) "upperRight" point = .ok (some b.upperRight) := by
    unfold optField; simp [bboxFields, lookup_append, lookup_cons, pointJ, point, Except.map]
  have e_ax : ∃ ao, getStrs (bboxFields b) "orderedAxes" = .ok ao ∧ bboxAxes ao = .ok b.orderedAxes := by
    have hl : lookup "orderedAxes" (bboxFields b) = if b.orderedAxes ≠ [] then some (.arr (b.orderedAxes.map .str)) else none := by
      simp [bboxFields, lookup_append, lookup_cons, lookup_optStrs, lookup]
      try (split <;> simp_all)
    unfold getStrs
    rw [hl]
    by_cases hax : b.orderedAxes = []
    · rw [if_neg (by simp [hax])]
      exact ⟨none, rfl, by simp [bboxAxes, hax]⟩
    · rw [if_pos hax]
      simp only [bind, Except.bind, strList_map_str, pure, Except.pure]
      refine ⟨some b.orderedAxes, rfl, ?_⟩
      rcases h.1 with h1 | h1
      · exact absurd h1 hax
      · simp [bboxAxes, h1]
  obtain ⟨ao, e_ax1, e_ax2⟩ := e_ax
  have e_crs : reqField (bboxFields b) "crs" "missing key crs" decodeCRS = .ok b.crs := by
    unfold reqField
    have : lookup "crs" (bboxFields b) = some (encodeCRS b.crs) := by
      simp [bboxFields, lookup_append, lookup_cons, lookup_optStrs, lookup]
      try (split <;> simp_all)
    rw [this]
    exact decodeCRS_encode b.crs h.2
  simp only [bind, Except.bind, e_ll, e_ur, e_ax1, e_crs, required, e_ax2, pure, Except.pure]

/-! ### the document -/

structure TMS.WF (t : TMS) : Prop where
  uri : t.uri = "" ∨ isURI t.uri = true
  axes : t.orderedAxes ≠ some []
  wkss : t.wkss = "" ∨ isURI t.wkss = true
  crs : t.crs.WF
  bbox : ∀ b, t.bbox = some b → b.WF
  nonempty : t.matrices ≠ []
  matrices : MatricesWF t.matrices

def docFields (t : TMS) : List (String × J) :=
  optStr "id" t.id ++ optStr "title" t.title ++ optStr "description" t.description ++ optStrs "keywords" t.keywords ++ optStr "uri" t.uri ++
    [("orderedAxes", match t.orderedAxes with | none => .null | some l => .arr (l.map .str))] ++ optStr "wellKnownScaleSet" t.wkss ++
    (match t.bbox with | none => [] | some b => [("boundingBox", encodeBBox b)]) ++
    [("crs", encodeCRS t.crs), ("tileMatrices", .arr (t.matrices.map fun e => encodeTM e.2))]

theorem encode_eq (t : TMS) : encode t = .obj (docFields t) := rfl

theorem lookup_bbox_opt (k : String) (b : Option BBox) :
    lookup k (match b with | none => [] | some b => [("boundingBox", encodeBBox b)]) =
      if "boundingBox" = k then b.map encodeBBox else none := by
  cases b <;> simp [lookup]

macro "dlk" : tactic => `(tactic| (simp [docFields, lookup_append, lookup_cons, lookup_optStr, lookup_optStrs, lookup_bbox_opt, lookup] <;> (try split) <;> simp_all))

theorem dl_id (t : TMS) : lookup "id" (docFields t) = if t.id ≠ "" then some (.str t.id) else none := by dlk
theorem dl_title (t : TMS) : lookup "title" (docFields t) = if t.title ≠ "" then some (.str t.title) else none := by dlk
theorem dl_desc (t : TMS) : lookup "description" (docFields t) = if t.description ≠ "" then some (.str t.description) else none := by dlk
theorem dl_kw (t : TMS) : lookup "keywords" (docFields t) = if t.keywords ≠ [] then some (.arr (t.keywords.map .str)) else none := by dlk
theorem dl_uri (t : TMS) : lookup "uri" (docFields t) = if t.uri ≠ "" then some (.str t.uri) else none := by dlk
theorem dl_wkss (t : TMS) : lookup "wellKnownScaleSet" (docFields t) = if t.wkss ≠ "" then some (.str t.wkss) else none := by dlk

end Texel.TJ

namespace Texel.TJ

theorem dl_axes (t : TMS) : lookup "orderedAxes" (docFields t) = some (match t.orderedAxes with | none => .null | some l => .arr (l.map .str)) := by dlk
theorem dl_bbox (t : TMS) : lookup "boundingBox" (docFields t) = t.bbox.map encodeBBox := by dlk
theorem dl_crs (t : TMS) : lookup "crs" (docFields t) = some (encodeCRS t.crs) := by dlk
theorem dl_tms (t : TMS) : lookup "tileMatrices" (docFields t) = some (.arr (t.matrices.map fun e => encodeTM e.2)) := by dlk

/-- **round trip**: encoding a well-formed value and decoding it again gives the value back -/
theorem decode_encode (t : TMS) (h : t.WF) : decode (encode t) = .ok t := by
  rw [encode_eq]
  unfold decode
  have e_id := getStr_of (docFields t) "id" t.id (dl_id t)
  have e_title := getStr_of (docFields t) "title" t.title (dl_title t)
  have e_desc := getStr_of (docFields t) "description" t.description (dl_desc t)
  have e_uri := getStr_of (docFields t) "uri" t.uri (dl_uri t)
  have e_wkss := getStr_of (docFields t) "wellKnownScaleSet" t.wkss (dl_wkss t)
  have e_kw : ∃ kwo, getStrs (docFields t) "keywords" = .ok kwo ∧ kwo.getD [] = t.keywords := by
    have := getStrs_of (docFields t) "keywords" t.keywords (dl_kw t)
    cases hg : getStrs (docFields t) "keywords" with
    | error e => rw [hg] at this; cases this
    | ok kwo => rw [hg] at this; simp only [Except.map, Except.ok.injEq] at this; exact ⟨kwo, rfl, this⟩
  obtain ⟨kwo, e_kw1, e_kw2⟩ := e_kw
  have e_axes : getStrs (docFields t) "orderedAxes" = .ok t.orderedAxes := by
    unfold getStrs
    rw [dl_axes]
    cases ha : t.orderedAxes with
    | none => rfl
    | some l => simp only [bind, Except.bind, strList_map_str, pure, Except.pure]
  have e_bbox : optField (docFields t) "boundingBox" decodeBBox = .ok t.bbox := by
    unfold optField
    rw [dl_bbox]
    cases hb : t.bbox with
    | none => rfl
    | some b => simp only [Option.map_some, decodeBBox_encode b (h.bbox b hb), Except.map]
  have e_crs : reqField (docFields t) "crs" "missing key crs" decodeCRS = .ok t.crs := by
    unfold reqField; rw [dl_crs]; exact decodeCRS_encode t.crs h.crs
  have e_ms : reqField (docFields t) "tileMatrices" "missing key tileMatrices" matricesField = .ok t.matrices := by
    unfold reqField; rw [dl_tms]
    simp only [matricesField]
    have := decodeTMs_encode t.matrices [] h.matrices (by intro a ha; cases ha)
    simpa using this
  have c1 : check (t.uri = "" || isURI t.uri) "URI: uri" = .ok () := by
    unfold check; rcases h.uri with h1 | h1 <;> simp [h1]
  have c2 : check (t.orderedAxes != some []) "OrderedAxes: min" = .ok () := by
    unfold check
    have : (t.orderedAxes != some []) = true := by
      cases ha : t.orderedAxes with
      | none => rfl
      | some l =>
        cases l with
        | nil => exact absurd ha h.axes
        | cons x xs => rfl
    rw [this]; rfl
  have c3 : check (t.wkss = "" || isURI t.wkss) "WellKnownScaleSet: uri" = .ok () := by
    unfold check; rcases h.wkss with h1 | h1 <;> simp [h1]
  have c4 : check (!t.matrices.isEmpty) "TileMatrices: min" = .ok () := by
    unfold check
    cases hm : t.matrices with
    | nil => exact absurd hm h.nonempty
    | cons e r => rfl
  simp only [bind, Except.bind, e_id, e_title, e_desc, e_kw1, e_uri, e_axes, e_wkss, e_bbox, e_crs, e_ms, c1, c2, c3, c4, pure, Except.pure, e_kw2]

end Texel.TJ

namespace Texel.TJ

-- generic: a bind chain that is ok
theorem bind_ok {α β} {x : E α} {f : α → E β} {b : β} (h : (x >>= f) = .ok b) : ∃ a, x = .ok a ∧ f a = .ok b := by
  cases x with
  | error e => cases h
  | ok a => exact ⟨a, rfl, h⟩


theorem getUintReq_ok (kvs : List (String × J)) (k : String) (lo v : Nat) (h : getUintReq kvs k lo = .ok v) : lo ≤ v ∧ v ≤ maxU ∧ 1 ≤ v := by
  unfold getUintReq at h
  obtain ⟨q, _, h⟩ := bind_ok h
  cases q with
  | none => cases h
  | some q =>
    simp only at h
    cases hu : q.toUint with
    | none => rw [hu] at h; cases h
    | some w =>
      rw [hu] at h
      cases w with
      | zero => cases h
      | succ m =>
        simp only at h
        split at h
        · cases h
        · split at h
          · cases h
          · simp only [Except.ok.injEq] at h; subst h; omega

theorem getUintOpt_ok (kvs : List (String × J)) (k : String) (v : Nat) (h : getUintOpt kvs k = .ok v) : v ≤ maxU := by
  unfold getUintOpt at h
  obtain ⟨q, _, h⟩ := bind_ok h
  cases q with
  | none => simp only [Except.ok.injEq] at h; subst h; simp [maxU]
  | some q =>
    simp only at h
    cases hu : q.toUint with
    | none => rw [hu] at h; cases h
    | some w =>
      rw [hu] at h
      simp only at h
      split at h
      · cases h
      · simp only [Except.ok.injEq] at h; subst h; omega

end Texel.TJ

namespace Texel.TJ

theorem decodeVMW_WF (j : J) (v : VMW) (h : decodeVMW j = .ok v) : v.WF := by
  cases j with
  | obj kvs =>
    unfold decodeVMW at h
    obtain ⟨c, hc, h⟩ := bind_ok h
    obtain ⟨lo, hlo, h⟩ := bind_ok h
    obtain ⟨hi, hhi, h⟩ := bind_ok h
    simp only [pure, Except.pure, Except.ok.injEq] at h
    subst h
    have h1 := getUintReq_ok _ _ _ _ hc
    exact ⟨h1.1, h1.2.1, getUintOpt_ok _ _ _ hlo, getUintOpt_ok _ _ _ hhi⟩
  | _ => cases h

theorem decodeVMWs_WF (xs : List J) (vs : List VMW) (h : decodeVMWs xs = .ok vs) : ∀ v ∈ vs, v.WF := by
  induction xs generalizing vs with
  | nil => simp only [decodeVMWs, Except.ok.injEq] at h; subst h; intro v hv; cases hv
  | cons x rest ih =>
    unfold decodeVMWs at h
    obtain ⟨v0, hv0, h⟩ := bind_ok h
    obtain ⟨r, hr, h⟩ := bind_ok h
    simp only [pure, Except.pure, Except.ok.injEq] at h
    subst h
    intro v hv
    rcases List.mem_cons.1 hv with h1 | h1
    · subst h1; exact decodeVMW_WF x v hv0
    · exact ih r hr v h1

theorem validUint_ok (q : Option Num) (k : String) (v : Nat) (h : validUint q k = .ok v) : 1 ≤ v ∧ v ≤ maxU := by
  unfold validUint at h
  cases q with
  | none => cases h
  | some q =>
    simp only at h
    cases hu : q.toUint with
    | none => rw [hu] at h; cases h
    | some w =>
      rw [hu] at h
      cases w with
      | zero => cases h
      | succ m =>
        simp only at h
        split at h
        · cases h
        · simp only [Except.ok.injEq] at h; subst h; omega

theorem validPos_ok (q : Option Num) (k : String) (v : Num) (h : validPos q k = .ok v) : v.pos = true := by
  unfold validPos at h
  cases q with
  | none => cases h
  | some q =>
    simp only at h
    split at h
    · simp only [Except.ok.injEq] at h; subst h; assumption
    · cases h

theorem decodeCorner_ok (kvs : List (String × J)) (c : String) (h : decodeCorner kvs = .ok c) : c = "" ∨ c = "topLeft" ∨ c = "bottomLeft" := by
  unfold decodeCorner at h
  split at h <;> cases h <;> decide

theorem check_ok (b : Bool) (err : String) (h : check b err = .ok ()) : b = true := by
  unfold check at h
  cases b with
  | true => rfl
  | false => cases h

theorem decodeTM_WF (j : J) (k : Int) (t : TM) (h : decodeTM j = .ok (k, t)) : t.WF k := by
  cases j with
  | obj kvs =>
    unfold decodeTM at h
    obtain ⟨id, _, h⟩ := bind_ok h
    obtain ⟨title, _, h⟩ := bind_ok h
    obtain ⟨desc, _, h⟩ := bind_ok h
    obtain ⟨kw, _, h⟩ := bind_ok h
    obtain ⟨sdq, _, h⟩ := bind_ok h
    obtain ⟨csq, _, h⟩ := bind_ok h
    obtain ⟨corner, hcorner, h⟩ := bind_ok h
    obtain ⟨origin, _, h⟩ := bind_ok h
    obtain ⟨twq, _, h⟩ := bind_ok h
    obtain ⟨thq, _, h⟩ := bind_ok h
    obtain ⟨mwq, _, h⟩ := bind_ok h
    obtain ⟨mhq, _, h⟩ := bind_ok h
    obtain ⟨vmw, hvmw, h⟩ := bind_ok h
    obtain ⟨_, hchk, h⟩ := bind_ok h
    obtain ⟨sd, hsd, h⟩ := bind_ok h
    obtain ⟨cs, hcs, h⟩ := bind_ok h
    obtain ⟨org, _, h⟩ := bind_ok h
    obtain ⟨tw, htw, h⟩ := bind_ok h
    obtain ⟨th, hth, h⟩ := bind_ok h
    obtain ⟨mw, hmw, h⟩ := bind_ok h
    obtain ⟨mh, hmh, h⟩ := bind_ok h
    obtain ⟨kk, hkk, h⟩ := bind_ok h
    simp only [pure, Except.pure, Except.ok.injEq, Prod.mk.injEq] at h
    obtain ⟨hk, ht⟩ := h
    subst hk ht
    have hid : id ≠ "" := by simpa using check_ok _ _ hchk
    have hkey : parseInt64 id = some kk := by
      unfold idKey at hkk
      cases hp : parseInt64 id with
      | none => rw [hp] at hkk; cases hkk
      | some k' => rw [hp] at hkk; simp only [Except.ok.injEq] at hkk; subst hkk; rfl
    have hv : ∀ v ∈ vmw.getD [], v.WF := by
      unfold optField at hvmw
      cases hl : lookup "variableMatrixWidths" kvs with
      | none => rw [hl] at hvmw; simp only [Except.ok.injEq] at hvmw; subst hvmw; intro v hv; cases hv
      | some jv =>
        rw [hl] at hvmw
        simp only at hvmw
        cases hf : vmwField jv with
        | error e => rw [hf] at hvmw; cases hvmw
        | ok vs =>
          rw [hf] at hvmw
          simp only [Except.map, Except.ok.injEq] at hvmw
          subst hvmw
          simp only [Option.getD_some]
          cases jv with
          | null => simp only [vmwField, Except.ok.injEq] at hf; subst hf; intro v hv; cases hv
          | arr xs => exact decodeVMWs_WF xs vs hf
          | _ => cases hf
    exact ⟨hid, hkey, validPos_ok _ _ _ hsd, validPos_ok _ _ _ hcs, decodeCorner_ok _ _ hcorner,
      validUint_ok _ _ _ htw, validUint_ok _ _ _ hth, validUint_ok _ _ _ hmw, validUint_ok _ _ _ hmh, hv⟩
  | _ => cases h

theorem decodeTMs_WF (xs : List J) (acc ms : List (Int × TM)) (hacc : MatricesWF acc) (h : decodeTMs xs acc = .ok ms) : MatricesWF ms := by
  induction xs generalizing acc with
  | nil => simp only [decodeTMs, Except.ok.injEq] at h; subst h; exact hacc
  | cons x rest ih =>
    unfold decodeTMs at h
    obtain ⟨⟨k, tm⟩, hk, h⟩ := bind_ok h
    exact ih (insertTM k tm acc) (insertTM_WF k tm acc hacc (decodeTM_WF x k tm hk)) h


theorem decodeCRS_WF (j : J) (c : CRS) (h : decodeCRS j = .ok c) : c.WF := by
  have key : ∀ (kvs : List (String × J)) (asString : Bool), (asString = true → crsOfObj.getStrStrict kvs "description" = .ok "") →
      crsOfObj kvs asString = .ok c → c.WF := by
    intro kvs asString hdesc hc
    unfold crsOfObj at hc
    cases hd : crsOfObj.getStrStrict kvs "description" with
    | error e => rw [hd] at hc; cases hc
    | ok desc =>
      rw [hd] at hc
      simp only at hc
      split at hc
      · rename_i c' hc'
        simp only [Except.ok.injEq] at hc
        subst hc
        split at hc'
        · rename_i u hu
          split at hc'
          · rename_i hok
            simp only [Option.some.injEq] at hc'
            subst hc'
            refine ⟨hok, ?_⟩
            intro has
            have := hdesc has
            rw [hd] at this
            simp only [Except.ok.injEq] at this
            exact this
          · cases hc'
        · cases hc'
      · split at hc
        · rename_i w hw
          split at hc
          · rename_i hp
            simp only [Except.ok.injEq] at hc
            subst hc
            exact hp
          · unfold crsOfObj.tryRef at hc
            split at hc
            · simp only [Except.ok.injEq] at hc; subst hc; trivial
            · cases hc
        · unfold crsOfObj.tryRef at hc
          split at hc
          · simp only [Except.ok.injEq] at hc; subst hc; trivial
          · cases hc
  cases j with
  | str s =>
    exact key [("uri", .str s)] true (fun _ => by simp [crsOfObj.getStrStrict, lookup]) h
  | obj kvs => exact key kvs false (fun hf => by cases hf) h
  | _ => cases h

theorem decodeBBox_WF (j : J) (b : BBox) (h : decodeBBox j = .ok b) : b.WF := by
  cases j with
  | obj kvs =>
    unfold decodeBBox at h
    obtain ⟨ll, _, h⟩ := bind_ok h
    obtain ⟨ur, _, h⟩ := bind_ok h
    obtain ⟨axes, _, h⟩ := bind_ok h
    obtain ⟨crs, hcrs, h⟩ := bind_ok h
    obtain ⟨ll', _, h⟩ := bind_ok h
    obtain ⟨ur', _, h⟩ := bind_ok h
    obtain ⟨ax, hax, h⟩ := bind_ok h
    simp only [pure, Except.pure, Except.ok.injEq] at h
    subst h
    refine ⟨?_, ?_⟩
    · unfold bboxAxes at hax
      cases axes with
      | none => simp only [Except.ok.injEq] at hax; subst hax; exact Or.inl rfl
      | some l =>
        simp only at hax
        by_cases hl2 : l.length = 2
        · rw [if_pos hl2] at hax; simp only [Except.ok.injEq] at hax; subst hax; exact Or.inr hl2
        · rw [if_neg hl2] at hax; cases hax
    · unfold reqField at hcrs
      cases hl : lookup "crs" kvs with
      | none => rw [hl] at hcrs; cases hcrs
      | some jc => rw [hl] at hcrs; exact decodeCRS_WF jc crs hcrs
  | _ => cases h

theorem decode_WF (j : J) (t : TMS) (h : decode j = .ok t) : t.WF := by
  cases j with
  | obj kvs =>
    unfold decode at h
    obtain ⟨id, _, h⟩ := bind_ok h
    obtain ⟨title, _, h⟩ := bind_ok h
    obtain ⟨desc, _, h⟩ := bind_ok h
    obtain ⟨kw, _, h⟩ := bind_ok h
    obtain ⟨uri, _, h⟩ := bind_ok h
    obtain ⟨axes, _, h⟩ := bind_ok h
    obtain ⟨wkss, _, h⟩ := bind_ok h
    obtain ⟨bbox, hbbox, h⟩ := bind_ok h
    obtain ⟨crs, hcrs, h⟩ := bind_ok h
    obtain ⟨ms, hms, h⟩ := bind_ok h
    obtain ⟨_, c1, h⟩ := bind_ok h
    obtain ⟨_, c2, h⟩ := bind_ok h
    obtain ⟨_, c3, h⟩ := bind_ok h
    obtain ⟨_, c4, h⟩ := bind_ok h
    simp only [pure, Except.pure, Except.ok.injEq] at h
    subst h
    have h1 := check_ok _ _ c1
    have h2 := check_ok _ _ c2
    have h3 := check_ok _ _ c3
    have h4 := check_ok _ _ c4
    refine ⟨?_, ?_, ?_, ?_, ?_, ?_, ?_⟩
    · simp only [Bool.or_eq_true, decide_eq_true_eq] at h1; exact h1
    · intro hax; simp only at hax; rw [hax] at h2; simp at h2
    · simp only [Bool.or_eq_true, decide_eq_true_eq] at h3; exact h3
    · unfold reqField at hcrs
      cases hl : lookup "crs" kvs with
      | none => rw [hl] at hcrs; cases hcrs
      | some jc => rw [hl] at hcrs; exact decodeCRS_WF jc crs hcrs
    · intro b hb
      simp only at hb
      subst hb
      unfold optField at hbbox
      cases hl : lookup "boundingBox" kvs with
      | none => rw [hl] at hbbox; cases hbbox
      | some jb =>
        rw [hl] at hbbox
        simp only at hbbox
        cases hd : decodeBBox jb with
        | error e => rw [hd] at hbbox; cases hbbox
        | ok b' =>
          rw [hd] at hbbox
          simp only [Except.map, Except.ok.injEq, Option.some.injEq] at hbbox
          subst hbbox
          exact decodeBBox_WF jb b' hd
    · intro hm; simp only at hm; rw [hm] at h4; simp at h4
    · unfold reqField at hms
      cases hl : lookup "tileMatrices" kvs with
      | none => rw [hl] at hms; cases hms
      | some jm =>
        rw [hl] at hms
        cases jm with
        | arr xs => exact decodeTMs_WF xs [] ms ⟨List.Pairwise.nil, fun e he => by cases he⟩ hms
        | _ => cases hms
  | _ => cases h

/-- **C16, first sentence, on the model**: whatever document decodes, encoding the value and decoding again yields the same value;
hence the encoding is stable (encoding the re-decoded value gives the same document again) -/
theorem decode_encode_decode (j : J) (t : TMS) (h : decode j = .ok t) : decode (encode t) = .ok t :=
  decode_encode t (decode_WF j t h)

end Texel.TJ
