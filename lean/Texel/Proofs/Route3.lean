import Texel.Proofs.RouteFinal
namespace Texel

/-! The index invariants that `C02_routing` assumes, and "a segment between two inserted vertices is never routed
    through nothing" (the `no points found` panic is unreachable). -/

theorem hotOf_closed (g : Grid) (addrs : List Quad) : HotClosed g.depth (hotOf g addrs) := by
  intro l c _ hl h
  unfold hotOf at *
  rw [List.any_eq_true] at *
  obtain ⟨a, ha, hac⟩ := h
  refine ⟨a, ha, ?_⟩
  have hc : a.up g (l + 1) = c := by simpa using hac
  have hpow : 2 ^ (g.depth - l) = 2 ^ (g.depth - (l + 1)) * 2 := by
    have : g.depth - l = (g.depth - (l + 1)) + 1 := by omega
    rw [this, pow_succ]
  have : a.up g l = ⟨c.x / 2, c.y / 2⟩ := by
    rw [← hc]
    unfold Quad.up
    simp only [Quad.mk.injEq]
    rw [hpow]
    exact ⟨(Nat.div_div_eq_div_mul _ _ _).symm, (Nat.div_div_eq_div_mul _ _ _).symm⟩
  simp [this]

/-- the deepest address brackets the coordinate -/
theorem deepestAddr_spec (g : Grid) (hres : 0 < g.res) (p : Pt) (a : Quad) (h : deepestAddr g p = some a) :
    g.minX + a.x * g.res ≤ p.x ∧ p.x < g.minX + (a.x + 1) * g.res ∧
    g.minY + a.y * g.res ≤ p.y ∧ p.y < g.minY + (a.y + 1) * g.res ∧ a.x < 2 ^ g.depth ∧ a.y < 2 ^ g.depth := by
  unfold deepestAddr at h
  simp only at h
  split at h
  · simp at h
  · rename_i hcond
    simp only [Option.some.injEq] at h
    subst h
    simp only [not_or, not_lt, not_le] at hcond
    obtain ⟨hx0, hy0, hx1, hy1⟩ := hcond
    have ex : Int.fdiv (p.x - g.minX) g.res = (p.x - g.minX) / g.res := Int.fdiv_eq_ediv_of_nonneg _ (le_of_lt hres)
    have ey : Int.fdiv (p.y - g.minY) g.res = (p.y - g.minY) / g.res := Int.fdiv_eq_ediv_of_nonneg _ (le_of_lt hres)
    rw [ex] at hx0 hx1; rw [ey] at hy0 hy1
    simp only [ex, ey]
    have tx : (((p.x - g.minX) / g.res).toNat : Int) = (p.x - g.minX) / g.res := Int.toNat_of_nonneg hx0
    have ty : (((p.y - g.minY) / g.res).toNat : Int) = (p.y - g.minY) / g.res := Int.toNat_of_nonneg hy0
    have mx := Int.mul_ediv_add_emod (p.x - g.minX) g.res
    have my := Int.mul_ediv_add_emod (p.y - g.minY) g.res
    have rx0 := Int.emod_nonneg (p.x - g.minX) (ne_of_gt hres)
    have rx1 := Int.emod_lt_of_pos (p.x - g.minX) hres
    have ry0 := Int.emod_nonneg (p.y - g.minY) (ne_of_gt hres)
    have ry1 := Int.emod_lt_of_pos (p.y - g.minY) hres
    refine ⟨?_, ?_, ?_, ?_, ?_, ?_⟩
    · rw [tx]; nlinarith
    · rw [tx]; nlinarith
    · rw [ty]; nlinarith
    · rw [ty]; nlinarith
    · have : (((p.x - g.minX) / g.res).toNat : Int) < 2 ^ g.depth := by rw [tx]; omega
      exact_mod_cast this
    · have : (((p.y - g.minY) / g.res).toNat : Int) < 2 ^ g.depth := by rw [ty]; omega
      exact_mod_cast this


theorem up_lt (g : Grid) (a : Quad) (l : Nat) (hl : l ≤ g.depth) (hx : a.x < 2 ^ g.depth) (hy : a.y < 2 ^ g.depth) :
    (a.up g l).x < 2 ^ l ∧ (a.up g l).y < 2 ^ l := by
  unfold Quad.up
  simp only
  have hp : 2 ^ g.depth = 2 ^ l * 2 ^ (g.depth - l) := by rw [← pow_add]; congr 1; omega
  have hpos : 0 < 2 ^ (g.depth - l) := by positivity
  constructor
  · rw [Nat.div_lt_iff_lt_mul hpos]; rw [hp] at hx; exact hx
  · rw [Nat.div_lt_iff_lt_mul hpos]; rw [hp] at hy; exact hy

/-- the start point of a segment lies in the level-`l` pixel of its own deepest address -/
theorem start_in_own_pixel (g : Grid) (hres : 0 < g.res) (L : Seg) (a : Quad) (ha : deepestAddr g L.p1 = some a)
    (l : Nat) : MeetsAt L (g.box l (a.up g l)) 0 := by
  obtain ⟨x0, x1, y0, y1, _, _⟩ := deepestAddr_spec g hres L.p1 a ha
  refine ⟨le_refl _, by norm_num, ?_⟩
  unfold Seg.X Seg.Y Grid.box Grid.span Quad.up
  simp only [zero_mul, add_zero]
  set k := 2 ^ (g.depth - l) with hk
  have hkpos : 0 < k := by positivity
  have dx := Nat.div_add_mod a.x k
  have dy := Nat.div_add_mod a.y k
  have mx := Nat.mod_lt a.x hkpos
  have my := Nat.mod_lt a.y hkpos
  have hkz : ((2 : Int) ^ (g.depth - l)) = (k : Int) := by simp [hk]
  rw [hkz]
  have dxz : ((k : Int) * ((a.x / k : Nat) : Int) + ((a.x % k : Nat) : Int)) = (a.x : Int) := by exact_mod_cast dx
  have dyz : ((k : Int) * ((a.y / k : Nat) : Int) + ((a.y % k : Nat) : Int)) = (a.y : Int) := by exact_mod_cast dy
  have mxz : ((a.x % k : Nat) : Int) < k := by exact_mod_cast mx
  have myz : ((a.y % k : Nat) : Int) < k := by exact_mod_cast my
  have mx0 : (0 : Int) ≤ ((a.x % k : Nat) : Int) := Int.natCast_nonneg _
  have my0 : (0 : Int) ≤ ((a.y % k : Nat) : Int) := Int.natCast_nonneg _
  have kz : (0 : Int) < k := by exact_mod_cast hkpos
  refine ⟨?_, ?_, ?_, ?_⟩
  · have : g.minX + ((a.x / k : Nat) : Int) * ((k : Int) * g.res) ≤ L.p1.x := by nlinarith
    exact_mod_cast this
  · have : L.p1.x < g.minX + (((a.x / k : Nat) : Int) + 1) * ((k : Int) * g.res) := by nlinarith
    exact_mod_cast this
  · have : g.minY + ((a.y / k : Nat) : Int) * ((k : Int) * g.res) ≤ L.p1.y := by nlinarith
    exact_mod_cast this
  · have : L.p1.y < g.minY + (((a.y / k : Nat) : Int) + 1) * ((k : Int) * g.res) := by nlinarith
    exact_mod_cast this

/-- routed_nonempty: a segment starting at an inserted vertex is routed through that vertex's pixel on every level,
    so `SnapClosestPoints` never returns an empty list for it (`panicNoPointsFoundForVertices` is unreachable). -/
theorem routed_nonempty (g : Grid) (hres : 0 < g.res) (addrs : List Quad) (L : Seg) (a : Quad)
    (ha : deepestAddr g L.p1 = some a) (hin : a ∈ addrs) (l : Nat) (hl : l ≤ g.depth) :
    a.up g l ∈ snapLevel lineIntersects g (hotOf g addrs) L l := by
  obtain ⟨_, _, _, _, hx, hy⟩ := deepestAddr_spec g hres L.p1 a ha
  rw [(C02_routing g (hotOf g addrs) L hres (hotOf_closed g addrs) l hl).1]
  obtain ⟨ux, uy⟩ := up_lt g a l hl hx hy
  refine ⟨ux, uy, Or.inr ?_, ⟨0, start_in_own_pixel g hres L a ha l⟩⟩
  unfold hotOf
  rw [List.any_eq_true]
  exact ⟨a, hin, by simp⟩

#print axioms routed_nonempty

end Texel
