import Texel.Proofs.SplitInv
import Texel.Proofs.HitCount
import Texel.Proofs.RingShape
import Texel.Proofs.Output
/-! No returned ring visits a vertex twice, and `splitRing` never fails — for every polygon inside the grid, every level, every flag —
under one explicit hypothesis about spike removal (`KmpNoDup`: `kmpDeduplicate` never returns more copies of a vertex than it was given;
it only cuts sub-sequences out, which the `kmp` stream checks on every generated ring). -/
namespace Texel

/-- spike removal does not multiply vertices -/
def KmpNoDup : Prop := ∀ (ring out : Array P) (v : P), kmpDeduplicateF ring = .ok out → out.toList.count v ≤ ring.toList.count v

/-- every range spike removal records for `RemoveSequences` runs forward (`from ≤ to`) — a statement about the bookkeeping of
`kmpDeduplicate` only (its loop, not what is done with the ranges); demanded only where `RemoveSequences` does not panic. The driver
evaluates it (`rangesForwardB`) on every ring of the `kmp` stream. -/
def KmpRangesForward : Prop := ∀ (ring out : Array P) (seqs : SeqMap),
  kmpLoop ring (4 * ring.size * (ring.size + 2) + 16) ⟨0, #[], {}⟩ = .ok seqs → removeSeqsF ring seqs.entries.toList 0 = .ok out →
  ∀ e ∈ seqs.entries.toList, e.2.1 ≤ e.2.2

/-- **`KmpNoDup` reduced to the bookkeeping of the spike search**: if the recorded ranges run forward, `RemoveSequences` returns a sublist of
the ring (overlapping ranges are excluded by its own slice bounds), so no vertex is multiplied. -/
theorem kmpNoDup_of_rangesForward (h : KmpRangesForward) : KmpNoDup := by
  intro ring out v hk
  unfold kmpDeduplicateF at hk
  simp only [bind, Except.bind] at hk
  split at hk
  · simp at hk
  · rename_i seqs hseqs
    exact removeSeqsF_count ring _ out hk (h ring out seqs hseqs hk) v

/-- what spike removal returns is a sublist of the ring it was given (under `KmpRangesForward`): nothing repeated, nothing reordered -/
theorem kmpDeduplicateF_sublist (h : KmpRangesForward) (ring out : Array P) (hk : kmpDeduplicateF ring = .ok out) :
    out.toList.Sublist ring.toList := by
  unfold kmpDeduplicateF at hk
  simp only [bind, Except.bind] at hk
  split at hk
  · simp at hk
  · rename_i seqs hseqs
    simpa using removeSeqsF_sublist ring _ 0 out hk (h ring out seqs hseqs hk)

theorem count_split (l pre suf : List P) (v : P) (h : l = pre ++ v :: suf) (hc : l.count v ≤ 1) : v ∉ pre ∧ v ∉ suf := by
  subst h
  simp only [List.count_append, List.count_cons_self] at hc
  constructor
  · intro hin; have := List.count_pos_iff.2 hin; omega
  · intro hin; have := List.count_pos_iff.2 hin; omega

/-- the ring clean-up of the routed chain of a closed ring: whatever comes back as a shell part or a hole part visits no vertex twice, and
once spike removal has returned, nothing fails -/
theorem cleanupNewRingF_nodup (hk : KmpNoDup) (routed : List (List P)) (h0 : P) (hl : LinkedFrom h0 routed) (hclosed : lastE h0 routed = h0)
    (chain : List P) (hj : joinChain routed = some chain) (isOuter : Bool) :
    (∀ sp, cleanupNewRingF chain isOuter (isHitF (ringHits routed)) = .ok sp →
      (∀ r ∈ sp.outers, r.toList.Nodup) ∧ (∀ r ∈ sp.inners, r.toList.Nodup)) ∧
    (∀ e, cleanupNewRingF chain isOuter (isHitF (ringHits routed)) = .error e →
      ∃ ring, kmpDeduplicateF ring = .error e) := by
  unfold cleanupNewRingF
  simp only [bind, Except.bind, pure, Except.pure]
  set nr := (if (decide (chain.length > 1) && chain.head? == chain.getLast?) = true then chain.dropLast else chain) with hnr
  by_cases h3 : nr.length < 3
  · simp only [h3, if_true]
    refine ⟨?_, (fun e he => by cases he)⟩
    intro sp hsp
    simp only [Except.ok.injEq] at hsp; subst hsp
    exact ⟨(fun r hr => by simp at hr), (fun r hr => by simp at hr)⟩
  · simp only [h3, if_false]
    cases hd : kmpDeduplicateF nr.toArray with
    | error e => exact ⟨(fun sp hsp => by cases hsp), (fun e' he' => ⟨nr.toArray, by rw [hd]; simpa using he'⟩)⟩
    | ok dd =>
      simp only
      by_cases hd3 : dd.size < 3
      · simp only [hd3, if_true]
        refine ⟨?_, (fun e he => by cases he)⟩
        intro sp hsp
        simp only [Except.ok.injEq] at hsp; subst hsp
        exact ⟨(fun r hr => by simp at hr), (fun r hr => by simp at hr)⟩
      · simp only [hd3, if_false]
        -- the chain has at least two vertices and starts in h0
        have hchainlen : 2 ≤ chain.length := by
          have : nr.length ≤ chain.length := by
            rw [hnr]; split
            · simp
            · exact Nat.le_refl _
          omega
        have hhead : chain.head? = some h0 := by
          cases routed with
          | nil =>
            unfold joinChain at hj; simp at hj; subst hj; simp at hchainlen
          | cons r rs =>
            obtain ⟨hne, _, hrh, _⟩ := hl
            rw [joinChain_head r rs chain hne hj, hrh]
        have hflags : ∀ pre v suf, dd.toList = pre ++ v :: suf → isHitF (ringHits routed) v = false → v ∉ pre ∧ v ∉ suf := by
          intro pre v suf hsplit hflag
          apply count_split dd.toList pre suf v hsplit
          have h1 := hk nr.toArray dd v hd
          have h2 := chain_count_eq_hits routed h0 hl hclosed chain hj hchainlen hhead v
          rw [← hnr] at h2
          unfold isHitF at hflag
          simp only [decide_eq_false_iff_not, Nat.not_le] at hflag
          simp only [List.toList_toArray] at h1
          rw [h2] at h1
          omega
        have hne : dd.toList ≠ [] := by intro h; have : dd.size = 0 := by simpa using h
                                        omega
        obtain ⟨sp, hsp, ho, hi, _⟩ := splitRingF_nodup dd.toList isOuter (isHitF (ringHits routed)) hne hflags
        rw [hsp]
        exact ⟨(fun sp' h' => by cases h'; exact ⟨ho, hi⟩), (fun e he => by cases he)⟩

def NoTwiceRing (r : Array P) : Prop := r.toList.Nodup

theorem noTwice_reverse (r : Array P) (h : NoTwiceRing r) : NoTwiceRing r.reverse := by
  unfold NoTwiceRing at *; simp only [Array.toList_reverse]; exact List.nodup_reverse.2 h

/-- one ring of a polygon inside the grid -/
theorem processRing_nodup (hk : KmpNoDup) (g : Grid) (hres : 0 < g.res) (rings : List (List Pt)) (addrs : List Quad)
    (hins : insertAll g rings = some addrs) (ring : List Pt) (hring : ∀ v ∈ ring, v ∈ rings.flatten) (l : Nat) (hl : l ≤ g.depth)
    (isOuter : Bool) :
    (∀ sp, processRing g (hotOf g addrs) l isOuter ring = .ok sp → SplitR NoTwiceRing NoTwiceRing (fun _ => True) sp) ∧
    (∀ e, processRing g (hotOf g addrs) l isOuter ring = .error e → ∃ r, kmpDeduplicateF r = .error e) := by
  unfold processRing
  simp only
  have hj := joinChain_isSome g hres rings addrs hins (normaliseRing ring (!isOuter))
    (fun v hv => hring v (normaliseRing_mem ring _ v hv)) l hl
  obtain ⟨chain, hchain⟩ := Option.isSome_iff_exists.1 hj
  rw [hchain]
  simp only
  have hlinked : ∃ h0, LinkedFrom h0 (routeRing g (hotOf g addrs) l (normaliseRing ring (!isOuter))) ∧
      lastE h0 (routeRing g (hotOf g addrs) l (normaliseRing ring (!isOuter))) = h0 := by
    cases hn : normaliseRing ring (!isOuter) with
    | nil => exact ⟨(0, 0), trivial, rfl⟩
    | cons v0 vs =>
      exact ⟨pixOf g l v0, routeRing_linked g hres rings addrs hins v0 vs
        (fun v hv => hring v (normaliseRing_mem ring (!isOuter) v (by rw [hn]; exact hv))) l hl⟩
  obtain ⟨h0, hl0, hc0⟩ := hlinked
  obtain ⟨hok, herr⟩ := cleanupNewRingF_nodup hk _ h0 hl0 hc0 chain hchain isOuter
  refine ⟨?_, herr⟩
  intro sp hsp
  obtain ⟨ho, hi⟩ := hok sp hsp
  exact ⟨ho, hi, fun _ _ => trivial⟩

/-- **no ring of an assembled polygon visits a vertex twice** (every polygon inside the grid, every level `l ≤ depth`, every flag) -/
theorem processLevel_nodup (hk : KmpNoDup) (g : Grid) (hres : 0 < g.res) (rings : List (List Pt)) (addrs : List Quad)
    (hins : insertAll g rings = some addrs) (cfg : Config) (l : Nat) (hl : l ≤ g.depth) (polys : Array Poly)
    (h : processLevel g (hotOf g addrs) cfg l rings = .ok (some polys)) :
    ∃ core : Array Poly, ∃ pls : Array (Array P), polys = core ++ pls.map (fun pl => #[pl]) ∧ (∀ pg ∈ core, ∀ r ∈ pg, r.toList.Nodup) := by
  obtain ⟨core, acc, _, hpolys, hcore, _⟩ := processLevel_shape' (Ro := NoTwiceRing) (Ri := NoTwiceRing) (Rp := fun _ => True) noTwice_reverse
    g (hotOf g addrs) cfg l rings
    (fun isOuter ring hr sp hsp => (processRing_nodup hk g hres rings addrs hins ring
      (fun v hv => List.mem_flatten.2 ⟨ring, hr, hv⟩) l hl isOuter).1 sp hsp) polys h
  refine ⟨if cfg.reverse then reversePolys core else core, acc.pls, hpolys, ?_⟩
  have hall : ∀ pg ∈ core, ∀ r ∈ pg, r.toList.Nodup := by
    intro pg hpg r hr
    obtain ⟨shell, holes, e, hs, hh⟩ := hcore pg hpg
    have : r ∈ pg.toList := by simpa using hr
    rw [e] at this
    rcases List.mem_cons.1 this with h1 | h1
    · subst h1; exact hs
    · exact hh r h1
  intro pg hpg r hr
  split at hpg
  · unfold reversePolys at hpg
    simp only [Array.mem_map] at hpg
    obtain ⟨pg0, hpg0, rfl⟩ := hpg
    simp only [Array.mem_map] at hr
    obtain ⟨r0, hr0, rfl⟩ := hr
    exact noTwice_reverse r0 (hall pg0 hpg0 r0 hr0)
  · exact hall pg hpg r hr

end Texel
