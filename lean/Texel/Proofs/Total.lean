import Texel.Proofs.NoTwice
/-! `dedupeInnersOuters` raises nothing when no ring is empty, so — with the ring clean-up total up to spike removal (`NoTwice`) — whatever
`snapPolygonF` raises for a polygon inside the grid is raised by `kmpDeduplicate`. -/
namespace Texel

theorem forIn_list_ok {α β ε} (l : List α) (init : β) (f : α → β → Except ε (ForInStep β))
    (h : ∀ a ∈ l, ∀ b, ∃ r, f a b = .ok r) : ∃ r, forIn l init f = .ok r := by
  induction l generalizing init with
  | nil => exact ⟨init, rfl⟩
  | cons a t ih =>
    obtain ⟨r, hr⟩ := h a List.mem_cons_self init
    rw [List.forIn_cons]
    simp only [bind, Except.bind, hr]
    cases r with
    | done b => exact ⟨b, rfl⟩
    | yield b => exact ih b (fun x hx => h x (List.mem_cons_of_mem _ hx))

theorem forIn_range_ok {β ε} (n m : Nat) (init : β) (f : Nat → β → Except ε (ForInStep β))
    (h : ∀ a, n ≤ a → a < m → ∀ b, ∃ r, f a b = .ok r) : ∃ r, forIn [n:m] init f = .ok r := by
  rw [Std.Legacy.Range.forIn_eq_forIn_range']
  apply forIn_list_ok
  intro a ha b
  simp only [Std.Legacy.Range.size, Nat.add_one_sub_one, Nat.div_one] at ha
  have := List.mem_range'.1 ha
  obtain ⟨i, hi, rfl⟩ := this
  exact h _ (by omega) (by omega) b

theorem forIn_array_ok {α β ε} (xs : Array α) (init : β) (f : α → β → Except ε (ForInStep β))
    (h : ∀ a, ∀ b, ∃ r, f a b = .ok r) : ∃ r, forIn xs init f = .ok r := by
  rw [← Array.forIn_toList]
  exact forIn_list_ok _ init f (fun a _ b => h a b)

theorem ringsAreEqual_total (ri rj : Array P) (a b : Bool) (h : ri.size ≠ 0) : ∃ r, ringsAreEqual ri rj a b = .ok r := by
  unfold ringsAreEqual
  simp only [bind, Except.bind, pure, Except.pure]
  split
  · exact ⟨_, rfl⟩
  · have h0 : (ri.size == 0) = false := by simpa using h
    simp only [h0, Bool.false_eq_true, if_false]
    split
    · exact ⟨_, rfl⟩
    · rename_i idx _
      obtain ⟨v, hv⟩ := forIn_range_ok 0 ri.size (none, ()) (fun k (__s : Option Bool × Unit) =>
          if (!(a && !b) && ri[k]! != rj[(idx + k) % ri.size]!) = true then
            (Except.ok (ForInStep.done (some false, ())) : Except String _)
          else
            if (a && !b && ri[k]! != rj[(idx + ri.size - k) % ri.size]!) = true then
              Except.ok (ForInStep.done (some false, ()))
            else Except.ok (ForInStep.yield (none, ()))) (by
        intro k _ _ s
        split
        · exact ⟨_, rfl⟩
        · split <;> exact ⟨_, rfl⟩)
      rw [hv]
      simp only
      split <;> exact ⟨_, rfl⟩

theorem bind_ok {α β ε} (X : Except ε α) (g : α → Except ε β) (hX : ∃ v, X = .ok v) (hg : ∀ v, ∃ r, g v = .ok r) : ∃ r, (X >>= g) = .ok r := by
  obtain ⟨v, hv⟩ := hX
  rw [hv]
  exact hg v

theorem ite_ok {β ε} (c : Prop) [Decidable c] (a b : Except ε β) (ha : ∃ r, a = .ok r) (hb : ∃ r, b = .ok r) : ∃ r, (if c then a else b) = .ok r := by
  split
  · exact ha
  · exact hb

theorem dedupeToDelete_total (outers inners : Array (Array P)) (ho : ∀ r ∈ outers, r.size ≠ 0) (hi : ∀ r ∈ inners, r.size ≠ 0) :
    ∃ r, dedupeToDelete outers inners = .ok r := by
  unfold dedupeToDelete
  have hring : ∀ i, i < outers.size + inners.size → (if i < outers.size then outers[i]! else inners[i - outers.size]!).size ≠ 0 := by
    intro i hi'
    split
    · rename_i h; rw [getElem!_pos outers i h]; exact ho _ (Array.getElem_mem _)
    · rename_i h
      have h2 : i - outers.size < inners.size := by omega
      rw [getElem!_pos inners _ h2]; exact hi _ (Array.getElem_mem _)
  simp only
  apply bind_ok
  · apply forIn_range_ok
    intro i _ hilt s
    apply ite_ok
    · exact ⟨_, rfl⟩
    · apply bind_ok
      · apply forIn_range_ok
        intro j _ hjlt st
        apply ite_ok
        · exact ⟨_, rfl⟩
        · apply bind_ok
          · exact ringsAreEqual_total _ _ _ _ (hring i hilt)
          · intro v
            apply ite_ok <;> exact ⟨_, rfl⟩
      · intro v
        apply ite_ok
        · exact ⟨_, rfl⟩
        · apply ite_ok
          · apply bind_ok
            · apply forIn_array_ok
              intro x st
              apply ite_ok
              · exact ⟨_, rfl⟩
              · apply ite_ok <;> exact ⟨_, rfl⟩
            · intro w; exact ⟨_, rfl⟩
          · apply bind_ok
            · apply forIn_array_ok
              intro x st
              apply ite_ok
              · exact ⟨_, rfl⟩
              · apply ite_ok <;> exact ⟨_, rfl⟩
            · intro w; exact ⟨_, rfl⟩
  · intro v; exact ⟨_, rfl⟩

theorem assembleCore_total (a : Acc) (ho : ∀ r ∈ a.outers, r.size ≠ 0) (hi : ∀ r ∈ a.inners, r.size ≠ 0) : ∃ core, assembleCore a = .ok core := by
  unfold assembleCore dedupeF
  obtain ⟨d, hd⟩ := dedupeToDelete_total a.outers a.inners ho hi
  simp only [hd, bind, Except.bind, pure, Except.pure]
  by_cases h0 : d.size = 0
  · simp only [h0, if_true]; exact ⟨_, rfl⟩
  · simp only [h0, if_false]; exact ⟨_, rfl⟩

theorem processHoles_error (g : Grid) (hot : Nat → Quad → Bool) (l : Nat) (keep : Bool) : ∀ (holes : List (List Pt)) (a : Acc) (e : String),
    processHoles g hot l keep holes a = .error e → ∃ ring ∈ holes, processRing g hot l false ring = .error e
  | [], a, e, h => by simp [processHoles] at h
  | hd :: tl, a, e, h => by
    simp only [processHoles, bind, Except.bind] at h
    split at h
    · rename_i e' he'
      have he : e' = e := by cases h; rfl
      subst he
      exact ⟨hd, List.mem_cons_self, he'⟩
    · rename_i sp _
      obtain ⟨r, hr, hre⟩ := processHoles_error g hot l keep tl _ e h
      exact ⟨r, List.mem_cons_of_mem _ hr, hre⟩

theorem levelAcc_error (g : Grid) (hot : Nat → Quad → Bool) (keep : Bool) (l : Nat) (rings : List (List Pt)) (e : String)
    (h : levelAcc g hot keep l rings = .error e) : ∃ ring ∈ rings, ∃ isOuter, processRing g hot l isOuter ring = .error e := by
  unfold levelAcc at h
  cases rings with
  | nil => cases h
  | cons outer holes =>
    simp only [bind, Except.bind] at h
    split at h
    · rename_i e' he'
      have he : e' = e := by cases h; rfl
      subst he
      exact ⟨outer, List.mem_cons_self, true, he'⟩
    · split at h
      · simp [pure, Except.pure] at h
      · split at h
        · rename_i e' he'
          have he : e' = e := by cases h; rfl
          subst he
          obtain ⟨r, hr, hre⟩ := processHoles_error g hot l keep holes _ e' he'
          exact ⟨r, List.mem_cons_of_mem _ hr, false, hre⟩
        · simp [pure, Except.pure] at h

/-- whatever a level raises for a polygon inside the grid is raised by spike removal -/
theorem processLevel_error (hk : KmpNoDup) (g : Grid) (hres : 0 < g.res) (rings : List (List Pt)) (addrs : List Quad)
    (hins : insertAll g rings = some addrs) (cfg : Config) (l : Nat) (hl : l ≤ g.depth) (e : String)
    (h : processLevel g (hotOf g addrs) cfg l rings = .error e) : ∃ r, kmpDeduplicateF r = .error e := by
  unfold processLevel at h
  simp only [bind, Except.bind] at h
  split at h
  · rename_i e' he'
    have he : e' = e := by cases h; rfl
    subst he
    obtain ⟨ring, hr, isOuter, hre⟩ := levelAcc_error g (hotOf g addrs) cfg.keep l rings e' he'
    exact (processRing_nodup hk g hres rings addrs hins ring (fun v hv => List.mem_flatten.2 ⟨ring, hr, hv⟩) l hl isOuter).2 e' hre
  · rename_i oacc hacc
    cases oacc with
    | none => simp [pure, Except.pure] at h
    | some acc =>
      simp only at h
      exfalso
      have ha := levelAcc_R lawOriented g (hotOf g addrs) cfg.keep l rings acc hacc
      obtain ⟨core, hcore⟩ := assembleCore_total acc (fun r hr => by have := (ha.1 r hr).1; omega) (fun r hr => by have := (ha.2.1 r hr).1; omega)
      unfold assembleLevel at h
      simp only [hcore, bind, Except.bind, pure, Except.pure] at h
      cases h

theorem processLevels_error (hk : KmpNoDup) (g : Grid) (hres : 0 < g.res) (rings : List (List Pt)) (addrs : List Quad)
    (hins : insertAll g rings = some addrs) (cfg : Config) : ∀ (levels : List Nat), (∀ l ∈ levels, l ≤ g.depth) → ∀ e,
    processLevels g (hotOf g addrs) cfg rings levels = .error e → ∃ r, kmpDeduplicateF r = .error e
  | [], _, e, h => by simp [processLevels] at h
  | l :: ls, hl, e, h => by
    simp only [processLevels, bind, Except.bind] at h
    split at h
    · rename_i e' he'
      have he : e' = e := by cases h; rfl
      subst he
      exact processLevel_error hk g hres rings addrs hins cfg l (hl l List.mem_cons_self) e' he'
    · split at h
      · rename_i e' he'
        have he : e' = e := by cases h; rfl
        subst he
        exact processLevels_error hk g hres rings addrs hins cfg ls (fun x hx => hl x (List.mem_cons_of_mem _ hx)) e' he'
      · simp [pure, Except.pure] at h

/-- **snapping raises nothing but the outside-grid error and what spike removal raises** (under `KmpNoDup`) -/
theorem snapPolygonF_error (hk : KmpNoDup) (g : Grid) (hres : 0 < g.res) (rings : List (List Pt)) (levels : List Nat) (cfg : Config)
    (hlev : ∀ l ∈ levels, l ≤ g.depth) (e : String) (h : snapPolygonF g rings levels cfg = .error e) :
    (e = "outside-grid" ∧ insertAll g rings = none) ∨ ∃ r, kmpDeduplicateF r = .error e := by
  unfold snapPolygonF at h
  cases hins : insertAll g rings with
  | none =>
    rw [hins] at h
    simp only at h
    split at h
    · cases h
    · cases h; exact Or.inl ⟨rfl, rfl⟩
  | some addrs =>
    rw [hins] at h
    exact Or.inr (processLevels_error hk g hres rings addrs hins cfg levels hlev e h)

end Texel
