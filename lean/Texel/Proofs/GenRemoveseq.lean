import Texel.Gen.Removeseq
import Texel.Model.RingF
/-! `mapslicehelp.RemoveSequences` as regenerated from the current source (`trgen removeseq`) is the model's `removeSeqsF` — for every
ring and every list of ranges, including the cases where a slice expression panics. Hence the sublist theorem holds of the source. -/
namespace Texel
open Texel.Gen

theorem gen_removeseq_go (s : Array P) (es : List (Array P × (Int × Int))) (acc : Array P) (k : Int) :
    Removeseq.go s acc k es = (removeSeqsF s es k).map (acc ++ ·) := by
  induction es generalizing acc k with
  | nil =>
    simp only [Removeseq.go, removeSeqsF, bind, Except.bind, pure, Except.pure]
    cases sliceE s k s.size <;> simp [Except.map]
  | cons e es ih =>
    simp only [Removeseq.go, removeSeqsF, bind, Except.bind, pure, Except.pure]
    cases hp : sliceE s k e.2.1 with
    | error m => simp [Except.map]
    | ok part =>
      simp only []
      rw [ih]
      cases removeSeqsF s es e.2.2 <;> simp [Except.map, Array.append_assoc]

/-- the regenerated `RemoveSequences` equals the model's, for all inputs -/
theorem gen_removeSequences (s : Array P) (es : List (Array P × (Int × Int))) :
    Removeseq.removeSequences s es = removeSeqsF s es 0 := by
  unfold Removeseq.removeSequences
  rw [gen_removeseq_go]
  cases removeSeqsF s es 0 <;> simp [Except.map]

/-- **on the translated source**: given ranges that each run forward, `RemoveSequences` returns a sublist of the ring or panics — it never
repeats or reorders vertices -/
theorem gen_removeSequences_sublist (s : Array P) (es : List (Array P × (Int × Int))) (out : Array P)
    (h : Removeseq.removeSequences s es = .ok out) (hfw : ∀ e ∈ es, e.2.1 ≤ e.2.2) : out.toList.Sublist s.toList := by
  rw [gen_removeSequences] at h
  simpa using removeSeqsF_sublist s es 0 out h hfw

#print axioms gen_removeSequences_sublist
end Texel
