import Texel.Proofs.Vertices
/-! Ring-level facts carried through clean-up and assembly: every ring that ends up as a shell or a hole has at least three vertices, every
ring that ends up among the "points and lines" has at most two. `R` is any predicate on rings that reversal preserves. -/
namespace Texel

def SplitR (R Rp : Array P → Prop) (sp : Split) : Prop :=
  (∀ r ∈ sp.outers, R r) ∧ (∀ r ∈ sp.inners, R r) ∧ (∀ r ∈ sp.pointsAndLines, Rp r)

theorem classify_R (R Rp : Array P → Prop) (hrev : ∀ r, R r → R r.reverse) (isOuter : Bool) (rings : List (List P))
    (h : ∀ r ∈ rings, (¬ r.length < 3 → R r.toArray) ∧ (r.length < 3 → Rp r.toArray)) : SplitR R Rp (classify isOuter rings) := by
  unfold classify
  have hf : ∀ (l : List (List P)) (res : Split), (∀ r ∈ l, (¬ r.length < 3 → R r.toArray) ∧ (r.length < 3 → Rp r.toArray)) → SplitR R Rp res →
      SplitR R Rp (l.foldl (fun res r =>
        let ra := r.toArray
        if r.length < 3 then { res with pointsAndLines := res.pointsAndLines.push ra }
        else if isOuter then
          (if !windingOK ra false then { res with inners := res.inners.push ra } else { res with outers := res.outers.push ra })
        else
          (if !windingOK ra true then { res with outers := res.outers.push ra } else { res with inners := res.inners.push ra })) res) := by
    intro l
    induction l with
    | nil => intro res _ hr; exact hr
    | cons r rest ih =>
      intro res hl hres
      simp only [List.foldl_cons]
      apply ih _ (fun x hx => hl x (List.mem_cons_of_mem _ hx))
      obtain ⟨hr3, hr2⟩ := hl r List.mem_cons_self
      obtain ⟨ho, hi, hp⟩ := hres
      have push : ∀ (Q : Array P → Prop) (arr : Array (Array P)), Q r.toArray → (∀ q ∈ arr, Q q) → ∀ q ∈ arr.push r.toArray, Q q := by
        intro Q arr hq harr q hq'
        rcases Array.mem_push.1 hq' with h1 | h1
        · exact harr q h1
        · subst h1; exact hq
      split
      · rename_i hlt; exact ⟨ho, hi, push Rp _ (hr2 hlt) hp⟩
      · rename_i hge
        split
        · split
          · exact ⟨ho, push R _ (hr3 hge) hi, hp⟩
          · exact ⟨push R _ (hr3 hge) ho, hi, hp⟩
        · split
          · exact ⟨push R _ (hr3 hge) ho, hi, hp⟩
          · exact ⟨ho, push R _ (hr3 hge) hi, hp⟩
  have base := hf rings {} h ⟨by intro r hr; simp at hr, by intro r hr; simp at hr, by intro r hr; simp at hr⟩
  generalize (rings.foldl _ ({} : Split)) = res at base
  obtain ⟨ho, hi, hp⟩ := base
  have rev : ∀ (arr : Array (Array P)), (∀ q ∈ arr, R q) → ∀ q ∈ arr.map Array.reverse, R q := by
    intro arr harr q hq
    simp only [Array.mem_map] at hq
    obtain ⟨q0, hq0, rfl⟩ := hq
    exact hrev _ (harr q0 hq0)
  simp only
  split
  · exact ⟨rev _ hi, by intro r hr; simp at hr, hp⟩
  · split
    · exact ⟨by intro r hr; simp at hr, rev _ ho, hp⟩
    · exact ⟨ho, hi, hp⟩

def Big (r : Array P) : Prop := 3 ≤ r.size
def Small (r : Array P) : Prop := r.size ≤ 2

theorem big_reverse (r : Array P) (h : Big r) : Big r.reverse := by unfold Big at *; simpa using h

/-- `cleanupNewRing` returns as shell and hole parts only rings of at least three vertices, and as points and lines only rings of at most two -/
theorem cleanupNewRingF_size (chain : List P) (isOuter : Bool) (isHit : P → Bool) (sp : Split)
    (h : cleanupNewRingF chain isOuter isHit = .ok sp) : SplitR Big Small sp := by
  unfold cleanupNewRingF at h
  simp only [bind, Except.bind, pure, Except.pure] at h
  generalize (if (decide (chain.length > 1) && chain.head? == chain.getLast?) = true then chain.dropLast else chain) = nr at h
  split at h
  · rename_i hlt
    simp only [Except.ok.injEq] at h; subst h
    exact ⟨by intro r hr; simp at hr, by intro r hr; simp at hr, by intro r hr; simp at hr; subst hr; unfold Small; simp; omega⟩
  · split at h
    · cases h
    · rename_i dd hdd
      split at h
      · rename_i hlt
        simp only [Except.ok.injEq] at h; subst h
        exact ⟨by intro r hr; simp at hr, by intro r hr; simp at hr, by intro r hr; simp at hr; subst hr; unfold Small; omega⟩
      · unfold splitRingF at h
        split at h
        · cases h
        · simp only [bind, Except.bind] at h
          split at h
          · cases h
          · simp only [pure, Except.pure, Except.ok.injEq] at h
            subst h
            apply classify_R Big Small big_reverse
            intro r _
            exact ⟨fun h3 => by unfold Big; simp; omega, fun h2 => by unfold Small; simp; omega⟩

theorem processRing_size (g : Grid) (hot : Nat → Quad → Bool) (l : Nat) (isOuter : Bool) (ring : List Pt) (sp : Split)
    (h : processRing g hot l isOuter ring = .ok sp) : SplitR Big Small sp := by
  unfold processRing at h
  simp only at h
  split at h
  · cases h
  · exact cleanupNewRingF_size _ _ _ sp h

def AccR (R Rp : Array P → Prop) (a : Acc) : Prop := (∀ r ∈ a.outers, R r) ∧ (∀ r ∈ a.inners, R r) ∧ (∀ r ∈ a.pls, Rp r)

theorem acc_add_R (R Rp : Array P → Prop) (a : Acc) (sp : Split) (keep : Bool) (ha : AccR R Rp a) (hs : SplitR R Rp sp) : AccR R Rp (a.add sp keep) := by
  obtain ⟨a1, a2, a3⟩ := ha
  obtain ⟨s1, s2, s3⟩ := hs
  unfold Acc.add
  refine ⟨?_, ?_, ?_⟩
  · intro r hr; simp only at hr; rcases Array.mem_append.1 hr with h | h
    · exact a1 r h
    · exact s1 r h
  · intro r hr; simp only at hr; rcases Array.mem_append.1 hr with h | h
    · exact a2 r h
    · exact s2 r h
  · intro r hr; simp only at hr
    split at hr
    · rcases Array.mem_append.1 hr with h | h
      · exact a3 r h
      · exact s3 r h
    · exact a3 r hr

theorem processHoles_size (g : Grid) (hot : Nat → Quad → Bool) (l : Nat) (keep : Bool) (holes : List (List Pt)) (a a' : Acc)
    (ha : AccR Big Small a) (h : processHoles g hot l keep holes a = .ok a') : AccR Big Small a' := by
  induction holes generalizing a with
  | nil => simp only [processHoles, Except.ok.injEq] at h; subst h; exact ha
  | cons hd tl ih =>
    simp only [processHoles, bind, Except.bind] at h
    split at h
    · cases h
    · rename_i sp hsp
      exact ih (a.add sp keep) (acc_add_R _ _ a sp keep ha (processRing_size g hot l false hd sp hsp)) h

theorem levelAcc_size (g : Grid) (hot : Nat → Quad → Bool) (keep : Bool) (l : Nat) (rings : List (List Pt)) (acc : Acc)
    (h : levelAcc g hot keep l rings = .ok (some acc)) : AccR Big Small acc := by
  have empty : AccR Big Small {} := ⟨by intro r hr; simp at hr, by intro r hr; simp at hr, by intro r hr; simp at hr⟩
  unfold levelAcc at h
  cases rings with
  | nil => simp only [Except.ok.injEq, Option.some.injEq] at h; subst h; exact empty
  | cons outer holes =>
    simp only [bind, Except.bind] at h
    split at h
    · cases h
    · rename_i sp hsp
      split at h
      · simp [pure, Except.pure] at h
      · split at h
        · cases h
        · rename_i a' ha'
          simp only [pure, Except.pure, Except.ok.injEq, Option.some.injEq] at h
          subst h
          exact processHoles_size g hot l keep holes _ a' (acc_add_R _ _ _ sp keep empty (processRing_size g hot l true outer sp hsp)) ha'

/-! ### the assembly only selects, attaches and reverses rings -/

def RingsR (R : Array P → Prop) (rs : List (Array P)) : Prop := ∀ r ∈ rs, R r
def PolysR (R : Array P → Prop) (ps : List (Array (Array P))) : Prop := ∀ pg ∈ ps, ∀ r ∈ pg, R r

theorem deleteByIndex_R (R : Array P → Prop) (rs : List (Array P)) (del : Array Nat) (off : Nat) (h : RingsR R rs) : RingsR R (deleteByIndex rs del off) := by
  intro r hr
  unfold deleteByIndex at hr
  simp only [List.mem_map, List.mem_filter] at hr
  obtain ⟨⟨r', i⟩, ⟨hmem, _⟩, rfl⟩ := hr
  have hin : r' ∈ rs := by
    have := (List.mem_zipIdx hmem).2.2
    rw [this]; exact List.getElem_mem _
  exact h r' hin

theorem dedupeF_R (R : Array P → Prop) (outers inners o i : Array (Array P)) (ho : RingsR R outers.toList) (hi : RingsR R inners.toList)
    (h : dedupeF outers inners = .ok (o, i)) : RingsR R o.toList ∧ RingsR R i.toList := by
  unfold dedupeF at h
  simp only [bind, Except.bind] at h
  split at h
  · cases h
  · rename_i del _
    split at h
    · simp only [pure, Except.pure, Except.ok.injEq, Prod.mk.injEq] at h
      obtain ⟨h1, h2⟩ := h; subst h1 h2; exact ⟨ho, hi⟩
    · simp only [pure, Except.pure, Except.ok.injEq, Prod.mk.injEq] at h
      obtain ⟨h1, h2⟩ := h; subst h1 h2
      exact ⟨by simpa using deleteByIndex_R R _ del 0 ho, by simpa using deleteByIndex_R R _ del outers.size hi⟩

theorem attachAt_R (R : Array P → Prop) (ps : List (Array (Array P))) (k : Nat) (inner : Array P) (hp : PolysR R ps) (hi : R inner) :
    PolysR R (attachAt ps k inner) := by
  induction ps generalizing k with
  | nil => intro pg hpg; cases hpg
  | cons pg rest ih =>
    cases k with
    | zero =>
      intro q hq r hr
      simp only [attachAt] at hq
      rcases List.mem_cons.1 hq with h1 | h1
      · subst h1
        rcases Array.mem_push.1 hr with h2 | h2
        · exact hp pg List.mem_cons_self r h2
        · subst h2; exact hi
      · exact hp q (List.mem_cons_of_mem _ h1) r hr
    | succ k' =>
      intro q hq r hr
      simp only [attachAt] at hq
      rcases List.mem_cons.1 hq with h1 | h1
      · subst h1; exact hp _ List.mem_cons_self r hr
      · exact ih k' (fun x hx => hp x (List.mem_cons_of_mem _ hx)) q h1 r hr

theorem matchF_R (R : Array P → Prop) (hrev : ∀ r, R r → R r.reverse) (polys0 : Array (Array (Array P))) (inners : Array (Array P))
    (hp : PolysR R polys0.toList) (hi : RingsR R inners.toList) : PolysR R (matchF polys0 inners).toList := by
  unfold matchF
  split
  · exact hp
  · simp only
    have key : ∀ (l : List (Array P)) (st : MatchState), RingsR R l → PolysR R st.polys → RingsR R st.turned →
        let st' := l.foldl (fun (st : MatchState) inner =>
          match matchDecision (polys0.map fun pg => pg[0]!) (sortPolyIdxsByOuterAreaDesc polys0) inner with
          | some i => { st with polys := attachAt st.polys i inner }
          | none => { st with turned := st.turned ++ [inner.reverse] }) st
        PolysR R st'.polys ∧ RingsR R st'.turned := by
      intro l
      induction l with
      | nil => intro st _ h1 h2; exact ⟨h1, h2⟩
      | cons inner rest ih =>
        intro st hl h1 h2
        simp only [List.foldl_cons]
        apply ih _ (fun r hr => hl r (List.mem_cons_of_mem _ hr))
        · split
          · exact attachAt_R R _ _ _ h1 (hl inner List.mem_cons_self)
          · exact h1
        · split
          · exact h2
          · intro r hr
            rcases List.mem_append.1 hr with h3 | h3
            · exact h2 r h3
            · simp only [List.mem_singleton] at h3; subst h3
              exact hrev _ (hl inner List.mem_cons_self)
    obtain ⟨k1, k2⟩ := key inners.toList { polys := polys0.toList } hi hp (by intro r hr; cases hr)
    intro pg hpg r hr
    rcases List.mem_append.1 hpg with h3 | h3
    · exact k1 pg h3 r hr
    · simp only [List.mem_map] at h3
      obtain ⟨t, ht, rfl⟩ := h3
      have hrt : r = t := by simpa using hr
      subst hrt
      exact k2 r ht

theorem assembleCore_R (R Rp : Array P → Prop) (hrev : ∀ r, R r → R r.reverse) (a : Acc) (core : Array Poly) (ha : AccR R Rp a)
    (h : assembleCore a = .ok core) : PolysR R core.toList := by
  unfold assembleCore at h
  simp only [bind, Except.bind] at h
  split at h
  · cases h
  · rename_i oi hoi
    obtain ⟨o, i⟩ := oi
    simp only [pure, Except.pure, Except.ok.injEq] at h
    subst h
    obtain ⟨ho, hi⟩ := dedupeF_R R a.outers a.inners o i (fun r hr => ha.1 r (by simpa using hr)) (fun r hr => ha.2.1 r (by simpa using hr)) hoi
    apply matchF_R R hrev _ i _ hi
    intro pg hpg r hr
    simp only [Array.toList_map, List.mem_map] at hpg
    obtain ⟨r0, hr0, rfl⟩ := hpg
    have : r = r0 := by simpa using hr
    subst this
    exact ho r hr0

/-- **what a level is made of**: the assembled polygons have only rings of at least three vertices (reversed or not), the appended
points and lines are single rings of at most two vertices -/
theorem processLevel_size (g : Grid) (hot : Nat → Quad → Bool) (cfg : Config) (l : Nat) (rings : List (List Pt)) (polys : Array Poly)
    (h : processLevel g hot cfg l rings = .ok (some polys)) :
    ∃ core : Array Poly, ∃ pls : Array (Array P), polys = core ++ pls.map (fun pl => #[pl]) ∧
      (∀ pg ∈ core, ∀ r ∈ pg, 3 ≤ r.size) ∧ (∀ pl ∈ pls, pl.size ≤ 2) ∧
      (∃ acc, levelAcc g hot cfg.keep l rings = .ok (some acc) ∧ pls = acc.pls) := by
  obtain ⟨acc, core, hacc, hcore, hfin⟩ := processLevel_some g hot cfg l rings polys h
  have ha := levelAcc_size g hot cfg.keep l rings acc hacc
  have hc := assembleCore_R Big Small big_reverse acc core ha hcore
  obtain ⟨hpolys, _⟩ := finishLevel_some cfg.reverse core acc.pls polys hfin
  refine ⟨if cfg.reverse then reversePolys core else core, acc.pls, hpolys, ?_, fun pl hpl => ha.2.2 pl hpl, ⟨acc, hacc, rfl⟩⟩
  · intro pg hpg r hr
    split at hpg
    · unfold reversePolys at hpg
      simp only [Array.mem_map] at hpg
      obtain ⟨pg0, hpg0, rfl⟩ := hpg
      simp only [Array.mem_map] at hr
      obtain ⟨r0, hr0, rfl⟩ := hr
      have := hc pg0 (by simpa using hpg0) r0 hr0
      unfold Big at this; simpa using this
    · exact hc pg (by simpa using hpg) r hr

end Texel
