import Texel.Proofs.Route3
import Texel.Model.SnapF
/-! Facts about the routed chains of a ring (`routeRing`, `joinChain`): every edge of a polygon whose vertices are all inside
the grid is routed through at least one pixel (so `cleanupNewVertices` never hits its "no points found" panic), and every
vertex of a routed chain is the pixel of an input vertex. -/
namespace Texel

theorem mapM_mem_some {α β} (f : α → Option β) (l : List α) (out : List β) (h : l.mapM f = some out) (a : α) (ha : a ∈ l) :
    ∃ b, f a = some b ∧ b ∈ out := by
  induction l generalizing out with
  | nil => cases ha
  | cons x xs ih =>
    rw [List.mapM_cons] at h
    cases hx : f x with
    | none => simp [hx] at h
    | some y =>
      cases hxs : xs.mapM f with
      | none => simp [hx, hxs] at h
      | some ys =>
        simp [hx, hxs] at h
        subst h
        rcases List.mem_cons.1 ha with h1 | h1
        · subst h1; exact ⟨y, hx, List.mem_cons_self⟩
        · obtain ⟨b, hb1, hb2⟩ := ih ys hxs h1
          exact ⟨b, hb1, List.mem_cons_of_mem _ hb2⟩

theorem mapM_isSome_of_all {α β} (f : α → Option β) (l : List α) (h : ∀ a ∈ l, (f a).isSome = true) : (l.mapM f).isSome = true := by
  induction l with
  | nil => simp
  | cons x xs ih =>
    rw [List.mapM_cons]
    obtain ⟨y, hy⟩ := Option.isSome_iff_exists.1 (h x List.mem_cons_self)
    obtain ⟨ys, hys⟩ := Option.isSome_iff_exists.1 (ih (fun a ha => h a (List.mem_cons_of_mem _ ha)))
    simp [hy, hys]

theorem ringEdges_start_mem (ring : List Pt) (s : Seg) (hs : s ∈ ringEdges ring) : s.p1 ∈ ring := by
  unfold ringEdges at hs
  cases ring with
  | nil => cases hs
  | cons v vs =>
    simp only [List.mem_map] at hs
    obtain ⟨⟨a, b⟩, hab, rfl⟩ := hs
    exact (List.of_mem_zip hab).1

theorem cleanupNewVerticesF_isSome (nv : List P) (last : Option P) (h : nv ≠ []) : (cleanupNewVerticesF nv last).isSome = true := by
  unfold cleanupNewVerticesF
  cases nv with
  | nil => exact absurd rfl h
  | cons a as => simp

theorem foldlM_join_isSome (routed : List (List P)) (h : ∀ r ∈ routed, r ≠ []) (acc : List P) :
    (routed.foldlM (fun acc nv => (cleanupNewVerticesF nv acc.getLast?).map (acc ++ ·)) acc).isSome = true := by
  induction routed generalizing acc with
  | nil => simp
  | cons r rs ih =>
    rw [List.foldlM_cons]
    have hr := cleanupNewVerticesF_isSome r acc.getLast? (h r List.mem_cons_self)
    obtain ⟨nv, hnv⟩ := Option.isSome_iff_exists.1 hr
    simp only [hnv, Option.map_some, Option.bind_eq_bind, Option.bind_some]
    exact ih (fun r' hr' => h r' (List.mem_cons_of_mem _ hr')) _

/-- **the "no points found" panic is unreachable**: for a ring all of whose vertices were inserted into the index, the chain of
every level `l ≤ depth` joins — `cleanupNewVertices` is never handed an empty list -/
theorem joinChain_isSome (g : Grid) (hres : 0 < g.res) (rings : List (List Pt)) (addrs : List Quad)
    (hins : insertAll g rings = some addrs) (ring : List Pt) (hring : ∀ v ∈ ring, v ∈ rings.flatten) (l : Nat) (hl : l ≤ g.depth) :
    (joinChain (routeRing g (hotOf g addrs) l ring)).isSome = true := by
  unfold joinChain
  apply foldlM_join_isSome
  intro r hr
  unfold routeRing at hr
  simp only [List.mem_map] at hr
  obtain ⟨s, hs, rfl⟩ := hr
  have hv := hring _ (ringEdges_start_mem ring s hs)
  unfold insertAll at hins
  obtain ⟨a, ha1, ha2⟩ := mapM_mem_some _ _ _ hins _ hv
  have := routed_nonempty g hres addrs s a ha1 ha2 l hl
  intro hnil
  simp only [List.map_eq_nil_iff] at hnil
  rw [hnil] at this
  cases this

/-- every routed pixel (below level 0) is the pixel of an inserted vertex: it holds `a.up g l` for some deepest address `a` -/
theorem routed_is_vertex_pixel (g : Grid) (hres : 0 < g.res) (addrs : List Quad) (L : Seg) (l : Nat) (hl : l ≤ g.depth) (hl0 : l ≠ 0)
    (p : Quad) (hp : p ∈ snapLevel lineIntersects g (hotOf g addrs) L l) : ∃ a ∈ addrs, a.up g l = p := by
  have h := ((C02_routing g (hotOf g addrs) L hres (hotOf_closed g addrs) l hl).1 p).1 hp
  rcases h.2.2.1 with h0 | hhot
  · exact absurd h0 hl0
  · unfold hotOf at hhot
    rw [List.any_eq_true] at hhot
    obtain ⟨a, ha, hap⟩ := hhot
    exact ⟨a, ha, by simpa using hap⟩

end Texel
