import Mathlib.Tactic.IntervalCases
import Mathlib.Algebra.Group.Nat.Even
namespace Texel.Morton

def spread (x : BitVec 64) : BitVec 64 :=
  let x := (x ||| (x <<< 16)) &&& 0x0000FFFF0000FFFF#64
  let x := (x ||| (x <<< 8)) &&& 0x00FF00FF00FF00FF#64
  let x := (x ||| (x <<< 4)) &&& 0x0F0F0F0F0F0F0F0F#64
  let x := (x ||| (x <<< 2)) &&& 0x3333333333333333#64
  let x := (x ||| (x <<< 1)) &&& 0x5555555555555555#64
  x

def compact (x : BitVec 64) : BitVec 64 :=
  let x := (x ||| (x >>> 0)) &&& 0x5555555555555555#64
  let x := (x ||| (x >>> 1)) &&& 0x3333333333333333#64
  let x := (x ||| (x >>> 2)) &&& 0x0F0F0F0F0F0F0F0F#64
  let x := (x ||| (x >>> 4)) &&& 0x00FF00FF00FF00FF#64
  let x := (x ||| (x >>> 8)) &&& 0x0000FFFF0000FFFF#64
  let x := (x ||| (x >>> 16)) &&& 0x00000000FFFFFFFF#64
  x

theorem spread_bit (x : BitVec 32) (i : Nat) (hi : i < 64) :
    (spread (x.setWidth 64)).getLsbD i = (decide (i % 2 = 0) && x.getLsbD (i / 2)) := by
  unfold spread
  interval_cases i <;>
    simp [BitVec.getLsbD_shiftLeft, BitVec.getLsbD_and, BitVec.getLsbD_or, BitVec.getLsbD_ofNat, BitVec.getLsbD_setWidth]


theorem compact_bit (z : BitVec 64) (i : Nat) (hi : i < 64) :
    (compact z).getLsbD i = (decide (i < 32) && z.getLsbD (2 * i)) := by
  unfold compact
  interval_cases i <;> simp [BitVec.getLsbD_ushiftRight]

def toZ (x y : BitVec 64) : BitVec 64 := spread x ||| (spread y <<< 1)
def fromZ (z : BitVec 64) : BitVec 64 × BitVec 64 := (compact z, compact (z >>> 1))

theorem toZ_bit (x y : BitVec 32) (i : Nat) (hi : i < 64) :
    (toZ (x.setWidth 64) (y.setWidth 64)).getLsbD i =
      (if i % 2 = 0 then x.getLsbD (i/2) else y.getLsbD (i/2)) := by
  unfold toZ
  rw [BitVec.getLsbD_or, BitVec.getLsbD_shiftLeft, spread_bit x i hi]
  rcases Nat.even_or_odd i with h | h
  · obtain ⟨k, rfl⟩ := h
    have : (k + k) % 2 = 0 := by omega
    simp [this, hi]
    intro h1
    by_cases hk : k + k = 0
    · omega
    · rw [spread_bit y (k + k - 1) (by omega)]
      have : (k + k - 1) % 2 = 1 := by omega
      simp [this]
  · obtain ⟨k, rfl⟩ := h
    have h2 : (2 * k + 1) % 2 = 1 := by omega
    have h3 : (2 * k + 1) / 2 = k := by omega
    simp [h2, h3, hi]
    rw [spread_bit y (2*k) (by omega)]
    have : (2 * k) % 2 = 0 := by omega
    simp [this]

theorem roundtrip (x y : BitVec 32) :
    fromZ (toZ (x.setWidth 64) (y.setWidth 64)) = (x.setWidth 64, y.setWidth 64) := by
  unfold fromZ
  refine Prod.ext ?_ ?_
  · apply BitVec.eq_of_getLsbD_eq
    intro i hi
    rw [compact_bit _ i hi]
    by_cases h : i < 32
    · rw [toZ_bit x y (2*i) (by omega)]
      have : 2 * i % 2 = 0 := by omega
      have h2 : 2 * i / 2 = i := by omega
      simp [h, this, h2, BitVec.getLsbD_setWidth, hi]
    · simp [h, BitVec.getLsbD_setWidth]
      intro _
      exact BitVec.getLsbD_of_ge x i (by omega)
  · apply BitVec.eq_of_getLsbD_eq
    intro i hi
    rw [compact_bit _ i hi]
    by_cases h : i < 32
    · rw [BitVec.getLsbD_ushiftRight, toZ_bit x y (1 + 2*i) (by omega)]
      have : (1 + 2 * i) % 2 = 1 := by omega
      have h2 : (1 + 2 * i) / 2 = i := by omega
      simp [h, this, h2, BitVec.getLsbD_setWidth, hi]
    · simp [h, BitVec.getLsbD_setWidth]
      intro _
      exact BitVec.getLsbD_of_ge y i (by omega)

#print axioms roundtrip


end Texel.Morton
