import Texel.Proofs.HalfPixel
import Texel.Proofs.Chain
import Texel.Proofs.Depth
import Mathlib.Data.List.Chain
/-! Every edge of the routed boundary of a ring (`joinChain (routeRing …)`, closing edge included) joins two pixels that one and the same
input edge is routed through — hence (`routed_run_within_half_pixel`) stays within half a pixel of the input boundary. -/
namespace Texel

/-- both pixels are among the pixels some one edge is routed through -/
def CoListed (all : List (List P)) (u v : P) : Prop := ∃ r ∈ all, u ∈ r ∧ v ∈ r

/-- consecutive edges share a vertex: the last routed pixel of one is the first routed pixel of the next -/
def Linked (r r' : List P) : Prop := r.getLast? = r'.head?

theorem cleanupNewVerticesF_shape (nv : List P) (last : Option P) (out : List P) (h : cleanupNewVerticesF nv last = some out) :
    ∃ nv', (nv' = nv ∨ (1 < nv.length ∧ nv' = nv.dropLast)) ∧ nv'.head? = nv.head? ∧ nv' ≠ [] ∧
      ((nv'.head? = last ∧ last.isSome ∧ out = nv'.tail) ∨ (¬ (nv'.head? = last ∧ last.isSome) ∧ out = nv')) := by
  unfold cleanupNewVerticesF at h
  cases nv with
  | nil => cases h
  | cons a as =>
    simp only [Option.some.injEq] at h
    by_cases hlen : 1 < (a :: as).length
    · rw [if_pos hlen] at h
      have hne : (a :: as).dropLast ≠ [] := by
        cases as with
        | nil => simp at hlen
        | cons b bs => simp [List.dropLast]
      have hhead : ((a :: as).dropLast).head? = (a :: as).head? := by
        cases as with
        | nil => simp at hlen
        | cons b bs => simp [List.dropLast]
      refine ⟨(a :: as).dropLast, Or.inr ⟨hlen, rfl⟩, hhead, hne, ?_⟩
      by_cases hc : ((a :: as).dropLast).head? = last ∧ last.isSome = true
      · rw [if_pos hc] at h; exact Or.inl ⟨hc.1, hc.2, h.symm⟩
      · rw [if_neg hc] at h; exact Or.inr ⟨hc, h.symm⟩
    · rw [if_neg hlen] at h
      refine ⟨a :: as, Or.inl rfl, rfl, by simp, ?_⟩
      by_cases hc : (a :: as).head? = last ∧ last.isSome = true
      · rw [if_pos hc] at h; exact Or.inl ⟨hc.1, hc.2, h.symm⟩
      · rw [if_neg hc] at h; exact Or.inr ⟨hc, h.symm⟩

theorem isChain_of_mem_one (all : List (List P)) (r : List P) (hr : r ∈ all) (l : List P) (hl : ∀ v ∈ l, v ∈ r) : List.IsChain (CoListed all) l := by
  induction l with
  | nil => exact .nil
  | cons a t ih =>
    cases t with
    | nil => exact .singleton a
    | cons b t' =>
      exact .cons_cons ⟨r, hr, hl a List.mem_cons_self, hl b (List.mem_cons_of_mem _ List.mem_cons_self)⟩
        (ih (fun v hv => hl v (List.mem_cons_of_mem _ hv)))

/-- the fold of `joinChain`, with the list processed last (`prev`) carried along -/
theorem joinFold_colisted (all : List (List P)) : ∀ (rs : List (List P)) (acc : List P) (prev : Option (List P)) (out : List P),
    (∀ r ∈ rs, r ∈ all) → (∀ r ∈ rs, r ≠ []) → List.IsChain Linked (prev.toList ++ rs) →
    (prev = none → acc = []) → (∀ r, prev = some r → r ∈ all ∧ r ≠ [] ∧ ∃ u, acc.getLast? = some u ∧ u ∈ r) →
    List.IsChain (CoListed all) acc →
    rs.foldlM (fun acc nv => (cleanupNewVerticesF nv acc.getLast?).map (acc ++ ·)) acc = some out →
    List.IsChain (CoListed all) out ∧
      (∀ r, (prev.toList ++ rs).getLast? = some r → ∃ u, out.getLast? = some u ∧ u ∈ r) := by
  intro rs
  induction rs with
  | nil =>
    intro acc prev out _ _ _ _ hprev hacc h
    simp only [List.foldlM_nil, Option.pure_def, Option.some.injEq] at h
    subst h
    refine ⟨hacc, ?_⟩
    intro r hr
    cases prev with
    | none => simp at hr
    | some p =>
      simp at hr; subst hr
      exact (hprev p rfl).2.2
  | cons r rest ih =>
    intro acc prev out hall hne hlink hnone hprev hacc h
    rw [List.foldlM_cons] at h
    cases hc : cleanupNewVerticesF r acc.getLast? with
    | none => simp [hc] at h
    | some nv =>
      simp only [hc, Option.map_some, Option.bind_eq_bind, Option.bind_some] at h
      obtain ⟨nv', hnv', hhead, hnv'ne, hcase⟩ := cleanupNewVerticesF_shape r _ nv hc
      have hrall : r ∈ all := hall r List.mem_cons_self
      have hrne : r ≠ [] := hne r List.mem_cons_self
      have hsub' : ∀ v ∈ nv', v ∈ r := by
        intro v hv
        rcases hnv' with e | ⟨_, e⟩
        · rw [e] at hv; exact hv
        · rw [e] at hv; exact (List.dropLast_sublist _).subset hv
      have hsub : ∀ v ∈ nv, v ∈ r := by
        intro v hv
        rcases hcase with ⟨_, _, e⟩ | ⟨_, e⟩
        · rw [e] at hv; exact hsub' v (List.mem_of_mem_tail hv)
        · rw [e] at hv; exact hsub' v hv
      -- the new accumulated chain
      have hchain : List.IsChain (CoListed all) (acc ++ nv) := by
        apply List.IsChain.append hacc (isChain_of_mem_one all r hrall nv hsub)
        intro x hx y hy
        cases prev with
        | none =>
          rw [hnone rfl] at hx; simp at hx
        | some p =>
          obtain ⟨hpall, hpne, u, hu, hup⟩ := hprev p rfl
          rw [hu] at hx; simp at hx; subst hx
          have hl : Linked p r := by
            have := hlink
            simp only [Option.toList_some, List.singleton_append] at this
            exact (List.isChain_cons_cons.1 this).1
          rcases hcase with ⟨h1, h2, e⟩ | ⟨_, e⟩
          · -- head dropped: the previous last pixel is the first pixel of this edge
            have hxr : u ∈ r := by
              have : nv'.head? = some u := by rw [h1, hu]
              rw [hhead] at this
              exact List.mem_of_mem_head? this
            have hyr : y ∈ r := hsub y (List.mem_of_mem_head? hy)
            exact ⟨r, hrall, hxr, hyr⟩
          · -- nothing dropped: the first new pixel is the first pixel of this edge = the last pixel of the previous edge
            rw [e] at hy
            have : r.head? = some y := by rw [← hhead]; exact hy
            have hyp : y ∈ p := by
              unfold Linked at hl
              rw [this] at hl
              exact List.mem_of_mem_getLast? hl
            exact ⟨p, hpall, hup, hyp⟩
      -- continue
      have hres := ih (acc ++ nv) (some r) out (fun q hq => hall q (List.mem_cons_of_mem _ hq)) (fun q hq => hne q (List.mem_cons_of_mem _ hq))
        (by
          have := hlink
          cases prev with
          | none => simpa using this
          | some p =>
            simp only [Option.toList_some, List.singleton_append] at this ⊢
            exact (List.isChain_cons_cons.1 this).2)
        (by intro hh; cases hh)
        (by
          intro q hq; cases hq
          refine ⟨hrall, hrne, ?_⟩
          by_cases hnvne : nv = []
          · -- nothing added: the old last pixel lies on this edge as well
            subst hnvne
            rcases hcase with ⟨h1, h2, e⟩ | ⟨_, e⟩
            · obtain ⟨u, hu⟩ := Option.isSome_iff_exists.1 h2
              refine ⟨u, by simpa using hu, ?_⟩
              have : nv'.head? = some u := by rw [h1, hu]
              rw [hhead] at this
              exact List.mem_of_mem_head? this
            · exact absurd e.symm hnv'ne
          · obtain ⟨u, hu⟩ : ∃ u, nv.getLast? = some u := by
              cases hh : nv.getLast? with
              | none => exact absurd (List.getLast?_eq_none_iff.1 hh) hnvne
              | some u => exact ⟨u, rfl⟩
            refine ⟨u, ?_, hsub u (List.mem_of_mem_getLast? hu)⟩
            rw [List.getLast?_append_of_ne_nil _ hnvne]; exact hu)
        hchain h
      refine ⟨hres.1, ?_⟩
      intro q hq
      apply hres.2 q
      cases prev with
      | none => simpa using hq
      | some p =>
        simp only [Option.toList_some, List.singleton_append] at hq ⊢
        rw [List.getLast?_cons_cons] at hq
        exact hq

/-! ### first and last routed pixel of an edge -/

theorem head_of_pairwise {α} (R : α → α → Prop) (l : List α) (hp : l.Pairwise R) (x : α) (hx : x ∈ l) (hno : ∀ y ∈ l, ¬ R y x) : l.head? = some x := by
  cases l with
  | nil => cases hx
  | cons a t =>
    rcases List.mem_cons.1 hx with h | h
    · subst h; rfl
    · exact absurd ((List.pairwise_cons.1 hp).1 x h) (hno a List.mem_cons_self)

theorem last_of_pairwise {α} (R : α → α → Prop) (l : List α) (hp : l.Pairwise R) (x : α) (hx : x ∈ l) (hno : ∀ y ∈ l, ¬ R x y) : l.getLast? = some x := by
  induction l with
  | nil => cases hx
  | cons a t ih =>
    cases t with
    | nil => simp at hx; subst hx; rfl
    | cons b t' =>
      rw [List.getLast?_cons_cons]
      rcases List.mem_cons.1 hx with h | h
      · subst h
        exact absurd ((List.pairwise_cons.1 hp).1 b List.mem_cons_self) (hno b (List.mem_cons_of_mem _ List.mem_cons_self))
      · exact ih (List.pairwise_cons.1 hp).2 h (fun y hy => hno y (List.mem_cons_of_mem _ hy))

theorem end_in_own_pixel (g : Grid) (hres : 0 < g.res) (L : Seg) (b : Quad) (hb : deepestAddr g L.p2 = some b) (l : Nat) :
    MeetsAt L (g.box l (b.up g l)) 1 := by
  have h := own_pixel g hres L.p2 b hb l
  rw [containsPoint_iff] at h
  obtain ⟨h1, h2, h3, h4⟩ := h
  refine ⟨by norm_num, le_refl _, ?_⟩
  unfold InBox Seg.X Seg.Y
  refine ⟨?_, ?_, ?_, ?_⟩
  · have : ((g.box l (b.up g l)).minX : ℚ) ≤ L.p2.x := by exact_mod_cast h1
    linarith
  · have : (L.p2.x : ℚ) < (g.box l (b.up g l)).maxX := by exact_mod_cast h2
    linarith
  · have : ((g.box l (b.up g l)).minY : ℚ) ≤ L.p2.y := by exact_mod_cast h3
    linarith
  · have : (L.p2.y : ℚ) < (g.box l (b.up g l)).maxY := by exact_mod_cast h4
    linarith

/-- the first pixel an edge is routed through is the pixel of its start vertex -/
theorem routed_head (g : Grid) (hres : 0 < g.res) (addrs : List Quad) (L : Seg) (a : Quad)
    (ha : deepestAddr g L.p1 = some a) (hin : a ∈ addrs) (l : Nat) (hl : l ≤ g.depth) :
    (snapLevel lineIntersects g (hotOf g addrs) L l).head? = some (a.up g l) := by
  have spec := C02_routing g (hotOf g addrs) L hres (hotOf_closed g addrs) l hl
  apply head_of_pairwise _ _ spec.2 _ (routed_nonempty g hres addrs L a ha hin l hl)
  intro y hy hprec
  obtain ⟨_, _, _, ty, hty⟩ := (spec.1 y).1 hy
  have := hprec ty 0 hty (start_in_own_pixel g hres L a ha l)
  have := hty.1
  linarith

/-- the last pixel an edge is routed through is the pixel of its end vertex -/
theorem routed_last (g : Grid) (hres : 0 < g.res) (addrs : List Quad) (L : Seg) (b : Quad)
    (hb : deepestAddr g L.p2 = some b) (hin : b ∈ addrs) (l : Nat) (hl : l ≤ g.depth) :
    (snapLevel lineIntersects g (hotOf g addrs) L l).getLast? = some (b.up g l) := by
  have spec := C02_routing g (hotOf g addrs) L hres (hotOf_closed g addrs) l hl
  have hmem : b.up g l ∈ snapLevel lineIntersects g (hotOf g addrs) L l := by
    obtain ⟨_, _, _, _, hx, hy⟩ := deepestAddr_spec g hres L.p2 b hb
    rw [spec.1]
    obtain ⟨ux, uy⟩ := up_lt g b l hl hx hy
    refine ⟨ux, uy, Or.inr ?_, ⟨1, end_in_own_pixel g hres L b hb l⟩⟩
    unfold hotOf
    rw [List.any_eq_true]
    exact ⟨b, hin, by simp⟩
  apply last_of_pairwise _ _ spec.2 _ hmem
  intro y hy hprec
  obtain ⟨_, _, _, ty, hty⟩ := (spec.1 y).1 hy
  have := hprec 1 ty (end_in_own_pixel g hres L b hb l) hty
  have := hty.2.1
  linarith

/-! ### the edges of a ring follow one another and close up -/

theorem zipNext_chain (c : Pt) : ∀ l : List Pt, List.IsChain (fun (s s' : Pt × Pt) => s.2 = s'.1) (List.zip l (l.tail ++ [c]))
  | [] => by simp
  | [a] => by simp
  | a :: b :: t => by
    have ih := zipNext_chain c (b :: t)
    simp only [List.tail_cons, List.cons_append, List.zip_cons_cons] at ih ⊢
    cases t with
    | nil => simp at ih ⊢
    | cons d t' =>
      simp only [List.cons_append, List.zip_cons_cons] at ih ⊢
      exact List.isChain_cons_cons.2 ⟨rfl, ih⟩

theorem zipNext_head (c : Pt) (a : Pt) (t : List Pt) : ((List.zip (a :: t) ((a :: t).tail ++ [c])).head?.map (·.1)) = some a := by
  cases t <;> simp

theorem zipNext_last (c : Pt) : ∀ (l : List Pt), l ≠ [] → ((List.zip l (l.tail ++ [c])).getLast?.map (·.2)) = some c
  | [], h => absurd rfl h
  | [a], _ => by simp
  | a :: b :: t, _ => by
    have ih := zipNext_last c (b :: t) (by simp)
    simp only [List.tail_cons, List.cons_append, List.zip_cons_cons] at ih ⊢
    cases t with
    | nil => simp at ih ⊢
    | cons d t' =>
      simp only [List.cons_append, List.zip_cons_cons] at ih ⊢
      rw [List.getLast?_cons_cons]; exact ih

theorem ringEdges_chain (ring : List Pt) : List.IsChain (fun (s s' : Seg) => s.p2 = s'.p1) (ringEdges ring) := by
  unfold ringEdges
  cases ring with
  | nil => simp
  | cons v vs =>
    simp only
    have := zipNext_chain v (v :: vs)
    simp only [List.tail_cons] at this
    rw [List.isChain_map]
    exact this

theorem ringEdges_closed (v : Pt) (vs : List Pt) :
    (ringEdges (v :: vs)).head?.map (·.p1) = some v ∧ (ringEdges (v :: vs)).getLast?.map (·.p2) = some v := by
  unfold ringEdges
  simp only
  constructor
  · have := zipNext_head v v vs
    simp only [List.tail_cons] at this
    rw [List.head?_map]
    cases h : (List.zip (v :: vs) (vs ++ [v])).head? with
    | none => rw [h] at this; simp at this
    | some x => rw [h] at this; simpa using this
  · have := zipNext_last v (v :: vs) (by simp)
    simp only [List.tail_cons] at this
    rw [List.getLast?_map]
    cases h : (List.zip (v :: vs) (vs ++ [v])).getLast? with
    | none => rw [h] at this; simp at this
    | some x => rw [h] at this; simpa using this

theorem ringEdges_end_mem (ring : List Pt) (s : Seg) (hs : s ∈ ringEdges ring) : s.p2 ∈ ring := by
  unfold ringEdges at hs
  cases ring with
  | nil => cases hs
  | cons v vs =>
    simp only [List.mem_map] at hs
    obtain ⟨⟨a, b⟩, hab, rfl⟩ := hs
    have := (List.of_mem_zip hab).2
    rcases List.mem_append.1 this with h | h
    · exact List.mem_cons_of_mem _ h
    · simp at h; subst h; exact List.mem_cons_self

/-! ### the routed boundary of a ring -/

theorem isChain_imp_mem {α} (R S : α → α → Prop) : ∀ (l : List α), List.IsChain R l → (∀ a b, a ∈ l → b ∈ l → R a b → S a b) → List.IsChain S l
  | [], _, _ => .nil
  | [a], _, _ => .singleton a
  | a :: b :: t, h, himp => by
    obtain ⟨hab, ht⟩ := List.isChain_cons_cons.1 h
    exact List.isChain_cons_cons.2 ⟨himp a b List.mem_cons_self (List.mem_cons_of_mem _ List.mem_cons_self) hab,
      isChain_imp_mem R S (b :: t) ht (fun x y hx hy => himp x y (List.mem_cons_of_mem _ hx) (List.mem_cons_of_mem _ hy))⟩

theorem joinFold_prefix : ∀ (rs : List (List P)) (acc out : List P),
    rs.foldlM (fun acc nv => (cleanupNewVerticesF nv acc.getLast?).map (acc ++ ·)) acc = some out → ∃ suf, out = acc ++ suf
  | [], acc, out, h => by
    simp only [List.foldlM_nil, Option.pure_def, Option.some.injEq] at h; exact ⟨[], by simp [h]⟩
  | r :: rest, acc, out, h => by
    rw [List.foldlM_cons] at h
    cases hc : cleanupNewVerticesF r acc.getLast? with
    | none => simp [hc] at h
    | some nv =>
      simp only [hc, Option.map_some, Option.bind_eq_bind, Option.bind_some] at h
      obtain ⟨suf, hs⟩ := joinFold_prefix rest (acc ++ nv) out h
      exact ⟨nv ++ suf, by rw [hs, List.append_assoc]⟩

theorem joinChain_head (r : List P) (rs : List (List P)) (chain : List P) (hr : r ≠ []) (h : joinChain (r :: rs) = some chain) :
    chain.head? = r.head? := by
  unfold joinChain at h
  rw [List.foldlM_cons] at h
  simp only [List.getLast?_nil] at h
  cases hc : cleanupNewVerticesF r none with
  | none => simp [hc] at h
  | some nv =>
    simp only [hc, Option.map_some, Option.bind_eq_bind, Option.bind_some, List.nil_append] at h
    obtain ⟨nv', _, hhead, hne, hcase⟩ := cleanupNewVerticesF_shape r _ nv hc
    rcases hcase with ⟨_, h2, _⟩ | ⟨_, e⟩
    · simp at h2
    · obtain ⟨suf, hs⟩ := joinFold_prefix rs nv chain h
      rw [hs, e, List.head?_append_of_ne_nil _ hne, hhead]

/-- **every edge of the routed boundary of a ring — the closing edge included — joins two pixels that one input edge is routed through** -/
theorem routedBoundary_colisted (g : Grid) (hres : 0 < g.res) (rings : List (List Pt)) (addrs : List Quad)
    (hins : insertAll g rings = some addrs) (ring : List Pt) (hring : ∀ v ∈ ring, v ∈ rings.flatten) (l : Nat) (hl : l ≤ g.depth)
    (chain : List P) (h : joinChain (routeRing g (hotOf g addrs) l ring) = some chain) :
    List.IsChain (CoListed (routeRing g (hotOf g addrs) l ring)) chain ∧
      ∀ u v, chain.getLast? = some u → chain.head? = some v → CoListed (routeRing g (hotOf g addrs) l ring) u v := by
  set routed := routeRing g (hotOf g addrs) l ring with hrouted
  -- every vertex of the ring has an address in the index
  have haddr : ∀ v ∈ ring, ∃ a, deepestAddr g v = some a ∧ a ∈ addrs := by
    intro v hv
    unfold insertAll at hins
    exact mapM_mem_some _ _ _ hins _ (hring v hv)
  let f : Seg → List P := fun s => (snapLevel lineIntersects g (hotOf g addrs) s l).map Quad.toP
  have hrf : routed = (ringEdges ring).map f := rfl
  have hne : ∀ r ∈ routed, r ≠ [] := by
    intro r hr
    rw [hrf] at hr
    simp only [List.mem_map] at hr
    obtain ⟨s, hs, rfl⟩ := hr
    obtain ⟨a, ha1, ha2⟩ := haddr _ (ringEdges_start_mem ring s hs)
    have := routed_nonempty g hres addrs s a ha1 ha2 l hl
    intro hnil
    simp only [f, List.map_eq_nil_iff] at hnil
    rw [hnil] at this; cases this
  have hlinked : List.IsChain Linked routed := by
    rw [hrf, List.isChain_map]
    apply isChain_imp_mem _ _ _ (ringEdges_chain ring)
    intro s s' hs hs' hss
    obtain ⟨b, hb1, hb2⟩ := haddr _ (ringEdges_end_mem ring s hs)
    have h1 := routed_last g hres addrs s b hb1 hb2 l hl
    have h2 := routed_head g hres addrs s' b (by rw [← hss]; exact hb1) hb2 l hl
    unfold Linked
    simp only [f, List.getLast?_map, List.head?_map, h1, h2]
  have hmain := joinFold_colisted routed routed [] none chain (fun r hr => hr) hne (by simpa using hlinked) (fun _ => rfl)
    (by intro r hr; cases hr) .nil (by unfold joinChain at h; exact h)
  refine ⟨hmain.1, ?_⟩
  intro u v hu hv
  -- the ring is not empty (else the chain would be empty)
  cases ring with
  | nil =>
    have : chain = [] := by
      have : routed = [] := by rw [hrf]; rfl
      rw [this] at h; unfold joinChain at h; simpa using h.symm
    rw [this] at hu; cases hu
  | cons v0 vs =>
    obtain ⟨hfirst, hlast⟩ := ringEdges_closed v0 vs
    obtain ⟨a, ha1, ha2⟩ := haddr v0 List.mem_cons_self
    -- the first and the last edge
    cases he : ringEdges (v0 :: vs) with
    | nil => rw [he] at hfirst; simp at hfirst
    | cons e1 es =>
      have he1 : e1.p1 = v0 := by rw [he] at hfirst; simpa using hfirst
      obtain ⟨en, hen⟩ : ∃ en, (ringEdges (v0 :: vs)).getLast? = some en := by
        rw [he]; exact ⟨(e1 :: es).getLast (by simp), List.getLast?_eq_some_getLast (by simp)⟩
      have hen2 : en.p2 = v0 := by rw [hen] at hlast; simpa using hlast
      have henm : en ∈ ringEdges (v0 :: vs) := List.mem_of_mem_getLast? hen
      -- the chain starts with the pixel of v0 …
      have hhead : chain.head? = some (a.up g l).toP := by
        have hr1 : routed = f e1 :: es.map f := by rw [hrf, he]; rfl
        rw [hr1] at h
        rw [joinChain_head (f e1) (es.map f) chain (hne _ (by rw [hr1]; exact List.mem_cons_self)) h]
        have := routed_head g hres addrs e1 a (by rw [he1]; exact ha1) ha2 l hl
        simp only [f, List.head?_map, this, Option.map_some]
      -- … and ends with a pixel of the last edge, which ends in the pixel of v0 as well
      have hlastlist : routed.getLast? = some (f en) := by
        rw [hrf, List.getLast?_map, hen]; rfl
      obtain ⟨u', hu', hu'm⟩ := hmain.2 (f en) (by simpa using hlastlist)
      rw [hu] at hu'; cases hu'
      rw [hv] at hhead; cases hhead
      have hvm : (a.up g l).toP ∈ f en := by
        have := routed_last g hres addrs en a (by rw [hen2]; exact ha1) ha2 l hl
        simp only [f]
        exact List.mem_map.2 ⟨a.up g l, List.mem_of_mem_getLast? this, rfl⟩
      exact ⟨f en, by rw [hrf]; exact List.mem_map.2 ⟨en, henm, rfl⟩, hu'm, hvm⟩

end Texel
