import Texel.Gen.Hits
import Texel.Model.SnapF
/-! # "This ring passes that pixel more than once" is decided by the current source as the model says

`Texel.Gen.Hits.step` is regenerated on every run by `trgen hits` from `pointindex.checkPointHits` (the function only touches the two lists of the
vertex at hand: the rings that hit it once, the rings that hit it more than once). `gen_hits`: after any sequence of hits of one vertex by rings
`hs`, ring `r` is in the first list iff it hit the vertex at least once and in the second iff it hit it at least twice — the closed form
`isHitF` of the model (`C18_flags_exact`, `splitRing`'s cut points). Core-only. -/
namespace Texel.GenHits
open Texel

/-- the two lists of one vertex after the hits `hs` (ring ids, in the order of the calls) -/
def run (hs : List Nat) : List Nat × List Nat := hs.foldl (fun s r => Gen.Hits.step s.1 s.2 r) ([], [])

def Inv (o m pre : List Nat) : Prop := ∀ r, (r ∈ o ↔ 1 ≤ pre.count r) ∧ (r ∈ m ↔ 2 ≤ pre.count r)

theorem count_snoc (pre : List Nat) (r r' : Nat) : (pre ++ [r]).count r' = pre.count r' + (if r' = r then 1 else 0) := by
  rw [List.count_append, List.count_singleton]
  by_cases e : r' = r
  · subst e; simp
  · have : ¬ (r = r') := fun x => e x.symm
    simp [e, this]

/-- a ring that had not hit the vertex yet is added to the first list -/
theorem inv_first (o m pre : List Nat) (r : Nat) (h : Inv o m pre) (h0 : pre.count r = 0) : Inv (o ++ [r]) m (pre ++ [r]) := by
  intro r'
  obtain ⟨h1, h2⟩ := h r'
  rw [count_snoc]
  by_cases e : r' = r
  · subst e
    simp only [if_true, List.mem_append, List.mem_singleton, or_true, true_iff]
    refine ⟨by omega, ⟨fun hm => by have := h2.1 hm; omega, fun hh => by omega⟩⟩
  · simp only [e, if_false, Nat.add_zero, List.mem_append, List.mem_singleton, or_false]
    exact ⟨h1, h2⟩

/-- a ring that had hit the vertex exactly once is added to the second list -/
theorem inv_second (o m pre : List Nat) (r : Nat) (h : Inv o m pre) (h1c : pre.count r = 1) : Inv o (m ++ [r]) (pre ++ [r]) := by
  intro r'
  obtain ⟨h1, h2⟩ := h r'
  rw [count_snoc]
  by_cases e : r' = r
  · subst e
    simp only [if_true, List.mem_append, List.mem_singleton, or_true, true_iff]
    refine ⟨⟨fun _ => by omega, fun _ => h1.2 (by omega)⟩, by omega⟩
  · simp only [e, if_false, Nat.add_zero, List.mem_append, List.mem_singleton, or_false]
    exact ⟨h1, h2⟩

/-- a ring that had hit the vertex twice or more changes nothing -/
theorem inv_more (o m pre : List Nat) (r : Nat) (h : Inv o m pre) (h2c : 2 ≤ pre.count r) : Inv o m (pre ++ [r]) := by
  intro r'
  obtain ⟨h1, h2⟩ := h r'
  rw [count_snoc]
  by_cases e : r' = r
  · subst e
    simp only [if_true]
    exact ⟨⟨fun _ => by omega, fun _ => h1.2 (by omega)⟩, ⟨fun _ => by omega, fun _ => h2.2 h2c⟩⟩
  · simp only [e, if_false, Nat.add_zero]
    exact ⟨h1, h2⟩

theorem step_inv (o m pre : List Nat) (r : Nat) (h : Inv o m pre) :
    Inv (Gen.Hits.step o m r).1 (Gen.Hits.step o m r).2 (pre ++ [r]) := by
  obtain ⟨hr1, hr2⟩ := h r
  unfold Gen.Hits.step
  by_cases ho : r ∈ o
  · have hlen : o.length > 0 := by
      cases o with
      | nil => cases ho
      | cons a as => simp
    have hoc : o.contains r = true := by simpa using ho
    simp only [hlen, decide_true, if_true, hoc, Bool.not_true, Bool.false_eq_true, if_false]
    by_cases hm : r ∈ m
    · have hmc : m.contains r = true := by simpa using hm
      simp only [hmc, Bool.not_true, Bool.false_eq_true, if_false]
      exact inv_more o m pre r h (hr2.1 hm)
    · have hmc : m.contains r = false := by simpa using hm
      simp only [hmc, Bool.not_false, if_true]
      have c1 := hr1.1 ho
      have c2 : ¬ (2 ≤ pre.count r) := fun hh => hm (hr2.2 hh)
      exact inv_second o m pre r h (by omega)
  · have c0 : pre.count r = 0 := by
      have : ¬ (1 ≤ pre.count r) := fun hh => ho (hr1.2 hh)
      omega
    have hoc : o.contains r = false := by simpa using ho
    by_cases hlen : o.length > 0
    · simp only [hlen, decide_true, if_true, hoc, Bool.not_false]
      exact inv_first o m pre r h c0
    · simp only [hlen, decide_false, Bool.false_eq_true, if_false]
      exact inv_first o m pre r h c0

theorem foldl_inv (hs : List Nat) (o m pre : List Nat) (h : Inv o m pre) :
    Inv (hs.foldl (fun s r => Gen.Hits.step s.1 s.2 r) (o, m)).1 (hs.foldl (fun s r => Gen.Hits.step s.1 s.2 r) (o, m)).2 (pre ++ hs) := by
  induction hs generalizing o m pre with
  | nil => simpa using h
  | cons r rest ih =>
    simp only [List.foldl_cons]
    have := ih _ _ (pre ++ [r]) (step_inv o m pre r h)
    simpa [List.append_assoc] using this

/-- **after the hits `hs` of one vertex, ring `r` is flagged "more than once" iff it hit the vertex at least twice** (and listed iff at least once) -/
theorem gen_hits (hs : List Nat) (r : Nat) : (r ∈ (run hs).1 ↔ 1 ≤ hs.count r) ∧ (r ∈ (run hs).2 ↔ 2 ≤ hs.count r) := by
  have := foldl_inv hs [] [] [] (by intro r; simp) r
  simpa [run] using this

/-- the model's closed form: with the hits of ring `r` on the pixels `hits` (and any hits by other rings in between), pixel `p` is flagged for ring `r`
exactly when `isHitF hits p` -/
theorem gen_isHitF (hits : List P) (p : P) (r : Nat) (hs : List Nat) (hcount : hs.count r = hits.count p) :
    decide (r ∈ (run hs).2) = isHitF hits p := by
  unfold isHitF
  rw [← hcount]
  by_cases h : 2 ≤ hs.count r
  · simp [h, (gen_hits hs r).2.2 h]
  · have : r ∉ (run hs).2 := fun hm => h ((gen_hits hs r).2.1 hm)
    simp [h, this]

-- non-vacuity: ring 3 hits once, ring 5 three times, ring 3 again: both flagged; ring 7 once: listed, not flagged
example : run [3, 5, 5, 5, 3, 7] = ([3, 5, 7], [5, 3]) := by decide

end Texel.GenHits
