import Texel.Proofs.Route1
namespace Texel

/-! Level induction: `snapLevel` returns exactly the hot quadrants met, in travel order. -/

theorem span_succ (g : Grid) (l : Nat) (hl : l < g.depth) : g.span l = 2 * g.span (l + 1) := by
  unfold Grid.span
  have : g.depth - l = (g.depth - (l + 1)) + 1 := by omega
  rw [this, pow_succ]; ring

/-- the child box of the `Parent` view is the grid box of the child address -/
theorem parent_child_box (g : Grid) (l : Nat) (hl : l < g.depth) (p : Quad) (q : Nat) (hq : q < 4) :
    (g.parent l p).child q = g.box (l + 1) (p.child q) := by
  have hs := span_succ g l hl
  unfold Grid.parent Grid.box Quad.child
  interval_cases q <;> simp [Parent.child] <;> (rw [hs]; push_cast; refine ⟨?_, ?_, ?_, ?_⟩ <;> ring)

theorem meetsAt_mono (L : Seg) (B B' : Box) (t : ℚ)
    (h : B.minX ≤ B'.minX ∧ B'.maxX ≤ B.maxX ∧ B.minY ≤ B'.minY ∧ B'.maxY ≤ B.maxY) (m : MeetsAt L B' t) : MeetsAt L B t := by
  obtain ⟨h0, h1, a, b, c, d⟩ := m
  obtain ⟨i1, i2, i3, i4⟩ := h
  have j1 : (B.minX : ℚ) ≤ B'.minX := by exact_mod_cast i1
  have j2 : (B'.maxX : ℚ) ≤ B.maxX := by exact_mod_cast i2
  have j3 : (B.minY : ℚ) ≤ B'.minY := by exact_mod_cast i3
  have j4 : (B'.maxY : ℚ) ≤ B.maxY := by exact_mod_cast i4
  exact ⟨h0, h1, by linarith, by linarith, by linarith, by linarith⟩

theorem child_box_sub (g : Grid) (l : Nat) (hl : l < g.depth) (hres : 0 < g.res) (p : Quad) (q : Nat) (hq : q < 4) :
    let B := g.box l p; let B' := g.box (l + 1) (p.child q)
    B.minX ≤ B'.minX ∧ B'.maxX ≤ B.maxX ∧ B.minY ≤ B'.minY ∧ B'.maxY ≤ B.maxY := by
  have hs := span_succ g l hl
  have hpos : 0 < g.span (l + 1) := by unfold Grid.span; positivity
  intro B B'
  simp only [B, B', Grid.box, Quad.child]
  rw [hs]
  interval_cases q <;> simp <;> push_cast <;> refine ⟨?_, ?_, ?_, ?_⟩ <;> nlinarith


/-- every hot quadrant below level 1 has a hot parent (what `insertCoord` establishes) -/
def HotClosed (depth : Nat) (hot : Nat → Quad → Bool) : Prop :=
  ∀ l c, 1 ≤ l → l + 1 ≤ depth → hot (l + 1) c = true → hot l ⟨c.x / 2, c.y / 2⟩ = true

def Found (g : Grid) (hot : Nat → Quad → Bool) (L : Seg) (l : Nat) (p : Quad) : Prop :=
  p.x < 2 ^ l ∧ p.y < 2 ^ l ∧ (l = 0 ∨ hot l p = true) ∧ Meets L (g.box l p)

theorem child_bits (q : Nat) (hq : q < 4) : (q &&& 1) = q % 2 ∧ ((q >>> 1) &&& 1) = q / 2 := by
  interval_cases q <;> decide

theorem child_of_parent (c : Quad) :
    ∃ q, q < 4 ∧ (⟨c.x / 2, c.y / 2⟩ : Quad).child q = c := by
  refine ⟨c.x % 2 + 2 * (c.y % 2), by omega, ?_⟩
  have hb := child_bits (c.x % 2 + 2 * (c.y % 2)) (by omega)
  unfold Quad.child
  rw [hb.1, hb.2]
  cases c with
  | mk x y => simp only [Quad.mk.injEq]; constructor <;> omega

theorem child_lt (p : Quad) (q l : Nat) (hq : q < 4) (hx : p.x < 2 ^ l) (hy : p.y < 2 ^ l) :
    (p.child q).x < 2 ^ (l + 1) ∧ (p.child q).y < 2 ^ (l + 1) := by
  have hb := child_bits q hq
  unfold Quad.child
  simp only
  rw [hb.1, hb.2, pow_succ]
  constructor <;> omega

theorem child_parent (p : Quad) (q : Nat) (hq : q < 4) : ((p.child q).x / 2 = p.x) ∧ ((p.child q).y / 2 = p.y) := by
  have hb := child_bits q hq
  unfold Quad.child
  simp only
  rw [hb.1, hb.2]
  constructor <;> omega

theorem snapLevel_spec (li : Seg → Box → Bool) (g : Grid) (hot : Nat → Quad → Bool) (L : Seg)
    (hli : ∀ B, li L B = true ↔ Meets L B) (hres : 0 < g.res) (hclosed : HotClosed g.depth hot) :
    ∀ l, l ≤ g.depth →
      (∀ p, p ∈ snapLevel li g hot L l ↔ Found g hot L l p) ∧
      (snapLevel li g hot L l).Pairwise (fun a b => Precedes L (g.box l a) (g.box l b)) := by
  intro l
  induction l with
  | zero =>
    intro _
    unfold snapLevel
    constructor
    · intro p
      by_cases h : li L (g.box 0 ⟨0, 0⟩) = true
      · simp only [h, if_true, List.mem_singleton]
        constructor
        · rintro rfl; exact ⟨by simp, by simp, Or.inl rfl, (hli _).1 h⟩
        · rintro ⟨hx, hy, _, _⟩
          cases p with
          | mk x y => simp at hx hy; simp [hx, hy]
      · simp only [h, Bool.false_eq_true, if_false, List.not_mem_nil, false_iff]
        rintro ⟨hx, hy, _, hm⟩
        cases p with
        | mk x y =>
          simp at hx hy; subst hx; subst hy
          exact h ((hli _).2 hm)
    · by_cases h : li L (g.box 0 ⟨0, 0⟩) = true <;> simp [h]
  | succ l ih =>
    intro hl
    have hl' : l < g.depth := by omega
    obtain ⟨ihm, ihp⟩ := ih (by omega)
    unfold snapLevel
    have spec := fun p => fiq_spec li L (fun q => hot (l + 1) (p.child q)) (g.parent l p) hli
    constructor
    · intro c
      simp only [List.mem_flatMap, List.mem_map]
      constructor
      · rintro ⟨p, hp, q, hq, rfl⟩
        obtain ⟨hq4, hhot, hm⟩ := ((spec p).1 q).1 hq
        obtain ⟨px, py, _, _⟩ := (ihm p).1 hp
        have hlt := child_lt p q l hq4 px py
        rw [parent_child_box g l hl' p q hq4] at hm
        exact ⟨hlt.1, hlt.2, Or.inr hhot, hm⟩
      · rintro ⟨cx, cy, hh, hm⟩
        obtain ⟨q, hq4, hcq⟩ := child_of_parent c
        have hhot : hot (l + 1) c = true := by
          rcases hh with h | h
          · omega
          · exact h
        refine ⟨⟨c.x / 2, c.y / 2⟩, ?_, q, ?_, hcq⟩
        · rw [ihm]
          refine ⟨?_, ?_, ?_, ?_⟩
          · rw [pow_succ] at cx; simp only; omega
          · rw [pow_succ] at cy; simp only; omega
          · by_cases h0 : l = 0
            · exact Or.inl h0
            · exact Or.inr (hclosed l c (by omega) hl hhot)
          · obtain ⟨t, mt⟩ := hm
            have hsub := child_box_sub g l hl' hres ⟨c.x / 2, c.y / 2⟩ q hq4
            (try dsimp only at hsub)
            rw [hcq] at hsub
            exact ⟨t, meetsAt_mono L _ _ t hsub mt⟩
        · rw [(spec _).1 q]
          refine ⟨hq4, ?_, ?_⟩
          · show hot (l + 1) ((⟨c.x / 2, c.y / 2⟩ : Quad).child q) = true; rw [hcq]; exact hhot
          · rw [parent_child_box g l hl' _ q hq4, hcq]; exact hm
    · rw [List.pairwise_flatMap]
      constructor
      · intro p hp
        rw [List.pairwise_map]
        have hpw := (spec p).2
        have hmem := (spec p).1
        refine List.Pairwise.imp_of_mem ?_ hpw
        intro a b ha hb hab
        have ha4 := ((hmem a).1 ha).1
        have hb4 := ((hmem b).1 hb).1
        rw [parent_child_box g l hl' p a ha4, parent_child_box g l hl' p b hb4] at hab
        exact hab
      · refine List.Pairwise.imp_of_mem ?_ ihp
        intro p p' hp hp' hpp c hc c' hc'
        simp only [List.mem_map] at hc hc'
        obtain ⟨q, hq, rfl⟩ := hc
        obtain ⟨q', hq', rfl⟩ := hc'
        have hq4 := (((spec p).1 q).1 hq).1
        have hq4' := (((spec p').1 q').1 hq').1
        have s1 := child_box_sub g l hl' hres p q hq4
        have s2 := child_box_sub g l hl' hres p' q' hq4'
        intro t₁ t₂ m1 m2
        exact hpp t₁ t₂ (meetsAt_mono L _ _ t₁ s1 m1) (meetsAt_mono L _ _ t₂ s2 m2)

#print axioms snapLevel_spec

end Texel
