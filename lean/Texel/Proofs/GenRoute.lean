import Texel.Proofs.GenLineInt
import Texel.Proofs.GenQuadrants
import Texel.Proofs.GenArith
/-! # The descent assembled from the translated pieces

`snapLevelSrc` is the level-by-level descent of `snapClosestPoints` in which the per-parent step, the pixel test and the containment test are the
definitions regenerated from the current source (`Gen.Quad.findIntersectingQuadrants`, `Gen.LI.lineIntersects`, `Gen.Arith.containsPoint`); only the
loop over the levels and the look-up of the children in the per-level maps are written by hand (as in `snapLevel`). `snapLevelSrc_eq`: it is the
model's `snapLevel lineIntersects`, for every grid, hot set, segment and level. Core-only. -/
namespace Texel.GenRoute
open Texel

/-- the pixel test of the source on a segment and a box -/
def liSrc (L : Seg) (B : Box) : Bool := Gen.LI.lineIntersects L.p1.x L.p1.y L.p2.x L.p2.y B.minX B.minY B.maxX B.maxY

/-- the containment test of the source -/
def cpSrc (p : Pt) (B : Box) : Bool := Gen.Arith.containsPoint p.x p.y B.minX B.minY B.maxX B.maxY

/-- the per-parent step of the source -/
def fiqSrc (L : Seg) (present : Nat → Bool) (P : Parent) : List Nat :=
  Gen.Quad.findIntersectingQuadrants L.p1.x L.p1.y L.p2.x L.p2.y P.centroid.x P.centroid.y (cpSrc L.p1 P.box) (cpSrc L.p2 P.box)
    (fun q => liSrc L (P.child q)) present

def snapLevelSrc (g : Grid) (hot : Nat → Quad → Bool) (L : Seg) : Nat → List Quad
  | 0 => if liSrc L (g.box 0 ⟨0, 0⟩) then [⟨0, 0⟩] else []
  | l + 1 => (snapLevelSrc g hot L l).flatMap fun p => (fiqSrc L (fun q => hot (l + 1) (p.child q)) (g.parent l p)).map p.child

theorem liSrc_eq : liSrc = lineIntersects := by
  funext L B; exact GenLineInt.gen_lineIntersects L B

theorem cpSrc_eq (p : Pt) (B : Box) : cpSrc p B = containsPoint p B := GenArith.gen_containsPoint p B

theorem fiqSrc_eq (L : Seg) (present : Nat → Bool) (P : Parent) : fiqSrc L present P = findIntersectingQuadrants lineIntersects L present P := by
  unfold fiqSrc
  rw [cpSrc_eq, cpSrc_eq, liSrc_eq]
  exact GenQuadrants.gen_findIntersectingQuadrants lineIntersects L present P

/-- **the descent assembled from the translated source is the model's descent** -/
theorem snapLevelSrc_eq (g : Grid) (hot : Nat → Quad → Bool) (L : Seg) (l : Nat) :
    snapLevelSrc g hot L l = snapLevel lineIntersects g hot L l := by
  induction l with
  | zero => simp [snapLevelSrc, snapLevel, liSrc_eq]
  | succ l ih =>
    simp only [snapLevelSrc, snapLevel, ih]
    congr 1
    funext p
    rw [fiqSrc_eq]

end Texel.GenRoute
