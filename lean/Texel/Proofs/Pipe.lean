import Texel.Model.Pipe
namespace Texel.Pipe

/-! Every step strictly decreases `mu`: all schedules are finite (no livelock). -/

theorem countNotDone_upd (w : TM → Bool) (tm : TM) (ts : List TM) (hnd : ts.Nodup) (hin : tm ∈ ts) (hw : w tm = false) :
    countNotDone (upd w tm true) ts + 1 = countNotDone w ts := by
  induction ts with
  | nil => simp at hin
  | cons t ts ih =>
    simp only [countNotDone]
    have hnd' := (List.nodup_cons.1 hnd)
    by_cases ht : t = tm
    · subst ht
      have hnot : t ∉ ts := hnd'.1
      have hsame : countNotDone (upd w t true) ts = countNotDone w ts := by
        clear ih hin hnd hnd'
        induction ts with
        | nil => rfl
        | cons u us ih2 =>
          simp only [countNotDone]
          have hu : u ≠ t := fun h => hnot (by simp [h])
          have : upd w t true u = w u := by simp [upd, hu]
          rw [this, ih2 (fun h => hnot (by simp [h]))]
      simp [upd, hw, hsame]; omega
    · have hin' : tm ∈ ts := by
        rcases List.mem_cons.1 hin with h | h
        · exact absurd h.symm ht
        · exact h
      have : upd w tm true t = w t := by simp [upd, ht]
      rw [this]
      have := ih hnd'.2 hin'
      omega

theorem step_decreases (c : Cfg) (hnd : c.targets.Nodup) (s s' : State) (a : Action) (h : step c s a = some s') :
    mu c s' < mu c s := by
  cases a with
  | readSend =>
    simp only [step] at h
    split at h
    · rename_i f rest hs hsn
      split at h
      · simp at h
      · simp only [Option.some.injEq] at h
        subst h
        simp only [mu, hs, hsn, srcW, snapW]
        by_cases he : ((c.deliver f).map (fun tm => (f, tm))).isEmpty = true
        · simp only [he, if_true, snapW]
          omega
        · simp only [he, Bool.false_eq_true, if_false, snapW, List.length_map]
          omega
    · simp at h
  | readClose =>
    simp only [step] at h
    split at h
    · rename_i hc
      simp only [Option.some.injEq] at h; subst h
      simp only [Bool.and_eq_true, Bool.not_eq_true'] at hc
      simp only [mu, hc.2]; simp
    · simp at h
  | snapSend k =>
    simp only [step] at h
    split at h
    · rename_i items hsn hr
      split at h
      · rename_i hk
        simp only [Option.some.injEq] at h; subst h
        simp only [mu, hsn, hr, snapW, routerW]
        have hl : (items.eraseIdx k).length = items.length - 1 := List.length_eraseIdx_of_lt hk
        by_cases he : (items.eraseIdx k).isEmpty = true
        · simp only [he, if_true, snapW]; omega
        · simp only [he, Bool.false_eq_true, if_false, snapW, hl]; omega
      · simp at h
    · simp at h
  | snapClose =>
    simp only [step] at h
    split at h
    · rename_i hsn
      split at h
      · simp only [Option.some.injEq] at h; subst h
        simp only [mu, hsn, snapW]; omega
      · simp at h
    · simp at h
  | routeSend =>
    simp only [step] at h
    split at h
    · rename_i it hr
      split at h
      · simp only [Option.some.injEq] at h; subst h
        simp only [mu, hr, routerW]; omega
      · simp at h
    · simp at h
  | routeStartClose =>
    simp only [step] at h
    split at h
    · rename_i hr hsn
      simp only [Option.some.injEq] at h; subst h
      simp only [mu, hr, routerW]; omega
    · simp at h
  | routeClose k =>
    simp only [step] at h
    split at h
    · rename_i todo hr
      split at h
      · rename_i hk
        simp only [Option.some.injEq] at h; subst h
        have hl : (todo.eraseIdx k).length = todo.length - 1 := List.length_eraseIdx_of_lt hk
        simp only [mu, hr, routerW, hl]; omega
      · simp at h
    · simp at h
  | routeWait =>
    simp only [step] at h
    split at h
    · rename_i hr
      simp only [Option.some.injEq] at h; subst h
      simp only [mu, hr, routerW, List.length_nil]; omega
    · simp at h
  | routeFinish =>
    simp only [step] at h
    split at h
    · rename_i hr
      split at h
      · simp only [Option.some.injEq] at h; subst h
        simp only [mu, hr, routerW]; omega
      · simp at h
    · simp at h
  | writerFinish tm =>
    simp only [step] at h
    split at h
    · rename_i hc
      simp only [Option.some.injEq] at h; subst h
      have := countNotDone_upd s.wDone tm c.targets hnd hc.1 hc.2.2
      simp only [mu]; omega
    · simp at h
  | mainReturn =>
    simp only [step] at h
    split at h
    · rename_i hr
      split at h
      · simp at h
      · rename_i hret
        simp only [Option.some.injEq] at h; subst h
        simp only [mu, hret]; simp
    · simp at h


/-! ## Safety: nothing is dropped, duplicated or reordered; return only after every target is done -/

def inSnap (s : State) (tm : TM) : List Item :=
  match s.snapper with
  | .pending items => items.filter (fun it => it.2 == tm)
  | _ => []

def inRouter (s : State) (tm : TM) : List Item :=
  match s.router with
  | .holding it => if it.2 == tm then [it] else []
  | _ => []

structure CfgOK (c : Cfg) : Prop where
  targetsNodup : c.targets.Nodup
  deliverNodup : ∀ f, (c.deliver f).Nodup
  deliverSub : ∀ f tm, tm ∈ c.deliver f → tm ∈ c.targets

structure PInv (c : Cfg) (fs : List Nat) (s : State) : Prop where
  flow : ∀ tm, s.received tm ++ inRouter s tm ++ inSnap s tm ++ expected c s.src tm = expected c fs tm
  pend : ∀ items, s.snapper = .pending items →
    (items.map (·.2)).Nodup ∧ items ≠ [] ∧ ∀ it ∈ items, it.2 ∈ c.targets
  hold : ∀ it, s.router = .holding it → it.2 ∈ c.targets
  ch1 : s.ch1Closed = true → s.src = []
  snapClosed : s.snapper = .closed → s.src = [] ∧ s.ch1Closed = true
  routerLate : (s.router ≠ .idle ∧ ∀ it, s.router ≠ .holding it) → s.snapper = .closed
  todo : ∀ todo, s.router = .closing todo →
    todo.Nodup ∧ (∀ tm ∈ todo, tm ∈ c.targets) ∧ (∀ tm, s.chClosed tm = true ↔ (tm ∈ c.targets ∧ tm ∉ todo))
  early : (s.router = .idle ∨ ∃ it, s.router = .holding it) → ∀ tm, s.chClosed tm = false
  late : (s.router = .waiting ∨ s.router = .done) → ∀ tm, s.chClosed tm = true ↔ tm ∈ c.targets
  doneCh : ∀ tm, s.wDone tm = true → s.chClosed tm = true
  routerDone : s.router = .done → ∀ tm ∈ c.targets, s.wDone tm = true
  ret : s.returned = true → s.router = .done

/-! ### list facts -/

theorem filter_map_pair (f : Nat) (tm : TM) (l : List TM) (hnd : l.Nodup) :
    (l.map (fun t => (f, t))).filter (fun it : Item => it.2 == tm) = if tm ∈ l then [(f, tm)] else [] := by
  induction l with
  | nil => simp
  | cons a as ih =>
    have hnd' := List.nodup_cons.1 hnd
    simp only [List.map_cons, List.filter_cons]
    by_cases h : a = tm
    · subst h
      have hnot : a ∉ as := hnd'.1
      simp [ih hnd'.2, hnot]
    · have h' : (a == tm) = false := by simpa using h
      simp only [h', Bool.false_eq_true, if_false, ih hnd'.2, List.mem_cons]
      have : (tm = a ∨ tm ∈ as) ↔ tm ∈ as := by
        constructor
        · rintro (hh | hh)
          · exact absurd hh.symm h
          · exact hh
        · exact Or.inr
      simp only [this]

theorem expected_cons (c : Cfg) (f : Nat) (fs : List Nat) (tm : TM) :
    expected c (f :: fs) tm = (if tm ∈ c.deliver f then [(f, tm)] else []) ++ expected c fs tm := by
  unfold expected
  by_cases h : tm ∈ c.deliver f <;> simp [List.filter_cons, h]

theorem filter_eraseIdx_other (l : List Item) (k : Nat) (hk : k < l.length) (tm : TM) (hne : l[k].2 ≠ tm) :
    (l.eraseIdx k).filter (fun it => it.2 == tm) = l.filter (fun it => it.2 == tm) := by
  induction l generalizing k with
  | nil => simp at hk
  | cons a as ih =>
    cases k with
    | zero =>
      simp only [List.getElem_cons_zero] at hne
      have : (a.2 == tm) = false := by simpa using hne
      simp [List.filter_cons, this]
    | succ k =>
      simp only [List.eraseIdx_cons_succ, List.filter_cons]
      simp only [List.getElem_cons_succ] at hne
      rw [ih k (by simpa using hk) hne]

theorem filter_eraseIdx_self (l : List Item) (k : Nat) (hk : k < l.length) (hnd : (l.map (·.2)).Nodup) :
    (l.eraseIdx k).filter (fun it => it.2 == l[k].2) = [] ∧ l.filter (fun it => it.2 == l[k].2) = [l[k]] := by
  induction l generalizing k with
  | nil => simp at hk
  | cons a as ih =>
    simp only [List.map_cons, List.nodup_cons] at hnd
    have hnone : ∀ it ∈ as, (it.2 == a.2) = false := by
      intro it hit
      have : it.2 ≠ a.2 := fun h => hnd.1 (by rw [← h]; exact List.mem_map_of_mem hit)
      simpa using this
    cases k with
    | zero =>
      simp only [List.getElem_cons_zero, List.eraseIdx_cons_zero, List.filter_cons, beq_self_eq_true, if_true]
      have : as.filter (fun it => it.2 == a.2) = [] := by
        rw [List.filter_eq_nil_iff]; intro it hit; simp [hnone it hit]
      exact ⟨this, by rw [this]⟩
    | succ k =>
      have hk' : k < as.length := by simpa using hk
      simp only [List.getElem_cons_succ, List.eraseIdx_cons_succ, List.filter_cons]
      have hne : (a.2 == as[k].2) = false := by
        have : a.2 ≠ as[k].2 := fun h => hnd.1 (by rw [h]; exact List.mem_map_of_mem (List.getElem_mem hk'))
        simpa using this
      simp only [hne, Bool.false_eq_true, if_false]
      exact ih k hk' hnd.2


theorem map_eraseIdx' {α β} (f : α → β) (l : List α) (k : Nat) : (l.eraseIdx k).map f = (l.map f).eraseIdx k := by
  induction l generalizing k with
  | nil => simp
  | cons a as ih =>
    cases k with
    | zero => simp
    | succ k => simp [ih]

theorem mem_eraseIdx_nodup {α} (l : List α) (k : Nat) (hk : k < l.length) (hnd : l.Nodup) (x : α) :
    x ∈ l.eraseIdx k ↔ x ∈ l ∧ x ≠ l[k] := by
  rw [List.mem_eraseIdx_iff_getElem]
  constructor
  · rintro ⟨i, hi, hne, rfl⟩
    exact ⟨List.getElem_mem hi, fun h => hne ((List.getElem_inj hnd).1 h)⟩
  · rintro ⟨hm, hne⟩
    obtain ⟨i, hi, rfl⟩ := List.mem_iff_getElem.1 hm
    exact ⟨i, hi, fun h => hne (by subst h; rfl), rfl⟩

/-! ### the invariant holds initially and is preserved by every step -/

theorem inv_init (c : Cfg) (fs : List Nat) : PInv c fs (init fs) := by
  refine ⟨?_, ?_, ?_, ?_, ?_, ?_, ?_, ?_, ?_, ?_, ?_, ?_⟩ <;> simp [init, inRouter, inSnap]

theorem inv_step (c : Cfg) (hc : CfgOK c) (fs : List Nat) (s s' : State) (a : Action)
    (inv : PInv c fs s) (h : step c s a = some s') : PInv c fs s' := by
  cases a with
  | readSend =>
    simp only [step] at h
    split at h
    · rename_i f rest hs hsn
      split at h
      · simp at h
      · simp only [Option.some.injEq] at h
        subst h
        have hflow := inv.flow
        have hearly := inv.early
        have hlate := inv.routerLate
        refine ⟨?_, ?_, ?_, ?_, ?_, ?_, ?_, ?_, ?_, ?_, ?_, ?_⟩
        · intro tm
          have := hflow tm
          rw [hs, expected_cons] at this
          simp only [inSnap, hsn] at this
          simp only [inRouter, inSnap] at this ⊢
          by_cases he : ((c.deliver f).map (fun tm => (f, tm))).isEmpty = true
          · have hnil : c.deliver f = [] := by simpa using he
            simp only [he, if_true]
            rw [← this]; simp [hnil]
          · simp only [he, Bool.false_eq_true, if_false]
            rw [filter_map_pair f tm _ (hc.deliverNodup f)]
            rw [← this]; simp [List.append_assoc]
        · intro items hit
          by_cases he : ((c.deliver f).map (fun tm => (f, tm))).isEmpty = true
          · simp [he] at hit
          · simp only [he, Bool.false_eq_true, if_false, Snapper.pending.injEq] at hit
            subst hit
            refine ⟨?_, ?_, ?_⟩
            · simpa [List.map_map, Function.comp_def] using hc.deliverNodup f
            · intro hn; exact he (by simp [hn])
            · intro it hit
              simp only [List.mem_map] at hit
              obtain ⟨tm, htm, rfl⟩ := hit
              exact hc.deliverSub f tm htm
        · exact inv.hold
        · intro hcl; rename_i hncl; exact absurd hcl hncl
        · intro hcl
          by_cases he : ((c.deliver f).map (fun tm => (f, tm))).isEmpty = true <;> simp [he] at hcl
        · intro hr
          have := hlate hr
          rw [hsn] at this; cases this
        · exact inv.todo
        · exact hearly
        · exact inv.late
        · exact inv.doneCh
        · exact inv.routerDone
        · exact inv.ret
    · simp at h
  | readClose =>
    simp only [step] at h
    split at h
    · rename_i hcond
      simp only [Option.some.injEq] at h; subst h
      simp only [Bool.and_eq_true, Bool.not_eq_true', List.isEmpty_iff] at hcond
      exact ⟨inv.flow, inv.pend, inv.hold, fun _ => hcond.1, fun hcl => ⟨hcond.1, rfl⟩, inv.routerLate, inv.todo, inv.early,
        inv.late, inv.doneCh, inv.routerDone, inv.ret⟩
    · simp at h
  | snapSend k =>
    simp only [step] at h
    split at h
    · rename_i items hsn hr
      split at h
      · rename_i hk
        simp only [Option.some.injEq] at h; subst h
        obtain ⟨pnd, pne, psub⟩ := inv.pend items hsn
        have hearly := inv.early (Or.inl hr)
        refine ⟨?_, ?_, ?_, ?_, ?_, ?_, ?_, ?_, ?_, ?_, ?_, ?_⟩
        · intro tm
          have := inv.flow tm
          simp only [inRouter, inSnap, hsn, hr] at this
          simp only [inRouter, inSnap]
          have hself := filter_eraseIdx_self items k hk pnd
          by_cases htm : items[k].2 = tm
          · subst htm
            have e1 : (match (if (items.eraseIdx k).isEmpty = true then Snapper.idle else Snapper.pending (items.eraseIdx k)) with
                | Snapper.pending items_1 => List.filter (fun it => it.2 == items[k].2) items_1
                | _ => []) = [] := by
              by_cases he : (items.eraseIdx k).isEmpty = true
              · simp [he]
              · simp [he, hself.1]
            rw [e1, ← this, hself.2]; simp
          · have hb : (items[k].2 == tm) = false := by simpa using htm
            have e1 : (match (if (items.eraseIdx k).isEmpty = true then Snapper.idle else Snapper.pending (items.eraseIdx k)) with
                | Snapper.pending items_1 => List.filter (fun it => it.2 == tm) items_1
                | _ => []) = items.filter (fun it => it.2 == tm) := by
              by_cases he : (items.eraseIdx k).isEmpty = true
              · have hnil : items.eraseIdx k = [] := by simpa using he
                simp only [he, if_true]
                rw [← filter_eraseIdx_other items k hk tm htm, hnil]; rfl
              · simp [he, filter_eraseIdx_other items k hk tm htm]
            rw [e1, ← this]; simp [hb]
        · intro items' hit
          by_cases he : (items.eraseIdx k).isEmpty = true
          · simp [he] at hit
          · simp only [he, Bool.false_eq_true, if_false, Snapper.pending.injEq] at hit
            subst hit
            refine ⟨?_, ?_, ?_⟩
            · have : (items.eraseIdx k).map (·.2) = (items.map (·.2)).eraseIdx k := by
                rw [map_eraseIdx']
              rw [this]; exact List.Nodup.eraseIdx k pnd
            · intro hn; exact he (by simp [hn])
            · intro it hit; exact psub it (List.mem_of_mem_eraseIdx hit)
        · intro it hit
          simp only [Router.holding.injEq] at hit; subst hit
          exact psub _ (List.getElem_mem hk)
        · exact inv.ch1
        · intro hcl
          by_cases he : (items.eraseIdx k).isEmpty = true <;> simp [he] at hcl
        · intro hrr; exact absurd rfl (hrr.2 items[k])
        · intro todo ht; simp at ht
        · intro _; exact hearly
        · intro hw; rcases hw with hw | hw <;> simp at hw
        · exact inv.doneCh
        · intro hd; simp at hd
        · intro hret; have := inv.ret hret; rw [hr] at this; cases this
      · simp at h
    · simp at h
  | snapClose =>
    simp only [step] at h
    split at h
    · rename_i hsn
      split at h
      · rename_i hcond
        simp only [Option.some.injEq] at h; subst h
        simp only [Bool.and_eq_true, List.isEmpty_iff] at hcond
        refine ⟨?_, ?_, inv.hold, inv.ch1, fun _ => ⟨hcond.2, hcond.1⟩, fun _ => rfl, inv.todo, inv.early, inv.late,
          inv.doneCh, inv.routerDone, inv.ret⟩
        · intro tm
          have := inv.flow tm
          simp only [inSnap, inRouter, hsn] at this
          simpa [inSnap, inRouter] using this
        · intro items hit; simp at hit
      · simp at h
    · simp at h
  | routeSend =>
    simp only [step] at h
    split at h
    · rename_i it hr
      split at h
      · rename_i hcond
        simp only [Option.some.injEq] at h; subst h
        have hearly := inv.early (Or.inr ⟨it, hr⟩)
        refine ⟨?_, inv.pend, ?_, inv.ch1, inv.snapClosed, ?_, ?_, fun _ => hearly, ?_, inv.doneCh, ?_, ?_⟩
        · intro tm
          have := inv.flow tm
          simp only [inRouter, inSnap, hr] at this
          simp only [inRouter, inSnap, upd]
          by_cases htm : tm = it.2
          · subst htm
            simp only [if_true]
            rw [← this]; simp
          · have hb : (it.2 == tm) = false := by simpa using (Ne.symm htm)
            simp only [htm, if_false]
            rw [← this]; simp [hb]
        · intro it' h'; simp at h'
        · intro hrr; exact absurd rfl hrr.1
        · intro todo ht; simp at ht
        · intro hw; rcases hw with hw | hw <;> simp at hw
        · intro hd; simp at hd
        · intro hret; have := inv.ret hret; rw [hr] at this; cases this
      · simp at h
    · simp at h
  | routeStartClose =>
    simp only [step] at h
    split at h
    · rename_i hr hsn
      simp only [Option.some.injEq] at h; subst h
      have hearly := inv.early (Or.inl hr)
      refine ⟨?_, inv.pend, ?_, inv.ch1, inv.snapClosed, fun _ => hsn, ?_, ?_, ?_, inv.doneCh, ?_, ?_⟩
      · intro tm
        have := inv.flow tm
        simp only [inRouter, inSnap, hr] at this
        simpa [inRouter, inSnap] using this
      · intro it h'; simp at h'
      · intro todo ht
        simp only [Router.closing.injEq] at ht; subst ht
        refine ⟨hc.targetsNodup, fun tm h => h, ?_⟩
        intro tm
        simp [hearly tm]
      · intro hw; rcases hw with hw | ⟨it, hw⟩ <;> simp at hw
      · intro hw; rcases hw with hw | hw <;> simp at hw
      · intro hd; simp at hd
      · intro hret; have := inv.ret hret; rw [hr] at this; cases this
    · simp at h
  | routeClose k =>
    simp only [step] at h
    split at h
    · rename_i todo hr
      split at h
      · rename_i hk
        simp only [Option.some.injEq] at h; subst h
        obtain ⟨tnd, tsub, tcl⟩ := inv.todo todo hr
        have hlate := inv.routerLate ⟨by rw [hr]; simp, by intro it; rw [hr]; simp⟩
        refine ⟨?_, inv.pend, ?_, inv.ch1, inv.snapClosed, fun _ => hlate, ?_, ?_, ?_, ?_, ?_, ?_⟩
        · intro tm
          have := inv.flow tm
          simp only [inRouter, inSnap, hr] at this
          simpa [inRouter, inSnap] using this
        · intro it h'; simp at h'
        · intro todo' ht
          simp only [Router.closing.injEq] at ht; subst ht
          refine ⟨List.Nodup.eraseIdx k tnd, fun tm h => tsub tm (List.mem_of_mem_eraseIdx h), ?_⟩
          intro tm
          simp only [upd]
          by_cases htm : tm = todo[k]
          · subst htm
            simp only [if_true, true_iff]
            refine ⟨tsub _ (List.getElem_mem hk), ?_⟩
            intro hmem
            exact ((mem_eraseIdx_nodup todo k hk tnd _).1 hmem).2 rfl
          · simp only [htm, if_false]
            rw [tcl tm]
            constructor
            · rintro ⟨h1, h2⟩; exact ⟨h1, fun hm => h2 (List.mem_of_mem_eraseIdx hm)⟩
            · rintro ⟨h1, h2⟩
              exact ⟨h1, fun hm => h2 ((mem_eraseIdx_nodup todo k hk tnd _).2 ⟨hm, htm⟩)⟩
        · intro hw; rcases hw with hw | ⟨it, hw⟩ <;> simp at hw
        · intro hw; rcases hw with hw | hw <;> simp at hw
        · intro tm hd
          have := inv.doneCh tm hd
          simp only [upd]; by_cases htm : tm = todo[k] <;> simp [htm, this]
        · intro hd; simp at hd
        · intro hret; have := inv.ret hret; rw [hr] at this; cases this
      · simp at h
    · simp at h
  | routeWait =>
    simp only [step] at h
    split at h
    · rename_i hr
      simp only [Option.some.injEq] at h; subst h
      obtain ⟨_, _, tcl⟩ := inv.todo [] hr
      have hlate := inv.routerLate ⟨by rw [hr]; simp, by intro it; rw [hr]; simp⟩
      refine ⟨?_, inv.pend, ?_, inv.ch1, inv.snapClosed, fun _ => hlate, ?_, ?_, ?_, inv.doneCh, ?_, ?_⟩
      · intro tm
        have := inv.flow tm
        simp only [inRouter, inSnap, hr] at this
        simpa [inRouter, inSnap] using this
      · intro it h'; simp at h'
      · intro todo ht; simp at ht
      · intro hw; rcases hw with hw | ⟨it, hw⟩ <;> simp at hw
      · intro _ tm; rw [tcl tm]; simp
      · intro hd; simp at hd
      · intro hret; have := inv.ret hret; rw [hr] at this; cases this
    · simp at h
  | routeFinish =>
    simp only [step] at h
    split at h
    · rename_i hr
      split at h
      · rename_i hall
        simp only [Option.some.injEq] at h; subst h
        have hlate := inv.routerLate ⟨by rw [hr]; simp, by intro it; rw [hr]; simp⟩
        have hl := inv.late (Or.inl hr)
        refine ⟨?_, inv.pend, ?_, inv.ch1, inv.snapClosed, fun _ => hlate, ?_, ?_, fun _ => hl, inv.doneCh, ?_, ?_⟩
        · intro tm
          have := inv.flow tm
          simp only [inRouter, inSnap, hr] at this
          simpa [inRouter, inSnap] using this
        · intro it h'; simp at h'
        · intro todo ht; simp at ht
        · intro hw; rcases hw with hw | ⟨it, hw⟩ <;> simp at hw
        · intro _ tm htm
          exact (List.all_eq_true.1 hall) tm htm
        · intro _; rfl
      · simp at h
    · simp at h
  | writerFinish tm =>
    simp only [step] at h
    split at h
    · rename_i hcond
      simp only [Option.some.injEq] at h; subst h
      refine ⟨inv.flow, inv.pend, inv.hold, inv.ch1, inv.snapClosed, inv.routerLate, inv.todo, inv.early, inv.late, ?_, ?_, inv.ret⟩
      · intro tm' hd
        simp only [upd] at hd
        by_cases h' : tm' = tm
        · subst h'; exact hcond.2.1
        · simp only [h', if_false] at hd; exact inv.doneCh tm' hd
      · intro hd tm' htm'
        simp only [upd]
        by_cases h' : tm' = tm
        · simp [h']
        · simp only [h', if_false]; exact inv.routerDone hd tm' htm'
    · simp at h
  | mainReturn =>
    simp only [step] at h
    split at h
    · rename_i hr
      split at h
      · simp at h
      · simp only [Option.some.injEq] at h; subst h
        exact ⟨inv.flow, inv.pend, inv.hold, inv.ch1, inv.snapClosed, inv.routerLate, inv.todo, inv.early, inv.late,
          inv.doneCh, inv.routerDone, fun _ => hr⟩
    · simp at h


/-! ### consequences -/

theorem inv_run (c : Cfg) (hc : CfgOK c) (fs : List Nat) (sched : List Action) :
    ∀ s s', PInv c fs s → run c s sched = some s' → PInv c fs s' := by
  induction sched with
  | nil => intro s s' inv h; simp only [run, Option.some.injEq] at h; subst h; exact inv
  | cons a as ih =>
    intro s s' inv h
    simp only [run] at h
    split at h
    · rename_i s1 hs1; exact ih s1 s' (inv_step c hc fs s s1 a inv hs1) h
    · simp at h

/-- C11 (return only after every target is done) and C10 (each target got exactly its expected sequence):
    in every state reachable under any schedule in which `ProcessFeatures` has returned. -/
theorem C11_return_after (c : Cfg) (hc : CfgOK c) (fs : List Nat) (sched : List Action) (s : State)
    (h : run c (init fs) sched = some s) (hret : s.returned = true) :
    ∀ tm ∈ c.targets, s.wDone tm = true ∧ s.received tm = expected c fs tm := by
  have inv := inv_run c hc fs sched _ _ (inv_init c fs) h
  have hr := inv.ret hret
  have hsn := inv.routerLate ⟨by rw [hr]; simp, by intro it; rw [hr]; simp⟩
  have hsrc := (inv.snapClosed hsn).1
  intro tm htm
  refine ⟨inv.routerDone hr tm htm, ?_⟩
  have := inv.flow tm
  simp only [inRouter, inSnap, hr, hsn, hsrc] at this
  simpa [expected] using this

/-- C10 as a prefix property at every moment: what a target has received is always a prefix of what it must receive. -/
theorem C10_prefix (c : Cfg) (hc : CfgOK c) (fs : List Nat) (sched : List Action) (s : State)
    (h : run c (init fs) sched = some s) (tm : TM) : ∃ rest, s.received tm ++ rest = expected c fs tm := by
  have inv := inv_run c hc fs sched _ _ (inv_init c fs) h
  exact ⟨inRouter s tm ++ inSnap s tm ++ expected c s.src tm, by simpa [List.append_assoc] using inv.flow tm⟩

/-- C11 (no deadlock): every reachable state in which `ProcessFeatures` has not returned can take a step. -/
theorem C11_progress (c : Cfg) (hc : CfgOK c) (fs : List Nat) (sched : List Action) (s : State)
    (h : run c (init fs) sched = some s) (hret : s.returned = false) : ∃ a s', step c s a = some s' := by
  have inv := inv_run c hc fs sched _ _ (inv_init c fs) h
  -- the router decides
  cases hr : s.router with
  | holding it =>
    refine ⟨.routeSend, ?_⟩
    have hearly := inv.early (Or.inr ⟨it, hr⟩)
    have hnd : s.wDone it.2 = false := by
      cases hw : s.wDone it.2 with
      | false => rfl
      | true => have := inv.doneCh _ hw; rw [hearly] at this; cases this
    simp [step, hr, inv.hold it hr, hearly it.2, hnd]
  | closing todo =>
    cases todo with
    | nil => exact ⟨.routeWait, by simp [step, hr]⟩
    | cons t ts => exact ⟨.routeClose 0, by simp [step, hr]⟩
  | waiting =>
    by_cases hall : c.targets.all (fun tm => s.wDone tm) = true
    · exact ⟨.routeFinish, by simp [step, hr, hall]⟩
    · have hall' : c.targets.all (fun tm => s.wDone tm) = false := by simpa using hall
      obtain ⟨tm, htm, hnd⟩ := List.all_eq_false.1 hall' 
      have hcl := (inv.late (Or.inl hr) tm).2 htm
      refine ⟨.writerFinish tm, ?_⟩
      have : s.wDone tm = false := by simpa using hnd
      simp [step, htm, hcl, this]
  | done => exact ⟨.mainReturn, by simp [step, hr, hret]⟩
  | idle =>
    cases hsn : s.snapper with
    | closed => exact ⟨.routeStartClose, by simp [step, hr, hsn]⟩
    | pending items =>
      obtain ⟨_, pne, _⟩ := inv.pend items hsn
      have : 0 < items.length := List.length_pos_iff.2 pne
      exact ⟨.snapSend 0, by simp [step, hr, hsn, this]⟩
    | idle =>
      cases hsrc : s.src with
      | cons f rest =>
        have hcl : s.ch1Closed = false := by
          cases hcc : s.ch1Closed with
          | false => rfl
          | true => have := inv.ch1 hcc; rw [hsrc] at this; cases this
        exact ⟨.readSend, by simp [step, hsrc, hsn, hcl]⟩
      | nil =>
        cases hcc : s.ch1Closed with
        | false => exact ⟨.readClose, by simp [step, hsrc, hcc]⟩
        | true => exact ⟨.snapClose, by simp [step, hsn, hcc, hsrc]⟩

#print axioms C11_return_after
#print axioms C10_prefix
#print axioms C11_progress

end Texel.Pipe
