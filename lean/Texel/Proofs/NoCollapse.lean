import Texel.Model.SplitF
import Texel.Model.SnapF
/-! What the ring clean-up does to a routed chain on which nothing collapses: nothing. `kmpDeduplicate` is the identity on a ring that never
returns to the vertex before the previous one (`NoABA`), `splitRing` returns the ring itself when no vertex is flagged as visited twice. -/
namespace Texel

/-- the ring never goes a → b → a -/
def NoABA (ring : Array P) : Prop := ∀ k, k + 2 < ring.size → ring[k]! ≠ ring[k + 2]!

theorem getE_ok {α} [Inhabited α] (a : Array α) (i : Nat) (h : i < a.size) : getE a (i : Int) = .ok a[i]! := by
  unfold getE
  have : (0 : Int) ≤ (i : Int) ∧ (i : Int) < (a.size : Int) := ⟨Int.natCast_nonneg _, by exact_mod_cast h⟩
  rw [if_pos this]; simp

theorem extract_get! (ring : Array P) (k j : Nat) (hj : j < k) (hk : k ≤ ring.size) : (ring.extract 0 k)[j]! = ring[j]! := by
  have h1 : j < (ring.extract 0 k).size := by simp; omega
  have h2 : j < ring.size := by omega
  rw [getElem!_pos (ring.extract 0 k) j h1, getElem!_pos ring j h2]
  simp [Array.getElem_extract]

theorem extract_push (ring : Array P) (k : Nat) (hk : k < ring.size) : (ring.extract 0 k).push ring[k]! = ring.extract 0 (k + 1) := by
  apply Array.ext
  · simp; omega
  · intro i h1 h2
    have hsize : (ring.extract 0 k).size = k := by simp; omega
    simp only [Array.size_push, hsize] at h1
    by_cases hik : i < k
    · rw [Array.getElem_push_lt (by rw [hsize]; exact hik)]; simp
    · have : i = k := by omega
      subst this
      simp [Array.getElem_push, hsize, getElem!_pos ring i hk]

/-- one step of `kmpDeduplicate` on a prefix without a → b → a just appends the vertex -/
theorem kmpStep_push (ring : Array P) (k : Nat) (hk : k < ring.size) (seqs : SeqMap) (hno : NoABA ring) :
    kmpStep ring ⟨(k : Int), ring.extract 0 k, seqs⟩ = .ok ⟨((k + 1 : Nat) : Int), ring.extract 0 (k + 1), seqs⟩ := by
  unfold kmpStep
  simp only [bind, Except.bind]
  rw [getE_ok ring k hk]
  simp only
  have hsize : (ring.extract 0 k).size = k := by simp; omega
  have hcond : (decide ((ring.extract 0 k).size ≤ 1) || (ring.extract 0 k)[(ring.extract 0 k).size - 2]! != ring[k]!) = true := by
    rw [hsize]
    by_cases h1 : k ≤ 1
    · simp [h1]
    · have h2 : 2 ≤ k := by omega
      have hidx : (ring.extract 0 k)[k - 2]! = ring[k - 2]! := extract_get! ring k (k - 2) (by omega) (by omega)
      rw [hidx]
      have := hno (k - 2) (by omega)
      have e : k - 2 + 2 = k := by omega
      rw [e] at this
      simp [this]
  rw [if_pos hcond]
  simp only [pure, Except.pure, Except.ok.injEq, KState.mk.injEq]
  exact ⟨by omega, extract_push ring k hk, trivial⟩

theorem kmpLoop_id (ring : Array P) (hno : NoABA ring) : ∀ (m k fuel : Nat), k + m = ring.size → m < fuel →
    kmpLoop ring fuel ⟨(k : Int), ring.extract 0 k, {}⟩ = .ok {} := by
  intro m
  induction m with
  | zero =>
    intro k fuel hk hf
    cases fuel with
    | zero => omega
    | succ f =>
      unfold kmpLoop
      have : ¬ ((k : Int) < (ring.size : Int)) := by omega
      simp only [this, if_false]
  | succ m ih =>
    intro k fuel hk hf
    cases fuel with
    | zero => omega
    | succ f =>
      unfold kmpLoop
      have hlt : (k : Int) < (ring.size : Int) := by omega
      simp only [hlt, if_true]
      rw [kmpStep_push ring k (by omega) {} hno]
      simp only [bind, Except.bind]
      exact ih (k + 1) f (by omega) (by omega)

/-- **spike removal leaves a ring without a → b → a alone** -/
theorem kmpDeduplicateF_id (ring : Array P) (hno : NoABA ring) : kmpDeduplicateF ring = .ok ring := by
  unfold kmpDeduplicateF
  have h0 : (⟨0, #[], {}⟩ : KState) = ⟨((0 : Nat) : Int), ring.extract 0 0, {}⟩ := by simp
  rw [h0, kmpLoop_id ring hno ring.size 0 _ (by omega) (by
    have h1 : ring.size ≤ ring.size * (ring.size + 2) := Nat.le_mul_of_pos_right _ (by omega)
    have h2 : 4 * ring.size * (ring.size + 2) = 4 * (ring.size * (ring.size + 2)) := Nat.mul_assoc _ _ _
    omega)]
  simp only [bind, Except.bind]
  show removeSeqsF ring [] 0 = .ok ring
  unfold removeSeqsF sliceE
  simp

/-! ### `splitRing` when no vertex is flagged -/

theorem splitStep_plain (isHit : P → Bool) (pre : List P) (vi : Nat) (v : P) (hv : isHit v = false) :
    splitStep isHit ⟨0, [(0, pre)], []⟩ vi v false = .ok ⟨0, [(0, pre ++ [v])], []⟩ := by
  unfold splitStep stack1Of
  simp [hv, sGet, sSet]

theorem splitStep_close (isHit : P → Bool) (first : P) (rest : List P) (vi : Nat) (hv : isHit first = false) :
    splitStep isHit ⟨0, [(0, first :: rest)], []⟩ vi first true = .ok ⟨0, [], [(0, first :: rest)]⟩ := by
  unfold splitStep stack1Of
  simp only [hv, Bool.not_false, Bool.or_true, Bool.not_true, Bool.and_false, sGet, sSet]
  simp only [List.find?, beq_self_eq_true, Option.map_some, ite_true, Option.getD_some]
  have hne : (first :: rest) ++ [first] = first :: (rest ++ [first]) := rfl
  rw [hne]
  simp only [Bool.false_eq_true, if_false]
  unfold closeOrMerge
  have hclosed : (first :: (rest ++ [first])).head? = (first :: (rest ++ [first])).getLast? := by
    have : first :: (rest ++ [first]) = (first :: rest) ++ [first] := rfl
    rw [this, List.getLast?_concat]; rfl
  rw [if_pos hclosed]
  simp only [sDelete]
  have hdl : (first :: (rest ++ [first])).dropLast = first :: rest := by
    have : first :: (rest ++ [first]) = (first :: rest) ++ [first] := rfl
    rw [this, List.dropLast_concat]
  simp [hdl]

theorem splitLoop_plain (isHit : P → Bool) (lastv : P) : ∀ (rest pre : List P) (vi : Nat), (∀ v ∈ rest, isHit v = false) →
    splitLoop isHit (rest ++ [lastv]) vi ⟨0, [(0, pre)], []⟩ = splitStep isHit ⟨0, [(0, pre ++ rest)], []⟩ (vi + rest.length) lastv true := by
  intro rest
  induction rest with
  | nil => intro pre vi _; simp [splitLoop]
  | cons v r ih =>
    intro pre vi h
    have hsplit : (v :: r) ++ [lastv] = v :: (r ++ [lastv]) := rfl
    rw [hsplit]
    cases hr : r ++ [lastv] with
    | nil => simp at hr
    | cons a t =>
      unfold splitLoop
      rw [splitStep_plain isHit pre vi v (h v List.mem_cons_self)]
      simp only [bind, Except.bind]
      rw [← hr, ih (pre ++ [v]) (vi + 1) (fun x hx => h x (List.mem_cons_of_mem _ hx))]
      simp only [List.append_assoc, List.singleton_append, List.length_cons]
      congr 1; omega

/-- **`splitRing` returns the ring itself when none of its vertices is flagged as visited twice** -/
theorem splitRingF_plain (ring : List P) (isOuter : Bool) (isHit : P → Bool) (hne : ring ≠ []) (h : ∀ v ∈ ring, isHit v = false) :
    splitRingF ring isOuter isHit = .ok (classify isOuter [ring]) := by
  cases ring with
  | nil => exact absurd rfl hne
  | cons first rest =>
    unfold splitRingF
    simp only
    have := splitLoop_plain isHit first (first :: rest) [] 0 h
    have hinit : ({} : SplitState) = ⟨0, [(0, [])], []⟩ := rfl
    rw [hinit, this, List.nil_append, splitStep_close isHit first rest _ (h first List.mem_cons_self)]
    simp only [bind, Except.bind, pure, Except.pure]
    have hcs : completeSorted [(0, first :: rest)] = [first :: rest] := by
      unfold completeSorted dedupStep
      simp [List.mergeSort]
    rw [hcs]

/-! ### a routed chain on which nothing collapses comes back as it is -/

theorem nodup_noABA (chain : List P) (h : chain.Nodup) : NoABA chain.toArray := by
  intro k hk
  simp only [List.size_toArray] at hk
  have h1 : k < chain.length := by omega
  have h2 : k + 2 < chain.length := hk
  rw [getElem!_pos chain.toArray k (by simpa using h1), getElem!_pos chain.toArray (k + 2) (by simpa using h2)]
  simp only [List.getElem_toArray]
  intro heq
  have := (List.getElem_inj h).1 heq
  omega

theorem nodup_head_ne_last (chain : List P) (h : chain.Nodup) (hl : 2 ≤ chain.length) : (chain.head? == chain.getLast?) = false := by
  cases chain with
  | nil => simp at hl
  | cons a t =>
    cases t with
    | nil => simp at hl
    | cons b t' =>
      rw [List.getLast?_cons_cons]
      simp only [List.head?_cons]
      have hmem : (b :: t').getLast (by simp) ∈ b :: t' := List.getLast_mem _
      have hne : a ≠ (b :: t').getLast (by simp) := by
        intro heq
        have := (List.nodup_cons.1 h).1
        rw [heq] at this
        exact this hmem
      rw [List.getLast?_eq_some_getLast (by simp)]
      simp [hne]

/-- **the ring clean-up returns a chain on which nothing collapses unchanged**: a chain of at least three distinct pixels none of which is
flagged as visited twice goes through `cleanupNewRing` (closing duplicate, spike removal, ring splitting) as one ring, classified by its
orientation only -/
theorem cleanupNewRingF_plain (chain : List P) (isOuter : Bool) (isHit : P → Bool) (hnd : chain.Nodup) (hlen : 3 ≤ chain.length)
    (hhit : ∀ v ∈ chain, isHit v = false) : cleanupNewRingF chain isOuter isHit = .ok (classify isOuter [chain]) := by
  unfold cleanupNewRingF
  have h1 : (decide (chain.length > 1) && chain.head? == chain.getLast?) = false := by
    rw [nodup_head_ne_last chain hnd (by omega)]; simp
  simp only [h1, Bool.false_eq_true, if_false, bind, Except.bind, pure, Except.pure]
  rw [if_neg (by omega), kmpDeduplicateF_id chain.toArray (nodup_noABA chain hnd)]
  simp only [List.size_toArray]
  rw [if_neg (by omega)]
  exact splitRingF_plain chain isOuter isHit (by intro h; rw [h] at hlen; simp at hlen) hhit

/-- **C02, second sentence, ring by ring**: a ring whose routed chain visits no pixel twice (neither the chain nor the list of hits has a
duplicate) and has at least three pixels comes back from the clean-up as exactly that chain — one ring, nothing removed, nothing added -/
theorem processRing_plain (g : Grid) (hot : Nat → Quad → Bool) (l : Nat) (isOuter : Bool) (ring : List Pt) (chain : List P)
    (hj : joinChain (routeRing g hot l (normaliseRing ring (!isOuter))) = some chain)
    (hnd : chain.Nodup) (hlen : 3 ≤ chain.length) (hhits : (ringHits (routeRing g hot l (normaliseRing ring (!isOuter)))).Nodup) :
    processRing g hot l isOuter ring = .ok (classify isOuter [chain]) := by
  unfold processRing
  simp only [hj]
  apply cleanupNewRingF_plain chain isOuter _ hnd hlen
  intro v _
  unfold isHitF
  have := (List.nodup_iff_count.1 hhits) v
  simp only [decide_eq_false_iff_not, Nat.not_le]
  omega

/-- one ring of at least three vertices is classified as one shell part (outer ring) or one hole part (inner ring), turned round when it
runs the wrong way -/
theorem classify_single (isOuter : Bool) (c : List P) (hlen : 3 ≤ c.length) :
    classify isOuter [c] =
      (if isOuter then { outers := #[if windingOK c.toArray false then c.toArray else c.toArray.reverse] }
       else { inners := #[if windingOK c.toArray true then c.toArray else c.toArray.reverse] } : Split) := by
  unfold classify
  have h3 : ¬ c.length < 3 := by omega
  cases isOuter with
  | true =>
    cases hw : windingOK c.toArray false <;> simp [h3, hw]
  | false =>
    cases hw : windingOK c.toArray true <;> simp [h3, hw]

/-! ### a polygon without holes on which nothing collapses -/

theorem dedupeToDelete_single (c : Array P) : dedupeToDelete #[c] #[] = .ok #[] := by
  unfold dedupeToDelete
  simp [Std.Legacy.Range.forIn_eq_forIn_range', Std.Legacy.Range.size]
  rfl

theorem assembleCore_single (c : Array P) (pls : Array (Array P)) : assembleCore { outers := #[c], inners := #[], pls := pls } = .ok #[#[c]] := by
  unfold assembleCore dedupeF
  simp only [dedupeToDelete_single, bind, Except.bind, pure, Except.pure]
  simp [matchF]

/-- **C02 (second sentence) for a polygon without holes**: if the routed chain of its ring has at least three pixels and visits no pixel
twice, the tile matrix carries exactly one polygon with exactly one ring: that chain, counter-clockwise (clockwise under the reverse
flag) — whatever the keep option says -/
theorem processLevel_plain (g : Grid) (hot : Nat → Quad → Bool) (cfg : Config) (l : Nat) (ring : List Pt) (chain : List P)
    (hj : joinChain (routeRing g hot l (normaliseRing ring false)) = some chain)
    (hnd : chain.Nodup) (hlen : 3 ≤ chain.length) (hhits : (ringHits (routeRing g hot l (normaliseRing ring false))).Nodup) :
    processLevel g hot cfg l [ring] = .ok (some #[#[
      let oc := if windingOK chain.toArray false then chain.toArray else chain.toArray.reverse
      if cfg.reverse then oc.reverse else oc]]) := by
  have hp := processRing_plain g hot l true ring chain (by simpa using hj) hnd hlen (by simpa using hhits)
  rw [classify_single true chain hlen] at hp
  simp only [if_true] at hp
  unfold processLevel levelAcc
  simp only [bind, Except.bind, hp, processHoles, pure, Except.pure]
  have hne : ¬ ((#[if windingOK chain.toArray false = true then chain.toArray else chain.toArray.reverse] : Array (Array P)).size = 0 ∧
      (cfg.keep = false ∨ (#[] : Array (Array P)).size = 0)) := by simp
  simp only [hne, if_false]
  unfold assembleLevel Acc.add
  simp only [Array.empty_append, bind, Except.bind]
  have hpls : (if cfg.keep = true then (#[] : Array (Array P)) else #[]) = #[] := by split <;> rfl
  rw [hpls, assembleCore_single]
  simp only [pure, Except.pure, finishLevel, reversePolys]
  cases cfg.reverse <;> simp

end Texel
