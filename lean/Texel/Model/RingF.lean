import Texel.Model.Ring
namespace Texel

/-! Functional (proof-friendly) versions of `RemoveSequences` and the outer loop of `kmpDeduplicate`, with the
    vertex-subset theorem (C04a at ring level). The inner search functions are reused unchanged: the theorem does
    not depend on what they return. -/

/-- `RemoveSequences`: keep `s[keepFrom:keepTo]` before every range, then the tail -/
def removeSeqsF (s : Array P) : List (Array P × (Int × Int)) → Int → Except String (Array P)
  | [], keepFrom => sliceE s keepFrom s.size
  | e :: es, keepFrom => do
    let part ← sliceE s keepFrom e.2.1
    let rest ← removeSeqsF s es e.2.2
    return part ++ rest

theorem sliceE_mem {α} (a : Array α) (lo hi : Int) (out : Array α) (h : sliceE a lo hi = .ok out) :
    ∀ v ∈ out, v ∈ a := by
  unfold sliceE at h
  split at h
  · simp only [Except.ok.injEq] at h
    subst h
    intro v hv
    obtain ⟨k, hk, rfl⟩ := Array.mem_extract_iff_getElem.1 hv
    exact Array.getElem_mem _
  · simp at h

theorem removeSeqsF_mem (s : Array P) (es : List (Array P × (Int × Int))) (k : Int) (out : Array P)
    (h : removeSeqsF s es k = .ok out) : ∀ v ∈ out, v ∈ s := by
  induction es generalizing k out with
  | nil => exact sliceE_mem s k s.size out h
  | cons e es ih =>
    simp only [removeSeqsF, bind, Except.bind] at h
    split at h
    · simp at h
    · rename_i part hpart
      split at h
      · simp at h
      · rename_i rest hrest
        simp only [pure, Except.pure, Except.ok.injEq] at h
        subst h
        intro v hv
        rcases Array.mem_append.1 hv with hv | hv
        · exact sliceE_mem _ _ _ _ hpart v hv
        · exact ih _ _ hrest v hv

/-- loop state of `kmpDeduplicate` -/
structure KState where
  i : Int
  visited : Array P
  seqs : SeqMap

/-- one iteration of the outer `for i := 0; i < ringLen;` loop (same text as in `Ring.kmpDeduplicate`) -/
def kmpStep (ring : Array P) (st : KState) : Except String KState := do
  let ringLen : Int := ring.size
  let i := st.i
  let visited := st.visited
  let vertex ← getE ring i
  if visited.size ≤ 1 || visited[visited.size - 2]! != vertex then
    return { st with visited := visited.push vertex, i := i + 1 }
  let mut reverseSegment : Array P := #[visited[visited.size - 1]!, visited[visited.size - 2]!]
  for j in [3 : visited.size + 1] do
    let nextI := i + ((j : Int) - 2)
    if nextI ≤ ringLen - 1 then
      let rv ← getE ring nextI
      if visited[visited.size - j]! == rv then
        reverseSegment := reverseSegment.push visited[visited.size - j]!
      else break
    else break
  let segment := reverseSegment.reverse
  let segLen : Int := segment.size
  let start := i - segLen
  let mut end_ := start + 3 * segLen
  let mut k : Nat := 0
  let mut corpus ← sliceE ring start (min end_ ringLen)
  let mut fuel2 := ring.size + 4
  while true do
    if fuel2 = 0 then throw "fuel(corpus)"
    fuel2 := fuel2 - 1
    let mut stop := false
    for v in (← sliceE corpus k corpus.size) do
      if !segment.contains v then
        stop := true
        break
    if end_ > ringLen then stop := true
    if stop then break
    k := corpus.size
    corpus := corpus ++ (← sliceE ring end_ (min (end_ + 2 * segLen) ringLen))
    end_ := end_ + 2 * segLen
  let mtchs ← kmpSearchAll corpus segment
  let reverseMatches ← kmpSearchAll corpus reverseSegment
  let nm : Int := mtchs.size
  let nr : Int := reverseMatches.size
  if nm > 1 && nm - nr == 1 then
    let sequenceEnd := start + (mtchs[mtchs.size - 1]! : Int) + segLen
    return { i := sequenceEnd, visited := #[], seqs := st.seqs.insert segment (start + segLen, sequenceEnd) }
  else if nm > 1 && nm == nr then
    let sequenceEnd := start + (mtchs[mtchs.size - 1]! : Int) + segLen
    return { i := sequenceEnd, visited := #[], seqs := st.seqs.insert segment (start + 2 * segLen - 1, sequenceEnd) }
  else if nm == 1 && nr == 1 then
    return { st with i := start + 2 * segLen - 1, visited := #[] }
  else
    let mut sequenceEnd : Int := 0
    let mut endPointIdx : Int := 0
    if nr > nm then
      sequenceEnd := start + 2 * (segLen - 1) * nm
      endPointIdx := start + (reverseMatches[reverseMatches.size - 1]! : Int) + segLen
    else if nm > 1 && nm - nr > 1 then
      sequenceEnd := start + 2 * (segLen - 1) * nr
      endPointIdx := start + (mtchs[mtchs.size - 1]! : Int) + segLen
    return { i := endPointIdx - 1, visited := #[], seqs := st.seqs.insert segment (start, sequenceEnd) }

def kmpLoop (ring : Array P) : Nat → KState → Except String SeqMap
  | 0, _ => .error "fuel(kmpDeduplicate)"
  | fuel + 1, st => if st.i < ring.size then (kmpStep ring st) >>= kmpLoop ring fuel else .ok st.seqs

def kmpDeduplicateF (ring : Array P) : Except String (Array P) :=
  (kmpLoop ring (4 * ring.size * (ring.size + 2) + 16) ⟨0, #[], {}⟩) >>= fun seqs => removeSeqsF ring seqs.entries.toList 0

/-- C04a at ring level: spike removal never invents a vertex -/
theorem kmpDeduplicateF_mem (ring out : Array P) (h : kmpDeduplicateF ring = .ok out) : ∀ v ∈ out, v ∈ ring := by
  unfold kmpDeduplicateF at h
  simp only [bind, Except.bind] at h
  split at h
  · simp at h
  · exact removeSeqsF_mem ring _ 0 out h

#print axioms kmpDeduplicateF_mem

theorem sliceE_toList {α} (a : Array α) (lo hi : Int) (out : Array α) (h : sliceE a lo hi = .ok out) :
    0 ≤ lo ∧ lo ≤ hi ∧ hi ≤ a.size ∧ out.toList = (a.toList.drop lo.toNat).take (hi.toNat - lo.toNat) := by
  unfold sliceE at h
  split at h
  · rename_i hc
    simp only [Except.ok.injEq] at h
    subst h
    refine ⟨hc.1, hc.2.1, hc.2.2, ?_⟩
    simp [List.extract_eq_take_drop]
  · simp at h

/-- `RemoveSequences` on ranges that each run forward (`from ≤ to`): what comes back is a sublist of the ring from `keepFrom` on —
    nothing is repeated, nothing reordered. (That consecutive ranges do not overlap is forced by the slice bounds: an overlapping
    pair makes the Go code panic, the model raise an error.) -/
theorem removeSeqsF_sublist (s : Array P) (es : List (Array P × (Int × Int))) (k : Int) (out : Array P)
    (h : removeSeqsF s es k = .ok out) (hfw : ∀ e ∈ es, e.2.1 ≤ e.2.2) :
    out.toList.Sublist (s.toList.drop k.toNat) := by
  induction es generalizing k out with
  | nil =>
    obtain ⟨_, _, _, hl⟩ := sliceE_toList s k s.size out h
    rw [hl]; exact List.take_sublist _ _
  | cons e es ih =>
    simp only [removeSeqsF, bind, Except.bind] at h
    split at h
    · simp at h
    · rename_i part hpart
      split at h
      · simp at h
      · rename_i rest hrest
        simp only [pure, Except.pure, Except.ok.injEq] at h
        subst h
        obtain ⟨h0, hle, _, hl⟩ := sliceE_toList s k e.2.1 part hpart
        have hr := ih e.2.2 rest hrest (fun e' he' => hfw e' (List.mem_cons_of_mem _ he'))
        have hf := hfw e List.mem_cons_self
        rw [Array.toList_append, hl]
        have hsplit : s.toList.drop k.toNat = (s.toList.drop k.toNat).take (e.2.1.toNat - k.toNat) ++ s.toList.drop e.2.1.toNat := by
          conv => lhs; rw [← List.take_append_drop (e.2.1.toNat - k.toNat) (s.toList.drop k.toNat)]
          rw [List.drop_drop]
          congr 2
          omega
        refine List.Sublist.trans ?_ (hsplit ▸ List.Sublist.refl _ : List.Sublist (List.take (e.2.1.toNat - k.toNat) (s.toList.drop k.toNat) ++ s.toList.drop e.2.1.toNat) (s.toList.drop k.toNat))
        apply List.Sublist.append (List.Sublist.refl _)
        refine hr.trans ?_
        have : e.2.2.toNat = e.2.1.toNat + (e.2.2.toNat - e.2.1.toNat) := by omega
        rw [this, ← List.drop_drop]
        exact List.drop_sublist _ _

theorem removeSeqsF_count (s : Array P) (es : List (Array P × (Int × Int))) (out : Array P)
    (h : removeSeqsF s es 0 = .ok out) (hfw : ∀ e ∈ es, e.2.1 ≤ e.2.2) (v : P) :
    out.toList.count v ≤ s.toList.count v := by
  have := removeSeqsF_sublist s es 0 out h hfw
  simpa using this.count_le v

/-- the ranges `kmpDeduplicate` hands to `RemoveSequences` for this ring all run forward (`from ≤ to`); `true` when the loop itself raises.
    Evaluated by the driver on every ring of the `kmp` stream (hypothesis `KmpRangesForward`). -/
def rangesForwardB (ring : Array P) : Bool :=
  match kmpLoop ring (4 * ring.size * (ring.size + 2) + 16) ⟨0, #[], {}⟩ with
  | .ok seqs => seqs.entries.toList.all fun e => decide (e.2.1 ≤ e.2.2)
  | .error _ => true

end Texel
