/-! # Texel.Model.TmsJson — decoding and encoding of tile matrix set documents (`tms20`) (core-only, executable)

A model of `TileMatrixSet.UnmarshalJSON` / `MarshalJSON` with their helpers (`unmarshalCRS`, `unmarshalTileMatrices`,
`TileMatrix.UnmarshalJSONFromMap`, `TwoDPoint`, `CornerOfOrigin`, `TwoDBoundingBox`) together with the behaviour of the libraries they
lean on as far as it decides accept/reject and the decoded value: marshmallow's kind checks (`null` leaves a field at its zero
value), the `validate` struct tags (`required`, `min`, `max`, `gt`, `uri`, `omitnil`, `len`, `dive`), the float → `uint`
conversion (truncation; negative numbers wrap around and then fail `max`), `strconv.ParseInt` for ids.
JSON numbers are exact decimals `m · 10^-e`; sub-trees the code keeps verbatim (`wkt`, `referenceSystem`) are kept verbatim. -/
namespace Texel.TJ

structure Num where
  m : Int
  e : Nat
deriving DecidableEq, Repr

inductive J where
  | null
  | bool (b : Bool)
  | num (n : Num)
  | str (s : String)
  | arr (xs : List J)
  | obj (kvs : List (String × J))

instance : Inhabited J := ⟨.null⟩

def lookup (k : String) : List (String × J) → Option J
  | [] => none
  | (k', v) :: rest => if k' = k then some v else lookup k rest

abbrev E := Except String

/-! ### values -/

structure VMW where
  coalesce : Nat
  minRow : Nat
  maxRow : Nat
deriving DecidableEq, Repr

structure TM where
  id : String
  title : String
  description : String
  keywords : List String
  scaleDenominator : Num
  cellSize : Num
  corner : String                -- "" (absent), "topLeft" or "bottomLeft"
  origin : Num × Num
  tileWidth : Nat
  tileHeight : Nat
  matrixWidth : Nat
  matrixHeight : Nat
  vmw : List VMW
deriving DecidableEq, Repr

inductive CRS where
  | uri (description : String) (uri : String) (asString : Bool)
  | wkt (description : String) (wkt : List (String × J))        -- the `wkt` object is kept verbatim (`originalWKT`)
  | refsys (description : String) (referenceSystem : List (String × J))

structure BBox where
  lowerLeft : Num × Num
  upperRight : Num × Num
  orderedAxes : List String
  crs : CRS

structure TMS where
  id : String
  title : String
  description : String
  keywords : List String
  uri : String
  orderedAxes : Option (List String)
  crs : CRS
  wkss : String
  bbox : Option BBox
  matrices : List (Int × TM)       -- the map, as the list sorted by key that `MarshalJSON` produces

/-! ### numbers -/

def Num.pos (q : Num) : Bool := decide (0 < q.m)
def Num.isZero (q : Num) : Bool := decide (q.m = 0)

/-- Go's `uint(float64)`: truncation; a number ≤ -1 wraps around to something above every `max` bound: `none` -/
def Num.toUint (q : Num) : Option Nat :=
  if q.m < 0 then (if (-q.m) / (10 ^ q.e : Nat) ≥ 1 then none else some 0)
  else some (q.m / (10 ^ q.e : Nat)).toNat

def maxU : Nat := 4294967295

/-! ### kind checks of marshmallow: `null` (and absence) leaves the zero value -/

def getStr (kvs : List (String × J)) (k : String) : E String :=
  match lookup k kvs with
  | none => .ok ""
  | some .null => .ok ""
  | some (.str s) => .ok s
  | some _ => .error s!"expected type string in {k}"

def strList : List J → E (List String)
  | [] => .ok []
  | .str s :: rest => do let r ← strList rest; return s :: r
  | .null :: rest => do let r ← strList rest; return "" :: r        -- `null` leaves the element at its zero value
  | _ :: _ => .error "expected type string"

/-- `[]string`: absent/null ↦ none (a nil slice), an array of strings otherwise -/
def getStrs (kvs : List (String × J)) (k : String) : E (Option (List String)) :=
  match lookup k kvs with
  | none => .ok none
  | some .null => .ok none
  | some (.arr xs) => do let r ← strList xs; return some r
  | some _ => .error s!"expected type array in {k}"

def getNum (kvs : List (String × J)) (k : String) : E (Option Num) :=
  match lookup k kvs with
  | none => .ok none
  | some .null => .ok none
  | some (.num q) => .ok (some q)
  | some _ => .error s!"expected type number in {k}"

/-- a `uint` field with `required,min=lo,max=4294967295` -/
def getUintReq (kvs : List (String × J)) (k : String) (lo : Nat) : E Nat := do
  match ← getNum kvs k with
  | none => .error s!"{k}: required"
  | some q =>
    match q.toUint with
    | none => .error s!"{k}: max"
    | some 0 => .error s!"{k}: required"
    | some v => if v < lo then .error s!"{k}: min" else if v > maxU then .error s!"{k}: max" else .ok v

/-- a `uint` field with `min=0,max=4294967295` (not required) -/
def getUintOpt (kvs : List (String × J)) (k : String) : E Nat := do
  match ← getNum kvs k with
  | none => .ok 0
  | some q =>
    match q.toUint with
    | none => .error s!"{k}: max"
    | some v => if v > maxU then .error s!"{k}: max" else .ok v

/-- a `float64` field with `required,gt=0` -/
def getPosNum (kvs : List (String × J)) (k : String) : E Num := do
  match ← getNum kvs k with
  | none => .error s!"{k}: required"
  | some q => if q.pos then .ok q else .error s!"{k}: required/gt"

/-- `TwoDPoint`: exactly two numbers -/
def point : J → E (Num × Num)
  | .arr [.num a, .num b] => .ok (a, b)
  | _ => .error "TwoDPoint"

/-! ### combinators (so that `decode` is one flat chain of binds) -/

/-- a key that may be absent -/
def optField {α} (kvs : List (String × J)) (k : String) (f : J → E α) : E (Option α) :=
  match lookup k kvs with
  | none => .ok none
  | some j => (f j).map some

/-- a key that must be present -/
def reqField {α} (kvs : List (String × J)) (k : String) (err : String) (f : J → E α) : E α :=
  match lookup k kvs with
  | none => .error err
  | some j => f j

def check (ok : Bool) (err : String) : E Unit := if ok then .ok () else .error err

def required {α} (x : Option α) (err : String) : E α :=
  match x with
  | some a => .ok a
  | none => .error err

/-- `validate:"required,gt=0"` on a float64 -/
def validPos (q : Option Num) (k : String) : E Num :=
  match q with
  | some q => if q.pos then .ok q else .error s!"{k}: required/gt"
  | none => .error s!"{k}: required"

/-- `validate:"required,min=1,max=4294967295"` on a uint filled from a JSON number -/
def validUint (q : Option Num) (k : String) : E Nat :=
  match q with
  | none => .error s!"{k}: required"
  | some q => match q.toUint with
    | none => .error s!"{k}: max"
    | some 0 => .error s!"{k}: required"
    | some v => if v > maxU then .error s!"{k}: max" else .ok v

/-! ### URIs -/

def isSchemeChar (c : Char) : Bool := c.isAlphanum || c == '+' || c == '-' || c == '.'

/-- `validator`'s `uri`: strip a fragment, non-empty, then `url.ParseRequestURI` — an absolute path or something with a scheme -/
def isURI (s : String) : Bool :=
  let cs := (s.toList.takeWhile (· ≠ '#'))
  match cs with
  | [] => false
  | '/' :: _ => true
  | c :: _ =>
    let scheme := cs.takeWhile (· ≠ ':')
    c.isAlpha && scheme.length < cs.length && scheme.all isSchemeChar && !(cs.any fun ch => ch == ' ' || ch.toNat < 0x20 || ch.toNat == 0x7f)

def splitOnChar (c : Char) (cs : List Char) : List (List Char) :=
  cs.foldr (fun ch acc => if ch = c then [] :: acc else match acc with | [] => [[ch]] | h :: t => (ch :: h) :: t) [[]]

def isInfixOf (p : List Char) : List Char → Bool
  | [] => p.isEmpty
  | l@(_ :: t) => p.isPrefixOf l || isInfixOf p t

/-- the two regular expressions of `URICRS`: `https?://.+/def/crs/A/V/C$` (A, C non-empty, no `/`) or `^urn:ogc:def:crs:A:V:C$` -/
def crsUriOK (s : String) : Bool :=
  let cs := s.toList
  let segs := (splitOnChar '/' cs).reverse
  let url := match segs with
    | c :: _v :: a :: crs :: defn :: restRev =>
      !c.isEmpty && !a.isEmpty && crs == "crs".toList && defn == "def".toList &&
      (let pre := (String.intercalate "/" (restRev.reverse.map String.ofList)).toList
       -- `https?://.+` somewhere in the prefix, with at least one character after the `//`
       (isInfixOf "http://".toList pre.dropLast || isInfixOf "https://".toList pre.dropLast))
    | _ => false
  let urn := match splitOnChar ':' cs with
    | [u, o, d, c, a, _v, code] => u == "urn".toList && o == "ogc".toList && d == "def".toList && c == "crs".toList && !a.isEmpty && !code.isEmpty
    | _ => false
  url || urn

/-! ### CRS -/

/-- `ProjJSON`: `id` (if present and not null) must be an object whose `authority` and `code` (if present) are strings -/
def projJsonOK (kvs : List (String × J)) : Bool :=
  match lookup "id" kvs with
  | none => true
  | some .null => true
  | some (.obj idk) => (getStr idk "authority").toBool && (getStr idk "code").toBool
  | some _ => false

def crsOfObj (kvs : List (String × J)) (asString : Bool) : E CRS :=
  -- the description is decoded first by every variant: a wrong kind fails all three
  match getStrStrict kvs "description" with
  | .error e => .error e
  | .ok desc =>
    let tryUri : Option CRS := match lookup "uri" kvs with
      | some (.str u) => if crsUriOK u then some (.uri desc u asString) else none
      | _ => none
    match tryUri with
    | some c => .ok c
    | none =>
      match lookup "wkt" kvs with
      | some (.obj w) => if projJsonOK w then .ok (.wkt desc w) else tryRef kvs desc
      | _ => tryRef kvs desc
where
  /-- `rawDescription.(string)`: present ⇒ must be a string (null is not) -/
  getStrStrict (kvs : List (String × J)) (k : String) : E String :=
    match lookup k kvs with
    | none => .ok ""
    | some (.str s) => .ok s
    | some _ => .error "description property is not a string"
  tryRef (kvs : List (String × J)) (desc : String) : E CRS :=
    match lookup "referenceSystem" kvs with
    | some (.obj r) => .ok (.refsys desc r)
    | _ => .error "could not unmarshal crs into any CRS type"

def decodeCRS : J → E CRS
  | .str s => crsOfObj [("uri", .str s)] true
  | .obj kvs => crsOfObj kvs false
  | _ => .error "wrong type key crs"

/-! ### tile matrices -/

def decodeVMW : J → E VMW
  | .obj kvs => do
    let c ← getUintReq kvs "coalesce" 2
    let lo ← getUintOpt kvs "minTileRow"
    let hi ← getUintOpt kvs "maxTileRow"
    return ⟨c, lo, hi⟩
  | _ => .error "expected type object in variableMatrixWidths"

def decodeVMWs : List J → E (List VMW)
  | [] => .ok []
  | x :: rest => do let v ← decodeVMW x; let r ← decodeVMWs rest; return v :: r

/-- `strconv.ParseInt(s, 10, 64)` -/
def parseInt64 (s : String) : Option Int :=
  let cs := s.toList
  let (neg, ds) := match cs with
    | '-' :: r => (true, r)
    | '+' :: r => (false, r)
    | r => (false, r)
  if ds.isEmpty || !ds.all Char.isDigit then none
  else
    let n : Int := ds.foldl (fun acc c => acc * 10 + ((c.toNat - '0'.toNat : Nat) : Int)) 0
    let v := if neg then -n else n
    if v < -9223372036854775808 ∨ v > 9223372036854775807 then none else some v

def decodeCorner (kvs : List (String × J)) : E String :=
  match lookup "cornerOfOrigin" kvs with
  | none => .ok ""
  | some (.str "") => .ok "topLeft"
  | some (.str "topLeft") => .ok "topLeft"
  | some (.str "bottomLeft") => .ok "bottomLeft"
  | some _ => .error "CornerOfOrigin"

def vmwField : J → E (List VMW)
  | .null => .ok []
  | .arr xs => decodeVMWs xs
  | _ => .error "expected type array in variableMatrixWidths"

def idKey (id : String) : E Int :=
  match parseInt64 id with
  | none => .error "only integer-like ids are supported for tile matrices"
  | some k => .ok k

def decodeTM : J → E (Int × TM)
  | .obj kvs => do
    let id ← getStr kvs "id"
    let title ← getStr kvs "title"
    let desc ← getStr kvs "description"
    let kw ← getStrs kvs "keywords"
    let sdq ← getNum kvs "scaleDenominator"
    let csq ← getNum kvs "cellSize"
    let corner ← decodeCorner kvs
    let origin ← optField kvs "pointOfOrigin" point
    let twq ← getNum kvs "tileWidth"
    let thq ← getNum kvs "tileHeight"
    let mwq ← getNum kvs "matrixWidth"
    let mhq ← getNum kvs "matrixHeight"
    let vmw ← optField kvs "variableMatrixWidths" vmwField
    -- validate.Struct, in field order
    check (id ≠ "") "ID: required"
    let sd ← validPos sdq "scaleDenominator"
    let cs ← validPos csq "cellSize"
    let org ← required origin "PointOfOrigin: required"
    let tw ← validUint twq "tileWidth"
    let th ← validUint thq "tileHeight"
    let mw ← validUint mwq "matrixWidth"
    let mh ← validUint mhq "matrixHeight"
    let k ← idKey id
    return (k, ⟨id, title, desc, kw.getD [], sd, cs, corner, org, tw, th, mw, mh, vmw.getD []⟩)
  | _ => .error "tileMatrices should be objects"

/-- insertion into the Go map (a later duplicate key overwrites), kept sorted by key as `MarshalJSON` lists it -/
def insertTM (k : Int) (tm : TM) : List (Int × TM) → List (Int × TM)
  | [] => [(k, tm)]
  | (k', t') :: rest => if k < k' then (k, tm) :: (k', t') :: rest else if k = k' then (k, tm) :: rest else (k', t') :: insertTM k tm rest

def decodeTMs : List J → List (Int × TM) → E (List (Int × TM))
  | [], acc => .ok acc
  | x :: rest, acc => do let (k, tm) ← decodeTM x; decodeTMs rest (insertTM k tm acc)

/-! ### bounding box and document -/

/-- `omitempty,len=2`: a nil slice is skipped, any other (also the empty one) must have length 2 -/
def bboxAxes (axes : Option (List String)) : E (List String) :=
  match axes with
  | none => .ok []
  | some ax => if ax.length = 2 then .ok ax else .error "OrderedAxes: len"

def decodeBBox : J → E BBox
  | .obj kvs => do
    let ll ← optField kvs "lowerLeft" point
    let ur ← optField kvs "upperRight" point
    let axes ← getStrs kvs "orderedAxes"
    let crs ← reqField kvs "crs" "missing key crs" decodeCRS
    let ll ← required ll "LowerLeft: required"
    let ur ← required ur "UpperRight: required"
    let ax ← bboxAxes axes
    return ⟨ll, ur, ax, crs⟩
  | _ => .error "missing key crs"

def matricesField : J → E (List (Int × TM))
  | .arr xs => decodeTMs xs []
  | _ => .error "tileMatrices should be an array"

def decode : J → E TMS
  | .obj kvs => do
    let id ← getStr kvs "id"
    let title ← getStr kvs "title"
    let desc ← getStr kvs "description"
    let kw ← getStrs kvs "keywords"
    let uri ← getStr kvs "uri"
    let axes ← getStrs kvs "orderedAxes"
    let wkss ← getStr kvs "wellKnownScaleSet"
    let bbox ← optField kvs "boundingBox" decodeBBox
    let crs ← reqField kvs "crs" "missing key crs" decodeCRS
    let ms ← reqField kvs "tileMatrices" "missing key tileMatrices" matricesField
    check (uri = "" || isURI uri) "URI: uri"
    check (axes != some []) "OrderedAxes: min"
    check (wkss = "" || isURI wkss) "WellKnownScaleSet: uri"
    check (!ms.isEmpty) "TileMatrices: min"
    return ⟨id, title, desc, kw.getD [], uri, axes, crs, wkss, bbox, ms⟩
  | _ => .error "invalid JSON input"

/-! ### encoding -/

def optStr (k : String) (s : String) : List (String × J) := if s = "" then [] else [(k, .str s)]
def optStrs (k : String) (l : List String) : List (String × J) := if l = [] then [] else [(k, .arr (l.map .str))]
def natJ (n : Nat) : J := .num ⟨n, 0⟩
def pointJ (p : Num × Num) : J := .arr [.num p.1, .num p.2]

def encodeCRS : CRS → J
  | .uri _ u true => .str u
  | .uri d u false => .obj (optStr "description" d ++ [("uri", .str u)])
  | .wkt d ks => .obj (optStr "description" d ++ [("wkt", .obj ks)])
  | .refsys d ks => .obj (optStr "description" d ++ [("referenceSystem", .obj ks)])

def encodeVMW (v : VMW) : J := .obj [("coalesce", natJ v.coalesce), ("minTileRow", natJ v.minRow), ("maxTileRow", natJ v.maxRow)]

def encodeTM (t : TM) : J :=
  .obj ([("id", .str t.id)] ++ optStr "title" t.title ++ optStr "description" t.description ++ optStrs "keywords" t.keywords ++
    [("scaleDenominator", .num t.scaleDenominator), ("cellSize", .num t.cellSize)] ++ optStr "cornerOfOrigin" t.corner ++
    [("pointOfOrigin", pointJ t.origin), ("tileWidth", natJ t.tileWidth), ("tileHeight", natJ t.tileHeight),
     ("matrixWidth", natJ t.matrixWidth), ("matrixHeight", natJ t.matrixHeight)] ++
    (if t.vmw = [] then [] else [("variableMatrixWidths", .arr (t.vmw.map encodeVMW))]))

def encodeBBox (b : BBox) : J :=
  .obj ([("lowerLeft", pointJ b.lowerLeft), ("upperRight", pointJ b.upperRight)] ++ optStrs "orderedAxes" b.orderedAxes ++ [("crs", encodeCRS b.crs)])

def encode (t : TMS) : J :=
  .obj (optStr "id" t.id ++ optStr "title" t.title ++ optStr "description" t.description ++ optStrs "keywords" t.keywords ++ optStr "uri" t.uri ++
    [("orderedAxes", match t.orderedAxes with | none => .null | some l => .arr (l.map .str))] ++ optStr "wellKnownScaleSet" t.wkss ++
    (match t.bbox with | none => [] | some b => [("boundingBox", encodeBBox b)]) ++
    [("crs", encodeCRS t.crs), ("tileMatrices", .arr (t.matrices.map fun e => encodeTM e.2))])

end Texel.TJ
