/-! Core-only executable model of snap.go's ring clean-up: kmpTable/kmpSearch/kmpSearchAll/kmpDeduplicate,
    RemoveSequences (with go-sortedmap semantics), splitRing (with the ordered-map stack), cleanupNewRing.
    Go panics are `Except.error`. Points are exact integer pairs (pixel indices). -/

namespace Texel

abbrev P := Int × Int

def sliceE (a : Array α) (lo hi : Int) : Except String (Array α) :=
  if 0 ≤ lo ∧ lo ≤ hi ∧ hi ≤ a.size then .ok (a.extract lo.toNat hi.toNat) else .error s!"slice bounds out of range [{lo}:{hi}] with length {a.size}"

def getE [Inhabited α] (a : Array α) (i : Int) : Except String α :=
  if 0 ≤ i ∧ i < a.size then .ok a[i.toNat]! else .error s!"index out of range [{i}] with length {a.size}"

/-- `kmpTable(find, table)`; `table` has `tlen` zero entries -/
def kmpTable (find : Array P) (tlen : Nat) : Except String (Array Int) := do
  let mut table : Array Int := Array.replicate tlen 0
  if tlen < 2 then throw "index out of range (table)"
  table := table.set! 0 (-1)
  table := table.set! 1 0
  let mut pos : Nat := 2
  let mut cnd : Int := 0
  let mut fuel := 4 * find.size + 8
  while pos < find.size do
    if fuel = 0 then throw "fuel(kmpTable)"
    fuel := fuel - 1
    let a ← getE find (pos - 1)
    let b ← getE find cnd
    if a == b then
      cnd := cnd + 1
      if pos ≥ table.size then throw "index out of range (table)"
      table := table.set! pos cnd
      pos := pos + 1
    else if cnd > 0 then
      cnd ← getE table cnd
    else
      if pos ≥ table.size then throw "index out of range (table)"
      table := table.set! pos 0
      pos := pos + 1
  return table

/-- returns the start of `find` in `corpus`, or `corpus.size` -/
def kmpSearch (corpus find : Array P) : Except String Nat := do
  let table ← kmpTable find (max corpus.size 2)
  let mut m : Int := 0
  let mut i : Int := 0
  let mut fuel := (corpus.size + 2) * (find.size + 2) + 8
  while m + i < corpus.size do
    if fuel = 0 then throw "fuel(kmpSearch)"
    fuel := fuel - 1
    let f ← getE find i
    let c ← getE corpus (m + i)
    if f == c then
      if i == (find.size : Int) - 1 then return m.toNat
      i := i + 1
    else
      let ti ← getE table i
      if ti > -1 then
        i := ti
        let ti' ← getE table i          -- the code that exists: `m = m + i - table[i]` *after* `i = table[i]`
        m := m + i - ti'
      else
        i := 0
        m := m + 1
  return corpus.size

def kmpSearchAll (corpus0 find : Array P) : Except String (Array Nat) := do
  let mut mtchs : Array Nat := #[]
  let mut offset := 0
  let mut corpus := corpus0
  let mut fuel := corpus0.size + 2
  while true do
    if fuel = 0 then throw "fuel(kmpSearchAll)"
    fuel := fuel - 1
    let m ← kmpSearch corpus find
    if m == corpus.size then break
    mtchs := mtchs.push (m + offset)
    offset := offset + m + find.size
    corpus ← sliceE corpus (m + find.size) corpus.size
    if corpus.size < find.size then break
  return mtchs

/-- go-sortedmap keyed by the printed segment: first insert of a key wins; sorted by start index, ties after equals -/
structure SeqMap where
  entries : Array (Array P × (Int × Int)) := #[]      -- in sorted order

def SeqMap.insert (sm : SeqMap) (key : Array P) (val : Int × Int) : SeqMap :=
  if sm.entries.any (fun e => e.1 == key) then sm else
    -- sort.Search: first index i with less(val, entries[i]) i.e. val.1 < entries[i].2.1  (binary search on a sorted slice)
    let rec bs (lo hi : Nat) (fuel : Nat) : Nat :=
      match fuel with
      | 0 => lo
      | fuel + 1 =>
        if lo < hi then
          let h := (lo + hi) / 2
          if !(val.1 < (sm.entries[h]!).2.1) then bs (h + 1) hi fuel else bs lo h fuel
        else lo
    let i := bs 0 sm.entries.size (sm.entries.size + 2)
    { entries := (sm.entries.extract 0 i).push (key, val) ++ sm.entries.extract i sm.entries.size }

def removeSequences (s : Array P) (sm : SeqMap) : Except String (Array P) := do
  let mut out : Array P := #[]
  let mut keepFrom : Int := 0
  for e in sm.entries do
    let keepTo := e.2.1
    out := out ++ (← sliceE s keepFrom keepTo)
    keepFrom := e.2.2
  out := out ++ (← sliceE s keepFrom s.size)
  return out

def kmpDeduplicate (ring : Array P) : Except String (Array P) := do
  let ringLen : Int := ring.size
  let mut seqs : SeqMap := {}
  let mut visited : Array P := #[]
  let mut i : Int := 0
  let mut fuel := 4 * ring.size * (ring.size + 2) + 16
  while i < ringLen do
    if fuel = 0 then throw "fuel(kmpDeduplicate)"
    fuel := fuel - 1
    let vertex ← getE ring i
    if visited.size ≤ 1 || visited[visited.size - 2]! != vertex then
      visited := visited.push vertex
      i := i + 1
      continue
    let mut reverseSegment : Array P := #[visited[visited.size - 1]!, visited[visited.size - 2]!]
    for j in [3 : visited.size + 1] do
      let nextI := i + ((j : Int) - 2)
      if nextI ≤ ringLen - 1 then
        let rv ← getE ring nextI          -- (nested: `←` inside `&&` would not short-circuit)
        if visited[visited.size - j]! == rv then
          reverseSegment := reverseSegment.push visited[visited.size - j]!
        else break
      else break
    let segment := reverseSegment.reverse
    let segLen : Int := segment.size
    let start := i - segLen
    let mut end_ := start + 3 * segLen
    let mut k : Nat := 0
    let mut corpus ← sliceE ring start (min end_ ringLen)
    let mut fuel2 := ring.size + 4
    while true do
      if fuel2 = 0 then throw "fuel(corpus)"
      fuel2 := fuel2 - 1
      let mut stop := false
      for v in (← sliceE corpus k corpus.size) do
        if !segment.contains v then
          stop := true
          break
      if end_ > ringLen then stop := true
      if stop then break
      k := corpus.size
      corpus := corpus ++ (← sliceE ring end_ (min (end_ + 2 * segLen) ringLen))
      end_ := end_ + 2 * segLen
    let mtchs ← kmpSearchAll corpus segment
    let reverseMatches ← kmpSearchAll corpus reverseSegment
    let nm : Int := mtchs.size
    let nr : Int := reverseMatches.size
    if nm > 1 && nm - nr == 1 then
      let sequenceStart := start + segLen
      let sequenceEnd := start + (mtchs[mtchs.size - 1]! : Int) + segLen
      seqs := seqs.insert segment (sequenceStart, sequenceEnd)
      i := sequenceEnd
      visited := #[]
    else if nm > 1 && nm == nr then
      let sequenceStart := start + 2 * segLen - 1
      let sequenceEnd := start + (mtchs[mtchs.size - 1]! : Int) + segLen
      seqs := seqs.insert segment (sequenceStart, sequenceEnd)
      i := sequenceEnd
      visited := #[]
    else if nm == 1 && nr == 1 then
      i := start + 2 * segLen - 1
      visited := #[]
    else
      let sequenceStart := start
      let mut sequenceEnd : Int := 0
      let mut endPointIdx : Int := 0
      if nr > nm then
        sequenceEnd := start + 2 * (segLen - 1) * nm
        endPointIdx := start + (reverseMatches[reverseMatches.size - 1]! : Int) + segLen
      else if nm > 1 && nm - nr > 1 then
        sequenceEnd := start + 2 * (segLen - 1) * nr
        endPointIdx := start + (mtchs[mtchs.size - 1]! : Int) + segLen
      seqs := seqs.insert segment (sequenceStart, sequenceEnd)
      i := endPointIdx - 1
      visited := #[]
  removeSequences ring seqs

/-! ### orientation (exact) -/

def area2 (r : Array P) : Int := Id.run do
  if r.size < 3 then return 0
  let o := r[0]!
  let mut sum : Int := 0
  let mut li := r.size - 1
  for i in [0 : r.size] do
    let a := r[li]!; let b := r[i]!
    sum := sum + ((a.1 - o.1) * (b.2 - o.2) - (b.1 - o.1) * (a.2 - o.2))
    li := i
  return sum

/-- `windingOrderIsCorrect(ring, shouldBeClockwise)` -/
def windingOK (r : Array P) (cw : Bool) : Bool :=
  let a := area2 r
  (a < 0 && cw) || (a > 0 && !cw) || a == 0

/-! ### splitRing -/

structure Split where
  outers : Array (Array P) := #[]
  inners : Array (Array P) := #[]
  pointsAndLines : Array (Array P) := #[]
deriving Repr

abbrev Stack := Array (Nat × Array P)     -- ordered map: insertion order, `Set` on an existing key keeps its place

def Stack.get? (s : Stack) (k : Nat) : Option (Array P) := (s.find? (·.1 == k)).map (·.2)
def Stack.set (s : Stack) (k : Nat) (v : Array P) : Stack :=
  if s.any (·.1 == k) then s.map (fun e => if e.1 == k then (k, v) else e) else s.push (k, v)
def Stack.delete (s : Stack) (k : Nat) : Stack := s.filter (·.1 != k)

def splitRing (ring : Array P) (isOuter : Bool) (isHit : P → Bool) : Except String Split := do
  let mut pidx : Nat := 0
  let mut stack : Stack := #[(0, #[])]
  let mut complete : Array (Nat × Array P) := #[]
  let first ← getE ring 0
  let check := ring.push first
  for vi in [0 : check.size] do
    let vertex := check[vi]!
    let mut fall := true
    if vi == 0 || !isHit vertex then
      match stack.get? pidx with
      | none => stack := stack.set pidx #[]
      | some pr => stack := stack.set pidx (pr.push vertex)
      if vi < check.size - 1 then fall := false
    else
      stack := stack.set pidx (((stack.get? pidx).getD #[]).push vertex)
    if fall then
      let mut temp := (stack.get? pidx).getD #[]
      if temp.size == 0 then throw "index out of range (tempRing)"
      if temp[0]! == temp[temp.size - 1]! then
        complete := complete.push (pidx, temp.extract 0 (temp.size - 1))
        stack := stack.delete pidx
      else
        let mut toRemove : Array Nat := #[pidx]
        -- r := stack.Newest().Prev() ... walk backwards from the second newest
        if stack.size == 0 then throw "nil pointer (stack.Newest)"
        let mut ri : Int := (stack.size : Int) - 2
        let mut closed := false
        while ri ≥ 0 && !closed do
          let (sidx, part) := stack[ri.toNat]!
          if part.size == 0 then throw "index out of range (partial)"
          if part[part.size - 1]! == temp[0]! then
            toRemove := toRemove.push sidx
            temp := part ++ temp.extract 1 temp.size
          else break
          if temp[0]! == temp[temp.size - 1]! then
            complete := complete.push (sidx, temp.extract 0 (temp.size - 1))
            for idx in toRemove do stack := stack.delete idx
            closed := true
          ri := ri - 1
    if fall then
      if vi < check.size - 1 then
        pidx := pidx + 1
        stack := stack.set pidx (((stack.get? pidx).getD #[]).push vertex)
      else if stack.size > 0 then throw "partial rings remaining on stack"
  -- completeRings is a Go map: a later write to the same key overwrites; keys are then sorted
  let mut cmap : Array (Nat × Array P) := #[]
  for (k, v) in complete do
    if cmap.any (·.1 == k) then cmap := cmap.map (fun e => if e.1 == k then (k, v) else e) else cmap := cmap.push (k, v)
  let sorted := cmap.qsort (fun a b => a.1 < b.1)
  let mut res : Split := {}
  for (_, r) in sorted do
    if r.size < 3 then res := { res with pointsAndLines := res.pointsAndLines.push r }
    else if isOuter then
      if !windingOK r false then res := { res with inners := res.inners.push r } else res := { res with outers := res.outers.push r }
    else
      if !windingOK r true then res := { res with outers := res.outers.push r } else res := { res with inners := res.inners.push r }
  if isOuter && res.outers.size == 0 && res.inners.size > 0 then
    res := { res with outers := res.inners.map Array.reverse, inners := #[] }
  else if !isOuter && res.inners.size == 0 && res.outers.size > 0 then
    res := { res with inners := res.outers.map Array.reverse, outers := #[] }
  return res

def cleanupNewRing (newRing0 : Array P) (isOuter : Bool) (isHit : P → Bool) : Except String Split := do
  let mut newRing := newRing0
  if newRing.size > 1 && newRing[0]! == newRing[newRing.size - 1]! then newRing := newRing.extract 0 (newRing.size - 1)
  if newRing.size < 3 then return { pointsAndLines := #[newRing] }
  newRing ← kmpDeduplicate newRing
  if newRing.size < 3 then return { pointsAndLines := #[newRing] }
  splitRing newRing isOuter isHit

end Texel
