/-! # Texel.Model.QuadTree — `pointindex.IsQuadTree` (core-only, executable)

A tile matrix set is the list of its tile matrices sorted by map key (`slices.Sort(maps.Keys(...))`). Floats are exact
rationals `num/den` (`den > 0`, lowest terms — what the harness sends); origins are only compared for equality. -/
namespace Texel.QT

structure TM where
  id : Int              -- the map key
  idText : String       -- `tm.ID`
  mw : Nat
  mh : Nat
  tw : Nat
  th : Nat
  nvar : Nat            -- `len(tm.VariableMatrixWidths)`
  ox : Int × Int        -- point of origin, exact
  oy : Int × Int
  corner : Nat          -- 0 topLeft, 1 bottomLeft
  csNum : Int
  csDen : Int
deriving Repr, DecidableEq

/-- `strconv.Atoi`: optional sign, then one or more decimal digits -/
def atoi (s : String) : Option Int :=
  let cs := s.toList
  let (neg, ds) := match cs with
    | '-' :: r => (true, r)
    | '+' :: r => (false, r)
    | r => (false, r)
  if ds.isEmpty || !ds.all Char.isDigit then none
  else
    let n : Int := ds.foldl (fun acc c => acc * 10 + ((c.toNat - '0'.toNat : Nat) : Int)) 0
    some (if neg then -n else n)

/-- `bits.OnesCount(n) == 1` -/
def isPow2 (n : Nat) : Bool := 2 ^ n.log2 == n

/-- the per-matrix checks, in the order of the code; the number names the failing check (12 and 14 were added by the fix for F15) -/
def localErr (tm : TM) : Option Nat :=
  if tm.mh ≠ tm.mw then some 1
  else if tm.th ≠ tm.tw then some 2
  else if !isPow2 tm.tw then some 12
  else match atoi tm.idText with
    | none => some 3
    | some k => if k ≠ tm.id then some 4 else if tm.nvar ≠ 0 then some 5 else none

/-- `mathhelp.FBetweenInc(prev.CellSize / tm.CellSize, 1.99, 2.01)` on exact rationals (cell sizes are non-negative) -/
def ratioOK (prev tm : TM) : Bool :=
  -- 1.99 ≤ (pn/pd)/(tn/td) ≤ 2.01  ⇔  199·tn·pd ≤ 100·pn·td ≤ 201·tn·pd   (all positive)
  -- a cell size of 0 has no ratio (`x/0` is `+Inf` or `NaN` in Go: not between); cell sizes are non-negative (negative ones are not generated)
  decide (0 < tm.csNum) && decide (199 * tm.csNum * prev.csDen ≤ 100 * prev.csNum * tm.csDen) && decide (100 * prev.csNum * tm.csDen ≤ 201 * tm.csNum * prev.csDen)

def pairErr (prev tm : TM) : Option Nat :=
  if tm.id ≠ prev.id + 1 then some 6
  else if tm.ox ≠ prev.ox ∨ tm.oy ≠ prev.oy then some 7
  else if tm.corner ≠ prev.corner then some 8
  else if tm.th ≠ prev.th then some 9
  else if tm.mh ≠ 2 * prev.mh then some 10
  else if !ratioOK prev tm then some 11
  else none

/-- the checks on the first matrix (`previousTM == nil`): its key is 0 and it is a single tile -/
def firstErr (tm : TM) : Option Nat :=
  if tm.id ≠ 0 then some 6
  else if tm.mw ≠ 1 then some 14
  else none

/-- `IsQuadTree`: `none` = accepted, `some k` = rejected by check `k` -/
def isQuadTreeFrom (prev : Option TM) : List TM → Option Nat
  | [] => none
  | tm :: rest =>
    match localErr tm with
    | some e => some e
    | none =>
      match (match prev with | none => firstErr tm | some p => pairErr p tm) with
      | some e => some e
      | none => isQuadTreeFrom (some tm) rest

def isQuadTree (tms : List TM) : Option Nat := isQuadTreeFrom none tms

end Texel.QT
