import Texel.Model.Snap
/-! # Texel.Model.AssembleF — `dedupeInnersOuters` and `matchInnersToPolygons` as decision + application (core-only, executable) -/
namespace Texel

/-! functional assembly: `dedupeInnersOuters` and `matchInnersToPolygons` with their *decisions* (which rings to delete, which shell a hole
goes to) computed by the transcribed code and *applied* functionally -/

/-- the indexes (outers first, then inners) `dedupeInnersOuters` deletes -/
def dedupeToDelete (outers inners : Array (Array P)) : Except String (Array Nat) := do
  let lo := outers.size
  let all := lo + inners.size
  let ringAt (i : Nat) : Array P := if i < lo then outers[i]! else inners[i - lo]!
  let mut processed : Array Nat := #[]
  let mut toDelete : Array Nat := #[]
  for i in [0 : all] do
    if processed.contains i then continue
    let iOuter := i < lo
    let mut equal : Array (Nat × Bool) := #[(i, iOuter)]
    for j in [i + 1 : all] do
      if processed.contains j then continue
      let jOuter := j < lo
      if !(← ringsAreEqual (ringAt i) (ringAt j) iOuter jOuter) then continue
      equal := equal.push (j, jOuter)
    if equal.size ≤ 1 then continue
    let nO := (equal.filter (·.2)).size
    let nI := (equal.filter (!·.2)).size
    let mut delO := 0
    let mut delI := 0
    if nO == nI then
      delO := nO - 1; delI := nI - 1
    else
      delO := min nO nI; delI := delO
    for (e, isO) in equal do
      processed := processed.push e
      if isO && delO > 0 then
        toDelete := toDelete.push e; delO := delO - 1
      else if !isO && delI > 0 then
        toDelete := toDelete.push e; delI := delI - 1
  return toDelete

/-- `DeleteFromSliceByIndex` -/
def deleteByIndex (rs : List (Array P)) (del : Array Nat) (offset : Nat) : List (Array P) :=
  (rs.zipIdx.filter fun (_, i) => !del.contains (i + offset)).map (·.1)

def dedupeF (outers inners : Array (Array P)) : Except String (Array (Array P) × Array (Array P)) := do
  let del ← dedupeToDelete outers inners
  if del.size = 0 then return (outers, inners)
  return ((deleteByIndex outers.toList del 0).toArray, (deleteByIndex inners.toList del outers.size).toArray)

/-- which shell an inner ring is attached to: `some i`, or `none` when no shell contains any of its vertices (it is then turned into a shell) -/
def matchDecision (shells : Array (Array P)) (sortedIdx : Array Nat) (inner : Array P) : Option Nat := Id.run do
  let mut counts : Array (Nat × Nat) := #[]      -- ordered map polyI ↦ count (insertion order)
  for v in inner do
    for pi in [0 : shells.size] do
      let (cont, _) := ringContains shells[pi]! v
      if cont then
        if counts.any (·.1 == pi) then counts := counts.map (fun e => if e.1 == pi then (pi, e.2 + 1) else e)
        else counts := counts.push (pi, 1)
    let mut first := true
    let mut maxK := 0
    let mut maxV := 0
    let mut winners := 0
    for e in counts.reverse do
      if first || e.2 > maxV then
        maxK := e.1; maxV := e.2; winners := 1; first := false
      else if e.2 == maxV then winners := winners + 1
    if winners == 1 then return some maxK
  if counts.size == 0 then return none
  let keys := counts.map (·.1)
  let mut chosen := 0
  for i in [0 : sortedIdx.size] do
    let k := sortedIdx[sortedIdx.size - 1 - i]!
    if keys.contains k then
      chosen := k
      break
  return some chosen

structure MatchState where
  polys : List (Array (Array P))
  turned : List (Array P) := []

def attachAt : List (Array (Array P)) → Nat → Array P → List (Array (Array P))
  | [], _, _ => []
  | pg :: rest, 0, inner => pg.push inner :: rest
  | pg :: rest, i + 1, inner => pg :: attachAt rest i inner

def matchF (polys0 : Array (Array (Array P))) (inners : Array (Array P)) : Array (Array (Array P)) :=
  if inners.size = 0 then polys0 else
  let shells := polys0.map fun pg => pg[0]!
  let sorted := sortPolyIdxsByOuterAreaDesc polys0
  let st := inners.toList.foldl (fun (st : MatchState) inner =>
    match matchDecision shells sorted inner with
    | some i => { st with polys := attachAt st.polys i inner }
    | none => { st with turned := st.turned ++ [inner.reverse] }) { polys := polys0.toList }
  (st.polys ++ st.turned.map fun t => #[t]).toArray

/-! ### the assembly only selects, attaches and reverses rings -/

def RingsV (V : P → Prop) (rs : List (Array P)) : Prop := ∀ r ∈ rs, ∀ v ∈ r, V v
def PolysV (V : P → Prop) (ps : List (Array (Array P))) : Prop := ∀ pg ∈ ps, ∀ r ∈ pg, ∀ v ∈ r, V v

theorem deleteByIndex_V (V : P → Prop) (rs : List (Array P)) (del : Array Nat) (off : Nat) (h : RingsV V rs) : RingsV V (deleteByIndex rs del off) := by
  intro r hr
  unfold deleteByIndex at hr
  simp only [List.mem_map, List.mem_filter] at hr
  obtain ⟨⟨r', i⟩, ⟨hmem, _⟩, rfl⟩ := hr
  have hin : r' ∈ rs := by
    have := (List.mem_zipIdx hmem).2.2
    rw [this]; exact List.getElem_mem _
  exact h r' hin

theorem dedupeF_V (V : P → Prop) (outers inners o i : Array (Array P)) (ho : RingsV V outers.toList) (hi : RingsV V inners.toList)
    (h : dedupeF outers inners = .ok (o, i)) : RingsV V o.toList ∧ RingsV V i.toList := by
  unfold dedupeF at h
  simp only [bind, Except.bind] at h
  split at h
  · cases h
  · rename_i del _
    split at h
    · simp only [pure, Except.pure, Except.ok.injEq, Prod.mk.injEq] at h
      obtain ⟨h1, h2⟩ := h; subst h1 h2; exact ⟨ho, hi⟩
    · simp only [pure, Except.pure, Except.ok.injEq, Prod.mk.injEq] at h
      obtain ⟨h1, h2⟩ := h; subst h1 h2
      exact ⟨by simpa using deleteByIndex_V V _ del 0 ho, by simpa using deleteByIndex_V V _ del outers.size hi⟩

theorem attachAt_V (V : P → Prop) (ps : List (Array (Array P))) (k : Nat) (inner : Array P) (hp : PolysV V ps) (hi : ∀ v ∈ inner, V v) :
    PolysV V (attachAt ps k inner) := by
  induction ps generalizing k with
  | nil => intro pg hpg; cases hpg
  | cons pg rest ih =>
    cases k with
    | zero =>
      intro q hq r hr v hv
      simp only [attachAt] at hq
      rcases List.mem_cons.1 hq with h1 | h1
      · subst h1
        rcases Array.mem_push.1 hr with h2 | h2
        · exact hp pg List.mem_cons_self r h2 v hv
        · subst h2; exact hi v hv
      · exact hp q (List.mem_cons_of_mem _ h1) r hr v hv
    | succ k' =>
      intro q hq r hr v hv
      simp only [attachAt] at hq
      rcases List.mem_cons.1 hq with h1 | h1
      · subst h1; exact hp _ List.mem_cons_self r hr v hv
      · exact ih k' (fun x hx => hp x (List.mem_cons_of_mem _ hx)) q h1 r hr v hv

theorem matchF_V (V : P → Prop) (polys0 : Array (Array (Array P))) (inners : Array (Array P)) (hp : PolysV V polys0.toList) (hi : RingsV V inners.toList) :
    PolysV V (matchF polys0 inners).toList := by
  unfold matchF
  split
  · exact hp
  · simp only
    have key : ∀ (l : List (Array P)) (st : MatchState), RingsV V l → PolysV V st.polys → RingsV V st.turned →
        let st' := l.foldl (fun (st : MatchState) inner =>
          match matchDecision (polys0.map fun pg => pg[0]!) (sortPolyIdxsByOuterAreaDesc polys0) inner with
          | some i => { st with polys := attachAt st.polys i inner }
          | none => { st with turned := st.turned ++ [inner.reverse] }) st
        PolysV V st'.polys ∧ RingsV V st'.turned := by
      intro l
      induction l with
      | nil => intro st _ h1 h2; exact ⟨h1, h2⟩
      | cons inner rest ih =>
        intro st hl h1 h2
        simp only [List.foldl_cons]
        apply ih _ (fun r hr => hl r (List.mem_cons_of_mem _ hr))
        · split
          · exact attachAt_V V _ _ _ h1 (hl inner List.mem_cons_self)
          · exact h1
        · split
          · exact h2
          · intro r hr v hv
            rcases List.mem_append.1 hr with h3 | h3
            · exact h2 r h3 v hv
            · simp only [List.mem_singleton] at h3; subst h3
              exact hl inner List.mem_cons_self v (by simpa using hv)
    obtain ⟨k1, k2⟩ := key inners.toList { polys := polys0.toList } hi hp (by intro r hr; cases hr)
    intro pg hpg r hr v hv
    rcases List.mem_append.1 hpg with h3 | h3
    · exact k1 pg h3 r hr v hv
    · simp only [List.mem_map] at h3
      obtain ⟨t, ht, rfl⟩ := h3
      have hrt : r = t := by simpa using hr
      subst hrt
      exact k2 r ht v hv

end Texel
