import Texel.Model.RingF
/-! # Texel.Model.SplitF — `splitRing` and `cleanupNewRing` as functions (core-only, executable), with the theorem that the ring clean-up
invents no vertex (`cleanupNewRingF_V`)

`splitRing` keeps a stack of partial rings (an ordered map in the Go code) and a map of completed rings; one step per vertex of the closed
ring: `stack1Of` (append), `closeOrMerge` (the partial ring is closed, or closes after prepending earlier partial rings — `mergeBack`), then a
new partial ring is started. The reference transcription is `Texel.splitRing` (`Model/Ring.lean`); the driver compares the two. -/
namespace Texel

abbrev StackL := List (Nat × List P)

def sGet (s : StackL) (k : Nat) : Option (List P) := (s.find? (·.1 == k)).map (·.2)
def sSet : StackL → Nat → List P → StackL
  | [], k, v => [(k, v)]
  | (k', v') :: rest, k, v => if k' = k then (k, v) :: rest else (k', v') :: sSet rest k v
def sDelete (s : StackL) (k : Nat) : StackL := s.filter (·.1 != k)

/-- walk back over the earlier partial rings (newest first): prepend while they connect; `some (key, ring, used)` when the ring closes -/
def mergeBack : List P → StackL → List Nat → Except String (Option (Nat × List P × List Nat))
  | _, [], _ => .ok none
  | temp, (k, part) :: rest, used =>
    match part.getLast?, temp.head? with
    | some l, some h =>
      if l = h then
        let temp' := part ++ temp.tail
        if temp'.head? = temp'.getLast? then .ok (some (k, temp'.dropLast, k :: used))
        else mergeBack temp' rest (k :: used)
      else .ok none
    | _, _ => .error "index out of range (partial)"

structure SplitState where
  idx : Nat := 0
  stack : StackL := [(0, [])]
  complete : List (Nat × List P) := []

/-- the stack after the vertex has been appended to the current partial ring -/
def stack1Of (isHit : P → Bool) (st : SplitState) (vi : Nat) (vertex : P) : StackL :=
  if vi == 0 || !isHit vertex then
    match sGet st.stack st.idx with
    | none => sSet st.stack st.idx []
    | some pr => sSet st.stack st.idx (pr ++ [vertex])
  else sSet st.stack st.idx ((sGet st.stack st.idx).getD [] ++ [vertex])

/-- the current partial ring is complete, or becomes complete by prepending earlier partial rings, or stays on the stack -/
def closeOrMerge (stack1 : StackL) (idx : Nat) (complete : List (Nat × List P)) (temp : List P) : Except String (StackL × List (Nat × List P)) :=
  if temp.head? = temp.getLast? then .ok (sDelete stack1 idx, complete ++ [(idx, temp.dropLast)])
  else
    match stack1.reverse with
    | [] => .error "nil pointer (stack.Newest)"
    | _ :: earlier =>
      match mergeBack temp earlier [idx] with
      | .error e => .error e
      | .ok none => .ok (stack1, complete)
      | .ok (some (k, ring, used)) => .ok (used.foldl sDelete stack1, complete ++ [(k, ring)])

/-- one vertex of `checkRing` (`last` = it is the closing vertex) -/
def splitStep (isHit : P → Bool) (st : SplitState) (vi : Nat) (vertex : P) (last : Bool) : Except String SplitState :=
  let stack1 := stack1Of isHit st vi vertex
  if (vi == 0 || !isHit vertex) && !last then .ok { st with stack := stack1 }
  else
    match (sGet stack1 st.idx).getD [] with
    | [] => .error "index out of range (tempRing)"
    | hd :: tl =>
      match closeOrMerge stack1 st.idx st.complete (hd :: tl) with
      | .error e => .error e
      | .ok (stack2, complete2) =>
        if !last then
          .ok { idx := st.idx + 1, stack := sSet stack2 (st.idx + 1) ((sGet stack2 (st.idx + 1)).getD [] ++ [vertex]), complete := complete2 }
        else if !stack2.isEmpty then .error "partial rings remaining on stack"
        else .ok { st with stack := stack2, complete := complete2 }

def splitLoop (isHit : P → Bool) : List P → Nat → SplitState → Except String SplitState
  | [], _, st => .ok st
  | [v], vi, st => splitStep isHit st vi v true
  | v :: rest, vi, st => do
    let st' ← splitStep isHit st vi v false
    splitLoop isHit rest (vi + 1) st'

/-- `completeRings` is a Go map: a later write to a key overwrites; keys are then visited in increasing order -/
def dedupStep (acc : List (Nat × List P)) (e : Nat × List P) : List (Nat × List P) :=
  if acc.any (·.1 == e.1) then acc.map (fun a => if a.1 == e.1 then e else a) else acc ++ [e]

def completeSorted (cs : List (Nat × List P)) : List (List P) :=
  ((cs.foldl dedupStep []).mergeSort (fun a b => decide (a.1 ≤ b.1))).map (·.2)

def classify (isOuter : Bool) (rings : List (List P)) : Split :=
  let res : Split := rings.foldl (fun res r =>
    let ra := r.toArray
    if r.length < 3 then { res with pointsAndLines := res.pointsAndLines.push ra }
    else if isOuter then
      (if !windingOK ra false then { res with inners := res.inners.push ra } else { res with outers := res.outers.push ra })
    else
      (if !windingOK ra true then { res with outers := res.outers.push ra } else { res with inners := res.inners.push ra })) {}
  if isOuter && res.outers.size == 0 && res.inners.size > 0 then
    { res with outers := res.inners.map Array.reverse, inners := #[] }
  else if !isOuter && res.inners.size == 0 && res.outers.size > 0 then
    { res with inners := res.outers.map Array.reverse, outers := #[] }
  else res

def splitRingF (ring : List P) (isOuter : Bool) (isHit : P → Bool) : Except String Split :=
  match ring with
  | [] => .error "index out of range [0] with length 0"
  | first :: _ => do
    let st ← splitLoop isHit (ring ++ [first]) 0 {}
    return classify isOuter (completeSorted st.complete)

def cleanupNewRingF (newRing0 : List P) (isOuter : Bool) (isHit : P → Bool) : Except String Split := do
  let newRing := if newRing0.length > 1 && newRing0.head? == newRing0.getLast? then newRing0.dropLast else newRing0
  if newRing.length < 3 then return { pointsAndLines := #[newRing.toArray] }
  let deduped ← kmpDeduplicateF newRing.toArray
  if deduped.size < 3 then return { pointsAndLines := #[deduped] }
  splitRingF deduped.toList isOuter isHit

/-! ### nothing is invented: every vertex of every returned ring is a vertex of the ring that was split -/

theorem sGet_mem (s : StackL) (k : Nat) (l : List P) (h : sGet s k = some l) : ∃ e ∈ s, e.2 = l := by
  unfold sGet at h
  cases hf : s.find? (·.1 == k) with
  | none => rw [hf] at h; cases h
  | some e => rw [hf] at h; simp only [Option.map_some, Option.some.injEq] at h; exact ⟨e, List.mem_of_find?_eq_some hf, h⟩

theorem mem_sSet (s : StackL) (k : Nat) (v : List P) (e : Nat × List P) (h : e ∈ sSet s k v) : e = (k, v) ∨ e ∈ s := by
  induction s with
  | nil => simp only [sSet, List.mem_singleton] at h; exact Or.inl h
  | cons a rest ih =>
    obtain ⟨k', v'⟩ := a
    simp only [sSet] at h
    split at h
    · rcases List.mem_cons.1 h with h1 | h1
      · exact Or.inl h1
      · exact Or.inr (List.mem_cons_of_mem _ h1)
    · rcases List.mem_cons.1 h with h1 | h1
      · exact Or.inr (h1 ▸ List.mem_cons_self)
      · rcases ih h1 with h2 | h2
        · exact Or.inl h2
        · exact Or.inr (List.mem_cons_of_mem _ h2)

theorem mem_sDelete (s : StackL) (k : Nat) (e : Nat × List P) (h : e ∈ sDelete s k) : e ∈ s := (List.mem_filter.1 h).1

theorem mem_foldl_sDelete (used : List Nat) (s : StackL) (e : Nat × List P) (h : e ∈ used.foldl sDelete s) : e ∈ s := by
  induction used generalizing s with
  | nil => exact h
  | cons k ks ih => exact mem_sDelete s k e (ih (sDelete s k) h)

/-- all vertices of all partial rings satisfy `V` -/
def AllV (V : P → Prop) (s : List (Nat × List P)) : Prop := ∀ e ∈ s, ∀ v ∈ e.2, V v

theorem mergeBack_V (V : P → Prop) (temp : List P) (earlier : StackL) (used : List Nat) (ht : ∀ v ∈ temp, V v) (he : AllV V earlier)
    (k : Nat) (ring : List P) (used' : List Nat) (h : mergeBack temp earlier used = .ok (some (k, ring, used'))) : ∀ v ∈ ring, V v := by
  induction earlier generalizing temp used with
  | nil => simp [mergeBack] at h
  | cons a rest ih =>
    obtain ⟨k', part⟩ := a
    simp only [mergeBack] at h
    split at h
    · rename_i l hd _ _
      split at h
      · have hV : ∀ v ∈ part ++ temp.tail, V v := by
          intro v hv
          rcases List.mem_append.1 hv with h1 | h1
          · exact he (k', part) List.mem_cons_self v h1
          · exact ht v (List.mem_of_mem_tail h1)
        split at h
        · simp only [Except.ok.injEq, Option.some.injEq, Prod.mk.injEq] at h
          obtain ⟨_, hr, _⟩ := h
          subst hr
          intro v hv
          exact hV v ((List.dropLast_sublist _).subset hv)
        · exact ih (part ++ temp.tail) (k' :: used) hV (fun e he' => he e (List.mem_cons_of_mem _ he')) h
      · simp at h
    · simp at h

structure SInv (V : P → Prop) (st : SplitState) : Prop where
  stack : AllV V st.stack
  complete : AllV V st.complete

theorem allV_sSet (V : P → Prop) (s : StackL) (k : Nat) (v : List P) (hs : AllV V s) (hv : ∀ x ∈ v, V x) : AllV V (sSet s k v) := by
  intro e he x hx
  rcases mem_sSet s k v e he with h | h
  · subst h; exact hv x hx
  · exact hs e h x hx

theorem sGet_V (V : P → Prop) (s : StackL) (k : Nat) (hs : AllV V s) : ∀ x ∈ (sGet s k).getD [], V x := by
  intro x hx
  cases hg : sGet s k with
  | none => rw [hg] at hx; cases hx
  | some l =>
    rw [hg] at hx
    obtain ⟨e, he, hl⟩ := sGet_mem s k l hg
    exact hs e he x (hl ▸ hx)

theorem stack1Of_V (V : P → Prop) (isHit : P → Bool) (st : SplitState) (vi : Nat) (vertex : P) (hV : V vertex) (hs : AllV V st.stack) :
    AllV V (stack1Of isHit st vi vertex) := by
  unfold stack1Of
  split
  · cases hg : sGet st.stack st.idx with
    | none => exact allV_sSet V _ _ _ hs (by intro x hx; cases hx)
    | some pr =>
      refine allV_sSet V _ _ _ hs ?_
      intro x hx
      rcases List.mem_append.1 hx with h1 | h1
      · obtain ⟨e, he, hl⟩ := sGet_mem _ _ _ hg
        exact hs e he x (hl ▸ h1)
      · simp only [List.mem_singleton] at h1; subst h1; exact hV
  · refine allV_sSet V _ _ _ hs ?_
    intro x hx
    rcases List.mem_append.1 hx with h1 | h1
    · exact sGet_V V _ _ hs x h1
    · simp only [List.mem_singleton] at h1; subst h1; exact hV

theorem closeOrMerge_V (V : P → Prop) (stack1 : StackL) (idx : Nat) (complete : List (Nat × List P)) (temp : List P)
    (hs1 : AllV V stack1) (hc : AllV V complete) (htemp : ∀ x ∈ temp, V x) (s2 : StackL) (c2 : List (Nat × List P))
    (h : closeOrMerge stack1 idx complete temp = .ok (s2, c2)) : AllV V s2 ∧ AllV V c2 := by
  unfold closeOrMerge at h
  split at h
  · simp only [Except.ok.injEq, Prod.mk.injEq] at h
    obtain ⟨h1, h2⟩ := h
    subst h1 h2
    refine ⟨fun e he => hs1 e (mem_sDelete _ _ e he), ?_⟩
    intro e he x hx
    rcases List.mem_append.1 he with h3 | h3
    · exact hc e h3 x hx
    · simp only [List.mem_singleton] at h3; subst h3; exact htemp x ((List.dropLast_sublist _).subset hx)
  · split at h
    · cases h
    · rename_i newest earlier hrev
      have hearlier : AllV V earlier := by
        intro e he
        have : e ∈ stack1.reverse := by rw [hrev]; exact List.mem_cons_of_mem _ he
        exact hs1 e (List.mem_reverse.1 this)
      split at h
      · cases h
      · simp only [Except.ok.injEq, Prod.mk.injEq] at h
        obtain ⟨h1, h2⟩ := h; subst h1 h2
        exact ⟨hs1, hc⟩
      · rename_i k ring used hmb
        simp only [Except.ok.injEq, Prod.mk.injEq] at h
        obtain ⟨h1, h2⟩ := h; subst h1 h2
        refine ⟨fun e he => hs1 e (mem_foldl_sDelete used _ e he), ?_⟩
        intro e he x hx
        rcases List.mem_append.1 he with h3 | h3
        · exact hc e h3 x hx
        · simp only [List.mem_singleton] at h3; subst h3
          exact mergeBack_V V temp earlier [idx] htemp hearlier k ring used hmb x hx

theorem splitStep_inv (V : P → Prop) (isHit : P → Bool) (st st' : SplitState) (vi : Nat) (vertex : P) (last : Bool)
    (hV : V vertex) (inv : SInv V st) (h : splitStep isHit st vi vertex last = .ok st') : SInv V st' := by
  unfold splitStep at h
  have hs1 := stack1Of_V V isHit st vi vertex hV inv.stack
  simp only at h
  split at h
  · simp only [Except.ok.injEq] at h; subst h; exact ⟨hs1, inv.complete⟩
  · have htemp := sGet_V V (stack1Of isHit st vi vertex) st.idx hs1
    split at h
    · cases h
    · rename_i hd tl htmp
      rw [htmp] at htemp
      split at h
      · cases h
      · rename_i s2 c2 hcm
        obtain ⟨hs2, hc2⟩ := closeOrMerge_V V _ _ _ _ hs1 inv.complete htemp s2 c2 hcm
        split at h
        · simp only [Except.ok.injEq] at h; subst h
          refine ⟨?_, hc2⟩
          refine allV_sSet V _ _ _ hs2 ?_
          intro x hx
          rcases List.mem_append.1 hx with h1 | h1
          · exact sGet_V V _ _ hs2 x h1
          · simp only [List.mem_singleton] at h1; subst h1; exact hV
        · split at h
          · cases h
          · simp only [Except.ok.injEq] at h; subst h; exact ⟨hs2, hc2⟩

theorem splitLoop_inv (V : P → Prop) (isHit : P → Bool) (vs : List P) (vi : Nat) (st st' : SplitState)
    (hV : ∀ v ∈ vs, V v) (inv : SInv V st) (h : splitLoop isHit vs vi st = .ok st') : SInv V st' := by
  induction vs generalizing vi st with
  | nil => simp only [splitLoop, Except.ok.injEq] at h; subst h; exact inv
  | cons v rest ih =>
    cases rest with
    | nil =>
      simp only [splitLoop] at h
      exact splitStep_inv V isHit st st' vi v true (hV v List.mem_cons_self) inv h
    | cons w rest' =>
      simp only [splitLoop, bind, Except.bind] at h
      split at h
      · cases h
      · rename_i st1 hst1
        exact ih (vi + 1) st1 (fun x hx => hV x (List.mem_cons_of_mem _ hx))
          (splitStep_inv V isHit st st1 vi v false (hV v List.mem_cons_self) inv hst1) h

theorem dedupStep_V (V : P → Prop) (acc : List (Nat × List P)) (e : Nat × List P) (ha : AllV V acc) (he : ∀ v ∈ e.2, V v) : AllV V (dedupStep acc e) := by
  unfold dedupStep
  split
  · intro x hx
    simp only [List.mem_map] at hx
    obtain ⟨a, haa, rfl⟩ := hx
    split
    · exact he
    · exact ha a haa
  · intro x hx
    rcases List.mem_append.1 hx with h1 | h1
    · exact ha x h1
    · simp only [List.mem_singleton] at h1; subst h1; exact he

theorem foldl_dedup_V (V : P → Prop) (l acc : List (Nat × List P)) (hl : AllV V l) (ha : AllV V acc) : AllV V (l.foldl dedupStep acc) := by
  induction l generalizing acc with
  | nil => exact ha
  | cons e rest ih =>
    simp only [List.foldl_cons]
    exact ih _ (fun x hx => hl x (List.mem_cons_of_mem _ hx)) (dedupStep_V V acc e ha (hl e List.mem_cons_self))

theorem completeSorted_V (V : P → Prop) (cs : List (Nat × List P)) (h : AllV V cs) : ∀ r ∈ completeSorted cs, ∀ v ∈ r, V v := by
  unfold completeSorted
  intro r hr v hv
  simp only [List.mem_map] at hr
  obtain ⟨e, he, rfl⟩ := hr
  have he' : e ∈ cs.foldl dedupStep [] := (List.mergeSort_perm _ _).subset he
  exact foldl_dedup_V V cs [] h (by intro x hx; cases hx) e he' v hv

/-- every ring of a `Split` has only vertices satisfying `V` -/
def SplitV (V : P → Prop) (sp : Split) : Prop :=
  (∀ r ∈ sp.outers, ∀ v ∈ r, V v) ∧ (∀ r ∈ sp.inners, ∀ v ∈ r, V v) ∧ (∀ r ∈ sp.pointsAndLines, ∀ v ∈ r, V v)

theorem classify_V (V : P → Prop) (isOuter : Bool) (rings : List (List P)) (h : ∀ r ∈ rings, ∀ v ∈ r, V v) : SplitV V (classify isOuter rings) := by
  unfold classify
  -- the fold keeps the invariant
  have hf : ∀ (l : List (List P)) (res : Split), (∀ r ∈ l, ∀ v ∈ r, V v) → SplitV V res →
      SplitV V (l.foldl (fun res r =>
        let ra := r.toArray
        if r.length < 3 then { res with pointsAndLines := res.pointsAndLines.push ra }
        else if isOuter then
          (if !windingOK ra false then { res with inners := res.inners.push ra } else { res with outers := res.outers.push ra })
        else
          (if !windingOK ra true then { res with outers := res.outers.push ra } else { res with inners := res.inners.push ra })) res) := by
    intro l
    induction l with
    | nil => intro res _ hr; exact hr
    | cons r rest ih =>
      intro res hl hres
      simp only [List.foldl_cons]
      apply ih _ (fun x hx => hl x (List.mem_cons_of_mem _ hx))
      have hr : ∀ v ∈ r.toArray, V v := fun v hv => hl r List.mem_cons_self v (by simpa using hv)
      obtain ⟨ho, hi, hp⟩ := hres
      have push : ∀ (arr : Array (Array P)), (∀ q ∈ arr, ∀ v ∈ q, V v) → ∀ q ∈ arr.push r.toArray, ∀ v ∈ q, V v := by
        intro arr harr q hq v hv
        rcases Array.mem_push.1 hq with h1 | h1
        · exact harr q h1 v hv
        · subst h1; exact hr v hv
      split
      · exact ⟨ho, hi, push _ hp⟩
      · split
        · split
          · exact ⟨ho, push _ hi, hp⟩
          · exact ⟨push _ ho, hi, hp⟩
        · split
          · exact ⟨push _ ho, hi, hp⟩
          · exact ⟨ho, push _ hi, hp⟩
  have base := hf rings {} h ⟨by intro r hr; simp at hr, by intro r hr; simp at hr, by intro r hr; simp at hr⟩
  generalize (rings.foldl _ ({} : Split)) = res at base
  obtain ⟨ho, hi, hp⟩ := base
  have rev : ∀ (arr : Array (Array P)), (∀ q ∈ arr, ∀ v ∈ q, V v) → ∀ q ∈ arr.map Array.reverse, ∀ v ∈ q, V v := by
    intro arr harr q hq v hv
    simp only [Array.mem_map] at hq
    obtain ⟨q0, hq0, rfl⟩ := hq
    exact harr q0 hq0 v (by simpa using hv)
  simp only
  split
  · exact ⟨rev _ hi, by intro r hr; simp at hr, hp⟩
  · split
    · exact ⟨by intro r hr; simp at hr, rev _ ho, hp⟩
    · exact ⟨ho, hi, hp⟩

theorem splitRingF_V (V : P → Prop) (ring : List P) (isOuter : Bool) (isHit : P → Bool) (sp : Split) (hV : ∀ v ∈ ring, V v)
    (h : splitRingF ring isOuter isHit = .ok sp) : SplitV V sp := by
  unfold splitRingF at h
  cases ring with
  | nil => cases h
  | cons first rest =>
    simp only [bind, Except.bind] at h
    split at h
    · cases h
    · rename_i st hst
      simp only [pure, Except.pure, Except.ok.injEq] at h
      subst h
      have inv := splitLoop_inv V isHit _ 0 {} st
        (by intro v hv; rcases List.mem_append.1 hv with h1 | h1
            · exact hV v h1
            · simp only [List.mem_singleton] at h1; subst h1; exact hV _ List.mem_cons_self)
        ⟨(by intro e he v hv; simp at he; subst he; cases hv), (by intro e he; cases he)⟩ hst
      exact classify_V V isOuter _ (completeSorted_V V _ inv.complete)

/-- **nothing is invented by the ring clean-up**: every vertex of every ring that `cleanupNewRing` returns — shell parts, hole parts, points
and lines — is a vertex of the routed chain it was given -/
theorem cleanupNewRingF_V (V : P → Prop) (chain : List P) (isOuter : Bool) (isHit : P → Bool) (sp : Split) (hV : ∀ v ∈ chain, V v)
    (h : cleanupNewRingF chain isOuter isHit = .ok sp) : SplitV V sp := by
  unfold cleanupNewRingF at h
  simp only [bind, Except.bind, pure, Except.pure] at h
  have hnr : ∀ v ∈ (if (decide (chain.length > 1) && chain.head? == chain.getLast?) = true then chain.dropLast else chain), V v := by
    intro v hv
    split at hv
    · exact hV v ((List.dropLast_sublist _).subset hv)
    · exact hV v hv
  generalize (if (decide (chain.length > 1) && chain.head? == chain.getLast?) = true then chain.dropLast else chain) = nr at h hnr
  split at h
  · simp only [Except.ok.injEq] at h; subst h
    exact ⟨by intro r hr; simp at hr, by intro r hr; simp at hr, by intro r hr v hv; simp at hr; subst hr; exact hnr v (by simpa using hv)⟩
  · split at h
    · cases h
    · rename_i dd hdd
      have hddV : ∀ v ∈ dd, V v := fun v hv => hnr v (by simpa using kmpDeduplicateF_mem nr.toArray dd hdd v hv)
      split at h
      · simp only [Except.ok.injEq] at h; subst h
        exact ⟨by intro r hr; simp at hr, by intro r hr; simp at hr, by intro r hr v hv; simp at hr; subst hr; exact hddV v hv⟩
      · exact splitRingF_V V dd.toList isOuter isHit sp (fun v hv => hddV v (by simpa using hv)) h

end Texel
