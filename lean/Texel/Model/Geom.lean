/-! # Texel.Model.Geom — integer geometry of `pointindex` (core-only, executable)

Mirrors `pointindex.containsPoint` and `pointindex.lineIntersects` (the exact integer version of the
`fix:` commit for finding F1).  Coordinates are `Int` in units of 1e-10 (what `intgeom.FromGeomOrd` yields). -/
namespace Texel

structure Pt where (x y : Int) deriving DecidableEq, Repr, Hashable, Inhabited
structure Seg where (p1 p2 : Pt) deriving Repr
/-- `intgeom.Extent`; `maxX`, `maxY` exclusive -/
structure Box where (minX minY maxX maxY : Int) deriving Repr, DecidableEq

/-- `pointindex.containsPoint` -/
def containsPoint (p : Pt) (B : Box) : Bool :=
  decide (B.minX ≤ p.x) && decide (p.x < B.maxX) && decide (B.minY ≤ p.y) && decide (p.y < B.maxY)

theorem containsPoint_iff (p : Pt) (B : Box) :
    containsPoint p B = true ↔ B.minX ≤ p.x ∧ p.x < B.maxX ∧ B.minY ≤ p.y ∧ p.y < B.maxY := by
  simp [containsPoint, and_assoc]

/-- `tBound`: a bound `num/den` (`den > 0`) on the line parameter, possibly exclusive -/
structure Bound where
  num : Int
  den : Int
  strict : Bool
deriving Repr

/-- lower bound `l` is compatible with upper bound `u` (`mathhelp.CmpProducts` on the cross products) -/
def compat (l u : Bound) : Bool :=
  if l.strict || u.strict then decide (l.num * u.den < u.num * l.den) else decide (l.num * u.den ≤ u.num * l.den)

/-- per axis: `none` = the axis alone excludes every `t`; otherwise the (≤ 1) lower and upper bounds on `t` -/
def axisBounds (p d lo hi : Int) : Option (List Bound × List Bound) :=
  if d = 0 then (if lo ≤ p ∧ p < hi then some ([], []) else none)
  else if 0 < d then some ([⟨lo - p, d, false⟩], [⟨hi - p, d, true⟩])
  else some ([⟨p - hi, -d, true⟩], [⟨p - lo, -d, false⟩])

/-- `pointindex.lineIntersects`: closed segment meets half-open box -/
def lineIntersects (L : Seg) (B : Box) : Bool :=
  match axisBounds L.p1.x (L.p2.x - L.p1.x) B.minX B.maxX, axisBounds L.p1.y (L.p2.y - L.p1.y) B.minY B.maxY with
  | some (lx, ux), some (ly, uy) =>
    let lowers := ⟨0, 1, false⟩ :: (lx ++ ly)
    let uppers := ⟨1, 1, false⟩ :: (ux ++ uy)
    lowers.all fun l => uppers.all fun u => compat l u
  | _, _ => false

end Texel
