
namespace Texel.Pipe
/-! Core-only model of `processing.ProcessFeatures`:
    reader → (ch1) → snapper → (ch2) → router → (one channel per target) → N writers; two wait groups.
    All channels are unbuffered: a send and the matching receive are one joint step. -/

abbrev TM := Nat
/-- an item on ch2 / a target channel: (feature id, tile matrix id) -/
abbrev Item := Nat × TM

inductive Snapper where
  | idle                          -- blocked in `<-featuresIn`
  | pending (items : List Item)   -- inside the `for tmID, … := range` loop: still has to send these (any order)
  | closed                        -- has executed `close(featuresOut)`
deriving Repr, DecidableEq

inductive Router where
  | idle                          -- blocked in `<-featuresForTileMatrices`
  | holding (it : Item)           -- blocked in `channel <- feature`
  | closing (todo : List TM)      -- in the `for … close(targetChannel)` loop
  | waiting                       -- in `wg.Wait()` for the writers
  | done
deriving Repr, DecidableEq

structure State where
  src       : List Nat            -- features the reader has not sent yet
  ch1Closed : Bool                -- reader executed `close(features)`
  snapper   : Snapper
  router    : Router
  chClosed  : TM → Bool           -- target channel closed
  received  : TM → List Item      -- what target tm has received so far, in order
  wDone     : TM → Bool           -- target's WriteFeatures has returned (wg.Done)
  returned  : Bool                -- ProcessFeatures has returned

/-- configuration: the targets and what `processFeatures` emits per feature -/
structure Cfg where
  targets : List TM
  deliver : Nat → List TM         -- tile matrices that get (a wrapped copy of) feature f

def upd {α} (f : TM → α) (k : TM) (v : α) : TM → α := fun j => if j = k then v else f j

def init (fs : List Nat) : State :=
  { src := fs, ch1Closed := false, snapper := .idle, router := .idle,
    chClosed := fun _ => false, received := fun _ => [], wDone := fun _ => false, returned := false }

inductive Action where
  | readSend                      -- reader sends the next feature, snapper receives it and computes its outputs
  | readClose
  | snapSend (k : Nat)            -- snapper sends its k-th pending item, router receives it
  | snapClose
  | routeSend                     -- router forwards the held item, the target receives it
  | routeStartClose
  | routeClose (k : Nat)          -- router closes the k-th channel still on its list
  | routeWait
  | routeFinish                   -- all writers done: wg.Wait returns, router goroutine ends (wgRouter.Done)
  | writerFinish (tm : TM)        -- target sees its channel closed, does its last write, returns
  | mainReturn
deriving Repr

def step (c : Cfg) (s : State) : Action → Option State
  | .readSend =>
    match s.src, s.snapper with
    | f :: rest, .idle => if s.ch1Closed then none else
        let items := (c.deliver f).map (fun tm => (f, tm))
        some { s with src := rest, snapper := if items.isEmpty then .idle else .pending items }
    | _, _ => none
  | .readClose => if s.src.isEmpty && !s.ch1Closed then some { s with ch1Closed := true } else none
  | .snapSend k =>
    match s.snapper, s.router with
    | .pending items, .idle =>
      if h : k < items.length then
        let rest := items.eraseIdx k
        some { s with snapper := if rest.isEmpty then .idle else .pending rest, router := .holding items[k] }
      else none
    | _, _ => none
  | .snapClose =>
    match s.snapper with
    | .idle => if s.ch1Closed && s.src.isEmpty then some { s with snapper := .closed } else none
    | _ => none
  | .routeSend =>
    match s.router with
    | .holding it =>
      if it.2 ∈ c.targets ∧ s.chClosed it.2 = false ∧ s.wDone it.2 = false then
        some { s with router := .idle, received := upd s.received it.2 (s.received it.2 ++ [it]) }
      else none
    | _ => none
  | .routeStartClose =>
    match s.router, s.snapper with
    | .idle, .closed => some { s with router := .closing c.targets }
    | _, _ => none
  | .routeClose k =>
    match s.router with
    | .closing todo =>
      if h : k < todo.length then
        some { s with router := .closing (todo.eraseIdx k), chClosed := upd s.chClosed todo[k] true }
      else none
    | _ => none
  | .routeWait =>
    match s.router with
    | .closing [] => some { s with router := .waiting }
    | _ => none
  | .routeFinish =>
    match s.router with
    | .waiting => if c.targets.all (fun tm => s.wDone tm) then some { s with router := .done } else none
    | _ => none
  | .writerFinish tm =>
    if tm ∈ c.targets ∧ s.chClosed tm = true ∧ s.wDone tm = false then some { s with wDone := upd s.wDone tm true } else none
  | .mainReturn =>
    match s.router with
    | .done => if s.returned then none else some { s with returned := true }
    | _ => none

/-- what target `tm` must receive for the stream `fs` -/
def expected (c : Cfg) (fs : List Nat) (tm : TM) : List Item :=
  (fs.filter (fun f => (c.deliver f).contains tm)).map (fun f => (f, tm))

/-- run a schedule -/
def run (c : Cfg) (s : State) : List Action → Option State
  | [] => some s
  | a :: as => match step c s a with
    | some s' => run c s' as
    | none => none


/-! ### termination measure -/

def snapW : Snapper → Nat
  | .idle => 1
  | .pending items => 2 * items.length + 1
  | .closed => 0

def routerW (c : Cfg) : Router → Nat
  | .idle => c.targets.length + 4
  | .holding _ => c.targets.length + 5
  | .closing todo => todo.length + 3
  | .waiting => 2
  | .done => 1

def srcW (c : Cfg) : List Nat → Nat
  | [] => 0
  | f :: fs => 2 * (c.deliver f).length + 2 + srcW c fs

def countNotDone (wDone : TM → Bool) : List TM → Nat
  | [] => 0
  | t :: ts => (if wDone t then 0 else 1) + countNotDone wDone ts

def mu (c : Cfg) (s : State) : Nat :=
  srcW c s.src + (if s.ch1Closed then 0 else 1) + snapW s.snapper + routerW c s.router +
  countNotDone s.wDone c.targets + (if s.returned then 0 else 1)

/-! ### the concurrency skeleton this model was written for

What `trgen skel` extracts from `processing/processing.go` and `processing/gpkg/gpkg.go` (channel creation, goroutine starts,
sends, receives, closes, wait-group calls, defers, the loop/branch structure around them, the paging test of `WriteFeatures`
and the slice a row is built in by `writeFeatures`). `Properties/C10.lean` proves `Gen.Skel.skeleton = assumedSkeleton`
by `decide` on every run; a moved `close`, a removed `wg.Wait()`, a buffered channel, a changed paging test or an append to
the shared `Columns()` slice changes the extracted list. -/
def assumedSkeleton : List String := [
  "func ProcessFeatures",
  "make-chan unbuffered",
  "make-chan unbuffered",
  "wg.Add",
  "go func {",
  "defer wg.Done()",
  "call writeFeaturesToTargets",
  "}",
  "go processFeatures",
  "go readFeaturesFromSource",
  "wg.Wait",
  "end",
  "func readFeaturesFromSource",
  "call ReadFeatures",
  "end",
  "func processFeatures",
  "for {",
  "recv featuresIn",
  "if !hasMore {",
  "break",
  "}",
  "case geom.Polygon {",
  "call f",
  "range newPolygonsPerTileMatrix {",
  "if len(newPolygons) == 0 {",
  "panic",
  "}",
  "send featuresOut",
  "call wrapFeatureForTileMatrix",
  "}",
  "}",
  "case geom.MultiPolygon {",
  "call processMultiPolygon",
  "range newMultiPolygonPerTileMatrix {",
  "send featuresOut",
  "call wrapFeatureForTileMatrix",
  "}",
  "}",
  "default {",
  "range tmIDs {",
  "send featuresOut",
  "call wrapFeatureForTileMatrix",
  "}",
  "}",
  "}",
  "close featuresOut",
  "end",
  "func writeFeaturesToTargets",
  "range targets {",
  "make-chan unbuffered",
  "wg.Add",
  "go func {",
  "defer wg.Done()",
  "call WriteFeatures",
  "}",
  "}",
  "for {",
  "recv featuresForTileMatrices",
  "if !ok {",
  "break",
  "}",
  "if channel == nil {",
  "panic",
  "}",
  "send channel",
  "}",
  "range targetChannels {",
  "close targetChannel",
  "}",
  "wg.Wait",
  "end",
  "func processMultiPolygon",
  "range multiPolygon {",
  "call f",
  "}",
  "return",
  "end",
  "func ReadFeatures",
  "call Columns",
  "for rows.Next() {",
  "send features",
  "}",
  "close features",
  "defer rows.Close()",
  "end",
  "func WriteFeatures",
  "for {",
  "recv inFeatures",
  "if !hasMore {",
  "call writeFeatures",
  "break",
  "}",
  "append append(features, feature)",
  "if len(features)%target.pagesize == 0 {",
  "call writeFeatures",
  "reset features",
  "}",
  "}",
  "end",
  "func writeFeatures",
  "call Begin",
  "range features {",
  "make-slice make([]interface{}, 0, len(f.Columns())+1)",
  "call Columns",
  "append append(data, f.Columns()...)",
  "call Columns",
  "append append(data, sb)",
  "call Exec",
  "if ext == nil {",
  "if err != nil {",
  "reset ext",
  "continue",
  "}",
  "}",
  "}",
  "call Commit",
  "end"
]


end Texel.Pipe
